From Cam Require Import Outcome Bytes Ack Event GenCPLayout.

(* ---- finite enumeration helper ------------------------------------------- *)

Fixpoint upto (fuel : nat) (x : Z) : list Z :=
  match fuel with O => [] | S f => x :: upto f (x + 1) end.

Lemma in_upto fuel : forall a x, a <= x < a + Z.of_nat fuel -> In x (upto fuel a).
Proof.
  induction fuel as [|f IH]; intros a x H; [lia|].
  cbn [upto]. destruct (Z.eq_dec x a) as [->|Hne]; [now left|right].
  apply IH. lia.
Qed.

Lemma forall_u16 (P : Z -> bool) :
  forallb P (upto (Z.to_nat 65536) 0) = true -> forall x, 0 <= x < 65536 -> P x = true.
Proof.
  intros H x Hx. rewrite forallb_forall in H. apply H. apply in_upto. lia.
Qed.

(* ---- status / kind tables: complete enumeration of the 16-bit code space ---- *)

Definition outcome_eqb (a : outcome Z) (b : option Z) : bool :=
  match a, b with
  | Ok x, Some y => x =? y
  | Err e, None => e =? E_INVALID_PACKET
  | _, _ => false
  end.

Lemma outcome_eqb_spec a b : outcome_eqb a b = true ->
  a = match b with Some k => Ok k | None => Err E_INVALID_PACKET end.
Proof.
  destruct a as [x|e|], b as [y|]; cbn; try discriminate.
  - intros H. apply Z.eqb_eq in H. now subst.
  - intros H. apply Z.eqb_eq in H. now subst.
Qed.

Lemma status_table_sweep :
  forallb (fun c => outcome_eqb (status_kind c) (spec_status c) &&
                    Bool.eqb (status_is_fatal c) (spec_fatal c)) (upto (Z.to_nat 65536) 0) = true.
Proof. vm_compute. reflexivity. Qed.

Lemma status_table code : 0 <= code < 65536 ->
  status_kind code = match spec_status code with Some k => Ok k | None => Err E_INVALID_PACKET end
  /\ status_is_fatal code = spec_fatal code.
Proof.
  intros H. pose proof (forall_u16 _ status_table_sweep code H) as E.
  apply andb_true_iff in E. destruct E as [E1 E2]. split.
  - now apply outcome_eqb_spec.
  - now apply Bool.eqb_prop.
Qed.

Lemma kind_table_sweep :
  forallb (fun c => outcome_eqb (scd_kind_of c) (spec_ack_kind c)) (upto (Z.to_nat 65536) 0) = true.
Proof. vm_compute. reflexivity. Qed.

Lemma kind_table id : 0 <= id < 65536 ->
  scd_kind_of id = match spec_ack_kind id with Some k => Ok k | None => Err E_INVALID_PACKET end.
Proof. intros H. apply outcome_eqb_spec. exact (forall_u16 _ kind_table_sweep id H). Qed.

(* the code as found at the pinned commit violates the property: a device-specific status
   (namespace 0b10), which a conforming device may send, panics in a debug build *)
Lemma status_v0_refuted :
  exists code, 0 <= code < 65536 /\ spec_status code = Some 200 /\ status_kind_v0 code = Panic.
Proof. exists 0x4000. split; [lia|split; vm_compute; reflexivity]. Qed.

(* ---- cursor reads expressed by offsets -------------------------------------- *)

Lemma rd_skipn off n bs : (0 < n)%nat ->
  rd n (skipn off bs) =
  if (length bs <? off + n)%nat then Err E_BUFFER_IO
  else Ok (le_at off n bs, skipn (off + n) bs).
Proof.
  intros Hn. unfold rd, le_at. rewrite skipn_length, skipn_skipn_add.
  destruct (length bs - off <? n)%nat eqn:E1; destruct (length bs <? off + n)%nat eqn:E2;
    try reflexivity; apply Nat.ltb_lt in E1 || apply Nat.ltb_ge in E1;
    apply Nat.ltb_lt in E2 || apply Nat.ltb_ge in E2; lia.
Qed.

Lemma rd0 n bs : (0 < n)%nat ->
  rd n bs = if (length bs <? n)%nat then Err E_BUFFER_IO else Ok (le_at 0 n bs, skipn n bs).
Proof. intros H. exact (rd_skipn 0 n bs H). Qed.

Lemma le_at_range off n bs : bytes_ok bs -> 0 <= le_at off n bs < 256 ^ Z.of_nat n.
Proof.
  intros H. unfold le_at.
  assert (Hs : bytes_ok (firstn n (skipn off bs))).
  { apply bytes_ok_firstn, bytes_ok_skipn, H. }
  pose proof (of_le_bound _ Hs) as B.
  assert (L : (length (firstn n (skipn off bs)) <= n)%nat) by apply firstn_le_length.
  split; [lia|]. eapply Z.lt_le_trans; [apply B|].
  apply Z.pow_le_mono_r; lia.
Qed.

Lemma le_at_u16 off bs : bytes_ok bs -> 0 <= le_at off 2 bs < 65536.
Proof. intros H. pose proof (le_at_range off 2 bs H) as B. change (256 ^ Z.of_nat 2) with 65536 in B. exact B. Qed.

(* ---- AckPacket::parse = fixed-offset specification --------------------------- *)

Definition to_sack (a : ack) : sack :=
  {| sa_code := a_code a; sa_status := a_status a; sa_kind := a_kind a; sa_scd_len := a_scd_len a;
     sa_request_id := a_request_id a; sa_scd := a_raw_scd a |}.

Definition agree {A B} (f : A -> B) (o : outcome A) (s : option B) : Prop :=
  match o, s with
  | Ok a, Some b => f a = b
  | Err _, None => True
  | _, _ => False
  end.

Lemma parse_ack_faithful bs : bytes_ok bs -> agree to_sack (parse_ack bs) (spec_ack bs).
Proof.
  intros Hb. unfold parse_ack, parse_ack_with, spec_ack.
  rewrite rd0 by lia.
  destruct (length bs <? 4)%nat eqn:L4.
  { apply Nat.ltb_lt in L4. destruct (length bs <? 12)%nat eqn:L12; [exact I|apply Nat.ltb_ge in L12; lia]. }
  apply Nat.ltb_ge in L4. cbn [bind].
  change ACK_MAGIC with 1129722709.
  destruct (negb (le_at 0 4 bs =? 1129722709)) eqn:Em.
  { destruct (length bs <? 12)%nat; exact I. }
  rewrite (rd_skipn 4 2) by lia. cbn [Nat.add].
  destruct (length bs <? 6)%nat eqn:L6.
  { apply Nat.ltb_lt in L6. destruct (length bs <? 12)%nat eqn:L12; [exact I|apply Nat.ltb_ge in L12; lia]. }
  apply Nat.ltb_ge in L6. cbn [bind].
  destruct (status_table (le_at 4 2 bs) (le_at_u16 4 bs Hb)) as [Est _]. rewrite Est.
  destruct (spec_status (le_at 4 2 bs)) as [st|] eqn:Es; cbn [bind].
  2:{ destruct (length bs <? 12)%nat; exact I. }
  rewrite (rd_skipn 6 2) by lia. cbn [Nat.add].
  destruct (length bs <? 8)%nat eqn:L8.
  { apply Nat.ltb_lt in L8. destruct (length bs <? 12)%nat eqn:L12; [exact I|apply Nat.ltb_ge in L12; lia]. }
  apply Nat.ltb_ge in L8. cbn [bind].
  rewrite (kind_table (le_at 6 2 bs) (le_at_u16 6 bs Hb)).
  destruct (spec_ack_kind (le_at 6 2 bs)) as [k|] eqn:Ek; cbn [bind].
  2:{ destruct (length bs <? 12)%nat; exact I. }
  rewrite (rd_skipn 8 2) by lia. cbn [Nat.add].
  destruct (length bs <? 10)%nat eqn:L10.
  { apply Nat.ltb_lt in L10. destruct (length bs <? 12)%nat eqn:L12; [exact I|apply Nat.ltb_ge in L12; lia]. }
  apply Nat.ltb_ge in L10. cbn [bind].
  rewrite (rd_skipn 10 2) by lia. cbn [Nat.add].
  destruct (length bs <? 12)%nat eqn:L12; [exact I|]. cbn [bind agree]. reflexivity.
Qed.

Lemma parse_ack_no_panic bs : bytes_ok bs -> parse_ack bs <> Panic.
Proof.
  intros H E. pose proof (parse_ack_faithful bs H) as A. rewrite E in A.
  unfold agree in A. destruct (spec_ack bs); exact A.
Qed.

(* ---- typed views --------------------------------------------------------------- *)

Lemma view_data_spec a :
  agree (fun d => d) (view_data a) (spec_view_data (to_sack a)).
Proof.
  unfold view_data, spec_view_data. cbn [to_sack sa_scd sa_scd_len].
  destruct (zlen (a_raw_scd a) <? a_scd_len a); cbn [agree]; [exact I|reflexivity].
Qed.

(* a data view is a prefix of the SCD actually present in the buffer *)
Lemma view_data_in_bounds a d : view_data a = Ok d ->
  a_scd_len a <= zlen (a_raw_scd a) /\ d = take (a_scd_len a) (a_raw_scd a).
Proof.
  unfold view_data. destruct (zlen (a_raw_scd a) <? a_scd_len a) eqn:E; [discriminate|].
  intros H; inversion H; subst. split; [lia|reflexivity].
Qed.

Lemma view_write_spec a :
  agree (fun z => z) (view_write a) (spec_view_write (to_sack a)).
Proof.
  unfold view_write, spec_view_write. cbn [to_sack sa_scd].
  rewrite rd0 by lia.
  destruct (length (a_raw_scd a) <? 2)%nat eqn:L2.
  { apply Nat.ltb_lt in L2. destruct (length (a_raw_scd a) <? 4)%nat eqn:L4; [exact I|apply Nat.ltb_ge in L4; lia]. }
  apply Nat.ltb_ge in L2. cbn [bind].
  destruct (le_at 0 2 (a_raw_scd a) =? 0) eqn:E0; cbn [negb].
  2:{ destruct (length (a_raw_scd a) <? 4)%nat; exact I. }
  rewrite (rd_skipn 2 2) by lia. cbn [Nat.add].
  destruct (length (a_raw_scd a) <? 4)%nat; cbn [bind agree]; [exact I|reflexivity].
Qed.

Lemma rd_no_panic n bs : rd n bs <> Panic.
Proof. unfold rd. destruct (length bs <? n)%nat; discriminate. Qed.

Lemma wms_loop_no_panic fuel : forall tr bs acc, wms_loop false fuel tr bs acc <> Panic.
Proof.
  induction fuel as [|f IH]; intros tr bs acc; cbn [wms_loop];
    destruct (tr <=? 0); try discriminate.
  unfold rd. destruct (length bs <? 2)%nat; cbn [bind]; try discriminate.
  destruct (negb _); try discriminate.
  destruct (length (skipn 2 bs) <? 2)%nat; cbn [bind]; try discriminate.
  destruct (tr <? 4); try discriminate. apply IH.
Qed.

Lemma view_write_stacked_no_panic a : view_write_stacked a <> Panic.
Proof. apply wms_loop_no_panic. Qed.

(* pinned code: an SCD length that is not a multiple of 4 panics (usize underflow, debug build) *)
Lemma view_write_stacked_v0_refuted :
  exists a, view_write_stacked_with true a = Panic.
Proof.
  exists {| a_code := 0; a_status := 0; a_kind := 3; a_scd_len := 2; a_request_id := 0;
            a_raw_scd := [0; 0; 4; 0] |}.
  vm_compute. reflexivity.
Qed.

(* ---- every conforming acknowledge is accepted --------------------------------- *)

Lemma rd_app n v r : 0 <= v < 256 ^ Z.of_nat n -> rd n (le_bytes n v ++ r) = Ok (v, r).
Proof.
  intros Hv. unfold rd. rewrite app_length, le_bytes_length.
  destruct (n + length r <? n)%nat eqn:E; [apply Nat.ltb_lt in E; lia|].
  rewrite firstn_app, le_bytes_length, Nat.sub_diag, firstn_O, app_nil_r.
  rewrite firstn_all2 by (rewrite le_bytes_length; lia).
  rewrite skipn_app, le_bytes_length, Nat.sub_diag, skipn_O.
  rewrite skipn_all2 by (rewrite le_bytes_length; lia).
  now rewrite of_le_le_bytes.
Qed.

Lemma p256_2 : 256 ^ Z.of_nat 2 = 65536. Proof. reflexivity. Qed.
Lemma p256_4 : 256 ^ Z.of_nat 4 = 4294967296. Proof. reflexivity. Qed.
Lemma p256_8 : 256 ^ Z.of_nat 8 = 18446744073709551616. Proof. reflexivity. Qed.

Lemma accepts_conforming code st id k rid scd :
  0 <= code < 65536 -> spec_status code = Some st ->
  0 <= id < 65536 -> spec_ack_kind id = Some k ->
  0 <= rid < 65536 -> zlen scd < 65536 ->
  parse_ack (enc_ack code id rid scd) =
  Ok {| a_code := code; a_status := st; a_kind := k; a_scd_len := zlen scd;
        a_request_id := rid; a_raw_scd := scd |}.
Proof.
  intros Hc Hst Hid Hk Hr Hl. pose proof (zlen_nonneg scd).
  unfold parse_ack, parse_ack_with, enc_ack.
  rewrite rd_app by (rewrite p256_4; lia). cbn [bind].
  change (1129722709 =? ACK_MAGIC) with true. cbn [negb].
  rewrite rd_app by (rewrite p256_2; lia). cbn [bind].
  destruct (status_table code Hc) as [E _]. rewrite E, Hst. cbn [bind].
  rewrite rd_app by (rewrite p256_2; lia). cbn [bind].
  rewrite (kind_table id Hid), Hk. cbn [bind].
  rewrite rd_app by (rewrite p256_2; lia). cbn [bind].
  rewrite rd_app by (rewrite p256_2; lia). cbn [bind]. reflexivity.
Qed.

Lemma view_data_conforming a : a_scd_len a = zlen (a_raw_scd a) -> view_data a = Ok (a_raw_scd a).
Proof.
  intros H. unfold view_data. rewrite H.
  destruct (zlen (a_raw_scd a) <? zlen (a_raw_scd a)) eqn:E; [lia|].
  f_equal. unfold take, zlen. rewrite Nat2Z.id. apply firstn_all.
Qed.

Lemma view_write_conforming a len : 0 <= len < 65536 ->
  a_raw_scd a = enc_write_scd len -> view_write a = Ok len.
Proof.
  intros Hl E. unfold view_write. rewrite E. unfold enc_write_scd.
  rewrite rd_app by (rewrite p256_2; lia). cbn [bind]. cbn [Z.eqb negb].
  rewrite <- (app_nil_r (le_bytes 2 len)). rewrite rd_app by (rewrite p256_2; lia). reflexivity.
Qed.

Lemma wms_loop_conforming lens : Forall (fun l => 0 <= l < 65536) lens ->
  forall fuel acc rest, (length lens < fuel)%nat ->
  wms_loop false fuel (4 * zlen lens) (enc_write_stacked_scd lens ++ rest) acc = Ok (rev acc ++ lens).
Proof.
  induction 1 as [|l lens Hl Hls IH]; intros fuel acc rest Hf.
  - destruct fuel; cbn [wms_loop]; change (4 * zlen (@nil Z) <=? 0) with true; cbv iota;
      now rewrite app_nil_r.
  - destruct fuel as [|f]; [cbn [length] in Hf; lia|].
    cbn [wms_loop]. rewrite zlen_cons. pose proof (zlen_nonneg lens).
    destruct (4 * (1 + zlen lens) <=? 0) eqn:E0; [lia|].
    unfold enc_write_stacked_scd. cbn [flat_map]. unfold enc_write_scd at 1.
    rewrite <- !app_assoc.
    rewrite rd_app by (rewrite p256_2; lia). cbn [bind]. cbn [Z.eqb negb].
    rewrite rd_app by (rewrite p256_2; lia). cbn [bind].
    destruct (4 * (1 + zlen lens) <? 4) eqn:E4; [lia|].
    replace (4 * (1 + zlen lens) - 4) with (4 * zlen lens) by lia.
    fold (enc_write_stacked_scd lens). rewrite IH by (cbn [length] in Hf; lia).
    cbn [rev]. now rewrite <- app_assoc.
Qed.

Lemma view_write_stacked_conforming a lens :
  Forall (fun l => 0 <= l < 65536) lens -> 4 * zlen lens < 65536 ->
  a_scd_len a = 4 * zlen lens -> a_raw_scd a = enc_write_stacked_scd lens ->
  view_write_stacked a = Ok lens.
Proof.
  intros F Hl E1 E2. unfold view_write_stacked, view_write_stacked_with. rewrite E1, E2.
  rewrite <- (app_nil_r (enc_write_stacked_scd lens)).
  rewrite wms_loop_conforming; [reflexivity|exact F|].
  pose proof (zlen_nonneg lens). unfold zlen in *. lia.
Qed.

(* ---- events ---------------------------------------------------------------------- *)

Definition to_event (e : sevent) : event :=
  {| ev_size := 12 + zlen (se_data e); ev_id := se_id e; ev_timestamp := se_timestamp e;
     ev_data := se_data e |}.

Definition sevent_ok (e : sevent) : Prop :=
  0 <= se_id e < 65536 /\ 0 <= se_timestamp e < 2 ^ 64 /\ 12 + zlen (se_data e) < 65536.

Definition events_size (evs : list sevent) : Z :=
  fold_right (fun e acc => 12 + zlen (se_data e) + acc) 0 evs.

Lemma events_size_nonneg evs : 0 <= events_size evs.
Proof.
  induction evs as [|e evs IH]; cbn [events_size fold_right]; [lia|].
  pose proof (zlen_nonneg (se_data e)). unfold events_size in IH. lia.
Qed.

Lemma zlen_enc_event e : zlen (enc_event e) = 12 + zlen (se_data e).
Proof. unfold enc_event. rewrite !zlen_app, !zlen_le_bytes. lia. Qed.

Lemma zlen_flat_events evs : zlen (flat_map enc_event evs) = events_size evs.
Proof.
  induction evs as [|e evs IH]; cbn [flat_map events_size fold_right]; [reflexivity|].
  rewrite zlen_app, zlen_enc_event, IH. unfold events_size. lia.
Qed.

Lemma read_and_seek_app d r : read_and_seek (zlen d) (d ++ r) = Ok (d, r).
Proof.
  unfold read_and_seek. rewrite zlen_app. pose proof (zlen_nonneg r).
  destruct (zlen d + zlen r <? zlen d) eqn:E; [lia|].
  now rewrite take_app_exact, drop_app_exact.
Qed.

Lemma event_loop_roundtrip evs : Forall sevent_ok evs ->
  forall fuel acc rest, (length evs < fuel)%nat ->
  event_loop fuel (events_size evs) (flat_map enc_event evs ++ rest) acc =
  Ok (rev acc ++ map to_event evs).
Proof.
  induction 1 as [|e evs [Hi [Ht Hs]] Hes IH]; intros fuel acc rest Hf.
  - destruct fuel; cbn [event_loop]; change (events_size [] <=? 0) with true; cbv iota;
      cbn [map]; now rewrite app_nil_r.
  - destruct fuel as [|f]; [cbn [length] in Hf; lia|].
    cbn [event_loop]. cbn [events_size fold_right]. fold (events_size evs).
    pose proof (events_size_nonneg evs). pose proof (zlen_nonneg (se_data e)).
    destruct (12 + zlen (se_data e) + events_size evs <=? 0) eqn:E0; [lia|].
    cbn [flat_map]. unfold enc_event at 1. rewrite <- !app_assoc.
    rewrite rd_app by (rewrite p256_2; lia). cbn [bind].
    rewrite rd_app by (rewrite p256_2; lia). cbn [bind].
    rewrite rd_app by (rewrite p256_8; lia). cbn [bind].
    destruct (12 + zlen (se_data e) =? 0) eqn:E1; [lia|].
    destruct (12 + zlen (se_data e) <? 12) eqn:E2; [lia|].
    destruct (12 + zlen (se_data e) + events_size evs <? 12 + zlen (se_data e)) eqn:E3; [lia|].
    replace (12 + zlen (se_data e) - 12) with (zlen (se_data e)) by lia.
    rewrite read_and_seek_app. cbn [bind].
    replace (12 + zlen (se_data e) + events_size evs - (12 + zlen (se_data e))) with (events_size evs) by lia.
    rewrite IH by (cbn [length] in Hf; lia).
    cbn [rev map]. rewrite <- app_assoc. reflexivity.
Qed.

Lemma event_roundtrip flag rid evs :
  0 <= flag < 65536 -> 0 <= rid < 65536 -> Forall sevent_ok evs -> events_size evs < 65536 ->
  parse_event (enc_event_packet flag rid evs) = Ok (rid, map to_event evs).
Proof.
  intros Hf Hr F Hs. pose proof (events_size_nonneg evs).
  unfold parse_event, enc_event_packet.
  rewrite rd_app by (rewrite p256_4; lia). cbn [bind].
  change (1163277141 =? EVENT_MAGIC) with true. cbn [negb].
  rewrite rd_app by (rewrite p256_2; lia). cbn [bind].
  rewrite rd_app by (rewrite p256_2; lia). cbn [bind].
  change (3072 =? EVENT_COMMAND_ID) with true. cbn [negb].
  rewrite zlen_flat_events.
  rewrite rd_app by (rewrite p256_2; lia). cbn [bind].
  rewrite rd_app by (rewrite p256_2; lia). cbn [bind].
  rewrite <- (app_nil_r (flat_map enc_event evs)).
  rewrite event_loop_roundtrip; [reflexivity|exact F|].
  assert (Z.of_nat (length evs) <= events_size evs).
  { clear. induction evs as [|e evs IH]; cbn [length events_size fold_right]; [lia|].
    pose proof (zlen_nonneg (se_data e)). unfold events_size in IH. lia. }
  lia.
Qed.

Lemma single_event_roundtrip flag rid e :
  0 <= flag < 65536 -> 0 <= rid < 65536 -> sevent_ok e ->
  parse_event (enc_single_event_packet flag rid e) =
  Ok (rid, [{| ev_size := 0; ev_id := se_id e; ev_timestamp := se_timestamp e; ev_data := se_data e |}]).
Proof.
  intros Hf Hr [Hi [Ht Hs]]. pose proof (zlen_nonneg (se_data e)).
  unfold parse_event, enc_single_event_packet.
  rewrite rd_app by (rewrite p256_4; lia). cbn [bind].
  change (1163277141 =? EVENT_MAGIC) with true. cbn [negb].
  rewrite rd_app by (rewrite p256_2; lia). cbn [bind].
  rewrite rd_app by (rewrite p256_2; lia). cbn [bind].
  change (3072 =? EVENT_COMMAND_ID) with true. cbn [negb].
  rewrite !zlen_app, !zlen_le_bytes.
  rewrite rd_app by (rewrite p256_2; lia). cbn [bind].
  rewrite rd_app by (rewrite p256_2; lia). cbn [bind].
  set (n := Z.of_nat 2 + (Z.of_nat 2 + (Z.of_nat 8 + zlen (se_data e)))).
  assert (Hn : n = 12 + zlen (se_data e)) by (subst n; lia).
  destruct (Z.to_nat n) as [|k] eqn:Ek; [lia|].
  cbn [event_loop]. destruct (n <=? 0) eqn:E0; [lia|].
  rewrite rd_app by (rewrite p256_2; lia). cbn [bind].
  rewrite rd_app by (rewrite p256_2; lia). cbn [bind].
  rewrite rd_app by (rewrite p256_8; lia). cbn [bind].
  cbn [Z.eqb]. destruct (n <? 12) eqn:E1; [lia|].
  replace (n - 12) with (zlen (se_data e)) by lia.
  rewrite <- (app_nil_r (se_data e)) at 2. rewrite read_and_seek_app. cbn [bind].
  cbn [event_loop]. cbn [Z.leb]. cbv iota. reflexivity.
Qed.

Lemma event_loop_no_panic fuel : forall rem bs acc, event_loop fuel rem bs acc <> Panic.
Proof.
  induction fuel as [|f IH]; intros rem bs acc; cbn [event_loop];
    destruct (rem <=? 0); try discriminate.
  unfold rd. destruct (length bs <? 2)%nat; cbn [bind]; try discriminate.
  destruct (length (skipn 2 bs) <? 2)%nat; cbn [bind]; try discriminate.
  destruct (length (skipn 2 (skipn 2 bs)) <? 8)%nat; cbn [bind]; try discriminate.
  destruct (_ =? 0).
  - destruct (rem <? 12); try discriminate. unfold read_and_seek.
    destruct (_ <? _); cbn [bind]; try discriminate. apply IH.
  - destruct (_ <? 12); try discriminate. destruct (rem <? _); try discriminate.
    unfold read_and_seek. destruct (_ <? _); cbn [bind]; try discriminate. apply IH.
Qed.

Lemma parse_event_no_panic bs : parse_event bs <> Panic.
Proof.
  unfold parse_event, rd.
  destruct (length bs <? 4)%nat; cbn [bind]; try discriminate.
  destruct (negb _); try discriminate.
  destruct (length (skipn 4 bs) <? 2)%nat; cbn [bind]; try discriminate.
  destruct (length (skipn 2 (skipn 4 bs)) <? 2)%nat; cbn [bind]; try discriminate.
  destruct (negb _); try discriminate.
  destruct (length (skipn 2 (skipn 2 (skipn 4 bs))) <? 2)%nat; cbn [bind]; try discriminate.
  destruct (length (skipn 2 (skipn 2 (skipn 2 (skipn 4 bs)))) <? 2)%nat; cbn [bind]; try discriminate.
  match goal with |- context [event_loop ?f ?r ?b ?a] =>
    pose proof (event_loop_no_panic f r b a) as H; destruct (event_loop f r b a) end;
    cbn [bind]; congruence.
Qed.

(* non-vacuity *)
Example ack_example :
  parse_ack (enc_ack 0 2049 7 [1;2;3;4]) =
  Ok {| a_code := 0; a_status := 0; a_kind := 0; a_scd_len := 4; a_request_id := 7; a_raw_scd := [1;2;3;4] |}.
Proof. vm_compute. reflexivity. Qed.
