(* C03s - the value-dispatch layer of the GenApi node interpreter TRANSLATED FROM THE SOURCE (tools/translate_ivalue.py ->
   gen/IValueSrc.v over the vocabulary of model/IvOps.v) against the hand-written model model/Graph.v.

   A. kind_*: the I*Kind::maybe_from tables are the model's is_int / is_flt / is_str / is_enum / is_bool.
   B. nodeid_*: IValue<i64> / <f64> / <String> for NodeId (order of the as_*_kind tests, conversions, final errors)
      are nid_get_i / nid_set_i / nid_get_f / nid_set_f / nid_readable and the pValue arm of the NString clauses;
      integerid_* / floatid_* / stringid_*: the macro instances for the value-store ids (through the translated
      ValueStore::integer_value / float_value / str_value) are vid_int / vid_flt / vid_str / vid_set.
   C. src_* / isrc_* / vk_*: ImmOrPNode and ValueKind with the dictionaries rustc resolves for the node kinds are
      src_get_i .. vk_readable, for every syntax tree of the model ([of_src], [of_vk]: the model's syntax as the
      translated data types); lists of pValueCopy targets and of indexed values of any length by induction.
   D. pvalue_set_in_order, pindex_value_spec, pindex_set_spec: clauses of the property on the translated code alone,
      for ANY dictionaries.
   E. *_node_src: the translated value paths of IntegerNode / FloatNode / BooleanNode / EnumerationNode / CommandNode
      are the corresponding clauses of [step]; run_from_source closes the recursion with the model's [run]. *)
From Cam Require Import Outcome Bytes Mem BitField RegCodec Formula Graph IvOps IValueSrc.

Section S.
  Variable fops : float_ops.
  Variable nodes : list node.
  Variable call : req -> M ans.
  Variable ent : nat -> option eentry.
  Definition EV : ivenv := {| ie_fops := fops; ie_nodes := nodes; ie_call := call; ie_entry := ent |}.

  Lemma kind_int n : src_IIntegerKind_maybe_from EV n = if is_int (body_of nodes n) then Some n else None.
  Proof.
    unfold src_IIntegerKind_maybe_from, iv_node_opt, iv_obind, body_of. cbn [ie_nodes EV].
    destruct (nth_error nodes n) as [nd|]; [destruct (nd_body nd)|]; reflexivity.
  Qed.
  Lemma kind_flt n : src_IFloatKind_maybe_from EV n = if is_flt (body_of nodes n) then Some n else None.
  Proof.
    unfold src_IFloatKind_maybe_from, iv_node_opt, iv_obind, body_of. cbn [ie_nodes EV].
    destruct (nth_error nodes n) as [nd|]; [destruct (nd_body nd)|]; reflexivity.
  Qed.
  Lemma kind_enum n : src_IEnumerationKind_maybe_from EV n = if is_enum (body_of nodes n) then Some n else None.
  Proof.
    unfold src_IEnumerationKind_maybe_from, iv_node_opt, iv_obind, body_of. cbn [ie_nodes EV].
    destruct (nth_error nodes n) as [nd|]; [destruct (nd_body nd)|]; reflexivity.
  Qed.
  Lemma kind_str n : src_IStringKind_maybe_from EV n = if is_str (body_of nodes n) then Some n else None.
  Proof.
    unfold src_IStringKind_maybe_from, iv_node_opt, iv_obind, body_of. cbn [ie_nodes EV].
    destruct (nth_error nodes n) as [nd|]; [destruct (nd_body nd)|]; reflexivity.
  Qed.
  Lemma kind_bool n : src_IBooleanKind_maybe_from EV n = if is_bool (body_of nodes n) then Some n else None.
  Proof.
    unfold src_IBooleanKind_maybe_from, iv_node_opt, iv_obind, body_of. cbn [ie_nodes EV].
    destruct (nth_error nodes n) as [nd|]; [destruct (nd_body nd)|]; reflexivity.
  Qed.

  Ltac kinds := unfold src_NodeId_expect_iinteger_kind, src_NodeId_expect_istring_kind,
      src_NodeId_as_iinteger_kind, src_NodeId_as_ifloat_kind, src_NodeId_as_ienumeration_kind,
      src_NodeId_as_istring_kind, src_NodeId_as_iboolean_kind;
    rewrite ?kind_int, ?kind_flt, ?kind_enum, ?kind_str, ?kind_bool.

  (* case analysis on the head computation of either side *)
  Ltac mstep :=
    match goal with
    | |- context [match call ?q ?s with _ => _ end] => destruct (call q s) as [[[]|?|] ?]
    end.
  Ltac munf := cbv beta delta [mbind mret merr mpanic mlift iv_map iv_unwrap iv_unwrap_result iv_ok_or iv_obind
       iv_IInteger_value iv_IInteger_set_value iv_IInteger_is_readable iv_IFloat_value iv_IFloat_set_value
       iv_IFloat_is_readable iv_IEnumeration_current_value iv_IEnumeration_set_entry_by_value
       iv_IEnumeration_is_readable iv_IString_value iv_IString_set_value iv_IString_is_readable
       iv_f64_as_i64 iv_i64_as_f64 iv_cx_invalidate_cache_by iv_cx_invalidate_cache_of
       as_z as_u as_b as_l as_oz as_e]; cbn [ie_call ie_fops ie_nodes ie_entry EV].

  Lemma nodeid_i64_value n s : IValue_value (src_NodeId_IValue_i64 EV) n s = nid_get_i fops nodes call n s.
  Proof.
    unfold src_NodeId_IValue_i64, src_NodeId_IValue_i64_value, nid_get_i; cbn [IValue_value]. kinds.
    destruct (is_int (body_of nodes n)); [|destruct (is_flt (body_of nodes n)); [|destruct (is_enum (body_of nodes n))]];
      munf; try reflexivity; mstep; reflexivity.
  Qed.

  Ltac nid_tac := kinds;
    match goal with |- context [body_of nodes ?n] =>
      destruct (is_int (body_of nodes n)); [|destruct (is_flt (body_of nodes n)); [|destruct (is_enum (body_of nodes n))]] end;
    munf; try reflexivity; try (mstep; reflexivity).

  Lemma nodeid_i64_set n v s : IValue_set_value (src_NodeId_IValue_i64 EV) n v s = nid_set_i fops nodes call n v s.
  Proof. unfold src_NodeId_IValue_i64, src_NodeId_IValue_i64_set_value, nid_set_i; cbn [IValue_set_value]. nid_tac. Qed.
  Lemma nodeid_f64_value n s : IValue_value (src_NodeId_IValue_f64 EV) n s = nid_get_f fops nodes call n s.
  Proof. unfold src_NodeId_IValue_f64, src_NodeId_IValue_f64_value, nid_get_f; cbn [IValue_value]. nid_tac. Qed.
  Lemma nodeid_f64_set n v s : IValue_set_value (src_NodeId_IValue_f64 EV) n v s = nid_set_f fops nodes call n v s.
  Proof. unfold src_NodeId_IValue_f64, src_NodeId_IValue_f64_set_value, nid_set_f; cbn [IValue_set_value]. nid_tac. Qed.
  Lemma nodeid_i64_readable n s : IValue_is_readable (src_NodeId_IValue_i64 EV) n s = nid_readable nodes call n s.
  Proof. unfold src_NodeId_IValue_i64, src_NodeId_IValue_i64_is_readable, nid_readable; cbn [IValue_is_readable]. nid_tac. Qed.
  Lemma nodeid_f64_readable n s : IValue_is_readable (src_NodeId_IValue_f64 EV) n s = nid_readable nodes call n s.
  Proof. unfold src_NodeId_IValue_f64, src_NodeId_IValue_f64_is_readable, nid_readable; cbn [IValue_is_readable]. nid_tac. Qed.

  (* IValue<String> for NodeId: what the NString clauses of the model do with a pValue *)
  Lemma nodeid_string_value m s :
    IValue_value (src_NodeId_IValue_String EV) m s
    = (if is_str (body_of nodes m) then (let! a := call (QStrValue m) in as_l a) else merr Mem.E_INVALID_NODE) s.
  Proof.
    unfold src_NodeId_IValue_String, src_NodeId_IValue_String_value; cbn [IValue_value]. kinds.
    destruct (is_str (body_of nodes m)); munf; reflexivity.
  Qed.
  Lemma nodeid_string_set m v s :
    IValue_set_value (src_NodeId_IValue_String EV) m v s
    = (if is_str (body_of nodes m) then (let! a := call (QStrSet m v) in as_u a) else merr Mem.E_INVALID_NODE) s.
  Proof.
    unfold src_NodeId_IValue_String, src_NodeId_IValue_String_set_value; cbn [IValue_set_value]. kinds.
    destruct (is_str (body_of nodes m)); munf; reflexivity.
  Qed.

  (* ---- value-store ids ---- *)
  Ltac vid_tac := unfold iv_value_store, iv_value_store_, iv_update, iv_update_, src_ValueStore_integer_value,
      src_ValueStore_float_value, src_ValueStore_str_value, vid_int, vid_flt, vid_str, vid_set; munf;
    try match goal with |- context [nth_error (s_vals ?s) ?v] => destruct (nth_error (s_vals s) v) as [[| |]|] end;
    try reflexivity.

  Lemma integerid_i64_value vid s : IValue_value (src_IntegerId_IValue_i64 EV) vid s = vid_int fops vid s.
  Proof. unfold src_IntegerId_IValue_i64, src_IntegerId_IValue_i64_value; cbn [IValue_value]. vid_tac. Qed.
  Lemma integerid_i64_set vid v s : IValue_set_value (src_IntegerId_IValue_i64 EV) vid v s = vid_set vid (VI v) s.
  Proof. unfold src_IntegerId_IValue_i64, src_IntegerId_IValue_i64_set_value; cbn [IValue_set_value]. vid_tac. Qed.
  Lemma floatid_f64_value vid s : IValue_value (src_FloatId_IValue_f64 EV) vid s = vid_flt fops vid s.
  Proof. unfold src_FloatId_IValue_f64, src_FloatId_IValue_f64_value; cbn [IValue_value]. vid_tac. Qed.
  Lemma floatid_f64_set vid v s : IValue_set_value (src_FloatId_IValue_f64 EV) vid v s = vid_set vid (VF v) s.
  Proof. unfold src_FloatId_IValue_f64, src_FloatId_IValue_f64_set_value; cbn [IValue_set_value]. vid_tac. Qed.
  Lemma stringid_value vid s : IValue_value (src_StringId_IValue_String EV) vid s = vid_str vid s.
  Proof. unfold src_StringId_IValue_String, src_StringId_IValue_String_value; cbn [IValue_value]. vid_tac. Qed.
  Lemma stringid_set vid v s : IValue_set_value (src_StringId_IValue_String EV) vid v s = vid_set vid (VS v) s.
  Proof. unfold src_StringId_IValue_String, src_StringId_IValue_String_set_value; cbn [IValue_set_value]. vid_tac. Qed.
  (* the two cross instances convert AFTER the slot conversion of integer_value / float_value *)
  Lemma integerid_f64_value vid s :
    IValue_value (src_IntegerId_IValue_f64 EV) vid s = (let! z := vid_int fops vid in mret (i2f fops z)) s.
  Proof. unfold src_IntegerId_IValue_f64, src_IntegerId_IValue_f64_value; cbn [IValue_value]. vid_tac. Qed.
  Lemma floatid_i64_value vid s :
    IValue_value (src_FloatId_IValue_i64 EV) vid s = (let! b := vid_flt fops vid in mret (f2i fops b)) s.
  Proof. unfold src_FloatId_IValue_i64, src_FloatId_IValue_i64_value; cbn [IValue_value]. vid_tac. Qed.
  Lemma integerid_f64_set vid v s : IValue_set_value (src_IntegerId_IValue_f64 EV) vid v s = vid_set vid (VF v) s.
  Proof. unfold src_IntegerId_IValue_f64, src_IntegerId_IValue_f64_set_value; cbn [IValue_set_value]. vid_tac. Qed.
  Lemma floatid_i64_set vid v s : IValue_set_value (src_FloatId_IValue_i64 EV) vid v s = vid_set vid (VI v) s.
  Proof. unfold src_FloatId_IValue_i64, src_FloatId_IValue_i64_set_value; cbn [IValue_set_value]. vid_tac. Qed.

  (* ---- the model's syntax as the translated data types ---- *)
  Definition of_src (x : src) : src_ImmOrPNode nat :=
    match x with SImm vid => ImmOrPNode_Imm vid | SNode n => ImmOrPNode_PNode n end.
  Definition of_isrc (x : isrc) : src_ImmOrPNode Z :=
    match x with IImm z => ImmOrPNode_Imm z | INode n => ImmOrPNode_PNode n end.
  Definition of_ent (e : Z * src) : src_ValueIndexed nat := Build_src_ValueIndexed (fst e) (of_src (snd e)).
  Definition of_vk (v : vkind) : src_ValueKind nat :=
    match v with
    | VValue vid => ValueKind_Value vid
    | VPValue p cs => ValueKind_PValue (Build_src_PValue p cs)
    | VPIndex idx ents d => ValueKind_PIndex (Build_src_PIndex idx (map of_ent ents) (of_src d))
    end.

  (* the dictionaries rustc resolves for the node kinds *)
  Definition D_ii := src_IntegerId_IValue_i64 EV.
  Definition D_ff := src_FloatId_IValue_f64 EV.
  Definition D_ni := src_NodeId_IValue_i64 EV.
  Definition D_nf := src_NodeId_IValue_f64 EV.
  Definition D_src_i := src_ImmOrPNode_IValue D_ii D_ni.
  Definition D_src_f := src_ImmOrPNode_IValue D_ff D_nf.
  Definition D_isrc_i := src_ImmOrPNode_IValue src_i64_IValue_i64 D_ni.
  Definition D_isrc_f := src_ImmOrPNode_IValue (src_f64_IValue_f64) D_nf.
  Definition D_vk_i := src_ValueKind_IValue D_ii (src_PValue_IValue D_ni) (src_PIndex_IValue EV D_ii D_src_i).
  Definition D_vk_f := src_ValueKind_IValue D_ff (src_PValue_IValue D_nf) (src_PIndex_IValue EV D_ff D_src_f).

  Ltac dunf := unfold D_vk_i, D_vk_f, D_src_i, D_src_f, D_isrc_i, D_isrc_f, D_ii, D_ff, D_ni, D_nf.

  Lemma src_i_value x s : IValue_value D_src_i (of_src x) s = src_get_i fops nodes call x s.
  Proof. destruct x; cbn; [apply integerid_i64_value | apply nodeid_i64_value]. Qed.
  Lemma src_i_set x v s : IValue_set_value D_src_i (of_src x) v s = src_set_i fops nodes call x v s.
  Proof. destruct x; cbn; [apply integerid_i64_set | apply nodeid_i64_set]. Qed.
  Lemma src_f_value x s : IValue_value D_src_f (of_src x) s = src_get_f fops nodes call x s.
  Proof. destruct x; cbn; [apply floatid_f64_value | apply nodeid_f64_value]. Qed.
  Lemma src_f_set x v s : IValue_set_value D_src_f (of_src x) v s = src_set_f fops nodes call x v s.
  Proof. destruct x; cbn; [apply floatid_f64_set | apply nodeid_f64_set]. Qed.
  Lemma src_i_readable x s : IValue_is_readable D_src_i (of_src x) s = src_readable nodes call x s.
  Proof. destruct x; cbn; [reflexivity | apply nodeid_i64_readable]. Qed.
  Lemma src_f_readable x s : IValue_is_readable D_src_f (of_src x) s = src_readable nodes call x s.
  Proof. destruct x; cbn; [reflexivity | apply nodeid_f64_readable]. Qed.
  Lemma isrc_i_value x s : IValue_value D_isrc_i (of_isrc x) s = isrc_get_i fops nodes call x s.
  Proof. destruct x; cbn; [reflexivity | apply nodeid_i64_value]. Qed.
  Lemma isrc_f_value x s : IValue_value D_isrc_f (of_isrc x) s = isrc_get_f fops nodes call x s.
  Proof. destruct x; cbn; [reflexivity | apply nodeid_f64_value]. Qed.
  (* an immediate cannot be written *)
  Lemma isrc_set_imm z v s : IValue_set_value D_isrc_i (of_isrc (IImm z)) v s = (Err E_NOT_WRITABLE, s).
  Proof. reflexivity. Qed.

  (* ---- generic facts about the monad ---- *)
  Lemma mbind_ext {A B} (m1 m2 : M A) (k1 k2 : A -> M B) s :
    m1 s = m2 s -> (forall a s', k1 a s' = k2 a s') -> mbind m1 k1 s = mbind m2 k2 s.
  Proof. intros H K. unfold mbind. rewrite H. destruct (m2 s) as [[a|e|] s']; auto. Qed.
  Lemma mfold_ext {A} (f g : A -> M unit) l : (forall a s, f a s = g a s) -> forall s, mfold f l s = mfold g l s.
  Proof. intros H. induction l as [|x r IH]; intros s; cbn [mfold]; [reflexivity|]. apply mbind_ext; auto. Qed.
  Lemma mbind_ret_r {A} (m : M A) s : mbind m (fun a => mret a) s = m s.
  Proof. unfold mbind, mret. destruct (m s) as [[a|e|] s']; reflexivity. Qed.
  Lemma mbind_unit_r (m : M unit) s : mbind m (fun _ => mret tt) s = m s.
  Proof. unfold mbind, mret. destruct (m s) as [[[]|e|] s']; reflexivity. Qed.

  (* ---- PValue, for ANY dictionary of NodeId: the specification is written out ---- *)
  Fixpoint writes_in_order {T} (D : src_IValue T nat) (v : T) (l : list nat) (s : state) : outcome unit * state :=
    match l with
    | [] => (Ok tt, s)
    | n :: r => match IValue_set_value D n v s with
                | (Ok _, s') => writes_in_order D v r s'
                | (Err e, s') => (Err e, s')
                | (Panic, s') => (Panic, s')
                end
    end.

  Lemma iv_for_writes {T} (D : src_IValue T nat) (v : T) l s :
    iv_for l (fun nid => IValue_set_value D nid v) s = writes_in_order D v l s.
  Proof.
    revert s. induction l as [|n r IH]; intros s; [reflexivity|].
    cbn [iv_for mfold writes_in_order]. unfold mbind.
    destruct (IValue_set_value D n v s) as [[[]|e|] s']; try reflexivity. apply IH.
  Qed.

  Lemma pvalue_set_in_order {T Ty} (D : src_IValue T nat) p (cs : list nat) (v : T) s :
    IValue_set_value (src_PValue_IValue (Ty:=Ty) D) (Build_src_PValue p cs) v s = writes_in_order D v (p :: cs) s.
  Proof.
    cbn [src_PValue_IValue IValue_set_value]. unfold src_PValue_IValue_set_value. cbn [PValue_p_value PValue_p_value_copies writes_in_order].
    unfold mbind at 1. destruct (IValue_set_value D p v s) as [[[]|e|] s']; try reflexivity.
    rewrite mbind_unit_r. apply iv_for_writes.
  Qed.
  Lemma pvalue_value_main {T Ty} (D : src_IValue T nat) p (cs : list nat) s :
    IValue_value (src_PValue_IValue (Ty:=Ty) D) (Build_src_PValue p cs) s = IValue_value D p s.
  Proof. reflexivity. Qed.

  Lemma pvalue_set_model_i p cs v s :
    IValue_set_value (src_PValue_IValue (Ty:=nat) D_ni) (Build_src_PValue p cs) v s
    = (let! _ := nid_set_i fops nodes call p v in mfold (fun c => nid_set_i fops nodes call c v) cs) s.
  Proof.
    cbn [src_PValue_IValue IValue_set_value]. unfold src_PValue_IValue_set_value. cbn [PValue_p_value PValue_p_value_copies].
    apply mbind_ext; [apply nodeid_i64_set|]. intros _ s'. rewrite mbind_unit_r. unfold iv_for.
    apply mfold_ext. intros; apply nodeid_i64_set.
  Qed.
  Lemma pvalue_set_model_f p cs v s :
    IValue_set_value (src_PValue_IValue (Ty:=nat) D_nf) (Build_src_PValue p cs) v s
    = (let! _ := nid_set_f fops nodes call p v in mfold (fun c => nid_set_f fops nodes call c v) cs) s.
  Proof.
    cbn [src_PValue_IValue IValue_set_value]. unfold src_PValue_IValue_set_value. cbn [PValue_p_value PValue_p_value_copies].
    apply mbind_ext; [apply nodeid_f64_set|]. intros _ s'. rewrite mbind_unit_r. unfold iv_for.
    apply mfold_ext. intros; apply nodeid_f64_set.
  Qed.

  (* ---- PIndex ---- *)
  Lemma pindex_index_model {T} (x : src_PIndex T) s :
    src_PIndex_index EV x s = pindex_index nodes call (PIndex_p_index x) s.
  Proof.
    unfold src_PIndex_index, pindex_index. kinds. destruct (is_int (body_of nodes (PIndex_p_index x))); munf; reflexivity.
  Qed.

  (* first entry with the index, else the default - for ANY element type and dictionaries *)
  Fixpoint first_match {Ty} (i : Z) (l : list (src_ValueIndexed Ty)) (d : src_ImmOrPNode Ty) : src_ImmOrPNode Ty :=
    match l with
    | [] => d
    | vi :: r => if ValueIndexed_index vi =? i then ValueIndexed_indexed vi else first_match i r d
    end.
  Lemma find_first_match {Ty} i (l : list (src_ValueIndexed Ty)) d :
    match find (fun vi => ValueIndexed_index vi =? i) l with Some vi => ValueIndexed_indexed vi | None => d end
    = first_match i l d.
  Proof. induction l as [|vi r IH]; cbn; [reflexivity|]. destruct (ValueIndexed_index vi =? i); auto. Qed.

  Lemma pindex_value_spec {T Ty} (D1 : src_IValue T Ty) (D2 : src_IValue T (src_ImmOrPNode Ty)) (x : src_PIndex Ty) s :
    IValue_value (src_PIndex_IValue EV D1 D2) x s
    = (let! i := src_PIndex_index EV x in
       IValue_value D2 (first_match i (PIndex_value_indexed x) (PIndex_value_default x))) s.
  Proof.
    cbn [src_PIndex_IValue IValue_value]. unfold src_PIndex_IValue_value. apply mbind_ext; [reflexivity|].
    intros i s'. rewrite <- find_first_match.
    destruct (find (fun vi => ValueIndexed_index vi =? i) (PIndex_value_indexed x)); reflexivity.
  Qed.
  Lemma pindex_set_spec {T Ty} (D1 : src_IValue T Ty) (D2 : src_IValue T (src_ImmOrPNode Ty)) (x : src_PIndex Ty) v s :
    IValue_set_value (src_PIndex_IValue EV D1 D2) x v s
    = (let! i := src_PIndex_index EV x in
       IValue_set_value D2 (first_match i (PIndex_value_indexed x) (PIndex_value_default x)) v) s.
  Proof.
    cbn [src_PIndex_IValue IValue_set_value]. unfold src_PIndex_IValue_set_value. apply mbind_ext; [reflexivity|].
    intros i s'. rewrite <- find_first_match.
    destruct (find (fun vi => ValueIndexed_index vi =? i) (PIndex_value_indexed x)); reflexivity.
  Qed.

  Lemma first_match_pick i ents d : first_match i (map of_ent ents) (of_src d) = of_src (pindex_pick i ents d).
  Proof.
    unfold pindex_pick. induction ents as [|e r IH]; cbn; [reflexivity|].
    destruct (fst e =? i); [reflexivity|apply IH].
  Qed.

  (* ---- ValueKind against the model ---- *)
  Lemma vk_i_value v s : IValue_value D_vk_i (of_vk v) s = vk_get_i fops nodes call v s.
  Proof.
    destruct v as [vid|p cs|idx ents d]; cbn [of_vk vk_get_i].
    - apply integerid_i64_value.
    - apply nodeid_i64_value.
    - unfold D_vk_i. cbn [src_ValueKind_IValue IValue_value src_ValueKind_IValue_value]. rewrite pindex_value_spec.
      apply mbind_ext; [apply pindex_index_model|]. intros i s'. cbn [PIndex_value_indexed PIndex_value_default].
      rewrite first_match_pick. apply src_i_value.
  Qed.
  Lemma vk_i_set v x s : IValue_set_value D_vk_i (of_vk v) x s = vk_set_i fops nodes call v x s.
  Proof.
    destruct v as [vid|p cs|idx ents d]; cbn [of_vk vk_set_i].
    - apply integerid_i64_set.
    - apply pvalue_set_model_i.
    - unfold D_vk_i. cbn [src_ValueKind_IValue IValue_set_value src_ValueKind_IValue_set_value]. rewrite pindex_set_spec.
      apply mbind_ext; [apply pindex_index_model|]. intros i s'. cbn [PIndex_value_indexed PIndex_value_default].
      rewrite first_match_pick. apply src_i_set.
  Qed.
  Lemma vk_f_value v s : IValue_value D_vk_f (of_vk v) s = vk_get_f fops nodes call v s.
  Proof.
    destruct v as [vid|p cs|idx ents d]; cbn [of_vk vk_get_f].
    - apply floatid_f64_value.
    - apply nodeid_f64_value.
    - unfold D_vk_f. cbn [src_ValueKind_IValue IValue_value src_ValueKind_IValue_value]. rewrite pindex_value_spec.
      apply mbind_ext; [apply pindex_index_model|]. intros i s'. cbn [PIndex_value_indexed PIndex_value_default].
      rewrite first_match_pick. apply src_f_value.
  Qed.
  Lemma vk_f_set v x s : IValue_set_value D_vk_f (of_vk v) x s = vk_set_f fops nodes call v x s.
  Proof.
    destruct v as [vid|p cs|idx ents d]; cbn [of_vk vk_set_f].
    - apply floatid_f64_set.
    - apply pvalue_set_model_f.
    - unfold D_vk_f. cbn [src_ValueKind_IValue IValue_set_value src_ValueKind_IValue_set_value]. rewrite pindex_set_spec.
      apply mbind_ext; [apply pindex_index_model|]. intros i s'. cbn [PIndex_value_indexed PIndex_value_default].
      rewrite first_match_pick. apply src_f_set.
  Qed.

  Lemma pindex_readable_model (D1 : src_IValue Z nat) (D2 : src_IValue Z (src_ImmOrPNode nat)) idx ents d s :
    (forall x s, IValue_is_readable D2 (of_src x) s = src_readable nodes call x s) ->
    IValue_is_readable (src_PIndex_IValue EV D1 D2) (Build_src_PIndex idx (map of_ent ents) (of_src d)) s
    = vk_readable nodes call (VPIndex idx ents d) s.
  Proof.
    intros HD. cbn [src_PIndex_IValue IValue_is_readable vk_readable]. unfold src_PIndex_IValue_is_readable.
    cbn [PIndex_p_index PIndex_value_indexed PIndex_value_default]. kinds.
    destruct (is_int (body_of nodes idx)) eqn:Hi; munf; [|reflexivity].
    destruct (call (QReadable idx) s) as [[[]|?|] s1]; try reflexivity.
    destruct b; [|reflexivity].
    change (mbind (src_PIndex_index EV (Build_src_PIndex idx (map of_ent ents) (of_src d)))
              (fun index => match find (fun vi => ValueIndexed_index vi =? index) (map of_ent ents) with
                            | Some vi => IValue_is_readable D2 (ValueIndexed_indexed vi)
                            | None => IValue_is_readable D2 (of_src d) end) s1
            = mbind (pindex_index nodes call idx) (fun i => src_readable nodes call (pindex_pick i ents d)) s1).
    apply mbind_ext; [apply pindex_index_model|]. intros i s'.
    rewrite <- HD, <- first_match_pick, <- find_first_match.
    destruct (find (fun vi => ValueIndexed_index vi =? i) (map of_ent ents)); reflexivity.
  Qed.

  Lemma vk_i_readable v s : IValue_is_readable D_vk_i (of_vk v) s = vk_readable nodes call v s.
  Proof.
    destruct v as [vid|p cs|idx ents d]; cbn [of_vk].
    - reflexivity.
    - apply nodeid_i64_readable.
    - apply pindex_readable_model. apply src_i_readable.
  Qed.
  Lemma vk_f_readable v s : IValue_is_readable D_vk_f (of_vk v) s = vk_readable nodes call v s.
  Proof.
    destruct v as [vid|p cs|idx ents d]; cbn [of_vk].
    - reflexivity.
    - apply nodeid_f64_readable.
    - apply pindex_readable_model. apply src_f_readable.
  Qed.

  Lemma mbind_assoc {A B C} (m : M A) (k : A -> M B) (k' : B -> M C) s :
    mbind (mbind m k) k' s = mbind m (fun a => mbind (k a) k') s.
  Proof. unfold mbind. destruct (m s) as [[a|e|] s']; reflexivity. Qed.

  (* ---- the node kinds: the translated methods are the clauses of [step] ---- *)
  Definition integer_node n v mn mx : src_IntegerNode :=
    {| IntegerNode_attr_base := n; IntegerNode_value_kind := of_vk v; IntegerNode_min := of_src mn; IntegerNode_max := of_src mx |}.
  Definition float_node n v mn mx : src_FloatNode :=
    {| FloatNode_attr_base := n; FloatNode_value_kind := of_vk v; FloatNode_min := of_src mn; FloatNode_max := of_src mx |}.
  Definition boolean_node n v on off : src_BooleanNode :=
    {| BooleanNode_attr_base := n; BooleanNode_value := of_src v; BooleanNode_on_value := on; BooleanNode_off_value := off |}.
  Definition enumeration_node n ids v : src_EnumerationNode :=
    {| EnumerationNode_attr_base := n; EnumerationNode_entries := ids; EnumerationNode_value := of_src v |}.
  Definition command_node n v cv : src_CommandNode :=
    {| CommandNode_attr_base := n; CommandNode_value := of_src v; CommandNode_command_value := of_src cv |}.

  Lemma integer_node_src n v mn mx inc s x :
    body_of nodes n = NInteger v mn mx inc ->
    step fops nodes call (QIntValue n) s = (let! r := src_IntegerNode_value EV (integer_node n v mn mx) in mret (AZ r)) s /\
    step fops nodes call (QIntSet n x) s = (let! _ := src_IntegerNode_set_value EV (integer_node n v mn mx) x in mret AUnit) s /\
    step fops nodes call (QIntMin n) s = (let! r := src_IntegerNode_min EV (integer_node n v mn mx) in mret (AZ r)) s /\
    step fops nodes call (QIntMax n) s = (let! r := src_IntegerNode_max EV (integer_node n v mn mx) in mret (AZ r)) s.
  Proof.
    intros Hb. cbn [step]. rewrite Hb. repeat split; symmetry; apply mbind_ext; auto.
    - apply vk_i_value.
    - unfold src_IntegerNode_set_value. intros. unfold iv_cx_invalidate_cache_by, mbind at 1, mret at 1. apply vk_i_set.
    - apply src_i_value.
    - apply src_i_value.
  Qed.

  Lemma float_node_src n v mn mx inc s x :
    body_of nodes n = NFloat v mn mx inc ->
    step fops nodes call (QFltValue n) s = (let! r := src_FloatNode_value EV (float_node n v mn mx) in mret (AZ r)) s /\
    step fops nodes call (QFltSet n x) s = (let! _ := src_FloatNode_set_value EV (float_node n v mn mx) x in mret AUnit) s /\
    step fops nodes call (QFltMin n) s = (let! r := src_FloatNode_min EV (float_node n v mn mx) in mret (AZ r)) s /\
    step fops nodes call (QFltMax n) s = (let! r := src_FloatNode_max EV (float_node n v mn mx) in mret (AZ r)) s.
  Proof.
    intros Hb. cbn [step]. rewrite Hb. repeat split; symmetry; apply mbind_ext; auto.
    - apply vk_f_value.
    - unfold src_FloatNode_set_value. intros. unfold iv_cx_invalidate_cache_by, mbind at 1, mret at 1. apply vk_f_set.
    - apply src_f_value.
    - apply src_f_value.
  Qed.

  Lemma boolean_node_src n v on off s b :
    body_of nodes n = NBoolean v on off ->
    step fops nodes call (QBoolValue n) s = (let! r := src_BooleanNode_value EV (boolean_node n v on off) in mret (AB r)) s /\
    step fops nodes call (QBoolSet n b) s = (let! _ := src_BooleanNode_set_value EV (boolean_node n v on off) b in mret AUnit) s.
  Proof.
    intros Hb. cbn [step]. rewrite Hb. split; symmetry.
    - unfold src_BooleanNode_value. rewrite mbind_assoc. apply mbind_ext; [apply src_i_value|].
      intros x s'. cbn [boolean_node BooleanNode_on_value BooleanNode_off_value].
      destruct (x =? on); [reflexivity|]. destruct (x =? off); reflexivity.
    - apply mbind_ext; auto. unfold src_BooleanNode_set_value, iv_cx_invalidate_cache_by, mbind at 1, mret at 1.
      cbn [boolean_node BooleanNode_on_value BooleanNode_off_value BooleanNode_value]. apply src_i_set.
  Qed.

  (* the entry lookup: the EnumEntry nodes behind the ids are the model's inlined entries *)
  Lemma entry_any ids (g : eentry -> bool) : forall ents k x s,
    (forall e, g e = (ee_val e =? x)) ->
    map ent ids = map Some ents ->
    iv_iter_map_any ids (fun nid => iv_unwrap_result (iv_expect_enum_entry EV nid)) g s
    = (Ok (match find_val_from k ents x with Some _ => true | None => false end), s).
  Proof.
    induction ids as [|i r IH]; intros [|e ents] k x s Hg H; try discriminate; [reflexivity|].
    cbn [map] in H. injection H as Hi Hr.
    cbn [iv_iter_map_any find_val_from]. unfold mbind, iv_unwrap_result, iv_expect_enum_entry. cbn [ie_entry EV].
    rewrite Hi. cbn [mret]. rewrite Hg. destruct (ee_val e =? x); [reflexivity|]. apply IH; assumption.
  Qed.
  Ltac entry_pred := intros; first [reflexivity | apply Z.eqb_sym].

  Lemma enumeration_node_src n ents ids v s x :
    body_of nodes n = NEnumeration ents v ->
    map ent ids = map Some ents ->
    step fops nodes call (QEnumValue n) s = (let! r := src_EnumerationNode_current_value EV (enumeration_node n ids v) in mret (AZ r)) s /\
    step fops nodes call (QEnumSet n x) s
      = (let! _ := src_EnumerationNode_set_entry_by_value EV (enumeration_node n ids v) x in mret AUnit) s.
  Proof.
    intros Hb He. cbn [step]. rewrite Hb. split; symmetry.
    - apply mbind_ext; auto. apply src_i_value.
    - unfold src_EnumerationNode_set_entry_by_value. cbn [enumeration_node EnumerationNode_entries EnumerationNode_attr_base EnumerationNode_value].
      rewrite mbind_assoc. unfold mbind at 1. rewrite (entry_any ids _ ents O x s); [|entry_pred|exact He]. unfold find_entry_by_val.
      destruct (find_val_from 0 ents x); cbn [negb]; [|reflexivity].
      apply mbind_ext; auto. unfold iv_cx_invalidate_cache_by, mbind at 1, mret at 1. apply src_i_set.
  Qed.

  Lemma command_node_src n v cv s :
    body_of nodes n = NCommand v cv ->
    step fops nodes call (QCmdExec n) s = (let! _ := src_CommandNode_execute EV (command_node n v cv) in mret AUnit) s /\
    step fops nodes call (QCmdDone n) s = (let! r := src_CommandNode_is_done EV (command_node n v cv) in mret (AB r)) s.
  Proof.
    intros Hb. cbn [step]. rewrite Hb. split; symmetry.
    - unfold src_CommandNode_execute, iv_cx_invalidate_cache_by. unfold mbind at 2, mret at 1.
      rewrite mbind_assoc. apply mbind_ext; [apply src_i_value|]. intros x s'.
      apply mbind_ext; auto. apply src_i_set.
    - unfold src_CommandNode_is_done. destruct v as [vid|m]; cbn [command_node CommandNode_value of_src CommandNode_command_value]; [reflexivity|].
      unfold iv_cx_invalidate_cache_of. unfold mbind at 2, mret at 1.
      rewrite mbind_assoc. apply mbind_ext; [apply nodeid_i64_readable|]. intros rd s'.
      destruct rd; [|reflexivity].
      rewrite mbind_assoc. apply mbind_ext; [apply src_i_value|]. intros c s''.
      rewrite mbind_assoc. apply mbind_ext; [apply nodeid_i64_value|]. intros r s3. reflexivity.
  Qed.

  (* the translated BooleanNode::value on its own: On wins over Off, neither is InvalidNode *)
  Lemma boolean_value_of_source (nd : src_BooleanNode) s :
    src_BooleanNode_value EV nd s
    = match IValue_value D_src_i (BooleanNode_value nd) s with
      | (Ok x, s') => if x =? BooleanNode_on_value nd then (Ok true, s')
                      else if x =? BooleanNode_off_value nd then (Ok false, s')
                      else (Err Mem.E_INVALID_NODE, s')
      | (Err e, s') => (Err e, s')
      | (Panic, s') => (Panic, s')
      end.
  Proof.
    unfold src_BooleanNode_value, mbind.
    change (IValue_value (src_ImmOrPNode_IValue (src_IntegerId_IValue_i64 EV) (src_NodeId_IValue_i64 EV)))
      with (IValue_value D_src_i).
    destruct (IValue_value D_src_i (BooleanNode_value nd) s) as [[x|e|] s']; try reflexivity.
    destruct (x =? BooleanNode_on_value nd); [reflexivity|]. destruct (x =? BooleanNode_off_value nd); reflexivity.
  Qed.

  (* set_entry_by_value on its own: a value no entry has is InvalidData and NOTHING is written or invalidated *)
  Lemma enumeration_reject_of_source n ents ids v x s :
    map ent ids = map Some ents ->
    (forall e, In e ents -> ee_val e <> x) ->
    src_EnumerationNode_set_entry_by_value EV (enumeration_node n ids v) x s = (Err Mem.E_INVALID_DATA, s).
  Proof.
    intros He Hn. unfold src_EnumerationNode_set_entry_by_value.
    cbn [enumeration_node EnumerationNode_entries]. unfold mbind at 1. rewrite (entry_any ids _ ents O x s); [|entry_pred|exact He].
    assert (H : forall l k, (forall e, In e l -> ee_val e <> x) -> find_val_from k l x = None).
    { induction l as [|e r IH]; intros k Hl; [reflexivity|]. cbn [find_val_from].
      destruct (Z.eqb_spec (ee_val e) x) as [Heq|_]; [exfalso; apply (Hl e); [left; reflexivity|exact Heq]|].
      apply IH. intros e' Hi. apply Hl. right; exact Hi. }
    rewrite (H ents O Hn). reflexivity.
  Qed.
End S.

(* ---- the recursion closed with the model's evaluator ------------------------------------------------------ *)
Lemma run_from_source fops nodes ent f n s :
  (forall v mn mx inc x, body_of nodes n = NInteger v mn mx inc ->
     let E := EV fops nodes (run fops nodes f) ent in
     run fops nodes (S f) (QIntValue n) s = (let! r := src_IntegerNode_value E (integer_node n v mn mx) in mret (AZ r)) s /\
     run fops nodes (S f) (QIntSet n x) s = (let! _ := src_IntegerNode_set_value E (integer_node n v mn mx) x in mret AUnit) s) /\
  (forall v mn mx inc x, body_of nodes n = NFloat v mn mx inc ->
     let E := EV fops nodes (run fops nodes f) ent in
     run fops nodes (S f) (QFltValue n) s = (let! r := src_FloatNode_value E (float_node n v mn mx) in mret (AZ r)) s /\
     run fops nodes (S f) (QFltSet n x) s = (let! _ := src_FloatNode_set_value E (float_node n v mn mx) x in mret AUnit) s) /\
  (forall v on off b, body_of nodes n = NBoolean v on off ->
     let E := EV fops nodes (run fops nodes f) ent in
     run fops nodes (S f) (QBoolValue n) s = (let! r := src_BooleanNode_value E (boolean_node n v on off) in mret (AB r)) s /\
     run fops nodes (S f) (QBoolSet n b) s = (let! _ := src_BooleanNode_set_value E (boolean_node n v on off) b in mret AUnit) s) /\
  (forall ents ids v x, body_of nodes n = NEnumeration ents v -> map ent ids = map Some ents ->
     let E := EV fops nodes (run fops nodes f) ent in
     run fops nodes (S f) (QEnumValue n) s = (let! r := src_EnumerationNode_current_value E (enumeration_node n ids v) in mret (AZ r)) s /\
     run fops nodes (S f) (QEnumSet n x) s = (let! _ := src_EnumerationNode_set_entry_by_value E (enumeration_node n ids v) x in mret AUnit) s) /\
  (forall v cv, body_of nodes n = NCommand v cv ->
     let E := EV fops nodes (run fops nodes f) ent in
     run fops nodes (S f) (QCmdExec n) s = (let! _ := src_CommandNode_execute E (command_node n v cv) in mret AUnit) s /\
     run fops nodes (S f) (QCmdDone n) s = (let! r := src_CommandNode_is_done E (command_node n v cv) in mret (AB r)) s).
Proof.
  cbn [run]. repeat split.
  - eapply (integer_node_src fops nodes (run fops nodes f) ent n v mn mx inc s x); eassumption.
  - eapply (integer_node_src fops nodes (run fops nodes f) ent n v mn mx inc s x); eassumption.
  - eapply (float_node_src fops nodes (run fops nodes f) ent n v mn mx inc s x); eassumption.
  - eapply (float_node_src fops nodes (run fops nodes f) ent n v mn mx inc s x); eassumption.
  - eapply (boolean_node_src fops nodes (run fops nodes f) ent n v on off s b); eassumption.
  - eapply (boolean_node_src fops nodes (run fops nodes f) ent n v on off s b); eassumption.
  - eapply (enumeration_node_src fops nodes (run fops nodes f) ent n ents ids v s x); eassumption.
  - eapply (enumeration_node_src fops nodes (run fops nodes f) ent n ents ids v s x); eassumption.
  - eapply (command_node_src fops nodes (run fops nodes f) ent n v cv s); eassumption.
  - eapply (command_node_src fops nodes (run fops nodes f) ent n v cv s); eassumption.
Qed.

(* ---- non-vacuity: the translated IntegerNode::set_value run on a concrete store ---------------------------- *)
(* node 0: a 2-byte register at 256; node 1: Integer over value slot 0; node 2: Integer with pValue 0 and pValueCopy 1;
   node 3: Integer with pIndex 1 [0 -> node 2] default slot 1; node 4: the port.  Writing 7 to node 3 with slot 0 = 0:
   the index is read (slot 0 = 0), the FIRST entry with index 0 selects node 2, whose PValue writes the register first and
   then the copy (slot 0 := 7); reading node 3 afterwards finds index 7, no entry, hence the default (slot 1 = 50). *)
Definition ex_src_nodes : list node :=
  [ {| nd_acc := 2; nd_body := NIntReg {| rb_addrs := [AAddr (IImm 256)]; rb_len := IImm 2; rb_acc := 2; rb_port := 4 |} 0 0 |};
    {| nd_acc := 2; nd_body := NInteger (VValue 0) (SImm 2) (SImm 2) (IImm 1) |};
    {| nd_acc := 2; nd_body := NInteger (VPValue 0 [1%nat]) (SImm 2) (SImm 2) (IImm 1) |};
    {| nd_acc := 2; nd_body := NInteger (VPIndex 1 [(5, SImm 1); (0, SNode 2); (0, SImm 1)] (SImm 1)) (SImm 2) (SImm 2) (IImm 1) |};
    {| nd_acc := 2; nd_body := NPort false |} ].
Definition ex_src_state : state := {| s_vals := [VI 0; VI 50; VI 9]; s_dev := mk_dev 0 (repeat 0 300) |}.

Lemma source_example fops :
  let E := EV fops ex_src_nodes (run fops ex_src_nodes 4) (fun _ => None) in
  let r := src_IntegerNode_set_value E (integer_node 3 (VPIndex 1 [(5, SImm 1); (0, SNode 2); (0, SImm 1)] (SImm 1)) (SImm 2) (SImm 2)) 7 ex_src_state in
  fst r = Ok tt /\ s_vals (snd r) = [VI 7; VI 50; VI 9] /\ d_log (s_dev (snd r)) = [WrAcc 256 [7; 0]] /\
  fst (src_IntegerNode_value E (integer_node 3 (VPIndex 1 [(5, SImm 1); (0, SNode 2); (0, SImm 1)] (SImm 1)) (SImm 2) (SImm 2)) (snd r)) = Ok 50.
Proof. vm_compute. repeat split. Qed.

(* ---- the statements of props/C03.v ----------------------------------------------------------------------- *)
Ltac csplit := repeat match goal with |- _ /\ _ => split end.
Lemma kinds_from_source fops nodes call ent n :
  let E := EV fops nodes call ent in
  src_IIntegerKind_maybe_from E n = (if is_int (body_of nodes n) then Some n else None) /\
  src_IFloatKind_maybe_from E n = (if is_flt (body_of nodes n) then Some n else None) /\
  src_IStringKind_maybe_from E n = (if is_str (body_of nodes n) then Some n else None) /\
  src_IEnumerationKind_maybe_from E n = (if is_enum (body_of nodes n) then Some n else None) /\
  src_IBooleanKind_maybe_from E n = (if is_bool (body_of nodes n) then Some n else None).
Proof.
  cbv zeta. csplit; [apply kind_int|apply kind_flt|apply kind_str|apply kind_enum|apply kind_bool].
Qed.

Lemma nodeid_dispatch_from_source fops nodes call ent n s :
  let E := EV fops nodes call ent in
  (IValue_value (src_NodeId_IValue_i64 E) n s = nid_get_i fops nodes call n s /\
   forall v, IValue_set_value (src_NodeId_IValue_i64 E) n v s = nid_set_i fops nodes call n v s) /\
  (IValue_value (src_NodeId_IValue_f64 E) n s = nid_get_f fops nodes call n s /\
   forall v, IValue_set_value (src_NodeId_IValue_f64 E) n v s = nid_set_f fops nodes call n v s) /\
  (IValue_is_readable (src_NodeId_IValue_i64 E) n s = nid_readable nodes call n s /\
   IValue_is_readable (src_NodeId_IValue_f64 E) n s = nid_readable nodes call n s) /\
  (IValue_value (src_NodeId_IValue_String E) n s
     = (if is_str (body_of nodes n) then (let! a := call (QStrValue n) in as_l a) else merr Mem.E_INVALID_NODE) s /\
   forall v, IValue_set_value (src_NodeId_IValue_String E) n v s
     = (if is_str (body_of nodes n) then (let! a := call (QStrSet n v) in as_u a) else merr Mem.E_INVALID_NODE) s).
Proof.
  cbv zeta. csplit; intros.
  - apply nodeid_i64_value. - apply nodeid_i64_set. - apply nodeid_f64_value. - apply nodeid_f64_set.
  - apply nodeid_i64_readable. - apply nodeid_f64_readable. - apply nodeid_string_value. - apply nodeid_string_set.
Qed.

Lemma valueid_from_source fops nodes call ent vid s :
  let E := EV fops nodes call ent in
  (IValue_value (src_IntegerId_IValue_i64 E) vid s = vid_int fops vid s /\
   forall v, IValue_set_value (src_IntegerId_IValue_i64 E) vid v s = vid_set vid (VI v) s) /\
  (IValue_value (src_FloatId_IValue_f64 E) vid s = vid_flt fops vid s /\
   forall v, IValue_set_value (src_FloatId_IValue_f64 E) vid v s = vid_set vid (VF v) s) /\
  (IValue_value (src_StringId_IValue_String E) vid s = vid_str vid s /\
   forall v, IValue_set_value (src_StringId_IValue_String E) vid v s = vid_set vid (VS v) s) /\
  (IValue_value (src_IntegerId_IValue_f64 E) vid s = (let! z := vid_int fops vid in mret (i2f fops z)) s /\
   forall v, IValue_set_value (src_IntegerId_IValue_f64 E) vid v s = vid_set vid (VF v) s) /\
  (IValue_value (src_FloatId_IValue_i64 E) vid s = (let! b := vid_flt fops vid in mret (f2i fops b)) s /\
   forall v, IValue_set_value (src_FloatId_IValue_i64 E) vid v s = vid_set vid (VI v) s).
Proof.
  cbv zeta. csplit; intros.
  - apply integerid_i64_value. - apply integerid_i64_set. - apply floatid_f64_value. - apply floatid_f64_set.
  - apply stringid_value. - apply stringid_set. - apply integerid_f64_value. - apply integerid_f64_set.
  - apply floatid_i64_value. - apply floatid_i64_set.
Qed.

Lemma immorpnode_from_source fops nodes call ent s :
  (forall x, IValue_value (D_src_i fops nodes call ent) (of_src x) s = src_get_i fops nodes call x s) /\
  (forall x v, IValue_set_value (D_src_i fops nodes call ent) (of_src x) v s = src_set_i fops nodes call x v s) /\
  (forall x, IValue_value (D_src_f fops nodes call ent) (of_src x) s = src_get_f fops nodes call x s) /\
  (forall x v, IValue_set_value (D_src_f fops nodes call ent) (of_src x) v s = src_set_f fops nodes call x v s) /\
  (forall x, IValue_is_readable (D_src_i fops nodes call ent) (of_src x) s = src_readable nodes call x s) /\
  (forall x, IValue_is_readable (D_src_f fops nodes call ent) (of_src x) s = src_readable nodes call x s) /\
  (forall x, IValue_value (D_isrc_i fops nodes call ent) (of_isrc x) s = isrc_get_i fops nodes call x s) /\
  (forall x, IValue_value (D_isrc_f fops nodes call ent) (of_isrc x) s = isrc_get_f fops nodes call x s) /\
  (forall z v, IValue_set_value (D_isrc_i fops nodes call ent) (of_isrc (IImm z)) v s = (Err E_NOT_WRITABLE, s)).
Proof.
  csplit; intros.
  - apply src_i_value. - apply src_i_set. - apply src_f_value. - apply src_f_set. - apply src_i_readable.
  - apply src_f_readable. - apply isrc_i_value. - apply isrc_f_value. - reflexivity.
Qed.

Lemma valuekind_from_source fops nodes call ent v s :
  (IValue_value (D_vk_i fops nodes call ent) (of_vk v) s = vk_get_i fops nodes call v s /\
   forall x, IValue_set_value (D_vk_i fops nodes call ent) (of_vk v) x s = vk_set_i fops nodes call v x s) /\
  (IValue_value (D_vk_f fops nodes call ent) (of_vk v) s = vk_get_f fops nodes call v s /\
   forall x, IValue_set_value (D_vk_f fops nodes call ent) (of_vk v) x s = vk_set_f fops nodes call v x s) /\
  (IValue_is_readable (D_vk_i fops nodes call ent) (of_vk v) s = vk_readable nodes call v s /\
   IValue_is_readable (D_vk_f fops nodes call ent) (of_vk v) s = vk_readable nodes call v s).
Proof.
  csplit; intros.
  - apply vk_i_value. - apply vk_i_set. - apply vk_f_value. - apply vk_f_set. - apply vk_i_readable. - apply vk_f_readable.
Qed.

Lemma pvalue_copies_from_source fops nodes call ent p cs s :
  (forall v, IValue_set_value (src_PValue_IValue (Ty:=nat) (D_ni fops nodes call ent)) (Build_src_PValue p cs) v s
     = (let! _ := nid_set_i fops nodes call p v in mfold (fun c => nid_set_i fops nodes call c v) cs) s) /\
  (forall v, IValue_set_value (src_PValue_IValue (Ty:=nat) (D_nf fops nodes call ent)) (Build_src_PValue p cs) v s
     = (let! _ := nid_set_f fops nodes call p v in mfold (fun c => nid_set_f fops nodes call c v) cs) s) /\
  IValue_value (src_PValue_IValue (Ty:=nat) (D_ni fops nodes call ent)) (Build_src_PValue p cs) s = nid_get_i fops nodes call p s /\
  IValue_value (src_PValue_IValue (Ty:=nat) (D_nf fops nodes call ent)) (Build_src_PValue p cs) s = nid_get_f fops nodes call p s.
Proof.
  csplit; intros.
  - apply pvalue_set_model_i. - apply pvalue_set_model_f. - apply nodeid_i64_value. - apply nodeid_f64_value.
Qed.

Lemma pindex_from_source fops nodes call ent idx ents d s :
  let x := Build_src_PIndex idx (map of_ent ents) (of_src d) in
  src_PIndex_index (EV fops nodes call ent) x s = pindex_index nodes call idx s /\
  IValue_value (src_PIndex_IValue (EV fops nodes call ent) (D_ii fops nodes call ent) (D_src_i fops nodes call ent)) x s
    = (let! i := pindex_index nodes call idx in src_get_i fops nodes call (pindex_pick i ents d)) s /\
  (forall v, IValue_set_value (src_PIndex_IValue (EV fops nodes call ent) (D_ii fops nodes call ent) (D_src_i fops nodes call ent)) x v s
    = (let! i := pindex_index nodes call idx in src_set_i fops nodes call (pindex_pick i ents d) v) s) /\
  IValue_value (src_PIndex_IValue (EV fops nodes call ent) (D_ff fops nodes call ent) (D_src_f fops nodes call ent)) x s
    = (let! i := pindex_index nodes call idx in src_get_f fops nodes call (pindex_pick i ents d)) s /\
  (forall v, IValue_set_value (src_PIndex_IValue (EV fops nodes call ent) (D_ff fops nodes call ent) (D_src_f fops nodes call ent)) x v s
    = (let! i := pindex_index nodes call idx in src_set_f fops nodes call (pindex_pick i ents d) v) s).
Proof.
  cbv zeta. split; [apply pindex_index_model|]. split; [|split; [|split]]; intros.
  - apply (vk_i_value fops nodes call ent (VPIndex idx ents d)).
  - apply (vk_i_set fops nodes call ent (VPIndex idx ents d)).
  - apply (vk_f_value fops nodes call ent (VPIndex idx ents d)).
  - apply (vk_f_set fops nodes call ent (VPIndex idx ents d)).
Qed.

(* clauses of the property on the translated code alone, for ANY dictionaries *)
Lemma pvalue_write_order_of_source :
  forall (T Ty : Type) (D : src_IValue T nat) (p : nat) (cs : list nat) (v : T) (s : state),
  IValue_set_value (src_PValue_IValue (Ty:=Ty) D) (Build_src_PValue p cs) v s = writes_in_order D v (p :: cs) s.
Proof. intros. apply (pvalue_set_in_order). Qed.

Lemma pindex_first_match_of_source fops nodes call ent :
  forall (T Ty : Type) (D1 : src_IValue T Ty) (D2 : src_IValue T (src_ImmOrPNode Ty)) (x : src_PIndex Ty) (s : state),
  let E := EV fops nodes call ent in
  IValue_value (src_PIndex_IValue E D1 D2) x s
    = (let! i := src_PIndex_index E x in
       IValue_value D2 (first_match i (PIndex_value_indexed x) (PIndex_value_default x))) s /\
  forall v, IValue_set_value (src_PIndex_IValue E D1 D2) x v s
    = (let! i := src_PIndex_index E x in
       IValue_set_value D2 (first_match i (PIndex_value_indexed x) (PIndex_value_default x)) v) s.
Proof. intros. split; intros; [apply pindex_value_spec|apply pindex_set_spec]. Qed.
