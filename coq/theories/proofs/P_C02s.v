(* The translation of `impl BitMask` (gen/BitMaskSrc.v, regenerated from genapi/src/masked_int_reg.rs on every run by
   tools/translate_bitmask.py, debug-build semantics of lib/RustInt.v) is the hand-written model model/BitField.v on
   every field the model is used for - and panics exactly where model/RegCodec.v [norm_field] says the code panics. *)
From Cam Require Import Outcome Bytes Mem RustInt BitField RegCodec P_C01 P_C02 BitMaskSrc.

Definition raw_ok (x : Z) : Prop := 0 <= x < 2 ^ 64.
Definition len_ok (len : Z) : Prop := 0 <= len < 2 ^ 61.
Definition flag (x : Z) : Prop := x = 0 \/ x = 1.
Definition i64_ok (x : Z) : Prop := - 2 ^ 63 <= x < 2 ^ 63.

(* norm_field of model/RegCodec.v on the bare numbers *)
Definition norm2 (len e rl rm : Z) : outcome (Z * Z) :=
  let? l := norm_bit len e rl in
  let? m := norm_bit len e rm in
  if m <? l then Panic else Ok (l, m).

Lemma norm_field_norm2 r n : norm_field r n = norm2 (r_len r) (r_endian r) (n_lsb n) (n_msb n).
Proof. reflexivity. Qed.

(* ---- the operations on values in range ---------------------------------------------------------------------- *)

Lemma r_sub_ok w a b : b <= a -> r_sub w a b = Ok (a - b).
Proof. intros H. unfold r_sub. destruct (a - b <? 0) eqn:C; [lia|reflexivity]. Qed.
Lemma r_sub_panic w a b : a < b -> r_sub w a b = Panic.
Proof. intros H. unfold r_sub. destruct (a - b <? 0) eqn:C; [reflexivity|lia]. Qed.
Lemma r_add_ok w a b : a + b < 2 ^ w -> r_add w a b = Ok (a + b).
Proof. intros H. unfold r_add. destruct (a + b <? 2 ^ w) eqn:C; [reflexivity|lia]. Qed.
Lemma r_mul_ok w a b : a * b < 2 ^ w -> r_mul w a b = Ok (a * b).
Proof. intros H. unfold r_mul. destruct (a * b <? 2 ^ w) eqn:C; [reflexivity|lia]. Qed.
Lemma shift_ok_true w s : 0 <= s < w -> shift_ok w s = true.
Proof. intros H. unfold shift_ok. destruct (0 <=? s) eqn:A; destruct (s <? w) eqn:B; try lia; reflexivity. Qed.
Lemma r_shl_ok w a s : 0 <= s < w -> r_shl w a s = Ok ((a * 2 ^ s) mod 2 ^ w).
Proof. intros H. unfold r_shl. rewrite shift_ok_true by lia. reflexivity. Qed.
Lemma r_shr_ok w a s : 0 <= s < w -> r_shr w a s = Ok (Z.shiftr a s).
Proof. intros H. unfold r_shr. rewrite shift_ok_true by lia. reflexivity. Qed.
Lemma i_shl_ok w a s : 0 <= s < w -> i_shl w a s = Ok (sw w (a * 2 ^ s)).
Proof. intros H. unfold i_shl. rewrite shift_ok_true by lia. reflexivity. Qed.
Lemma i_shr_ok w a s : 0 <= s < w -> i_shr w a s = Ok (Z.shiftr a s).
Proof. intros H. unfold i_shr. rewrite shift_ok_true by lia. reflexivity. Qed.
Lemma chk_s_ok z : i64_ok z -> chk_s 64 z = Ok z.
Proof.
  intros [A B]. unfold chk_s, in_s. change (64 - 1) with 63.
  destruct (- 2 ^ 63 <=? z) eqn:C; destruct (z <? 2 ^ 63) eqn:D; try lia. reflexivity.
Qed.

Lemma r_cast_small x : raw_ok x -> r_cast 64 x = x.
Proof. intros H. unfold r_cast. apply Z.mod_small. exact H. Qed.

(* ---- lsb() / msb() --------------------------------------------------------------------------------------------- *)

Lemma chk_u_64 z : chk_u 64 z = if (0 <=? z) && (z <? 2 ^ 64) then Ok z else Panic.
Proof. reflexivity. Qed.

Lemma src_norm (raw len e : Z) : raw_ok raw -> len_ok len -> flag e ->
  (let? x := Ok (r_cast 64 raw) in
   let? bits_len := (let? a := Ok len in let? b := Ok 8 in r_mul 64 a b) in
   let? m := Ok e in
   if m =? 0 then Ok x
   else (let? t := (let? a := Ok bits_len in let? b := Ok x in r_sub 64 a b) in let? o := Ok 1 in r_sub 64 t o))
  = norm_bit len e raw.
Proof.
  intros Hr Hl He. cbn [bind]. rewrite r_cast_small by exact Hr. unfold raw_ok, len_ok in *.
  rewrite r_mul_ok by lia. cbn [bind]. unfold norm_bit.
  destruct He as [-> | ->]; cbn [Z.eqb]; [reflexivity|].
  rewrite chk_u_64.
  destruct (Z_lt_le_dec (len * 8) raw) as [A|A].
  - rewrite r_sub_panic by lia. cbn [bind].
    destruct (0 <=? 8 * len - raw - 1) eqn:C; [lia|reflexivity].
  - rewrite r_sub_ok by lia. cbn [bind].
    destruct (Z.eq_dec (len * 8) raw) as [E|E].
    + rewrite r_sub_panic by lia. destruct (0 <=? 8 * len - raw - 1) eqn:C; [lia|reflexivity].
    + rewrite r_sub_ok by lia.
      destruct (0 <=? 8 * len - raw - 1) eqn:C; [|lia].
      destruct (8 * len - raw - 1 <? 2 ^ 64) eqn:D; [|lia]. cbn [andb]. f_equal. lia.
Qed.

Lemma lsb_from_source rl rm len e : raw_ok rl -> len_ok len -> flag e ->
  src_bm_lsb rl rm len e = norm_bit len e rl.
Proof. intros. unfold src_bm_lsb. apply src_norm; assumption. Qed.

Lemma msb_from_source rl rm len e : raw_ok rm -> len_ok len -> flag e ->
  src_bm_msb rl rm len e = norm_bit len e rm.
Proof. intros. unfold src_bm_msb. apply src_norm; assumption. Qed.

(* the pair the other methods start with *)
Definition pair_of (rl rm len e : Z) : outcome (Z * Z) :=
  let? a := (let? x := Ok len in let? y := Ok e in src_bm_lsb rl rm x y) in
  let? b := (let? x := Ok len in let? y := Ok e in src_bm_msb rl rm x y) in Ok (a, b).

Lemma pair_ok rl rm len e l m : raw_ok rl -> raw_ok rm -> len_ok len -> flag e ->
  norm_bit len e rl = Ok l -> norm_bit len e rm = Ok m -> pair_of rl rm len e = Ok (l, m).
Proof.
  intros Hl Hm Hlen He Nl Nm. unfold pair_of. cbn [bind].
  rewrite lsb_from_source, msb_from_source by assumption. rewrite Nl, Nm. reflexivity.
Qed.

Lemma pow2_64_split k : 0 <= k <= 64 -> 2 ^ 64 = 2 ^ k * 2 ^ (64 - k).
Proof. intros H. rewrite <- Z.pow_add_r by lia. f_equal. lia. Qed.

(* ---- mask() ------------------------------------------------------------------------------------------------------- *)

Lemma mask_from_source rl rm len e l m : raw_ok rl -> raw_ok rm -> len_ok len -> flag e ->
  norm_bit len e rl = Ok l -> norm_bit len e rm = Ok m -> field_ok l m ->
  src_bm_mask rl rm len e = Ok (bm_mask l m).
Proof.
  intros Hl Hm Hlen He Nl Nm [[F0 F1] F2]. unfold src_bm_mask.
  change (let? t5_ := _ in let? t6_ := _ in Ok (t5_, t6_)) with (pair_of rl rm len e).
  rewrite (pair_ok rl rm len e l m) by assumption. cbn [bind].
  rewrite r_sub_ok by lia. cbn [bind]. unfold bm_mask.
  destruct (m - l =? 63) eqn:C.
  - reflexivity.
  - rewrite r_add_ok by (ev_pows; lia). cbn [bind].
    rewrite r_shl_ok by lia. cbn [bind].
    assert (P : 0 < 2 ^ (m - l + 1)) by (apply pow2_pos; lia).
    assert (Q : 2 ^ (m - l + 1) < 2 ^ 64) by (apply pow2_lt; lia).
    rewrite Z.mul_1_l, (Z.mod_small (2 ^ (m - l + 1))) by lia.
    rewrite r_sub_ok by lia. cbn [bind]. rewrite r_shl_ok by lia. reflexivity.
Qed.

(* ---- min() / max() ------------------------------------------------------------------------------------------------ *)

Lemma sw_pow k : 0 <= k < 63 -> sw 64 (1 * 2 ^ k) = 2 ^ k.
Proof.
  intros H. rewrite Z.mul_1_l. apply s64_small.
  pose proof (pow2_pos k ltac:(lia)). pose proof (pow2_lt k 63 ltac:(lia)). lia.
Qed.

Lemma min_from_source rl rm len e sign l m : raw_ok rl -> raw_ok rm -> len_ok len -> flag e -> flag sign ->
  norm_bit len e rl = Ok l -> norm_bit len e rm = Ok m -> field_ok l m ->
  src_bm_min rl rm len e sign = Ok (bm_min l m sign).
Proof.
  intros Hl Hm Hlen He Hs Nl Nm [[F0 F1] F2]. unfold src_bm_min.
  change (let? t5_ := _ in let? t6_ := _ in Ok (t5_, t6_)) with (pair_of rl rm len e).
  rewrite (pair_ok rl rm len e l m) by assumption. cbn [bind]. unfold bm_min.
  destruct Hs as [-> | ->]; cbn [Z.eqb]; [reflexivity|].
  rewrite r_sub_ok by lia. cbn [bind].
  destruct (m - l =? 63) eqn:C; [reflexivity|].
  assert (R : sw 64 (m - l) = m - l) by (apply s64_small; ev_pows; lia). rewrite R.
  rewrite i_shl_ok by lia. cbn [bind]. rewrite sw_pow by lia.
  pose proof (pow2_pos (m - l) ltac:(lia)). pose proof (pow2_lt (m - l) 63 ltac:(lia)).
  unfold i_neg. rewrite chk_s_ok by (unfold i64_ok; lia). reflexivity.
Qed.

Lemma max_from_source rl rm len e sign l m : raw_ok rl -> raw_ok rm -> len_ok len -> flag e -> flag sign ->
  norm_bit len e rl = Ok l -> norm_bit len e rm = Ok m -> field_ok l m ->
  src_bm_max rl rm len e sign = Ok (bm_max l m sign).
Proof.
  intros Hl Hm Hlen He Hs Nl Nm [[F0 F1] F2]. unfold src_bm_max.
  change (let? t5_ := _ in let? t6_ := _ in Ok (t5_, t6_)) with (pair_of rl rm len e).
  rewrite (pair_ok rl rm len e l m) by assumption. cbn [bind]. unfold bm_max.
  rewrite r_sub_ok by lia. cbn [bind].
  destruct (m - l =? 63) eqn:C; [reflexivity|].
  destruct Hs as [-> | ->]; cbn [Z.eqb].
  - rewrite r_add_ok by (ev_pows; lia). cbn [bind].
    rewrite r_shl_ok by lia. cbn [bind].
    assert (P : 0 < 2 ^ (m - l + 1)) by (apply pow2_pos; lia).
    assert (Q : 2 ^ (m - l + 1) <= 2 ^ 63) by (apply pow2_le; lia).
    rewrite Z.mul_1_l, (Z.mod_small (2 ^ (m - l + 1))) by (ev_pows; lia).
    rewrite r_sub_ok by lia. cbn [bind]. f_equal. apply s64_small. lia.
  - rewrite i_shl_ok by lia. cbn [bind]. rewrite sw_pow by lia.
    pose proof (pow2_pos (m - l) ltac:(lia)). pose proof (pow2_lt (m - l) 63 ltac:(lia)).
    unfold i_sub. rewrite chk_s_ok by (unfold i64_ok; lia). reflexivity.
Qed.

(* ---- bit patterns --------------------------------------------------------------------------------------------------- *)

Lemma land_pat_range a b : 0 <= a < 2 ^ 64 -> 0 <= b -> 0 <= Z.land a b < 2 ^ 64.
Proof.
  intros Ha Hb. assert (N : 0 <= Z.land a b) by (apply Z.land_nonneg; lia). split; [exact N|].
  apply bits_bound; [lia|exact N|]. intros i Hi. rewrite Z.land_spec.
  rewrite (testbit_high a 64 i) by lia. reflexivity.
Qed.

Lemma lor_pat_range a b : 0 <= a < 2 ^ 64 -> 0 <= b < 2 ^ 64 -> 0 <= Z.lor a b < 2 ^ 64.
Proof.
  intros Ha Hb. assert (N : 0 <= Z.lor a b) by (apply Z.lor_nonneg; lia). split; [exact N|].
  apply bits_bound; [lia|exact N|]. intros i Hi. rewrite Z.lor_spec.
  rewrite (testbit_high a 64 i), (testbit_high b 64 i) by lia. reflexivity.
Qed.

Lemma lxor_pat_range a b : 0 <= a < 2 ^ 64 -> 0 <= b < 2 ^ 64 -> 0 <= Z.lxor a b < 2 ^ 64.
Proof.
  intros Ha Hb. assert (N : 0 <= Z.lxor a b) by (apply Z.lxor_nonneg; lia). split; [exact N|].
  apply bits_bound; [lia|exact N|]. intros i Hi. rewrite Z.lxor_spec.
  rewrite (testbit_high a 64 i), (testbit_high b 64 i) by lia. reflexivity.
Qed.

Lemma shiftr_pat_range a s : 0 <= a < 2 ^ 64 -> 0 <= s -> 0 <= Z.shiftr a s < 2 ^ 64.
Proof.
  intros Ha Hs. rewrite Z.shiftr_div_pow2 by lia. pose proof (pow2_pos s Hs). split.
  - apply Z.div_pos; lia.
  - apply Z.le_lt_trans with a; [|lia]. apply Z.div_le_upper_bound; nia.
Qed.

Lemma p64_m1 : p64 (-1) = 2 ^ 64 - 1.
Proof. reflexivity. Qed.

(* xor with -1 on the signed integer is complement of the pattern *)
Lemma p64_lxor_m1 z : p64 (Z.lxor (-1) z) = Z.lxor (2 ^ 64 - 1) (p64 z).
Proof.
  apply Z.bits_inj'. intros i Hi.
  rewrite testbit_p64, !Z.lxor_spec, testbit_ones64, testbit_p64, Z.bits_m1 by lia.
  destruct (i <? 64); cbn [andb xorb]; [reflexivity|]. reflexivity.
Qed.

Lemma i_and_pat a b : i_and 64 a b = s64 (Z.land (p64 a) (p64 b)).
Proof. reflexivity. Qed.
Lemma i_or_pat a b : i_or 64 a b = s64 (Z.lor (p64 a) (p64 b)).
Proof. reflexivity. Qed.
Lemma i_xor_pat a b : i_xor 64 a b = s64 (Z.lxor (p64 a) (p64 b)).
Proof. reflexivity. Qed.
Lemma i_not_pat a : i_not 64 a = s64 (Z.lxor (2 ^ 64 - 1) (p64 a)).
Proof. reflexivity. Qed.
Lemma r_cast_pat a : r_cast 64 a = p64 a.
Proof. reflexivity. Qed.
Lemma sw_pat a : sw 64 a = s64 a.
Proof. reflexivity. Qed.

Lemma p64_s64_any x : p64 (s64 x) = p64 x.
Proof. unfold p64, s64, sw, wrapu. ev_pows. dlia. Qed.

(* ---- apply_mask() ----------------------------------------------------------------------------------------------- *)

Lemma apply_from_source rl rm reg len e sign l m : raw_ok rl -> raw_ok rm -> len_ok len -> flag e -> flag sign ->
  norm_bit len e rl = Ok l -> norm_bit len e rm = Ok m -> field_ok l m ->
  src_bm_apply_mask rl rm reg len e sign = Ok (bm_apply l m sign reg).
Proof.
  intros Hl Hm Hlen He Hs Nl Nm F. pose proof F as [[F0 F1] F2]. unfold src_bm_apply_mask. cbn [bind].
  rewrite (mask_from_source rl rm len e l m) by assumption. cbn [bind].
  change (let? t7_ := _ in let? t8_ := _ in Ok (t7_, t8_)) with (pair_of rl rm len e).
  rewrite (pair_ok rl rm len e l m) by assumption. cbn [bind].
  rewrite i_and_pat, r_cast_pat.
  pose proof (p64_range reg) as Rr. pose proof (p64_range (bm_mask l m)) as Rm.
  pose proof (land_pat_range (p64 reg) (p64 (bm_mask l m)) Rr ltac:(lia)) as Rl.
  rewrite (p64_s64 (Z.land (p64 reg) (p64 (bm_mask l m)))) by exact Rl.
  rewrite r_shr_ok by lia. cbn [bind]. unfold bm_apply. cbv zeta. unfold s64.
  set (res := sw 64 (Z.shiftr (Z.land (p64 reg) (p64 (bm_mask l m))) l)).
  destruct Hs as [-> | ->]; [reflexivity|]. change (1 =? 1) with true. cbn [andb].
  rewrite r_sub_ok by lia. cbn [bind]. rewrite i_shr_ok by lia. cbn [bind].
  destruct (Z.shiftr res (m - l) =? 1) eqn:C; [|reflexivity].
  unfold i_neg. rewrite chk_s_ok by (unfold i64_ok; ev_pows; lia). cbn [bind].
  rewrite r_cast_pat. rewrite r_shr_ok by lia. cbn [bind].
  rewrite i_xor_pat, i_or_pat. unfold s64. f_equal. f_equal. f_equal.
  pose proof (shiftr_pat_range (p64 (bm_mask l m)) l Rm ltac:(lia)) as Rs.
  change (- (1)) with (-1). rewrite p64_m1. rewrite p64_s64.
  - rewrite p64_lxor_m1. reflexivity.
  - apply lxor_pat_range; [ev_pows; lia|apply p64_range].
Qed.

(* ---- masked_value() --------------------------------------------------------------------------------------------- *)

Lemma gtb_ltb a b : (a >? b) = (b <? a).
Proof. apply Z.gtb_ltb. Qed.

Lemma masked_from_source rl rm old v len e sign l m : raw_ok rl -> raw_ok rm -> len_ok len -> flag e -> flag sign ->
  norm_bit len e rl = Ok l -> norm_bit len e rm = Ok m -> field_ok l m ->
  src_bm_masked_value rl rm old v len e sign = bm_masked l m sign old v.
Proof.
  intros Hl Hm Hlen He Hs Nl Nm F. pose proof F as [[F0 F1] F2]. unfold src_bm_masked_value. cbn [bind].
  rewrite (max_from_source rl rm len e sign l m) by assumption. cbn [bind]. rewrite gtb_ltb.
  unfold bm_masked.
  destruct (bm_max l m sign <? v) eqn:A; cbn [orb].
  - reflexivity.
  - rewrite (min_from_source rl rm len e sign l m) by assumption. cbn [bind].
    destruct (v <? bm_min l m sign) eqn:B; [reflexivity|].
    rewrite (mask_from_source rl rm len e l m) by assumption. cbn [bind].
    rewrite lsb_from_source by assumption. rewrite Nl. cbn [bind].
    rewrite i_shl_ok by lia. cbn [bind].
    rewrite i_not_pat, !i_and_pat, i_or_pat. cbv zeta. f_equal. f_equal.
    pose proof (p64_range old) as Ro. pose proof (p64_range (bm_mask l m)) as Rm.
    assert (Rx : 0 <= Z.lxor (2 ^ 64 - 1) (p64 (bm_mask l m)) < 2 ^ 64)
      by (apply lxor_pat_range; [ev_pows; lia|exact Rm]).
    rewrite (p64_s64 _ Rx).
    rewrite (p64_s64 (Z.land (p64 old) _)) by (apply land_pat_range; lia).
    assert (E : p64 (sw 64 (v * 2 ^ l)) = p64 (p64 v * 2 ^ l)).
    { change (sw 64 (v * 2 ^ l)) with (s64 (v * 2 ^ l)). rewrite (p64_s64_any (v * 2 ^ l)). unfold p64, wrapu. rewrite Z.mul_mod_idemp_l by (ev_pows; lia). reflexivity. }
    rewrite E.
    rewrite (p64_s64 (Z.land (p64 (p64 v * 2 ^ l)) _)) by (apply land_pat_range; [apply p64_range|lia]).
    reflexivity.
Qed.

(* ---- where the code panics ----------------------------------------------------------------------------------------- *)

Lemma mask_panics rl rm len e : raw_ok rl -> raw_ok rm -> len_ok len -> flag e ->
  norm2 len e rl rm = Panic -> src_bm_mask rl rm len e = Panic.
Proof.
  intros Hl Hm Hlen He N. unfold src_bm_mask. cbn [bind].
  rewrite lsb_from_source, msb_from_source by assumption. unfold norm2 in N.
  destruct (norm_bit len e rl) as [l| |]; cbn [bind] in *; [|discriminate|reflexivity].
  destruct (norm_bit len e rm) as [m| |]; cbn [bind] in *; [|discriminate|reflexivity].
  destruct (m <? l) eqn:C; [|discriminate]. rewrite r_sub_panic by lia. reflexivity.
Qed.

Lemma norm_bit_no_err len e b x : norm_bit len e b <> Err x.
Proof. unfold norm_bit. destruct (e =? 0); [discriminate|]. unfold chk_u. destruct (in_u _ _); discriminate. Qed.

(* ---- the property clauses, stated of the translated code itself ------------------------------------------------------ *)

Definition src_field (rl rm len e l m : Z) : Prop :=
  raw_ok rl /\ raw_ok rm /\ len_ok len /\ flag e /\
  norm_bit len e rl = Ok l /\ norm_bit len e rm = Ok m /\ field_ok l m.

Lemma source_write_readback rl rm len e l m sign old v nv : src_field rl rm len e l m -> flag sign ->
  src_bm_masked_value rl rm old v len e sign = Ok nv ->
  src_bm_apply_mask rl rm nv len e sign = Ok v /\
  (forall i, 0 <= i < 64 -> mbit l m i = false -> Z.testbit (p64 nv) i = Z.testbit (p64 old) i).
Proof.
  intros (Hl & Hm & Hlen & He & Nl & Nm & F) Hs W.
  rewrite (masked_from_source rl rm old v len e sign l m) in W by assumption.
  rewrite (apply_from_source rl rm nv len e sign l m) by assumption.
  assert (R : spec_min l m sign <= v <= spec_max l m sign).
  { destruct (Z_lt_le_dec v (spec_min l m sign)) as [A|A].
    - rewrite (bm_masked_out_of_range l m sign old v F (or_introl A)) in W. discriminate.
    - destruct (Z_lt_le_dec (spec_max l m sign) v) as [B|B]; [|lia].
      rewrite (bm_masked_out_of_range l m sign old v F (or_intror B)) in W. discriminate. }
  split.
  - f_equal. exact (write_readback l m sign old v nv F R W).
  - intros i Hi Hb. exact (write_isolated l m sign old v nv i F W Hi Hb).
Qed.

Lemma source_range_check rl rm len e l m sign old v : src_field rl rm len e l m -> flag sign ->
  (spec_min l m sign <= v <= spec_max l m sign -> exists nv, src_bm_masked_value rl rm old v len e sign = Ok nv) /\
  (v < spec_min l m sign \/ spec_max l m sign < v -> src_bm_masked_value rl rm old v len e sign = Err E_INVALID_DATA).
Proof.
  intros (Hl & Hm & Hlen & He & Nl & Nm & F) Hs.
  rewrite (masked_from_source rl rm old v len e sign l m) by assumption. split.
  - intros R. eexists. exact (bm_masked_ok l m sign old v F R).
  - intros R. exact (bm_masked_out_of_range l m sign old v F R).
Qed.

Lemma source_read_any rl rm len e l m sign reg : src_field rl rm len e l m -> flag sign ->
  src_bm_apply_mask rl rm reg len e sign = Ok (spec_get l m sign reg) /\
  src_bm_min rl rm len e sign = Ok (spec_min l m sign) /\ src_bm_max rl rm len e sign = Ok (spec_max l m sign).
Proof.
  intros (Hl & Hm & Hlen & He & Nl & Nm & F) Hs.
  rewrite (apply_from_source rl rm reg len e sign l m), (min_from_source rl rm len e sign l m),
    (max_from_source rl rm len e sign l m) by assumption.
  destruct (minmax_exact l m sign F) as [A B]. rewrite A, B, (read_any l m sign reg F). auto.
Qed.

(* non-vacuity: a big-endian 32-bit register, bits 4..11 in BE numbering *)
Example src_field_example : src_field 11 4 4 1 20 27 /\ src_bm_masked_value 11 4 (-1) (-128) 4 1 1 = Ok (-133169153)
  /\ src_bm_apply_mask 11 4 (-133169153) 4 1 1 = Ok (-128).
Proof. unfold src_field, raw_ok, len_ok, flag, field_ok. repeat split; try reflexivity; try lia; auto. Qed.
