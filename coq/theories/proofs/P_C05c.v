(* Proofs for C05, part 4: from tokens to source bytes.
   (a) the parser over two token streams related by a simulation gives related results
       (so the lazy byte-level parser agrees with the parser over the token list);
   (b) the lexer reads back every spelling of a token sequence (tokens separated by white space;
       operators raw or XML-escaped; decimal or hex integers; decimal floats);
   (c) hence parse_src (any spelling of pp e) = Ok e. *)
From Cam Require Import Outcome Formula FuncTable FormulaSyntax FormulaStd P_C05 P_C05b.

Section Sim.
  Variables (S1 S2 : Type).
  Variable n1 : S1 -> outcome (option (token * S1)).
  Variable n2 : S2 -> outcome (option (token * S2)).
  Variable fx : bool.
  Variable R : S1 -> S2 -> Prop.
  Hypothesis Hnext : forall s1 s2, R s1 s2 ->
    (n1 s1 = Ok None /\ n2 s2 = Ok None) \/
    (exists t s1' s2', n1 s1 = Ok (Some (t, s1')) /\ n2 s2 = Ok (Some (t, s2')) /\ R s1' s2').

  Definition rel {A} (x : outcome (A * S1)) (y : outcome (A * S2)) : Prop :=
    match x, y with
    | Ok (a, s1), Ok (b, s2) => a = b /\ R s1 s2
    | Err c, Err d => c = d
    | Panic, Panic => True
    | _, _ => False
    end.
  Definition rel0 (x : outcome S1) (y : outcome S2) : Prop :=
    match x, y with
    | Ok s1, Ok s2 => R s1 s2
    | Err c, Err d => c = d
    | Panic, Panic => True
    | _, _ => False
    end.

  Lemma rel_bind {A B} (x : outcome (A * S1)) (y : outcome (A * S2))
        (f : A * S1 -> outcome (B * S1)) (g : A * S2 -> outcome (B * S2)) :
    rel x y -> (forall a s1 s2, R s1 s2 -> rel (f (a, s1)) (g (a, s2))) -> rel (bind x f) (bind y g).
  Proof.
    destruct x as [[a s1] | c |], y as [[b s2] | d |]; cbn; try contradiction; auto.
    intros [-> HR] H. apply H. exact HR.
  Qed.
  Lemma rel0_bind {B} (x : outcome S1) (y : outcome S2)
        (f : S1 -> outcome (B * S1)) (g : S2 -> outcome (B * S2)) :
    rel0 x y -> (forall s1 s2, R s1 s2 -> rel (f s1) (g s2)) -> rel (bind x f) (bind y g).
  Proof.
    destruct x as [s1 | c |], y as [s2 | d |]; cbn; try contradiction; auto.
  Qed.

  Lemma eat_rel tok s1 s2 : R s1 s2 -> rel (eat S1 n1 tok s1) (eat S2 n2 tok s2).
  Proof.
    intros HR. unfold eat. destruct (Hnext _ _ HR) as [[E1 E2] | (t & s1' & s2' & E1 & E2 & HR')];
      rewrite E1, E2; cbn [bind].
    - cbn. auto.
    - destruct (tok_eqb t tok); cbn; auto.
  Qed.
  Lemma expect_rel tok s1 s2 : R s1 s2 -> rel0 (expect S1 n1 tok s1) (expect S2 n2 tok s2).
  Proof.
    intros HR. unfold expect. pose proof (eat_rel tok s1 s2 HR) as H.
    destruct (eat S1 n1 tok s1) as [[b1 t1] | |], (eat S2 n2 tok s2) as [[b2 t2] | |]; cbn in *;
      try contradiction; auto.
    destruct H as [-> H]. destruct b2; cbn; auto.
  Qed.

  Lemma p_rel fuel : forall m s1 s2, R s1 s2 -> rel (p S1 n1 fx fuel m s1) (p S2 n2 fx fuel m s2).
  Proof.
    induction fuel as [| f IH]; intros m s1 s2 HR; [cbn; reflexivity|].
    destruct m; cbn [p].
    - (* MExpr *)
      apply rel_bind; [apply IH; exact HR|]. intros c t1 t2 HR1.
      apply rel_bind; [apply eat_rel; exact HR1|]. intros q u1 u2 HR2.
      destruct q; [|cbn; auto].
      apply rel_bind; [apply IH; exact HR2|]. intros t v1 v2 HR3.
      apply rel0_bind; [apply expect_rel; exact HR3|]. intros w1 w2 HR4.
      apply rel_bind; [apply IH; exact HR4|]. intros e x1 x2 HR5. cbn. auto.
    - (* MLevel *)
      apply rel_bind; [apply IH; exact HR|]. intros lhs t1 t2 HR1. apply IH. exact HR1.
    - (* MLoop *)
      destruct (Hnext _ _ HR) as [[E1 E2] | (t & s1' & s2' & E1 & E2 & HR')]; rewrite E1, E2; cbn [bind].
      + cbn. auto.
      + destruct (find_op (level_ops l) t).
        * apply rel_bind; [apply IH; exact HR'|]. intros rhs t1 t2 HR1. apply IH. exact HR1.
        * cbn. auto.
    - (* MUnop *)
      apply rel_bind; [apply eat_rel; exact HR|]. intros b t1 t2 HR1.
      destruct b.
      { apply rel_bind; [apply IH; exact HR1|]. intros e u1 u2 HR2. cbn. auto. }
      apply rel_bind; [apply eat_rel; exact HR|]. intros b' t1' t2' HR1'.
      destruct b'.
      { apply rel_bind; [apply IH; exact HR1'|]. intros e u1 u2 HR2. cbn. auto. }
      apply rel_bind; [apply eat_rel; exact HR|]. intros b'' u1 u2 HR2. apply IH. exact HR2.
    - (* MPow *)
      apply rel_bind; [apply IH; exact HR|]. intros b t1 t2 HR1.
      apply rel_bind; [apply eat_rel; exact HR1|]. intros q u1 u2 HR2.
      destruct q; [|cbn; auto].
      apply rel_bind; [apply IH; exact HR2|]. intros r v1 v2 HR3. cbn. auto.
    - (* MPrimary *)
      destruct (Hnext _ _ HR) as [[E1 E2] | (t & s1' & s2' & E1 & E2 & HR')]; rewrite E1, E2; cbn [bind].
      + cbn. auto.
      + destruct t; try (cbn; auto; fail).
        * apply rel_bind; [apply IH; exact HR'|]. intros e t1 t2 HR1.
          apply rel0_bind; [apply expect_rel; exact HR1|]. intros u1 u2 HR2. cbn. auto.
        * destruct (const_of_name s); [cbn; auto|].
          apply rel_bind; [apply eat_rel; exact HR'|]. intros q t1 t2 HR1.
          destruct q; [|cbn; auto].
          destruct (func_of_name fx s); [|cbn; auto].
          apply rel_bind; [apply IH; exact HR1|]. intros e u1 u2 HR2.
          apply rel0_bind; [apply expect_rel; exact HR2|]. intros v1 v2 HR3. cbn. auto.
  Qed.
End Sim.

(* ------------------------------------------------------------------ lexer -- *)
Definition sep (rest : list Z) : Prop := rest = [] \/ exists w r, rest = w :: r /\ is_ws w.

Lemma next_char_plain c x : c <> 38 -> next_char (c :: x) = Some (c, x).
Proof.
  intros H. unfold next_char. cbn [strip_prefix].
  replace (38 =? c) with false by (symmetry; apply Z.eqb_neq; lia). reflexivity.
Qed.

Lemma ws_props w : is_ws w -> w <> 38 /\ is_space w = true /\ is_digit w = false /\ is_hex w = false /\
  is_ident_char w = false /\ is_num_char w = false /\ (w =? 120) = false.
Proof. intros [-> | [-> | [-> | ->]]]; repeat split; try reflexivity; lia. Qed.

Section Lex.
  Variable fops : float_ops.

  Lemma lex1_nil : lex1 fops [] = Ok None.
  Proof. reflexivity. Qed.

  Lemma lex1_ws w s : is_ws w -> lex1 fops (w :: s) = lex1 fops s.
  Proof.
    intros Hw. destruct (ws_props w Hw) as (H38 & Hsp & _).
    unfold lex1. cbn [length take_while]. rewrite next_char_plain by exact H38. rewrite Hsp.
    destruct (take_while (length s) is_space s) as [a b]. reflexivity.
  Qed.

  Lemma lex1_ws_run ws s : Forall is_ws ws -> lex1 fops (ws ++ s) = lex1 fops s.
  Proof. induction 1 as [| w ws Hw _ IH]; [reflexivity|]. cbn [app]. rewrite lex1_ws by exact Hw. exact IH. Qed.

  Lemma take_while_all pr cs : forall n rest,
    (forall c, pr c = true -> c <> 38) -> forallb pr cs = true -> (length cs <= n)%nat ->
    (rest = [] \/ exists w r, rest = w :: r /\ w <> 38 /\ pr w = false) ->
    take_while n pr (cs ++ rest) = (cs, rest).
  Proof.
    induction cs as [| c cs IH]; intros n rest H38 Hall Hn Hrest.
    - cbn [app]. destruct n as [| n]; [reflexivity|]. cbn [take_while].
      destruct Hrest as [-> | (w & r & -> & Hw & Hp)]; [reflexivity|].
      rewrite next_char_plain by exact Hw. rewrite Hp. reflexivity.
    - cbn [forallb] in Hall. apply andb_prop in Hall. destruct Hall as [Hc Hcs].
      destruct n as [| n]; [cbn in Hn; lia|]. cbn [app take_while].
      rewrite next_char_plain by (apply H38; exact Hc). rewrite Hc.
      rewrite (IH n rest H38 Hcs); [reflexivity | cbn in Hn; lia | exact Hrest].
  Qed.

  Lemma sep_stop (pr : Z -> bool) rest :
    (forall w, is_ws w -> pr w = false) -> sep rest ->
    rest = [] \/ exists w r, rest = w :: r /\ w <> 38 /\ pr w = false.
  Proof.
    intros Hp [-> | (w & r & -> & Hw)]; [left; reflexivity|]. right. exists w, r.
    repeat split; [apply (ws_props w Hw) | apply Hp; exact Hw].
  Qed.

  Lemma is_alpha_range c : is_alpha c = true -> 65 <= c <= 90 \/ 97 <= c <= 122.
  Proof. unfold is_alpha. intros H. apply orb_prop in H. destruct H as [H | H]; apply andb_prop in H; lia. Qed.
  Lemma is_digit_range c : is_digit c = true -> 48 <= c <= 57.
  Proof. unfold is_digit. intros H. apply andb_prop in H. lia. Qed.
  Lemma digit_not_alpha c : 48 <= c <= 57 -> is_alpha c = false.
  Proof. intros H. unfold is_alpha. apply orb_false_intro; apply andb_false_iff; lia. Qed.
  Lemma digit_is_digit c : 48 <= c <= 57 -> is_digit c = true.
  Proof. intros H. unfold is_digit. apply andb_true_intro. lia. Qed.

  Lemma ident_char_38 c : is_ident_char c = true -> c <> 38.
  Proof.
    unfold is_ident_char, is_alpha, is_digit. intros H ->. cbn in H. discriminate.
  Qed.
  Lemma num_char_38 c : is_num_char c = true -> c <> 38.
  Proof. unfold is_num_char, is_digit. intros H ->. cbn in H. discriminate. Qed.
  Lemma digit_38 c : is_digit c = true -> c <> 38.
  Proof. unfold is_digit. intros H ->. cbn in H. discriminate. Qed.
  Lemma hex_38 c : is_hex c = true -> c <> 38.
  Proof. unfold is_hex, is_digit. intros H ->. cbn in H. discriminate. Qed.

  (* skipping white space in front of a token that starts with a non-space character *)
  Lemma skip_none c x :
    c <> 38 -> is_space c = false ->
    snd (take_while (length (c :: x)) is_space (c :: x)) = c :: x.
  Proof. intros H1 H2. cbn [length take_while]. rewrite next_char_plain by exact H1. rewrite H2. reflexivity. Qed.

  Ltac kill_eqb c :=
    repeat match goal with
           | |- context [c =? ?k] => replace (c =? k) with false by (symmetry; apply Z.eqb_neq; lia)
           end.

  Lemma lex_ident c cs rest :
    is_alpha c = true -> forallb is_ident_char cs = true -> sep rest ->
    lex1 fops ((c :: cs) ++ rest) = Ok (Some (TIdent (c :: cs), rest)).
  Proof.
    intros Hc Hcs Hsep. pose proof (is_alpha_range c Hc) as Hr. cbn [app].
    unfold lex1. rewrite skip_none; [| lia | unfold is_space; kill_eqb c;
      replace (c <=? 32) with false by (symmetry; apply Z.leb_gt; lia); reflexivity].
    rewrite next_char_plain by lia. kill_eqb c. rewrite Hc.
    rewrite (take_while_all is_ident_char cs (length (cs ++ rest)) rest).
    - reflexivity.
    - apply ident_char_38.
    - exact Hcs.
    - rewrite app_length. lia.
    - apply sep_stop; [|exact Hsep]. intros w Hw. apply (ws_props w Hw).
  Qed.

  (* common part of decimal integers and floats that start with a digit *)
  Lemma lex_number c cs rest :
    is_digit c = true -> forallb is_num_char cs = true -> sep rest ->
    lex1 fops ((c :: cs) ++ rest) =
      match count_dots (c :: cs) with
      | O => let v := digits_val 10 (c :: cs) in
             if v <=? I64_MAX then Ok (Some (TInteger v, rest)) else Panic
      | S O => Ok (Some (TFloat (f_lit fops (c :: cs)), rest))
      | _ => Panic
      end.
  Proof.
    intros Hc Hcs Hsep. pose proof (is_digit_range c Hc) as Hr. cbn [app].
    unfold lex1. rewrite skip_none; [| lia | unfold is_space; kill_eqb c;
      replace (c <=? 32) with false by (symmetry; apply Z.leb_gt; lia); reflexivity].
    rewrite next_char_plain by lia.
    replace (c =? 40) with false by (symmetry; apply Z.eqb_neq; lia).
    replace (c =? 41) with false by (symmetry; apply Z.eqb_neq; lia).
    replace (c =? 43) with false by (symmetry; apply Z.eqb_neq; lia).
    replace (c =? 45) with false by (symmetry; apply Z.eqb_neq; lia).
    replace (c =? 42) with false by (symmetry; apply Z.eqb_neq; lia).
    replace (c =? 47) with false by (symmetry; apply Z.eqb_neq; lia).
    replace (c =? 37) with false by (symmetry; apply Z.eqb_neq; lia).
    replace (c =? 38) with false by (symmetry; apply Z.eqb_neq; lia).
    replace (c =? 124) with false by (symmetry; apply Z.eqb_neq; lia).
    replace (c =? 94) with false by (symmetry; apply Z.eqb_neq; lia).
    replace (c =? 126) with false by (symmetry; apply Z.eqb_neq; lia).
    replace (c =? 61) with false by (symmetry; apply Z.eqb_neq; lia).
    replace (c =? 58) with false by (symmetry; apply Z.eqb_neq; lia).
    replace (c =? 63) with false by (symmetry; apply Z.eqb_neq; lia).
    replace (c =? 60) with false by (symmetry; apply Z.eqb_neq; lia).
    replace (c =? 62) with false by (symmetry; apply Z.eqb_neq; lia).
    replace (c =? 46) with false by (symmetry; apply Z.eqb_neq; lia).
    rewrite (digit_not_alpha c Hr). rewrite Hc.
    assert (Hx : (if c =? 48 then eat_char (Z.eqb 120) (cs ++ rest) else None) = None).
    { destruct (c =? 48); [|reflexivity]. unfold eat_char.
      destruct cs as [| d ds].
      - cbn [app]. destruct Hsep as [-> | (w & r & -> & Hw)]; [reflexivity|].
        destruct (ws_props w Hw) as (H38 & _ & _ & _ & _ & _ & Hx).
        rewrite next_char_plain by exact H38. rewrite Z.eqb_sym. rewrite Hx. reflexivity.
      - cbn [forallb] in Hcs. apply andb_prop in Hcs. destruct Hcs as [Hd _]. cbn [app].
        rewrite next_char_plain by (apply num_char_38; exact Hd).
        assert (d <> 120).
        { unfold is_num_char, is_digit in Hd. intros ->. cbn in Hd. discriminate. }
        replace (120 =? d) with false by (symmetry; apply Z.eqb_neq; lia). reflexivity. }
    rewrite Hx.
    rewrite (take_while_all is_num_char cs (length (cs ++ rest)) rest).
    - reflexivity.
    - apply num_char_38.
    - exact Hcs.
    - rewrite app_length. lia.
    - apply sep_stop; [|exact Hsep]. intros w Hw. apply (ws_props w Hw).
  Qed.

  Lemma digits_no_dots cs : forallb is_digit cs = true -> count_dots cs = 0%nat.
  Proof.
    induction cs as [| c cs IH]; [reflexivity|]. cbn [forallb]. intros H. apply andb_prop in H.
    destruct H as [Hc Hcs]. unfold count_dots in *. cbn [filter].
    apply is_digit_range in Hc. replace (46 =? c) with false by (symmetry; apply Z.eqb_neq; lia).
    apply IH. exact Hcs.
  Qed.
  Lemma digits_are_num cs : forallb is_digit cs = true -> forallb is_num_char cs = true.
  Proof.
    induction cs as [| c cs IH]; [reflexivity|]. cbn [forallb]. intros H. apply andb_prop in H.
    destruct H as [Hc Hcs]. apply andb_true_intro. split; [|apply IH; exact Hcs].
    unfold is_num_char. rewrite Hc. reflexivity.
  Qed.

  Lemma lex_hex h hs rest :
    is_hex h = true -> forallb is_hex hs = true -> digits_val 16 (h :: hs) <= I64_MAX -> sep rest ->
    lex1 fops ((48 :: 120 :: h :: hs) ++ rest) = Ok (Some (TInteger (digits_val 16 (h :: hs)), rest)).
  Proof.
    intros Hh Hhs Hv Hsep. cbn [app].
    unfold lex1. rewrite skip_none; [| lia | reflexivity].
    rewrite next_char_plain by lia.
    cbn [Z.eqb Pos.eqb is_alpha is_digit Z.leb Z.compare Pos.compare Pos.compare_cont andb orb].
    unfold eat_char at 1. rewrite next_char_plain by lia. cbn [Z.eqb Pos.eqb].
    change (length (h :: hs ++ rest)) with (length ((h :: hs) ++ rest)).
    change (h :: hs ++ rest) with ((h :: hs) ++ rest).
    rewrite (take_while_all is_hex (h :: hs) (length ((h :: hs) ++ rest)) rest).
    - replace (digits_val 16 (h :: hs) <=? I64_MAX) with true by (symmetry; apply Z.leb_le; exact Hv).
      reflexivity.
    - apply hex_38.
    - cbn [forallb]. rewrite Hh, Hhs. reflexivity.
    - rewrite app_length. lia.
    - apply sep_stop; [|exact Hsep]. intros w Hw. apply (ws_props w Hw).
  Qed.

  Lemma lex_float_dot d ds rest :
    is_digit d = true -> forallb is_digit ds = true -> sep rest ->
    lex1 fops ((46 :: d :: ds) ++ rest) = Ok (Some (TFloat (f_lit fops (46 :: d :: ds)), rest)).
  Proof.
    intros Hd Hds Hsep. cbn [app].
    unfold lex1. rewrite skip_none; [| lia | reflexivity].
    rewrite next_char_plain by lia.
    cbn [Z.eqb Pos.eqb].
    change (d :: ds ++ rest) with ((d :: ds) ++ rest).
    rewrite (take_while_all is_digit (d :: ds) (length ((d :: ds) ++ rest)) rest).
    - reflexivity.
    - apply digit_38.
    - cbn [forallb]. rewrite Hd, Hds. reflexivity.
    - rewrite app_length. lia.
    - apply sep_stop; [|exact Hsep]. intros w Hw. apply (ws_props w Hw).
  Qed.

  Lemma lex_op t rest :
    is_op t -> sep rest ->
    lex1 fops (op_chars t ++ rest) = Ok (Some (t, rest)) /\
    lex1 fops (xml_escape (op_chars t) ++ rest) = Ok (Some (t, rest)).
  Proof.
    intros Ht Hsep. unfold is_op in Ht.
    destruct Hsep as [-> | (w & r & -> & [-> | [-> | [-> | ->]]])];
      destruct t; cbn in Ht; try lia; split; reflexivity.
  Qed.

  Lemma lex_spelled t cs rest : spells fops t cs -> sep rest -> lex1 fops (cs ++ rest) = Ok (Some (t, rest)).
  Proof.
    intros Hs Hsep. destruct Hs.
    - apply lex_op; assumption.
    - apply lex_op; assumption.
    - apply lex_ident; assumption.
    - rewrite lex_number; try assumption.
      + assert (count_dots (c :: cs) = 0%nat) as ->.
        { apply digits_no_dots. cbn [forallb]. rewrite H, H0. reflexivity. }
        cbv zeta. replace (digits_val 10 (c :: cs) <=? I64_MAX) with true by (symmetry; apply Z.leb_le; assumption).
        reflexivity.
      + apply digits_are_num. exact H0.
    - apply lex_hex; assumption.
    - rewrite lex_number; try assumption. rewrite H1. reflexivity.
    - apply lex_float_dot; assumption.
  Qed.

  Lemma spells_all_sep ts src : spells_all fops ts src -> sep src.
  Proof.
    intros H. destruct H as [ws Hws | t ts w ws cs src Hw _ _ _].
    - destruct Hws as [| w ws Hw _]; [left; reflexivity | right; eauto].
    - right. eauto.
  Qed.

  (* the lazy lexer and the token list step together *)
  Lemma spelled_next ts src :
    spells_all fops ts src ->
    (lex1 fops src = Ok None /\ next_tok ts = Ok None) \/
    (exists t src' ts', lex1 fops src = Ok (Some (t, src')) /\ next_tok ts = Ok (Some (t, ts')) /\
                        spells_all fops ts' src').
  Proof.
    intros H. destruct H as [ws Hws | t ts w ws cs src Hw Hws Hsp Hrest].
    - left. split; [|reflexivity]. rewrite <- (app_nil_r ws). rewrite lex1_ws_run by exact Hws. reflexivity.
    - right. exists t, src, ts. split; [|split; [reflexivity | exact Hrest]].
      rewrite lex1_ws by exact Hw. rewrite lex1_ws_run by exact Hws.
      apply lex_spelled; [exact Hsp | apply (spells_all_sep ts); exact Hrest].
  Qed.

  Lemma lex_all_S n s :
    lex_all fops (S n) s =
    (let? o := lex1 fops s in
     match o with None => Ok [] | Some (t, r) => let? ts := lex_all fops n r in Ok (t :: ts) end).
  Proof. reflexivity. Qed.

  Lemma lex_all_spelled ts : forall src,
    spells_all fops ts src -> lex_all fops (S (length ts)) src = Ok ts.
  Proof.
    induction ts as [| t ts IH]; intros src H;
      destruct (spelled_next _ _ H) as [[E1 E2] | (t' & src' & ts' & E1 & E2 & H')];
      rewrite lex_all_S; rewrite E1; cbn [bind]; try discriminate.
    - reflexivity.
    - cbn in E2. apply Ok_inj in E2. injection E2 as <- <-.
      cbn [length]. rewrite (IH src' H'). reflexivity.
  Qed.

  (* the byte-level parser on a spelling = the token-level parser *)
  Lemma parse_src_spelled fuel ts src :
    spells_all fops ts src -> parse_src fops true fuel src = parse_toks fuel ts.
  Proof.
    intros H. unfold parse_src, parse_toks, parse_with.
    pose proof (p_rel (list Z) (list token) (lex1 fops) next_tok true
                      (fun s t => spells_all fops t s)
                      (fun s t => spelled_next t s) fuel MExpr src ts H) as Hrel.
    unfold rel in Hrel.
    destruct (p (list Z) (lex1 fops) true fuel MExpr src) as [[a s1] | c |],
             (p (list token) next_tok true fuel MExpr ts) as [[b s2] | d |]; cbn; try contradiction.
    - destruct Hrel as [-> _]. reflexivity.
    - subst. reflexivity.
    - reflexivity.
  Qed.

  Theorem parse_src_pp full e src :
    wf_expr e -> spells_all fops (pr full 0 e) src ->
    exists f0, forall f, (f0 <= f)%nat -> parse_src fops true f src = Ok e.
  Proof.
    intros Hwf Hsp. destruct (parse_pp full e Hwf) as [f0 H]. exists f0. intros f Hf.
    rewrite (parse_src_spelled f _ _ Hsp). apply H. exact Hf.
  Qed.
End Lex.

(* Non-vacuity: a concrete spelling.  " A &lt;&lt; 2 + 0x1f" spells pp_min (A << (2 + 31)). *)
Definition ex_expr : expr := EBin BShl (EIdent [65]) (EBin BAdd (EInt 2) (EInt 31)).
Definition ex_src : list Z :=
  [32; 65; 32; 38; 108; 116; 59; 38; 108; 116; 59; 9; 10; 50; 32; 43; 32; 48; 120; 49; 102; 32].

Lemma ex_spelled fops : wf_expr ex_expr /\ spells_all fops (pp_min ex_expr) ex_src.
Proof.
  split; [cbn; auto|].
  change (pp_min ex_expr) with [TIdent [65]; TShl; TInteger (digits_val 10 [50]); TPlus; TInteger (digits_val 16 [49; 102])].
  apply (sa_cons fops _ _ 32 [] [65]); [left; reflexivity | constructor | apply sp_ident; reflexivity |].
  apply (sa_cons fops TShl _ 32 [] (xml_escape (op_chars TShl))); [left; reflexivity | constructor | apply sp_op_esc; reflexivity |].
  apply (sa_cons fops _ _ 9 [10] [50]);
    [right; left; reflexivity | apply Forall_cons; [right; right; left; reflexivity | apply Forall_nil] | apply sp_dec; try reflexivity; cbn; unfold I64_MAX; lia |].
  apply (sa_cons fops TPlus _ 32 [] (op_chars TPlus)); [left; reflexivity | constructor | apply sp_op; reflexivity |].
  apply (sa_cons fops _ _ 32 [] [48; 120; 49; 102]);
    [left; reflexivity | constructor | apply sp_hex; try reflexivity; cbn; unfold I64_MAX; lia |].
  apply sa_nil. apply Forall_cons; [left; reflexivity | apply Forall_nil].
Qed.
