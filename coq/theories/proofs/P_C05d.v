(* Proofs for C05, part 5:
   (a) the lexer reads back token sequences spelled with white space only where needs_space asks
       for it (and with any extra white space): lex_all_spelt, render_min_space;
   (b) the token-level parser inverts every loose print (redundant parentheses, unary plus, NEG(x));
   (c) composition: formula::parse on bytes. *)
From Cam Require Import Outcome Formula FuncTable FormulaSyntax FormulaStd P_C05 P_C05b P_C05c.

(* ------------------------------------------------------------ follow sets -- *)
Definition dec_hd_ok (bad : Z -> bool) (rest : list Z) : Prop :=
  match next_char rest with Some (w, _) => bad w = false | None => True end.
(* the bytes after a raw `&` must not complete an entity *)
Definition no_entity_tail (rest : list Z) : Prop :=
  strip_prefix [97; 109; 112; 59] rest = None /\
  strip_prefix [108; 116; 59] rest = None /\
  strip_prefix [103; 116; 59] rest = None.
Definition fol (a : stok) (rest : list Z) : Prop :=
  dec_hd_ok (follow_bad a) rest /\ no_entity_tail rest.
Definition hd_not59 (rest : list Z) : Prop := match rest with c :: _ => c <> 59 | [] => True end.

Lemma strip_cons a p s : strip_prefix (a :: p) (a :: s) = strip_prefix p s.
Proof. cbn [strip_prefix]. rewrite Z.eqb_refl. reflexivity. Qed.

Lemma raw_amp_next rest : no_entity_tail rest -> next_char (38 :: rest) = Some (38, rest).
Proof.
  intros (H1 & H2 & H3). unfold next_char. rewrite !strip_cons. rewrite H1, H2, H3. reflexivity.
Qed.

Lemma skip_gen s c r :
  next_char s = Some (c, r) -> is_space c = false ->
  snd (take_while (length s) is_space s) = s.
Proof.
  intros H Hs. destruct s as [| x s]; [discriminate|].
  cbn [length take_while]. rewrite H, Hs. reflexivity.
Qed.

Local Arguments Z.eqb _ _ : simpl nomatch.

Section LexTight.
  Variable fops : float_ops.

  Ltac start Hnc :=
    unfold lex1; rewrite (skip_gen _ _ _ Hnc) by reflexivity; rewrite Hnc.

  Ltac kill_w w :=
    repeat match goal with H : (_ || _) = false |- _ => apply orb_false_elim in H; destruct H end;
    repeat match goal with H : (w =? ?k) = false |- _ => apply Z.eqb_neq in H end;
    repeat match goal with
           | |- context [?k =? w] => replace (k =? w) with false by (symmetry; apply Z.eqb_neq; lia)
           end.

  (* a lookahead operator whose first character is c (already decoded, the rest of the input is rest) *)
  Ltac lookahead Hd :=
    cbn; unfold eat_char;
    let w := fresh "w" in let r' := fresh "r'" in
    destruct (next_char _) as [[w r'] |]; cbn in Hd |- *; [kill_w w; reflexivity | reflexivity].

  Lemma lex_op_tight t cs rest :
    is_op t -> In cs (variants (op_chars t)) -> fol (t, cs) rest ->
    lex1 fops (cs ++ rest) = Ok (Some (t, rest)).
  Proof.
    intros Ht Hin [Hd Hr]. unfold is_op in Ht. unfold dec_hd_ok in Hd.
    destruct t; cbn in Ht; try lia; cbn in Hin;
      repeat (destruct Hin as [<- | Hin]); try contradiction; cbn [app follow_bad fst] in *;
      try reflexivity.
    - (* * *)
      assert (Hnc : next_char (42 :: rest) = Some (42, rest)) by (apply next_char_plain; lia).
      start Hnc. lookahead Hd.
    - (* & raw *)
      pose proof (raw_amp_next rest Hr) as Hnc. start Hnc. lookahead Hd.
    - (* &amp; *)
      assert (Hnc : next_char (38 :: 97 :: 109 :: 112 :: 59 :: rest) = Some (38, rest)) by reflexivity.
      start Hnc. lookahead Hd.
    - (* && *)
      assert (Hnc : next_char (38 :: 38 :: rest) = Some (38, 38 :: rest)) by reflexivity.
      start Hnc. cbn. unfold eat_char. rewrite (raw_amp_next rest Hr). reflexivity.
    - (* &amp;& *)
      assert (Hnc : next_char (38 :: 97 :: 109 :: 112 :: 59 :: 38 :: rest) = Some (38, 38 :: rest)) by reflexivity.
      start Hnc. cbn. unfold eat_char. rewrite (raw_amp_next rest Hr). reflexivity.
    - (* | *)
      assert (Hnc : next_char (124 :: rest) = Some (124, rest)) by (apply next_char_plain; lia).
      start Hnc. lookahead Hd.
    - (* < *)
      assert (Hnc : next_char (60 :: rest) = Some (60, rest)) by (apply next_char_plain; lia).
      start Hnc. lookahead Hd.
    - (* &lt; *)
      assert (Hnc : next_char (38 :: 108 :: 116 :: 59 :: rest) = Some (60, rest)) by reflexivity.
      start Hnc. lookahead Hd.
    - (* > *)
      assert (Hnc : next_char (62 :: rest) = Some (62, rest)) by (apply next_char_plain; lia).
      start Hnc. lookahead Hd.
    - (* &gt; *)
      assert (Hnc : next_char (38 :: 103 :: 116 :: 59 :: rest) = Some (62, rest)) by reflexivity.
      start Hnc. lookahead Hd.
  Qed.

  (* ---------------------------------------------------- identifiers, numbers -- *)
  Lemma take_while_gen pr cs : forall n rest,
    (forall c, pr c = true -> c <> 38) -> forallb pr cs = true -> (length cs <= n)%nat ->
    dec_hd_ok pr rest -> take_while n pr (cs ++ rest) = (cs, rest).
  Proof.
    induction cs as [| c cs IH]; intros n rest H38 Hall Hn Hrest.
    - cbn [app]. destruct n as [| n]; [reflexivity|]. cbn [take_while]. unfold dec_hd_ok in Hrest.
      destruct (next_char rest) as [[w r] |]; [rewrite Hrest|]; reflexivity.
    - cbn [forallb] in Hall. apply andb_prop in Hall. destruct Hall as [Hc Hcs].
      destruct n as [| n]; [cbn in Hn; lia|]. cbn [app take_while].
      rewrite next_char_plain by (apply H38; exact Hc). rewrite Hc.
      rewrite (IH n rest H38 Hcs); [reflexivity | cbn in Hn; lia | exact Hrest].
  Qed.

  Ltac kill_eqb c :=
    repeat match goal with
           | |- context [c =? ?k] => replace (c =? k) with false by (symmetry; apply Z.eqb_neq; lia)
           end.

  Lemma nonspace_of_range c : 33 <= c <= 126 -> is_space c = false.
  Proof.
    intros H. unfold is_space. kill_eqb c.
    replace (c <=? 32) with false by (symmetry; apply Z.leb_gt; lia). reflexivity.
  Qed.

  Lemma lex_ident_tight c cs rest :
    is_alpha c = true -> forallb is_ident_char cs = true -> dec_hd_ok is_ident_char rest ->
    lex1 fops ((c :: cs) ++ rest) = Ok (Some (TIdent (c :: cs), rest)).
  Proof.
    intros Hc Hcs Hd. pose proof (is_alpha_range c Hc) as Hr. cbn [app].
    assert (Hnc : next_char (c :: cs ++ rest) = Some (c, cs ++ rest)) by (apply next_char_plain; lia).
    unfold lex1. rewrite (skip_gen _ _ _ Hnc) by (apply nonspace_of_range; lia). rewrite Hnc.
    kill_eqb c. rewrite Hc.
    rewrite (take_while_gen is_ident_char cs (length (cs ++ rest)) rest).
    - reflexivity.
    - apply ident_char_38.
    - exact Hcs.
    - rewrite app_length. lia.
    - exact Hd.
  Qed.

  Lemma lex_number_tight c cs rest :
    is_digit c = true -> forallb is_num_char cs = true ->
    dec_hd_ok (fun w => is_num_char w || (is_zero_text (c :: cs) && (w =? 120))) rest ->
    lex1 fops ((c :: cs) ++ rest) =
      match count_dots (c :: cs) with
      | O => let v := digits_val 10 (c :: cs) in
             if v <=? I64_MAX then Ok (Some (TInteger v, rest)) else Panic
      | S O => Ok (Some (TFloat (f_lit fops (c :: cs)), rest))
      | _ => Panic
      end.
  Proof.
    intros Hc Hcs Hd. pose proof (is_digit_range c Hc) as Hr. cbn [app].
    assert (Hnc : next_char (c :: cs ++ rest) = Some (c, cs ++ rest)) by (apply next_char_plain; lia).
    unfold lex1. rewrite (skip_gen _ _ _ Hnc) by (apply nonspace_of_range; lia). rewrite Hnc.
    replace (c =? 40) with false by (symmetry; apply Z.eqb_neq; lia).
    replace (c =? 41) with false by (symmetry; apply Z.eqb_neq; lia).
    replace (c =? 43) with false by (symmetry; apply Z.eqb_neq; lia).
    replace (c =? 45) with false by (symmetry; apply Z.eqb_neq; lia).
    replace (c =? 42) with false by (symmetry; apply Z.eqb_neq; lia).
    replace (c =? 47) with false by (symmetry; apply Z.eqb_neq; lia).
    replace (c =? 37) with false by (symmetry; apply Z.eqb_neq; lia).
    replace (c =? 38) with false by (symmetry; apply Z.eqb_neq; lia).
    replace (c =? 124) with false by (symmetry; apply Z.eqb_neq; lia).
    replace (c =? 94) with false by (symmetry; apply Z.eqb_neq; lia).
    replace (c =? 126) with false by (symmetry; apply Z.eqb_neq; lia).
    replace (c =? 61) with false by (symmetry; apply Z.eqb_neq; lia).
    replace (c =? 58) with false by (symmetry; apply Z.eqb_neq; lia).
    replace (c =? 63) with false by (symmetry; apply Z.eqb_neq; lia).
    replace (c =? 60) with false by (symmetry; apply Z.eqb_neq; lia).
    replace (c =? 62) with false by (symmetry; apply Z.eqb_neq; lia).
    replace (c =? 46) with false by (symmetry; apply Z.eqb_neq; lia).
    rewrite (digit_not_alpha c Hr). rewrite Hc.
    assert (Hnum : dec_hd_ok is_num_char rest).
    { unfold dec_hd_ok in *. destruct (next_char rest) as [[w r] |]; [|exact I].
      apply orb_false_elim in Hd. apply Hd. }
    assert (Hx : (if c =? 48 then eat_char (Z.eqb 120) (cs ++ rest) else None) = None).
    { destruct (c =? 48) eqn:E48; [|reflexivity]. unfold eat_char.
      destruct cs as [| d ds].
      - cbn [app]. unfold dec_hd_ok in Hd. destruct (next_char rest) as [[w r] |]; [|reflexivity].
        apply orb_false_elim in Hd. destruct Hd as [_ Hd]. cbn [is_zero_text] in Hd. rewrite E48 in Hd.
        cbn [andb] in Hd. rewrite Z.eqb_sym. rewrite Hd. reflexivity.
      - cbn [forallb] in Hcs. apply andb_prop in Hcs. destruct Hcs as [Hd' _]. cbn [app].
        rewrite next_char_plain by (apply num_char_38; exact Hd').
        assert (d <> 120).
        { unfold is_num_char, is_digit in Hd'. intros ->. cbn in Hd'. discriminate. }
        replace (120 =? d) with false by (symmetry; apply Z.eqb_neq; lia). reflexivity. }
    rewrite Hx.
    rewrite (take_while_gen is_num_char cs (length (cs ++ rest)) rest).
    - reflexivity.
    - apply num_char_38.
    - exact Hcs.
    - rewrite app_length. lia.
    - exact Hnum.
  Qed.

  Lemma lex_hex_tight h hs rest :
    is_hex h = true -> forallb is_hex hs = true -> digits_val 16 (h :: hs) <= I64_MAX ->
    dec_hd_ok is_hex rest ->
    lex1 fops ((48 :: 120 :: h :: hs) ++ rest) = Ok (Some (TInteger (digits_val 16 (h :: hs)), rest)).
  Proof.
    intros Hh Hhs Hv Hd. cbn [app].
    assert (Hnc : next_char (48 :: 120 :: h :: hs ++ rest) = Some (48, 120 :: h :: hs ++ rest)) by reflexivity.
    unfold lex1. rewrite (skip_gen _ _ _ Hnc) by reflexivity. rewrite Hnc.
    cbn [Z.eqb Pos.eqb is_alpha is_digit Z.leb Z.compare Pos.compare Pos.compare_cont andb orb].
    unfold eat_char at 1. rewrite next_char_plain by lia. cbn [Z.eqb Pos.eqb].
    change (length (h :: hs ++ rest)) with (length ((h :: hs) ++ rest)).
    change (h :: hs ++ rest) with ((h :: hs) ++ rest).
    rewrite (take_while_gen is_hex (h :: hs) (length ((h :: hs) ++ rest)) rest).
    - replace (digits_val 16 (h :: hs) <=? I64_MAX) with true by (symmetry; apply Z.leb_le; exact Hv).
      reflexivity.
    - apply hex_38.
    - cbn [forallb]. rewrite Hh, Hhs. reflexivity.
    - rewrite app_length. lia.
    - exact Hd.
  Qed.

  Lemma lex_float_dot_tight d ds rest :
    is_digit d = true -> forallb is_digit ds = true -> dec_hd_ok is_digit rest ->
    lex1 fops ((46 :: d :: ds) ++ rest) = Ok (Some (TFloat (f_lit fops (46 :: d :: ds)), rest)).
  Proof.
    intros Hd Hds Hrest. cbn [app].
    assert (Hnc : next_char (46 :: d :: ds ++ rest) = Some (46, d :: ds ++ rest)) by reflexivity.
    unfold lex1. rewrite (skip_gen _ _ _ Hnc) by reflexivity. rewrite Hnc.
    cbn [Z.eqb Pos.eqb].
    change (d :: ds ++ rest) with ((d :: ds) ++ rest).
    rewrite (take_while_gen is_digit (d :: ds) (length ((d :: ds) ++ rest)) rest).
    - reflexivity.
    - apply digit_38.
    - cbn [forallb]. rewrite Hd, Hds. reflexivity.
    - rewrite app_length. lia.
    - exact Hrest.
  Qed.

  Lemma dec_hd_ok_ext f g rest : (forall w, f w = g w) -> dec_hd_ok f rest -> dec_hd_ok g rest.
  Proof. unfold dec_hd_ok. intros E H. destruct (next_char rest) as [[w r] |]; [rewrite <- E; exact H | exact I]. Qed.

  Lemma op_in_variants t : is_op t ->
    In (op_chars t) (variants (op_chars t)) /\ In (xml_escape (op_chars t)) (variants (op_chars t)).
  Proof. unfold is_op. destruct t; cbn; intros H; try lia; split; tauto. Qed.

  Lemma digits_not_hex_text c cs : forallb is_digit cs = true -> is_hex_text (c :: cs) = false.
  Proof.
    destruct cs as [| d ds]; [reflexivity|]. cbn [forallb is_hex_text]. intros H. apply andb_prop in H.
    destruct H as [H _]. apply is_digit_range in H.
    replace (d =? 120) with false by (symmetry; apply Z.eqb_neq; lia). apply andb_false_r.
  Qed.

  (* one token, followed by anything its follow set allows *)
  Lemma lex_tight t cs rest :
    spellx fops t cs -> fol (t, cs) rest -> lex1 fops (cs ++ rest) = Ok (Some (t, rest)).
  Proof.
    intros Hs Hf. destruct Hs as [t cs Hs | t cs Ht Hin].
    2:{ apply lex_op_tight; assumption. }
    destruct Hf as [Hd Hr]. destruct Hs.
    - apply lex_op_tight; [assumption | apply op_in_variants; assumption | split; assumption].
    - apply lex_op_tight; [assumption | apply op_in_variants; assumption | split; assumption].
    - apply lex_ident_tight; try assumption.
    - rewrite lex_number_tight; try assumption.
      + assert (count_dots (c :: cs) = 0%nat) as ->.
        { apply digits_no_dots. cbn [forallb]. rewrite H, H0. reflexivity. }
        cbv zeta. replace (digits_val 10 (c :: cs) <=? I64_MAX) with true by (symmetry; apply Z.leb_le; assumption).
        reflexivity.
      + apply digits_are_num. exact H0.
      + eapply dec_hd_ok_ext; [|exact Hd]. intros w. cbn [follow_bad fst snd].
        rewrite (digits_not_hex_text c cs H0). reflexivity.
    - apply lex_hex_tight; try assumption.
    - pose proof (is_digit_range c H) as Hr'.
      rewrite lex_number_tight; try assumption.
      + rewrite H1. reflexivity.
      + eapply dec_hd_ok_ext; [|exact Hd]. intros w. cbn [follow_bad fst snd starts_dot].
        replace (c =? 46) with false by (symmetry; apply Z.eqb_neq; lia).
        destruct cs as [| x xs]; [|cbn [is_zero_text]; rewrite orb_false_r; reflexivity].
        cbn in H1. replace (46 =? c) with false in H1 by (symmetry; apply Z.eqb_neq; lia). discriminate.
    - apply lex_float_dot_tight; try assumption.
  Qed.
End LexTight.

(* --------------------------------------------------- what a spelling starts with -- *)
Section Heads.
  Variable fops : float_ops.

  Lemma ident_char_59 c : is_ident_char c = true -> c <> 59.
  Proof. unfold is_ident_char, is_alpha, is_digit. intros H ->. cbn in H. discriminate. Qed.

  (* an identifier-like run followed by a non-identifier character that is not `;` never completes
     an entity name *)
  Lemma strip_ident pre : forall ids rest,
    forallb is_ident_char pre = true -> forallb is_ident_char ids = true ->
    dec_hd_ok is_ident_char rest -> hd_not59 rest ->
    strip_prefix (pre ++ [59]) (ids ++ rest) = None.
  Proof.
    induction pre as [| a pre IH]; intros ids rest Hpre Hids Hd H59.
    - cbn [app]. destruct ids as [| d ids].
      + cbn [app]. destruct rest as [| w r]; [reflexivity|]. cbn [strip_prefix]. cbn in H59.
        replace (59 =? w) with false by (symmetry; apply Z.eqb_neq; lia). reflexivity.
      + cbn [forallb] in Hids. apply andb_prop in Hids. destruct Hids as [Hd0 _].
        apply ident_char_59 in Hd0. cbn [app strip_prefix].
        replace (59 =? d) with false by (symmetry; apply Z.eqb_neq; lia). reflexivity.
    - cbn [forallb] in Hpre. apply andb_prop in Hpre. destruct Hpre as [Ha Hpre].
      cbn [app]. destruct ids as [| d ids].
      + cbn [app]. destruct rest as [| w r]; [reflexivity|]. cbn [strip_prefix].
        destruct (a =? w) eqn:E; [|reflexivity]. apply Z.eqb_eq in E. subst w.
        unfold dec_hd_ok in Hd. rewrite next_char_plain in Hd by (apply ident_char_38; exact Ha). congruence.
      + cbn [forallb] in Hids. apply andb_prop in Hids. destruct Hids as [_ Hids].
        cbn [app strip_prefix]. destruct (a =? d); [|reflexivity].
        apply IH; assumption.
  Qed.

  Lemma first_char_facts t cs :
    spellx fops t cs ->
    exists c0 cs', cs = c0 :: cs' /\ c0 <> 59 /\
      (c0 = 38 \/ (c0 <> 97 /\ c0 <> 108 /\ c0 <> 103) \/
       (is_alpha c0 = true /\ forallb is_ident_char cs' = true /\ t = TIdent (c0 :: cs'))).
  Proof.
    intros Hs. destruct Hs as [t cs Hs | t cs Ht Hin].
    - destruct Hs.
      + unfold is_op in H. destruct t; cbn in H; try lia; cbn; do 2 eexists; (split; [reflexivity|]); split; lia.
      + unfold is_op in H. destruct t; cbn in H; try lia; cbn; do 2 eexists; (split; [reflexivity|]); split; lia.
      + pose proof (is_alpha_range _ H). do 2 eexists. split; [reflexivity|]. split; [lia|]. right. right. auto.
      + apply is_digit_range in H. do 2 eexists. split; [reflexivity|]. split; lia.
      + do 2 eexists. split; [reflexivity|]. split; lia.
      + apply is_digit_range in H. do 2 eexists. split; [reflexivity|]. split; lia.
      + do 2 eexists. split; [reflexivity|]. split; lia.
    - unfold is_op in Ht. destruct t; cbn in Ht; try lia; cbn in Hin;
        repeat (destruct Hin as [<- | Hin]); try contradiction;
        do 2 eexists; (split; [reflexivity|]); split; lia.
  Qed.

  Lemma hd_not59_spelled t cs rest : spellx fops t cs -> hd_not59 (cs ++ rest).
  Proof. intros Hs. destruct (first_char_facts t cs Hs) as (c0 & cs' & -> & H & _). cbn. exact H. Qed.

  (* Lemma B: the decoded first character of the text is that of the spelling *)
  Lemma dec_first_spelled t cs rest :
    spellx fops t cs -> fol (t, cs) rest -> exists r, next_char (cs ++ rest) = Some (dec_first cs, r).
  Proof.
    intros Hs [Hd Hr].
    assert (Hop : forall t cs, is_op t -> In cs (variants (op_chars t)) ->
                  (cs = [38] \/ exists r, forall rest, next_char (cs ++ rest) = Some (dec_first cs, r rest))).
    { clear. intros t cs Ht Hin. unfold is_op in Ht.
      destruct t; cbn in Ht; try lia; cbn in Hin; repeat (destruct Hin as [<- | Hin]); try contradiction;
        try (left; reflexivity); right; eexists (fun rest => _); intros rest; cbn [app]; reflexivity. }
    assert (Hplain : forall c x, c <> 38 -> exists r, next_char ((c :: x) ++ rest) = Some (dec_first (c :: x), r)).
    { intros c x Hc. cbn [app]. unfold dec_first. rewrite !next_char_plain by exact Hc. eauto. }
    assert (Hops : forall t cs, is_op t -> In cs (variants (op_chars t)) ->
                   exists r, next_char (cs ++ rest) = Some (dec_first cs, r)).
    { intros t0 cs0 Ht Hin. destruct (Hop t0 cs0 Ht Hin) as [-> | [r Hr0]].
      - cbn [app]. rewrite (raw_amp_next rest Hr). eexists. reflexivity.
      - eexists. apply Hr0. }
    destruct Hs as [t cs Hs | t cs Ht Hin]; [|apply (Hops t); assumption].
    destruct Hs.
    - apply (Hops t); [assumption | apply op_in_variants; assumption].
    - apply (Hops t); [assumption | apply op_in_variants; assumption].
    - apply Hplain. apply is_alpha_range in H. lia.
    - apply Hplain. apply is_digit_range in H. lia.
    - apply Hplain. lia.
    - apply Hplain. apply is_digit_range in H. lia.
    - apply Hplain. lia.
  Qed.

  (* Lemma C: a raw `&` in front of a spelled text never becomes an entity *)
  Lemma no_entity_spelled t cs rest :
    spellx fops t cs -> fol (t, cs) rest -> hd_not59 rest -> no_entity_tail (cs ++ rest).
  Proof.
    intros Hs [Hd Hr] H59.
    destruct (first_char_facts t cs Hs) as (c0 & cs' & -> & _ & [-> | [(N1 & N2 & N3) | (Ha & Hcs & ->)]]).
    - repeat split; reflexivity.
    - unfold no_entity_tail. cbn [app strip_prefix].
      replace (97 =? c0) with false by (symmetry; apply Z.eqb_neq; lia).
      replace (108 =? c0) with false by (symmetry; apply Z.eqb_neq; lia).
      replace (103 =? c0) with false by (symmetry; apply Z.eqb_neq; lia). auto.
    - (* an identifier *)
      assert (forallb is_ident_char (c0 :: cs') = true) as Hall.
      { cbn [forallb]. apply andb_true_intro. split; [|assumption]. unfold is_ident_char. rewrite Ha. reflexivity. }
      assert (dec_hd_ok is_ident_char rest) as Hd' by exact Hd.
      repeat split.
      + apply (strip_ident [97; 109; 112] (c0 :: cs') rest); [reflexivity | assumption..].
      + apply (strip_ident [108; 116] (c0 :: cs') rest); [reflexivity | assumption..].
      + apply (strip_ident [103; 116] (c0 :: cs') rest); [reflexivity | assumption..].
  Qed.

  (* white space (or the end of the text) satisfies every follow condition *)
  Lemma ws_not_bad a w : is_ws w -> follow_bad a w = false.
  Proof.
    intros Hw. destruct a as [t cs]. unfold follow_bad. cbn [fst snd].
    destruct Hw as [-> | [-> | [-> | ->]]]; destruct t; try reflexivity;
      repeat match goal with |- context [if ?b then _ else _] => destruct b end; try reflexivity;
      rewrite andb_false_r; reflexivity.
  Qed.
  Lemma ws_no_entity w s : is_ws w -> no_entity_tail (w :: s) /\ hd_not59 (w :: s) /\ next_char (w :: s) = Some (w, s).
  Proof. intros [-> | [-> | [-> | ->]]]; repeat split; cbn; lia. Qed.
  Lemma fol_ws a w s : is_ws w -> fol a (w :: s).
  Proof.
    intros Hw. destruct (ws_no_entity w s Hw) as (H1 & _ & H3). split; [|exact H1].
    unfold dec_hd_ok. rewrite H3. apply ws_not_bad. exact Hw.
  Qed.
  Lemma fol_nil a : fol a [].
  Proof. split; [exact I | repeat split; reflexivity]. Qed.

  (* ----------------------------------------------------------- whole texts -- *)
  Definition HF (l : list stok) (src : list Z) : Prop :=
    hd_not59 src /\ no_entity_tail src /\
    match l with
    | [] => src = [] \/ exists w s, src = w :: s /\ is_ws w
    | a :: _ => (exists w s, src = w :: s /\ is_ws w) \/ (exists r, next_char src = Some (dec_first (snd a), r))
    end.

  Lemma fol_of_gap a r src :
    HF r src ->
    match r with
    | [] => True
    | b :: _ => needs_space a b = false \/ exists w s, src = w :: s /\ is_ws w
    end -> fol a src.
  Proof.
    intros (H59 & Hne & Hhd) Hgap. destruct r as [| b r].
    - destruct Hhd as [-> | (w & s & -> & Hw)]; [apply fol_nil | apply fol_ws; exact Hw].
    - destruct Hhd as [(w & s & -> & Hw) | [x Hx]]; [apply fol_ws; exact Hw|].
      destruct Hgap as [Hg | (w & s & -> & Hw)]; [|apply fol_ws; exact Hw].
      split; [|exact Hne]. unfold dec_hd_ok. rewrite Hx. exact Hg.
  Qed.

  Lemma spelt_HF l src : spelt fops l src -> HF l src.
  Proof.
    induction 1 as [ws Hws | a r ws src Hws Ha Hr IH Hgap].
    - destruct Hws as [| w ws Hw _].
      + repeat split; try reflexivity. left. reflexivity.
      + destruct (ws_no_entity w ws Hw) as (H1 & H2 & _). repeat split; try assumption; try apply H1. right. eauto.
    - pose proof (fol_of_gap a r src IH Hgap) as Hf.
      destruct Hws as [| w ws Hw _].
      + cbn [app]. destruct a as [t cs]. cbn [snd] in *. unfold spelled in Ha. cbn [fst snd] in Ha.
        split; [apply (hd_not59_spelled t); exact Ha|].
        split; [apply (no_entity_spelled t); [exact Ha | exact Hf | apply IH]|].
        right. apply (dec_first_spelled t); assumption.
      + cbn [app]. destruct (ws_no_entity w (ws ++ snd a ++ src) Hw) as (H1 & H2 & _).
        split; [exact H2|]. split; [exact H1|]. left. eauto.
  Qed.

  (* the lazy lexer and the list of spelled tokens step together *)
  Lemma spelt_next l src :
    spelt fops l src ->
    (l = [] /\ lex1 fops src = Ok None) \/
    (exists a r src', l = a :: r /\ lex1 fops src = Ok (Some (fst a, src')) /\ spelt fops r src').
  Proof.
    intros H. destruct H as [ws Hws | a r ws src Hws Ha Hr Hgap].
    - left. split; [reflexivity|]. rewrite <- (app_nil_r ws). rewrite lex1_ws_run by exact Hws. reflexivity.
    - right. exists a, r, src. split; [reflexivity|]. split; [|exact Hr].
      rewrite lex1_ws_run by exact Hws. destruct a as [t cs]. cbn [fst snd] in *.
      apply lex_tight; [exact Ha|]. apply (fol_of_gap (t, cs) r src); [apply spelt_HF; exact Hr | exact Hgap].
  Qed.

  Lemma lex_all_spelt l : forall src,
    spelt fops l src -> lex_all fops (S (length l)) src = Ok (map fst l).
  Proof.
    induction l as [| a l IH]; intros src H;
      destruct (spelt_next _ _ H) as [[E1 E2] | (a' & r & src' & E1 & E2 & H')];
      rewrite lex_all_S; rewrite E2; cbn [bind]; try discriminate.
    - reflexivity.
    - injection E1 as <- <-. cbn [length map]. rewrite (IH src' H'). reflexivity.
  Qed.

  (* the minimal-space renderer produces such a text *)
  Lemma spelt_ws_prefix ws l src : Forall is_ws ws -> spelt fops l src -> spelt fops l (ws ++ src).
  Proof.
    intros Hws H. destruct H as [ws0 Hws0 | a r ws0 src0 Hws0 Ha Hr Hgap].
    - apply st_nil. apply Forall_app. split; assumption.
    - rewrite app_assoc. apply st_cons; try assumption. apply Forall_app. split; assumption.
  Qed.

  Lemma render_min_space_spelt l : Forall (spelled fops) l -> spelt fops l (render_min_space l).
  Proof.
    induction 1 as [| a r Ha Hr IH]; [apply st_nil; constructor|].
    cbn [render_min_space]. apply (st_cons fops a r []); [constructor | exact Ha | |].
    - destruct r as [| b r']; [exact IH|]. destruct (needs_space a b); [|exact IH].
      apply spelt_ws_prefix; [repeat constructor; left; reflexivity | exact IH].
    - destruct r as [| b r']; [exact I|]. destruct (needs_space a b) eqn:E; [right | left; reflexivity].
      cbn [app]. do 2 eexists. split; [reflexivity | left; reflexivity].
  Qed.

  Theorem lex_render_min_space l :
    Forall (spelled fops) l -> lex_all fops (S (length l)) (render_min_space l) = Ok (map fst l).
  Proof. intros H. apply lex_all_spelt. apply render_min_space_spelt. exact H. Qed.

  (* the byte-level parser on any such text = the token-level parser *)
  Lemma parse_src_spelt fuel l src :
    spelt fops l src -> parse_src fops true fuel src = parse_toks fuel (map fst l).
  Proof.
    intros H. unfold parse_src, parse_toks, parse_with.
    set (R := fun (s : list Z) (ts : list token) => exists l, map fst l = ts /\ spelt fops l s).
    assert (Hnext : forall s ts, R s ts ->
              (lex1 fops s = Ok None /\ next_tok ts = Ok None) \/
              (exists t s' ts', lex1 fops s = Ok (Some (t, s')) /\ next_tok ts = Ok (Some (t, ts')) /\ R s' ts')).
    { intros s ts (l0 & <- & Hl0).
      destruct (spelt_next _ _ Hl0) as [[-> E] | (a & r & s' & -> & E & Hr)].
      - left. split; [exact E | reflexivity].
      - right. exists (fst a), s', (map fst r). split; [exact E|]. split; [reflexivity|]. exists r. auto. }
    pose proof (p_rel (list Z) (list token) (lex1 fops) next_tok true R Hnext fuel MExpr src (map fst l)
                      (ex_intro _ l (conj eq_refl H))) as Hrel.
    unfold rel in Hrel.
    destruct (p (list Z) (lex1 fops) true fuel MExpr src) as [[x s1] | c |],
             (p (list token) next_tok true fuel MExpr (map fst l)) as [[y s2] | d |]; cbn; try contradiction.
    - destruct Hrel as [-> _]. reflexivity.
    - subst. reflexivity.
    - reflexivity.
  Qed.
End Heads.

(* ------------------------------------------------------------------------- *)
(* (b) loose prints: redundant parentheses, unary plus, NEG(x)                *)
(* ------------------------------------------------------------------------- *)
Lemma P_unop_plus r x : P MPow r x -> P MUnop (TPlus :: r) x.
Proof.
  intros [f1 H1]. exists (S f1). intros f Hf. destruct f as [| f]; [exfalso; lia|].
  cbn [p]. unfold eat. cbn [bind next_tok tok_eqb tok_code Z.eqb Pos.eqb]. apply H1. lia.
Qed.

Definition L1 (c : nat) (e : expr) (ts : list token) : Prop :=
  forall rest, stop c rest -> P (mode_of c) (ts ++ rest) (e, rest).
Definition L2 (c : nat) (e : expr) (ts : list token) : Prop :=
  forall l rest x, (1 <= l <= 10)%nat -> (l <= c)%nat -> stop (S l) rest ->
    P (MLoop l e) rest x -> P (MLevel l) (ts ++ rest) x.

(* a result at a unary / power / primary mode j serves every context c <= j *)
Lemma from_mode j c e ts :
  (c <= j)%nat -> (11 <= j <= 13)%nat ->
  (forall rest, stop j rest -> P (mode_of j) (ts ++ rest) (e, rest)) ->
  ((forall rest, nonprefix (ts ++ rest)) \/ (j <= 11)%nat) ->
  L1 c e ts /\ L2 c e ts.
Proof.
  intros Hc Hj HP Hn. split.
  - intros rest Hs. apply (climb (j - c) j c); try lia.
    + apply HP. apply (stop_mono c); [lia | exact Hs].
    + exact Hs.
    + destruct Hn as [Hn | Hn]; [left; apply Hn | right; exact Hn].
  - intros l rest x Hl Hlc Hs HL. apply (climb_loop j l _ e rest); try lia; try assumption.
    + apply HP. apply (stop_mono (S l)); [lia | exact Hs].
    + destruct Hn as [Hn | Hn]; [left; apply Hn | right; exact Hn].
Qed.

Lemma prints_nonprefix c e ts : prints c e ts -> (12 <= c)%nat -> forall rest, nonprefix (ts ++ rest).
Proof.
  induction 1; intros Hc rest; try lia; try (cbn; auto; fail).
  - rewrite app_mid. apply IHprints1. lia.
  - destruct (level_ops_std k H) as [_ Hl]. lia.
Qed.

Lemma fun_in_std k : k <> UNot -> In k std_functions.
Proof. destruct k; intros H; try congruence; cbn; tauto. Qed.

Theorem prints_parse c e ts : prints c e ts -> (c <= 13)%nat -> L1 c e ts /\ L2 c e ts.
Proof.
  induction 1 as [c e ts Hp IH | c e ts Hc Hp IH | c a b d ta tb td Hc Ha IHa Hb IHb Hd IHd
                 | c a b ta tb Hc Ha IHa Hb IHb | c k a b ta tb Hk Hc Ha IHa Hb IHb
                 | c a ta Hc Ha IHa | c a ta Hc Ha IHa | c k a ta Hk Ha IHa | c i | c b | c s Hs];
    intros Hc13.
  - (* parentheses *)
    destruct (IH ltac:(lia)) as [I1 _].
    apply (from_mode 13 c); try lia.
    + intros rest _. change (mode_of 13) with MPrimary. cbn [app]. rewrite <- app_assoc. cbn [app].
      apply P_prim_paren. apply I1. apply stop_rparen.
    + left. intros rest. cbn. auto.
  - (* unary plus *)
    destruct (IH ltac:(lia)) as [I1 _].
    apply (from_mode 11 c); try lia.
    + intros rest Hs. change (mode_of 11) with MUnop. cbn [app]. apply P_unop_plus.
      apply (I1 rest). apply (stop_mono 11); [lia | exact Hs].
  - (* ternary *)
    subst c. destruct (IHa ltac:(lia)) as [A1 _]. destruct (IHb ltac:(lia)) as [B1 _]. destruct (IHd ltac:(lia)) as [D1 _].
    split.
    + intros rest Hs. change (mode_of 0) with MExpr. rewrite app_mid. rewrite app_mid.
      eapply P_expr_if.
      * apply A1. apply stop_question.
      * apply B1. apply stop_colon.
      * apply D1. exact Hs.
    + intros l rest x Hl Hlc. lia.
  - (* power *)
    destruct (IHa ltac:(lia)) as [A1 _]. destruct (IHb ltac:(lia)) as [B1 _].
    apply (from_mode 12 c); try lia.
    + intros rest Hs. change (mode_of 12) with MPow. rewrite app_mid.
      eapply P_pow_pow.
      * apply A1. apply stop_dstar.
      * apply B1. apply stop_12_11. exact Hs.
    + left. intros rest. rewrite app_mid. apply (prints_nonprefix 13 a ta Ha). lia.
  - (* left-associative binary level *)
    destruct (level_ops_std k Hk) as [_ Hl0]. set (l0 := binop_level k) in *.
    destruct (IHa ltac:(lia)) as [A1 A2]. destruct (IHb ltac:(lia)) as [B1 _].
    assert (Core : forall rest x, stop (S l0) rest ->
              P (MLoop l0 (EBin k a b)) rest x -> P (MLevel l0) ((ta ++ binop_tok k :: tb) ++ rest) x).
    { intros rest x Hs HL. rewrite app_mid. apply (A2 l0); try lia.
      - apply stop_binop. exact Hk.
      - eapply P_loop_step.
        + apply find_op_binop. exact Hk.
        + rewrite <- (mode_of_sub l0 Hl0). apply B1. exact Hs.
        + exact HL. }
    assert (Direct : forall rest, stop l0 rest ->
              P (mode_of l0) ((ta ++ binop_tok k :: tb) ++ rest) (EBin k a b, rest)).
    { intros rest Hs. rewrite (mode_of_level l0 Hl0). apply Core.
      - apply (stop_mono l0); [lia | exact Hs].
      - apply P_loop_stop. destruct rest as [| t r]; [exact I|]. apply Hs. lia. }
    split.
    + intros rest Hs. apply (climb (l0 - c) l0 c); try lia.
      * apply Direct. apply (stop_mono c); [lia | exact Hs].
      * exact Hs.
    + intros l rest x Hl Hlc Hs HL.
      destruct (Nat.eq_dec l l0) as [-> | Hne].
      * apply Core; assumption.
      * apply (climb_loop l0 l _ (EBin k a b) rest); try lia; try assumption.
        apply Direct. apply (stop_mono (S l)); [lia | exact Hs].
  - (* ~ *)
    destruct (IHa ltac:(lia)) as [A1 _].
    apply (from_mode 11 c); try lia.
    + intros rest Hs. change (mode_of 11) with MUnop. cbn [app]. apply P_unop_not. apply A1. exact Hs.
  - (* prefix - *)
    destruct (IHa ltac:(lia)) as [A1 _].
    apply (from_mode 11 c); try lia.
    + intros rest Hs. change (mode_of 11) with MUnop. cbn [app]. apply P_unop_neg. apply A1. exact Hs.
  - (* function call *)
    destruct (IHa ltac:(lia)) as [A1 _].
    destruct (func_table_complete k (fun_in_std k Hk)) as [Hf Hcn].
    apply (from_mode 13 c); try lia.
    + intros rest _. change (mode_of 13) with MPrimary. cbn [app]. rewrite <- app_assoc. cbn [app].
      apply P_prim_func; [exact Hcn | exact Hf |]. apply A1. apply stop_rparen.
    + left. intros rest. cbn. auto.
  - apply (from_mode 13 c); try lia.
    + intros rest _. apply P_prim_int.
    + left. intros rest. cbn. auto.
  - apply (from_mode 13 c); try lia.
    + intros rest _. apply P_prim_float.
    + left. intros rest. cbn. auto.
  - apply (from_mode 13 c); try lia.
    + intros rest Hst. cbn [app]. apply P_prim_ident; [apply const_none_of_wf; exact Hs|].
      destruct rest as [| t r]; [exact I|]. apply Hst.
    + left. intros rest. cbn. auto.
Qed.

Theorem parse_prints e ts :
  prints 0 e ts -> exists f0, forall f, (f0 <= f)%nat -> parse_toks f ts = Ok e.
Proof.
  intros H. destruct (prints_parse 0 e ts H ltac:(lia)) as [H1 _].
  destruct (H1 [] I) as [f0 Hf]. exists f0. intros f Hle.
  unfold parse_toks, parse_with. rewrite app_nil_r in Hf. change (mode_of 0) with MExpr in Hf.
  rewrite Hf by exact Hle. reflexivity.
Qed.

(* the two printers of FormulaStd are loose prints, so C05_parse_pp_min/_full are instances *)
Lemma pr_prints full e : wf_expr e -> forall c, prints c e (pr full c e).
Proof.
  induction e; cbn [wf_expr]; intros Hwf.
  - destruct Hwf as [Wa Wb]. specialize (IHe1 Wa). specialize (IHe2 Wb).
    assert (HB : forall c, (c <= prec (EBin k e1 e2))%nat -> prints c (EBin k e1 e2) (body full (EBin k e1 e2))).
    { intros c Hc. destruct (binop_eq_pow k) as [-> | Hk].
      - cbn [body]. apply pt_pow; [exact Hc | apply IHe1 | apply IHe2].
      - rewrite body_bin by exact Hk. apply pt_bin; [exact Hk | exact Hc | apply IHe1 | apply IHe2]. }
    intros c. rewrite pr_eq. destruct (paren full c _) eqn:E.
    + apply pt_paren. apply HB. lia.
    + apply HB. apply paren_false in E. exact E.
  - specialize (IHe Hwf).
    assert (HB : forall c, (c <= prec (EUn k e))%nat -> prints c (EUn k e) (body full (EUn k e))).
    { intros c Hc. destruct (unop_prefix_dec k) as [[-> | ->] | [Hk1 Hk2]].
      - cbn [body]. apply pt_not; [exact Hc | apply IHe].
      - cbn [body]. apply pt_neg; [exact Hc | apply IHe].
      - rewrite body_fun by assumption. apply pt_fun; [exact Hk1 | apply IHe]. }
    intros c. rewrite pr_eq. destruct (paren full c _) eqn:E.
    + apply pt_paren. apply HB. lia.
    + apply HB. apply paren_false in E. exact E.
  - destruct Hwf as (Wa & Wb & Wc). specialize (IHe1 Wa). specialize (IHe2 Wb). specialize (IHe3 Wc).
    assert (HB : prints 0 (EIf e1 e2 e3) (body full (EIf e1 e2 e3))).
    { cbn [body]. apply pt_if; [reflexivity | apply IHe1 | apply IHe2 | apply IHe3]. }
    intros c. rewrite pr_eq. destruct (paren full c _) eqn:E.
    + apply pt_paren. exact HB.
    + apply paren_false in E. cbn [prec] in E. replace c with 0%nat by lia. exact HB.
  - intros c. rewrite pr_eq. destruct (paren full c _); [apply pt_paren|]; apply pt_int.
  - intros c. rewrite pr_eq. destruct (paren full c _); [apply pt_paren|]; apply pt_float.
  - intros c. rewrite pr_eq. destruct (paren full c _); [apply pt_paren|]; apply pt_ident; exact Hwf.
Qed.

(* adding parentheses around any print, or a unary plus in front of one, does not change the result *)
Lemma parse_redundant_parens e ts :
  prints 0 e ts -> exists f0, forall f, (f0 <= f)%nat -> parse_toks f (TLParen :: ts ++ [TRParen]) = Ok e.
Proof. intros H. apply parse_prints. apply pt_paren. exact H. Qed.

Lemma parse_unary_plus e ts :
  prints 12 e ts -> exists f0, forall f, (f0 <= f)%nat -> parse_toks f (TPlus :: ts) = Ok e.
Proof. intros H. apply parse_prints. apply pt_plus; [lia | exact H]. Qed.

(* ------------------------------------------------------------------------- *)
(* (c) bytes: formula::parse on every tight (or loosely spaced) spelling of every loose print *)
Theorem parse_src_prints fops e l src :
  prints 0 e (map fst l) -> spelt fops l src ->
  exists f0, forall f, (f0 <= f)%nat -> parse_src fops true f src = Ok e.
Proof.
  intros Hp Hs. destruct (parse_prints e _ Hp) as [f0 H]. exists f0. intros f Hf.
  rewrite (parse_src_spelt fops f l src Hs). apply H. exact Hf.
Qed.

Theorem parse_src_min_space fops e l :
  prints 0 e (map fst l) -> Forall (spelled fops) l ->
  exists f0, forall f, (f0 <= f)%nat -> parse_src fops true f (render_min_space l) = Ok e.
Proof. intros Hp Hl. apply (parse_src_prints fops e l); [exact Hp | apply render_min_space_spelt; exact Hl]. Qed.

(* Non-vacuity: "-A&lt;=(B)*+0x1f" is the minimal-space rendering of a loose print of -A <= B * 31. *)
Definition ex2_expr : expr := EBin BLe (EUn UNeg (EIdent [65])) (EBin BMul (EIdent [66]) (EInt 31)).
Definition ex2_toks : list stok :=
  [(TMinus, [45]); (TIdent [65], [65]); (TLe, [38; 108; 116; 59; 61]); (TLParen, [40]); (TIdent [66], [66]);
   (TRParen, [41]); (TStar, [42]); (TPlus, [43]); (TInteger 31, [48; 120; 49; 102])].
Definition ex2_src : list Z := [45; 65; 38; 108; 116; 59; 61; 40; 66; 41; 42; 43; 48; 120; 49; 102].

Lemma ex2_ok fops :
  prints 0 ex2_expr (map fst ex2_toks) /\ Forall (spelled fops) ex2_toks /\ render_min_space ex2_toks = ex2_src.
Proof.
  split; [|split; [|reflexivity]].
  - change (map fst ex2_toks) with (([TMinus] ++ [TIdent [65]]) ++ binop_tok BLe :: (([TLParen] ++ [TIdent [66]] ++ [TRParen]) ++ binop_tok BMul :: [TPlus; TInteger 31])).
    apply pt_bin; [discriminate | cbn; lia | |].
    + apply pt_neg; [cbn; lia | apply pt_ident; reflexivity].
    + apply pt_bin; [discriminate | cbn; lia | |].
      * apply (pt_paren _ (EIdent [66]) [TIdent [66]]). apply pt_ident. reflexivity.
      * apply pt_plus; [cbn; lia | apply pt_int].
  - unfold ex2_toks, spelled. repeat apply Forall_cons; try apply Forall_nil; cbn [fst snd].
    + apply sx_plain. apply (sp_op fops TMinus). reflexivity.
    + apply sx_plain. apply sp_ident; reflexivity.
    + apply sx_mixed; [reflexivity | cbn; tauto].
    + apply sx_plain. apply (sp_op fops TLParen). reflexivity.
    + apply sx_plain. apply sp_ident; reflexivity.
    + apply sx_plain. apply (sp_op fops TRParen). reflexivity.
    + apply sx_plain. apply (sp_op fops TStar). reflexivity.
    + apply sx_plain. apply (sp_op fops TPlus). reflexivity.
    + apply sx_plain. change (TInteger 31) with (TInteger (digits_val 16 [49; 102])).
      apply sp_hex; try reflexivity. cbn. unfold I64_MAX. lia.
Qed.

(* ------------------------------------------------------------------------- *)
(* needs_space is exact: without the separator the lexer does NOT return the token with the
   following text untouched.                                                   *)
(* ------------------------------------------------------------------------- *)
Lemma strip_prefix_len pre : forall s r, strip_prefix pre s = Some r -> length s = (length pre + length r)%nat.
Proof.
  induction pre as [| a pre IH]; intros s r H.
  - cbn in H. injection H as ->. reflexivity.
  - destruct s as [| b s]; [discriminate|]. cbn [strip_prefix] in H.
    destruct (a =? b); [|discriminate]. apply IH in H. cbn [length]. lia.
Qed.

Lemma next_char_len s c r : next_char s = Some (c, r) -> (length r < length s)%nat.
Proof.
  unfold next_char. intros H.
  destruct (strip_prefix [38; 97; 109; 112; 59] s) as [r1 |] eqn:E1.
  { injection H as _ <-. apply strip_prefix_len in E1. cbn [length] in E1. lia. }
  destruct (strip_prefix [38; 108; 116; 59] s) as [r2 |] eqn:E2.
  { injection H as _ <-. apply strip_prefix_len in E2. cbn [length] in E2. lia. }
  destruct (strip_prefix [38; 103; 116; 59] s) as [r3 |] eqn:E3.
  { injection H as _ <-. apply strip_prefix_len in E3. cbn [length] in E3. lia. }
  destruct s as [| x s]; [discriminate|]. injection H as _ <-. cbn [length]. lia.
Qed.

Lemma tw_total pr n : forall s,
  (length (fst (take_while n pr s)) + length (snd (take_while n pr s)) <= length s)%nat.
Proof.
  induction n as [| n IH]; intros s; [cbn; lia|]. cbn [take_while].
  destruct (next_char s) as [[c r] |] eqn:E; [|cbn; lia].
  destruct (pr c); [|cbn; lia].
  specialize (IH r). destruct (take_while n pr r) as [a b]. cbn [fst snd length] in *.
  apply next_char_len in E. lia.
Qed.

Lemma tw_more pr cs : forall n x w r,
  (forall c, pr c = true -> c <> 38) -> forallb pr cs = true ->
  next_char x = Some (w, r) -> pr w = true -> (length cs < n)%nat ->
  (length cs < length (fst (take_while n pr (cs ++ x))))%nat.
Proof.
  induction cs as [| c cs IH]; intros n x w r H38 Hall Hx Hw Hn.
  - cbn [app]. destruct n as [| n]; [lia|]. cbn [take_while]. rewrite Hx, Hw.
    destruct (take_while n pr r). cbn. lia.
  - cbn [forallb] in Hall. apply andb_prop in Hall. destruct Hall as [Hc Hcs].
    destruct n as [| n]; [cbn in Hn; lia|]. cbn [app take_while].
    rewrite next_char_plain by (apply H38; exact Hc). rewrite Hc.
    specialize (IH n x w r H38 Hcs Hx Hw ltac:(cbn in Hn; lia)).
    destruct (take_while n pr (cs ++ x)). cbn [fst length] in *. lia.
Qed.

(* if the next decoded character also satisfies the predicate, the run eats into the following text *)
Lemma tw_eats pr cs x w r :
  (forall c, pr c = true -> c <> 38) -> forallb pr cs = true ->
  next_char x = Some (w, r) -> pr w = true ->
  (length (snd (take_while (length (cs ++ x)) pr (cs ++ x))) < length x)%nat.
Proof.
  intros H38 Hall Hx Hw.
  pose proof (next_char_len _ _ _ Hx) as Hlen.
  pose proof (tw_more pr cs (length (cs ++ x)) x w r H38 Hall Hx Hw ltac:(rewrite app_length; lia)) as Hm.
  pose proof (tw_total pr (length (cs ++ x)) (cs ++ x)) as Ht. pose proof (app_length cs x) as E. lia.
Qed.

Section Exact.
  Variable fops : float_ops.

  Ltac kill_eqb c :=
    repeat match goal with
           | |- context [c =? ?k] => replace (c =? k) with false by (symmetry; apply Z.eqb_neq; lia)
           end.

  Lemma lex_ident_shape c x :
    is_alpha c = true ->
    lex1 fops (c :: x) =
      (let (cs, r') := take_while (length x) is_ident_char x in Ok (Some (TIdent (c :: cs), r'))).
  Proof.
    intros Hc. pose proof (is_alpha_range c Hc) as Hr.
    assert (Hnc : next_char (c :: x) = Some (c, x)) by (apply next_char_plain; lia).
    unfold lex1. rewrite (skip_gen _ _ _ Hnc) by (apply nonspace_of_range; lia). rewrite Hnc.
    kill_eqb c. rewrite Hc. reflexivity.
  Qed.

  Lemma lex_number_shape c x :
    is_digit c = true -> (if c =? 48 then eat_char (Z.eqb 120) x else None) = None ->
    lex1 fops (c :: x) =
      (let (cs, r') := take_while (length x) is_num_char x in
       match count_dots (c :: cs) with
       | O => let v := digits_val 10 (c :: cs) in
              if v <=? I64_MAX then Ok (Some (TInteger v, r')) else Panic
       | S O => Ok (Some (TFloat (f_lit fops (c :: cs)), r'))
       | _ => Panic
       end).
  Proof.
    intros Hc Hx. pose proof (is_digit_range c Hc) as Hr.
    assert (Hnc : next_char (c :: x) = Some (c, x)) by (apply next_char_plain; lia).
    unfold lex1. rewrite (skip_gen _ _ _ Hnc) by (apply nonspace_of_range; lia). rewrite Hnc.
    replace (c =? 40) with false by (symmetry; apply Z.eqb_neq; lia).
    replace (c =? 41) with false by (symmetry; apply Z.eqb_neq; lia).
    replace (c =? 43) with false by (symmetry; apply Z.eqb_neq; lia).
    replace (c =? 45) with false by (symmetry; apply Z.eqb_neq; lia).
    replace (c =? 42) with false by (symmetry; apply Z.eqb_neq; lia).
    replace (c =? 47) with false by (symmetry; apply Z.eqb_neq; lia).
    replace (c =? 37) with false by (symmetry; apply Z.eqb_neq; lia).
    replace (c =? 38) with false by (symmetry; apply Z.eqb_neq; lia).
    replace (c =? 124) with false by (symmetry; apply Z.eqb_neq; lia).
    replace (c =? 94) with false by (symmetry; apply Z.eqb_neq; lia).
    replace (c =? 126) with false by (symmetry; apply Z.eqb_neq; lia).
    replace (c =? 61) with false by (symmetry; apply Z.eqb_neq; lia).
    replace (c =? 58) with false by (symmetry; apply Z.eqb_neq; lia).
    replace (c =? 63) with false by (symmetry; apply Z.eqb_neq; lia).
    replace (c =? 60) with false by (symmetry; apply Z.eqb_neq; lia).
    replace (c =? 62) with false by (symmetry; apply Z.eqb_neq; lia).
    replace (c =? 46) with false by (symmetry; apply Z.eqb_neq; lia).
    rewrite (digit_not_alpha c Hr). rewrite Hc. rewrite Hx. reflexivity.
  Qed.

  Lemma lex_zero_x_shape r :
    lex1 fops (48 :: 120 :: r) =
      (let (ds, r') := take_while (length r) is_hex r in
       match ds with
       | [] => Panic
       | _ => let v := digits_val 16 ds in if v <=? I64_MAX then Ok (Some (TInteger v, r')) else Panic
       end).
  Proof.
    assert (Hnc : next_char (48 :: 120 :: r) = Some (48, 120 :: r)) by reflexivity.
    unfold lex1. rewrite (skip_gen _ _ _ Hnc) by reflexivity. rewrite Hnc.
    cbn [Z.eqb Pos.eqb is_alpha is_digit Z.leb Z.compare Pos.compare Pos.compare_cont andb orb].
    unfold eat_char at 1. rewrite next_char_plain by lia. cbn [Z.eqb Pos.eqb]. reflexivity.
  Qed.

  Lemma lex_dot_shape x :
    lex1 fops (46 :: x) =
      (let (ds, r') := take_while (length x) is_digit x in
       match ds with
       | [] => Panic
       | _ => Ok (Some (TFloat (f_lit fops (46 :: ds)), r'))
       end).
  Proof.
    assert (Hnc : next_char (46 :: x) = Some (46, x)) by reflexivity.
    unfold lex1. rewrite (skip_gen _ _ _ Hnc) by reflexivity. rewrite Hnc. cbn [Z.eqb Pos.eqb]. reflexivity.
  Qed.

  Ltac start Hnc :=
    unfold lex1; rewrite (skip_gen _ _ _ Hnc) by reflexivity; rewrite Hnc.

  Lemma op_not_tight t cs x w r :
    is_op t -> In cs (variants (op_chars t)) ->
    next_char x = Some (w, r) -> follow_bad (t, cs) w = true -> no_entity_tail x ->
    lex1 fops (cs ++ x) <> Ok (Some (t, x)).
  Proof.
    intros Ht Hin Hx Hb Hr. unfold is_op in Ht.
    destruct t; cbn in Ht; try lia; cbn [follow_bad fst] in Hb; try discriminate; cbn in Hin;
      repeat (destruct Hin as [<- | Hin]); try contradiction; cbn [app].
    - (* * *)
      assert (Hnc : next_char (42 :: x) = Some (42, x)) by (apply next_char_plain; lia).
      start Hnc. cbn. unfold eat_char. rewrite Hx. apply Z.eqb_eq in Hb. subst w. cbn. discriminate.
    - pose proof (raw_amp_next x Hr) as Hnc.
      start Hnc. cbn. unfold eat_char. rewrite Hx. apply Z.eqb_eq in Hb. subst w. cbn. discriminate.
    - assert (Hnc : next_char (38 :: 97 :: 109 :: 112 :: 59 :: x) = Some (38, x)) by reflexivity.
      start Hnc. cbn. unfold eat_char. rewrite Hx. apply Z.eqb_eq in Hb. subst w. cbn. discriminate.
    - assert (Hnc : next_char (124 :: x) = Some (124, x)) by (apply next_char_plain; lia).
      start Hnc. cbn. unfold eat_char. rewrite Hx. apply Z.eqb_eq in Hb. subst w. cbn. discriminate.
    - assert (Hnc : next_char (60 :: x) = Some (60, x)) by (apply next_char_plain; lia).
      start Hnc. cbn. unfold eat_char. rewrite Hx.
      destruct (62 =? w) eqn:E1; [discriminate|]. destruct (61 =? w) eqn:E2; [discriminate|].
      destruct (60 =? w) eqn:E3; [discriminate|].
      rewrite (Z.eqb_sym w 62), (Z.eqb_sym w 61), (Z.eqb_sym w 60), E1, E2, E3 in Hb. discriminate.
    - assert (Hnc : next_char (38 :: 108 :: 116 :: 59 :: x) = Some (60, x)) by reflexivity.
      start Hnc. cbn. unfold eat_char. rewrite Hx.
      destruct (62 =? w) eqn:E1; [discriminate|]. destruct (61 =? w) eqn:E2; [discriminate|].
      destruct (60 =? w) eqn:E3; [discriminate|].
      rewrite (Z.eqb_sym w 62), (Z.eqb_sym w 61), (Z.eqb_sym w 60), E1, E2, E3 in Hb. discriminate.
    - assert (Hnc : next_char (62 :: x) = Some (62, x)) by (apply next_char_plain; lia).
      start Hnc. cbn. unfold eat_char. rewrite Hx.
      destruct (61 =? w) eqn:E1; [discriminate|]. destruct (62 =? w) eqn:E2; [discriminate|].
      rewrite (Z.eqb_sym w 61), (Z.eqb_sym w 62), E1, E2 in Hb. discriminate.
    - assert (Hnc : next_char (38 :: 103 :: 116 :: 59 :: x) = Some (62, x)) by reflexivity.
      start Hnc. cbn. unfold eat_char. rewrite Hx.
      destruct (61 =? w) eqn:E1; [discriminate|]. destruct (62 =? w) eqn:E2; [discriminate|].
      rewrite (Z.eqb_sym w 61), (Z.eqb_sym w 62), E1, E2 in Hb. discriminate.
  Qed.

  Lemma num_eats cs x w r :
    forallb is_num_char cs = true -> next_char x = Some (w, r) -> is_num_char w = true ->
    forall c, is_digit c = true -> (if c =? 48 then eat_char (Z.eqb 120) (cs ++ x) else None) = None ->
    forall t, lex1 fops ((c :: cs) ++ x) <> Ok (Some (t, x)).
  Proof.
    intros Hcs Hx Hw c Hc Hz t. cbn [app]. rewrite lex_number_shape by assumption.
    pose proof (tw_eats is_num_char cs x w r num_char_38 Hcs Hx Hw) as Hlt.
    destruct (take_while (length (cs ++ x)) is_num_char (cs ++ x)) as [taken rest']. cbn [snd] in Hlt.
    destruct (count_dots (c :: taken)) as [| [| n]]; try discriminate.
    - cbv zeta. destruct (_ <=? I64_MAX); [|discriminate]. intros H. injection H as _ ->. lia.
    - intros H. injection H as _ ->. lia.
  Qed.

  Theorem lex_not_tight t cs x w r :
    spellx fops t cs -> next_char x = Some (w, r) -> follow_bad (t, cs) w = true -> no_entity_tail x ->
    lex1 fops (cs ++ x) <> Ok (Some (t, x)).
  Proof.
    intros Hs Hx Hb Hr. destruct Hs as [t cs Hs | t cs Ht Hin].
    2:{ apply (op_not_tight t cs x w r); assumption. }
    destruct Hs.
    - apply (op_not_tight t _ x w r); try assumption. apply op_in_variants; assumption.
    - apply (op_not_tight t _ x w r); try assumption. apply op_in_variants; assumption.
    - (* identifier *)
      cbn [follow_bad fst] in Hb. cbn [app]. rewrite lex_ident_shape by assumption.
      pose proof (tw_eats is_ident_char cs x w r ident_char_38 H0 Hx Hb) as Hlt.
      destruct (take_while (length (cs ++ x)) is_ident_char (cs ++ x)) as [taken rest']. cbn [snd] in Hlt.
      intros Heq. injection Heq as _ ->. lia.
    - (* decimal integer *)
      cbn [follow_bad fst snd] in Hb. rewrite (digits_not_hex_text c cs H0) in Hb.
      pose proof (is_digit_range c H) as Hcr.
      destruct (is_zero_text (c :: cs) && (w =? 120)) eqn:Ez.
      + (* the text `0` directly before `x`: read as a 0x number *)
        apply andb_prop in Ez. destruct Ez as [Ez Ew]. apply Z.eqb_eq in Ew. subst w.
        destruct cs as [| d ds]; [|discriminate]. cbn [is_zero_text] in Ez. apply Z.eqb_eq in Ez. subst c.
        assert (x = 120 :: r) as ->.
        { unfold next_char in Hx. destruct x as [| y x']; [discriminate|].
          destruct (Z.eq_dec y 38) as [-> | Hy].
          - destruct (strip_prefix [38; 97; 109; 112; 59] (38 :: x')); [discriminate|].
            destruct (strip_prefix [38; 108; 116; 59] (38 :: x')); [discriminate|].
            destruct (strip_prefix [38; 103; 116; 59] (38 :: x')); discriminate.
          - pose proof (next_char_plain y x' Hy) as Hp. unfold next_char in Hp. rewrite Hp in Hx.
            injection Hx as -> ->. reflexivity. }
        cbn [app]. rewrite lex_zero_x_shape.
        pose proof (tw_total is_hex (length r) r) as Ht.
        destruct (take_while (length r) is_hex r) as [ds r']. cbn [fst snd] in Ht.
        destruct ds; [discriminate|]. cbv zeta. destruct (_ <=? I64_MAX); [|discriminate].
        intros Heq. injection Heq as _ Hr'. rewrite Hr' in Ht. cbn [length] in Ht. lia.
      + rewrite orb_false_r in Hb.
        apply (num_eats cs x w r); try assumption; [apply digits_are_num; assumption|].
        destruct (c =? 48) eqn:E48; [|reflexivity]. unfold eat_char.
        destruct cs as [| d ds].
        * cbn [app]. rewrite Hx. cbn [is_zero_text] in Ez. rewrite E48 in Ez. cbn [andb] in Ez.
          rewrite Z.eqb_sym. rewrite Ez. reflexivity.
        * cbn [forallb] in H0. apply andb_prop in H0. destruct H0 as [Hd _]. cbn [app].
          pose proof (is_digit_range d Hd). rewrite next_char_plain by lia.
          replace (120 =? d) with false by (symmetry; apply Z.eqb_neq; lia). reflexivity.
    - (* 0x integer *)
      cbn [follow_bad fst snd is_hex_text Z.eqb Pos.eqb andb] in Hb.
      cbn [app]. rewrite lex_zero_x_shape.
      change (h :: hs ++ x) with ((h :: hs) ++ x).
      assert (Hall : forallb is_hex (h :: hs) = true) by (cbn [forallb]; rewrite H, H0; reflexivity).
      pose proof (tw_eats is_hex (h :: hs) x w r hex_38 Hall Hx Hb) as Hlt.
      destruct (take_while (length ((h :: hs) ++ x)) is_hex ((h :: hs) ++ x)) as [ds r']. cbn [snd] in Hlt.
      destruct ds; [discriminate|]. cbv zeta. destruct (_ <=? I64_MAX); [|discriminate].
      intros Heq. injection Heq as _ ->. lia.
    - (* float starting with a digit *)
      pose proof (is_digit_range c H) as Hcr.
      cbn [follow_bad fst snd starts_dot] in Hb.
      replace (c =? 46) with false in Hb by (symmetry; apply Z.eqb_neq; lia).
      apply (num_eats cs x w r); try assumption.
      destruct (c =? 48) eqn:E48; [|reflexivity]. unfold eat_char.
      destruct cs as [| d ds].
      * cbn in H1. replace (46 =? c) with false in H1 by (symmetry; apply Z.eqb_neq; lia). discriminate.
      * cbn [forallb] in H0. apply andb_prop in H0. destruct H0 as [Hd _]. cbn [app].
        rewrite next_char_plain by (apply num_char_38; exact Hd).
        assert (d <> 120) by (unfold is_num_char, is_digit in Hd; intros ->; cbn in Hd; discriminate).
        replace (120 =? d) with false by (symmetry; apply Z.eqb_neq; lia). reflexivity.
    - (* .digits *)
      cbn [follow_bad fst snd starts_dot Z.eqb Pos.eqb] in Hb.
      cbn [app]. rewrite lex_dot_shape.
      change (d :: ds ++ x) with ((d :: ds) ++ x).
      assert (Hall : forallb is_digit (d :: ds) = true) by (cbn [forallb]; rewrite H, H0; reflexivity).
      pose proof (tw_eats is_digit (d :: ds) x w r digit_38 Hall Hx Hb) as Hlt.
      destruct (take_while (length ((d :: ds) ++ x)) is_digit ((d :: ds) ++ x)) as [taken r']. cbn [snd] in Hlt.
      destruct taken; [discriminate|]. intros Heq. injection Heq as _ ->. lia.
  Qed.

  (* both directions, for two adjacent spelled tokens *)
  Theorem needs_space_exact a b rest :
    spelled fops a -> spelled fops b -> fol b rest -> hd_not59 rest ->
    (needs_space a b = false <->
     lex1 fops (snd a ++ snd b ++ rest) = Ok (Some (fst a, snd b ++ rest))).
  Proof.
    intros Ha Hb Hf H59. destruct a as [ta ca], b as [tb cb]. unfold spelled in *. cbn [fst snd] in *.
    destruct (dec_first_spelled fops tb cb rest Hb Hf) as [r Hr].
    pose proof (no_entity_spelled fops tb cb rest Hb Hf H59) as Hne.
    split.
    - intros Hn. apply lex_tight; [exact Ha|]. split; [|exact Hne].
      unfold dec_hd_ok. rewrite Hr. exact Hn.
    - intros Hlex. unfold needs_space. cbn [snd]. destruct (follow_bad (ta, ca) (dec_first cb)) eqn:E; [|reflexivity].
      exfalso. apply (lex_not_tight ta ca (cb ++ rest) (dec_first cb) r Ha Hr E Hne). exact Hlex.
  Qed.
End Exact.

(* the same with a spec-level side condition: b is the last token or is followed by white space *)
Corollary needs_space_exact_ws fops a b rest :
  spelled fops a -> spelled fops b ->
  (rest = [] \/ exists w s, rest = w :: s /\ is_ws w) ->
  (needs_space a b = false <->
   lex1 fops (snd a ++ snd b ++ rest) = Ok (Some (fst a, snd b ++ rest))).
Proof.
  intros Ha Hb Hrest. apply needs_space_exact; try assumption.
  - destruct Hrest as [-> | (w & s & -> & Hw)]; [apply fol_nil | apply fol_ws; exact Hw].
  - destruct Hrest as [-> | (w & s & -> & Hw)]; [exact I | apply (ws_no_entity w s Hw)].
Qed.
