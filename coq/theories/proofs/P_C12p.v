(* Proofs about model/AsyncPool.v (C12: the AsyncPool bookkeeping of device/src/u3v/async_read.rs,
   with failing event handling and slow cancellations). *)
From Cam Require Import Outcome Bytes AsyncPool.

Definition accepted_by_libusb (sl : slot) : Prop := sl_st sl <> LUnknown.

(* cancelled or completed: event handling completes it once its cancellation latency has run out *)
Definition ready (sl : slot) : Prop :=
  match sl_st sl with LDone _ _ => True | LFlight _ _ _ _ true => True | _ => False end.

Definition pending_of (s : pstate) : list slot := match p_pool s with Some q => q | None => [] end.

Definition nums (k : nat) : list Z := map Z.of_nat (seq 0 k).

(* transfers in flight, as a natural number *)
Definition nfl1 (sl : slot) : nat := if is_flight sl then 1%nat else 0%nat.
Fixpoint nfl (q : list slot) : nat := match q with [] => O | sl :: r => (nfl1 sl + nfl r)%nat end.

(* what libusb documents: the transfer statuses handle_completed knows, the error codes
   from_libusb_error knows *)
Definition status_ok (st : Z) : Prop := st = 0 \/ st = 3 \/ st = 1 \/ st = 4 \/ st = 5 \/ st = 6.
Definition code_ok (c : Z) : Prop := err_class c <> None.
Definition ev_ok (c : Z) : Prop := c = 0 \/ code_ok c.
Definition plan_ok (p : plan) : Prop :=
  match p with PRefuse c => code_ok c | PAccept st _ _ _ => status_ok st end.
Definition slot_ok (sl : slot) : Prop :=
  match sl_st sl with LFlight st _ _ _ _ => status_ok st | LDone st _ => status_ok st | LUnknown => True end.
Definition op_ok (o : Z * Z) : Prop := fst o = 9 -> ev_ok (snd o).

(* the rounds the clean-up loop of Drop can still take *)
Definition drop_measure (s : pstate) (q : list slot) : nat := (length q + lat_sum q + failures (p_evs s))%nat.

Ltac pf := cbn [p_plan p_evs p_epoch p_pool p_calls p_accepted p_refused p_completed p_notfound p_evcalls p_freed
                p_reaped sl_no sl_buf sl_st set_pool ev_call add_completed add_notfound next_epoch push_ev pop_front
                free_pool mkslot] in *.

(* ---- event handling and cancellation keep the queue, its order and what libusb accepted ---------- *)

Lemma status_ok_completion st ln : status_ok st -> completion st ln <> None.
Proof. unfold status_ok, completion. intros [H|[H|[H|[H|[H|H]]]]]; subst; cbn; discriminate. Qed.

Lemma complete1_facts e sl : let sl' := fst (complete1 e sl) in let n := snd (complete1 e sl) in
  sl_no sl' = sl_no sl /\ (accepted_by_libusb sl -> accepted_by_libusb sl') /\ (ready sl -> ready sl') /\
  0 <= n /\ Z.of_nat (nfl1 sl') + n = Z.of_nat (nfl1 sl) /\ (lat1 sl' <= lat1 sl)%nat /\
  (slot_ok sl -> slot_ok sl') /\
  (ready sl -> n = 0 -> front_done [sl'] = false -> (lat1 sl' < lat1 sl)%nat).
Proof.
  unfold complete1, accepted_by_libusb, ready, nfl1, is_flight, lat1, slot_ok, front_done.
  destruct (sl_st sl) as [|st ln due cl c|st ln] eqn:E; cbn [fst snd].
  - rewrite E. repeat split; auto; try lia; try (intros []).
  - destruct c, cl; cbn [fst snd]; pf.
    + repeat split; auto; try lia; try discriminate. intros _; unfold status_ok; auto.
    + destruct (due <? e); cbn [fst snd]; pf; repeat split; auto; try lia; try discriminate.
    + destruct (due <? e); cbn [fst snd]; pf; rewrite ?E; repeat split; auto; try lia; try discriminate; try (intros []).
    + destruct (due <? e); cbn [fst snd]; pf; rewrite ?E; repeat split; auto; try lia; try discriminate; try (intros []).
  - rewrite E. repeat split; auto; try lia; try discriminate.
Qed.

Lemma events_facts e q : let q' := fst (events e q) in let n := snd (events e q) in
  map sl_no q' = map sl_no q /\ (Forall accepted_by_libusb q -> Forall accepted_by_libusb q') /\
  (Forall ready q -> Forall ready q') /\ 0 <= n /\ Z.of_nat (nfl q') + n = Z.of_nat (nfl q) /\
  (lat_sum q' <= lat_sum q)%nat /\ (Forall slot_ok q -> Forall slot_ok q') /\
  (Forall ready q -> n = 0 -> front_done q' = false -> q <> [] -> (lat_sum q' < lat_sum q)%nat).
Proof.
  induction q as [|sl q IH]; cbn [events fst snd map nfl lat_sum].
  - repeat split; auto; try lia. congruence.
  - pose proof (complete1_facts e sl) as Hc. destruct (complete1 e sl) as [sl' n]. destruct (events e q) as [q' m].
    cbn [fst snd map nfl lat_sum] in *.
    destruct Hc as [H1 [H2 [H3 [H4 [H5 [H6 [H7 H8]]]]]]]. destruct IH as [I1 [I2 [I3 [I4 [I5 [I6 [I7 _]]]]]]].
    split; [now rewrite H1, I1|]. split; [intros Hf; inversion Hf; subst; constructor; auto|].
    split; [intros Hf; inversion Hf; subst; constructor; auto|]. split; [lia|]. split; [lia|]. split; [lia|].
    split; [intros Hf; inversion Hf; subst; constructor; auto|].
    intros Hf Hn Hd _. inversion Hf; subst. assert (n = 0) by lia.
    assert (lat1 sl' < lat1 sl)%nat; [|lia]. apply H8; auto.
Qed.

Lemma cancel1_facts sl : let sl' := fst (cancel1 sl) in
  sl_no sl' = sl_no sl /\ (accepted_by_libusb sl -> accepted_by_libusb sl' /\ ready sl') /\ (slot_ok sl -> slot_ok sl').
Proof.
  unfold cancel1, accepted_by_libusb, ready, slot_ok. destruct (sl_st sl) as [|st ln due cl c|st ln] eqn:E; cbn [fst]; pf.
  - rewrite E. split; [reflexivity|]. split; auto; try (intros H; congruence).
  - split; [reflexivity|]. split; auto; try (intros _; split; [discriminate|exact I]).
  - rewrite E. split; [reflexivity|]. split; auto; try (intros _; split; [discriminate|exact I]).
Qed.

Lemma cancel_all_facts q : let q' := fst (cancel_all q) in
  map sl_no q' = map sl_no q /\ (Forall accepted_by_libusb q -> Forall accepted_by_libusb q' /\ Forall ready q') /\
  (Forall slot_ok q -> Forall slot_ok q').
Proof.
  induction q as [|sl q IH]; cbn [cancel_all fst map].
  - repeat split; auto.
  - pose proof (cancel1_facts sl) as Hc. destruct (cancel1 sl) as [sl' n]. destruct (cancel_all q) as [q' m].
    cbn [fst map] in *. destruct Hc as [H1 [H2 H3]]. destruct IH as [I1 [I2 I3]].
    split; [now rewrite H1, I1|]. split.
    + intros Hf. inversion Hf; subst.
      destruct (H2 H4) as [A1 A2]. destruct (I2 H5) as [B1 B2]. split; constructor; auto.
    + intros Hf. inversion Hf; subst. constructor; auto.
Qed.

Lemma nfl_le q : (nfl q <= length q)%nat.
Proof. induction q as [|sl q IH]; cbn [nfl length]; [lia|]. unfold nfl1. destruct (is_flight sl); lia. Qed.

Lemma failures_tl l : (failures (tl l) <= failures l)%nat.
Proof. destruct l as [|c r]; cbn [tl failures]; [lia|]. destruct (c =? 0); lia. Qed.

Lemma failures_tl_lt l : hd 0 l <> 0 -> (failures (tl l) < failures l)%nat.
Proof.
  destruct l as [|c r]; cbn [hd tl failures]; [congruence|]. intros H.
  destruct (Z.eqb_spec c 0); [congruence|lia].
Qed.

Lemma hd_in l : hd 0 l <> 0 -> In (hd 0 l) l.
Proof. destruct l; cbn [hd]; [congruence|]. intros _. now left. Qed.

Lemma Forall_tl {A} (P : A -> Prop) l : Forall P l -> Forall P (tl l).
Proof. intros H. destruct l; cbn [tl]; [constructor|]. now inversion H. Qed.

(* ---- poll_completed ----------------------------------------------------------------------------------- *)

(* what a wait leaves untouched *)
Definition core_eq (s s' : pstate) : Prop :=
  p_plan s' = p_plan s /\ p_epoch s' = p_epoch s /\ p_pool s' = p_pool s /\ p_accepted s' = p_accepted s /\
  p_reaped s' = p_reaped s /\ p_freed s' = p_freed s.

Lemma front_done_reap q : front_done q = true -> exists sl r out, q = sl :: r /\ reap sl = Some out.
Proof.
  unfold front_done. destruct q as [|sl r]; [discriminate|]. destruct (sl_st sl) as [| |st ln] eqn:E; try discriminate.
  intros _. exists sl, r. unfold reap. rewrite E. eauto.
Qed.

Lemma reap_none_front sl r : reap sl = None -> front_done (sl :: r) = false.
Proof. unfold reap, front_done. destruct (sl_st sl); auto. discriminate. Qed.

Lemma poll_wait_facts fuel : forall s q s' q' w, (nfl q < fuel)%nat -> Forall accepted_by_libusb q ->
  poll_wait fuel s q = (s', q', w) ->
  core_eq s s' /\ map sl_no q' = map sl_no q /\ Forall accepted_by_libusb q' /\ (Forall ready q -> Forall ready q') /\
  (lat_sum q' <= lat_sum q)%nat /\ (failures (p_evs s') <= failures (p_evs s))%nat /\
  (forall P : Z -> Prop, Forall P (p_evs s) -> Forall P (p_evs s')) /\ (Forall slot_ok q -> Forall slot_ok q') /\
  match w with
  | WDone => front_done q' = true
  | WTimeout => q <> [] -> Forall ready q ->
                (failures (p_evs s') < failures (p_evs s))%nat \/ (lat_sum q' < lat_sum q)%nat
  | WErr c => (failures (p_evs s') < failures (p_evs s))%nat /\ In c (p_evs s) /\ c <> 0
  end.
Proof.
  induction fuel as [|f IH]; intros s q s' q' w Hn Ha H; [lia|].
  cbn [poll_wait] in H. destruct (Z.eqb_spec (hd 0 (p_evs s)) 0) as [E0|E0].
  - pose proof (events_facts (p_epoch s) q) as He. destruct (events (p_epoch s) q) as [q1 n]. cbn [fst snd] in He.
    destruct He as [E1 [E2 [E3 [E4 [E5 [E6 [E7 E8]]]]]]].
    destruct (front_done q1) eqn:Ed.
    { inversion H; subst. unfold core_eq. pf. repeat split; auto; try apply failures_tl;
        try (intros ? ?; apply Forall_tl; assumption). }
    destruct (Z.eqb_spec n 0) as [N0|N0].
    { inversion H; subst. unfold core_eq. pf. repeat split; auto; try apply failures_tl;
        try (intros ? ?; apply Forall_tl; assumption);
      try (intros Hq Hr; right; apply E8; auto). }
    assert (Hn1 : (nfl q1 < f)%nat) by lia.
    destruct (IH _ _ _ _ _ Hn1 (E2 Ha) H) as [C [M [A [R [L [F [P [O W]]]]]]]].
    unfold core_eq in *. pf. destruct C as [C1 [C2 [C3 [C4 [C5 C6]]]]].
    pose proof (failures_tl (p_evs s)) as Ft.
    repeat split; auto; try congruence; try lia.
    + intros P0 HP. apply P, Forall_tl, HP.
    + destruct w.
      * exact W.
      * intros Hq Hr. assert (Hq1 : q1 <> []).
        { intros X; subst q1. destruct q; [congruence|discriminate]. }
        destruct (W Hq1 (E3 Hr)); [left|right]; lia.
      * destruct W as [W1 [W2 W3]]. repeat split; auto; try lia.
        destruct (p_evs s); cbn [tl] in W2; [destruct W2|now right].
  - pose proof (failures_tl_lt _ E0) as Fl. pose proof (hd_in _ E0) as Hi.
    destruct (hd 0 (p_evs s) =? -7); inversion H; subst; unfold core_eq; pf;
      repeat split; auto; try lia; try (intros ? ?; apply Forall_tl; assumption).
Qed.

(* the fuel `poll` gives to the wait is never used up: more fuel changes nothing *)
Lemma poll_wait_fuel fuel : forall fuel' s q, (nfl q < fuel)%nat -> (nfl q < fuel')%nat ->
  poll_wait fuel s q = poll_wait fuel' s q.
Proof.
  induction fuel as [|f IH]; intros fuel' s q H1 H2; [lia|]. destruct fuel' as [|f']; [lia|].
  cbn [poll_wait]. destruct (hd 0 (p_evs s) =? 0); [|reflexivity].
  pose proof (events_facts (p_epoch s) q) as He. destruct (events (p_epoch s) q) as [q1 n]. cbn [fst snd] in He.
  destruct He as [_ [_ [_ [E4 [E5 _]]]]].
  destruct (front_done q1); [reflexivity|]. destruct (Z.eqb_spec n 0); [reflexivity|]. apply IH; lia.
Qed.

(* ---- poll ------------------------------------------------------------------------------------------ *)

Lemma reap_done sl st ln : sl_st sl = LDone st ln -> exists out, reap sl = Some out.
Proof. intros H. unfold reap. rewrite H. eauto. Qed.

Lemma reap_some sl out : reap sl = Some out -> exists st ln, sl_st sl = LDone st ln.
Proof. unfold reap. destruct (sl_st sl); try discriminate. eauto. Qed.

Lemma reap_ok sl out : slot_ok sl -> reap sl = Some out -> is_panic out = false.
Proof.
  unfold slot_ok, reap. destruct (sl_st sl) as [| |st ln]; try discriminate. intros Hs H. inversion H; subst.
  pose proof (status_ok_completion st ln Hs). destruct (completion st ln) as [[n|c]|]; [reflexivity|reflexivity|congruence].
Qed.

Lemma lat1_done sl out : reap sl = Some out -> lat1 sl = O.
Proof. unfold reap, lat1. destruct (sl_st sl); try discriminate. reflexivity. Qed.

(* poll either returns the completion of the FRONT transfer and removes exactly it, or fails (time-out,
   event-handling error, unreachable!()) and leaves the queue (numbers, order) as it is; a failing poll
   with a positive time-out on a queue of cancelled transfers uses up a failing event-handling call of
   the plan or a round of some cancellation latency *)
Lemma poll_facts ms s q s' r : poll ms s q = (s', r) -> p_pool s = Some q -> Forall accepted_by_libusb q ->
  p_accepted s' = p_accepted s /\ p_plan s' = p_plan s /\ p_epoch s' = p_epoch s /\ p_freed s' = p_freed s /\
  (failures (p_evs s') <= failures (p_evs s))%nat /\ (forall P : Z -> Prop, Forall P (p_evs s) -> Forall P (p_evs s')) /\
  match r with
  | PReap out => exists sl rest, map sl_no q = sl_no sl :: map sl_no rest /\ p_pool s' = Some rest /\
                              p_reaped s' = p_reaped s ++ [sl_no sl] /\ Forall accepted_by_libusb rest /\
                              (Forall ready q -> Forall ready rest) /\ (lat_sum rest <= lat_sum q)%nat /\
                              (Forall slot_ok q -> Forall slot_ok rest /\ is_panic out = false)
  | PFail _ | PPanic =>
    p_reaped s' = p_reaped s /\
    exists q', p_pool s' = Some q' /\ map sl_no q' = map sl_no q /\ Forall accepted_by_libusb q' /\
               (Forall ready q -> Forall ready q') /\ (lat_sum q' <= lat_sum q)%nat /\
               (Forall slot_ok q -> Forall slot_ok q') /\
               (q <> [] -> Forall ready q -> 0 < ms ->
                (failures (p_evs s') < failures (p_evs s))%nat \/ (lat_sum q' < lat_sum q)%nat) /\
               (r = PPanic -> q <> [] -> ~ Forall ev_ok (p_evs s))
  end.
Proof.
  intros H Hp Hf. unfold poll in H. destruct q as [|sl q].
  - inversion H; subst. repeat split; auto. exists []. repeat split; auto; congruence.
  - destruct (reap sl) as [out|] eqn:Er.
    + inversion H; subst. pf. repeat split; auto. exists sl, q. inversion Hf; subst.
      split; [reflexivity|]. split; [reflexivity|]. split; [reflexivity|]. split; [assumption|].
      split; [intros Hr; now inversion Hr|]. split; [cbn [lat_sum]; lia|].
      intros Ho. inversion Ho; subst. split; [assumption|]. eapply reap_ok; eassumption.
    + destruct (Z.leb_spec ms 0) as [Hms|Hms].
      { inversion H; subst. repeat split; auto. exists (sl :: q). repeat split; auto; try lia. discriminate. }
      destruct (poll_wait (S (length (sl :: q))) s (sl :: q)) as [[s1 q1] w] eqn:Ew.
      assert (Hl : (nfl (sl :: q) < S (length (sl :: q)))%nat) by (pose proof (nfl_le (sl :: q)); lia).
      destruct (poll_wait_facts _ _ _ _ _ _ Hl Hf Ew) as [C [M [A [R [L [F [P [O W]]]]]]]].
      unfold core_eq in C. destruct C as [C1 [C2 [C3 [C4 [C5 C6]]]]].
      assert (Hq1 : exists sl1 r1, q1 = sl1 :: r1).
      { destruct q1 as [|a b]; [discriminate|eauto]. }
      destruct Hq1 as [sl1 [r1 ->]].
      destruct w as [| |code].
      * destruct (front_done_reap _ W) as [sl2 [r2 [out [Eq Ho]]]]. inversion Eq; subst sl2 r2. rewrite Ho in H.
        inversion H; subst. pf. repeat split; auto. exists sl1, r1. inversion A; subst.
        split; [symmetry; exact M|]. split; [reflexivity|]. split; [now rewrite C5|]. split; [assumption|].
        split; [intros Hr; specialize (R Hr); now inversion R|]. split; [cbn [lat_sum] in L |- *; lia|].
        intros Ho'. specialize (O Ho'). inversion O; subst. split; [assumption|]. eapply reap_ok; eassumption.
      * inversion H; subst. pf. repeat split; auto. exists (sl1 :: r1). repeat split; auto. discriminate.
      * destruct W as [W1 [W2 W3]].
        destruct (err_class code) as [c|] eqn:Ec; inversion H; subst; pf; repeat split; auto;
          exists (sl1 :: r1); repeat split; auto; try discriminate.
        intros _ _ Hev. rewrite Forall_forall in Hev. destruct (Hev _ W2) as [X|X]; [congruence|].
        unfold code_ok in X. congruence.
Qed.

(* ---- Drop ------------------------------------------------------------------------------------------ *)

(* one round of the clean-up loop on a non-empty queue of cancelled transfers: whatever the poll
   does, the queue stays a queue of accepted, cancelled transfers, nothing is lost
   (returned ++ pending is unchanged), and the measure drops *)
Lemma drain_step s q s' r : q <> [] -> Forall accepted_by_libusb q -> Forall ready q -> p_pool s = Some q ->
  poll 1000 s q = (s', r) ->
  exists q', p_pool s' = Some q' /\ Forall accepted_by_libusb q' /\ Forall ready q' /\
    (drop_measure s' q' < drop_measure s q)%nat /\ p_accepted s' = p_accepted s /\ p_freed s' = p_freed s /\
    p_reaped s' ++ map sl_no q' = p_reaped s ++ map sl_no q /\
    p_plan s' = p_plan s /\ (forall P : Z -> Prop, Forall P (p_evs s) -> Forall P (p_evs s')) /\
    (Forall slot_ok q -> Forall ev_ok (p_evs s) ->
     Forall slot_ok q' /\ Forall ev_ok (p_evs s') /\ r <> PPanic /\ forall out, r = PReap out -> is_panic out = false).
Proof.
  intros Hq Ha Hr Hp H. destruct (poll_facts _ _ _ _ _ H Hp Ha) as [A1 [A2 [A3 [A4 [A5 [A6 R]]]]]].
  unfold drop_measure. destruct r as [out|out|].
  - destruct R as [sl [rest [M [P1 [R1 [F1 [F2 [L O]]]]]]]]. exists rest.
    assert (Hlen : length q = S (length rest)).
    { rewrite <- (map_length sl_no q), M. cbn [length]. now rewrite map_length. }
    repeat split; auto; try lia.
    + rewrite R1, <- app_assoc, M. reflexivity.
    + apply O; assumption.
    + discriminate.
    + intros out0 E. inversion E; subst. apply O; assumption.
  - destruct R as [R1 [q' [P1 [M [F1 [F2 [L [O [D _]]]]]]]]]. exists q'.
    assert (Hlen : length q' = length q).
    { rewrite <- (map_length sl_no q'), M. now rewrite map_length. }
    specialize (D Hq Hr ltac:(lia)).
    repeat split; auto; try lia.
    + now rewrite R1, M.
    + discriminate.
    + discriminate.
  - destruct R as [R1 [q' [P1 [M [F1 [F2 [L [O [D X]]]]]]]]]. exists q'.
    assert (Hlen : length q' = length q).
    { rewrite <- (map_length sl_no q'), M. now rewrite map_length. }
    specialize (D Hq Hr ltac:(lia)).
    repeat split; auto; try lia.
    + now rewrite R1, M.
    + exfalso. apply (X eq_refl Hq). assumption.
    + discriminate.
Qed.

(* the clean-up loop: with fuel above the measure it never runs out of fuel; if it returns, every
   pending transfer has been reaped, in order, and nothing was freed in flight; with statuses and
   error codes libusb documents it returns *)
Lemma drain_ready fuel : forall s q, (drop_measure s q < fuel)%nat -> Forall accepted_by_libusb q -> Forall ready q ->
  p_pool s = Some q ->
  drain fuel s q <> DHang /\
  (forall s', drain fuel s q = DRet s' ->
     p_pool s' = None /\ p_reaped s' = p_reaped s ++ map sl_no q /\ p_accepted s' = p_accepted s /\ p_freed s' = p_freed s /\
     p_plan s' = p_plan s /\ (forall P : Z -> Prop, Forall P (p_evs s) -> Forall P (p_evs s'))) /\
  (Forall slot_ok q -> Forall ev_ok (p_evs s) -> exists s', drain fuel s q = DRet s').
Proof.
  induction fuel as [|f IH]; intros s q Hl Ha Hr Hp; [lia|].
  destruct q as [|sl q].
  - cbn [drain]. split; [discriminate|]. split.
    + intros s' E. inversion E; subst. pf. cbn [map]. rewrite app_nil_r. unfold in_flight. cbn. repeat split; auto; lia.
    + intros _ _. eauto.
  - cbn [drain]. destruct (poll 1000 s (sl :: q)) as [s1 r] eqn:Epoll.
    assert (Hne : sl :: q <> []) by discriminate.
    destruct (drain_step _ _ _ _ Hne Ha Hr Hp Epoll) as [q' [P1 [F1 [F2 [D [A [Fr [Rp [Pl [Ev O]]]]]]]]]].
    assert (Hl' : (drop_measure s1 q' < f)%nat) by lia.
    destruct (IH s1 q' Hl' F1 F2 P1) as [I1 [I2 I3]].
    destruct r as [out|out|]; rewrite P1.
    + destruct (is_panic out) eqn:Ep.
      * split; [discriminate|]. split; [intros s' E; discriminate|].
        intros Ho He. destruct (O Ho He) as [_ [_ [_ X]]]. specialize (X out eq_refl). congruence.
      * split; [exact I1|]. split.
        -- intros s' E. destruct (I2 s' E) as [B1 [B2 [B3 [B4 [B5 B6]]]]]. repeat split; auto; congruence.
        -- intros Ho He. destruct (O Ho He) as [O1 [O2 _]]. apply I3; assumption.
    + split; [exact I1|]. split.
      * intros s' E. destruct (I2 s' E) as [B1 [B2 [B3 [B4 [B5 B6]]]]]. repeat split; auto; congruence.
      * intros Ho He. destruct (O Ho He) as [O1 [O2 _]]. apply I3; assumption.
    + split; [discriminate|]. split; [intros s' E; discriminate|].
      intros Ho He. destruct (O Ho He) as [_ [_ [X _]]]. congruence.
Qed.

(* more fuel than the measure changes nothing: the loop ends within `drop_measure` polls *)
Lemma drain_fuel fuel : forall fuel' s q, (drop_measure s q < fuel)%nat -> (drop_measure s q < fuel')%nat ->
  Forall accepted_by_libusb q -> Forall ready q -> p_pool s = Some q -> drain fuel s q = drain fuel' s q.
Proof.
  induction fuel as [|f IH]; intros fuel' s q H1 H2 Ha Hr Hp; [lia|]. destruct fuel' as [|f']; [lia|].
  destruct q as [|sl q]; [reflexivity|]. cbn [drain].
  destruct (poll 1000 s (sl :: q)) as [s1 r] eqn:Epoll.
  assert (Hne : sl :: q <> []) by discriminate.
  destruct (drain_step _ _ _ _ Hne Ha Hr Hp Epoll) as [q' [P1 [F1 [F2 [D _]]]]].
  destruct r as [out|out|]; rewrite P1; [destruct (is_panic out); [reflexivity|]| |reflexivity]; apply IH; auto; lia.
Qed.

Lemma pool_drop_ok s q : p_pool s = Some q -> Forall accepted_by_libusb q ->
  pool_drop s q <> DHang /\
  (forall s', pool_drop s q = DRet s' ->
     p_pool s' = None /\ p_reaped s' = p_reaped s ++ map sl_no q /\ p_accepted s' = p_accepted s /\ p_freed s' = p_freed s /\
     p_plan s' = p_plan s /\ (forall P : Z -> Prop, Forall P (p_evs s) -> Forall P (p_evs s'))) /\
  (Forall slot_ok q -> Forall ev_ok (p_evs s) -> exists s', pool_drop s q = DRet s').
Proof.
  intros Hp Ha. unfold pool_drop. pose proof (cancel_all_facts q) as Hc.
  destruct (cancel_all q) as [q' n]. cbn [fst] in Hc. destruct Hc as [C1 [C2 C3]]. destruct (C2 Ha) as [A R].
  set (s0 := add_notfound (set_pool s (Some q')) n).
  assert (Hl : (drop_measure s0 q' < drop_fuel s0 q')%nat) by (unfold drop_measure, drop_fuel; lia).
  destruct (drain_ready _ s0 q' Hl A R eq_refl) as [D1 [D2 D3]].
  split; [exact D1|]. split.
  - intros s' E. destruct (D2 s' E) as [B1 [B2 [B3 [B4 [B5 B6]]]]]. subst s0. pf. rewrite C1 in B2. repeat split; auto.
  - intros Ho He. apply D3; [apply C3, Ho|exact He].
Qed.

(* Drop ends within drop_measure polls: any larger fuel gives the same result *)
Lemma pool_drop_bound s q fuel : p_pool s = Some q -> Forall accepted_by_libusb q ->
  let q' := fst (cancel_all q) in
  let s0 := add_notfound (set_pool s (Some q')) (snd (cancel_all q)) in
  (drop_measure s0 q' < fuel)%nat -> drain fuel s0 q' = pool_drop s q.
Proof.
  intros Hp Ha. unfold pool_drop. pose proof (cancel_all_facts q) as Hc.
  destruct (cancel_all q) as [q' n]. cbn [fst snd] in *. destruct Hc as [C1 [C2 C3]]. destruct (C2 Ha) as [A R].
  intros Hl. apply drain_fuel; auto; unfold drop_measure, drop_fuel; lia.
Qed.

(* ---- invariant over operation sequences ------------------------------------------------------------- *)

Definition PInv (s : pstate) : Prop :=
  Forall accepted_by_libusb (pending_of s) /\
  (exists k, p_accepted s = Z.of_nat k /\ p_reaped s ++ map sl_no (pending_of s) = nums k) /\
  p_freed s = 0.

(* everything the device script will still do is something libusb documents *)
Definition SInv (s : pstate) : Prop :=
  Forall plan_ok (p_plan s) /\ Forall ev_ok (p_evs s) /\ Forall slot_ok (pending_of s).

Definition panic_op (op : Z) (out : list Z) : bool := ((op =? 1) || (op =? 2) || (op =? 5)) && is_panic out.

Lemma nums_S k : nums (S k) = nums k ++ [Z.of_nat k].
Proof. unfold nums. rewrite seq_S, map_app. reflexivity. Qed.

Lemma pinv_init pl evs : PInv (pinit pl evs).
Proof. split; [constructor|]. split; [|reflexivity]. exists 0%nat. split; reflexivity. Qed.

Lemma sinv_init pl evs : Forall plan_ok pl -> Forall ev_ok evs -> SInv (pinit pl evs).
Proof. intros H1 H2. split; [exact H1|]. split; [exact H2|]. constructor. Qed.

Lemma pool_op_inv s op arg s' out : PInv s -> pool_op false s op arg = Some (s', out) -> panic_op op out = false ->
  PInv s'.
Proof.
  intros [Ha [[k [Hk Hn]] Hz]] H Hpan. unfold pool_op in H. unfold PInv, pending_of in *.
  destruct (op =? 9); [inversion H; subst; pf; split; [exact Ha|split; [exists k; auto|exact Hz]]|].
  destruct (p_pool s) as [q|] eqn:Ep.
  - destruct (op =? 1).
    { unfold submit in H. destruct (match p_plan s with [] => _ | x :: _ => x end) as [code|st ln d cl].
      - inversion H; subst. pf. split; [exact Ha|]. split; [exists k; auto|exact Hz].
      - inversion H; subst. pf. split; [|split; [|exact Hz]].
        + apply Forall_app. split; [exact Ha|]. constructor; [|constructor]. unfold accepted_by_libusb. pf. discriminate.
        + exists (S k). split; [lia|]. rewrite map_app, app_assoc, Hn, nums_S. cbn [map sl_no]. now rewrite Hk. }
    destruct (op =? 2).
    { destruct q as [|sl q]; [inversion H; subst; rewrite Ep; split; [exact Ha|split; [exists k; auto|exact Hz]]|].
      destruct (poll arg (next_epoch s) (sl :: q)) as [s2 r] eqn:Epoll.
      assert (Hp2 : p_pool (next_epoch s) = Some (sl :: q)) by exact Ep.
      destruct (poll_facts _ _ _ _ _ Epoll Hp2 Ha) as [A1 [_ [_ [A4 [_ [_ R]]]]]]. pf.
      assert (Hall : PInv s2).
      { unfold PInv, pending_of. destruct r as [o|o|].
        - destruct R as [sl0 [rest [M [P1 [R1 [F1 _]]]]]]. rewrite P1. split; [exact F1|]. split; [|congruence].
          exists k. split; [congruence|]. rewrite R1, <- app_assoc. cbn [app]. rewrite <- M. exact Hn.
        - destruct R as [R1 [q' [P1 [M [F1 _]]]]]. rewrite P1. split; [exact F1|]. split; [|congruence].
          exists k. split; [congruence|]. rewrite R1, M. exact Hn.
        - destruct R as [R1 [q' [P1 [M [F1 _]]]]]. rewrite P1. split; [exact F1|]. split; [|congruence].
          exists k. split; [congruence|]. rewrite R1, M. exact Hn. }
      unfold PInv, pending_of in Hall.
      destruct r as [o|o|]; inversion H; subst; exact Hall. }
    destruct (op =? 3); [inversion H; subst; rewrite Ep; split; [exact Ha|split; [exists k; auto|exact Hz]]|].
    destruct (op =? 4).
    { pose proof (cancel_all_facts q) as Hc. destruct (cancel_all q) as [q' n]. cbn [fst] in Hc.
      destruct Hc as [C1 [C2 _]]. inversion H; subst. pf. split; [apply C2, Ha|]. split; [|exact Hz]. exists k. rewrite C1. auto. }
    destruct (op =? 5) eqn:E5.
    { destruct (pool_drop_ok s q Ep Ha) as [D1 [D2 _]]. destruct (pool_drop s q) as [s1|s1|] eqn:Ed; [| |congruence].
      - destruct (D2 s1 eq_refl) as [B1 [B2 [B3 [B4 _]]]]. inversion H; subst.
        rewrite B1. split; [constructor|]. split; [|congruence]. exists k. split; [congruence|].
        rewrite B2. cbn [map]. now rewrite app_nil_r.
      - inversion H; subst. unfold panic_op in Hpan. rewrite E5 in Hpan.
        rewrite Bool.orb_true_r in Hpan. discriminate. }
    destruct (op =? 6); [inversion H; subst; rewrite Ep; split; [exact Ha|split; [exists k; auto|exact Hz]]|].
    destruct (op =? 7); inversion H; subst; rewrite Ep; (split; [exact Ha|split; [exists k; auto|exact Hz]]).
  - destruct (op =? 6).
    { inversion H; subst. pf. split; [constructor|]. split; [exists k; auto|exact Hz]. }
    destruct ((op =? 3) || (op =? 7)); inversion H; subst; rewrite Ep; (split; [exact Ha|split; [exists k; auto|exact Hz]]).
Qed.

Lemma pool_op_total s op arg : PInv s -> pool_op false s op arg <> None.
Proof.
  intros [Ha _] H. unfold pool_op, pending_of in *. destruct (op =? 9); [discriminate|].
  destruct (p_pool s) as [q|] eqn:Ep.
  - destruct (op =? 1); [discriminate|]. destruct (op =? 2).
    { destruct q; [discriminate|]. destruct (poll _ _) as [s2 [o|o|]]; discriminate. }
    destruct (op =? 3); [discriminate|]. destruct (op =? 4); [destruct (cancel_all q); discriminate|].
    destruct (op =? 5).
    { destruct (pool_drop_ok s q Ep Ha) as [D1 _]. destruct (pool_drop s q); [discriminate|discriminate|congruence]. }
    destruct (op =? 6); [discriminate|]. destruct (op =? 7); discriminate.
  - destruct (op =? 6); [discriminate|]. destruct ((op =? 3) || (op =? 7)); discriminate.
Qed.

Lemma is_panic_long a b r : is_panic (a :: b :: r) = false.
Proof. unfold is_panic. destruct a as [|p|p]; auto. destruct p as [p|p|]; auto. destruct p; auto. Qed.

Lemma reap_out sl out : reap sl = Some out -> is_panic out = false -> exists a b r, out = a :: b :: r.
Proof.
  unfold reap. destruct (sl_st sl) as [| |st ln]; try discriminate. intros H. inversion H; subst.
  destruct (completion st ln) as [[n|c]|]; eauto. discriminate.
Qed.

Lemma poll_out ms s q s' r : poll ms s q = (s', r) ->
  match r with
  | PReap out => is_panic out = false -> exists a b r, out = a :: b :: r
  | PFail out => exists a b r, out = a :: b :: r
  | PPanic => True
  end.
Proof.
  unfold poll. destruct q as [|sl q]; [intros H; inversion H; subst; exact I|].
  destruct (reap sl) as [out|] eqn:Er; [intros H; inversion H; subst; eapply reap_out; eassumption|].
  destruct (ms <=? 0); [intros H; inversion H; subst; eauto|].
  destruct (poll_wait _ s (sl :: q)) as [[s1 q1] w].
  destruct w as [| |code].
  - destruct q1 as [|sl1 r1]; [intros H; inversion H; subst; eauto|].
    destruct (reap sl1) as [out|] eqn:Er1; intros H; inversion H; subst; [eapply reap_out; eassumption|eauto].
  - intros H; inversion H; subst; eauto.
  - destruct (err_class code); intros H; inversion H; subst; [eauto|exact I].
Qed.

(* with statuses and error codes libusb documents nothing panics and that stays so *)
Lemma pool_op_sane s op arg s' out : PInv s -> SInv s -> op_ok (op, arg) ->
  pool_op false s op arg = Some (s', out) -> SInv s' /\ panic_op op out = false.
Proof.
  intros [Ha _] [Sp [Se So]] Hop H. unfold pool_op in H. unfold SInv, pending_of, panic_op in *.
  destruct (Z.eqb_spec op 9) as [E9|E9].
  { inversion H; subst. pf. split; [|reflexivity]. split; [exact Sp|]. split; [|exact So].
    apply Forall_app. split; [exact Se|]. constructor; [|constructor]. exact (Hop eq_refl). }
  destruct (p_pool s) as [q|] eqn:Ep.
  - destruct (Z.eqb_spec op 1) as [E1|E1].
    { subst op. cbn [Z.eqb Pos.eqb orb andb]. unfold submit in H.
      assert (Hpl : plan_ok (match p_plan s with [] => PAccept 0 arg 0 0 | x :: _ => x end)).
      { destruct (p_plan s); [cbn; unfold status_ok; auto|now inversion Sp]. }
      destruct (match p_plan s with [] => _ | x :: _ => x end) as [code|st ln d cl].
      - inversion H; subst. pf. split; [split; [apply Forall_tl, Sp|split; [exact Se|exact So]]|].
        cbn [plan_ok] in Hpl. unfold code_ok in Hpl. destruct (err_class code); [reflexivity|congruence].
      - inversion H; subst. pf. split; [|reflexivity]. split; [apply Forall_tl, Sp|]. split; [exact Se|].
        apply Forall_app. split; [exact So|]. constructor; [|constructor]. unfold slot_ok. pf. exact Hpl. }
    destruct (Z.eqb_spec op 2) as [E2|E2].
    { subst op. cbn [Z.eqb Pos.eqb orb andb].
      destruct q as [|sl q]; [inversion H; subst; rewrite Ep; split; [auto|reflexivity]|].
      destruct (poll arg (next_epoch s) (sl :: q)) as [s2 r] eqn:Epoll.
      assert (Hp2 : p_pool (next_epoch s) = Some (sl :: q)) by exact Ep.
      destruct (poll_facts _ _ _ _ _ Epoll Hp2 Ha) as [_ [A2 [_ [_ [_ [A6 R]]]]]]. pf.
      pose proof (poll_out _ _ _ _ _ Epoll) as Hout.
      destruct r as [o|o|].
      - destruct R as [sl0 [rest [_ [P1 [_ [_ [_ [_ O]]]]]]]]. destruct (O So) as [O1 O2]. rewrite O2 in H.
        inversion H; subst. rewrite P1. split; [split; [congruence|split; [apply A6, Se|exact O1]]|].
        destruct (Hout O2) as [a [b [r0 ->]]]. cbn [app]. apply is_panic_long.
      - destruct R as [_ [q' [P1 [_ [_ [_ [_ [O _]]]]]]]]. inversion H; subst. rewrite P1.
        split; [split; [congruence|split; [apply A6, Se|exact (O So)]]|].
        destruct Hout as [a [b [r0 ->]]]. cbn [app]. apply is_panic_long.
      - destruct R as [_ [q' [_ [_ [_ [_ [_ [_ [_ X]]]]]]]]]. exfalso. apply (X eq_refl); [discriminate|exact Se]. }
    destruct (Z.eqb_spec op 5) as [E5|E5].
    { subst op. cbn [Z.eqb Pos.eqb orb andb] in *.
      destruct (pool_drop_ok s q Ep Ha) as [_ [D2 D3]]. destruct (D3 So Se) as [s1 Ed]. rewrite Ed in H.
      destruct (D2 s1 Ed) as [B1 [_ [_ [_ [B5 B6]]]]]. inversion H; subst. rewrite B1.
      split; [split; [congruence|split; [apply B6, Se|constructor]]|reflexivity]. }
    replace ((op =? 1) || (op =? 2) || (op =? 5)) with false
      by (destruct (Z.eqb_spec op 1), (Z.eqb_spec op 2), (Z.eqb_spec op 5); try congruence; reflexivity).
    cbn [andb]. split; [|reflexivity].
    destruct (op =? 3); [inversion H; subst; rewrite Ep; auto|].
    destruct (op =? 4).
    { pose proof (cancel_all_facts q) as Hc. destruct (cancel_all q) as [q' n]. cbn [fst] in Hc.
      destruct Hc as [_ [_ C3]]. inversion H; subst. pf. auto. }
    destruct (op =? 6); [inversion H; subst; rewrite Ep; auto|].
    destruct (op =? 7); inversion H; subst; rewrite Ep; auto.
  - assert (Hs : SInv s') ; [|split; [exact Hs|]].
    { unfold SInv, pending_of. destruct (op =? 6); [inversion H; subst; pf; auto|].
      destruct ((op =? 3) || (op =? 7)); inversion H; subst; rewrite Ep; auto. }
    destruct (op =? 6); [inversion H; subst; apply Bool.andb_false_r|].
    destruct (Z.eqb_spec op 3) as [E3|E3]; [subst; reflexivity|].
    destruct (Z.eqb_spec op 7) as [E7|E7]; [subst; reflexivity|].
    cbn [orb] in H. inversion H; subst. apply Bool.andb_false_r.
Qed.

Lemma pool_run_inv ops : forall s s' out, PInv s -> pool_run false s ops = Some (s', out, false) -> PInv s'.
Proof.
  induction ops as [|[op arg] ops IH]; intros s s' out Hi H; cbn [pool_run] in H.
  - inversion H; subst; exact Hi.
  - destruct (pool_op false s op arg) as [[s1 o1]|] eqn:E; [|discriminate].
    destruct (((op =? 1) || (op =? 2) || (op =? 5)) && is_panic o1) eqn:Ep; [discriminate|].
    pose proof (pool_op_inv _ _ _ _ _ Hi E Ep) as Hi1.
    destruct (pool_run false s1 ops) as [[[s2 o2] b2]|] eqn:E2; [|discriminate].
    inversion H; subst. eapply IH; eassumption.
Qed.

Lemma pool_run_total ops : forall s, PInv s -> pool_run false s ops <> None.
Proof.
  induction ops as [|[op arg] ops IH]; intros s Hi; cbn [pool_run]; [discriminate|].
  destruct (pool_op false s op arg) as [[s1 o1]|] eqn:E; [|exfalso; exact (pool_op_total _ _ _ Hi E)].
  destruct (((op =? 1) || (op =? 2) || (op =? 5)) && is_panic o1) eqn:Ep; [discriminate|].
  pose proof (IH s1 (pool_op_inv _ _ _ _ _ Hi E Ep)) as Hn.
  destruct (pool_run false s1 ops) as [[[s2 o2] b2]|]; [discriminate|congruence].
Qed.

Lemma pool_run_sane ops : forall s s' out b, PInv s -> SInv s -> Forall op_ok ops ->
  pool_run false s ops = Some (s', out, b) -> b = false /\ SInv s'.
Proof.
  induction ops as [|[op arg] ops IH]; intros s s' out b Hi Hs Ho H; cbn [pool_run] in H.
  - inversion H; subst. auto.
  - inversion Ho; subst.
    destruct (pool_op false s op arg) as [[s1 o1]|] eqn:E; [|discriminate].
    destruct (pool_op_sane _ _ _ _ _ Hi Hs H2 E) as [Hs1 Hp]. unfold panic_op in Hp. rewrite Hp in H.
    pose proof (pool_op_inv _ _ _ _ _ Hi E Hp) as Hi1.
    destruct (pool_run false s1 ops) as [[[s2 o2] b2]|] eqn:E2; [|discriminate].
    inversion H; subst. eapply IH; eassumption.
Qed.

(* ---- statements -------------------------------------------------------------------------------------- *)

Lemma pool_pending_accepted pl evs ops s out : pool_run false (pinit pl evs) ops = Some (s, out, false) ->
  forall q, p_pool s = Some q -> Forall accepted_by_libusb q.
Proof.
  intros H q Hq. destruct (pool_run_inv _ _ _ _ (pinv_init pl evs) H) as [Ha _].
  unfold pending_of in Ha. now rewrite Hq in Ha.
Qed.

Lemma pool_poll_fifo pl evs ops s out : pool_run false (pinit pl evs) ops = Some (s, out, false) ->
  exists k, p_accepted s = Z.of_nat k /\ p_reaped s ++ map sl_no (pending_of s) = nums k.
Proof. intros H. exact (proj1 (proj2 (pool_run_inv _ _ _ _ (pinv_init pl evs) H))). Qed.

Lemma pool_refused_submit_unchanged s q len code rest : p_plan s = PRefuse code :: rest ->
  let '(s', out) := submit false s q len in
  p_pool s' = Some q /\ p_accepted s' = p_accepted s /\ p_reaped s' = p_reaped s /\
  p_completed s' = p_completed s /\ p_refused s' = p_refused s + 1 /\ p_freed s' = p_freed s /\
  out = match err_class code with Some c => [1; c] | None => [2] end.
Proof. intros H. unfold submit. rewrite H. cbn [tl]. pf. repeat split; auto. Qed.

(* a poll that does not return a completion - time-out, failing event handling, even the
   unreachable!() on an unknown code - pops nothing and loses nothing *)
Lemma pool_failed_poll_keeps_pending pl evs ops s out q ms s' r :
  pool_run false (pinit pl evs) ops = Some (s, out, false) -> p_pool s = Some q ->
  poll ms s q = (s', r) -> (forall o, r <> PReap o) ->
  exists q', p_pool s' = Some q' /\ map sl_no q' = map sl_no q /\ length q' = length q /\
             Forall accepted_by_libusb q' /\ p_reaped s' = p_reaped s /\ p_freed s' = p_freed s.
Proof.
  intros H Hq Hpoll Hr. pose proof (pool_pending_accepted _ _ _ _ _ H q Hq) as Ha.
  destruct (poll_facts _ _ _ _ _ Hpoll Hq Ha) as [_ [_ [_ [A4 [_ [_ R]]]]]].
  destruct r as [o|o|]; [exfalso; exact (Hr o eq_refl)| |];
    destruct R as [R1 [q' [P1 [M [F1 _]]]]]; exists q'; repeat split; auto;
    rewrite <- (map_length sl_no q'), M; apply map_length.
Qed.

(* Drop of the pool, in any reachable state, whatever the device script: it terminates - within
   drop_measure rounds of its loop: the transfers pending + the cancellation latencies still to run +
   the failing event-handling calls still in the plan -, and when it has returned every pending
   transfer has been reaped, in submission order, and none was freed while in flight *)
Lemma pool_drop_terminates pl evs ops s out q : pool_run false (pinit pl evs) ops = Some (s, out, false) ->
  p_pool s = Some q ->
  pool_drop s q <> DHang /\
  (forall s', pool_drop s q = DRet s' ->
     p_pool s' = None /\ p_reaped s' = p_reaped s ++ map sl_no q /\ p_accepted s' = p_accepted s /\ p_freed s' = 0).
Proof.
  intros H Hq. pose proof (pool_pending_accepted _ _ _ _ _ H q Hq) as Ha.
  destruct (pool_drop_ok s q Hq Ha) as [D1 [D2 _]]. split; [exact D1|].
  intros s' E. destruct (D2 s' E) as [B1 [B2 [B3 [B4 _]]]].
  destruct (pool_run_inv _ _ _ _ (pinv_init pl evs) H) as [_ [_ Hz]]. repeat split; auto; congruence.
Qed.

Lemma pool_drop_rounds_bound pl evs ops s out q fuel : pool_run false (pinit pl evs) ops = Some (s, out, false) ->
  p_pool s = Some q ->
  let q' := fst (cancel_all q) in
  let s0 := add_notfound (set_pool s (Some q')) (snd (cancel_all q)) in
  (length q + lat_sum q + failures (p_evs s) < fuel)%nat -> drain fuel s0 q' = pool_drop s q.
Proof.
  intros H Hq q' s0 Hl. pose proof (pool_pending_accepted _ _ _ _ _ H q Hq) as Ha.
  apply pool_drop_bound; auto. fold q' s0. unfold drop_measure. subst s0. pf.
  assert (length q' = length q /\ lat_sum q' = lat_sum q) as [-> ->]; [|exact Hl].
  subst q'. clear. induction q as [|sl q [I1 I2]]; cbn [cancel_all fst length lat_sum]; [auto|].
  destruct (cancel1 sl) as [sl' n] eqn:E1. destruct (cancel_all q) as [r m]. cbn [fst length lat_sum] in *.
  split; [lia|]. rewrite I2. f_equal. unfold cancel1 in E1. unfold lat1.
  destruct (sl_st sl) eqn:Es; inversion E1; subst; pf; rewrite ?Es; reflexivity.
Qed.

Lemma pool_ops_terminate pl evs ops : pool_run false (pinit pl evs) ops <> None.
Proof. apply pool_run_total, pinv_init. Qed.

(* nothing is ever freed while libusb has it in flight, as long as no unreachable!() is hit *)
Lemma pool_never_frees_in_flight pl evs ops s out : pool_run false (pinit pl evs) ops = Some (s, out, false) ->
  p_freed s = 0.
Proof. intros H. exact (proj2 (proj2 (pool_run_inv _ _ _ _ (pinv_init pl evs) H))). Qed.

(* and none is hit when the device script stays within what libusb documents *)
Lemma pool_documented_codes_no_panic pl evs ops s out b : Forall plan_ok pl -> Forall ev_ok evs -> Forall op_ok ops ->
  pool_run false (pinit pl evs) ops = Some (s, out, b) ->
  b = false /\ forall q, p_pool s = Some q -> exists s', pool_drop s q = DRet s' /\ p_freed s' = 0.
Proof.
  intros Hp He Ho H.
  destruct (pool_run_sane _ _ _ _ _ (pinv_init pl evs) (sinv_init _ _ Hp He) Ho H) as [-> [S1 [S2 S3]]].
  split; [reflexivity|]. intros q Hq. pose proof (pool_pending_accepted _ _ _ _ _ H q Hq) as Ha.
  unfold pending_of in S3. rewrite Hq in S3.
  destruct (pool_drop_ok s q Hq Ha) as [_ [D2 D3]]. destruct (D3 S3 S2) as [s' Ed]. exists s'. split; [exact Ed|].
  destruct (D2 s' Ed) as [_ [_ [_ [B4 _]]]]. rewrite B4. eapply pool_never_frees_in_flight; eassumption.
Qed.

(* pushing onto `pending` before libusb accepted the transfer: one refused submission and the
   drop of the pool never returns *)
Lemma pool_push_first_wedges : pool_run true (pinit [PRefuse (-11)] []) [(1, 16); (5, 0)] = None.
Proof. vm_compute. reflexivity. Qed.

(* a clean-up that polls once per pending transfer instead of until the pool is empty: one
   interrupted event handling (or one slow cancellation) and a transfer is freed in flight, where
   the code's loop reaps it *)
Lemma pool_rounds_variant_interrupted :
  exists s q s1 s2, pool_run false (pinit [PAccept 0 8 1000000 0] [-10]) [(1, 16)] = Some (s, [0], false) /\
    p_pool s = Some q /\ pool_drop_rounds s q = DRet s1 /\ p_freed s1 = 1 /\
    pool_drop s q = DRet s2 /\ p_freed s2 = 0 /\ p_reaped s2 = [0].
Proof. do 4 eexists. vm_compute. repeat split; reflexivity. Qed.

Lemma pool_rounds_variant_slow_cancel :
  exists s q s1 s2, pool_run false (pinit [PAccept 0 8 1000000 2; PAccept 0 8 1000000 2] []) [(1, 16); (1, 16)] = Some (s, [0; 0], false) /\
    p_pool s = Some q /\ pool_drop_rounds s q = DRet s1 /\ p_freed s1 = 2 /\
    pool_drop s q = DRet s2 /\ p_freed s2 = 0 /\ p_reaped s2 = [0; 1].
Proof. do 4 eexists. vm_compute. repeat split; reflexivity. Qed.
