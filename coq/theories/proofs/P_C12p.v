(* Proofs about model/AsyncPool.v (C12: the AsyncPool bookkeeping of device/src/u3v/async_read.rs,
   with failing event handling, slow cancellations and other threads using libusb's events lock). *)
From Cam Require Import Outcome Bytes AsyncPool.

Definition accepted_by_libusb (sl : slot) : Prop := sl_st sl <> LUnknown.

(* cancelled or completed: event handling completes it once its cancellation latency has run out *)
Definition ready (sl : slot) : Prop :=
  match sl_st sl with LDone _ _ => True | LFlight _ _ _ _ true => True | _ => False end.

Definition pending_of (s : pstate) : list slot := match p_pool s with Some q => q | None => [] end.

Definition nums (k : nat) : list Z := map Z.of_nat (seq 0 k).

(* transfers in flight, as a natural number *)
Definition nfl1 (sl : slot) : nat := if is_flight sl then 1%nat else 0%nat.
Fixpoint nfl (q : list slot) : nat := match q with [] => O | sl :: r => (nfl1 sl + nfl r)%nat end.

(* what libusb documents: the transfer statuses handle_completed knows, the error codes
   from_libusb_error knows *)
Definition status_ok (st : Z) : Prop := st = 0 \/ st = 3 \/ st = 1 \/ st = 4 \/ st = 5 \/ st = 6.
Definition code_ok (c : Z) : Prop := err_class c <> None.
Definition ev_ok (c : Z) : Prop := c = 0 \/ code_ok c.
Definition plan_ok (p : plan) : Prop :=
  match p with PRefuse c => code_ok c | PAccept st _ _ _ => status_ok st end.
Definition slot_ok (sl : slot) : Prop :=
  match sl_st sl with LFlight st _ _ _ _ => status_ok st | LDone st _ => status_ok st | LUnknown => True end.
Definition op_ok (o : Z * Z) : Prop := fst o = 9 -> ev_ok (snd o).

(* the lock plan still to come *)
Definition lkp (s : pstate) : list lockent := lk_plan (p_lk s).

(* the rounds the clean-up loop of Drop can still take *)
Definition drop_measure (s : pstate) (q : list slot) : nat :=
  (length q + lat_sum q + failures (p_evs s) + actives (lkp s))%nat.

Ltac pf := cbn [p_plan p_evs p_epoch p_pool p_calls p_accepted p_refused p_completed p_notfound p_evcalls p_freed
                p_reaped p_lk sl_no sl_buf sl_st set_pool ev_call add_completed add_notfound next_epoch push_ev pop_front
                free_pool mkslot set_lk tick lk_tick lk_own lk_contended lk_logc lk_push
                lk_plan lk_clock lk_rounds lk_fail lk_waits lk_idle lk_log lkp andb negb] in *.

(* ---- the call log of the lock protocol ---------------------------------------------------------------

   newest call first.  Every libusb_wait_for_event call was made while an event handler was active and
   directly follows a libusb_event_handler_active call that answered 1. *)
Fixpoint log_ok (l : list lcall) : Prop :=
  match l with
  | [] => True
  | CWait a :: r => a = true /\ (exists r', r = CActive true :: r') /\ log_ok r
  | _ :: r => log_ok r
  end.

(* the same, said without the recursion: wherever a wait stands in the log *)
Definition waits_follow_active (l : list lcall) : Prop :=
  forall l1 a l2, l = l1 ++ CWait a :: l2 -> a = true /\ exists l3, l2 = CActive true :: l3.

Definition LInv (s : pstate) : Prop := lk_idle (p_lk s) = 0 /\ log_ok (lk_log (p_lk s)).

Lemma log_ok_spec l : log_ok l -> waits_follow_active l.
Proof.
  unfold waits_follow_active. intros H l1. revert l H. induction l1 as [|c l1 IH]; intros l H a l2 E; subst l.
  - cbn [app log_ok] in H. destruct H as [H1 [H2 _]]. auto.
  - cbn [app] in H. apply (IH (l1 ++ CWait a :: l2)); [|reflexivity].
    destruct c; cbn [log_ok] in H; try exact H. apply H.
Qed.

Lemma log_ok_no_idle_wait l : log_ok l -> ~ In (CWait false) l.
Proof.
  intros H Hi. apply in_split in Hi. destruct Hi as [l1 [l2 E]].
  destruct (log_ok_spec l H l1 false l2 E) as [X _]. discriminate.
Qed.

(* the event handler that a round of the plan leaves to this thread *)
Lemma lk_round_tl k :
  match lk_round k with
  | LkOwn => contended (tl (lk_plan k)) = contended (lk_plan k) /\ actives (tl (lk_plan k)) = actives (lk_plan k)
  | LkGone => S (contended (tl (lk_plan k))) = contended (lk_plan k) /\ actives (tl (lk_plan k)) = actives (lk_plan k)
  | LkActive _ => S (contended (tl (lk_plan k))) = contended (lk_plan k) /\ S (actives (tl (lk_plan k))) = actives (lk_plan k)
  end.
Proof. unfold lk_round, contended, actives. destruct (lk_plan k) as [|[| |n] r]; cbn; auto. Qed.

(* ---- event handling and cancellation keep the queue, its order and what libusb accepted ---------- *)

Lemma status_ok_completion st ln : status_ok st -> completion st ln <> None.
Proof. unfold status_ok, completion. intros [H|[H|[H|[H|[H|H]]]]]; subst; cbn; discriminate. Qed.

Lemma complete1_facts e sl : let sl' := fst (complete1 e sl) in let n := snd (complete1 e sl) in
  sl_no sl' = sl_no sl /\ (accepted_by_libusb sl -> accepted_by_libusb sl') /\ (ready sl -> ready sl') /\
  0 <= n /\ Z.of_nat (nfl1 sl') + n = Z.of_nat (nfl1 sl) /\ (lat1 sl' <= lat1 sl)%nat /\
  (slot_ok sl -> slot_ok sl') /\
  (ready sl -> n = 0 -> front_done [sl'] = false -> (lat1 sl' < lat1 sl)%nat).
Proof.
  unfold complete1, accepted_by_libusb, ready, nfl1, is_flight, lat1, slot_ok, front_done.
  destruct (sl_st sl) as [|st ln due cl c|st ln] eqn:E; cbn [fst snd].
  - rewrite E. repeat split; auto; try lia; try (intros []).
  - destruct c, cl; cbn [fst snd]; pf.
    + repeat split; auto; try lia; try discriminate. intros _; unfold status_ok; auto.
    + destruct (due <? e); cbn [fst snd]; pf; repeat split; auto; try lia; try discriminate.
    + destruct (due <? e); cbn [fst snd]; pf; rewrite ?E; repeat split; auto; try lia; try discriminate; try (intros []).
    + destruct (due <? e); cbn [fst snd]; pf; rewrite ?E; repeat split; auto; try lia; try discriminate; try (intros []).
  - rewrite E. repeat split; auto; try lia; try discriminate.
Qed.

Lemma events_facts e q : let q' := fst (events e q) in let n := snd (events e q) in
  map sl_no q' = map sl_no q /\ (Forall accepted_by_libusb q -> Forall accepted_by_libusb q') /\
  (Forall ready q -> Forall ready q') /\ 0 <= n /\ Z.of_nat (nfl q') + n = Z.of_nat (nfl q) /\
  (lat_sum q' <= lat_sum q)%nat /\ (Forall slot_ok q -> Forall slot_ok q') /\
  (Forall ready q -> n = 0 -> front_done q' = false -> q <> [] -> (lat_sum q' < lat_sum q)%nat).
Proof.
  induction q as [|sl q IH]; cbn [events fst snd map nfl lat_sum].
  - repeat split; auto; try lia. congruence.
  - pose proof (complete1_facts e sl) as Hc. destruct (complete1 e sl) as [sl' n]. destruct (events e q) as [q' m].
    cbn [fst snd map nfl lat_sum] in *.
    destruct Hc as [H1 [H2 [H3 [H4 [H5 [H6 [H7 H8]]]]]]]. destruct IH as [I1 [I2 [I3 [I4 [I5 [I6 [I7 _]]]]]]].
    split; [now rewrite H1, I1|]. split; [intros Hf; inversion Hf; subst; constructor; auto|].
    split; [intros Hf; inversion Hf; subst; constructor; auto|]. split; [lia|]. split; [lia|]. split; [lia|].
    split; [intros Hf; inversion Hf; subst; constructor; auto|].
    intros Hf Hn Hd _. inversion Hf; subst. assert (n = 0) by lia.
    assert (lat1 sl' < lat1 sl)%nat; [|lia]. apply H8; auto.
Qed.

Lemma cancel1_facts sl : let sl' := fst (cancel1 sl) in
  sl_no sl' = sl_no sl /\ (accepted_by_libusb sl -> accepted_by_libusb sl' /\ ready sl') /\ (slot_ok sl -> slot_ok sl').
Proof.
  unfold cancel1, accepted_by_libusb, ready, slot_ok. destruct (sl_st sl) as [|st ln due cl c|st ln] eqn:E; cbn [fst]; pf.
  - rewrite E. split; [reflexivity|]. split; auto; try (intros H; congruence).
  - split; [reflexivity|]. split; auto; try (intros _; split; [discriminate|exact I]).
  - rewrite E. split; [reflexivity|]. split; auto; try (intros _; split; [discriminate|exact I]).
Qed.

Lemma cancel_all_facts q : let q' := fst (cancel_all q) in
  map sl_no q' = map sl_no q /\ (Forall accepted_by_libusb q -> Forall accepted_by_libusb q' /\ Forall ready q') /\
  (Forall slot_ok q -> Forall slot_ok q').
Proof.
  induction q as [|sl q IH]; cbn [cancel_all fst map].
  - repeat split; auto.
  - pose proof (cancel1_facts sl) as Hc. destruct (cancel1 sl) as [sl' n]. destruct (cancel_all q) as [q' m].
    cbn [fst map] in *. destruct Hc as [H1 [H2 H3]]. destruct IH as [I1 [I2 I3]].
    split; [now rewrite H1, I1|]. split.
    + intros Hf. inversion Hf; subst.
      destruct (H2 H4) as [A1 A2]. destruct (I2 H5) as [B1 B2]. split; constructor; auto.
    + intros Hf. inversion Hf; subst. constructor; auto.
Qed.

Lemma nfl_le q : (nfl q <= length q)%nat.
Proof. induction q as [|sl q IH]; cbn [nfl length]; [lia|]. unfold nfl1. destruct (is_flight sl); lia. Qed.

Lemma failures_tl l : (failures (tl l) <= failures l)%nat.
Proof. destruct l as [|c r]; cbn [tl failures]; [lia|]. destruct (c =? 0); lia. Qed.

Lemma failures_tl_lt l : hd 0 l <> 0 -> (failures (tl l) < failures l)%nat.
Proof.
  destruct l as [|c r]; cbn [hd tl failures]; [congruence|]. intros H.
  destruct (Z.eqb_spec c 0); [congruence|lia].
Qed.

Lemma hd_in l : hd 0 l <> 0 -> In (hd 0 l) l.
Proof. destruct l; cbn [hd]; [congruence|]. intros _. now left. Qed.

Lemma Forall_tl {A} (P : A -> Prop) l : Forall P l -> Forall P (tl l).
Proof. intros H. destruct l; cbn [tl]; [constructor|]. now inversion H. Qed.

(* ---- poll_completed ----------------------------------------------------------------------------------- *)

(* what a wait leaves untouched *)
Definition core_eq (s s' : pstate) : Prop :=
  p_plan s' = p_plan s /\ p_epoch s' = p_epoch s /\ p_pool s' = p_pool s /\ p_accepted s' = p_accepted s /\
  p_reaped s' = p_reaped s /\ p_freed s' = p_freed s.

Lemma front_done_reap q : front_done q = true -> exists sl r out, q = sl :: r /\ reap sl = Some out.
Proof.
  unfold front_done. destruct q as [|sl r]; [discriminate|]. destruct (sl_st sl) as [| |st ln] eqn:E; try discriminate.
  intros _. exists sl, r. unfold reap. rewrite E. eauto.
Qed.

Lemma reap_none_front sl r : reap sl = None -> front_done (sl :: r) = false.
Proof. unfold reap, front_done. destruct (sl_st sl); auto. discriminate. Qed.

Lemma poll_wait_facts fuel : forall s q rem s' q' w, (nfl q + contended (lkp s) < fuel)%nat -> Forall accepted_by_libusb q ->
  poll_wait true fuel s q rem = (s', q', w) ->
  core_eq s s' /\ map sl_no q' = map sl_no q /\ Forall accepted_by_libusb q' /\ (Forall ready q -> Forall ready q') /\
  (lat_sum q' <= lat_sum q)%nat /\ (failures (p_evs s') <= failures (p_evs s))%nat /\
  (forall P : Z -> Prop, Forall P (p_evs s) -> Forall P (p_evs s')) /\ (Forall slot_ok q -> Forall slot_ok q') /\
  (actives (lkp s') <= actives (lkp s))%nat /\
  match w with
  | WDone => front_done q' = true
  | WTimeout => q <> [] -> Forall ready q -> 0 < rem ->
                (failures (p_evs s') < failures (p_evs s))%nat \/ (lat_sum q' < lat_sum q)%nat \/
                (actives (lkp s') < actives (lkp s))%nat
  | WErr c => (failures (p_evs s') < failures (p_evs s))%nat /\ In c (p_evs s) /\ c <> 0
  end.
Proof.
  induction fuel as [|f IH]; intros s q rem s' q' w Hn Ha H; [lia|].
  cbn [poll_wait] in H. destruct (Z.leb_spec rem 0) as [Hrem|Hrem].
  { inversion H; subst. unfold core_eq. repeat split; auto. intros; lia. }
  pose proof (lk_round_tl (p_lk s)) as Hrt. unfold lkp in *.
  destruct (lk_round (p_lk s)) as [| |n0] eqn:El.
  - (* this thread handles the events *)
    destruct Hrt as [Rc Ra]. pf.
    destruct (Z.eqb_spec (hd 0 (p_evs s)) 0) as [E0|E0].
    + pose proof (events_facts (p_epoch s) q) as He. destruct (events (p_epoch s) q) as [q1 n]. cbn [fst snd] in He.
      destruct He as [E1 [E2 [E3 [E4 [E5 [E6 [E7 E8]]]]]]].
      destruct (front_done q1) eqn:Ed.
      { inversion H; subst. unfold core_eq. pf. rewrite Ra. repeat split; auto; try apply failures_tl;
          try (intros ? ?; apply Forall_tl; assumption). }
      destruct (Z.eqb_spec n 0) as [N0|N0].
      { inversion H; subst. unfold core_eq. pf. rewrite Ra. repeat split; auto; try apply failures_tl;
          try (intros ? ?; apply Forall_tl; assumption);
          try (intros Hq Hr _; right; left; apply E8; auto). }
      assert (Hn1 : (nfl q1 + contended (lk_plan (p_lk (add_completed (ev_call (set_lk s (lk_own (p_lk s)))) n))) < f)%nat).
      { pf. rewrite Rc. lia. }
      destruct (IH _ _ _ _ _ _ Hn1 (E2 Ha) H) as [C [M [A [R [L [F [P [O [Ac W]]]]]]]]].
      unfold core_eq in *. pf. destruct C as [C1 [C2 [C3 [C4 [C5 C6]]]]].
      pose proof (failures_tl (p_evs s)) as Ft. rewrite Ra in *.
      split; [repeat split; congruence|]. split; [congruence|]. split; [exact A|]. split; [auto|]. split; [lia|].
      split; [lia|]. split; [intros P0 HP; apply P, Forall_tl, HP|]. split; [auto|]. split; [exact Ac|].
      destruct w.
      * exact W.
      * intros Hq Hr Hpos. assert (Hq1 : q1 <> []).
        { intros X; subst q1. destruct q; [congruence|discriminate]. }
        destruct (W Hq1 (E3 Hr) Hpos) as [X|[X|X]]; [left|right; left|right; right]; lia.
      * destruct W as [W1 [W2 W3]]. repeat split; auto; try lia.
        destruct (p_evs s); cbn [tl] in W2; [destruct W2|now right].
    + pose proof (failures_tl_lt _ E0) as Fl. pose proof (hd_in _ E0) as Hi.
      destruct (hd 0 (p_evs s) =? -7); inversion H; subst; unfold core_eq; pf; rewrite Ra;
        repeat split; auto; try lia; try (intros ? ?; apply Forall_tl; assumption).
  - (* the holder of the lock has left: next round *)
    destruct Hrt as [Rc Ra].
    assert (Hn1 : (nfl q + contended (lk_plan (p_lk (set_lk s (lk_contended (p_lk s) true false false)))) < f)%nat).
    { pf. lia. }
    destruct (IH _ _ _ _ _ _ Hn1 Ha H) as [C [M [A [R [L [F [P [O [Ac W]]]]]]]]].
    unfold core_eq in *. pf. rewrite Ra in *.
    split; [exact C|]. split; [exact M|]. split; [exact A|]. split; [exact R|]. split; [exact L|]. split; [exact F|].
    split; [exact P|]. split; [exact O|]. split; [exact Ac|]. exact W.
  - (* another thread handles the events *)
    destruct Hrt as [Rc Ra].
    destruct (Z.ltb_spec (Z.max 0 n0) rem) as [Hlt|Hge].
    + pose proof (events_facts (p_epoch s) q) as He. destruct (events (p_epoch s) q) as [q1 n]. cbn [fst snd] in He.
      destruct He as [E1 [E2 [E3 [E4 [E5 [E6 [E7 E8]]]]]]].
      destruct (front_done q1) eqn:Ed.
      { inversion H; subst. unfold core_eq. pf. repeat split; auto; lia. }
      match type of H with poll_wait true f ?s2 q1 _ = _ => assert (Hn1 : (nfl q1 + contended (lk_plan (p_lk s2)) < f)%nat) by (pf; lia) end.
      destruct (IH _ _ _ _ _ _ Hn1 (E2 Ha) H) as [C [M [A [R [L [F [P [O [Ac W]]]]]]]]].
      unfold core_eq in *. pf. destruct C as [C1 [C2 [C3 [C4 [C5 C6]]]]].
      split; [repeat split; congruence|]. split; [congruence|]. split; [exact A|]. split; [auto|]. split; [lia|].
      split; [lia|]. split; [exact P|]. split; [auto|]. split; [lia|].
      destruct w.
      * exact W.
      * intros _ _ _. right; right. lia.
      * exact W.
    + inversion H; subst. unfold core_eq. pf. repeat split; auto; try lia.
Qed.

(* the fuel `poll` gives to the wait is never used up: more fuel changes nothing *)
Lemma poll_wait_fuel fuel : forall fuel' s q rem, (nfl q + contended (lkp s) < fuel)%nat -> (nfl q + contended (lkp s) < fuel')%nat ->
  poll_wait true fuel s q rem = poll_wait true fuel' s q rem.
Proof.
  induction fuel as [|f IH]; intros fuel' s q rem H1 H2; [lia|]. destruct fuel' as [|f']; [lia|].
  cbn [poll_wait]. destruct (rem <=? 0); [reflexivity|].
  pose proof (lk_round_tl (p_lk s)) as Hrt. unfold lkp in *.
  destruct (lk_round (p_lk s)) as [| |n0] eqn:El; destruct Hrt as [Rc Ra].
  - pf. destruct (hd 0 (p_evs s) =? 0); [|reflexivity].
    pose proof (events_facts (p_epoch s) q) as He. destruct (events (p_epoch s) q) as [q1 n]. cbn [fst snd] in He.
    destruct He as [_ [_ [_ [E4 [E5 _]]]]].
    destruct (front_done q1); [reflexivity|]. destruct (Z.eqb_spec n 0); [reflexivity|]. apply IH; pf; lia.
  - apply IH; pf; lia.
  - destruct (Z.max 0 n0 <? rem); [|reflexivity].
    pose proof (events_facts (p_epoch s) q) as He. destruct (events (p_epoch s) q) as [q1 n]. cbn [fst snd] in He.
    destruct He as [_ [_ [_ [E4 [E5 _]]]]].
    destruct (front_done q1); [reflexivity|]. apply IH; pf; lia.
Qed.

(* the lock protocol: no round of the wait calls libusb_wait_for_event unless libusb_event_handler_active has just
   answered 1 *)
Lemma poll_wait_linv fuel : forall s q rem s' q' w, LInv s -> poll_wait true fuel s q rem = (s', q', w) -> LInv s'.
Proof.
  induction fuel as [|f IH]; intros s q rem s' q' w Hi H; cbn [poll_wait] in H; [inversion H; subst; exact Hi|].
  destruct (rem <=? 0); [inversion H; subst; exact Hi|].
  destruct Hi as [I1 I2].
  destruct (lk_round (p_lk s)) as [| |n0].
  - pf. destruct (hd 0 (p_evs s) =? 0).
    + destruct (events (p_epoch s) q) as [q1 n]. destruct (front_done q1); [inversion H; subst; split; pf; auto|].
      destruct (n =? 0); [inversion H; subst; split; pf; auto|].
      apply (IH _ _ _ _ _ _ (conj I1 I2 : LInv (add_completed (ev_call (set_lk s (lk_own (p_lk s)))) n)) H).
    + destruct (hd 0 (p_evs s) =? -7); inversion H; subst; split; pf; auto.
  - refine (IH _ _ _ _ _ _ _ H). split; pf; [lia|cbn [log_ok]; exact I2].
  - assert (Hl : LInv (set_lk s (lk_contended (p_lk s) true true true))).
    { split; pf; [lia|]. cbn [log_ok]. split; [reflexivity|]. split; [eexists; reflexivity|exact I2]. }
    destruct (Z.max 0 n0 <? rem); [|inversion H; subst; exact Hl].
    destruct (events (p_epoch s) q) as [q1 n]. destruct (front_done q1); [inversion H; subst; exact Hl|].
    refine (IH _ _ _ _ _ _ _ H). exact Hl.
Qed.

(* ---- poll ------------------------------------------------------------------------------------------ *)

Lemma reap_done sl st ln : sl_st sl = LDone st ln -> exists out, reap sl = Some out.
Proof. intros H. unfold reap. rewrite H. eauto. Qed.

Lemma reap_some sl out : reap sl = Some out -> exists st ln, sl_st sl = LDone st ln.
Proof. unfold reap. destruct (sl_st sl); try discriminate. eauto. Qed.

Lemma reap_ok sl out : slot_ok sl -> reap sl = Some out -> is_panic out = false.
Proof.
  unfold slot_ok, reap. destruct (sl_st sl) as [| |st ln]; try discriminate. intros Hs H. inversion H; subst.
  pose proof (status_ok_completion st ln Hs). destruct (completion st ln) as [[n|c]|]; [reflexivity|reflexivity|congruence].
Qed.

Lemma lat1_done sl out : reap sl = Some out -> lat1 sl = O.
Proof. unfold reap, lat1. destruct (sl_st sl); try discriminate. reflexivity. Qed.

(* poll either returns the completion of the FRONT transfer and removes exactly it, or fails (time-out,
   event-handling error, unreachable!()) and leaves the queue (numbers, order) as it is; a failing poll
   with a positive time-out on a queue of cancelled transfers uses up a failing event-handling call of
   the plan or a round of some cancellation latency *)
Lemma poll_facts ms s q s' r : poll true ms s q = (s', r) -> p_pool s = Some q -> Forall accepted_by_libusb q ->
  p_accepted s' = p_accepted s /\ p_plan s' = p_plan s /\ p_epoch s' = p_epoch s /\ p_freed s' = p_freed s /\
  (failures (p_evs s') <= failures (p_evs s))%nat /\ (forall P : Z -> Prop, Forall P (p_evs s) -> Forall P (p_evs s')) /\
  (actives (lkp s') <= actives (lkp s))%nat /\
  match r with
  | PReap out => exists sl rest, map sl_no q = sl_no sl :: map sl_no rest /\ p_pool s' = Some rest /\
                              p_reaped s' = p_reaped s ++ [sl_no sl] /\ Forall accepted_by_libusb rest /\
                              (Forall ready q -> Forall ready rest) /\ (lat_sum rest <= lat_sum q)%nat /\
                              (Forall slot_ok q -> Forall slot_ok rest /\ is_panic out = false)
  | PFail _ | PPanic =>
    p_reaped s' = p_reaped s /\
    exists q', p_pool s' = Some q' /\ map sl_no q' = map sl_no q /\ Forall accepted_by_libusb q' /\
               (Forall ready q -> Forall ready q') /\ (lat_sum q' <= lat_sum q)%nat /\
               (Forall slot_ok q -> Forall slot_ok q') /\
               (q <> [] -> Forall ready q -> 0 < ms ->
                (failures (p_evs s') < failures (p_evs s))%nat \/ (lat_sum q' < lat_sum q)%nat \/
                (actives (lkp s') < actives (lkp s))%nat) /\
               (r = PPanic -> q <> [] -> ~ Forall ev_ok (p_evs s))
  end.
Proof.
  intros H Hp Hf. unfold poll in H. destruct q as [|sl q].
  - inversion H; subst. repeat split; auto. exists []. repeat split; auto; congruence.
  - destruct (reap sl) as [out|] eqn:Er.
    + inversion H; subst. pf. repeat split; auto. exists sl, q. inversion Hf; subst.
      split; [reflexivity|]. split; [reflexivity|]. split; [reflexivity|]. split; [assumption|].
      split; [intros Hr; now inversion Hr|]. split; [cbn [lat_sum]; lia|].
      intros Ho. inversion Ho; subst. split; [assumption|]. eapply reap_ok; eassumption.
    + destruct (Z.leb_spec ms 0) as [Hms|Hms].
      { inversion H; subst. repeat split; auto. exists (sl :: q). repeat split; auto; try lia. discriminate. }
      destruct (poll_wait true (S (length (sl :: q) + contended (lk_plan (p_lk s)))) s (sl :: q) (ms * 1000)) as [[s1 q1] w] eqn:Ew.
      assert (Hl : (nfl (sl :: q) + contended (lkp s) < S (length (sl :: q) + contended (lk_plan (p_lk s))))%nat)
        by (pose proof (nfl_le (sl :: q)); unfold lkp; lia).
      destruct (poll_wait_facts _ _ _ _ _ _ _ Hl Hf Ew) as [C [M [A [R [L [F [P [O [Ac W]]]]]]]]].
      unfold core_eq in C. destruct C as [C1 [C2 [C3 [C4 [C5 C6]]]]].
      assert (Hq1 : exists sl1 r1, q1 = sl1 :: r1).
      { destruct q1 as [|a b]; [discriminate|eauto]. }
      destruct Hq1 as [sl1 [r1 ->]].
      destruct w as [| |code].
      * destruct (front_done_reap _ W) as [sl2 [r2 [out [Eq Ho]]]]. inversion Eq; subst sl2 r2. rewrite Ho in H.
        inversion H; subst. pf. repeat split; auto. exists sl1, r1. inversion A; subst.
        split; [symmetry; exact M|]. split; [reflexivity|]. split; [now rewrite C5|]. split; [assumption|].
        split; [intros Hr; specialize (R Hr); now inversion R|]. split; [cbn [lat_sum] in L |- *; lia|].
        intros Ho'. specialize (O Ho'). inversion O; subst. split; [assumption|]. eapply reap_ok; eassumption.
      * inversion H; subst. pf. repeat split; auto. exists (sl1 :: r1). repeat split; auto; [|discriminate].
        intros Hq Hr Hm. apply W; auto. lia.
      * destruct W as [W1 [W2 W3]].
        destruct (err_class code) as [c|] eqn:Ec; inversion H; subst; pf; repeat split; auto;
          exists (sl1 :: r1); repeat split; auto; try discriminate.
        intros _ _ Hev. rewrite Forall_forall in Hev. destruct (Hev _ W2) as [X|X]; [congruence|].
        unfold code_ok in X. congruence.
Qed.

(* ---- Drop ------------------------------------------------------------------------------------------ *)

(* one round of the clean-up loop on a non-empty queue of cancelled transfers: whatever the poll
   does, the queue stays a queue of accepted, cancelled transfers, nothing is lost
   (returned ++ pending is unchanged), and the measure drops *)
Lemma drain_step s q s' r : q <> [] -> Forall accepted_by_libusb q -> Forall ready q -> p_pool s = Some q ->
  poll true 1000 s q = (s', r) ->
  exists q', p_pool s' = Some q' /\ Forall accepted_by_libusb q' /\ Forall ready q' /\
    (drop_measure s' q' < drop_measure s q)%nat /\ p_accepted s' = p_accepted s /\ p_freed s' = p_freed s /\
    p_reaped s' ++ map sl_no q' = p_reaped s ++ map sl_no q /\
    p_plan s' = p_plan s /\ (forall P : Z -> Prop, Forall P (p_evs s) -> Forall P (p_evs s')) /\
    (Forall slot_ok q -> Forall ev_ok (p_evs s) ->
     Forall slot_ok q' /\ Forall ev_ok (p_evs s') /\ r <> PPanic /\ forall out, r = PReap out -> is_panic out = false).
Proof.
  intros Hq Ha Hr Hp H. destruct (poll_facts _ _ _ _ _ H Hp Ha) as [A1 [A2 [A3 [A4 [A5 [A6 [A7 R]]]]]]].
  unfold drop_measure. destruct r as [out|out|].
  - destruct R as [sl [rest [M [P1 [R1 [F1 [F2 [L O]]]]]]]]. exists rest.
    assert (Hlen : length q = S (length rest)).
    { rewrite <- (map_length sl_no q), M. cbn [length]. now rewrite map_length. }
    repeat split; auto; try lia.
    + rewrite R1, <- app_assoc, M. reflexivity.
    + apply O; assumption.
    + discriminate.
    + intros out0 E. inversion E; subst. apply O; assumption.
  - destruct R as [R1 [q' [P1 [M [F1 [F2 [L [O [D _]]]]]]]]]. exists q'.
    assert (Hlen : length q' = length q).
    { rewrite <- (map_length sl_no q'), M. now rewrite map_length. }
    specialize (D Hq Hr ltac:(lia)).
    repeat split; auto; try lia.
    + now rewrite R1, M.
    + discriminate.
    + discriminate.
  - destruct R as [R1 [q' [P1 [M [F1 [F2 [L [O [D X]]]]]]]]]. exists q'.
    assert (Hlen : length q' = length q).
    { rewrite <- (map_length sl_no q'), M. now rewrite map_length. }
    specialize (D Hq Hr ltac:(lia)).
    repeat split; auto; try lia.
    + now rewrite R1, M.
    + exfalso. apply (X eq_refl Hq). assumption.
    + discriminate.
Qed.

(* the clean-up loop: with fuel above the measure it never runs out of fuel; if it returns, every
   pending transfer has been reaped, in order, and nothing was freed in flight; with statuses and
   error codes libusb documents it returns *)
Lemma drain_ready fuel : forall s q, (drop_measure s q < fuel)%nat -> Forall accepted_by_libusb q -> Forall ready q ->
  p_pool s = Some q ->
  drain fuel s q <> DHang /\
  (forall s', drain fuel s q = DRet s' ->
     p_pool s' = None /\ p_reaped s' = p_reaped s ++ map sl_no q /\ p_accepted s' = p_accepted s /\ p_freed s' = p_freed s /\
     p_plan s' = p_plan s /\ (forall P : Z -> Prop, Forall P (p_evs s) -> Forall P (p_evs s'))) /\
  (Forall slot_ok q -> Forall ev_ok (p_evs s) -> exists s', drain fuel s q = DRet s').
Proof.
  induction fuel as [|f IH]; intros s q Hl Ha Hr Hp; [lia|].
  destruct q as [|sl q].
  - cbn [drain]. split; [discriminate|]. split.
    + intros s' E. inversion E; subst. pf. cbn [map]. rewrite app_nil_r. unfold in_flight. cbn. repeat split; auto; lia.
    + intros _ _. eauto.
  - cbn [drain]. destruct (poll true 1000 s (sl :: q)) as [s1 r] eqn:Epoll.
    assert (Hne : sl :: q <> []) by discriminate.
    destruct (drain_step _ _ _ _ Hne Ha Hr Hp Epoll) as [q' [P1 [F1 [F2 [D [A [Fr [Rp [Pl [Ev O]]]]]]]]]].
    assert (Hl' : (drop_measure s1 q' < f)%nat) by lia.
    destruct (IH s1 q' Hl' F1 F2 P1) as [I1 [I2 I3]].
    destruct r as [out|out|]; rewrite P1.
    + destruct (is_panic out) eqn:Ep.
      * split; [discriminate|]. split; [intros s' E; discriminate|].
        intros Ho He. destruct (O Ho He) as [_ [_ [_ X]]]. specialize (X out eq_refl). congruence.
      * split; [exact I1|]. split.
        -- intros s' E. destruct (I2 s' E) as [B1 [B2 [B3 [B4 [B5 B6]]]]]. repeat split; auto; congruence.
        -- intros Ho He. destruct (O Ho He) as [O1 [O2 _]]. apply I3; assumption.
    + split; [exact I1|]. split.
      * intros s' E. destruct (I2 s' E) as [B1 [B2 [B3 [B4 [B5 B6]]]]]. repeat split; auto; congruence.
      * intros Ho He. destruct (O Ho He) as [O1 [O2 _]]. apply I3; assumption.
    + split; [discriminate|]. split; [intros s' E; discriminate|].
      intros Ho He. destruct (O Ho He) as [_ [_ [X _]]]. congruence.
Qed.

(* more fuel than the measure changes nothing: the loop ends within `drop_measure` polls *)
Lemma drain_fuel fuel : forall fuel' s q, (drop_measure s q < fuel)%nat -> (drop_measure s q < fuel')%nat ->
  Forall accepted_by_libusb q -> Forall ready q -> p_pool s = Some q -> drain fuel s q = drain fuel' s q.
Proof.
  induction fuel as [|f IH]; intros fuel' s q H1 H2 Ha Hr Hp; [lia|]. destruct fuel' as [|f']; [lia|].
  destruct q as [|sl q]; [reflexivity|]. cbn [drain].
  destruct (poll true 1000 s (sl :: q)) as [s1 r] eqn:Epoll.
  assert (Hne : sl :: q <> []) by discriminate.
  destruct (drain_step _ _ _ _ Hne Ha Hr Hp Epoll) as [q' [P1 [F1 [F2 [D _]]]]].
  destruct r as [out|out|]; rewrite P1; [destruct (is_panic out); [reflexivity|]| |reflexivity]; apply IH; auto; lia.
Qed.

Lemma pool_drop_ok s q : p_pool s = Some q -> Forall accepted_by_libusb q ->
  pool_drop s q <> DHang /\
  (forall s', pool_drop s q = DRet s' ->
     p_pool s' = None /\ p_reaped s' = p_reaped s ++ map sl_no q /\ p_accepted s' = p_accepted s /\ p_freed s' = p_freed s /\
     p_plan s' = p_plan s /\ (forall P : Z -> Prop, Forall P (p_evs s) -> Forall P (p_evs s'))) /\
  (Forall slot_ok q -> Forall ev_ok (p_evs s) -> exists s', pool_drop s q = DRet s').
Proof.
  intros Hp Ha. unfold pool_drop. pose proof (cancel_all_facts q) as Hc.
  destruct (cancel_all q) as [q' n]. cbn [fst] in Hc. destruct Hc as [C1 [C2 C3]]. destruct (C2 Ha) as [A R].
  set (s0 := add_notfound (set_pool s (Some q')) n).
  assert (Hl : (drop_measure s0 q' < drop_fuel s0 q')%nat) by (unfold drop_measure, drop_fuel, lkp; lia).
  destruct (drain_ready _ s0 q' Hl A R eq_refl) as [D1 [D2 D3]].
  split; [exact D1|]. split.
  - intros s' E. destruct (D2 s' E) as [B1 [B2 [B3 [B4 [B5 B6]]]]]. subst s0. pf. rewrite C1 in B2. repeat split; auto.
  - intros Ho He. apply D3; [apply C3, Ho|exact He].
Qed.

(* Drop ends within drop_measure polls: any larger fuel gives the same result *)
Lemma pool_drop_bound s q fuel : p_pool s = Some q -> Forall accepted_by_libusb q ->
  let q' := fst (cancel_all q) in
  let s0 := add_notfound (set_pool s (Some q')) (snd (cancel_all q)) in
  (drop_measure s0 q' < fuel)%nat -> drain fuel s0 q' = pool_drop s q.
Proof.
  intros Hp Ha. unfold pool_drop. pose proof (cancel_all_facts q) as Hc.
  destruct (cancel_all q) as [q' n]. cbn [fst snd] in *. destruct Hc as [C1 [C2 C3]]. destruct (C2 Ha) as [A R].
  intros Hl. apply drain_fuel; auto; unfold drop_measure, drop_fuel, lkp; lia.
Qed.

(* ---- invariant over operation sequences ------------------------------------------------------------- *)

Definition PInv (s : pstate) : Prop :=
  Forall accepted_by_libusb (pending_of s) /\
  (exists k, p_accepted s = Z.of_nat k /\ p_reaped s ++ map sl_no (pending_of s) = nums k) /\
  p_freed s = 0.

(* everything the device script will still do is something libusb documents *)
Definition SInv (s : pstate) : Prop :=
  Forall plan_ok (p_plan s) /\ Forall ev_ok (p_evs s) /\ Forall slot_ok (pending_of s).

Definition panic_op (op : Z) (out : list Z) : bool := ((op =? 1) || (op =? 2) || (op =? 5)) && is_panic out.

Lemma nums_S k : nums (S k) = nums k ++ [Z.of_nat k].
Proof. unfold nums. rewrite seq_S, map_app. reflexivity. Qed.

Lemma pinv_init pl evs lks : PInv (pinit pl evs lks).
Proof. split; [constructor|]. split; [|reflexivity]. exists 0%nat. split; reflexivity. Qed.

Lemma sinv_init pl evs lks : Forall plan_ok pl -> Forall ev_ok evs -> SInv (pinit pl evs lks).
Proof. intros H1 H2. split; [exact H1|]. split; [exact H2|]. constructor. Qed.

Lemma pool_op_inv s op arg s' out : PInv s -> pool_op false s op arg = Some (s', out) -> panic_op op out = false ->
  PInv s'.
Proof.
  intros [Ha [[k [Hk Hn]] Hz]] H Hpan. unfold pool_op in H. unfold PInv, pending_of in *.
  destruct (op =? 9); [inversion H; subst; pf; split; [exact Ha|split; [exists k; auto|exact Hz]]|].
  destruct (op =? 10); [inversion H; subst; pf; split; [exact Ha|split; [exists k; auto|exact Hz]]|].
  destruct (p_pool s) as [q|] eqn:Ep.
  - destruct (op =? 1).
    { unfold submit in H. destruct (match p_plan s with [] => _ | x :: _ => x end) as [code|st ln d cl].
      - inversion H; subst. pf. split; [exact Ha|]. split; [exists k; auto|exact Hz].
      - inversion H; subst. pf. split; [|split; [|exact Hz]].
        + apply Forall_app. split; [exact Ha|]. constructor; [|constructor]. unfold accepted_by_libusb. pf. discriminate.
        + exists (S k). split; [lia|]. rewrite map_app, app_assoc, Hn, nums_S. cbn [map sl_no]. now rewrite Hk. }
    destruct (op =? 2).
    { destruct q as [|sl q]; [inversion H; subst; rewrite Ep; split; [exact Ha|split; [exists k; auto|exact Hz]]|].
      destruct (poll true arg (next_epoch s) (sl :: q)) as [s2 r] eqn:Epoll.
      assert (Hp2 : p_pool (next_epoch s) = Some (sl :: q)) by exact Ep.
      destruct (poll_facts _ _ _ _ _ Epoll Hp2 Ha) as [A1 [_ [_ [A4 [_ [_ [_ R]]]]]]]. pf.
      assert (Hall : PInv s2).
      { unfold PInv, pending_of. destruct r as [o|o|].
        - destruct R as [sl0 [rest [M [P1 [R1 [F1 _]]]]]]. rewrite P1. split; [exact F1|]. split; [|congruence].
          exists k. split; [congruence|]. rewrite R1, <- app_assoc. cbn [app]. rewrite <- M. exact Hn.
        - destruct R as [R1 [q' [P1 [M [F1 _]]]]]. rewrite P1. split; [exact F1|]. split; [|congruence].
          exists k. split; [congruence|]. rewrite R1, M. exact Hn.
        - destruct R as [R1 [q' [P1 [M [F1 _]]]]]. rewrite P1. split; [exact F1|]. split; [|congruence].
          exists k. split; [congruence|]. rewrite R1, M. exact Hn. }
      unfold PInv, pending_of in Hall.
      destruct r as [o|o|]; inversion H; subst; exact Hall. }
    destruct (op =? 3); [inversion H; subst; rewrite Ep; split; [exact Ha|split; [exists k; auto|exact Hz]]|].
    destruct (op =? 4).
    { pose proof (cancel_all_facts q) as Hc. destruct (cancel_all q) as [q' n]. cbn [fst] in Hc.
      destruct Hc as [C1 [C2 _]]. inversion H; subst. pf. split; [apply C2, Ha|]. split; [|exact Hz]. exists k. rewrite C1. auto. }
    destruct (op =? 5) eqn:E5.
    { destruct (pool_drop_ok s q Ep Ha) as [D1 [D2 _]]. destruct (pool_drop s q) as [s1|s1|] eqn:Ed; [| |congruence].
      - destruct (D2 s1 eq_refl) as [B1 [B2 [B3 [B4 _]]]]. inversion H; subst.
        rewrite B1. split; [constructor|]. split; [|congruence]. exists k. split; [congruence|].
        rewrite B2. cbn [map]. now rewrite app_nil_r.
      - inversion H; subst. unfold panic_op in Hpan. rewrite E5 in Hpan.
        rewrite Bool.orb_true_r in Hpan. discriminate. }
    destruct (op =? 6); [inversion H; subst; rewrite Ep; split; [exact Ha|split; [exists k; auto|exact Hz]]|].
    destruct (op =? 7); inversion H; subst; rewrite Ep; (split; [exact Ha|split; [exists k; auto|exact Hz]]).
  - destruct (op =? 6).
    { inversion H; subst. pf. split; [constructor|]. split; [exists k; auto|exact Hz]. }
    destruct ((op =? 3) || (op =? 7)); inversion H; subst; rewrite Ep; (split; [exact Ha|split; [exists k; auto|exact Hz]]).
Qed.

Lemma pool_op_total s op arg : PInv s -> pool_op false s op arg <> None.
Proof.
  intros [Ha _] H. unfold pool_op, pending_of in *. destruct (op =? 9); [discriminate|]. destruct (op =? 10); [discriminate|].
  destruct (p_pool s) as [q|] eqn:Ep.
  - destruct (op =? 1); [discriminate|]. destruct (op =? 2).
    { destruct q; [discriminate|]. destruct (poll _ _) as [s2 [o|o|]]; discriminate. }
    destruct (op =? 3); [discriminate|]. destruct (op =? 4); [destruct (cancel_all q); discriminate|].
    destruct (op =? 5).
    { destruct (pool_drop_ok s q Ep Ha) as [D1 _]. destruct (pool_drop s q); [discriminate|discriminate|congruence]. }
    destruct (op =? 6); [discriminate|]. destruct (op =? 7); discriminate.
  - destruct (op =? 6); [discriminate|]. destruct ((op =? 3) || (op =? 7)); discriminate.
Qed.

Lemma is_panic_long a b r : is_panic (a :: b :: r) = false.
Proof. unfold is_panic. destruct a as [|p|p]; auto. destruct p as [p|p|]; auto. destruct p; auto. Qed.

Lemma reap_out sl out : reap sl = Some out -> is_panic out = false -> exists a b r, out = a :: b :: r.
Proof.
  unfold reap. destruct (sl_st sl) as [| |st ln]; try discriminate. intros H. inversion H; subst.
  destruct (completion st ln) as [[n|c]|]; eauto. discriminate.
Qed.

Lemma poll_out rc ms s q s' r : poll rc ms s q = (s', r) ->
  match r with
  | PReap out => is_panic out = false -> exists a b r, out = a :: b :: r
  | PFail out => exists a b r, out = a :: b :: r
  | PPanic => True
  end.
Proof.
  unfold poll. destruct q as [|sl q]; [intros H; inversion H; subst; exact I|].
  destruct (reap sl) as [out|] eqn:Er; [intros H; inversion H; subst; eapply reap_out; eassumption|].
  destruct (ms <=? 0); [intros H; inversion H; subst; eauto|].
  destruct (poll_wait rc _ s (sl :: q) _) as [[s1 q1] w].
  destruct w as [| |code].
  - destruct q1 as [|sl1 r1]; [intros H; inversion H; subst; eauto|].
    destruct (reap sl1) as [out|] eqn:Er1; intros H; inversion H; subst; [eapply reap_out; eassumption|eauto].
  - intros H; inversion H; subst; eauto.
  - destruct (err_class code); intros H; inversion H; subst; [eauto|exact I].
Qed.

(* with statuses and error codes libusb documents nothing panics and that stays so *)
Lemma pool_op_sane s op arg s' out : PInv s -> SInv s -> op_ok (op, arg) ->
  pool_op false s op arg = Some (s', out) -> SInv s' /\ panic_op op out = false.
Proof.
  intros [Ha _] [Sp [Se So]] Hop H. unfold pool_op in H. unfold SInv, pending_of, panic_op in *.
  destruct (Z.eqb_spec op 9) as [E9|E9].
  { inversion H; subst. pf. split; [|reflexivity]. split; [exact Sp|]. split; [|exact So].
    apply Forall_app. split; [exact Se|]. constructor; [|constructor]. exact (Hop eq_refl). }
  destruct (Z.eqb_spec op 10) as [E10|E10].
  { inversion H; subst. pf. split; [|reflexivity]. split; [exact Sp|]. split; [exact Se|exact So]. }
  destruct (p_pool s) as [q|] eqn:Ep.
  - destruct (Z.eqb_spec op 1) as [E1|E1].
    { subst op. cbn [Z.eqb Pos.eqb orb andb]. unfold submit in H.
      assert (Hpl : plan_ok (match p_plan s with [] => PAccept 0 arg 0 0 | x :: _ => x end)).
      { destruct (p_plan s); [cbn; unfold status_ok; auto|now inversion Sp]. }
      destruct (match p_plan s with [] => _ | x :: _ => x end) as [code|st ln d cl].
      - inversion H; subst. pf. split; [split; [apply Forall_tl, Sp|split; [exact Se|exact So]]|].
        cbn [plan_ok] in Hpl. unfold code_ok in Hpl. destruct (err_class code); [reflexivity|congruence].
      - inversion H; subst. pf. split; [|reflexivity]. split; [apply Forall_tl, Sp|]. split; [exact Se|].
        apply Forall_app. split; [exact So|]. constructor; [|constructor]. unfold slot_ok. pf. exact Hpl. }
    destruct (Z.eqb_spec op 2) as [E2|E2].
    { subst op. cbn [Z.eqb Pos.eqb orb andb].
      destruct q as [|sl q]; [inversion H; subst; rewrite Ep; split; [auto|reflexivity]|].
      destruct (poll true arg (next_epoch s) (sl :: q)) as [s2 r] eqn:Epoll.
      assert (Hp2 : p_pool (next_epoch s) = Some (sl :: q)) by exact Ep.
      destruct (poll_facts _ _ _ _ _ Epoll Hp2 Ha) as [_ [A2 [_ [_ [_ [A6 [_ R]]]]]]]. pf.
      pose proof (poll_out _ _ _ _ _ _ Epoll) as Hout.
      destruct r as [o|o|].
      - destruct R as [sl0 [rest [_ [P1 [_ [_ [_ [_ O]]]]]]]]. destruct (O So) as [O1 O2]. rewrite O2 in H.
        inversion H; subst. rewrite P1. split; [split; [congruence|split; [apply A6, Se|exact O1]]|].
        destruct (Hout O2) as [a [b [r0 ->]]]. cbn [app]. apply is_panic_long.
      - destruct R as [_ [q' [P1 [_ [_ [_ [_ [O _]]]]]]]]. inversion H; subst. rewrite P1.
        split; [split; [congruence|split; [apply A6, Se|exact (O So)]]|].
        destruct Hout as [a [b [r0 ->]]]. cbn [app]. apply is_panic_long.
      - destruct R as [_ [q' [_ [_ [_ [_ [_ [_ [_ X]]]]]]]]]. exfalso. apply (X eq_refl); [discriminate|exact Se]. }
    destruct (Z.eqb_spec op 5) as [E5|E5].
    { subst op. cbn [Z.eqb Pos.eqb orb andb] in *.
      destruct (pool_drop_ok s q Ep Ha) as [_ [D2 D3]]. destruct (D3 So Se) as [s1 Ed]. rewrite Ed in H.
      destruct (D2 s1 Ed) as [B1 [_ [_ [_ [B5 B6]]]]]. inversion H; subst. rewrite B1.
      split; [split; [congruence|split; [apply B6, Se|constructor]]|reflexivity]. }
    replace ((op =? 1) || (op =? 2) || (op =? 5)) with false
      by (destruct (Z.eqb_spec op 1), (Z.eqb_spec op 2), (Z.eqb_spec op 5); try congruence; reflexivity).
    cbn [andb]. split; [|reflexivity].
    destruct (op =? 3); [inversion H; subst; rewrite Ep; auto|].
    destruct (op =? 4).
    { pose proof (cancel_all_facts q) as Hc. destruct (cancel_all q) as [q' n]. cbn [fst] in Hc.
      destruct Hc as [_ [_ C3]]. inversion H; subst. pf. auto. }
    destruct (op =? 6); [inversion H; subst; rewrite Ep; auto|].
    destruct (op =? 7); inversion H; subst; rewrite Ep; auto.
  - assert (Hs : SInv s') ; [|split; [exact Hs|]].
    { unfold SInv, pending_of. destruct (op =? 6); [inversion H; subst; pf; auto|].
      destruct ((op =? 3) || (op =? 7)); inversion H; subst; rewrite Ep; auto. }
    destruct (op =? 6); [inversion H; subst; apply Bool.andb_false_r|].
    destruct (Z.eqb_spec op 3) as [E3|E3]; [subst; reflexivity|].
    destruct (Z.eqb_spec op 7) as [E7|E7]; [subst; reflexivity|].
    cbn [orb] in H. inversion H; subst. apply Bool.andb_false_r.
Qed.

Lemma pool_run_inv ops : forall s s' out, PInv s -> pool_run false s ops = Some (s', out, false) -> PInv s'.
Proof.
  induction ops as [|[op arg] ops IH]; intros s s' out Hi H; cbn [pool_run] in H.
  - inversion H; subst; exact Hi.
  - destruct (pool_op false s op arg) as [[s1 o1]|] eqn:E; [|discriminate].
    destruct (((op =? 1) || (op =? 2) || (op =? 5)) && is_panic o1) eqn:Ep; [discriminate|].
    pose proof (pool_op_inv _ _ _ _ _ Hi E Ep) as Hi1.
    destruct (pool_run false s1 ops) as [[[s2 o2] b2]|] eqn:E2; [|discriminate].
    inversion H; subst. eapply IH; eassumption.
Qed.

Lemma pool_run_total ops : forall s, PInv s -> pool_run false s ops <> None.
Proof.
  induction ops as [|[op arg] ops IH]; intros s Hi; cbn [pool_run]; [discriminate|].
  destruct (pool_op false s op arg) as [[s1 o1]|] eqn:E; [|exfalso; exact (pool_op_total _ _ _ Hi E)].
  destruct (((op =? 1) || (op =? 2) || (op =? 5)) && is_panic o1) eqn:Ep; [discriminate|].
  pose proof (IH s1 (pool_op_inv _ _ _ _ _ Hi E Ep)) as Hn.
  destruct (pool_run false s1 ops) as [[[s2 o2] b2]|]; [discriminate|congruence].
Qed.

Lemma pool_run_sane ops : forall s s' out b, PInv s -> SInv s -> Forall op_ok ops ->
  pool_run false s ops = Some (s', out, b) -> b = false /\ SInv s'.
Proof.
  induction ops as [|[op arg] ops IH]; intros s s' out b Hi Hs Ho H; cbn [pool_run] in H.
  - inversion H; subst. auto.
  - inversion Ho; subst.
    destruct (pool_op false s op arg) as [[s1 o1]|] eqn:E; [|discriminate].
    destruct (pool_op_sane _ _ _ _ _ Hi Hs H2 E) as [Hs1 Hp]. unfold panic_op in Hp. rewrite Hp in H.
    pose proof (pool_op_inv _ _ _ _ _ Hi E Hp) as Hi1.
    destruct (pool_run false s1 ops) as [[[s2 o2] b2]|] eqn:E2; [|discriminate].
    inversion H; subst. eapply IH; eassumption.
Qed.

(* ---- statements -------------------------------------------------------------------------------------- *)

Lemma pool_pending_accepted pl evs lks ops s out : pool_run false (pinit pl evs lks) ops = Some (s, out, false) ->
  forall q, p_pool s = Some q -> Forall accepted_by_libusb q.
Proof.
  intros H q Hq. destruct (pool_run_inv _ _ _ _ (pinv_init pl evs lks) H) as [Ha _].
  unfold pending_of in Ha. now rewrite Hq in Ha.
Qed.

Lemma pool_poll_fifo pl evs lks ops s out : pool_run false (pinit pl evs lks) ops = Some (s, out, false) ->
  exists k, p_accepted s = Z.of_nat k /\ p_reaped s ++ map sl_no (pending_of s) = nums k.
Proof. intros H. exact (proj1 (proj2 (pool_run_inv _ _ _ _ (pinv_init pl evs lks) H))). Qed.

Lemma pool_refused_submit_unchanged s q len code rest : p_plan s = PRefuse code :: rest ->
  let '(s', out) := submit false s q len in
  p_pool s' = Some q /\ p_accepted s' = p_accepted s /\ p_reaped s' = p_reaped s /\
  p_completed s' = p_completed s /\ p_refused s' = p_refused s + 1 /\ p_freed s' = p_freed s /\
  out = match err_class code with Some c => [1; c] | None => [2] end.
Proof. intros H. unfold submit. rewrite H. cbn [tl]. pf. repeat split; auto. Qed.

(* a poll that does not return a completion - time-out, failing event handling, even the
   unreachable!() on an unknown code - pops nothing and loses nothing *)
Lemma pool_failed_poll_keeps_pending pl evs lks ops s out q ms s' r :
  pool_run false (pinit pl evs lks) ops = Some (s, out, false) -> p_pool s = Some q ->
  poll true ms s q = (s', r) -> (forall o, r <> PReap o) ->
  exists q', p_pool s' = Some q' /\ map sl_no q' = map sl_no q /\ length q' = length q /\
             Forall accepted_by_libusb q' /\ p_reaped s' = p_reaped s /\ p_freed s' = p_freed s.
Proof.
  intros H Hq Hpoll Hr. pose proof (pool_pending_accepted _ _ _ _ _ _ H q Hq) as Ha.
  destruct (poll_facts _ _ _ _ _ Hpoll Hq Ha) as [_ [_ [_ [A4 [_ [_ [_ R]]]]]]].
  destruct r as [o|o|]; [exfalso; exact (Hr o eq_refl)| |];
    destruct R as [R1 [q' [P1 [M [F1 _]]]]]; exists q'; repeat split; auto;
    rewrite <- (map_length sl_no q'), M; apply map_length.
Qed.

(* Drop of the pool, in any reachable state, whatever the device script: it terminates - within
   drop_measure rounds of its loop: the transfers pending + the cancellation latencies still to run +
   the failing event-handling calls still in the plan -, and when it has returned every pending
   transfer has been reaped, in submission order, and none was freed while in flight *)
Lemma pool_drop_terminates pl evs lks ops s out q : pool_run false (pinit pl evs lks) ops = Some (s, out, false) ->
  p_pool s = Some q ->
  pool_drop s q <> DHang /\
  (forall s', pool_drop s q = DRet s' ->
     p_pool s' = None /\ p_reaped s' = p_reaped s ++ map sl_no q /\ p_accepted s' = p_accepted s /\ p_freed s' = 0).
Proof.
  intros H Hq. pose proof (pool_pending_accepted _ _ _ _ _ _ H q Hq) as Ha.
  destruct (pool_drop_ok s q Hq Ha) as [D1 [D2 _]]. split; [exact D1|].
  intros s' E. destruct (D2 s' E) as [B1 [B2 [B3 [B4 _]]]].
  destruct (pool_run_inv _ _ _ _ (pinv_init pl evs lks) H) as [_ [_ Hz]]. repeat split; auto; congruence.
Qed.

Lemma pool_drop_rounds_bound pl evs lks ops s out q fuel : pool_run false (pinit pl evs lks) ops = Some (s, out, false) ->
  p_pool s = Some q ->
  let q' := fst (cancel_all q) in
  let s0 := add_notfound (set_pool s (Some q')) (snd (cancel_all q)) in
  (length q + lat_sum q + failures (p_evs s) + actives (lk_plan (p_lk s)) < fuel)%nat -> drain fuel s0 q' = pool_drop s q.
Proof.
  intros H Hq q' s0 Hl. pose proof (pool_pending_accepted _ _ _ _ _ _ H q Hq) as Ha.
  apply pool_drop_bound; auto. fold q' s0. unfold drop_measure. subst s0. pf.
  assert (length q' = length q /\ lat_sum q' = lat_sum q) as [-> ->]; [|exact Hl].
  subst q'. clear. induction q as [|sl q [I1 I2]]; cbn [cancel_all fst length lat_sum]; [auto|].
  destruct (cancel1 sl) as [sl' n] eqn:E1. destruct (cancel_all q) as [r m]. cbn [fst length lat_sum] in *.
  split; [lia|]. rewrite I2. f_equal. unfold cancel1 in E1. unfold lat1.
  destruct (sl_st sl) eqn:Es; inversion E1; subst; pf; rewrite ?Es; reflexivity.
Qed.

Lemma pool_ops_terminate pl evs lks ops : pool_run false (pinit pl evs lks) ops <> None.
Proof. apply pool_run_total, pinv_init. Qed.

(* nothing is ever freed while libusb has it in flight, as long as no unreachable!() is hit *)
Lemma pool_never_frees_in_flight pl evs lks ops s out : pool_run false (pinit pl evs lks) ops = Some (s, out, false) ->
  p_freed s = 0.
Proof. intros H. exact (proj2 (proj2 (pool_run_inv _ _ _ _ (pinv_init pl evs lks) H))). Qed.

(* and none is hit when the device script stays within what libusb documents *)
Lemma pool_documented_codes_no_panic pl evs lks ops s out b : Forall plan_ok pl -> Forall ev_ok evs -> Forall op_ok ops ->
  pool_run false (pinit pl evs lks) ops = Some (s, out, b) ->
  b = false /\ forall q, p_pool s = Some q -> exists s', pool_drop s q = DRet s' /\ p_freed s' = 0.
Proof.
  intros Hp He Ho H.
  destruct (pool_run_sane _ _ _ _ _ (pinv_init pl evs lks) (sinv_init _ _ lks Hp He) Ho H) as [-> [S1 [S2 S3]]].
  split; [reflexivity|]. intros q Hq. pose proof (pool_pending_accepted _ _ _ _ _ _ H q Hq) as Ha.
  unfold pending_of in S3. rewrite Hq in S3.
  destruct (pool_drop_ok s q Hq Ha) as [_ [D2 D3]]. destruct (D3 S3 S2) as [s' Ed]. exists s'. split; [exact Ed|].
  destruct (D2 s' Ed) as [_ [_ [_ [B4 _]]]]. rewrite B4. eapply pool_never_frees_in_flight; eassumption.
Qed.

(* pushing onto `pending` before libusb accepted the transfer: one refused submission and the
   drop of the pool never returns *)
Lemma pool_push_first_wedges : pool_run true (pinit [PRefuse (-11)] [] []) [(1, 16); (5, 0)] = None.
Proof. vm_compute. reflexivity. Qed.

(* a clean-up that polls once per pending transfer instead of until the pool is empty: one
   interrupted event handling (or one slow cancellation) and a transfer is freed in flight, where
   the code's loop reaps it *)
Lemma pool_rounds_variant_interrupted :
  exists s q s1 s2, pool_run false (pinit [PAccept 0 8 1000000 0] [-10] []) [(1, 16)] = Some (s, [0], false) /\
    p_pool s = Some q /\ pool_drop_rounds s q = DRet s1 /\ p_freed s1 = 1 /\
    pool_drop s q = DRet s2 /\ p_freed s2 = 0 /\ p_reaped s2 = [0].
Proof. do 4 eexists. repeat (split; [vm_compute; reflexivity|]). vm_compute; reflexivity. Qed.

Lemma pool_rounds_variant_slow_cancel :
  exists s q s1 s2, pool_run false (pinit [PAccept 0 8 1000000 2; PAccept 0 8 1000000 2] [] []) [(1, 16); (1, 16)] = Some (s, [0; 0], false) /\
    p_pool s = Some q /\ pool_drop_rounds s q = DRet s1 /\ p_freed s1 = 2 /\
    pool_drop s q = DRet s2 /\ p_freed s2 = 0 /\ p_reaped s2 = [0; 1].
Proof. do 4 eexists. repeat (split; [vm_compute; reflexivity|]). vm_compute; reflexivity. Qed.

(* ---- the events lock ------------------------------------------------------------------------------------ *)

Lemma poll_linv ms s q s' r : LInv s -> poll true ms s q = (s', r) -> LInv s'.
Proof.
  intros Hi H. unfold poll in H. destruct q as [|sl q]; [inversion H; subst; exact Hi|].
  destruct (reap sl); [inversion H; subst; exact Hi|]. destruct (ms <=? 0); [inversion H; subst; exact Hi|].
  destruct (poll_wait true _ s (sl :: q) (ms * 1000)) as [[s1 q1] w] eqn:Ew.
  pose proof (poll_wait_linv _ _ _ _ _ _ _ Hi Ew) as H1.
  destruct w as [| |code].
  - destruct q1 as [|sl1 r1]; [inversion H; subst; exact H1|]. destruct (reap sl1); inversion H; subst; exact H1.
  - inversion H; subst; exact H1.
  - destruct (err_class code); inversion H; subst; exact H1.
Qed.

Lemma drain_linv fuel : forall s q s', LInv s -> (drain fuel s q = DRet s' \/ drain fuel s q = DPanic s') -> LInv s'.
Proof.
  induction fuel as [|f IH]; intros s q s' Hi H.
  - destruct q; cbn [drain] in H; destruct H as [H|H]; try discriminate. inversion H; subst. exact Hi.
  - destruct q as [|sl q]; [cbn [drain] in H; destruct H as [H|H]; try discriminate; inversion H; subst; exact Hi|].
    cbn [drain] in H. destruct (poll true 1000 s (sl :: q)) as [s1 r] eqn:Ep.
    pose proof (poll_linv _ _ _ _ _ Hi Ep) as H1.
    destruct r as [out|out|]; destruct (p_pool s1) as [q1|]; try (destruct H; discriminate).
    + destruct (is_panic out); [destruct H as [H|H]; [discriminate|inversion H; subst; exact H1]|].
      exact (IH _ _ _ H1 H).
    + exact (IH _ _ _ H1 H).
    + destruct H as [H|H]; [discriminate|inversion H; subst; exact H1].
Qed.

Lemma pool_op_linv pf0 s op arg s' out : LInv s -> pool_op pf0 s op arg = Some (s', out) -> LInv s'.
Proof.
  intros Hi H. unfold pool_op in H.
  destruct (op =? 9); [inversion H; subst; exact Hi|]. destruct (op =? 10); [inversion H; subst; exact Hi|].
  destruct (p_pool s) as [q|].
  - destruct (op =? 1).
    { unfold submit in H. destruct (match p_plan s with [] => _ | x :: _ => x end); inversion H; subst; exact Hi. }
    destruct (op =? 2).
    { destruct q as [|sl q]; [inversion H; subst; exact Hi|].
      destruct (poll true arg (next_epoch s) (sl :: q)) as [s2 r] eqn:Ep.
      pose proof (poll_linv _ _ _ _ _ (Hi : LInv (next_epoch s)) Ep) as H1.
      destruct r; inversion H; subst; exact H1. }
    destruct (op =? 3); [inversion H; subst; exact Hi|].
    destruct (op =? 4); [destruct (cancel_all q); inversion H; subst; exact Hi|].
    destruct (op =? 5).
    { unfold pool_drop in H. destruct (cancel_all q) as [q1 n].
      match type of H with match drain ?f ?s0 q1 with _ => _ end = _ =>
        pose proof (fun s2 => drain_linv f s0 q1 s2 Hi) as Hd; destruct (drain f s0 q1) as [s2|s2|] end;
        inversion H; subst; apply Hd; auto. }
    destruct (op =? 6); [inversion H; subst; exact Hi|]. destruct (op =? 7); inversion H; subst; exact Hi.
  - destruct (op =? 6); [inversion H; subst; exact Hi|]. destruct ((op =? 3) || (op =? 7)); inversion H; subst; exact Hi.
Qed.

Lemma pool_run_linv pf0 ops : forall s s' out b, LInv s -> pool_run pf0 s ops = Some (s', out, b) -> LInv s'.
Proof.
  induction ops as [|[op arg] ops IH]; intros s s' out b Hi H; cbn [pool_run] in H; [inversion H; subst; exact Hi|].
  destruct (pool_op pf0 s op arg) as [[s1 o1]|] eqn:E; [|discriminate].
  pose proof (pool_op_linv _ _ _ _ _ _ Hi E) as H1.
  destruct (((op =? 1) || (op =? 2) || (op =? 5)) && is_panic o1); [inversion H; subst; exact H1|].
  destruct (pool_run pf0 s1 ops) as [[[s2 o2] b2]|] eqn:E2; [|discriminate]. inversion H; subst. eapply IH; eassumption.
Qed.

(* (a) whatever the other threads do with the events lock: poll_completed never waits for an event while no event
   handler is active - in the call log every libusb_wait_for_event directly follows a libusb_event_handler_active
   that answered 1 *)
Lemma pool_waits_only_for_active_handler pl evs lks ops s out b : pool_run false (pinit pl evs lks) ops = Some (s, out, b) ->
  lk_idle (p_lk s) = 0 /\ ~ In (CWait false) (lk_log (p_lk s)) /\ waits_follow_active (lk_log (p_lk s)).
Proof.
  intros H. assert (Hi : LInv (pinit pl evs lks)) by (split; [reflexivity|exact I]).
  destruct (pool_run_linv _ _ _ _ _ _ Hi H) as [H1 H2]. split; [exact H1|]. split; [apply log_ok_no_idle_wait, H2|apply log_ok_spec, H2].
Qed.

(* (b) a front transfer that is due is returned *)

(* the transfer completes at the next event handling *)
Definition due_at (epoch : Z) (sl : slot) : Prop :=
  match sl_st sl with
  | LFlight _ _ due clat cancel => due < epoch \/ (cancel = true /\ clat = O)
  | LDone _ _ => True
  | LUnknown => False
  end.

(* the rounds of a poll with `rem` microseconds to go, as long as nothing completes: rounds in which the holder of the
   lock has left cost nothing; the first other round handles events if it is this thread's and the event handling
   succeeds, or if another thread handles events before the time is up *)
Fixpoint handles (lks : list lockent) (evs : list Z) (rem : Z) : bool :=
  match lks with
  | [] => (0 <? rem) && (hd 0 evs =? 0)
  | LkOwn :: _ => (0 <? rem) && (hd 0 evs =? 0)
  | LkGone :: r => handles r evs rem
  | LkActive n :: _ => (0 <? rem) && (Z.max 0 n <? rem)
  end.

(* what poll returns for a transfer that completed with this status and length *)
Definition done_out (status len : Z) : list Z :=
  match completion status len with Some (inl n) => [0; n; 1] | Some (inr c) => [1; c] | None => [2] end.

Lemma handles_pos lks evs rem : handles lks evs rem = true -> 0 < rem.
Proof.
  induction lks as [|[| |n] r IH]; cbn [handles]; auto; intros H; apply Bool.andb_true_iff in H; destruct H as [H _];
    apply Z.ltb_lt in H; exact H.
Qed.

Lemma handles_gone k lks evs rem : handles (repeat LkGone k ++ lks) evs rem = handles lks evs rem.
Proof. induction k as [|k IH]; cbn [repeat app handles]; auto. Qed.

Lemma complete1_due e sl : due_at e sl -> reap sl = None ->
  exists st ln, sl_st (fst (complete1 e sl)) = LDone st ln /\
    (forall st0 ln0 due clat, sl_st sl = LFlight st0 ln0 due clat false -> st = st0 /\ ln = if st0 =? 0 then ln0 else 0).
Proof.
  unfold due_at, reap, complete1. destruct (sl_st sl) as [|st ln due cl c|st ln] eqn:E; [intros []| |discriminate].
  intros Hd _. destruct c, cl; cbn [fst]; pf.
  - do 2 eexists. split; [reflexivity|]. intros ? ? ? ? X; discriminate.
  - destruct Hd as [Hd|[_ Hd]]; [|discriminate]. apply Z.ltb_lt in Hd. rewrite Hd. cbn [fst]; pf.
    do 2 eexists. split; [reflexivity|]. intros ? ? ? ? X; discriminate.
  - destruct Hd as [Hd|[Hd _]]; [|discriminate]. apply Z.ltb_lt in Hd. rewrite Hd. cbn [fst]; pf.
    do 2 eexists. split; [reflexivity|]. intros ? ? ? ? X; inversion X; subst; auto.
  - destruct Hd as [Hd|[Hd _]]; [|discriminate]. apply Z.ltb_lt in Hd. rewrite Hd. cbn [fst]; pf.
    do 2 eexists. split; [reflexivity|]. intros ? ? ? ? X; inversion X; subst; auto.
Qed.

Lemma events_front e sl r : events e (sl :: r) = (fst (complete1 e sl) :: fst (events e r), snd (complete1 e sl) + snd (events e r)).
Proof. cbn [events]. destruct (complete1 e sl), (events e r). reflexivity. Qed.

(* rounds in which the holder of the lock has left change nothing and take no time: the wait ends in the first other
   round, with the front transfer completed *)
Lemma poll_wait_due fuel : forall s sl r rem, (contended (lkp s) < fuel)%nat -> due_at (p_epoch s) sl -> reap sl = None ->
  handles (lkp s) (p_evs s) rem = true ->
  exists s', poll_wait true fuel s (sl :: r) rem = (s', fst (events (p_epoch s) (sl :: r)), WDone) /\
             p_reaped s' = p_reaped s.
Proof.
  induction fuel as [|f IH]; intros s sl r rem Hf Hd Hr Hh; [lia|].
  pose proof (handles_pos _ _ _ Hh) as Hpos. cbn [poll_wait]. destruct (Z.leb_spec rem 0) as [X|_]; [lia|].
  destruct (complete1_due _ _ Hd Hr) as [st [ln [Hc _]]].
  assert (Hfd : front_done (fst (events (p_epoch s) (sl :: r))) = true).
  { rewrite events_front. cbn [fst]. unfold front_done. rewrite Hc. reflexivity. }
  pose proof (lk_round_tl (p_lk s)) as Hrt. unfold lkp in *. unfold lk_round in *.
  destruct (lk_plan (p_lk s)) as [|[| |n0] lr] eqn:El; cbn [handles tl] in *.
  - pf. apply Bool.andb_true_iff in Hh. destruct Hh as [_ Hh]. rewrite Hh.
    destruct (events (p_epoch s) (sl :: r)) as [q1 n]. cbn [fst] in *. rewrite Hfd. eexists. split; [reflexivity|]. reflexivity.
  - pf. apply Bool.andb_true_iff in Hh. destruct Hh as [_ Hh]. rewrite Hh.
    destruct (events (p_epoch s) (sl :: r)) as [q1 n]. cbn [fst] in *. rewrite Hfd. eexists. split; [reflexivity|]. reflexivity.
  - destruct Hrt as [Rc _].
    destruct (IH (set_lk s (lk_contended (p_lk s) true false false)) sl r rem) as [s' [E1 E2]]; pf; try rewrite El; cbn [tl]; auto; try lia.
    exists s'. split; [exact E1|exact E2].
  - apply Bool.andb_true_iff in Hh. destruct Hh as [_ Hh]. rewrite Hh.
    destruct (events (p_epoch s) (sl :: r)) as [q1 n]. cbn [fst] in *. rewrite Hfd. eexists. split; [reflexivity|]. reflexivity.
Qed.

Lemma pool_due_transfer_returned ms s sl r : due_at (p_epoch s) sl -> handles (lk_plan (p_lk s)) (p_evs s) (ms * 1000) = true ->
  exists s' out r', poll true ms s (sl :: r) = (s', PReap out) /\ p_pool s' = Some r' /\ map sl_no r' = map sl_no r /\
    p_reaped s' = p_reaped s ++ [sl_no sl] /\
    (forall st ln due clat, sl_st sl = LFlight st ln due clat false -> out = done_out st (if st =? 0 then ln else 0)).
Proof.
  intros Hd Hh. unfold poll. destruct (reap sl) as [out|] eqn:Er.
  { exists (pop_front s sl r), out, r. pf. repeat split; auto. intros st ln due clat E. unfold reap in Er. rewrite E in Er. discriminate. }
  pose proof (handles_pos _ _ _ Hh) as Hpos. destruct (Z.leb_spec ms 0) as [X|_]; [lia|].
  destruct (poll_wait_due (S (length (sl :: r) + contended (lk_plan (p_lk s)))) s sl r (ms * 1000)) as [s1 [Ew Erp]];
    unfold lkp; auto; try lia.
  rewrite Ew. destruct (complete1_due _ _ Hd Er) as [st [ln [Hc Hx]]].
  pose proof (events_facts (p_epoch s) r) as [Hm _].
  rewrite events_front. cbn [fst]. unfold reap at 1. rewrite Hc.
  eexists _, _, _. split; [reflexivity|]. pf. split; [reflexivity|]. split; [exact Hm|].
  pose proof (complete1_facts (p_epoch s) sl) as [Hno _]. cbn [fst] in Hno. rewrite Hno, Erp. split; [reflexivity|].
  intros st0 ln0 due clat E. destruct (Hx _ _ _ _ E) as [-> ->]. reflexivity.
Qed.

(* (d) what (a) and (b) exclude: the wait without the re-check.  One transfer, due; in the round of the poll the events
   lock is taken at the moment of libusb_try_lock_events and its holder has left before this thread looks: the code
   goes round again and returns the transfer (8 bytes) without any time gone by; the variant waits for an event handler
   that does not exist, for the whole time-out, and returns Timeout for a transfer that arrived completely and in time *)
Lemma pool_norecheck_variant_times_out :
  exists s q s1 s2 q2, pool_run false (pinit [PAccept 0 8 0 0] [] [LkGone]) [(1, 16)] = Some (s, [0], false) /\
    p_pool s = Some q /\
    poll true 10 (next_epoch s) q = (s1, PReap [0; 8; 1]) /\ p_pool s1 = Some [] /\
      lk_waits (p_lk s1) = 0 /\ lk_clock (p_lk s1) = 0 /\
    poll false 10 (next_epoch s) q = (s2, PFail [1; 6]) /\ p_pool s2 = Some q2 /\ length q2 = 1%nat /\
      lk_idle (p_lk s2) = 1 /\ lk_clock (p_lk s2) = 10001 /\ In (CWait false) (lk_log (p_lk s2)).
Proof. do 5 eexists. repeat (split; [vm_compute; reflexivity|]). vm_compute. auto. Qed.
