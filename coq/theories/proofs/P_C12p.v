(* Proofs about model/AsyncPool.v (C12: the AsyncPool bookkeeping of device/src/u3v/async_read.rs). *)
From Cam Require Import Outcome Bytes AsyncPool.

Definition accepted_by_libusb (sl : slot) : Prop := sl_st sl <> LUnknown.

(* cancelled or completed: the next event handling completes it *)
Definition ready (sl : slot) : Prop :=
  match sl_st sl with LDone _ _ => True | LFlight _ _ _ true => True | _ => False end.

Definition pending_of (s : pstate) : list slot := match p_pool s with Some q => q | None => [] end.

Definition nums (k : nat) : list Z := map Z.of_nat (seq 0 k).

Ltac pf := cbn [p_plan p_epoch p_pool p_calls p_accepted p_refused p_completed p_notfound p_reaped
                sl_no sl_buf sl_st set_pool] in *.

(* ---- event handling and cancellation keep the queue, its order and what libusb accepted ---------- *)

Lemma complete1_facts e sl : let sl' := fst (complete1 e sl) in
  sl_no sl' = sl_no sl /\ (accepted_by_libusb sl -> accepted_by_libusb sl') /\
  (ready sl -> exists st ln, sl_st sl' = LDone st ln).
Proof.
  unfold complete1, accepted_by_libusb, ready. destruct (sl_st sl) as [|st ln due c|st ln] eqn:E; cbn [fst].
  - rewrite E. repeat split; auto. intros [].
  - destruct c; cbn [fst sl_no sl_st].
    + repeat split; try discriminate. intros _. eauto.
    + destruct (due <? e); cbn [fst sl_no sl_st]; rewrite ?E; repeat split; auto; try discriminate; intros [].
  - rewrite E. repeat split; auto. eauto.
Qed.

Lemma events_facts e q : let q' := fst (events e q) in
  map sl_no q' = map sl_no q /\ (Forall accepted_by_libusb q -> Forall accepted_by_libusb q') /\
  (Forall ready q -> Forall (fun sl => exists st ln, sl_st sl = LDone st ln) q').
Proof.
  induction q as [|sl q IH]; cbn [events fst map].
  - repeat split; auto.
  - pose proof (complete1_facts e sl) as Hc. destruct (complete1 e sl) as [sl' n]. destruct (events e q) as [q' m].
    cbn [fst map] in *. destruct Hc as [H1 [H2 H3]]. destruct IH as [I1 [I2 I3]].
    split; [now rewrite H1, I1|]. split.
    + intros Hf. inversion Hf; subst. constructor; auto.
    + intros Hf. inversion Hf; subst. constructor; auto.
Qed.

Lemma cancel1_facts sl : let sl' := fst (cancel1 sl) in
  sl_no sl' = sl_no sl /\ (accepted_by_libusb sl -> accepted_by_libusb sl' /\ ready sl').
Proof.
  unfold cancel1, accepted_by_libusb, ready. destruct (sl_st sl) as [|st ln due c|st ln] eqn:E; cbn [fst sl_no sl_st].
  - split; [reflexivity|]. intros H. congruence.
  - split; [reflexivity|]. intros _. split; [discriminate|exact I].
  - split; [reflexivity|]. intros _. rewrite E. split; [discriminate|exact I].
Qed.

Lemma cancel_all_facts q : let q' := fst (cancel_all q) in
  map sl_no q' = map sl_no q /\ (Forall accepted_by_libusb q -> Forall accepted_by_libusb q' /\ Forall ready q').
Proof.
  induction q as [|sl q IH]; cbn [cancel_all fst map].
  - repeat split; auto.
  - pose proof (cancel1_facts sl) as Hc. destruct (cancel1 sl) as [sl' n]. destruct (cancel_all q) as [q' m].
    cbn [fst map] in *. destruct Hc as [H1 H2]. destruct IH as [I1 I2].
    split; [now rewrite H1, I1|]. intros Hf. inversion Hf; subst.
    destruct (H2 H3) as [A1 A2]. destruct (I2 H4) as [B1 B2]. split; constructor; auto.
Qed.

(* ---- poll ------------------------------------------------------------------------------------------ *)

Lemma reap_done sl st ln : sl_st sl = LDone st ln -> exists out, reap sl = Some out.
Proof. intros H. unfold reap. rewrite H. eauto. Qed.

Lemma reap_some sl out : reap sl = Some out -> exists st ln, sl_st sl = LDone st ln.
Proof. unfold reap. destruct (sl_st sl); try discriminate. eauto. Qed.

(* poll either returns the completion of the FRONT transfer and removes exactly it, or times out
   and leaves the queue (numbers, order) as it is *)
Lemma poll_facts s q s' r : poll s q = (s', r) -> Forall accepted_by_libusb q ->
  p_accepted s' = p_accepted s /\ p_plan s' = p_plan s /\ p_epoch s' = p_epoch s /\
  match r with
  | Some _ => exists sl rest, map sl_no q = sl_no sl :: map sl_no rest /\ p_pool s' = Some rest /\
                              p_reaped s' = p_reaped s ++ [sl_no sl] /\ Forall accepted_by_libusb rest /\
                              (Forall ready q -> Forall ready rest)
  | None => p_reaped s' = p_reaped s /\
            (q <> [] -> exists q', p_pool s' = Some q' /\ map sl_no q' = map sl_no q /\ Forall accepted_by_libusb q')
  end.
Proof.
  intros H Hf. unfold poll in H. destruct q as [|sl q].
  - inversion H; subst. repeat split; auto. intros X; congruence.
  - destruct (reap sl) as [out|] eqn:Er.
    + inversion H; subst. pf. repeat split; auto. exists sl, q. inversion Hf; subst.
      repeat split; auto. intros Hr. inversion Hr; auto.
    + pose proof (events_facts (p_epoch s) (sl :: q)) as He.
      destruct (events (p_epoch s) (sl :: q)) as [q' n]. cbn [fst] in He. destruct He as [E1 [E2 E3]].
      destruct q' as [|sl' r']; [cbn [map] in E1; discriminate|].
      destruct (reap sl') as [out|] eqn:Er'.
      * inversion H; subst. pf. repeat split; auto. exists sl', r'. specialize (E2 Hf). inversion E2; subst.
        repeat split; auto. intros Hr. specialize (E3 Hr). inversion E3; subst.
        eapply Forall_impl; [|eassumption]. intros a [st [ln Ha]]. unfold ready. now rewrite Ha.
      * inversion H; subst. pf. repeat split; auto. intros _. exists (sl' :: r'). repeat split; auto.
Qed.

Lemma poll_ready s q : q <> [] -> Forall ready q -> exists s' out, poll s q = (s', Some out).
Proof.
  intros Hq Hr. unfold poll. destruct q as [|sl q]; [congruence|].
  destruct (reap sl) as [out|] eqn:Er; [eauto|].
  pose proof (events_facts (p_epoch s) (sl :: q)) as He.
  destruct (events (p_epoch s) (sl :: q)) as [q' n]. cbn [fst] in He. destruct He as [E1 [_ E3]].
  destruct q' as [|sl' r']; [cbn [map] in E1; discriminate|].
  specialize (E3 Hr). inversion E3; subst. destruct H1 as [st [ln Hd]].
  destruct (reap_done _ _ _ Hd) as [out Ho]. rewrite Ho. eauto.
Qed.

(* ---- Drop ------------------------------------------------------------------------------------------ *)

Lemma drain_ready fuel : forall s q, (length q < fuel)%nat -> Forall accepted_by_libusb q -> Forall ready q ->
  p_pool s = Some q ->
  exists s', drain fuel s q = Some s' /\ p_pool s' = None /\ p_reaped s' = p_reaped s ++ map sl_no q /\
             p_accepted s' = p_accepted s.
Proof.
  induction fuel as [|f IH]; intros s q Hl Ha Hr Hp; [lia|].
  destruct q as [|sl q].
  - cbn [drain]. eexists. split; [reflexivity|]. pf. cbn [map]. rewrite app_nil_r. auto.
  - cbn [drain]. destruct (poll_ready s (sl :: q) ltac:(discriminate) Hr) as [s1 [out Hpoll]].
    rewrite Hpoll. destruct (poll_facts _ _ _ _ Hpoll Ha) as [A1 [_ [_ [sl0 [rest [M [P1 [R1 [F1 F2]]]]]]]]].
    rewrite P1. cbn [map] in M. inversion M as [[M1 M2]].
    assert (Hlen : length rest = length q).
    { rewrite <- (map_length sl_no rest), <- M2, map_length. reflexivity. }
    destruct (IH s1 rest ltac:(cbn [length] in Hl; lia) F1 (F2 Hr) P1) as [s' [D1 [D2 [D3 D4]]]].
    exists s'. split; [exact D1|]. split; [exact D2|]. split; [|congruence].
    rewrite D3, R1, <- M2, <- app_assoc. cbn [app map]. now rewrite M1.
Qed.

Lemma pool_drop_ok s q : p_pool s = Some q -> Forall accepted_by_libusb q ->
  exists s', pool_drop s q = Some s' /\ p_pool s' = None /\ p_reaped s' = p_reaped s ++ map sl_no q /\
             p_accepted s' = p_accepted s.
Proof.
  intros Hp Ha. unfold pool_drop. pose proof (cancel_all_facts q) as Hc.
  destruct (cancel_all q) as [q' n]. cbn [fst] in Hc. destruct Hc as [C1 C2]. destruct (C2 Ha) as [A R].
  match goal with |- context [drain ?f ?s0 q'] => destruct (drain_ready f s0 q' ltac:(lia) A R eq_refl)
    as [s' [D1 [D2 [D3 D4]]]] end.
  exists s'. pf. rewrite C1 in D3. auto.
Qed.

(* ---- invariant over operation sequences ------------------------------------------------------------- *)

Definition PInv (s : pstate) : Prop :=
  Forall accepted_by_libusb (pending_of s) /\
  exists k, p_accepted s = Z.of_nat k /\ p_reaped s ++ map sl_no (pending_of s) = nums k.

Lemma nums_S k : nums (S k) = nums k ++ [Z.of_nat k].
Proof. unfold nums. rewrite seq_S, map_app. reflexivity. Qed.

Lemma pinv_init pl : PInv (pinit pl).
Proof. split; [constructor|]. exists 0%nat. split; reflexivity. Qed.

Lemma pool_op_inv s op arg s' out : PInv s -> pool_op false s op arg = Some (s', out) -> PInv s'.
Proof.
  intros [Ha [k [Hk Hn]]] H. unfold pool_op in H. unfold PInv, pending_of in *.
  destruct (p_pool s) as [q|] eqn:Ep.
  - destruct (op =? 1).
    { unfold submit in H. destruct (match p_plan s with [] => _ | x :: _ => x end) as [code|st ln d].
      - inversion H; subst. split; pf; [exact Ha|]. exists k. auto.
      - inversion H; subst. split; pf.
        + apply Forall_app. split; [exact Ha|]. constructor; [|constructor]. unfold accepted_by_libusb. pf. discriminate.
        + exists (S k). split; [lia|]. rewrite map_app, app_assoc, Hn, nums_S. cbn [map sl_no]. now rewrite Hk. }
    destruct (op =? 2).
    { destruct q as [|sl q]; [inversion H; subst; split; [rewrite Ep; exact Ha|exists k; rewrite Ep; auto]|].
      match type of H with context [poll ?s1 ?qq] => destruct (poll s1 qq) as [s2 r] eqn:Epoll end.
      destruct (poll_facts _ _ _ _ Epoll Ha) as [A1 [_ [_ R]]]. pf.
      destruct r as [o|]; inversion H; subst.
      - destruct R as [sl0 [rest [M [P1 [R1 [F1 _]]]]]]. split; [rewrite P1; exact F1|].
        exists k. split; [congruence|]. rewrite P1, R1, <- app_assoc. cbn [app]. rewrite <- M. exact Hn.
      - destruct R as [R1 R2]. destruct (R2 ltac:(discriminate)) as [q' [P1 [M F1]]].
        split; [rewrite P1; exact F1|]. exists k. split; [congruence|]. rewrite P1, R1, M. exact Hn. }
    destruct (op =? 3); [inversion H; subst; split; [rewrite Ep; exact Ha|exists k; rewrite Ep; auto]|].
    destruct (op =? 4).
    { pose proof (cancel_all_facts q) as Hc. destruct (cancel_all q) as [q' n]. cbn [fst] in Hc.
      destruct Hc as [C1 C2]. inversion H; subst. split; pf; [apply C2, Ha|]. exists k. rewrite C1. auto. }
    destruct (op =? 5).
    { destruct (pool_drop_ok s q Ep Ha) as [s1 [D1 [D2 [D3 D4]]]]. rewrite D1 in H. inversion H; subst.
      split; [rewrite D2; constructor|]. exists k. split; [congruence|]. rewrite D2, D3. cbn [map]. now rewrite app_nil_r. }
    destruct (op =? 6); [inversion H; subst; split; [rewrite Ep; exact Ha|exists k; rewrite Ep; auto]|].
    destruct (op =? 7); inversion H; subst; (split; [rewrite Ep; exact Ha|exists k; rewrite Ep; auto]).
  - destruct (op =? 6).
    { inversion H; subst. split; pf; [constructor|]. exists k. auto. }
    destruct ((op =? 3) || (op =? 7)); inversion H; subst; (split; [rewrite Ep; exact Ha|exists k; rewrite Ep; auto]).
Qed.

Lemma pool_op_total s op arg : PInv s -> pool_op false s op arg <> None.
Proof.
  intros [Ha _] H. unfold pool_op, pending_of in *. destruct (p_pool s) as [q|] eqn:Ep.
  - destruct (op =? 1); [discriminate|]. destruct (op =? 2).
    { destruct q; [discriminate|]. destruct (poll _ _) as [s2 [o|]]; discriminate. }
    destruct (op =? 3); [discriminate|]. destruct (op =? 4); [destruct (cancel_all q); discriminate|].
    destruct (op =? 5).
    { destruct (pool_drop_ok s q Ep Ha) as [s1 [D1 _]]. rewrite D1 in H. discriminate. }
    destruct (op =? 6); [discriminate|]. destruct (op =? 7); discriminate.
  - destruct (op =? 6); [discriminate|]. destruct ((op =? 3) || (op =? 7)); discriminate.
Qed.

Lemma pool_run_inv ops : forall s s' out b, PInv s -> pool_run false s ops = Some (s', out, b) -> PInv s'.
Proof.
  induction ops as [|[op arg] ops IH]; intros s s' out b Hi H; cbn [pool_run] in H.
  - inversion H; subst; exact Hi.
  - destruct (pool_op false s op arg) as [[s1 o1]|] eqn:E; [|discriminate].
    pose proof (pool_op_inv _ _ _ _ _ Hi E) as Hi1.
    destruct (((op =? 1) || (op =? 2)) && is_panic o1); [inversion H; subst; exact Hi1|].
    destruct (pool_run false s1 ops) as [[[s2 o2] b2]|] eqn:E2; [|discriminate].
    inversion H; subst. eapply IH; eassumption.
Qed.

Lemma pool_run_total ops : forall s, PInv s -> pool_run false s ops <> None.
Proof.
  induction ops as [|[op arg] ops IH]; intros s Hi; cbn [pool_run]; [discriminate|].
  destruct (pool_op false s op arg) as [[s1 o1]|] eqn:E; [|exfalso; exact (pool_op_total _ _ _ Hi E)].
  destruct (((op =? 1) || (op =? 2)) && is_panic o1); [discriminate|].
  pose proof (IH s1 (pool_op_inv _ _ _ _ _ Hi E)) as Hn.
  destruct (pool_run false s1 ops) as [[[s2 o2] b2]|]; [discriminate|congruence].
Qed.

(* ---- statements -------------------------------------------------------------------------------------- *)

Lemma pool_pending_accepted pl ops s out b : pool_run false (pinit pl) ops = Some (s, out, b) ->
  forall q, p_pool s = Some q -> Forall accepted_by_libusb q.
Proof.
  intros H q Hq. destruct (pool_run_inv _ _ _ _ _ (pinv_init pl) H) as [Ha _].
  unfold pending_of in Ha. now rewrite Hq in Ha.
Qed.

Lemma pool_poll_fifo pl ops s out b : pool_run false (pinit pl) ops = Some (s, out, b) ->
  exists k, p_accepted s = Z.of_nat k /\ p_reaped s ++ map sl_no (pending_of s) = nums k.
Proof. intros H. exact (proj2 (pool_run_inv _ _ _ _ _ (pinv_init pl) H)). Qed.

Lemma pool_refused_submit_unchanged s q len code rest : p_plan s = PRefuse code :: rest ->
  let '(s', out) := submit false s q len in
  p_pool s' = Some q /\ p_accepted s' = p_accepted s /\ p_reaped s' = p_reaped s /\
  p_completed s' = p_completed s /\ p_refused s' = p_refused s + 1 /\
  out = match err_class code with Some c => [1; c] | None => [2] end.
Proof. intros H. unfold submit. rewrite H. cbn [tl]. pf. repeat split; auto. Qed.

Lemma pool_drop_terminates pl ops s out b q : pool_run false (pinit pl) ops = Some (s, out, b) ->
  p_pool s = Some q ->
  exists s', pool_drop s q = Some s' /\ p_pool s' = None /\ p_reaped s' = p_reaped s ++ map sl_no q /\
             p_accepted s' = p_accepted s.
Proof. intros H Hq. apply pool_drop_ok; [exact Hq|]. eapply pool_pending_accepted; eassumption. Qed.

Lemma pool_ops_terminate pl ops : pool_run false (pinit pl) ops <> None.
Proof. apply pool_run_total, pinv_init. Qed.

(* pushing onto `pending` before libusb accepted the transfer: one refused submission and the
   drop of the pool never returns *)
Lemma pool_push_first_wedges : pool_run true (pinit [PRefuse (-11)]) [(1, 16); (5, 0)] = None.
Proof. vm_compute. reflexivity. Qed.
