(* Proofs for the USB channel part of C06 (props/C06.v, names C06_chan_...): ControlChannel / ReceiveChannel of
   device/src/u3v/channel.rs over rusb and an abstract libusb, model/UsbChannel.v. *)
From Cam Require Import Outcome Bytes UsbEnum UsbDescLayout UsbChannel P_C07u.

(* the answer a call gets and the world after it *)
Definition answer (w : world) : option resp := match w_plan w with [] => None | r :: _ => Some r end.
Definition after (c : ucall) (w : world) : world := mkWorld (tl (w_plan w)) (w_log w ++ [c]).

Lemma do_call_eq c w : do_call c w = (answer w, after c w).
Proof. unfold do_call, answer, after. destruct (w_plan w); reflexivity. Qed.

(* ---- send / recv: exactly one bulk transfer on the interface's endpoint -------------------------------------- *)
Lemma send_exact c data tmo w : Z.land (c_out c) 0x80 = 0 ->
  ch_send c data tmo w =
  (match answer w with Some r => bulk_result (r_code r) (r_n r) | None => Ok (zlen data) end,
   after (UBulk (c_out c) (zlen data) (tmo mod 2 ^ 32) (Some data)) w).
Proof.
  intros H. unfold ch_send, rusb_write_bulk. rewrite H. cbn [Z.eqb negb]. rewrite do_call_eq.
  unfold u32. destruct (answer w); reflexivity.
Qed.

Lemma recv_exact c len tmo w : Z.land (c_in c) 0x80 = 0x80 ->
  ch_recv c len tmo w =
  (match answer w with
   | Some r => let? n := bulk_result (r_code r) (r_n r) in Ok (n, filled len (r_data r))
   | None => Ok (len, filled len (pattern len))
   end,
   after (UBulk (c_in c) len (tmo mod 2 ^ 32) None) w).
Proof.
  intros H. unfold ch_recv, rusb_read_bulk. rewrite H. cbn [Z.eqb Pos.eqb negb]. rewrite do_call_eq.
  unfold u32. destruct (answer w); reflexivity.
Qed.

(* rusb's direction guard: an endpoint of the wrong direction is refused before libusb is called *)
Lemma send_wrong_direction c data tmo w : Z.land (c_out c) 0x80 <> 0 ->
  ch_send c data tmo w = (Err UE_INVALID_PARAM, w).
Proof. intros H. unfold ch_send, rusb_write_bulk. apply Z.eqb_neq in H. rewrite H. reflexivity. Qed.

Lemma recv_wrong_direction c len tmo w : Z.land (c_in c) 0x80 <> 0x80 ->
  ch_recv c len tmo w = (Err UE_INVALID_PARAM, w).
Proof. intros H. unfold ch_recv, rusb_read_bulk. apply Z.eqb_neq in H. rewrite H. reflexivity. Qed.

(* libusb's count or error comes back unchanged *)
Lemma bulk_result_spec code n :
  (code = 0 -> bulk_result code n = Ok n) /\
  (code <> 0 -> code <> -7 -> code <> -10 -> bulk_result code n = Err (usb_kind code)) /\
  ((code = -7 \/ code = -10) -> 0 < n -> bulk_result code n = Ok n) /\
  ((code = -7 \/ code = -10) -> n <= 0 -> bulk_result code n = Err (usb_kind code)).
Proof.
  unfold bulk_result. repeat split.
  - intros ->. reflexivity.
  - intros H0 H7 H10. apply Z.eqb_neq in H0, H7, H10. rewrite H0, H7, H10. reflexivity.
  - intros [-> | ->] Hn; apply Z.ltb_lt in Hn; cbn [Z.eqb orb]; rewrite Hn; reflexivity.
  - intros [-> | ->] Hn; apply Z.ltb_ge in Hn; cbn [Z.eqb orb]; rewrite Hn; reflexivity.
Qed.

(* the received bytes land at the front of the caller's buffer, the rest of it keeps its content *)
Lemma filled_length len data : 0 <= len -> zlen (filled len data) = len.
Proof.
  intros H. unfold filled, zlen. rewrite app_length, repeat_length.
  pose proof (firstn_le_length (Z.to_nat len) data) as Hl. lia.
Qed.

Lemma filled_prefix len data : zlen data <= len -> firstn (length data) (filled len data) = data.
Proof.
  unfold filled, zlen. intros H. rewrite (firstn_all2 (n := Z.to_nat len) data) by lia.
  rewrite firstn_app, Nat.sub_diag, firstn_all. cbn [firstn]. now rewrite app_nil_r.
Qed.

(* ---- open / close ------------------------------------------------------------------------------------------------ *)
Lemma open_spec c w :
  ch_open c w =
  if c_opened c then (Ok tt, (c, w))
  else if code_of (answer w) =? 0
       then (Ok tt, (set_state c true true, after (UClaim (c_iface c)) w))
       else (Err (usb_kind (code_of (answer w))), (c, after (UClaim (c_iface c)) w)).
Proof.
  unfold ch_open, rusb_claim. destruct (c_opened c) eqn:E; cbn [negb]; [reflexivity|].
  rewrite do_call_eq. destruct (code_of (answer w) =? 0); reflexivity.
Qed.

Lemma close_spec c w :
  ch_close c w =
  if c_opened c then
    if code_of (answer w) =? 0
    then (Ok tt, (set_state c false false, after (URelease (c_iface c)) w))
    else (Err (usb_kind (code_of (answer w))), (c, after (URelease (c_iface c)) w))
  else (Ok tt, (c, w)).
Proof.
  unfold ch_close, rusb_release. destruct (c_opened c) eqn:E.
  - rewrite do_call_eq. destruct (code_of (answer w) =? 0); reflexivity.
  - destruct c as [k i a b o cl]. cbn [c_opened] in E. subst o. destruct k; reflexivity.
Qed.

(* an error leaves the channel as it was; success sets the flag *)
Lemma open_result c w r c' w' : ch_open c w = (r, (c', w')) ->
  match r with
  | Ok _ => c_opened c' = true
  | _ => c' = c
  end.
Proof.
  rewrite open_spec. destruct (c_opened c) eqn:E.
  - intros H. injection H as <- <- <-. exact E.
  - destruct (code_of (answer w) =? 0); intros H; injection H as <- <- <-; reflexivity.
Qed.

Lemma close_result c w r c' w' : ch_close c w = (r, (c', w')) ->
  match r with
  | Ok _ => c_opened c' = false
  | _ => c' = c
  end.
Proof.
  rewrite close_spec. destruct (c_opened c) eqn:E.
  - destruct (code_of (answer w) =? 0); intros H; injection H as <- <- <-; reflexivity.
  - intros H. injection H as <- <- <-. exact E.
Qed.

Lemma open_not_panic c w : fst (ch_open c w) <> Panic.
Proof. rewrite open_spec. destruct (c_opened c); [discriminate|]. destruct (code_of (answer w) =? 0); discriminate. Qed.
Lemma close_not_panic c w : fst (ch_close c w) <> Panic.
Proof. rewrite close_spec. destruct (c_opened c); [|discriminate]. destruct (code_of (answer w) =? 0); discriminate. Qed.

(* ---- no guard on is_opened: transfers and halts do not look at the flag ---------------------------------------- *)
Lemma no_open_guard c o cl :
  (forall data tmo w, ch_send (set_state c o cl) data tmo w = ch_send c data tmo w) /\
  (forall len tmo w, ch_recv (set_state c o cl) len tmo w = ch_recv c len tmo w) /\
  (forall tmo w, ch_set_halt (set_state c o cl) tmo w = ch_set_halt c tmo w) /\
  (forall w, ch_clear_halt (set_state c o cl) w = ch_clear_halt c w).
Proof. repeat split. Qed.

(* ---- set_halt / clear_halt --------------------------------------------------------------------------------------- *)
Definition halt_call (e tmo : Z) : ucall := UControl 0x02 0x03 0x00 e 0 (tmo mod 2 ^ 32).
Definition control_res (r : option resp) : Z :=
  match r with Some r => if negb (r_code r =? 0) then r_code r else r_n r | None => 0 end.

Lemma set_halt_ep_spec e tmo w :
  set_halt_ep e tmo w =
  (if control_res (answer w) <? 0 then Err (usb_kind (control_res (answer w))) else Ok tt, after (halt_call e tmo) w).
Proof.
  unfold set_halt_ep, rusb_write_control. cbn [Z.land Z.eqb negb]. rewrite do_call_eq.
  unfold control_res, halt_call, u32. destruct (_ <? 0); reflexivity.
Qed.

Lemma clear_halt_ep_spec e w :
  clear_halt_ep e w = (try_code (code_of (answer w)), after (UClearHalt e) w).
Proof. unfold clear_halt_ep. rewrite do_call_eq. reflexivity. Qed.

(* the control channel halts / clears IN then OUT and stops at the first failure; a receive channel its one endpoint *)
Lemma set_halt_spec c tmo w :
  ch_set_halt c tmo w =
  match set_halt_ep (c_in c) tmo w with
  | (Ok _, w') => match c_kind c with KControl => set_halt_ep (c_out c) tmo w' | KReceive => (Ok tt, w') end
  | x => x
  end.
Proof. reflexivity. Qed.

Lemma set_halt_log c tmo w :
  w_log (snd (ch_set_halt c tmo w)) =
  w_log w ++ [halt_call (c_in c) tmo] ++
  match c_kind c with
  | KControl => if control_res (answer w) <? 0 then [] else [halt_call (c_out c) tmo]
  | KReceive => []
  end.
Proof.
  unfold ch_set_halt. rewrite set_halt_ep_spec.
  destruct (control_res (answer w) <? 0).
  - cbn [snd after w_log]. destruct (c_kind c); reflexivity.
  - destruct (c_kind c).
    + rewrite set_halt_ep_spec. cbn [snd after w_log]. now rewrite <- app_assoc.
    + cbn [snd after w_log]. reflexivity.
Qed.

Lemma clear_halt_log c w :
  w_log (snd (ch_clear_halt c w)) =
  w_log w ++ [UClearHalt (c_in c)] ++
  match c_kind c with
  | KControl => if code_of (answer w) =? 0 then [UClearHalt (c_out c)] else []
  | KReceive => []
  end.
Proof.
  unfold ch_clear_halt. rewrite clear_halt_ep_spec. unfold try_code.
  destruct (code_of (answer w) =? 0).
  - destruct (c_kind c).
    + rewrite clear_halt_ep_spec. cbn [snd after w_log]. now rewrite <- app_assoc.
    + cbn [snd after w_log]. reflexivity.
  - cbn [snd after w_log]. destruct (c_kind c); reflexivity.
Qed.

(* ---- drop ------------------------------------------------------------------------------------------------------------ *)
Lemma drop_log c w :
  w_log (ch_drop c w) = w_log w ++ (if c_claimed c then [URelease (c_iface c); UClose] else [UClose]).
Proof.
  unfold ch_drop, do_close. destruct (c_claimed c); cbn [w_log].
  - rewrite do_call_eq. cbn [snd after w_log]. now rewrite <- app_assoc.
  - reflexivity.
Qed.

(* ---- histories: invariants ------------------------------------------------------------------------------------------ *)
(* the channel made from [cd]: fixed interface description; the open flag agrees with what rusb holds claimed *)
Definition chan_inv (cd : cdesc) (oc : option chan) : Prop :=
  match oc with
  | None => True
  | Some c => c_kind c = cd_kind cd /\ c_iface c = cd_iface cd /\ c_in c = cd_in cd /\ c_out c = cd_out cd /\
              c_claimed c = c_opened c
  end.

Lemma create_inv cd w : chan_inv cd (fst (snd (create cd w))).
Proof.
  unfold create, ch_new. rewrite do_call_eq. unfold try_code.
  destruct (code_of (answer w) =? 0); cbn [bind fst snd chan_inv]; [|exact I].
  cbn [c_kind c_iface c_in c_out c_claimed c_opened]. repeat split.
Qed.

Lemma step_inv cd o s : chan_inv cd (fst s) -> chan_inv cd (fst (snd (step cd o s))).
Proof.
  destruct s as [oc w]. cbn [fst]. intros HI. unfold step.
  destruct o; try (destruct oc as [c|]; [|exact HI]).
  - (* open *) rewrite open_spec. destruct HI as (H1 & H2 & H3 & H4 & H5).
    destruct (c_opened c) eqn:E; [cbn [fst snd chan_inv]; repeat split; congruence|].
    destruct (code_of (answer w) =? 0); cbn [fst snd chan_inv set_state c_kind c_iface c_in c_out c_claimed c_opened];
      repeat split; congruence.
  - (* close *) rewrite close_spec. destruct HI as (H1 & H2 & H3 & H4 & H5).
    destruct (c_opened c) eqn:E; [|cbn [fst snd chan_inv]; repeat split; congruence].
    destruct (code_of (answer w) =? 0); cbn [fst snd chan_inv set_state c_kind c_iface c_in c_out c_claimed c_opened];
      repeat split; congruence.
  - exact HI.
  - destruct (c_kind c); [|exact HI]. destruct (ch_send c data tmo w). exact HI.
  - destruct (ch_recv c len tmo w). exact HI.
  - destruct (ch_set_halt c tmo w). exact HI.
  - destruct (ch_clear_halt c w). exact HI.
  - apply create_inv.
Qed.

Lemma steps_inv cd : forall os s, chan_inv cd (fst s) -> chan_inv cd (fst (snd (steps cd os s))).
Proof.
  induction os as [|o os IH]; intros s HI; cbn [steps]; [exact HI|].
  pose proof (step_inv cd o s HI) as H1. destruct (step cd o s) as [a s1]. cbn [snd] in H1.
  pose proof (IH s1 H1) as H2. destruct (steps cd os s1) as [b s2]. exact H2.
Qed.

Lemma history_inv cd plan os :
  chan_inv cd (fst (snd (steps cd os (snd (create cd (mkWorld plan [])))))).
Proof. apply steps_inv. apply create_inv. Qed.

(* every libusb call of a history names the interface / the endpoints of the channel's own interface description *)
Definition call_of (cd : cdesc) (u : ucall) : Prop :=
  match u with
  | UOpen | UClose => True
  | UClaim i | URelease i => i = cd_iface cd
  | UClearHalt e => e = cd_in cd \/ (cd_kind cd = KControl /\ e = cd_out cd)
  | UBulk e _ _ None => e = cd_in cd
  | UBulk e _ _ (Some _) => cd_kind cd = KControl /\ e = cd_out cd
  | UControl rt rq v ix len _ => rt = 0x02 /\ rq = 0x03 /\ v = 0 /\ len = 0 /\
                                 (ix = cd_in cd \/ (cd_kind cd = KControl /\ ix = cd_out cd))
  end.

Definition log_ok (cd : cdesc) (w : world) : Prop := Forall (call_of cd) (w_log w).

Lemma after_ok cd u w : log_ok cd w -> call_of cd u -> log_ok cd (after u w).
Proof. unfold log_ok, after. cbn [w_log]. intros H1 H2. apply Forall_app. split; [exact H1|]. now constructor. Qed.

Lemma rusb_write_bulk_ok cd e data tmo w : log_ok cd w -> cd_kind cd = KControl -> e = cd_out cd ->
  log_ok cd (snd (rusb_write_bulk e data tmo w)).
Proof.
  intros HL HK ->. unfold rusb_write_bulk. destruct (negb _); [exact HL|].
  rewrite do_call_eq. destruct (answer w); cbn [snd]; apply after_ok; auto; cbn; auto.
Qed.

Lemma rusb_read_bulk_ok cd e len tmo w : log_ok cd w -> e = cd_in cd ->
  log_ok cd (snd (rusb_read_bulk e len tmo w)).
Proof.
  intros HL ->. unfold rusb_read_bulk. destruct (negb _); [exact HL|].
  rewrite do_call_eq. destruct (answer w); cbn [snd]; apply after_ok; auto; cbn; auto.
Qed.

Lemma set_halt_ep_ok cd e tmo w : log_ok cd w -> (e = cd_in cd \/ (cd_kind cd = KControl /\ e = cd_out cd)) ->
  log_ok cd (snd (set_halt_ep e tmo w)).
Proof. intros HL He. rewrite set_halt_ep_spec. cbn [snd]. apply after_ok; [exact HL|]. cbn. auto 6. Qed.

Lemma clear_halt_ep_ok cd e w : log_ok cd w -> (e = cd_in cd \/ (cd_kind cd = KControl /\ e = cd_out cd)) ->
  log_ok cd (snd (clear_halt_ep e w)).
Proof. intros HL He. rewrite clear_halt_ep_spec. cbn [snd]. apply after_ok; [exact HL|]. exact He. Qed.

Lemma drop_ok cd oc w : chan_inv cd oc -> log_ok cd w -> log_ok cd (drop_opt oc w).
Proof.
  destruct oc as [c|]; cbn [drop_opt chan_inv]; [|auto]. intros (H1 & H2 & H3 & H4 & H5) HL.
  unfold log_ok. rewrite drop_log. apply Forall_app. split; [exact HL|].
  destruct (c_claimed c); repeat constructor. cbn. exact H2.
Qed.

Lemma create_ok cd w : log_ok cd w -> log_ok cd (snd (snd (create cd w))).
Proof.
  intros HL. unfold create, ch_new. rewrite do_call_eq. unfold try_code.
  destruct (code_of (answer w) =? 0); cbn [bind fst snd]; apply after_ok; auto; exact I.
Qed.

Lemma step_ok cd o s : chan_inv cd (fst s) -> log_ok cd (snd s) -> log_ok cd (snd (snd (step cd o s))).
Proof.
  destruct s as [oc w]. cbn [fst snd]. intros HI HL. unfold step.
  destruct o; try (destruct oc as [c|]; [|exact HL]); try destruct HI as (H1 & H2 & H3 & H4 & H5).
  - rewrite open_spec. destruct (c_opened c); [exact HL|].
    destruct (code_of (answer w) =? 0); cbn [snd]; apply after_ok; auto; cbn; auto.
  - rewrite close_spec. destruct (c_opened c); [|exact HL].
    destruct (code_of (answer w) =? 0); cbn [snd]; apply after_ok; auto; cbn; auto.
  - exact HL.
  - destruct (c_kind c) eqn:EK; [|exact HL].
    pose proof (rusb_write_bulk_ok cd (c_out c) data tmo w HL (eq_sym H1) H4) as H.
    unfold ch_send. destruct (rusb_write_bulk (c_out c) data tmo w). exact H.
  - pose proof (rusb_read_bulk_ok cd (c_in c) len tmo w HL H3) as H.
    unfold ch_recv. destruct (rusb_read_bulk (c_in c) len tmo w). exact H.
  - assert (H : log_ok cd (snd (ch_set_halt c tmo w))).
    { unfold ch_set_halt. pose proof (set_halt_ep_ok cd (c_in c) tmo w HL (or_introl H3)) as Ha.
      destruct (set_halt_ep (c_in c) tmo w) as [[u| |] w1]; cbn [snd] in *; try exact Ha.
      destruct (c_kind c) eqn:EK; [|exact Ha].
      apply set_halt_ep_ok; [exact Ha|]. right. split; [congruence|exact H4]. }
    destruct (ch_set_halt c tmo w). exact H.
  - assert (H : log_ok cd (snd (ch_clear_halt c w))).
    { unfold ch_clear_halt. pose proof (clear_halt_ep_ok cd (c_in c) w HL (or_introl H3)) as Ha.
      destruct (clear_halt_ep (c_in c) w) as [[u| |] w1]; cbn [snd] in *; try exact Ha.
      destruct (c_kind c) eqn:EK; [|exact Ha].
      apply clear_halt_ep_ok; [exact Ha|]. right. split; [congruence|exact H4]. }
    destruct (ch_clear_halt c w). exact H.
  - apply create_ok. apply drop_ok; assumption.
Qed.

Lemma steps_ok cd : forall os s, chan_inv cd (fst s) -> log_ok cd (snd s) -> log_ok cd (snd (snd (steps cd os s))).
Proof.
  induction os as [|o os IH]; intros s HI HL; cbn [steps]; [exact HL|].
  pose proof (step_inv cd o s HI) as H1. pose proof (step_ok cd o s HI HL) as H2.
  destruct (step cd o s) as [a s1]. cbn [snd] in H1, H2.
  pose proof (IH s1 H1 H2) as H3. destruct (steps cd os s1) as [b s2]. exact H3.
Qed.

Lemma history_calls_ok cd plan os :
  let s := snd (steps cd os (snd (create cd (mkWorld plan [])))) in
  log_ok cd (drop_opt (fst s) (snd s)).
Proof.
  cbn zeta. apply drop_ok.
  - apply history_inv.
  - apply steps_ok; [apply create_inv|]. apply create_ok. constructor.
Qed.

(* ---- an error leaves the channel as it was, for every operation ------------------------------------------------------ *)
Lemma step_error_keeps cd o c w e rest : o <> ORecreate ->
  fst (step cd o (Some c, w)) = 1 :: e :: rest -> fst (snd (step cd o (Some c, w))) = Some c.
Proof.
  intros HO. unfold step. destruct o; try congruence.
  - rewrite open_spec. destruct (c_opened c) eqn:E; [discriminate|].
    destruct (code_of (answer w) =? 0); [discriminate|reflexivity].
  - rewrite close_spec. destruct (c_opened c) eqn:E; [|discriminate].
    destruct (code_of (answer w) =? 0); [discriminate|reflexivity].
  - reflexivity.
  - destruct (c_kind c); [|reflexivity]. destruct (ch_send c data tmo w). reflexivity.
  - destruct (ch_recv c len tmo w). reflexivity.
  - destruct (ch_set_halt c tmo w). reflexivity.
  - destruct (ch_clear_halt c w). reflexivity.
Qed.

(* only open / close / re-creation ever change the channel *)
Lemma step_keeps_channel cd o c w :
  match o with OOpen | OClose | ORecreate => True | _ => fst (snd (step cd o (Some c, w))) = Some c end.
Proof.
  unfold step. destruct o; try exact I; try reflexivity.
  - destruct (c_kind c); [|reflexivity]. destruct (ch_send c data tmo w). reflexivity.
  - destruct (ch_recv c len tmo w). reflexivity.
  - destruct (ch_set_halt c tmo w). reflexivity.
  - destruct (ch_clear_halt c w). reflexivity.
Qed.

(* ---- the channels of an enumerated device -------------------------------------------------------------------------------- *)
Lemma enumerated_control_channel d r cd : accept_spec d = Some r -> cdesc_of r 0 = Some cd ->
  cd_kind cd = KControl /\ (cd_iface cd, cd_in cd, cd_out cd) = r_ctrl r /\
  Z.land (cd_in cd) 0x80 <> 0 /\ Z.land (cd_out cd) 0x80 = 0.
Proof.
  intros HA. destruct (accepted_endpoints d r HA) as [HC _]. unfold cdesc_of. cbn [Z.eqb].
  destruct (r_ctrl r) as [[i a] b]. intros H. injection H as <-. cbn [cd_kind cd_iface cd_in cd_out]. tauto.
Qed.

Lemma enumerated_receive_channel d r which cd : accept_spec d = Some r -> which <> 0 -> cdesc_of r which = Some cd ->
  cd_kind cd = KReceive /\ Some (cd_iface cd, cd_in cd) = (if which =? 1 then r_event r else r_stream r) /\
  Z.land (cd_in cd) 0x80 <> 0.
Proof.
  intros HA Hw. destruct (accepted_endpoints d r HA) as [_ [HE HS]]. unfold cdesc_of.
  apply Z.eqb_neq in Hw. rewrite Hw.
  destruct (which =? 1).
  - destruct (r_event r) as [[i a]|] eqn:E; [|discriminate]. intros H. injection H as <-.
    cbn [cd_kind cd_iface cd_in]. repeat split. eapply HE. reflexivity.
  - destruct (r_stream r) as [[i a]|] eqn:E; [|discriminate]. intros H. injection H as <-.
    cbn [cd_kind cd_iface cd_in]. repeat split. eapply HS. reflexivity.
Qed.

Lemma land80 a : Z.land a 0x80 <> 0 -> Z.land a 0x80 = 0x80.
Proof.
  intros H. change 128 with (2 ^ 7) in *.
  destruct (Z.testbit a 7) eqn:E.
  - apply Z.bits_inj'. intros n Hn. rewrite Z.land_spec, Z.pow2_bits_eqb by lia.
    destruct (Z.eqb_spec 7 n) as [<-|Hne]; [now rewrite E|]. now rewrite andb_false_r.
  - exfalso. apply H. apply Z.bits_inj'. intros n Hn. rewrite Z.land_spec, Z.pow2_bits_eqb, Z.bits_0 by lia.
    destruct (Z.eqb_spec 7 n) as [<-|Hne]; [now rewrite E|]. now rewrite andb_false_r.
Qed.

(* on the control channel of an enumerated camera send and recv always reach libusb, on its own endpoints *)
Lemma enumerated_send_recv d r cd c data len tmo w : accept_spec d = Some r -> cdesc_of r 0 = Some cd ->
  c_in c = cd_in cd -> c_out c = cd_out cd ->
  w_log (snd (ch_send c data tmo w)) = w_log w ++ [UBulk (cd_out cd) (zlen data) (tmo mod 2 ^ 32) (Some data)] /\
  w_log (snd (ch_recv c len tmo w)) = w_log w ++ [UBulk (cd_in cd) len (tmo mod 2 ^ 32) None].
Proof.
  intros HA HC Hi Ho. destruct (enumerated_control_channel d r cd HA HC) as (_ & _ & H1 & H2).
  split.
  - rewrite send_exact by (rewrite Ho; exact H2). cbn [snd after w_log]. now rewrite Ho.
  - rewrite recv_exact by (rewrite Hi; apply land80; exact H1). cbn [snd after w_log]. now rewrite Hi.
Qed.

(* ---- a concrete history ------------------------------------------------------------------------------------------------- *)
Definition ex_cd : cdesc := mkCdesc KControl 0 129 1.
Lemma example_history :
  run_history ex_cd
    [mkResp 0 0 []; mkResp (-6) 0 []; mkResp 0 0 []; mkResp 0 3 []; mkResp (-7) 0 []; mkResp 0 2 [170; 187]; mkResp (-4) 0 []]
    [OOpen; OIsOpened; OOpen; OSend [1; 2; 3] 500; ORecv 4 (2 ^ 32 + 5); ORecv 4 100; OClose; OIsOpened] =
  [0] ++ [1; 5] ++ [0] ++ [0] ++ [0; 3] ++ [1; 6] ++ [0; 2; 4; 170; 187; 205; 205] ++ [1; 3] ++ [1] ++ [-8; 1; -7] ++
  [3; 0] ++ [8; 0; 0] ++ [8; 0; 0] ++ [11; 0; 1; 3; 500; 3; 1; 2; 3] ++ [11; 0; 129; 4; 5] ++ [11; 0; 129; 4; 100] ++
  [9; 0; 0] ++ [9; 0; 0] ++ [7; 0].
Proof. vm_compute. reflexivity. Qed.

(* ---- the statements of props/C06.v that combine several lemmas ------------------------------------------------- *)
Lemma buffer_spec : forall len data,
  (0 <= len -> zlen (filled len data) = len) /\
  (zlen data <= len -> firstn (length data) (filled len data) = data).
Proof. intros len data. split; [exact (filled_length len data)|exact (filled_prefix len data)]. Qed.

Lemma wrong_direction : forall c data len tmo w,
  (Z.land (c_out c) 0x80 <> 0 -> ch_send c data tmo w = (Err UE_INVALID_PARAM, w)) /\
  (Z.land (c_in c) 0x80 <> 0x80 -> ch_recv c len tmo w = (Err UE_INVALID_PARAM, w)).
Proof. intros c data len tmo w. split; [exact (send_wrong_direction c data tmo w)|exact (recv_wrong_direction c len tmo w)]. Qed.

Lemma halt_logs : forall c tmo w,
  w_log (snd (ch_set_halt c tmo w)) =
    w_log w ++ [halt_call (c_in c) tmo] ++
    match c_kind c with
    | KControl => if control_res (answer w) <? 0 then [] else [halt_call (c_out c) tmo]
    | KReceive => []
    end /\
  w_log (snd (ch_clear_halt c w)) =
    w_log w ++ [UClearHalt (c_in c)] ++
    match c_kind c with
    | KControl => if code_of (answer w) =? 0 then [UClearHalt (c_out c)] else []
    | KReceive => []
    end.
Proof. intros c tmo w. split; [exact (set_halt_log c tmo w)|exact (clear_halt_log c w)]. Qed.

Lemma open_close_total : forall c w, fst (ch_open c w) <> Panic /\ fst (ch_close c w) <> Panic.
Proof. intros c w. split; [exact (open_not_panic c w)|exact (close_not_panic c w)]. Qed.

Lemma enumerated_control : forall d r cd c data len tmo w, accept_spec d = Some r -> cdesc_of r 0 = Some cd ->
  c_in c = cd_in cd -> c_out c = cd_out cd ->
  (cd_kind cd = KControl /\ (cd_iface cd, cd_in cd, cd_out cd) = r_ctrl r) /\
  w_log (snd (ch_send c data tmo w)) = w_log w ++ [UBulk (cd_out cd) (zlen data) (tmo mod 2 ^ 32) (Some data)] /\
  w_log (snd (ch_recv c len tmo w)) = w_log w ++ [UBulk (cd_in cd) len (tmo mod 2 ^ 32) None].
Proof.
  intros d r cd c data len tmo w HA HC Hi Ho. split.
  - destruct (enumerated_control_channel d r cd HA HC) as (H1 & H2 & _). split; assumption.
  - exact (enumerated_send_recv d r cd c data len tmo w HA HC Hi Ho).
Qed.
