(* Proofs for C07: the control handle against an ARBITRARY scripted device (any plans: raw byte
   strings, edited acknowledges, pending acknowledges, libusb errors on send and receive). *)
From Cam Require Import Outcome Bytes Chunks Cmd Ack CmdLayout GenCPLayout Control P_C09 P_C08 P_C06.

(* ---- decoding never panics, whatever the bytes --------------------------------------------- *)

Lemma rd_cases n bs : (exists e, rd n bs = Err e) \/ (exists v r, rd n bs = Ok (v, r)).
Proof. unfold rd. destruct (length bs <? n)%nat; [left; eauto|right; eauto]. Qed.

Lemma status_kind_no_panic code : status_kind code <> Panic.
Proof.
  unfold status_kind, parse_gencp_status, parse_usb_status.
  destruct (_ =? 0); [destruct (lookup _ _); discriminate|].
  destruct (_ =? 1); [destruct (lookup _ _); discriminate|].
  destruct (_ =? 2); discriminate.
Qed.

Lemma scd_kind_of_no_panic id : scd_kind_of id <> Panic.
Proof. unfold scd_kind_of. repeat (destruct (_ =? _); [discriminate|]). discriminate. Qed.

Lemma parse_ack_total bs : parse_ack bs <> Panic.
Proof.
  unfold parse_ack, parse_ack_with.
  destruct (rd_cases 4 bs) as [[e ->]|[v [r ->]]]; cbn [bind]; [discriminate|].
  destruct (negb _); [discriminate|].
  destruct (rd_cases 2 r) as [[e ->]|[v2 [r2 ->]]]; cbn [bind]; [discriminate|].
  pose proof (status_kind_no_panic v2). destruct (status_kind v2); cbn [bind]; try discriminate; [|contradiction].
  destruct (rd_cases 2 r2) as [[e ->]|[v3 [r3 ->]]]; cbn [bind]; [discriminate|].
  pose proof (scd_kind_of_no_panic v3). destruct (scd_kind_of v3); cbn [bind]; try discriminate; [|contradiction].
  destruct (rd_cases 2 r3) as [[e ->]|[v4 [r4 ->]]]; cbn [bind]; [discriminate|].
  destruct (rd_cases 2 r4) as [[e ->]|[v5 [r5 ->]]]; cbn [bind]; discriminate.
Qed.

Lemma view_write_total a : view_write a <> Panic.
Proof.
  unfold view_write.
  destruct (rd_cases 2 (a_raw_scd a)) as [[e ->]|[v [r ->]]]; cbn [bind]; [discriminate|].
  destruct (negb _); [discriminate|].
  destruct (rd_cases 2 r) as [[e ->]|[v2 [r2 ->]]]; cbn [bind]; discriminate.
Qed.

Lemma view_data_total a : view_data a <> Panic.
Proof. unfold view_data. destruct (_ <? _); discriminate. Qed.

Lemma on_recv_no_panic w n : fst (on_recv w n) <> Panic.
Proof.
  unfold on_recv. destruct (w_replies w) as [|r rest]; [discriminate|].
  destruct r; cbn [fst]; try discriminate; destruct (_ <? _); discriminate.
Qed.

Lemma on_send_no_panic w b : fst (on_send w b) <> Panic.
Proof.
  unfold on_send. destruct (w_plans w) as [|p r]; cbn [tp_send_err default_plan];
    [destruct (conform _ _); discriminate|].
  destruct (tp_send_err p); [discriminate|]. destruct (conform _ _); discriminate.
Qed.

(* ---- one transaction: total, bounded, genuine, and harmless when it fails ----------------------- *)

Definition ctl_kept (c c' : ctl) : Prop :=
  c_opened c' = c_opened c /\ c_next c' = c_next c /\ c_retry c' = c_retry c /\
  c_max_cmd c' = c_max_cmd c /\ c_max_ack c' = c_max_ack c /\ c_buflen c <= c_buflen c' /\
  c_abrm c' = c_abrm c /\ c_sbrm c' = c_sbrm c /\ c_sirm c' = c_sirm c.

Lemma ctl_kept_refl c : ctl_kept c c.
Proof. unfold ctl_kept. repeat split; try reflexivity; lia. Qed.

Definition recv_event (e : wev) : Prop := (exists n, e = WRecv n) \/ e = WRecvFail.

(* the receive loop: never panics; consumes at most [retry] receives; an Ok result is a parsed,
   successful acknowledge with the current request id and the expected kind; an error leaves the
   handle as it was *)
Lemma recv_loop_spec : forall fuel retry ek c w,
  exists x c' w', recv_loop fuel retry ek (c, w) = (x, (c', w')) /\ x <> Panic /\
    (exists evs, w_log w' = evs ++ w_log w /\ Forall recv_event evs /\ zlen evs <= Z.max 0 retry) /\
    w_segs w' = w_segs w /\ w_writes w' = w_writes w /\
    match x with
    | Ok a => a_status a = 0 /\ a_request_id a = c_next c /\ a_kind a = ek /\ a_kind a <> 4 /\
              (exists n bytes, w_log w' = WRecv n :: tl (w_log w') /\ parse_ack bytes = Ok a /\ zlen bytes = n) /\
              ctl_step c c'
    | _ => ctl_kept c c'
    end.
Proof.
  induction fuel as [|f IH]; intros retry ek c w.
  - cbn [recv_loop]. exists (Err (-1)), c, w. split; [reflexivity|]. split; [discriminate|].
    split; [exists []; split; [reflexivity|split; [constructor|rewrite zlen_nil; lia]]|].
    split; [reflexivity|]. split; [reflexivity|apply ctl_kept_refl].
  - cbn [recv_loop]. destruct (retry <=? 0) eqn:E.
    { exists (Err CE_IO), c, w. split; [reflexivity|]. split; [discriminate|].
      split; [exists []; split; [reflexivity|split; [constructor|rewrite zlen_nil; lia]]|].
      split; [reflexivity|]. split; [reflexivity|apply ctl_kept_refl]. }
    apply Z.leb_gt in E.
    assert (Hlog : forall w1 (x : outcome (list Z)), on_recv w (c_buflen c) = (x, w1) ->
              w_segs w1 = w_segs w /\ w_writes w1 = w_writes w /\
              exists e, w_log w1 = e :: w_log w /\ recv_event e /\
                        (forall bytes, x = Ok bytes -> e = WRecv (zlen bytes))).
    { intros w1 x Hx. unfold on_recv in Hx. destruct (w_replies w) as [|r rest].
      - inversion Hx; subst. cbn. repeat split; try reflexivity.
        exists WRecvFail. split; [reflexivity|]. split; [right; reflexivity|discriminate].
      - destruct r; cbn [w_logev w_set_log] in Hx;
          try (destruct (c_buflen c <? _) in Hx);
          inversion Hx; subst; cbn; repeat split; try reflexivity;
          (eexists; split; [reflexivity|]; split;
           [first [right; reflexivity|left; eexists; reflexivity]|
            intros bytes Hb; first [discriminate Hb|inversion Hb; reflexivity]]). }
    destruct (on_recv w (c_buflen c)) as [x w1] eqn:Hrecv.
    destruct (Hlog w1 x eq_refl) as [G1 [G2 [e [G3 [G4 G5]]]]].
    pose proof (on_recv_no_panic w (c_buflen c)) as Hnp. rewrite Hrecv in Hnp. cbn [fst] in Hnp.
    assert (Hone : exists evs, w_log w1 = evs ++ w_log w /\ Forall recv_event evs /\ zlen evs <= Z.max 0 retry).
    { exists [e]. split; [exact G3|]. split; [constructor; [exact G4|constructor]|]. unfold zlen. cbn [length]. lia. }
    destruct x as [bytes|er|]; [|
      exists (Err (ce_of_usb er)), c, w1; split; [reflexivity|]; split; [discriminate|];
      split; [exact Hone|]; split; [exact G1|]; split; [exact G2|apply ctl_kept_refl] | contradiction].
    pose proof (parse_ack_total bytes) as Hpt.
    destruct (parse_ack bytes) as [a|ep|] eqn:Hp; [|
      exists (Err CE_IO), c, w1; split; [reflexivity|]; split; [discriminate|];
      split; [exact Hone|]; split; [exact G1|]; split; [exact G2|apply ctl_kept_refl] | contradiction].
    destruct (negb (a_status a =? 0)) eqn:Es.
    { exists (Err CE_IO), c, w1. split; [reflexivity|]. split; [discriminate|].
      split; [exact Hone|]. split; [exact G1|]. split; [exact G2|apply ctl_kept_refl]. }
    destruct (negb (a_request_id a =? c_next c)) eqn:Er.
    { exists (Err CE_IO), c, w1. split; [reflexivity|]. split; [discriminate|].
      split; [exact Hone|]. split; [exact G1|]. split; [exact G2|apply ctl_kept_refl]. }
    apply negb_false_iff in Es, Er. apply Z.eqb_eq in Es, Er.
    destruct (a_kind a =? 4) eqn:E4.
    + pose proof (view_write_total a) as Hvt. unfold view_pending.
      destruct (view_write a) as [ms|ev|]; [|
        exists (Err CE_IO), c, w1; split; [reflexivity|]; split; [discriminate|];
        split; [exact Hone|]; split; [exact G1|]; split; [exact G2|apply ctl_kept_refl] | contradiction].
      destruct (IH (retry - 1) ek c w1) as [x2 [c2 [w2 [Hrun [Hnp2 [[evs [L1 [L2 L3]]] [S1 [S2 Hres]]]]]]]].
      exists x2, c2, w2. split; [exact Hrun|]. split; [exact Hnp2|].
      split.
      { exists (evs ++ [e]). split; [rewrite L1, G3, <- app_assoc; reflexivity|].
        split; [apply Forall_app; split; [exact L2|constructor; [exact G4|constructor]]|].
        rewrite zlen_app. unfold zlen at 2. cbn [length]. lia. }
      split; [rewrite S1; exact G1|]. split; [rewrite S2; exact G2|exact Hres].
    + destruct (negb (a_kind a =? ek)) eqn:Ek.
      { exists (Err CE_IO), c, w1. split; [reflexivity|]. split; [discriminate|].
        split; [exact Hone|]. split; [exact G1|]. split; [exact G2|apply ctl_kept_refl]. }
      apply negb_false_iff in Ek. apply Z.eqb_eq in Ek. apply Z.eqb_neq in E4.
      exists (Ok a), (c_set_next c (wrapu 16 (c_next c + 1))), w1.
      split; [reflexivity|]. split; [discriminate|]. split; [exact Hone|]. split; [exact G1|]. split; [exact G2|].
      split; [exact Es|]. split; [exact Er|]. split; [exact Ek|]. split; [exact E4|].
      split.
      { exists (zlen bytes), bytes. rewrite G3, (G5 bytes eq_refl). cbn [tl]. auto. }
      unfold ctl_step. cbn. repeat split; try reflexivity; lia.
Qed.

Lemma ctl_kept_buflen c n : c_buflen c <= n -> ctl_kept c (c_set_buflen c n).
Proof. intros H. unfold ctl_kept. cbn. repeat split; try reflexivity; lia. Qed.

Lemma ctl_kept_trans a b c : ctl_kept a b -> ctl_kept b c -> ctl_kept a c.
Proof.
  intros [A1 [A2 [A3 [A4 [A5 [A6 [A7 [A8 A9]]]]]]]] [B1 [B2 [B3 [B4 [B5 [B6 [B7 [B8 B9]]]]]]]].
  unfold ctl_kept. rewrite B1, B2, B3, B4, B5, B7, B8, B9. repeat split; try assumption; lia.
Qed.

Lemma ctl_kept_step a b c : ctl_kept a b -> ctl_step b c -> ctl_step a c.
Proof.
  intros [A1 [A2 [A3 [A4 [A5 [A6 [A7 [A8 A9]]]]]]]] [B1 [B2 [B3 [B4 [B5 [B6 [B7 [B8 B9]]]]]]]].
  unfold ctl_step. rewrite B1, B2, B3, B4, B5, B7, B8, B9, A2. repeat split; try assumption; lia.
Qed.

(* send_cmd: total; Ok is a genuine acknowledge of this request; an error does not corrupt the handle *)
Lemma send_cmd_spec cm c w :
  exists x c' w', send_cmd cm (c, w) = (x, (c', w')) /\ x <> Panic /\
    match x with
    | Ok a => a_status a = 0 /\ a_request_id a = c_next c /\ a_kind a = expected_ack_kind cm /\
              (exists n bytes, w_log w' = WRecv n :: tl (w_log w') /\ parse_ack bytes = Ok a /\ zlen bytes = n) /\
              ctl_step c c'
    | _ => ctl_kept c c'
    end.
Proof.
  unfold send_cmd. destruct (c_max_cmd c <? cmd_len cm).
  { exists (Err CE_INVALID_DEVICE), c, w. split; [reflexivity|]. split; [discriminate|apply ctl_kept_refl]. }
  set (need := Z.max (cmd_len cm) (maximum_ack_len cm)).
  set (c1 := if c_buflen c <? need then c_set_buflen c need else c).
  assert (K1 : ctl_kept c c1).
  { subst c1. destruct (c_buflen c <? need) eqn:B; [apply ctl_kept_buflen; lia|apply ctl_kept_refl]. }
  pose proof (on_send_no_panic w (serialize_vec cm (c_next c))) as Hnp.
  destruct (on_send w (serialize_vec cm (c_next c))) as [r w1]. cbn [fst] in Hnp.
  destruct r as [u|e|]; [|exists (Err (ce_of_usb e)), c1, w1; split; [reflexivity|]; split; [discriminate|exact K1]|contradiction].
  destruct (recv_loop_spec (S (Z.to_nat (c_retry c))) (c_retry c) (expected_ack_kind cm) c1 w1)
    as [x [c2 [w2 [Hrun [Hx [_ [_ [_ Hres]]]]]]]].
  exists x, c2, w2. split; [exact Hrun|]. split; [exact Hx|].
  pose proof K1 as [A1 [A2 _]].
  destruct x as [a|e|].
  - destruct Hres as [H1 [H2 [H3 [_ [H5 H6]]]]]. rewrite A2 in H2.
    repeat (split; [assumption|]). eapply ctl_kept_step; [exact K1|exact H6].
  - eapply ctl_kept_trans; [exact K1|exact Hres].
  - eapply ctl_kept_trans; [exact K1|exact Hres].
Qed.

(* ---- read ------------------------------------------------------------------------------------------ *)

Lemma read_loop_total chunk : forall fuel addr remaining acc c w,
  exists x s', read_loop fuel addr remaining chunk acc (c, w) = (x, s') /\ x <> Panic /\
               (forall d, x = Ok d -> zlen d = zlen acc + Z.max 0 remaining).
Proof.
  induction fuel as [|f IH]; intros addr remaining acc c w; cbn [read_loop].
  - exists (Err (-1)), (c, w). split; [reflexivity|]. split; discriminate.
  - destruct (remaining <=? 0) eqn:E.
    { exists (Ok acc), (c, w). split; [reflexivity|]. split; [discriminate|].
      intros d Hd. inversion Hd; subst. apply Z.leb_le in E. lia. }
    apply Z.leb_gt in E.
    destruct (send_cmd_spec (CRead addr (Z.min chunk remaining)) c w) as [x [c1 [w1 [Hs [Hnp _]]]]].
    unfold bindM at 1. rewrite Hs.
    destruct x as [a|e|]; [|exists (Err e), (c1, w1); split; [reflexivity|]; split; discriminate|contradiction].
    unfold bindM at 1. unfold lift at 1. pose proof (view_data_total a) as Hv.
    destruct (view_data a) as [data|e|]; [|exists (Err CE_IO), (c1, w1); split; [reflexivity|]; split; discriminate|contradiction].
    destruct (negb (zlen data =? Z.min chunk remaining)) eqn:En.
    { exists (Err CE_IO), (c1, w1). split; [reflexivity|]. split; discriminate. }
    apply negb_false_iff, Z.eqb_eq in En.
    destruct (IH (wrapu 64 (addr + Z.min chunk remaining)) (remaining - Z.min chunk remaining) (acc ++ data) c1 w1)
      as [x2 [s2 [Hrun [Hnp2 Hlen]]]].
    exists x2, s2. split; [exact Hrun|]. split; [exact Hnp2|].
    intros d Hd. rewrite (Hlen d Hd), zlen_app, En.
    destruct (Z_le_gt_dec chunk 0) as [L|G]; [|lia].
    (* chunk <= 0 cannot deliver: Z.min chunk remaining <= 0 = zlen data forces progress anyway *)
    pose proof (zlen_nonneg data). lia.
Qed.

Lemma ctl_read_total c w a n : c_max_ack c - 12 < 2 ^ 64 ->
  exists x s', ctl_read a n (c, w) = (x, s') /\ x <> Panic /\ (forall d, x = Ok d -> 0 <= n -> zlen d = n).
Proof.
  intros Hma. unfold ctl_read. unfold bindM at 1. unfold assert_open. cbn [fst].
  destruct (c_opened c); [|exists (Err CE_NOT_OPENED), (c, w); split; [reflexivity|]; split; discriminate].
  unfold bindM at 1. unfold verify_range.
  destruct ((a <? 0) || (2 ^ 64 <? a + n)); [exists (Err CE_INVALID_DATA), (c, w); split; [reflexivity|]; split; discriminate|].
  unfold ret at 1. unfold bindM at 1. unfold get_ctl. cbn [fst].
  unfold bindM at 1. unfold lift at 1. unfold read_chunks_init.
  destruct (c_max_ack c <=? ACK_HEADER_LENGTH) eqn:E;
    [exists (Err CE_IO), (c, w); split; [reflexivity|]; split; discriminate|].
  unfold ACK_HEADER_LENGTH in E. apply Z.leb_gt in E.
  unfold bindM at 1. unfold lift at 1. unfold maximum_read_length, chk_u, in_u, ACK_HEADER_LENGTH.
  destruct (0 <=? c_max_ack c - 12) eqn:E1; [|lia].
  destruct (c_max_ack c - 12 <? 2 ^ 64) eqn:E2; [|lia]. cbn [andb bind].
  set (chunk := if c_max_ack c - 12 <? 2 ^ 16 then c_max_ack c - 12 else 65535).
  assert (Hch : 1 <= chunk) by (subst chunk; destruct (c_max_ack c - 12 <? 2 ^ 16); lia).
  destruct (chunk =? 0) eqn:E0; [lia|].
  destruct (read_loop_total chunk (S (Z.to_nat n)) a n [] c w) as [x [s' [Hrun [Hnp Hlen]]]].
  exists x, s'. split; [exact Hrun|]. split; [exact Hnp|].
  intros d Hd Hn. rewrite (Hlen d Hd), zlen_nil. lia.
Qed.

(* ---- write ----------------------------------------------------------------------------------------- *)

Lemma write_loop_total data mx : forall fuel addr idx c w,
  0 <= idx <= zlen data -> zlen data <= 65527 -> 1 <= mx -> 0 <= addr -> addr + (zlen data - idx) <= 2 ^ 64 ->
  exists x s', write_loop fuel {| w_addr := addr; w_data := data; w_idx := idx; w_max := mx |} (c, w) = (x, s') /\
               x <> Panic.
Proof.
  induction fuel as [|f IH]; intros addr idx c w Hidx Hlen Hmx Ha H64; cbn [write_loop].
  - exists (Err (-1)), (c, w). split; [reflexivity|discriminate].
  - pose proof (zlen_nonneg data) as Hd0.
    unfold bindM at 1. unfold lift at 1. unfold write_next. cbn [w_idx w_data w_max w_addr].
    destruct (idx =? zlen data) eqn:E; [exists (Ok tt), (c, w); split; [reflexivity|discriminate]|].
    apply Z.eqb_neq in E.
    destruct (idx + mx <? zlen data) eqn:E2.
    + apply Z.ltb_lt in E2. set (chunk := take mx (drop idx data)).
      assert (Hzc : zlen chunk = mx) by (subst chunk; apply zlen_take; rewrite zlen_drop by lia; lia).
      rewrite write_mem_new_ok by lia. cbn [unwrap bind].
      unfold chk_u, in_u. destruct ((0 <=? addr + mx) && (addr + mx <? 2 ^ 64)) eqn:E3.
      2:{ apply andb_false_iff in E3. destruct E3 as [E3|E3]; [apply Z.leb_gt in E3|apply Z.ltb_ge in E3]; lia. }
      cbn [bind]. unfold bindM at 1. unfold lift at 1. rewrite mk_write_mkw by lia.
      destruct (send_cmd_spec (mkw addr chunk) c w) as [x [c1 [w1 [Hs [Hnp _]]]]].
      unfold bindM at 1. rewrite Hs.
      destruct x as [a|e|]; [|exists (Err e), (c1, w1); split; [reflexivity|discriminate]|contradiction].
      unfold bindM at 1. unfold lift at 1. pose proof (view_write_total a) as Hv.
      destruct (view_write a) as [n|e|]; [|exists (Err CE_IO), (c1, w1); split; [reflexivity|discriminate]|contradiction].
      destruct (negb (n =? zlen chunk)); [exists (Err CE_IO), (c1, w1); split; [reflexivity|discriminate]|].
      apply IH; lia.
    + apply Z.ltb_ge in E2. set (chunk := drop idx data).
      assert (Hzc : zlen chunk = zlen data - idx) by (subst chunk; apply zlen_drop; lia).
      rewrite write_mem_new_ok by lia. cbn [unwrap bind].
      unfold bindM at 1. unfold lift at 1. rewrite mk_write_mkw by lia.
      destruct (send_cmd_spec (mkw addr chunk) c w) as [x [c1 [w1 [Hs [Hnp _]]]]].
      unfold bindM at 1. rewrite Hs.
      destruct x as [a|e|]; [|exists (Err e), (c1, w1); split; [reflexivity|discriminate]|contradiction].
      unfold bindM at 1. unfold lift at 1. pose proof (view_write_total a) as Hv.
      destruct (view_write a) as [n|e|]; [|exists (Err CE_IO), (c1, w1); split; [reflexivity|discriminate]|contradiction].
      destruct (negb (n =? zlen chunk)); [exists (Err CE_IO), (c1, w1); split; [reflexivity|discriminate]|].
      apply IH; lia.
Qed.

Lemma write_blocks_total max_cmd : forall fuel addr data c w, 0 <= addr -> addr + zlen data <= 2 ^ 64 ->
  exists x s', write_blocks fuel addr data max_cmd (c, w) = (x, s') /\ x <> Panic.
Proof.
  induction fuel as [|f IH]; intros addr data c w Ha H64; cbn [write_blocks].
  - exists (Err (-1)), (c, w). split; [reflexivity|discriminate].
  - pose proof (zlen_nonneg data) as Hd0.
    destruct (zlen data =? 0) eqn:E; [exists (Ok tt), (c, w); split; [reflexivity|discriminate]|].
    apply Z.eqb_neq in E. set (block := take MAX_WRITE data).
    assert (Hzb : zlen block = Z.min MAX_WRITE (zlen data)).
    { subst block. unfold MAX_WRITE. destruct (Z_le_gt_dec 65527 (zlen data)).
      - rewrite zlen_take by lia. lia.
      - unfold take. rewrite firstn_all2 by (unfold zlen in *; lia). lia. }
    unfold MAX_WRITE in Hzb.
    unfold bindM at 1. unfold lift at 1. rewrite write_mem_new_ok by lia. cbn [fst snd].
    unfold bindM at 1. unfold lift at 1. unfold write_chunks_init, WRITE_HEADER_LEN.
    destruct (max_cmd <=? 20) eqn:E20; [exists (Err CE_IO), (c, w); split; [reflexivity|discriminate]|].
    apply Z.leb_gt in E20.
    destruct (write_loop_total block (max_cmd - 20) (S (length block)) addr 0 c w ltac:(lia) ltac:(lia) ltac:(lia) Ha ltac:(lia))
      as [x [[c1 w1] [Hrun Hnp]]].
    unfold bindM at 1. rewrite Hrun.
    destruct x as [u|e|]; [|exists (Err e), (c1, w1); split; [reflexivity|discriminate]|contradiction].
    assert (Hdrop : zlen (drop MAX_WRITE data) = zlen data - zlen block).
    { unfold MAX_WRITE. destruct (Z_le_gt_dec (zlen data) 65527) as [L|G].
      - unfold drop. rewrite skipn_all2 by (unfold zlen in *; lia). rewrite zlen_nil. lia.
      - rewrite zlen_drop by lia. lia. }
    destruct (Z.eq_dec (zlen (drop MAX_WRITE data)) 0) as [Z0|NZ].
    + destruct f as [|f']; [exists (Err (-1)), (c1, w1); split; [reflexivity|discriminate]|].
      cbn [write_blocks]. rewrite Z0. change (0 =? 0) with true. cbv iota.
      exists (Ok tt), (c1, w1). split; [reflexivity|discriminate].
    + assert (Hw : wrapu 64 (addr + zlen block) = addr + zlen block) by (unfold wrapu; apply Z.mod_small; lia).
      rewrite Hw. apply IH; lia.
Qed.

Lemma ctl_write_total c w a data : 0 <= a ->
  exists x s', ctl_write a data (c, w) = (x, s') /\ x <> Panic.
Proof.
  intros Ha. unfold ctl_write. unfold bindM at 1. unfold assert_open. cbn [fst].
  destruct (c_opened c); [|exists (Err CE_NOT_OPENED), (c, w); split; [reflexivity|discriminate]].
  unfold bindM at 1. unfold verify_range.
  destruct ((a <? 0) || (2 ^ 64 <? a + zlen data)) eqn:E; [exists (Err CE_INVALID_DATA), (c, w); split; [reflexivity|discriminate]|].
  apply orb_false_iff in E as [_ E]. apply Z.ltb_ge in E. unfold ret at 1. unfold bindM at 1. unfold get_ctl. cbn [fst].
  apply write_blocks_total; lia.
Qed.

(* ---- the pinned code --------------------------------------------------------------------------------- *)

(* ControlHandle::read of the pinned commit: no length check before copy_from_slice *)
Definition read_step_v0 (n : Z) (data : list Z) : outcome (list Z) :=
  if zlen data =? n then Ok data else Panic.

Lemma short_payload_v0_refuted : exists n data, read_step_v0 n data = Panic.
Proof. exists 8, [1; 2; 3; 4; 5; 6; 7]. reflexivity. Qed.

(* recv_loop of the pinned commit did not compare the acknowledge kind with the command *)
Lemma kind_checked a c w w1 bytes ek :
  on_recv w (c_buflen c) = (Ok bytes, w1) -> parse_ack bytes = Ok a -> a_status a = 0 ->
  a_request_id a = c_next c -> a_kind a <> 4 -> a_kind a <> ek ->
  fst (recv_loop 1 1 ek (c, w)) = Err CE_IO.
Proof.
  intros Hr Hp Hs Hi H4 Hk. cbn [recv_loop]. change (1 <=? 0) with false. cbv iota.
  rewrite Hr, Hp, Hs, Hi. cbn [Z.eqb negb]. rewrite Z.eqb_refl. cbn [negb].
  destruct (a_kind a =? 4) eqn:E; [apply Z.eqb_eq in E; contradiction|].
  destruct (a_kind a =? ek) eqn:E2; [apply Z.eqb_eq in E2; contradiction|]. reflexivity.
Qed.
