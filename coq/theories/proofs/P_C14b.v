(* Discharging the two hypotheses of C14 about DeviceControl::read (spec/ManifestSpec.v:
   honest_reads, conforming_reads) for concrete classes of handle/device states:
   - honest devices: every transaction may fail (libusb error on send or receive, time-out) or be
     delayed by pending acknowledges, but an acknowledge, when sent, is the conforming one;
   - conforming devices: moreover no transaction fails and fewer pending acknowledges than the
     retry limit precede each answer.
   Device memory is a list of segments inside the 64 bit address space separated by at least one
   unmapped byte. *)
From Cam Require Import Outcome Bytes Chunks Cmd Ack CmdLayout GenCPLayout Control P_C09 P_C08 P_C06 P_C07 ManifestSpec.

Lemma pair_inj {A B} (a a' : A) (b b' : B) : (a, b) = (a', b') -> a = a' /\ b = b'.
Proof. intros H. injection H. auto. Qed.

Lemma Some_inj {A} (a b : A) : Some a = Some b -> a = b.
Proof. intros H. injection H. auto. Qed.

(* ---- separated segments -------------------------------------------------------------------------- *)

Definition seg_apart (b : Z) (m : list Z) (s : Z * list Z) : Prop :=
  b + zlen m < fst s \/ fst s + zlen (snd s) < b.

Fixpoint segs_sep (segs : list (Z * list Z)) : Prop :=
  match segs with
  | [] => True
  | (b, m) :: r => 0 <= b /\ b + zlen m <= 2 ^ 64 /\ Forall (seg_apart b m) r /\ segs_sep r
  end.

Lemma seg_read_found segs a n d : seg_read segs a n = Some d ->
  exists b m, In (b, m) segs /\ b <= a /\ a - b + n <= zlen m /\ d = take n (drop (a - b) m).
Proof.
  induction segs as [|[b m] r IH]; cbn [seg_read]; [discriminate|].
  destruct ((b <=? a) && (a - b + n <=? zlen m)) eqn:E.
  - intros H. apply Some_inj in H. apply andb_true_iff in E as [E1 E2]. apply Z.leb_le in E1, E2.
    exists b, m. split; [left; reflexivity|]. auto.
  - intros H. destruct (IH H) as (b' & m' & Hin & H1 & H2 & H3). exists b', m'. split; [right; exact Hin|auto].
Qed.

Lemma take_drop_app (m : list Z) o n1 n2 : 0 <= o -> 0 <= n1 -> 0 <= n2 -> o + n1 + n2 <= zlen m ->
  take n1 (drop o m) ++ take n2 (drop (o + n1) m) = take (n1 + n2) (drop o m).
Proof.
  intros Ho H1 H2 Hl. rewrite (take_split n1 (n1 + n2)) by lia. f_equal.
  replace (n1 + n2 - n1) with n2 by lia. rewrite drop_drop by lia. reflexivity.
Qed.

(* two adjacent readable ranges are one readable range: a gap separates different segments *)
Lemma seg_read_concat segs : segs_sep segs -> forall a n1 n2 d1 d2, 0 < n1 -> 0 < n2 ->
  seg_read segs a n1 = Some d1 -> seg_read segs (a + n1) n2 = Some d2 ->
  seg_read segs a (n1 + n2) = Some (d1 ++ d2).
Proof.
  induction segs as [|[b m] r IH]; intros Hsep a n1 n2 d1 d2 H1 H2 R1 R2; [discriminate|].
  destruct Hsep as (Hb & Hb64 & Hap & Hr). cbn [seg_read] in *.
  destruct ((b <=? a) && (a - b + n1 <=? zlen m)) eqn:E1.
  - apply andb_true_iff in E1 as [E1a E1b]. apply Z.leb_le in E1a, E1b. apply Some_inj in R1.
    destruct ((b <=? a + n1) && (a + n1 - b + n2 <=? zlen m)) eqn:E2.
    + apply andb_true_iff in E2 as [E2a E2b]. apply Z.leb_le in E2a, E2b. apply Some_inj in R2.
      destruct ((b <=? a) && (a - b + (n1 + n2) <=? zlen m)) eqn:E3.
      * f_equal. subst d1 d2. replace (a + n1 - b) with ((a - b) + n1) by lia. symmetry. apply take_drop_app; lia.
      * apply andb_false_iff in E3. destruct E3 as [E3|E3]; [apply Z.leb_gt in E3|apply Z.leb_gt in E3]; lia.
    + (* the second range would come from a later segment: impossible, it touches this one *)
      exfalso. destruct (seg_read_found _ _ _ _ R2) as (b' & m' & Hin & G1 & G2 & _).
      rewrite Forall_forall in Hap. specialize (Hap _ Hin). unfold seg_apart in Hap. cbn [fst snd] in Hap.
      apply andb_false_iff in E2. destruct E2 as [E2|E2]; [apply Z.leb_gt in E2|apply Z.leb_gt in E2]; lia.
  - destruct ((b <=? a + n1) && (a + n1 - b + n2 <=? zlen m)) eqn:E2.
    + exfalso. apply andb_true_iff in E2 as [E2a E2b]. apply Z.leb_le in E2a, E2b.
      destruct (seg_read_found _ _ _ _ R1) as (b' & m' & Hin & G1 & G2 & _).
      rewrite Forall_forall in Hap. specialize (Hap _ Hin). unfold seg_apart in Hap. cbn [fst snd] in Hap.
      apply andb_false_iff in E1. destruct E1 as [E1|E1]; [apply Z.leb_gt in E1|apply Z.leb_gt in E1]; lia.
    + destruct ((b <=? a) && (a - b + (n1 + n2) <=? zlen m)) eqn:E3.
      * exfalso. apply andb_true_iff in E3 as [E3a E3b]. apply Z.leb_le in E3a, E3b.
        apply andb_false_iff in E1. destruct E1 as [E1|E1]; [apply Z.leb_gt in E1|apply Z.leb_gt in E1]; lia.
      * apply IH; assumption.
Qed.

Lemma seg_read_range_in segs : segs_sep segs -> forall a n d, 0 < n -> seg_read segs a n = Some d ->
  exists pre b m post, range_in segs a n pre b m post /\ d = take n (drop (a - b) m) /\ 0 <= a /\ a + n <= 2 ^ 64.
Proof.
  induction segs as [|[b m] r IH]; intros Hsep a n d Hn R; [discriminate|].
  destruct Hsep as (Hb & Hb64 & Hap & Hr). cbn [seg_read] in R.
  destruct ((b <=? a) && (a - b + n <=? zlen m)) eqn:E.
  - apply andb_true_iff in E as [Ea Eb]. apply Z.leb_le in Ea, Eb. apply Some_inj in R.
    exists [], b, m, r. split; [|split; [auto|lia]].
    unfold range_in. cbn [app]. repeat split; try reflexivity; try lia. constructor.
  - destruct (IH Hr a n d Hn R) as (pre & b' & m' & post & (Eq & G1 & G2 & G3 & G4) & Hd & Ha & H64).
    exists ((b, m) :: pre), b', m', post. split; [|auto].
    unfold range_in. cbn [app]. rewrite Eq. repeat split; try reflexivity; try lia.
    constructor; [|exact G4]. unfold away. cbn [fst snd].
    assert (Hin : In (b', m') r) by (rewrite Eq; apply in_or_app; right; left; reflexivity).
    rewrite Forall_forall in Hap. specialize (Hap _ Hin). unfold seg_apart in Hap. cbn [fst snd] in Hap. lia.
Qed.

(* ---- honest devices ----------------------------------------------------------------------------------- *)

Definition honest_reply (r : reply) : Prop :=
  match r with RPending ms => ms_ok ms | RConform es => es = [] | RRecvErr _ => True | RRaw _ => False end.
Definition plan_honest (p : txplan) : Prop := Forall honest_reply (tp_replies p).
Definition whonest (w : world) : Prop := Forall plan_honest (w_plans w).

Lemma plan_ok_honest R p : plan_ok R p -> plan_honest p.
Proof.
  intros (_ & mss & _ & Hms & Hr). unfold plan_honest. rewrite Hr. apply Forall_app. split.
  - apply Forall_forall. intros r Hin. apply in_map_iff in Hin as (ms & <- & Hin).
    rewrite Forall_forall in Hms. exact (Hms _ Hin).
  - constructor; [reflexivity|constructor].
Qed.

Lemma conf_whonest R w : conf R w -> whonest w.
Proof. unfold conf, whonest. apply Forall_impl. intros p. apply plan_ok_honest. Qed.

Definition recv_keeps (w w1 : world) : Prop :=
  w_plans w1 = w_plans w /\ w_cur_ack w1 = w_cur_ack w /\ w_cur_rid w1 = w_cur_rid w /\
  w_segs w1 = w_segs w /\ w_writes w1 = w_writes w /\ w_open_err w1 = w_open_err w.

Lemma on_recv_honest w n x w1 : Forall honest_reply (w_replies w) -> on_recv w n = (x, w1) ->
  recv_keeps w w1 /\ Forall honest_reply (w_replies w1) /\
  match x with
  | Ok bytes => bytes = w_cur_ack w \/ exists ms, ms_ok ms /\ bytes = enc_ack 0 2053 (w_cur_rid w) (enc_write_scd ms)
  | _ => True
  end.
Proof.
  intros Hh. unfold on_recv. destruct (w_replies w) as [|r rest] eqn:Hrep.
  - intros E. apply pair_inj in E as [<- <-]. unfold recv_keeps. cbn. rewrite Hrep. auto 10.
  - apply Forall_cons_iff in Hh as [Hr Hrest]. destruct r as [ms|es|bs|e]; cbn [honest_reply] in Hr.
    + cbn [w_cur_rid]. destruct (n <? _); intros E; apply pair_inj in E as [<- <-]; unfold recv_keeps; cbn; eauto 12.
    + subst es. cbn [fold_left w_cur_ack]. destruct (n <? _); intros E; apply pair_inj in E as [<- <-];
        unfold recv_keeps; cbn; auto 12.
    + contradiction.
    + intros E. apply pair_inj in E as [<- <-]. unfold recv_keeps. cbn. auto 10.
Qed.

(* against an honest device the receive loop returns Ok only with the parsed conforming acknowledge *)
Lemma recv_honest : forall fuel retry ek c w x c' w',
  Forall honest_reply (w_replies w) -> 0 <= w_cur_rid w < 65536 ->
  recv_loop fuel retry ek (c, w) = (x, (c', w')) ->
  recv_keeps w w' /\ match x with Ok a => parse_ack (w_cur_ack w) = Ok a | _ => True end.
Proof.
  induction fuel as [|f IH]; intros retry ek c w x c' w' Hh Hrid; cbn [recv_loop].
  - intros E. apply pair_inj in E as [<- E]. apply pair_inj in E as [_ <-]. unfold recv_keeps. auto 10.
  - destruct (retry <=? 0).
    { intros E. apply pair_inj in E as [<- E]. apply pair_inj in E as [_ <-]. unfold recv_keeps. auto 10. }
    destruct (on_recv w (c_buflen c)) as [r w1] eqn:Hr.
    destruct (on_recv_honest _ _ _ _ Hh Hr) as (K1 & Hh1 & Hb).
    assert (Kt : forall w2, recv_keeps w1 w2 -> recv_keeps w w2).
    { intros w2 (A1 & A2 & A3 & A4 & A5 & A6). destruct K1 as (B1 & B2 & B3 & B4 & B5 & B6).
      unfold recv_keeps. rewrite A1, A2, A3, A4, A5, A6. auto 10. }
    destruct r as [bytes|e|].
    2:{ intros E. apply pair_inj in E as [<- E]. apply pair_inj in E as [_ <-]. auto. }
    2:{ intros E. apply pair_inj in E as [<- E]. apply pair_inj in E as [_ <-]. auto. }
    destruct (parse_ack bytes) as [a|e|] eqn:Hp.
    2:{ intros E. apply pair_inj in E as [<- E]. apply pair_inj in E as [_ <-]. auto. }
    2:{ intros E. apply pair_inj in E as [<- E]. apply pair_inj in E as [_ <-]. auto. }
    destruct (negb (a_status a =? 0)).
    { intros E. apply pair_inj in E as [<- E]. apply pair_inj in E as [_ <-]. auto. }
    destruct (negb (a_request_id a =? c_next c)).
    { intros E. apply pair_inj in E as [<- E]. apply pair_inj in E as [_ <-]. auto. }
    destruct (a_kind a =? 4) eqn:E4.
    + destruct (view_pending a).
      * intros E. destruct K1 as (B1 & B2 & B3 & B4 & B5 & B6).
        destruct (IH _ _ _ _ _ _ _ Hh1 ltac:(rewrite B3; exact Hrid) E) as (K2 & Hx).
        split; [apply Kt; exact K2|]. destruct x; auto. rewrite <- B2. exact Hx.
      * intros E. apply pair_inj in E as [<- E]. apply pair_inj in E as [_ <-]. auto.
      * intros E. apply pair_inj in E as [<- E]. apply pair_inj in E as [_ <-]. auto.
    + destruct (negb (a_kind a =? ek)).
      { intros E. apply pair_inj in E as [<- E]. apply pair_inj in E as [_ <-]. auto. }
      intros E. apply pair_inj in E as [<- E]. apply pair_inj in E as [_ <-]. split; [exact K1|].
      destruct Hb as [->|(ms & Hms & ->)]; [exact Hp|].
      (* a pending acknowledge has kind 4: excluded *)
      exfalso. rewrite (accepts_conforming 0 0 2053 4 (w_cur_rid w) (enc_write_scd ms)) in Hp
        by (try reflexivity; try lia; rewrite zlen_enc_write_scd; lia).
      apply Ok_inj in Hp. subst a. cbn [a_kind] in E4. discriminate.
Qed.

Lemma conform_read_any w a n id : cmd_ok (CRead a n) -> 0 <= id < 2 ^ 16 ->
  conform w (serialize_vec (CRead a n) id) =
  (match seg_read (w_segs w) a n with Some d => enc_ack 0 2049 id d | None => enc_ack 32771 2049 id [] end,
   w_set_rid w id).
Proof.
  intros Hc Hid. unfold conform. rewrite (layout _ _ Hc Hid). cbn [abs_cmd].
  destruct (seg_read (w_segs w) a n); reflexivity.
Qed.

Lemma default_plan_honest : plan_honest default_plan.
Proof. unfold plan_honest, default_plan. cbn. constructor; [reflexivity|constructor]. Qed.

(* one ReadMem transaction against an honest device: an Ok result is the device memory *)
Lemma send_read_honest c w a n x c' w' :
  cmd_ok (CRead a n) -> 0 <= c_next c < 2 ^ 16 -> whonest w ->
  send_cmd (CRead a n) (c, w) = (x, (c', w')) ->
  w_segs w' = w_segs w /\ whonest w' /\ x <> Panic /\
  match x with
  | Ok ak => exists d, seg_read (w_segs w) a n = Some d /\ view_data ak = Ok d /\ ctl_step c c'
  | _ => ctl_kept c c'
  end /\ (w_plans w' = w_plans w \/ w_plans w' = skipn 1 (w_plans w)).
Proof.
  intros Hc Hid Hw. pose proof Hc as [Ha Hn].
  unfold send_cmd. change (cmd_len (CRead a n)) with 24.
  destruct (c_max_cmd c <? 24).
  { intros E. apply pair_inj in E as [<- E]. apply pair_inj in E as [<- <-].
    split; [reflexivity|]. split; [exact Hw|]. split; [discriminate|]. split; [apply ctl_kept_refl|left; reflexivity]. }
  set (need := Z.max 24 (maximum_ack_len (CRead a n))).
  set (c1 := if c_buflen c <? need then c_set_buflen c need else c).
  assert (K1 : ctl_kept c c1).
  { subst c1. destruct (c_buflen c <? need) eqn:B; [apply ctl_kept_buflen; lia|apply ctl_kept_refl]. }
  unfold on_send. fold (next_plan w).
  assert (Hp : plan_honest (fst (next_plan w)) /\ Forall plan_honest (snd (next_plan w)) /\
               snd (next_plan w) = skipn 1 (w_plans w)).
  { unfold next_plan, whonest in *. destruct (w_plans w) as [|p r]; cbn [fst snd skipn].
    - split; [apply default_plan_honest|]. split; [constructor|reflexivity].
    - apply Forall_cons_iff in Hw. destruct Hw. auto. }
  destruct (next_plan w) as [p rest]. cbn [fst snd] in Hp. destruct Hp as (Hp & Hrest & Hsk).
  destruct (tp_send_err p) as [e|].
  { intros E. apply pair_inj in E as [<- E]. apply pair_inj in E as [<- <-]. cbn [w_logev w_set_log w_segs w_plans].
    split; [reflexivity|]. split; [exact Hrest|]. split; [discriminate|]. split; [exact K1|right; exact Hsk]. }
  rewrite (conform_read_any _ a n (c_next c) Hc Hid).
  cbn [w_set_rid w_logev w_set_log w_segs w_plans w_replies w_cur_ack w_cur_rid w_log w_open_err w_writes].
  match goal with |- recv_loop ?f ?r ?k (c1, ?W) = _ -> _ => set (w1 := W); set (fu := f) end.
  intros E.
  destruct (recv_loop_spec fu (c_retry c) (expected_ack_kind (CRead a n)) c1 w1)
    as (x0 & c2 & w2 & Hrun & Hnp & _ & S1 & _ & Hres).
  rewrite E in Hrun. apply pair_inj in Hrun as [<- Hrun]. apply pair_inj in Hrun as [<- <-].
  destruct (recv_honest fu (c_retry c) (expected_ack_kind (CRead a n)) c1 w1 x c' w') as (K2 & Hx).
  { subst w1. cbn [w_replies]. exact Hp. } { subst w1. cbn [w_cur_rid]. exact Hid. } { exact E. }
  destruct K2 as (P1 & _ & _ & P4 & _ & _).
  split; [rewrite P4; subst w1; reflexivity|].
  split; [unfold whonest; rewrite P1; subst w1; cbn [w_plans]; exact Hrest|].
  split; [exact Hnp|].
  split; [|right; rewrite P1; subst w1; cbn [w_plans]; exact Hsk].
  destruct x as [ak|e|]; [|eapply ctl_kept_trans; [exact K1|exact Hres]|eapply ctl_kept_trans; [exact K1|exact Hres]].
  destruct Hres as (R1 & _ & _ & _ & _ & R6).
  subst w1. cbn [w_cur_ack w_segs] in Hx.
  destruct (seg_read (w_segs w) a n) as [d|] eqn:Hsr.
  - destruct (seg_read_found _ _ _ _ Hsr) as (b & m & _ & G1 & G2 & Hd).
    assert (Hzd : zlen d = n) by (subst d; rewrite zlen_take; [reflexivity|rewrite zlen_drop; lia]).
    rewrite (accepts_conforming 0 0 2049 0 (c_next c) d) in Hx by (try reflexivity; lia).
    apply Ok_inj in Hx. exists d. split; [reflexivity|]. split.
    + subst ak. apply view_data_conforming. reflexivity.
    + eapply ctl_kept_step; [exact K1|exact R6].
  - exfalso. rewrite (accepts_conforming 32771 3 2049 0 (c_next c) []) in Hx by (try reflexivity; try lia; rewrite zlen_nil; lia).
    apply Ok_inj in Hx. subst ak. cbn [a_status] in R1. discriminate.
Qed.

Definition ctl_cfg (c c' : ctl) : Prop :=
  c_opened c' = c_opened c /\ c_retry c' = c_retry c /\ c_max_cmd c' = c_max_cmd c /\
  c_max_ack c' = c_max_ack c /\ c_abrm c' = c_abrm c /\ c_sbrm c' = c_sbrm c /\ c_sirm c' = c_sirm c /\
  0 <= c_next c' < 2 ^ 16.

Lemma ctl_cfg_refl c : 0 <= c_next c < 2 ^ 16 -> ctl_cfg c c.
Proof. unfold ctl_cfg. auto 10. Qed.

Lemma ctl_cfg_kept c c' : 0 <= c_next c < 2 ^ 16 -> ctl_kept c c' -> ctl_cfg c c'.
Proof. intros H (A1 & A2 & A3 & A4 & A5 & _ & A7 & A8 & A9). unfold ctl_cfg. rewrite A2. auto 10. Qed.

Lemma ctl_cfg_step c c' : ctl_step c c' -> ctl_cfg c c'.
Proof.
  intros (A1 & A2 & A3 & A4 & A5 & _ & A7 & A8 & A9). unfold ctl_cfg. rewrite A2.
  repeat (split; [assumption|]). apply wrapu16_range.
Qed.

Lemma ctl_cfg_trans a b c : ctl_cfg a b -> ctl_cfg b c -> ctl_cfg a c.
Proof.
  intros (A1 & A2 & A3 & A4 & A5 & A6 & A7 & A8) (B1 & B2 & B3 & B4 & B5 & B6 & B7 & B8).
  unfold ctl_cfg. rewrite B1, B2, B3, B4, B5, B6, B7. auto 10.
Qed.

Lemma read_loop_honest chunk : 1 <= chunk < 2 ^ 16 -> forall fuel addr remaining acc c w x c' w',
  segs_sep (w_segs w) -> whonest w -> 0 <= c_next c < 2 ^ 16 -> 0 <= addr -> addr + remaining <= 2 ^ 64 ->
  read_loop fuel addr remaining chunk acc (c, w) = (x, (c', w')) ->
  w_segs w' = w_segs w /\ whonest w' /\ ctl_cfg c c' /\
  match x with
  | Ok d => (remaining <= 0 /\ d = acc) \/
            (0 < remaining /\ exists d', seg_read (w_segs w) addr remaining = Some d' /\ d = acc ++ d')
  | _ => True
  end /\ exists k, w_plans w' = skipn k (w_plans w).
Proof.
  intros Hch. induction fuel as [|f IH]; intros addr remaining acc c w x c' w' Hsep Hw Hid Ha H64; cbn [read_loop].
  - intros E. apply pair_inj in E as [<- E]. apply pair_inj in E as [<- <-].
    split; [reflexivity|]. split; [exact Hw|]. split; [apply ctl_cfg_refl; exact Hid|]. split; [exact I|exists 0%nat; reflexivity].
  - destruct (remaining <=? 0) eqn:E0.
    { intros E. apply pair_inj in E as [<- E]. apply pair_inj in E as [<- <-]. apply Z.leb_le in E0.
      split; [reflexivity|]. split; [exact Hw|]. split; [apply ctl_cfg_refl; exact Hid|].
      split; [left; auto|exists 0%nat; reflexivity]. }
    apply Z.leb_gt in E0. set (n := Z.min chunk remaining).
    assert (Hn : 1 <= n <= remaining /\ n <= chunk) by (subst n; lia).
    assert (Hc : cmd_ok (CRead addr n)) by (cbn [cmd_ok]; lia).
    unfold bindM at 1. destruct (send_cmd (CRead addr n) (c, w)) as [x1 [c1 w1]] eqn:Hs.
    destruct (send_read_honest _ _ _ _ _ _ _ Hc Hid Hw Hs) as (S1 & Hw1 & Hnp & Hres & Hpl).
    assert (Hpl1 : exists k, w_plans w1 = skipn k (w_plans w)).
    { destruct Hpl as [->| ->]; [exists 0%nat|exists 1%nat]; reflexivity. }
    destruct x1 as [ak|e|]; [| |contradiction].
    2:{ intros E. apply pair_inj in E as [<- E]. apply pair_inj in E as [<- <-].
        split; [exact S1|]. split; [exact Hw1|]. split; [apply ctl_cfg_kept; assumption|]. split; [exact I|exact Hpl1]. }
    destruct Hres as (d1 & Hsr & Hv & Hstep).
    destruct (seg_read_found _ _ _ _ Hsr) as (b & m & _ & G1 & G2 & Hd1).
    assert (Hzd : zlen d1 = n) by (subst d1; rewrite zlen_take; [reflexivity|rewrite zlen_drop; lia]).
    unfold bindM at 1. unfold lift at 1. rewrite Hv. rewrite Hzd, Z.eqb_refl. cbn [negb].
    pose proof (ctl_cfg_step _ _ Hstep) as Hcfg1. pose proof Hcfg1 as (_ & _ & _ & _ & _ & _ & _ & Hid1).
    intros E.
    destruct (Z.eq_dec (remaining - n) 0) as [Z0|NZ].
    + (* that was the last chunk *)
      rewrite Z0 in E. destruct f as [|f'].
      * cbn [read_loop] in E. apply pair_inj in E as [<- E]. apply pair_inj in E as [<- <-].
        split; [exact S1|]. split; [exact Hw1|]. split; [exact Hcfg1|]. split; [exact I|exact Hpl1].
      * cbn [read_loop] in E. change (0 <=? 0) with true in E. cbv iota in E. unfold ret in E.
        apply pair_inj in E as [<- E]. apply pair_inj in E as [<- <-].
        split; [exact S1|]. split; [exact Hw1|]. split; [exact Hcfg1|]. split; [|exact Hpl1]. right. split; [lia|].
        exists d1. replace remaining with n by lia. auto.
    + assert (Hwr : wrapu 64 (addr + n) = addr + n) by (unfold wrapu; apply Z.mod_small; lia).
      rewrite Hwr in E.
      destruct (IH (addr + n) (remaining - n) (acc ++ d1) c1 w1 x c' w' ltac:(rewrite S1; exact Hsep) Hw1 Hid1 ltac:(lia) ltac:(lia) E)
        as (S2 & Hw2 & Hcfg2 & Hx & (k2 & Hk2)).
      split; [rewrite S2; exact S1|]. split; [exact Hw2|]. split; [eapply ctl_cfg_trans; eassumption|].
      split.
      2:{ destruct Hpl1 as (k1 & Hk1). exists (k1 + k2)%nat. rewrite Hk2, Hk1. apply skipn_skipn_add. }
      destruct x as [d|e|]; auto. right. split; [lia|].
      destruct Hx as [[Hle _]|[_ (d2 & Hsr2 & ->)]]; [lia|].
      rewrite S1 in Hsr2. exists (d1 ++ d2). split; [|rewrite app_assoc; reflexivity].
      replace remaining with (n + (remaining - n)) by lia.
      apply seg_read_concat; try assumption; lia.
Qed.

(* ---- DeviceControl::read on honest and on conforming devices ---------------------------------------- *)

Definition good_honest (s : st) : Prop :=
  let '(c, w) := s in
  c_opened c = true /\ 12 < c_max_ack c < 2 ^ 32 /\ 0 <= c_next c < 2 ^ 16 /\ c_abrm c <> None /\
  whonest w /\ segs_sep (w_segs w).

Definition good_conf (s : st) : Prop :=
  let '(c, w) := s in
  good_honest (c, w) /\ 24 <= c_max_cmd c /\ 1 <= c_retry c /\ conf (c_retry c) w.

Lemma Forall_skipn' {A} (P : A -> Prop) k l : Forall P l -> Forall P (skipn k l).
Proof. apply Forall_skipn. Qed.

(* what one read does to an honest state *)
Lemma ctl_read_honest a n c w r c' w' : good_honest (c, w) -> ctl_read a n (c, w) = (r, (c', w')) ->
  good_honest (c', w') /\ w_segs w' = w_segs w /\ r <> Panic /\
  (forall d, r = Ok d -> mem_read (w_segs w) a n = Some d) /\
  ctl_cfg c c' /\ exists k, w_plans w' = skipn k (w_plans w).
Proof.
  intros (Ho & Hma & Hid & Hab & Hw & Hsep) E.
  destruct (ctl_read_total c w a n ltac:(change (2 ^ 64) with 18446744073709551616; change (2 ^ 32) with 4294967296 in Hma; lia))
    as (x0 & s0 & Hrun & Hnp & _). rewrite E in Hrun. apply pair_inj in Hrun as [<- _].
  assert (Triv : r = r -> (c', w') = (c, w) -> (forall d, r = Ok d -> False) ->
          good_honest (c', w') /\ w_segs w' = w_segs w /\ r <> Panic /\
          (forall d, r = Ok d -> mem_read (w_segs w) a n = Some d) /\
          ctl_cfg c c' /\ exists k, w_plans w' = skipn k (w_plans w)).
  { intros _ Es Hno. apply pair_inj in Es as [-> ->]. split; [unfold good_honest; auto 10|]. split; [reflexivity|].
    split; [exact Hnp|]. split; [intros d Hd; destruct (Hno d Hd)|]. split; [apply ctl_cfg_refl; exact Hid|exists 0%nat; reflexivity]. }
  revert E. unfold ctl_read. unfold bindM at 1. unfold assert_open. cbn [fst]. rewrite Ho.
  unfold bindM at 1. unfold verify_range.
  destruct ((a <? 0) || (2 ^ 64 <? a + n)) eqn:EV.
  { unfold fail. intros E. apply pair_inj in E as [<- E]. apply Triv; auto. discriminate. }
  apply orb_false_iff in EV as [EV1 EV2]. apply Z.ltb_ge in EV1, EV2.
  unfold ret at 1. unfold bindM at 1. unfold get_ctl. cbn [fst].
  unfold bindM at 1. unfold lift at 1. unfold read_chunks_init.
  destruct (c_max_ack c <=? ACK_HEADER_LENGTH) eqn:E12; [unfold ACK_HEADER_LENGTH in E12; lia|].
  unfold bindM at 1. unfold lift at 1. unfold maximum_read_length, chk_u, in_u, ACK_HEADER_LENGTH.
  destruct (0 <=? c_max_ack c - 12) eqn:E1; [|lia].
  destruct (c_max_ack c - 12 <? 2 ^ 64) eqn:E2;
    [|change (2 ^ 64) with 18446744073709551616 in E2; change (2 ^ 32) with 4294967296 in Hma; lia].
  cbn [andb bind]. fold (read_chunk (c_max_ack c)).
  assert (Hch : 1 <= read_chunk (c_max_ack c) < 2 ^ 16).
  { unfold read_chunk. destruct (c_max_ack c - 12 <? 2 ^ 16) eqn:E3; lia. }
  destruct (read_chunk (c_max_ack c) =? 0) eqn:E0; [lia|].
  intros E.
  destruct (read_loop_honest _ Hch _ _ _ _ _ _ _ _ _ Hsep Hw Hid EV1 EV2 E) as (S1 & Hw' & Hcfg & Hx & Hk).
  pose proof Hcfg as (C1 & C2 & C3 & C4 & C5 & C6 & C7 & C8).
  split.
  { unfold good_honest. rewrite C1, C4, C5, S1. auto 10. }
  split; [exact S1|]. split; [exact Hnp|]. split; [|split; [exact Hcfg|exact Hk]].
  intros d ->. unfold mem_read.
  destruct (a <? 0) eqn:A0; [lia|]. destruct (2 ^ 64 <? a + n) eqn:A1; [lia|]. cbn [orb].
  destruct Hx as [[Hle ->]|[Hpos (d' & Hsr & ->)]].
  - destruct (n <=? 0) eqn:N0; [reflexivity|lia].
  - destruct (n <=? 0) eqn:N0; [lia|]. cbn [app]. exact Hsr.
Qed.

Theorem honest_reads_honest : honest_reads good_honest.
Proof.
  split; [|split].
  - intros c w n (Ho & Hma & Hid & Hab & Hw & Hsep). unfold good_honest. cbn. auto 10.
  - intros [c w] (Ho & Hma & Hid & Hab & Hw & Hsep). exact Hab.
  - intros a n [c w] r [c' w'] Hg E. cbn [snd].
    destruct (ctl_read_honest _ _ _ _ _ _ _ Hg E) as (G & S & Hnp & Hd & _). auto.
Qed.

Theorem conforming_reads_conf : conforming_reads good_conf.
Proof.
  split; [split; [|split]|].
  - intros c w n ((Ho & Hma & Hid & Hab & Hw & Hsep) & Hmc & HR & Hc). unfold good_conf, good_honest. cbn. auto 12.
  - intros [c w] ((Ho & Hma & Hid & Hab & Hw & Hsep) & _). exact Hab.
  - intros a n [c w] r [c' w'] (Hg & Hmc & HR & Hc) E. cbn [snd].
    destruct (ctl_read_honest _ _ _ _ _ _ _ Hg E) as (G & S & Hnp & Hd & Hcfg & (k & Hk)).
    split; [|auto]. destruct Hcfg as (C1 & C2 & C3 & C4 & C5 & C6 & C7 & C8).
    unfold good_conf. rewrite C2, C3. split; [exact G|]. split; [exact Hmc|]. split; [exact HR|].
    unfold conf. rewrite Hk. apply Forall_skipn. exact Hc.
  - intros a n [c w] d ((Ho & Hma & Hid & Hab & Hw & Hsep) & Hmc & HR & Hc) Hm. cbn [snd] in Hm.
    unfold mem_read in Hm. destruct ((a <? 0) || (2 ^ 64 <? a + n)) eqn:EV; [discriminate|].
    apply orb_false_iff in EV as [EV1 EV2]. apply Z.ltb_ge in EV1, EV2.
    destruct (n <=? 0) eqn:N0.
    + (* nothing to read: no transaction *)
      apply Z.leb_le in N0. apply Some_inj in Hm. subst d.
      unfold ctl_read. unfold bindM at 1. unfold assert_open. cbn [fst]. rewrite Ho.
      unfold bindM at 1. unfold verify_range.
      destruct (a <? 0) eqn:A0; [lia|]. destruct (2 ^ 64 <? a + n) eqn:A1; [lia|]. cbn [orb].
      unfold ret at 1. unfold bindM at 1. unfold get_ctl. cbn [fst].
      unfold bindM at 1. unfold lift at 1. unfold read_chunks_init.
      destruct (c_max_ack c <=? ACK_HEADER_LENGTH) eqn:E12; [unfold ACK_HEADER_LENGTH in E12; lia|].
      unfold bindM at 1. unfold lift at 1. unfold maximum_read_length, chk_u, in_u, ACK_HEADER_LENGTH.
      destruct (0 <=? c_max_ack c - 12) eqn:E1; [|lia].
      destruct (c_max_ack c - 12 <? 2 ^ 64) eqn:E2;
        [|change (2 ^ 64) with 18446744073709551616 in E2; change (2 ^ 32) with 4294967296 in Hma; lia].
      cbn [andb bind]. fold (read_chunk (c_max_ack c)).
      destruct (read_chunk (c_max_ack c) =? 0) eqn:E0.
      { unfold read_chunk in E0. destruct (c_max_ack c - 12 <? 2 ^ 16); lia. }
      cbn [read_loop]. destruct (n <=? 0) eqn:N1; [|lia]. eexists. reflexivity.
    + apply Z.leb_gt in N0.
      destruct (seg_read_range_in _ Hsep _ _ _ N0 Hm) as (pre & b & m & post & Hri & Hd & _ & _).
      destruct (ctl_read_exact c w a n pre b m post Ho Hma Hmc Hid HR Hc Hri EV1 EV2) as (c' & w' & Hrun & _).
      exists (c', w'). rewrite Hrun, Hd. reflexivity.
Qed.

(* the hypotheses are satisfiable: a concrete conforming state (and therefore an honest one) *)
Definition ex_good_world : world :=
  {| w_segs := [(0, repeat 0 1024); (65536, repeat 1 256)]; w_plans := []; w_replies := []; w_cur_ack := [];
     w_cur_rid := 0; w_log := []; w_open_err := None; w_writes := [] |}.
Definition ex_good_ctl : ctl :=
  {| c_opened := true; c_next := 7; c_retry := 3; c_max_cmd := 1024; c_max_ack := 1024; c_buflen := 0;
     c_abrm := Some 0; c_sbrm := None; c_sirm := None |}.

Example good_conf_example : good_conf (ex_good_ctl, ex_good_world).
Proof.
  unfold good_conf, good_honest, ex_good_ctl, ex_good_world.
  cbn [c_opened c_max_ack c_next c_abrm c_max_cmd c_retry w_segs w_plans].
  assert (Hsep : segs_sep [(0, repeat 0 1024); (65536, repeat 1 256)]).
  { cbn [segs_sep]. change (zlen (repeat 0 1024)) with 1024. change (zlen (repeat 1 256)) with 256.
    split; [lia|]. split; [lia|]. split.
    - apply Forall_cons; [|apply Forall_nil]. unfold seg_apart. cbn [fst snd].
      change (zlen (repeat 0 1024)) with 1024. change (zlen (repeat 1 256)) with 256. lia.
    - split; [lia|]. split; [lia|]. split; [apply Forall_nil|exact I]. }
  split.
  - split; [reflexivity|]. split; [lia|]. split; [lia|]. split; [discriminate|].
    split; [apply Forall_nil|exact Hsep].
  - split; [lia|]. split; [lia|apply Forall_nil].
Qed.

(* ---- C06 restated over whole device memories (any number of separated segments) --------------------- *)

Lemma read_memory c w a n d : good_conf (c, w) -> mem_read (w_segs w) a n = Some d ->
  exists c' w', ctl_read a n (c, w) = (Ok d, (c', w')) /\ w_segs w' = w_segs w /\ good_conf (c', w').
Proof.
  intros Hg Hm. destruct conforming_reads_conf as [(_ & _ & Hh) Hc].
  destruct (Hc a n (c, w) d Hg Hm) as ([c' w'] & Hrun). exists c', w'. split; [exact Hrun|].
  destruct (Hh a n (c, w) (Ok d) (c', w') Hg Hrun) as (G & S & _). cbn [snd] in S. auto.
Qed.

Lemma write_memory c w a data old : good_conf (c, w) -> 0 < zlen data -> bytes_ok data ->
  mem_read (w_segs w) a (zlen data) = Some old ->
  exists c' w', ctl_write a data (c, w) = (Ok tt, (c', w')) /\ seg_write (w_segs w) a data = Some (w_segs w') /\
                mem_read (w_segs w') a (zlen data) = Some data.
Proof.
  intros ((Ho & Hma & Hid & Hab & Hw & Hsep) & Hmc & HR & Hc) Hpos Hb Hm.
  unfold mem_read in Hm. destruct ((a <? 0) || (2 ^ 64 <? a + zlen data)) eqn:EV; [discriminate|].
  apply orb_false_iff in EV as [EV1 EV2]. apply Z.ltb_ge in EV1, EV2.
  destruct (zlen data <=? 0) eqn:N0; [lia|].
  destruct (seg_read_range_in _ Hsep _ _ _ Hpos Hm) as (pre & b & m & post & Hri & _ & _ & _).
  destruct (ctl_write_exact c w a data pre b m post Ho ltac:(lia) Hid HR Hc Hb Hri EV1 EV2)
    as (c' & w' & Hrun & Hs & _).
  exists c', w'. split; [exact Hrun|]. pose proof Hri as (Eq & G1 & G2 & G3 & G4).
  split.
  - rewrite (seg_write_in _ _ _ _ _ _ _ a data Hri ltac:(lia) ltac:(lia)). rewrite Hs. reflexivity.
  - unfold mem_read. rewrite Hs.
    destruct (a <? 0) eqn:A0; [lia|]. destruct (2 ^ 64 <? a + zlen data) eqn:A1; [lia|]. cbn [orb]. rewrite N0.
    assert (Hri' : range_in (pre ++ (b, set_at (a - b) m data) :: post) a (zlen data) pre b (set_at (a - b) m data) post).
    { rewrite Eq in Hri. apply range_in_after_write; [exact Hri|lia|lia]. }
    rewrite (seg_read_in _ _ _ _ _ _ _ a (zlen data) Hri' ltac:(lia) ltac:(lia) ltac:(lia)).
    f_equal. unfold set_at.
    assert (E : drop (a - b) (take (a - b) m ++ data ++ drop (a - b + zlen data) m) = data ++ drop (a - b + zlen data) m).
    { pose proof (drop_app_exact (take (a - b) m) (data ++ drop (a - b + zlen data) m)) as X.
      rewrite zlen_take in X by lia. exact X. }
    rewrite E. apply take_app_exact.
Qed.
