From Cam Require Import Outcome Bytes Mem BitField RegCodec P_C01.

(* ---- 64-bit pattern <-> i64 ------------------------------------------------------------ *)

Lemma p64_range z : 0 <= p64 z < 2 ^ 64.
Proof. unfold p64, wrapu. apply Z.mod_pos_bound. lia. Qed.

Lemma s64_p64 z : - 2 ^ 63 <= z < 2 ^ 63 -> s64 (p64 z) = z.
Proof. intros H. unfold s64, p64, sw, wrapu. ev_pows. dlia. Qed.

Lemma p64_s64 p : 0 <= p < 2 ^ 64 -> p64 (s64 p) = p.
Proof. intros H. unfold s64, p64, sw, wrapu. ev_pows. dlia. Qed.

Lemma p64_small p : 0 <= p < 2 ^ 64 -> p64 p = p.
Proof. intros H. unfold p64, wrapu. apply Z.mod_small. exact H. Qed.

Lemma s64_small p : 0 <= p < 2 ^ 63 -> s64 p = p.
Proof. intros H. unfold s64, sw. ev_pows. dlia. Qed.

Lemma s64_high p : 2 ^ 63 <= p < 2 ^ 64 -> s64 p = p - 2 ^ 64.
Proof. intros H. unfold s64, sw. ev_pows. dlia. Qed.

Lemma s64_range p : - 2 ^ 63 <= s64 p < 2 ^ 63.
Proof. unfold s64, sw. ev_pows. dlia. Qed.

(* ---- the field: positions and specification ---------------------------------------------- *)

Definition field_ok (lsb msb : Z) : Prop := 0 <= lsb <= msb /\ msb <= 63.

Definition width (lsb msb : Z) : Z := msb - lsb + 1.

(* the bits of the field, as an unsigned number *)
Definition field_raw (lsb msb p : Z) : Z := (p / 2 ^ lsb) mod 2 ^ width lsb msb.

(* the value of the field as the API reports it *)
Definition spec_get (lsb msb sign reg : Z) : Z :=
  let f := field_raw lsb msb (p64 reg) in
  if sign =? 1 then sw (width lsb msb) f
  else if width lsb msb =? 64 then s64 f else f.

Definition spec_min (lsb msb sign : Z) : Z := if sign =? 1 then - 2 ^ (width lsb msb - 1) else 0.
Definition spec_max (lsb msb sign : Z) : Z :=
  if sign =? 1 then 2 ^ (width lsb msb - 1) - 1 else Z.min (2 ^ width lsb msb - 1) (2 ^ 63 - 1).

Lemma pow2_pos k : 0 <= k -> 0 < 2 ^ k.
Proof. intros. apply Z.pow_pos_nonneg; lia. Qed.

Lemma pow2_le a b : 0 <= a <= b -> 2 ^ a <= 2 ^ b.
Proof. intros. apply Z.pow_le_mono_r; lia. Qed.

Lemma pow2_lt a b : 0 <= a < b -> 2 ^ a < 2 ^ b.
Proof. intros. apply Z.pow_lt_mono_r; lia. Qed.

Lemma pow2_split a b : 0 <= a -> 0 <= b -> 2 ^ (a + b) = 2 ^ a * 2 ^ b.
Proof. intros. apply Z.pow_add_r; lia. Qed.

(* ---- min / max ----------------------------------------------------------------------------- *)

Lemma minmax_exact lsb msb sign : field_ok lsb msb ->
  bm_min lsb msb sign = spec_min lsb msb sign /\ bm_max lsb msb sign = spec_max lsb msb sign.
Proof.
  intros [H0 H1]. unfold bm_min, bm_max, spec_min, spec_max, width.
  destruct (msb - lsb =? 63) eqn:E.
  - apply Z.eqb_eq in E. replace (msb - lsb + 1) with 64 by lia. replace (msb - lsb) with 63 by lia.
    destruct (sign =? 1); split; try reflexivity.
  - apply Z.eqb_neq in E. replace (msb - lsb + 1 - 1) with (msb - lsb) by lia.
    destruct (sign =? 1); split; try reflexivity.
    assert (2 ^ (msb - lsb + 1) <= 2 ^ 63) by (apply pow2_le; lia). lia.
Qed.

(* ---- the mask as a pattern -------------------------------------------------------------------- *)

Definition mask_pat (lsb msb : Z) : Z := (2 ^ width lsb msb - 1) * 2 ^ lsb.

Lemma mask_pat_range lsb msb : field_ok lsb msb -> 0 <= mask_pat lsb msb < 2 ^ 64.
Proof.
  intros [H0 H1]. unfold mask_pat, width.
  pose proof (pow2_pos (msb - lsb + 1) ltac:(lia)). pose proof (pow2_pos lsb ltac:(lia)).
  split; [nia|].
  assert (2 ^ (msb - lsb + 1) * 2 ^ lsb <= 2 ^ 64).
  { rewrite <- pow2_split by lia. apply pow2_le. lia. }
  nia.
Qed.

Lemma mask_pattern lsb msb : field_ok lsb msb -> p64 (bm_mask lsb msb) = mask_pat lsb msb.
Proof.
  intros H. pose proof H as [H0 H1]. unfold bm_mask.
  destruct (msb - lsb =? 63) eqn:E.
  - apply Z.eqb_eq in E. assert (lsb = 0) by lia. assert (msb = 63) by lia. subst. reflexivity.
  - fold (width lsb msb). fold (mask_pat lsb msb).
    rewrite p64_s64 by apply p64_range. apply p64_small, mask_pat_range, H.
Qed.

Lemma mask_pat_shiftl lsb msb : field_ok lsb msb ->
  mask_pat lsb msb = Z.shiftl (Z.ones (width lsb msb)) lsb.
Proof.
  intros [H0 H1]. unfold mask_pat. rewrite Z.shiftl_mul_pow2 by lia. rewrite Z.ones_equiv. unfold Z.pred. lia.
Qed.

Lemma mask_testbit lsb msb i : field_ok lsb msb -> 0 <= i ->
  Z.testbit (mask_pat lsb msb) i = (lsb <=? i) && (i <=? msb).
Proof.
  intros H Hi. pose proof H as [H0 H1]. rewrite mask_pat_shiftl by exact H.
  unfold width. destruct (lsb <=? i) eqn:E1; cbn [andb].
  - rewrite Z.shiftl_spec by lia. destruct (i <=? msb) eqn:E2.
    + apply Z.ones_spec_low. lia.
    + apply Z.ones_spec_high. lia.
  - apply Z.shiftl_spec_low. lia.
Qed.

(* ---- reading --------------------------------------------------------------------------------- *)

Lemma land_mask_shiftr lsb msb p : field_ok lsb msb -> 0 <= p ->
  Z.shiftr (Z.land p (mask_pat lsb msb)) lsb = field_raw lsb msb p.
Proof.
  intros H Hp. pose proof H as [H0 H1]. rewrite mask_pat_shiftl by exact H.
  rewrite Z.shiftr_land. rewrite Z.shiftr_shiftl_l by lia. rewrite Z.sub_diag, Z.shiftl_0_r.
  rewrite Z.land_ones by (unfold width; lia). rewrite Z.shiftr_div_pow2 by lia. reflexivity.
Qed.

Lemma field_raw_range lsb msb p : field_ok lsb msb -> 0 <= field_raw lsb msb p < 2 ^ width lsb msb.
Proof. intros [H0 H1]. unfold field_raw. apply Z.mod_pos_bound. apply pow2_pos. unfold width. lia. Qed.

Lemma field_raw_lt lsb msb p : field_ok lsb msb -> 0 <= p < 2 ^ 64 -> field_raw lsb msb p < 2 ^ (64 - lsb).
Proof.
  intros [H0 H1] Hp. unfold field_raw.
  assert (p / 2 ^ lsb < 2 ^ (64 - lsb)).
  { apply Z.div_lt_upper_bound; [apply pow2_pos; lia|]. rewrite <- pow2_split by lia.
    replace (lsb + (64 - lsb)) with 64 by lia. lia. }
  pose proof (Z.mod_le (p / 2 ^ lsb) (2 ^ width lsb msb)
               ltac:(apply Z.div_pos; [lia|apply pow2_pos; lia]) ltac:(apply pow2_pos; unfold width; lia)).
  lia.
Qed.

Lemma sw_eq_sub w f : 1 <= w -> 0 <= f < 2 ^ w ->
  sw w f = if 2 ^ (w - 1) <=? f then f - 2 ^ w else f.
Proof.
  intros Hw Hf. unfold sw.
  assert (E : 2 ^ w = 2 * 2 ^ (w - 1)).
  { replace w with (1 + (w - 1)) at 1 by lia. rewrite pow2_split by lia. reflexivity. }
  pose proof (pow2_pos (w - 1) ltac:(lia)) as Hh. set (h := 2 ^ (w - 1)) in *. rewrite E in *.
  destruct (h <=? f) eqn:C.
  - apply Z.leb_le in C. replace (f + h) with ((f - h) + 1 * (2 * h)) by lia.
    rewrite Z.mod_add by lia. rewrite Z.mod_small by lia. lia.
  - apply Z.leb_gt in C. rewrite Z.mod_small by lia. lia.
Qed.

Lemma shiftr_top w f : 1 <= w -> 0 <= f < 2 ^ w ->
  (Z.shiftr f (w - 1) =? 1) = (2 ^ (w - 1) <=? f).
Proof.
  intros Hw Hf. rewrite Z.shiftr_div_pow2 by lia.
  assert (E : 2 ^ w = 2 * 2 ^ (w - 1)).
  { replace w with (1 + (w - 1)) at 1 by lia. rewrite pow2_split by lia. reflexivity. }
  pose proof (pow2_pos (w - 1) ltac:(lia)) as Hh. set (h := 2 ^ (w - 1)) in *. rewrite E in *.
  destruct (h <=? f) eqn:C.
  - apply Z.leb_le in C. apply Z.eqb_eq. symmetry. apply (Z.div_unique f h 1 (f - h)); lia.
  - apply Z.leb_gt in C. rewrite Z.div_small by lia. reflexivity.
Qed.

Lemma testbit_high f w i : 0 <= w -> 0 <= f < 2 ^ w -> w <= i -> Z.testbit f i = false.
Proof.
  intros Hw Hf Hi. destruct (Z.eq_dec f 0) as [->|Hne]; [apply Z.bits_0|].
  apply Z.bits_above_log2; [lia|]. apply Z.log2_lt_pow2; [lia|].
  eapply Z.lt_le_trans; [apply Hf|]. apply pow2_le. lia.
Qed.

Lemma lor_disjoint_high f w : 0 <= w < 64 -> 0 <= f < 2 ^ w ->
  Z.lor f (2 ^ 64 - 2 ^ w) = f + (2 ^ 64 - 2 ^ w).
Proof.
  intros Hw Hf.
  assert (E : 2 ^ 64 - 2 ^ w = Z.shiftl (Z.ones (64 - w)) w).
  { rewrite Z.shiftl_mul_pow2 by lia. rewrite Z.ones_equiv. unfold Z.pred.
    replace 64 with ((64 - w) + w) at 1 by lia. rewrite pow2_split by lia. lia. }
  rewrite E.
  assert (D : Z.land f (Z.shiftl (Z.ones (64 - w)) w) = 0).
  { apply Z.bits_inj'; intros i Hi. rewrite Z.land_spec, Z.bits_0.
    destruct (i <? w) eqn:C.
    - apply Z.ltb_lt in C. rewrite Z.shiftl_spec_low by lia. apply andb_false_r.
    - apply Z.ltb_ge in C. rewrite (testbit_high f w i) by lia. reflexivity. }
  rewrite <- Z.lxor_lor by exact D. symmetry. apply Z.add_nocarry_lxor. exact D.
Qed.

Lemma read_any lsb msb sign reg : field_ok lsb msb ->
  bm_apply lsb msb sign reg = spec_get lsb msb sign reg.
Proof.
  intros H. pose proof H as [H0 H1]. unfold bm_apply, spec_get.
  rewrite (mask_pattern lsb msb H).
  pose proof (p64_range reg) as Hp. set (p := p64 reg) in *.
  rewrite land_mask_shiftr by (auto; lia).
  pose proof (field_raw_range lsb msb p H) as Hf. pose proof (field_raw_lt lsb msb p H Hp) as Hf2.
  set (f := field_raw lsb msb p) in *. set (w := width lsb msb) in *.
  assert (Hw : 1 <= w <= 64) by (subst w; unfold width; lia).
  destruct (w =? 64) eqn:E64.
  - (* full-width field: lsb = 0, the value is the i64 itself *)
    apply Z.eqb_eq in E64. assert (lsb = 0) by (subst w; unfold width in *; lia).
    assert (msb = 63) by (subst w; unfold width in *; lia). subst lsb msb.
    replace (63 - 0) with 63 by lia.
    destruct (sign =? 1) eqn:Es; cbn [andb].
    + rewrite E64. fold (s64 f). pose proof (s64_range f).
      destruct (Z.shiftr (s64 f) 63 =? 1) eqn:Et; [|reflexivity].
      exfalso. apply Z.eqb_eq in Et. rewrite Z.shiftr_div_pow2 in Et by lia. ev_pows. dlia.
    + reflexivity.
  - apply Z.eqb_neq in E64.
    assert (Hf63 : f < 2 ^ 63).
    { eapply Z.lt_le_trans; [apply Hf|]. apply pow2_le. lia. }
    rewrite (s64_small f) by lia.
    replace (msb - lsb) with (w - 1) by (subst w; unfold width; lia).
    destruct (sign =? 1) eqn:Es; cbn [andb]; [|reflexivity].
    rewrite shiftr_top by lia. rewrite sw_eq_sub by lia.
    destruct (2 ^ (w - 1) <=? f) eqn:C; [|reflexivity].
    (* sign extension *)
    assert (Hm : Z.shiftr (mask_pat lsb msb) lsb = 2 ^ w - 1).
    { rewrite mask_pat_shiftl by exact H. rewrite Z.shiftr_shiftl_l by lia.
      rewrite Z.sub_diag, Z.shiftl_0_r, Z.ones_equiv. reflexivity. }
    rewrite Hm.
    assert (Hw63 : 2 ^ w <= 2 ^ 63) by (apply pow2_le; lia).
    pose proof (pow2_pos w ltac:(lia)).
    rewrite (s64_small (2 ^ w - 1)) by lia.
    replace (Z.lxor (-1) (2 ^ w - 1)) with (- 2 ^ w).
    2:{ rewrite Z.lxor_comm, Z.lxor_m1_r. unfold Z.lnot, Z.pred. lia. }
    rewrite (p64_small f) by lia.
    replace (p64 (- 2 ^ w)) with (2 ^ 64 - 2 ^ w).
    2:{ unfold p64, wrapu. apply (Z.mod_unique_pos _ _ (-1)); lia. }
    rewrite lor_disjoint_high by lia.
    apply Z.leb_le in C. pose proof (pow2_pos (w - 1) ltac:(lia)).
    rewrite s64_high; [lia|].
    assert (E2 : 2 ^ w = 2 * 2 ^ (w - 1)).
    { replace w with (1 + (w - 1)) at 1 by lia. rewrite pow2_split by lia. reflexivity. }
    lia.
Qed.

(* ---- writing ----------------------------------------------------------------------------------- *)

Definition mbit (lsb msb i : Z) : bool := (lsb <=? i) && (i <=? msb).

(* the register pattern produced by masked_value *)
Definition new_pat (lsb msb old v : Z) : Z :=
  Z.lor (Z.land (p64 old) (Z.lxor (2 ^ 64 - 1) (mask_pat lsb msb)))
        (Z.land (p64 (p64 v * 2 ^ lsb)) (mask_pat lsb msb)).

Lemma testbit_p64 z i : 0 <= i -> Z.testbit (p64 z) i = (i <? 64) && Z.testbit z i.
Proof.
  intros Hi. unfold p64, wrapu. destruct (i <? 64) eqn:C; cbn [andb].
  - apply Z.mod_pow2_bits_low. lia.
  - apply Z.mod_pow2_bits_high. lia.
Qed.

Lemma testbit_ones64 i : 0 <= i -> Z.testbit (2 ^ 64 - 1) i = (i <? 64).
Proof.
  intros Hi. change (2 ^ 64 - 1) with (Z.ones 64). destruct (i <? 64) eqn:C.
  - apply Z.ones_spec_low. lia.
  - apply Z.ones_spec_high. lia.
Qed.

Lemma testbit_shifted v lsb i : 0 <= lsb -> 0 <= i ->
  Z.testbit (p64 (p64 v * 2 ^ lsb)) i = (i <? 64) && (lsb <=? i) && Z.testbit v (i - lsb).
Proof.
  intros Hl Hi. rewrite testbit_p64 by lia. destruct (i <? 64) eqn:C; cbn [andb]; [|reflexivity].
  rewrite <- Z.shiftl_mul_pow2 by lia.
  destruct (lsb <=? i) eqn:D; cbn [andb].
  - rewrite Z.shiftl_spec by lia. rewrite testbit_p64 by lia.
    destruct (i - lsb <? 64) eqn:E; [reflexivity|lia].
  - apply Z.shiftl_spec_low. lia.
Qed.

Lemma new_pat_testbit lsb msb old v i : field_ok lsb msb -> 0 <= i ->
  Z.testbit (new_pat lsb msb old v) i =
  if mbit lsb msb i then Z.testbit v (i - lsb) else (i <? 64) && Z.testbit old i.
Proof.
  intros H Hi. pose proof H as [H0 H1]. unfold new_pat.
  rewrite Z.lor_spec, !Z.land_spec, Z.lxor_spec, testbit_ones64, testbit_shifted, mask_testbit, testbit_p64
    by (auto; lia).
  unfold mbit. destruct (lsb <=? i) eqn:A; destruct (i <=? msb) eqn:B; destruct (i <? 64) eqn:C;
    cbn [andb orb xorb negb]; try lia;
    rewrite ?andb_false_r, ?andb_true_r, ?orb_false_r, ?orb_false_l; reflexivity.
Qed.

Lemma bits_bound q n : 0 <= n -> 0 <= q -> (forall i, n <= i -> Z.testbit q i = false) -> q < 2 ^ n.
Proof.
  intros Hn Hq Hb. destruct (Z.eq_dec q 0) as [->|Hne]; [apply pow2_pos; lia|].
  apply Z.log2_lt_pow2; [lia|].
  destruct (Z_lt_le_dec (Z.log2 q) n) as [L|L]; [exact L|].
  exfalso. pose proof (Z.bit_log2 q ltac:(lia)) as T. rewrite (Hb _ L) in T. discriminate.
Qed.

Lemma new_pat_range lsb msb old v : field_ok lsb msb -> 0 <= new_pat lsb msb old v < 2 ^ 64.
Proof.
  intros H. pose proof H as [H0 H1]. pose proof (mask_pat_range lsb msb H). pose proof (p64_range old).
  pose proof (p64_range (p64 v * 2 ^ lsb)).
  assert (N : 0 <= new_pat lsb msb old v).
  { unfold new_pat. apply Z.lor_nonneg. split; apply Z.land_nonneg; lia. }
  split; [exact N|]. apply bits_bound; [lia|exact N|].
  intros i Hi. rewrite new_pat_testbit by (auto; lia). unfold mbit.
  destruct (lsb <=? i) eqn:A; destruct (i <=? msb) eqn:B; cbn [andb]; try lia;
    destruct (i <? 64) eqn:C; try lia; reflexivity.
Qed.

Lemma bm_masked_ok lsb msb sign old v : field_ok lsb msb ->
  spec_min lsb msb sign <= v <= spec_max lsb msb sign ->
  bm_masked lsb msb sign old v = Ok (s64 (new_pat lsb msb old v)).
Proof.
  intros H Hr. destruct (minmax_exact lsb msb sign H) as [E1 E2].
  unfold bm_masked. rewrite E1, E2.
  destruct (spec_max lsb msb sign <? v) eqn:A; [lia|].
  destruct (v <? spec_min lsb msb sign) eqn:B; [lia|]. cbn [orb].
  rewrite (mask_pattern lsb msb H). reflexivity.
Qed.

Lemma bm_masked_out_of_range lsb msb sign old v : field_ok lsb msb ->
  v < spec_min lsb msb sign \/ spec_max lsb msb sign < v ->
  bm_masked lsb msb sign old v = Err E_INVALID_DATA.
Proof.
  intros H Hr. destruct (minmax_exact lsb msb sign H) as [E1 E2].
  unfold bm_masked. rewrite E1, E2.
  destruct (spec_max lsb msb sign <? v) eqn:A; [reflexivity|].
  destruct (v <? spec_min lsb msb sign) eqn:B; [reflexivity|]. lia.
Qed.

(* isolation: no bit outside [lsb, msb] changes *)
Lemma write_isolated lsb msb sign old v nv i : field_ok lsb msb ->
  bm_masked lsb msb sign old v = Ok nv -> 0 <= i < 64 -> mbit lsb msb i = false ->
  Z.testbit (p64 nv) i = Z.testbit (p64 old) i.
Proof.
  intros H Hm Hi Hb. unfold bm_masked in Hm.
  destruct (_ || _) in Hm; [discriminate|]. apply Ok_inj in Hm; subst nv.
  rewrite (mask_pattern lsb msb H). fold (new_pat lsb msb old v).
  rewrite p64_s64 by (apply new_pat_range; exact H).
  rewrite new_pat_testbit by (auto; lia). rewrite Hb. rewrite testbit_p64 by lia. reflexivity.
Qed.

Lemma field_raw_testbit lsb msb q j : field_ok lsb msb -> 0 <= j ->
  Z.testbit (field_raw lsb msb q) j = (j <? width lsb msb) && Z.testbit q (j + lsb).
Proof.
  intros [H0 H1] Hj. unfold field_raw.
  destruct (j <? width lsb msb) eqn:C; cbn [andb].
  - rewrite Z.mod_pow2_bits_low by lia. rewrite <- Z.shiftr_div_pow2 by lia. apply Z.shiftr_spec. lia.
  - apply Z.mod_pow2_bits_high. unfold width in *. lia.
Qed.

Lemma field_raw_new lsb msb old v : field_ok lsb msb ->
  field_raw lsb msb (new_pat lsb msb old v) = v mod 2 ^ width lsb msb.
Proof.
  intros H. pose proof H as [H0 H1]. apply Z.bits_inj'. intros j Hj.
  rewrite field_raw_testbit by (auto; lia).
  destruct (j <? width lsb msb) eqn:C; cbn [andb].
  - rewrite Z.mod_pow2_bits_low by lia. rewrite new_pat_testbit by (auto; lia).
    unfold mbit, width in *. destruct (lsb <=? j + lsb) eqn:A; [|lia].
    destruct (j + lsb <=? msb) eqn:B; [|lia]. cbn [andb]. f_equal. lia.
  - symmetry. apply Z.mod_pow2_bits_high. unfold width in *. lia.
Qed.

Lemma sw_mod w v : 1 <= w -> - 2 ^ (w - 1) <= v < 2 ^ (w - 1) -> sw w (v mod 2 ^ w) = v.
Proof.
  intros Hw Hv. unfold sw.
  assert (E : 2 ^ w = 2 * 2 ^ (w - 1)).
  { replace w with (1 + (w - 1)) at 1 by lia. rewrite pow2_split by lia. reflexivity. }
  pose proof (pow2_pos (w - 1) ltac:(lia)) as Hh. set (h := 2 ^ (w - 1)) in *. rewrite E.
  rewrite Zplus_mod_idemp_l. rewrite Z.mod_small by lia. lia.
Qed.

(* read-back: an in-range value written to the field is the value the field then reads as *)
Lemma write_readback lsb msb sign old v nv : field_ok lsb msb ->
  spec_min lsb msb sign <= v <= spec_max lsb msb sign ->
  bm_masked lsb msb sign old v = Ok nv -> bm_apply lsb msb sign nv = v.
Proof.
  intros H Hr Hm. pose proof H as [H0 H1]. rewrite bm_masked_ok in Hm by assumption.
  apply Ok_inj in Hm; subst nv. rewrite read_any by exact H. unfold spec_get.
  rewrite p64_s64 by (apply new_pat_range; exact H). rewrite field_raw_new by exact H.
  unfold spec_min, spec_max in Hr. set (w := width lsb msb) in *.
  assert (Hw : 1 <= w <= 64) by (subst w; unfold width; lia).
  destruct (sign =? 1).
  - apply sw_mod; lia.
  - destruct (w =? 64) eqn:E.
    + apply Z.eqb_eq in E. rewrite E in *. ev_pows. rewrite Z.mod_small by lia. apply s64_small. ev_pows. lia.
    + apply Z.eqb_neq in E. assert (2 ^ w <= 2 ^ 63) by (apply pow2_le; lia).
      apply Z.mod_small. lia.
Qed.

(* ---- sibling fields ------------------------------------------------------------------------------ *)

(* a field's reading depends only on its own bits *)
Lemma spec_get_ext lsb msb sign a b : field_ok lsb msb ->
  (forall i, 0 <= i < 64 -> mbit lsb msb i = true -> Z.testbit (p64 a) i = Z.testbit (p64 b) i) ->
  spec_get lsb msb sign a = spec_get lsb msb sign b.
Proof.
  intros H Hb. pose proof H as [H0 H1]. unfold spec_get.
  replace (field_raw lsb msb (p64 a)) with (field_raw lsb msb (p64 b)); [reflexivity|].
  apply Z.bits_inj'. intros j Hj. rewrite !field_raw_testbit by (auto; lia).
  destruct (j <? width lsb msb) eqn:C; cbn [andb]; [|reflexivity].
  symmetry. apply Hb; unfold mbit, width in *; [lia|].
  destruct (lsb <=? j + lsb) eqn:A; [|lia]. destruct (j + lsb <=? msb) eqn:B; [reflexivity|lia].
Qed.

Definition disjoint (f g : Z * Z) : Prop := snd f < fst g \/ snd g < fst f.

(* writing one field leaves the reading of a disjoint sibling unchanged *)
Lemma sibling_unchanged lsb msb sign l2 m2 s2 old v nv :
  field_ok lsb msb -> field_ok l2 m2 -> disjoint (lsb, msb) (l2, m2) ->
  bm_masked lsb msb sign old v = Ok nv ->
  bm_apply l2 m2 s2 nv = bm_apply l2 m2 s2 old.
Proof.
  intros H H2 D Hm. rewrite !read_any by exact H2. apply spec_get_ext; [exact H2|].
  intros i Hi Hb. apply (write_isolated lsb msb sign old v nv i H Hm Hi).
  unfold mbit, disjoint in *. cbn [fst snd] in D.
  apply andb_true_iff in Hb as [A B]. apply Z.leb_le in A, B.
  apply andb_false_iff. destruct D; [right|left]; apply Z.leb_gt; lia.
Qed.

(* any finite interleaving of in-range writes to pairwise disjoint sibling fields:
   every field reads as the last value written to it (or its initial reading) *)
Record field := { f_lsb : Z; f_msb : Z; f_sign : Z }.

Definition f_ok (f : field) : Prop := field_ok (f_lsb f) (f_msb f).
Definition f_in_range (f : field) (v : Z) : Prop :=
  spec_min (f_lsb f) (f_msb f) (f_sign f) <= v <= spec_max (f_lsb f) (f_msb f) (f_sign f).
Definition f_get (f : field) (reg : Z) : Z := bm_apply (f_lsb f) (f_msb f) (f_sign f) reg.
Definition f_put (f : field) (reg v : Z) : outcome Z := bm_masked (f_lsb f) (f_msb f) (f_sign f) reg v.

Fixpoint run_writes (fs : list field) (reg : Z) (ws : list (nat * Z)) : outcome Z :=
  match ws with
  | [] => Ok reg
  | (k, v) :: r =>
    match nth_error fs k with
    | None => Err (-1)
    | Some f => let? reg' := f_put f reg v in run_writes fs reg' r
    end
  end.

Fixpoint last_write (k : nat) (ws : list (nat * Z)) (dflt : Z) : Z :=
  match ws with
  | [] => dflt
  | (k', v) :: r => last_write k r (if Nat.eqb k k' then v else dflt)
  end.

Definition pairwise_disjoint (fs : list field) : Prop :=
  forall i j f g, i <> j -> nth_error fs i = Some f -> nth_error fs j = Some g ->
                  disjoint (f_lsb f, f_msb f) (f_lsb g, f_msb g).

Definition writes_ok (fs : list field) (ws : list (nat * Z)) : Prop :=
  Forall (fun w => exists f, nth_error fs (fst w) = Some f /\ f_in_range f (snd w)) ws.

Lemma siblings fs : Forall f_ok fs -> pairwise_disjoint fs ->
  forall ws reg, writes_ok fs ws ->
  exists reg', run_writes fs reg ws = Ok reg' /\
    forall k f, nth_error fs k = Some f -> f_get f reg' = last_write k ws (f_get f reg).
Proof.
  intros Fok Dis ws. induction ws as [|[k v] ws IH]; intros reg Hw.
  - exists reg. split; [reflexivity|]. intros; reflexivity.
  - inversion Hw as [|w ws' [f [Hf Hr]] Hws]; subst. cbn [fst snd] in *.
    cbn [run_writes]. rewrite Hf.
    assert (Hfok : f_ok f) by (rewrite Forall_forall in Fok; apply Fok; eapply nth_error_In; eauto).
    unfold f_put. rewrite bm_masked_ok by assumption. cbn [bind].
    set (reg1 := s64 (new_pat (f_lsb f) (f_msb f) reg v)).
    destruct (IH reg1 Hws) as [reg' [Hrun Hget]]. exists reg'. split; [exact Hrun|].
    intros k2 g Hg. rewrite (Hget k2 g Hg). cbn [last_write]. f_equal.
    assert (Hm : bm_masked (f_lsb f) (f_msb f) (f_sign f) reg v = Ok reg1)
      by (apply bm_masked_ok; assumption).
    destruct (Nat.eqb k2 k) eqn:E.
    + apply Nat.eqb_eq in E. subst k2. rewrite Hf in Hg. inversion Hg; subst g.
      unfold f_get. eapply write_readback; eauto.
    + apply Nat.eqb_neq in E. unfold f_get.
      assert (Hgok : f_ok g) by (rewrite Forall_forall in Fok; apply Fok; eapply nth_error_In; eauto).
      eapply sibling_unchanged; [exact Hfok|exact Hgok| |exact Hm].
      eapply Dis; [|exact Hf|exact Hg]. congruence.
Qed.

(* ---- the pinned code ---------------------------------------------------------------------------------- *)

Lemma apply_v0_refuted :
  exists reg, bm_apply_v0 32 63 0 reg = Ok (-1) /\ spec_get 32 63 0 reg = 4294967295.
Proof. exists (-1). split; vm_compute; reflexivity. Qed.

Lemma max_v0_refuted : bm_max_v0 0 62 0 = Panic /\ spec_max 0 62 0 = 2 ^ 63 - 1.
Proof. split; vm_compute; reflexivity. Qed.

Example siblings_example :
  run_writes [{| f_lsb := 0; f_msb := 3; f_sign := 0 |}; {| f_lsb := 4; f_msb := 7; f_sign := 1 |}]
             0 [(0%nat, 5); (1%nat, -2); (0%nat, 9)] = Ok 233.
Proof. vm_compute. reflexivity. Qed.

(* ---- node level: MaskedIntReg::{value,set_value} through the device ------------------------------ *)

Lemma pow256 n : 256 ^ Z.of_nat n = 2 ^ (8 * Z.of_nat n).
Proof. change 256 with (2 ^ 8). rewrite <- Z.pow_mul_r by lia. reflexivity. Qed.

Lemma of_le_int_image z len e : 0 <= len -> of_le (order e (int_image z len e)) = z mod 2 ^ (8 * len).
Proof.
  intros Hl. unfold int_image. rewrite order_involutive. apply of_le_le_bytes.
  rewrite pow256, Z2Nat.id by lia. apply Z.mod_pos_bound. apply pow2_pos. lia.
Qed.

Lemma testbit_mod_low a k i : 0 <= i < k -> Z.testbit (a mod 2 ^ k) i = Z.testbit a i.
Proof. intros H. apply Z.mod_pow2_bits_low. lia. Qed.

Lemma testbit_p64_low z i : 0 <= i < 64 -> Z.testbit (p64 z) i = Z.testbit z i.
Proof. intros H. rewrite testbit_p64 by lia. destruct (i <? 64) eqn:C; [reflexivity|lia]. Qed.

(* value() of any image, keeping track of everything the next step needs *)
Lemma int_value_full r n d : supported_int_len (r_len r) = true -> bytes_ok (d_mem d) ->
  in_dev d (r_addr r) (r_len r) ->
  exists z d', int_value r n d = (Ok z, d') /\ d_log d' = RdAcc (r_addr r) (r_len r) :: d_log d /\
    d_mem d' = d_mem d /\ d_base d' = d_base d /\ d_rej d' = d_rej d /\
    z mod 2 ^ (8 * r_len r) = of_le (order (r_endian r) (take (r_len r) (drop (r_addr r - d_base d) (d_mem d)))).
Proof.
  intros Hs Hb Hin.
  assert (Hl : 0 <= r_len r) by (destruct (supported_cases _ Hs) as [E|[E|[E|E]]]; rewrite E; lia).
  destruct (dev_read_spec d (r_addr r) (r_len r) Hin) as [d' [Hr [Hlog [Hm [Hba Hrej]]]]].
  set (bs := take (r_len r) (drop (r_addr r - d_base d) (d_mem d))) in *.
  assert (Hzl : zlen bs = r_len r).
  { subst bs. destruct Hin as [A [B _]]. rewrite zlen_take; [reflexivity|]. rewrite zlen_drop; lia. }
  assert (Hbb : bytes_ok bs) by (subst bs; apply bytes_ok_take, bytes_ok_drop, Hb).
  destruct (int_decode_any bs (r_endian r) (n_sign n) Hbb) as [z [Hz [Hi _]]].
  { rewrite Hzl. exact Hs. }
  exists z, d'. unfold int_value, reg_read. rewrite Z.eqb_refl. cbn [negb]. rewrite Hr. cbn [bind2 ret].
  rewrite Hz. repeat (split; [assumption || reflexivity|]).
  rewrite <- Hi. rewrite Hzl. symmetry. apply of_le_int_image. exact Hl.
Qed.

Lemma writes_of_rd a n l : writes_of (RdAcc a n :: l) = writes_of l.
Proof. reflexivity. Qed.
Lemma writes_of_wr a bs l : writes_of (WrAcc a bs :: l) = WrAcc a bs :: writes_of l.
Proof. reflexivity. Qed.

Lemma node_out_of_range_no_write r n v d l m :
  supported_int_len (r_len r) = true -> bytes_ok (d_mem d) -> in_dev d (r_addr r) (r_len r) ->
  norm_field r n = Ok (l, m) -> field_ok l m ->
  v < spec_min l m (n_sign n) \/ spec_max l m (n_sign n) < v ->
  exists d', mir_set_value r n v d = (Err E_INVALID_DATA, d') /\
             writes_of (d_log d') = writes_of (d_log d) /\ d_mem d' = d_mem d.
Proof.
  intros Hs Hb Hin Hn Hf Hv.
  destruct (int_value_full r n d Hs Hb Hin) as [z [d0 [Hv0 [Hlog0 [Hm0 _]]]]].
  exists d0. unfold mir_set_value. rewrite Hv0. cbn [bind2]. rewrite Hn. cbn [bind].
  rewrite bm_masked_out_of_range by assumption.
  split; [reflexivity|]. rewrite Hlog0. split; [apply writes_of_rd|exact Hm0].
Qed.

Lemma node_set_then_value r n v d l m :
  supported_int_len (r_len r) = true -> bytes_ok (d_mem d) -> in_dev d (r_addr r) (r_len r) ->
  norm_field r n = Ok (l, m) -> field_ok l m -> m < 8 * r_len r ->
  spec_min l m (n_sign n) <= v <= spec_max l m (n_sign n) ->
  exists d1 d2 img,
    mir_set_value r n v d = (Ok tt, d1) /\
    writes_of (d_log d1) = WrAcc (r_addr r) img :: writes_of (d_log d) /\ zlen img = r_len r /\
    same_outside d d1 (r_addr r) (r_len r) /\
    mir_value r n d1 = (Ok v, d2) /\
    (forall i, 0 <= i < 8 * r_len r -> mbit l m i = false ->
       Z.testbit (of_le (order (r_endian r) img)) i =
       Z.testbit (of_le (order (r_endian r) (take (r_len r) (drop (r_addr r - d_base d) (d_mem d))))) i).
Proof.
  intros Hs Hb Hin Hn Hf Hm8 Hv.
  assert (HL : 0 <= r_len r /\ 8 * r_len r <= 64)
    by (destruct (supported_cases _ Hs) as [E|[E|[E|E]]]; rewrite E; lia).
  destruct HL as [Hl Hl64].
  destruct (int_value_full r n d Hs Hb Hin) as [z0 [d0 [Hv0 [Hlog0 [Hm0 [Hb0 [Hrej0 Hz0]]]]]]].
  set (nv := s64 (new_pat l m z0 v)).
  assert (Hmk : bm_masked l m (n_sign n) z0 v = Ok nv) by (apply bm_masked_ok; assumption).
  set (img := int_image nv (r_len r) (r_endian r)).
  assert (Hzi : zlen img = r_len r) by (subst img; apply zlen_int_image; exact Hl).
  assert (Hin0 : in_dev d0 (r_addr r) (r_len r)).
  { destruct Hin as [A [B C]]. unfold in_dev. rewrite Hb0, Hm0, Hrej0. auto. }
  destruct (dev_write_spec d0 (r_addr r) img) as [d1 [Hw [Hlog1 [Hout [Hrej1 Hrd]]]]].
  { rewrite Hzi. exact Hin0. }
  rewrite Hzi in *.
  assert (Hb1 : bytes_ok (d_mem d1)).
  { destruct Hout as [O1 [O2 [O3 O4]]].
    rewrite <- (take_drop (r_addr r - d_base d0) (d_mem d1)). apply bytes_ok_app.
    - rewrite O3, Hm0. apply bytes_ok_take, Hb.
    - rewrite <- (take_drop (r_len r) (drop (r_addr r - d_base d0) (d_mem d1))). apply bytes_ok_app.
      + rewrite Hrd. subst img. unfold int_image. apply bytes_ok_order, le_bytes_ok.
      + rewrite drop_drop by (destruct Hin0; lia). rewrite O4, Hm0. apply bytes_ok_drop, Hb. }
  assert (Hin1 : in_dev d1 (r_addr r) (r_len r)).
  { destruct Hin0 as [A [B C]]. destruct Hout as [O1 [O2 _]]. unfold in_dev. rewrite O1, O2. auto. }
  destruct (int_value_full r n d1 Hs Hb1 Hin1) as [z1 [d2 [Hv1 [_ [_ [_ [_ Hz1]]]]]]].
  assert (Ob : d_base d1 = d_base d0) by (destruct Hout as [O1 _]; exact O1).
  rewrite Ob, Hrd in Hz1. subst img. rewrite of_le_int_image in Hz1 by exact Hl.
  exists d1, d2, (int_image nv (r_len r) (r_endian r)).
  split.
  { unfold mir_set_value. rewrite Hv0. cbn [bind2]. rewrite Hn. cbn [bind]. rewrite Hmk.
    unfold int_set_value. rewrite bytes_from_int_image by exact Hs.
    unfold reg_write. rewrite Hzi, Z.eqb_refl. cbn [negb]. exact Hw. }
  split; [rewrite Hlog1, Hlog0, writes_of_wr, writes_of_rd; reflexivity|].
  split; [exact Hzi|].
  split.
  { destruct Hout as [O1 [O2 [O3 O4]]]. unfold same_outside. rewrite <- Hb0, <- Hm0. auto. }
  assert (Hbits : forall i, 0 <= i < 8 * r_len r -> Z.testbit (p64 z1) i = Z.testbit (p64 nv) i).
  { intros i Hi. rewrite !testbit_p64_low by lia.
    rewrite <- (testbit_mod_low z1 (8 * r_len r)) by lia. rewrite Hz1. apply testbit_mod_low. lia. }
  split.
  { unfold mir_value. rewrite Hv1. cbn [bind2 ret]. rewrite Hn. cbn [bind]. unfold ret. f_equal. f_equal.
    rewrite (read_any l m _ z1 Hf). rewrite <- (write_readback l m (n_sign n) z0 v nv Hf Hv Hmk).
    rewrite (read_any l m _ nv Hf). apply spec_get_ext; [exact Hf|].
    intros i Hi Hbi. apply Hbits. unfold mbit in Hbi. apply andb_true_iff in Hbi as [_ B].
    apply Z.leb_le in B. lia. }
  intros i Hi Hbi. rewrite of_le_int_image by exact Hl. rewrite <- Hz0.
  rewrite !testbit_mod_low by lia. rewrite <- (testbit_p64_low nv), <- (testbit_p64_low z0) by lia.
  apply (write_isolated l m (n_sign n) z0 v nv i Hf Hmk); [lia|exact Hbi].
Qed.
