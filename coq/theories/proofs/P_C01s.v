(* The register value codecs as translated from genapi/src/utils.rs on every run (gen/CodecSrc.v, tools/translate_codec.py)
   are the hand-written model model/RegCodec.v, for every byte slice / value / length. *)
From Cam Require Import Outcome Bytes Mem RustBytes RegCodec P_C01 CodecSrc.

Definition flag (x : Z) : Prop := x = 0 \/ x = 1.

Lemma zlen_length {A} (l : list A) n : zlen l = Z.of_nat n -> length l = n.
Proof. unfold zlen. lia. Qed.

Lemma rev_order e bs : (if (e =? 1) then rev bs else bs) = order e bs -> True.
Proof. auto. Qed.

(* the unsigned images of fewer than eight bytes are non-negative i64 values *)
Lemma of_le_small bs n : bytes_ok bs -> length bs = n -> (n < 8)%nat -> sw 64 (of_le bs) = of_le bs.
Proof.
  intros Hb Hl Hn. pose proof (of_le_bound bs Hb) as B. rewrite Hl in B.
  assert (P : 256 ^ Z.of_nat n <= 256 ^ 7) by (apply Z.pow_le_mono_r; lia).
  change (256 ^ 7) with 72057594037927936 in P.
  unfold sw. change (2 ^ (64 - 1)) with 9223372036854775808. change (2 ^ 64) with 18446744073709551616.
  rewrite Z.mod_small by lia. lia.
Qed.

Lemma c_from_bytes_eq w sg be bs n : zlen bs = n -> n = w / 8 ->
  c_from_bytes w sg be bs = Ok (let u := of_le (if be then rev bs else bs) in if sg then sw w u else u).
Proof. intros H1 H2. unfold c_from_bytes. rewrite H1, H2, Z.eqb_refl. reflexivity. Qed.

Lemma int_from_source bs e s : bytes_ok bs -> flag e -> flag s ->
  src_int_from_slice bs e s = int_from_slice bs e s.
Proof.
  intros Hb He Hs. unfold src_int_from_slice, int_from_slice, supported_int_len, order.
  assert (Hr : bytes_ok (rev bs)) by (apply bytes_ok_rev; exact Hb).
  assert (Lr : length (rev bs) = length bs) by apply rev_length.
  destruct (Z.eqb_spec (zlen bs) 8) as [L8|N8];
    [|destruct (Z.eqb_spec (zlen bs) 4) as [L4|N4];
      [|destruct (Z.eqb_spec (zlen bs) 2) as [L2|N2];
        [|destruct (Z.eqb_spec (zlen bs) 1) as [L1|N1]]]].
  - destruct He as [-> | ->]; destruct Hs as [-> | ->]; cbn [Z.eqb Pos.eqb andb orb negb];
      rewrite (c_from_bytes_eq 64 _ _ bs 8 L8 eq_refl); cbn [omap]; rewrite ?L8; reflexivity.
  - assert (L : length bs = 4%nat) by (apply zlen_length; exact L4).
    destruct He as [-> | ->]; destruct Hs as [-> | ->]; cbn [Z.eqb Pos.eqb andb orb negb];
      rewrite (c_from_bytes_eq 32 _ _ bs 4 L4 eq_refl); cbn [omap]; rewrite ?L4; cbn [Z.eqb Pos.eqb andb orb negb];
      try reflexivity; f_equal; apply (of_le_small _ 4%nat); auto; lia.
  - assert (L : length bs = 2%nat) by (apply zlen_length; exact L2).
    destruct He as [-> | ->]; destruct Hs as [-> | ->]; cbn [Z.eqb Pos.eqb andb orb negb];
      rewrite (c_from_bytes_eq 16 _ _ bs 2 L2 eq_refl); cbn [omap]; rewrite ?L2; cbn [Z.eqb Pos.eqb andb orb negb];
      try reflexivity; f_equal; apply (of_le_small _ 2%nat); auto; lia.
  - assert (L : length bs = 1%nat) by (apply zlen_length; exact L1).
    destruct He as [-> | ->]; destruct Hs as [-> | ->]; cbn [Z.eqb Pos.eqb andb orb negb];
      rewrite (c_from_bytes_eq 8 _ _ bs 1 L1 eq_refl); cbn [omap]; rewrite ?L1; cbn [Z.eqb Pos.eqb andb orb negb];
      try reflexivity; f_equal; apply (of_le_small _ 1%nat); auto; lia.
  - destruct (zlen bs =? 1) eqn:E1; [apply Z.eqb_eq in E1; contradiction|].
    cbn [andb orb negb]. reflexivity.
Qed.

Lemma c_to_bytes_eq w be len v : len = w / 8 ->
  c_to_bytes w be len v = Ok (let img := le_bytes (Z.to_nat (w / 8)) (v mod 2 ^ w) in if be then rev img else img).
Proof. intros H. unfold c_to_bytes. rewrite H, Z.eqb_refl. reflexivity. Qed.

Lemma bytes_from_int_source v len e s : flag e -> flag s ->
  src_bytes_from_int v len e s = bytes_from_int v len e s.
Proof.
  intros He Hs. unfold src_bytes_from_int, bytes_from_int, supported_int_len, order.
  destruct (Z.eqb_spec len 8) as [->|N8];
    [|destruct (Z.eqb_spec len 4) as [->|N4];
      [|destruct (Z.eqb_spec len 2) as [->|N2];
        [|destruct (Z.eqb_spec len 1) as [->|N1]]]].
  - destruct He as [-> | ->]; destruct Hs as [-> | ->]; cbn [Z.eqb Pos.eqb andb orb negb];
      rewrite (c_to_bytes_eq 64 _ 8 v eq_refl); reflexivity.
  - destruct He as [-> | ->]; destruct Hs as [-> | ->]; cbn [Z.eqb Pos.eqb andb orb negb];
      rewrite (c_to_bytes_eq 32 _ 4 v eq_refl); reflexivity.
  - destruct He as [-> | ->]; destruct Hs as [-> | ->]; cbn [Z.eqb Pos.eqb andb orb negb];
      rewrite (c_to_bytes_eq 16 _ 2 v eq_refl); reflexivity.
  - destruct He as [-> | ->]; destruct Hs as [-> | ->]; cbn [Z.eqb Pos.eqb andb orb negb];
      rewrite (c_to_bytes_eq 8 _ 1 v eq_refl); reflexivity.
  - cbn [andb orb negb]. reflexivity.
Qed.

Lemma float_from_source bs e : flag e -> src_float_from_slice bs e = float_from_slice bs e.
Proof.
  intros He. unfold src_float_from_slice, float_from_slice, order.
  destruct (Z.eqb_spec (zlen bs) 8) as [L8|N8]; [|destruct (Z.eqb_spec (zlen bs) 4) as [L4|N4]].
  - destruct He as [-> | ->]; cbn [Z.eqb Pos.eqb andb];
      rewrite (c_from_bytes_eq 64 _ _ bs 8 L8 eq_refl); reflexivity.
  - destruct He as [-> | ->]; cbn [Z.eqb Pos.eqb andb];
      rewrite (c_from_bytes_eq 32 _ _ bs 4 L4 eq_refl); reflexivity.
  - cbn [andb]. reflexivity.
Qed.

Lemma le_bytes_mod64 v : le_bytes 8 (v mod 2 ^ 64) = le_bytes 8 v.
Proof. change (2 ^ 64) with (256 ^ Z.of_nat 8). apply le_bytes_mod. Qed.
Lemma le_bytes_mod32 v : le_bytes 4 (v mod 2 ^ 32) = le_bytes 4 v.
Proof. change (2 ^ 32) with (256 ^ Z.of_nat 4). apply le_bytes_mod. Qed.

Lemma bytes_from_float_source bits len e : flag e ->
  src_bytes_from_float bits len e = bytes_from_float bits len e.
Proof.
  intros He. unfold src_bytes_from_float, bytes_from_float, order.
  destruct (Z.eqb_spec len 8) as [->|N8]; [|destruct (Z.eqb_spec len 4) as [->|N4]].
  - destruct He as [-> | ->]; cbn [Z.eqb Pos.eqb andb];
      rewrite (c_to_bytes_eq 64 _ 8 bits eq_refl); cbv zeta; change (Z.to_nat (64 / 8)) with 8%nat;
      rewrite le_bytes_mod64; reflexivity.
  - destruct He as [-> | ->]; cbn [Z.eqb Pos.eqb andb];
      rewrite (c_to_bytes_eq 32 _ 4 _ eq_refl); cbv zeta; change (Z.to_nat (32 / 8)) with 4%nat;
      rewrite le_bytes_mod32; reflexivity.
  - cbn [andb]. destruct (e =? 0); destruct (e =? 1); reflexivity.
Qed.

(* the round trip of the property, of the translated code itself *)
Lemma source_int_roundtrip v len e s : flag e -> flag s -> supported_int_len len = true -> int_in_range len s v ->
  exists img, src_bytes_from_int v len e s = Ok img /\ zlen img = len /\ src_int_from_slice img e s = Ok v.
Proof.
  intros He Hs Hl Hr. rewrite bytes_from_int_source by assumption.
  exists (int_image v len e). split; [apply bytes_from_int_image; exact Hl|].
  assert (L0 : 0 <= len) by (destruct (supported_cases len Hl) as [->|[->|[->| ->]]]; lia).
  split; [apply zlen_int_image; exact L0|].
  rewrite int_from_source; [apply int_roundtrip; assumption| |assumption|assumption].
  unfold int_image. apply bytes_ok_order. apply le_bytes_ok.
Qed.
