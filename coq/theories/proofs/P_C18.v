(* C18 — proofs.  Model: model/Access.v, specification: spec/AccessSpec.v. *)
From Cam Require Import Outcome Access AccessSpec.
Local Open Scope nat_scope.

(* ------------------------------------------------------------------ combinators *)
Lemma andl_true : forall a b, a &&? b = Ok true <-> a = Ok true /\ b = Ok true.
Proof. intros [[|]|e|] b; simpl; intuition congruence. Qed.

Lemma all_amp_true : forall f l acc,
  all_amp f l acc = Ok true <-> acc = true /\ forall m, In m l -> f m = Ok true.
Proof.
  intros f l; induction l as [|x r IH]; intros acc; simpl.
  - split; [intros H; split; [congruence|tauto] | intros [-> _]; reflexivity].
  - destruct (f x) as [[|]|e|] eqn:E; simpl.
    + rewrite IH, andb_true_r. split; intros [A B]; split; auto.
      intros m [<-|Hm]; auto.
    + rewrite IH, andb_false_r. split; [intros [A _]; discriminate|].
      intros [_ B]. specialize (B x (or_introl eq_refl)). congruence.
    + split; [discriminate|]. intros [_ B]. specialize (B x (or_introl eq_refl)). congruence.
    + split; [discriminate|]. intros [_ B]. specialize (B x (or_introl eq_refl)). congruence.
Qed.

Lemma select_entry_for : forall i es d, select i es d = entry_for i es d.
Proof.
  intros i es d; unfold entry_for; induction es as [|[j x] r IH]; simpl; auto.
  destruct (j =? i)%Z; auto.
Qed.

Lemma select_refs : forall i es d m,
  In m (iop_refs (select i es d)) -> In m (flat_map (fun e => iop_refs (snd e)) es ++ iop_refs d).
Proof.
  intros i es d m; induction es as [|[j x] r IH]; simpl; auto.
  destruct (j =? i)%Z; intros H.
  - apply in_or_app; left. apply in_or_app; left; exact H.
  - apply IH in H. apply in_app_or in H as [H|H]; apply in_or_app; [left|right; exact H].
    apply in_or_app; right; exact H.
Qed.

(* kind classes: the model's tables against the specification's *)
Lemma is_iinteger_spec k : is_iinteger k = true <-> IntegerKind k.
Proof. destruct k; simpl; intuition discriminate. Qed.
Lemma is_numeric_spec k : is_numeric k = true <-> NumericKind k.
Proof. unfold NumericKind; destruct k; simpl; intuition (discriminate || auto). Qed.
Lemma is_varkind_spec k : is_varkind k = true <-> VarKind k.
Proof. unfold VarKind, NumericKind; destruct k; simpl; intuition (discriminate || auto). Qed.
Lemma is_istring_spec k : is_istring k = true <-> StringKind k.
Proof. destruct k; simpl; intuition discriminate. Qed.
Lemma nid_w_kind_spec k :
  (is_iinteger k || is_ifloat k || (nid_w_enum fixed_cfg && is_ienum k))%bool = true <-> NumericKind k.
Proof. unfold NumericKind; destruct k; simpl; intuition (discriminate || auto). Qed.

(* ------------------------------------------------------------------ references *)
Lemma refs_impl nd c : p_impl nd = Some c -> In c (refs nd).
Proof. intros H; unfold refs; rewrite H; simpl; auto. Qed.
Lemma refs_avail nd c : p_avail nd = Some c -> In c (refs nd).
Proof. intros H; unfold refs; rewrite H. apply in_or_app; right; simpl; auto. Qed.
Lemma refs_lock nd c : p_lock nd = Some c -> In c (refs nd).
Proof. intros H; unfold refs; rewrite H. do 2 (apply in_or_app; right); simpl; auto. Qed.
Lemma refs_tail nd m :
  In m (match nkind nd with
        | KInteger | KFloat | KBoolean | KEnumeration | KCommand | KString => vsrc_refs (nvalue nd)
        | KIntConverter | KConverter => conv_pvalue nd :: vars nd
        | KIntSwissKnife | KSwissKnife => vars nd
        | _ => []
        end) -> In m (refs nd).
Proof. intros H; unfold refs. do 3 (apply in_or_app; right). exact H. Qed.

Lemma mode_r_iff m : Ok (mode_r m) = Ok true <-> (m = RO \/ m = RW).
Proof. destruct m; simpl; intuition (congruence || discriminate). Qed.
Lemma mode_w_iff m : Ok (mode_w m) = Ok true <-> (m = WO \/ m = RW).
Proof. destruct m; simpl; intuition (congruence || discriminate). Qed.
Lemma not_wo_iff m : Ok (not_wo m) = Ok true <-> m <> WO.
Proof. destruct m; simpl; intuition (congruence || discriminate). Qed.
Lemma not_ro_iff m : Ok (not_ro m) = Ok true <-> m <> RO.
Proof. destruct m; simpl; intuition (congruence || discriminate). Qed.

Section Proofs.
Variable s : store.
Variable rank : nat -> nat.
Hypothesis Hac : Acyclic s rank.

(* ------------------------------------------------------------------ fuel does not matter *)
Lemma val_stable : forall f1 f2 st n, rank n < f1 -> rank n < f2 -> val s f1 st n = val s f2 st n.
Proof.
  induction f1 as [|f1 IH]; intros f2 st n H1 H2; [lia|]. destruct f2 as [|f2]; [lia|].
  cbn [val]. destruct (nth_error s n) as [nd|] eqn:E; [|reflexivity].
  assert (R : forall m, In m (refs nd) -> val s f1 st m = val s f2 st m).
  { intros m Hm. pose proof (Hac _ _ _ E Hm). apply IH; lia. }
  assert (RV : forall m, (nkind nd = KInteger \/ nkind nd = KFloat \/ nkind nd = KEnumeration) ->
                         In m (vsrc_refs (nvalue nd)) -> val s f1 st m = val s f2 st m).
  { intros m K Hm. apply R, refs_tail. destruct K as [K|[K|K]]; rewrite K; exact Hm. }
  destruct (nkind nd) eqn:K; try reflexivity;
    (destruct (nvalue nd) as [i|p cs|idx es d] eqn:V;
     [ destruct i as [v|k|m]; try reflexivity; apply RV; simpl; auto
     | apply RV; simpl; auto
     | destruct (is_iinteger (kind_of s idx)); [|reflexivity];
       rewrite (RV idx) by (simpl; auto);
       destruct (val s f2 st idx) as [i| |]; simpl; try reflexivity;
       destruct (select i es d) as [v|k|m] eqn:Sel; try reflexivity;
       apply RV; [auto|]; simpl; right; apply select_refs with (i := i); rewrite Sel; simpl; auto ]).
Qed.

Lemma bool_value_stable : forall f1 f2 st n, kind_of s n = KBoolean -> rank n < f1 -> rank n < f2 ->
  bool_value s f1 st n = bool_value s f2 st n.
Proof.
  intros [|f1] [|f2] st n HK H1 H2; try lia. cbn [bool_value]. unfold kind_of in HK.
  destruct (nth_error s n) as [nd|] eqn:E; [|reflexivity].
  destruct (nvalue nd) as [[v|k|m]| |] eqn:V; try reflexivity.
  assert (Hm : In m (refs nd)) by (apply refs_tail; rewrite HK, V; simpl; auto).
  pose proof (Hac _ _ _ E Hm). rewrite (val_stable f1 f2) by lia. reflexivity.
Qed.

Lemma bool_from_id_stable : forall f1 f2 st n, rank n < f1 -> rank n < f2 ->
  bool_from_id s f1 st n = bool_from_id s f2 st n.
Proof.
  intros f1 f2 st n H1 H2. unfold bool_from_id.
  destruct (is_iboolean (kind_of s n)) eqn:KB.
  - apply bool_value_stable; auto. destruct (kind_of s n); simpl in KB; congruence.
  - rewrite (val_stable f1 f2) by lia. reflexivity.
Qed.

(* a step that answers Ok(true) has evaluated the node's pIsLocked *)
Lemma writable_step_base : forall c wr rd vl bfi nd,
  writable_step c s wr rd vl bfi nd = Ok true -> base_w bfi nd = Ok true.
Proof.
  intros c wr rd vl bfi nd. unfold writable_step. cbv zeta.
  destruct (nkind nd); try discriminate; rewrite ?andl_true; tauto.
Qed.
Lemma readable_step_base : forall c rd vl bfi nd,
  readable_step c s rd vl bfi nd = Ok true -> base_r bfi nd = Ok true.
Proof.
  intros c rd vl bfi nd. unfold readable_step. cbv zeta.
  destruct (nkind nd); try discriminate; try destruct (sk_checks_vars c); rewrite ?andl_true; tauto.
Qed.

(* ------------------------------------------------------------------ controlling nodes *)
Section Valuation.
Variable F : nat.
Hypothesis HF : forall m, rank m < F.
Variable st : state.
Let IV := iv s F st.
Let BV := bv s F st.

Lemma truth_iff : forall f c, rank c < f ->
  (bool_from_id s f st c = Ok true <-> Truth s IV BV c).
Proof.
  intros f c Hc. rewrite (bool_from_id_stable f F) by auto.
  unfold bool_from_id, Truth, kd, IV, BV, iv, bv.
  destruct (kind_of s c) eqn:K; simpl;
    try (destruct (val s F st c) as [v| |]; simpl; [destruct (Z.eqb_spec v 1); [subst|]|..]);
    try (destruct (bool_value s F st c) as [[|]| |]);
    intuition (try congruence; try discriminate).
Qed.

Lemma decided_iff : forall f c, rank c < f ->
  ((exists b, bool_from_id s f st c = Ok b) <-> Decided s IV BV c).
Proof.
  intros f c Hc. rewrite (bool_from_id_stable f F) by auto.
  unfold bool_from_id, Decided, kd, IV, BV, iv, bv.
  destruct (kind_of s c) eqn:K; simpl;
    try (destruct (val s F st c) as [v| |]; simpl);
    try (destruct (bool_value s F st c) as [b| |]);
    (split; [intros [b' Hb]; try discriminate;
             first [left; split; [reflexivity|discriminate] | right; split; [exact I|discriminate]]
            |intros [[A B]|[A B]]; try discriminate; try contradiction; try congruence; eauto]).
Qed.

(* ------------------------------------------------------------------ the specification, by kind *)
Definition NodeR (R : nat -> Prop) (nd : node) : Prop :=
  match nkind nd with
  | KInteger | KFloat => BaseR s IV BV nd /\ ValueReadable s IV R (nvalue nd)
  | KBoolean | KEnumeration => BaseR s IV BV nd /\ exists i, nvalue nd = VOne i /\ SrcOk s R i
  | KString => BaseR s IV BV nd /\ exists i, nvalue nd = VOne i /\ StrSrcOk s R i
  | KIntReg | KMaskedIntReg | KFloatReg | KStringReg => BaseR s IV BV nd /\ regmode nd <> WO
  | KIntConverter | KConverter =>
    BaseR s IV BV nd /\ VarOk s R (conv_pvalue nd) /\ VarsOk s R (vars nd)
  | KIntSwissKnife | KSwissKnife => BaseR s IV BV nd /\ VarsOk s R (vars nd)
  | _ => False
  end.

Lemma Readable_char : forall n,
  Readable s IV BV n <-> exists nd, nth_error s n = Some nd /\ NodeR (Readable s IV BV) nd.
Proof.
  intros n; split.
  - intros H; inversion H; subst; exists nd; (split; [assumption|]); unfold NodeR.
    + destruct H1 as [K|K]; rewrite K; auto.
    + destruct H1 as [K|K]; rewrite K; eauto.
    + rewrite H1; eauto.
    + destruct (nkind nd); simpl in H1; try contradiction; auto.
    + destruct H1 as [K|K]; rewrite K; auto.
    + destruct H1 as [K|K]; rewrite K; auto.
  - intros (nd & E & H). unfold NodeR in H.
    destruct (nkind nd) eqn:K; try contradiction.
    all: try (destruct H as (B & i & V & S); first [eapply R_simple; eauto; fail | eapply R_string; eauto; fail]).
    all: try (destruct H as (B & V); first [eapply R_valued; eauto; fail
                                           | eapply R_register; eauto; rewrite K; exact I ]).
    all: try (destruct H as (B & P & V); eapply R_converter; eauto; fail).
    all: try (destruct H as (B & V); eapply R_swissknife; eauto; fail).
Qed.

Definition NodeW (W R : nat -> Prop) (nd : node) : Prop :=
  match nkind nd with
  | KInteger | KFloat => BaseW s IV BV nd /\ ValueWritable s IV BV W (nvalue nd)
  | KBoolean | KEnumeration | KCommand =>
    BaseW s IV BV nd /\ exists i, nvalue nd = VOne i /\ TargetOk s W i
  | KString => BaseW s IV BV nd /\ exists i, nvalue nd = VOne i /\ StrTargetOk s W i
  | KIntReg | KMaskedIntReg | KFloatReg | KStringReg => BaseW s IV BV nd /\ regmode nd <> RO
  | KIntConverter | KConverter =>
    BaseW s IV BV nd /\ VarOk s W (conv_pvalue nd) /\ VarsOk s R (vars nd)
  | _ => False
  end.

Lemma Writable_char : forall n,
  Writable s IV BV n <->
  exists nd, nth_error s n = Some nd /\ NodeW (Writable s IV BV) (Readable s IV BV) nd.
Proof.
  intros n; split.
  - intros H; inversion H; subst; exists nd; (split; [assumption|]); unfold NodeW.
    + destruct H1 as [K|K]; rewrite K; auto.
    + destruct H1 as [K|[K|K]]; rewrite K; eauto.
    + rewrite H1; eauto.
    + destruct (nkind nd); simpl in H1; try contradiction; auto.
    + destruct H1 as [K|K]; rewrite K; auto.
  - intros (nd & E & H). unfold NodeW in H.
    destruct (nkind nd) eqn:K; try contradiction.
    all: try (destruct H as (B & i & V & S); first [eapply W_simple; eauto; fail | eapply W_string; eauto; fail]).
    all: try (destruct H as (B & V); first [eapply W_valued; eauto; fail
                                           | eapply W_register; eauto; rewrite K; exact I ]).
    all: try (destruct H as (B & P & V); eapply W_converter; eauto; fail).
Qed.

(* ------------------------------------------------------------------ one step of the model *)
Section Step.
Variable f : nat.
Variable nd : node.
Hypothesis Hrank : forall m, In m (refs nd) -> rank m < f.
Let bfi := bool_from_id s f st.

Lemma ctl_true_iff : forall r, (forall c, r = Some c -> In c (refs nd)) ->
  (ctlq bfi r true = Ok true <-> forall c, r = Some c -> Truth s IV BV c).
Proof.
  intros [c|] Hr; simpl.
  - unfold bfi. rewrite truth_iff by (apply Hrank, Hr; reflexivity).
    split; [intros H c' [= <-]; exact H | intros H; apply H; reflexivity].
  - split; [intros _ c [=] | reflexivity].
Qed.

Lemma base_r_iff : base_r bfi nd = Ok true <-> BaseR s IV BV nd.
Proof.
  unfold base_r, BaseR, Implemented, Available.
  rewrite !andl_true, mode_r_iff, !ctl_true_iff; [tauto| |].
  - intros c; apply refs_avail.
  - intros c; apply refs_impl.
Qed.

Lemma lock_iff : (forall c, p_lock nd = Some c -> Decided s IV BV c) ->
  (omap negb (ctlq bfi (p_lock nd) false) = Ok true <-> ~ Locked s IV BV nd).
Proof.
  intros HD. unfold Locked. destruct (p_lock nd) as [c|] eqn:L; simpl.
  - assert (Hc : rank c < f) by (apply Hrank, refs_lock; exact L).
    pose proof (truth_iff f c Hc) as T. fold bfi in T.
    destruct (proj2 (decided_iff f c Hc) (HD c eq_refl)) as [b Hb]. fold bfi in Hb.
    rewrite Hb in *. simpl. destruct b; simpl.
    + split; [discriminate|]. intros N; exfalso; apply N. exists c; split; auto. apply T; reflexivity.
    + split; [|reflexivity]. intros _ (c' & [= <-] & Tc). apply T in Tc. discriminate.
  - split; [|reflexivity]. intros _ (c & [=] & _).
Qed.

Lemma base_w_iff : (forall c, p_lock nd = Some c -> Decided s IV BV c) ->
  (base_w bfi nd = Ok true <-> BaseW s IV BV nd).
Proof.
  intros HD. unfold base_w, BaseW, Implemented, Available.
  rewrite !andl_true, mode_w_iff, lock_iff by exact HD. rewrite !ctl_true_iff; [tauto| |].
  - intros c; apply refs_avail.
  - intros c; apply refs_impl.
Qed.

End Step.

(* --- references by kind: q is the recursive call, Q what it decides *)
Section RefsByKind.
Variable q : nat -> outcome bool.
Variable Q : nat -> Prop.

Lemma nid_r_iff m : (q m = Ok true <-> Q m) ->
  (nid_r s q m = Ok true <-> NumericKind (kd s m) /\ Q m).
Proof.
  intros H. unfold nid_r, kd. destruct (is_numeric (kind_of s m)) eqn:K.
  - apply is_numeric_spec in K. tauto.
  - split; [discriminate|]. intros [N _]. apply is_numeric_spec in N. congruence.
Qed.

Lemma nid_w_iff m : (q m = Ok true <-> Q m) ->
  (nid_w fixed_cfg s q m = Ok true <-> NumericKind (kd s m) /\ Q m).
Proof.
  intros H. unfold nid_w, kd. cbv zeta.
  destruct (is_iinteger (kind_of s m) || is_ifloat (kind_of s m)
            || (nid_w_enum fixed_cfg && is_ienum (kind_of s m)))%bool eqn:K.
  - apply nid_w_kind_spec in K. tauto.
  - split; [discriminate|]. intros [N _]. apply nid_w_kind_spec in N. congruence.
Qed.

Lemma var_q_iff m : (q m = Ok true <-> Q m) ->
  (var_q s q m = Ok true <-> VarOk s Q m).
Proof.
  intros H. unfold var_q, VarOk, kd. destruct (is_varkind (kind_of s m)) eqn:K.
  - apply is_varkind_spec in K. tauto.
  - split; [discriminate|]. intros [N _]. apply is_varkind_spec in N. congruence.
Qed.

Lemma str_q_iff m : (q m = Ok true <-> Q m) ->
  (str_q s q m = Ok true <-> StringKind (kd s m) /\ Q m).
Proof.
  intros H. unfold str_q, kd. destruct (is_istring (kind_of s m)) eqn:K.
  - apply is_istring_spec in K. tauto.
  - split; [discriminate|]. intros [N _]. apply is_istring_spec in N. congruence.
Qed.

Lemma iop_r_iff i : (forall m, In m (iop_refs i) -> (q m = Ok true <-> Q m)) ->
  (iop_r s q i = Ok true <-> SrcOk s Q i).
Proof.
  intros H. unfold SrcOk. destruct i as [v|k|m]; simpl.
  - split; [intros _ m [=] | reflexivity].
  - split; [intros _ m [=] | reflexivity].
  - rewrite nid_r_iff by (apply H; simpl; auto).
    split; [intros A m' [= <-]; exact A | intros A; apply A; reflexivity].
Qed.

Lemma iop_w_iff i : (forall m, In m (iop_refs i) -> (q m = Ok true <-> Q m)) ->
  (iop_w fixed_cfg s q i = Ok true <-> TargetOk s Q i).
Proof.
  intros H. unfold TargetOk. destruct i as [v|k|m]; simpl.
  - split; [discriminate | intros [A _]; exfalso; apply (A v); reflexivity].
  - split; [intros _; split; [intros v [=] | intros m [=]] | reflexivity].
  - rewrite nid_w_iff by (apply H; simpl; auto).
    split; [intros A; split; [intros v [=] | intros m' [= <-]; exact A] | intros [_ A]; apply A; reflexivity].
Qed.

Lemma vars_iff l : (forall m, In m l -> (q m = Ok true <-> Q m)) ->
  (all_amp (var_q s q) l true = Ok true <-> VarsOk s Q l).
Proof.
  intros H. rewrite all_amp_true. unfold VarsOk.
  split.
  - intros [_ A] m Hm. apply var_q_iff; auto.
  - intros A; split; [reflexivity|]. intros m Hm. apply var_q_iff; auto.
Qed.

End RefsByKind.

(* the three shapes of a value source *)
Lemma ValueReadable_one R i : ValueReadable s IV R (VOne i) <-> SrcOk s R i.
Proof.
  unfold ValueReadable; split; [intros (A & _ & _); auto|].
  intros H; split; [|split]; try (intros; discriminate). intros i' [= <-]; exact H.
Qed.
Lemma ValueReadable_pvalue R p cs : ValueReadable s IV R (VPValue p cs) <-> SrcOk s R (INode p).
Proof.
  unfold ValueReadable; split; [intros (_ & A & _); eauto|].
  intros H; split; [|split]; try (intros; discriminate). intros p' cs' [= <- <-]; exact H.
Qed.
Lemma ValueReadable_pindex R idx es d : ValueReadable s IV R (VPIndex idx es d) <->
  IntegerKind (kd s idx) /\ R idx /\ exists i, IV idx = Some i /\ SrcOk s R (entry_for i es d).
Proof.
  unfold ValueReadable; split; [intros (_ & _ & A); eauto|].
  intros H; split; [|split]; try (intros; discriminate). intros ? ? ? [= <- <- <-]; exact H.
Qed.
Lemma ValueWritable_one W i : ValueWritable s IV BV W (VOne i) <-> TargetOk s W i.
Proof.
  unfold ValueWritable; split; [intros (A & _ & _); auto|].
  intros H; split; [|split]; try (intros; discriminate). intros i' [= <-]; exact H.
Qed.
Lemma ValueWritable_pvalue W p cs : ValueWritable s IV BV W (VPValue p cs) <->
  forall m, m = p \/ In m cs -> NumericKind (kd s m) /\ W m.
Proof.
  unfold ValueWritable; split; [intros (_ & A & _); eauto|].
  intros H; split; [|split]; try (intros; discriminate). intros p' cs' [= <- <-]; exact H.
Qed.
Lemma ValueWritable_pindex W idx es d : ValueWritable s IV BV W (VPIndex idx es d) <->
  IntegerKind (kd s idx) /\ Readable s IV BV idx /\
  exists i, IV idx = Some i /\ TargetOk s W (entry_for i es d).
Proof.
  unfold ValueWritable; split; [intros (_ & _ & A); eauto|].
  intros H; split; [|split]; try (intros; discriminate). intros ? ? ? [= <- <- <-]; exact H.
Qed.

Section Step2.
Variable f : nat.
Variable nd : node.
Hypothesis Hrank : forall m, In m (refs nd) -> rank m < f.
Let bfi := bool_from_id s f st.

Lemma pindex_iff (g : iop -> outcome bool) (G : iop -> Prop) rd (R : nat -> Prop) idx es d :
  In idx (refs nd) -> (rd idx = Ok true <-> R idx) ->
  (forall i, g (select i es d) = Ok true <-> G (entry_for i es d)) ->
  ((if is_iinteger (kind_of s idx)
    then rd idx &&? (let? i := val s f st idx in g (select i es d))
    else Err E_INVALID_NODE) = Ok true
   <-> IntegerKind (kd s idx) /\ R idx /\ exists i, IV idx = Some i /\ G (entry_for i es d)).
Proof.
  intros Hin Hrd Hg. unfold kd. destruct (is_iinteger (kind_of s idx)) eqn:K.
  - apply is_iinteger_spec in K. rewrite andl_true, Hrd.
    rewrite (val_stable f F) by (auto using Hrank). unfold IV, iv.
    destruct (val s F st idx) as [i| |]; simpl.
    + rewrite Hg. split; [intros [A B]; eauto 6 | intros (_ & A & i' & [= <-] & B); auto].
    + split; [intros [_ B]; discriminate | intros (_ & _ & i & E & _); discriminate].
    + split; [intros [_ B]; discriminate | intros (_ & _ & i & E & _); discriminate].
  - split; [discriminate|]. intros (N & _). apply is_iinteger_spec in N. congruence.
Qed.

Lemma ex_one (P : iop -> Prop) i : (exists i0, VOne i = VOne i0 /\ P i0) <-> P i.
Proof. split; [intros (i' & [= <-] & H); exact H | eauto]. Qed.

Ltac not_one := split; [discriminate | intros (? & ? & _); discriminate].

Lemma readable_step_iff rd (R : nat -> Prop) :
  (forall m, In m (refs nd) -> (rd m = Ok true <-> R m)) ->
  (readable_step fixed_cfg s rd (val s f st) bfi nd = Ok true <-> NodeR R nd).
Proof.
  intros H. unfold readable_step, NodeR, bfi. cbv zeta.
  assert (HV : forall m, In m (match nkind nd with
        | KInteger | KFloat | KBoolean | KEnumeration | KCommand | KString => vsrc_refs (nvalue nd)
        | KIntConverter | KConverter => conv_pvalue nd :: vars nd
        | KIntSwissKnife | KSwissKnife => vars nd
        | _ => []
        end) -> (rd m = Ok true <-> R m)) by (intros m Hm; apply H, refs_tail, Hm).
  assert (HI : forall m, In m (match nkind nd with
        | KInteger | KFloat | KBoolean | KEnumeration | KCommand | KString => vsrc_refs (nvalue nd)
        | KIntConverter | KConverter => conv_pvalue nd :: vars nd
        | KIntSwissKnife | KSwissKnife => vars nd
        | _ => []
        end) -> In m (refs nd)) by (intros m Hm; apply refs_tail, Hm).
  destruct (nkind nd) eqn:K; simpl sk_checks_vars; cbv iota;
    try (split; [discriminate|contradiction]);
    rewrite ?andl_true, (base_r_iff f nd Hrank).
  - (* Integer *)
    apply and_iff_compat_l. destruct (nvalue nd) as [i|p cs|idx es d] eqn:V.
    + rewrite ValueReadable_one. apply iop_r_iff; auto.
    + rewrite ValueReadable_pvalue. apply (iop_r_iff rd R (INode p)). simpl. intros m [<-|[]]. apply HV; simpl; auto.
    + rewrite ValueReadable_pindex. apply pindex_iff with (g := iop_r s rd) (G := SrcOk s R).
      * apply HI; simpl; auto.
      * apply HV; simpl; auto.
      * intros i. rewrite <- select_entry_for. apply iop_r_iff. intros m Hm. apply HV. simpl. right.
        eapply select_refs; eauto.
  - (* IntReg *) rewrite not_wo_iff. tauto.
  - rewrite not_wo_iff. tauto.
  - (* IntConverter *)
    rewrite (var_q_iff rd R) by (apply HV; simpl; auto).
    rewrite (vars_iff rd R) by (intros m Hm; apply HV; simpl; auto). tauto.
  - (* IntSwissKnife *)
    rewrite (vars_iff rd R) by (intros m Hm; apply HV; auto). tauto.
  - (* Float *)
    apply and_iff_compat_l. destruct (nvalue nd) as [i|p cs|idx es d] eqn:V.
    + rewrite ValueReadable_one. apply iop_r_iff; auto.
    + rewrite ValueReadable_pvalue. apply (iop_r_iff rd R (INode p)). simpl. intros m [<-|[]]. apply HV; simpl; auto.
    + rewrite ValueReadable_pindex. apply pindex_iff with (g := iop_r s rd) (G := SrcOk s R).
      * apply HI; simpl; auto.
      * apply HV; simpl; auto.
      * intros i. rewrite <- select_entry_for. apply iop_r_iff. intros m Hm. apply HV. simpl. right.
        eapply select_refs; eauto.
  - rewrite not_wo_iff. tauto.
  - (* Converter *)
    rewrite (var_q_iff rd R) by (apply HV; simpl; auto).
    rewrite (vars_iff rd R) by (intros m Hm; apply HV; simpl; auto). tauto.
  - (* SwissKnife *)
    rewrite (vars_iff rd R) by (intros m Hm; apply HV; auto). tauto.
  - (* String *)
    apply and_iff_compat_l. destruct (nvalue nd) as [i| |] eqn:V; [|not_one|not_one].
    rewrite ex_one. unfold StrSrcOk. destruct i as [v|k|m].
    + split; [intros _ m [=] | reflexivity].
    + split; [intros _ m [=] | reflexivity].
    + rewrite (str_q_iff rd R) by (apply HV; simpl; auto).
      split; [intros A m' [= <-]; exact A | intros A; apply A; reflexivity].
  - rewrite not_wo_iff. tauto.
  - (* Boolean *)
    apply and_iff_compat_l. destruct (nvalue nd) as [i| |] eqn:V; [|not_one|not_one].
    rewrite ex_one. apply iop_r_iff; auto.
  - (* Enumeration *)
    apply and_iff_compat_l. destruct (nvalue nd) as [i| |] eqn:V; [|not_one|not_one].
    rewrite ex_one. apply iop_r_iff; auto.
Qed.

Lemma pvalue_w_iff wr (W : nat -> Prop) p cs :
  (forall m, m = p \/ In m cs -> (wr m = Ok true <-> W m)) ->
  ((let? b := nid_w fixed_cfg s wr p in all_amp (nid_w fixed_cfg s wr) cs b) = Ok true
   <-> forall m, m = p \/ In m cs -> NumericKind (kd s m) /\ W m).
Proof.
  intros H.
  pose proof (nid_w_iff wr W p (H p (or_introl eq_refl))) as Hp.
  assert (Hc : forall m, In m cs -> (nid_w fixed_cfg s wr m = Ok true <-> NumericKind (kd s m) /\ W m))
    by (intros m Hm; apply nid_w_iff, H; auto).
  destruct (nid_w fixed_cfg s wr p) as [[|]|e|]; simpl; rewrite ?all_amp_true.
  - split.
    + intros [_ A] m [->|Hm]; [apply Hp; reflexivity | apply Hc; auto].
    + intros A; split; [reflexivity|]. intros m Hm. apply Hc; auto.
  - split; [intros [A _]; discriminate|]. intros A. specialize (A p (or_introl eq_refl)).
    apply Hp in A. discriminate.
  - split; [discriminate|]. intros A. specialize (A p (or_introl eq_refl)). apply Hp in A. discriminate.
  - split; [discriminate|]. intros A. specialize (A p (or_introl eq_refl)). apply Hp in A. discriminate.
Qed.

Lemma writable_step_iff wr rd (W : nat -> Prop) :
  (forall c, p_lock nd = Some c -> Decided s IV BV c) ->
  (forall m, In m (refs nd) -> (wr m = Ok true <-> W m)) ->
  (forall m, In m (refs nd) -> (rd m = Ok true <-> Readable s IV BV m)) ->
  (writable_step fixed_cfg s wr rd (val s f st) bfi nd = Ok true <-> NodeW W (Readable s IV BV) nd).
Proof.
  intros HD H HR. unfold writable_step, NodeW, bfi. cbv zeta.
  assert (HV : forall m, In m (match nkind nd with
        | KInteger | KFloat | KBoolean | KEnumeration | KCommand | KString => vsrc_refs (nvalue nd)
        | KIntConverter | KConverter => conv_pvalue nd :: vars nd
        | KIntSwissKnife | KSwissKnife => vars nd
        | _ => []
        end) -> (wr m = Ok true <-> W m)) by (intros m Hm; apply H, refs_tail, Hm).
  assert (HVR : forall m, In m (match nkind nd with
        | KInteger | KFloat | KBoolean | KEnumeration | KCommand | KString => vsrc_refs (nvalue nd)
        | KIntConverter | KConverter => conv_pvalue nd :: vars nd
        | KIntSwissKnife | KSwissKnife => vars nd
        | _ => []
        end) -> (rd m = Ok true <-> Readable s IV BV m)) by (intros m Hm; apply HR, refs_tail, Hm).
  assert (HI : forall m, In m (match nkind nd with
        | KInteger | KFloat | KBoolean | KEnumeration | KCommand | KString => vsrc_refs (nvalue nd)
        | KIntConverter | KConverter => conv_pvalue nd :: vars nd
        | KIntSwissKnife | KSwissKnife => vars nd
        | _ => []
        end) -> In m (refs nd)) by (intros m Hm; apply refs_tail, Hm).
  destruct (nkind nd) eqn:K; cbv iota;
    try (split; [discriminate|contradiction]);
    rewrite ?andl_true, (base_w_iff f nd Hrank HD).
  - (* Integer *)
    apply and_iff_compat_l. destruct (nvalue nd) as [i|p cs|idx es d] eqn:V.
    + rewrite ValueWritable_one. apply iop_w_iff; auto.
    + rewrite ValueWritable_pvalue. apply pvalue_w_iff. intros m Hm. apply HV. simpl. destruct Hm; auto.
    + rewrite ValueWritable_pindex.
      apply pindex_iff with (g := iop_w fixed_cfg s wr) (G := TargetOk s W) (R := Readable s IV BV).
      * apply HI; simpl; auto.
      * apply HVR; simpl; auto.
      * intros i. rewrite <- select_entry_for. apply iop_w_iff. intros m Hm. apply HV. simpl. right.
        eapply select_refs; eauto.
  - (* IntReg *) rewrite not_ro_iff. tauto.
  - rewrite not_ro_iff. tauto.
  - (* IntConverter *)
    rewrite (var_q_iff wr W) by (apply HV; simpl; auto).
    rewrite (vars_iff rd (Readable s IV BV)) by (intros m Hm; apply HVR; simpl; auto). tauto.
  - (* Float *)
    apply and_iff_compat_l. destruct (nvalue nd) as [i|p cs|idx es d] eqn:V.
    + rewrite ValueWritable_one. apply iop_w_iff; auto.
    + rewrite ValueWritable_pvalue. apply pvalue_w_iff. intros m Hm. apply HV. simpl. destruct Hm; auto.
    + rewrite ValueWritable_pindex.
      apply pindex_iff with (g := iop_w fixed_cfg s wr) (G := TargetOk s W) (R := Readable s IV BV).
      * apply HI; simpl; auto.
      * apply HVR; simpl; auto.
      * intros i. rewrite <- select_entry_for. apply iop_w_iff. intros m Hm. apply HV. simpl. right.
        eapply select_refs; eauto.
  - rewrite not_ro_iff. tauto.
  - (* Converter *)
    rewrite (var_q_iff wr W) by (apply HV; simpl; auto).
    rewrite (vars_iff rd (Readable s IV BV)) by (intros m Hm; apply HVR; simpl; auto). tauto.
  - (* String *)
    apply and_iff_compat_l. destruct (nvalue nd) as [i| |] eqn:V; [|not_one|not_one].
    rewrite ex_one. unfold StrTargetOk. destruct i as [v|k|m].
    + split; [discriminate | intros [A _]; exfalso; apply (A v); reflexivity].
    + split; [intros _; split; [intros v [=] | intros m [=]] | reflexivity].
    + rewrite (str_q_iff wr W) by (apply HV; simpl; auto).
      split; [intros A; split; [intros v [=] | intros m' [= <-]; exact A] | intros [_ A]; apply A; reflexivity].
  - rewrite not_ro_iff. tauto.
  - (* Boolean *)
    apply and_iff_compat_l. destruct (nvalue nd) as [i| |] eqn:V; [|not_one|not_one].
    rewrite ex_one. apply iop_w_iff; auto.
  - (* Command *)
    apply and_iff_compat_l. destruct (nvalue nd) as [i| |] eqn:V; [|not_one|not_one].
    rewrite ex_one. apply iop_w_iff; auto.
  - (* Enumeration *)
    apply and_iff_compat_l. destruct (nvalue nd) as [i| |] eqn:V; [|not_one|not_one].
    rewrite ex_one. apply iop_w_iff; auto.
Qed.

End Step2.
(* ------------------------------------------------------------------ the two equivalences *)
Lemma readable_iff_fuel : forall fuel n, rank n < fuel ->
  (is_readable fixed_cfg s fuel st n = Ok true <-> Readable s IV BV n).
Proof.
  induction fuel as [|f IH]; intros n Hn; [lia|].
  cbn [is_readable]. rewrite Readable_char.
  destruct (nth_error s n) as [nd|] eqn:E.
  - assert (Hrank : forall m, In m (refs nd) -> rank m < f)
      by (intros m Hm; pose proof (Hac _ _ _ E Hm); lia).
    rewrite (readable_step_iff f nd Hrank (is_readable fixed_cfg s f st) (Readable s IV BV)).
    + split; [eauto | intros (nd' & [= <-] & H); exact H].
    + intros m Hm. apply IH, Hrank, Hm.
  - split; [discriminate | intros (nd & [=] & _)].
Qed.

Lemma base_w_decides : forall f nd, (forall m, In m (refs nd) -> rank m < f) ->
  base_w (bool_from_id s f st) nd = Ok true ->
  forall c, p_lock nd = Some c -> Decided s IV BV c.
Proof.
  intros f nd Hrank H c L. unfold base_w in H. rewrite !andl_true in H.
  destruct H as [[[_ _] H] _]. rewrite L in H. simpl in H.
  apply (decided_iff f c). { apply Hrank, refs_lock, L. }
  destruct (bool_from_id s f st c) as [b| |]; try discriminate. eauto.
Qed.

Lemma writable_iff_fuel : forall fuel n, rank n < fuel ->
  (is_writable fixed_cfg s fuel st n = Ok true -> Writable s IV BV n) /\
  (LocksDecided s IV BV -> Writable s IV BV n -> is_writable fixed_cfg s fuel st n = Ok true).
Proof.
  induction fuel as [|f IH]; intros n Hn; [lia|].
  cbn [is_writable]. rewrite Writable_char.
  destruct (nth_error s n) as [nd|] eqn:E.
  - assert (Hrank : forall m, In m (refs nd) -> rank m < f)
      by (intros m Hm; pose proof (Hac _ _ _ E Hm); lia).
    assert (HR : forall m, In m (refs nd) ->
                 (is_readable fixed_cfg s f st m = Ok true <-> Readable s IV BV m))
      by (intros m Hm; apply readable_iff_fuel, Hrank, Hm).
    split.
    + intros H. exists nd; split; [reflexivity|].
      pose proof (base_w_decides f nd Hrank (writable_step_base _ _ _ _ _ _ H)) as HD.
      (* sound direction with W := what the recursive calls answer Ok(true) to *)
      pose proof (writable_step_iff f nd Hrank (is_writable fixed_cfg s f st)
                    (is_readable fixed_cfg s f st)
                    (fun m => is_writable fixed_cfg s f st m = Ok true) HD
                    (fun m _ => iff_refl _) HR) as X.
      apply X in H. clear X.
      revert H. unfold NodeW. 
      assert (MW : forall m, In m (refs nd) ->
                   is_writable fixed_cfg s f st m = Ok true -> Writable s IV BV m)
        by (intros m Hm; apply IH, Hrank, Hm).
      clear - MW.
      assert (HT : forall m, In m (match nkind nd with
        | KInteger | KFloat | KBoolean | KEnumeration | KCommand | KString => vsrc_refs (nvalue nd)
        | KIntConverter | KConverter => conv_pvalue nd :: vars nd
        | KIntSwissKnife | KSwissKnife => vars nd
        | _ => []
        end) -> is_writable fixed_cfg s f st m = Ok true -> Writable s IV BV m)
        by (intros m Hm; apply MW, refs_tail, Hm).
      clear MW.
      destruct (nkind nd) eqn:K; try tauto.
      * (* Integer *) intros [B V]; split; [exact B|]. revert V HT.
        destruct (nvalue nd) as [i|p cs|idx es d]; intros V HT.
        -- apply ValueWritable_one. apply ValueWritable_one in V. destruct V as [A C]; split; [exact A|].
           intros m ->. destruct (C m eq_refl); split; auto. apply HT; simpl; auto.
        -- apply ValueWritable_pvalue. intros m Hm. apply ValueWritable_pvalue with (m := m) in V; auto.
           destruct V; split; auto. apply HT; [simpl; destruct Hm; [left; congruence | right; assumption] | assumption].
        -- apply ValueWritable_pindex. apply ValueWritable_pindex in V.
           destruct V as (A & B' & i & Ei & [C D]). split; [exact A|]. split; [exact B'|]. exists i; split; [exact Ei|].
           split; [exact C|]. intros m Em. destruct (D m Em); split; auto. apply HT; [|assumption]. simpl. right.
           rewrite <- select_entry_for in Em. eapply select_refs. rewrite Em. simpl; auto.
      * (* IntConverter *) intros (B & [A C] & V). split; [exact B|]. split; [split; [exact A | apply HT; simpl; auto] | exact V].
      * (* Float *) intros [B V]; split; [exact B|]. revert V HT.
        destruct (nvalue nd) as [i|p cs|idx es d]; intros V HT.
        -- apply ValueWritable_one. apply ValueWritable_one in V. destruct V as [A C]; split; [exact A|].
           intros m ->. destruct (C m eq_refl); split; auto. apply HT; simpl; auto.
        -- apply ValueWritable_pvalue. intros m Hm. apply ValueWritable_pvalue with (m := m) in V; auto.
           destruct V; split; auto. apply HT; [simpl; destruct Hm; [left; congruence | right; assumption] | assumption].
        -- apply ValueWritable_pindex. apply ValueWritable_pindex in V.
           destruct V as (A & B' & i & Ei & [C D]). split; [exact A|]. split; [exact B'|]. exists i; split; [exact Ei|].
           split; [exact C|]. intros m Em. destruct (D m Em); split; auto. apply HT; [|assumption]. simpl. right.
           rewrite <- select_entry_for in Em. eapply select_refs. rewrite Em. simpl; auto.
      * (* Converter *) intros (B & [A C] & V). split; [exact B|]. split; [split; [exact A | apply HT; simpl; auto] | exact V].
      * (* String *) intros (B & i & V & [A C]). split; [exact B|]. exists i; split; [exact V|].
        split; [exact A|]. intros m ->. destruct (C m eq_refl); split; auto. apply HT; [rewrite V; simpl; auto | assumption].
      * (* Boolean *) intros (B & i & V & [A C]). split; [exact B|]. exists i; split; [exact V|].
        split; [exact A|]. intros m ->. destruct (C m eq_refl); split; auto. apply HT; [rewrite V; simpl; auto | assumption].
      * (* Command *) intros (B & i & V & [A C]). split; [exact B|]. exists i; split; [exact V|].
        split; [exact A|]. intros m ->. destruct (C m eq_refl); split; auto. apply HT; [rewrite V; simpl; auto | assumption].
      * (* Enumeration *) intros (B & i & V & [A C]). split; [exact B|]. exists i; split; [exact V|].
        split; [exact A|]. intros m ->. destruct (C m eq_refl); split; auto. apply HT; [rewrite V; simpl; auto | assumption].
    + intros HLD (nd' & [= <-] & H).
      apply (writable_step_iff f nd Hrank (is_writable fixed_cfg s f st)
               (is_readable fixed_cfg s f st) (Writable s IV BV)); auto.
      * intros c L. exact (HLD n nd c E L).
      * intros m Hm. split; [apply IH, Hrank, Hm | apply IH; auto].
  - split; [discriminate | intros _ (nd & [=] & _)].
Qed.

End Valuation.
(* ------------------------------------------------------------------ consequences on the model *)
Section Base.
Variable c : cfg.
Variable F : nat.
Hypothesis HF : forall m, rank m < F.
Variable st : state.

Lemma ctlq_stable : forall f1 f2 r d, (forall x, r = Some x -> rank x < f1 /\ rank x < f2) ->
  ctlq (bool_from_id s f1 st) r d = ctlq (bool_from_id s f2 st) r d.
Proof.
  intros f1 f2 [x|] d H; simpl; [|reflexivity].
  destruct (H x eq_refl). apply bool_from_id_stable; auto.
Qed.

Lemma base_stable : forall n nd f, nth_error s n = Some nd -> rank n < S f ->
  base_w (bool_from_id s f st) nd = base_w (bool_from_id s F st) nd /\
  base_r (bool_from_id s f st) nd = base_r (bool_from_id s F st) nd.
Proof.
  intros n nd f E Hn.
  assert (Hr : forall x, In x (refs nd) -> rank x < f /\ rank x < F).
  { intros x Hx. pose proof (Hac _ _ _ E Hx). split; [lia | apply HF]. }
  unfold base_w, base_r.
  rewrite (ctlq_stable f F (p_impl nd)) by (intros x Hx; apply Hr, refs_impl, Hx).
  rewrite (ctlq_stable f F (p_avail nd)) by (intros x Hx; apply Hr, refs_avail, Hx).
  rewrite (ctlq_stable f F (p_lock nd)) by (intros x Hx; apply Hr, refs_lock, Hx).
  split; reflexivity.
Qed.

(* an answer Ok(true) passed every check of NodeElementBase *)
Lemma writable_true_base : forall n nd, nth_error s n = Some nd ->
  is_writable c s F st n = Ok true -> base_w (bool_from_id s F st) nd = Ok true.
Proof.
  intros n nd E. pose proof (HF n) as Hn. revert Hn. generalize F at 1 2 as fuel.
  intros [|f] Hn H; [lia|].
  cbn [is_writable] in H. rewrite E in H. apply writable_step_base in H.
  destruct (base_stable n nd f E Hn) as [<- _]. exact H.
Qed.
Lemma readable_true_base : forall n nd, nth_error s n = Some nd ->
  is_readable c s F st n = Ok true -> base_r (bool_from_id s F st) nd = Ok true.
Proof.
  intros n nd E. pose proof (HF n) as Hn. revert Hn. generalize F at 1 2 as fuel.
  intros [|f] Hn H; [lia|].
  cbn [is_readable] in H. rewrite E in H. apply readable_step_base in H.
  destruct (base_stable n nd f E Hn) as [_ <-]. exact H.
Qed.

Lemma step_of : forall n nd, nth_error s n = Some nd -> exists f, rank n < S f /\
  is_writable c s F st n =
    writable_step c s (is_writable c s f st) (is_readable c s f st) (val s f st) (bool_from_id s f st) nd /\
  is_readable c s F st n =
    readable_step c s (is_readable c s f st) (val s f st) (bool_from_id s f st) nd.
Proof.
  intros n nd E. pose proof (HF n) as Hn. revert Hn. generalize F as fuel.
  intros [|f] Hn; [lia|]. exists f. split; [exact Hn|].
  cbn [is_writable is_readable]. rewrite E. auto.
Qed.

End Base.
End Proofs.

(* ================================================================== results *)
Theorem readable_iff : forall s rank F st n, Acyclic s rank -> (forall m, rank m < F) ->
  (is_readable fixed_cfg s F st n = Ok true <-> Readable s (iv s F st) (bv s F st) n).
Proof. intros s rank F st n Hac HF. eapply readable_iff_fuel; eauto. Qed.

Theorem writable_sound : forall s rank F st n, Acyclic s rank -> (forall m, rank m < F) ->
  is_writable fixed_cfg s F st n = Ok true -> Writable s (iv s F st) (bv s F st) n.
Proof. intros s rank F st n Hac HF. eapply writable_iff_fuel; eauto. Qed.

Theorem writable_iff : forall s rank F st n, Acyclic s rank -> (forall m, rank m < F) ->
  LocksDecided s (iv s F st) (bv s F st) ->
  (is_writable fixed_cfg s F st n = Ok true <-> Writable s (iv s F st) (bv s F st) n).
Proof.
  intros s rank F st n Hac HF HLD. split.
  - eapply writable_iff_fuel; eauto.
  - intros H. eapply writable_iff_fuel; eauto.
Qed.

Theorem locked_not_writable : forall c s rank F st n nd l, Acyclic s rank -> (forall m, rank m < F) ->
  nth_error s n = Some nd -> p_lock nd = Some l -> bool_from_id s F st l = Ok true ->
  is_writable c s F st n <> Ok true.
Proof.
  intros c s rank F st n nd l Hac HF E L T H.
  apply (writable_true_base s rank Hac c F HF st n nd E) in H.
  unfold base_w in H. rewrite !andl_true in H. destruct H as [[[_ _] H] _].
  rewrite L in H; simpl in H. rewrite T in H. discriminate.
Qed.

Theorem unavailable : forall c s rank F st n nd a, Acyclic s rank -> (forall m, rank m < F) ->
  nth_error s n = Some nd -> p_avail nd = Some a -> bool_from_id s F st a <> Ok true ->
  is_readable c s F st n <> Ok true /\ is_writable c s F st n <> Ok true.
Proof.
  intros c s rank F st n nd a Hac HF E A T; split; intros H.
  - apply (readable_true_base s rank Hac c F HF st n nd E) in H.
    unfold base_r in H. rewrite !andl_true in H. destruct H as [[_ H] _].
    rewrite A in H; simpl in H. contradiction.
  - apply (writable_true_base s rank Hac c F HF st n nd E) in H.
    unfold base_w in H. rewrite !andl_true in H. destruct H as [[[_ H] _] _].
    rewrite A in H; simpl in H. contradiction.
Qed.

Theorem unimplemented : forall c s rank F st n nd a, Acyclic s rank -> (forall m, rank m < F) ->
  nth_error s n = Some nd -> p_impl nd = Some a -> bool_from_id s F st a <> Ok true ->
  is_readable c s F st n <> Ok true /\ is_writable c s F st n <> Ok true.
Proof.
  intros c s rank F st n nd a Hac HF E A T; split; intros H.
  - apply (readable_true_base s rank Hac c F HF st n nd E) in H.
    unfold base_r in H. rewrite !andl_true in H. destruct H as [[H _] _].
    rewrite A in H; simpl in H. contradiction.
  - apply (writable_true_base s rank Hac c F HF st n nd E) in H.
    unfold base_w in H. rewrite !andl_true in H. destruct H as [[[H _] _] _].
    rewrite A in H; simpl in H. contradiction.
Qed.

Theorem ro_not_writable : forall c s rank F st n nd, Acyclic s rank -> (forall m, rank m < F) ->
  nth_error s n = Some nd ->
  imposed nd = RO \/ (RegisterKind (nkind nd) /\ regmode nd = RO) ->
  is_writable c s F st n <> Ok true.
Proof.
  intros c s rank F st n nd Hac HF E [I|[K M]] H.
  - apply (writable_true_base s rank Hac c F HF st n nd E) in H.
    unfold base_w in H. rewrite !andl_true in H. destruct H as [_ H]. rewrite I in H. discriminate.
  - destruct (step_of s rank c F HF st n nd E) as (f & _ & W & _). rewrite W in H.
    unfold writable_step in H. cbv zeta in H.
    destruct (nkind nd); simpl in K; try contradiction; rewrite andl_true, M in H;
      destruct H as [_ H]; discriminate.
Qed.

Theorem wo_not_readable : forall c s rank F st n nd, Acyclic s rank -> (forall m, rank m < F) ->
  nth_error s n = Some nd ->
  imposed nd = WO \/ (RegisterKind (nkind nd) /\ regmode nd = WO) ->
  is_readable c s F st n <> Ok true.
Proof.
  intros c s rank F st n nd Hac HF E [I|[K M]] H.
  - apply (readable_true_base s rank Hac c F HF st n nd E) in H.
    unfold base_r in H. rewrite !andl_true in H. destruct H as [_ H]. rewrite I in H. discriminate.
  - destruct (step_of s rank c F HF st n nd E) as (f & _ & _ & R). rewrite R in H.
    unfold readable_step in H. cbv zeta in H.
    destruct (nkind nd); simpl in K; try contradiction; rewrite andl_true, M in H;
      destruct H as [_ H]; discriminate.
Qed.

(* constants: a literal is never a target; formulas (swiss knives) are never writable *)
Theorem const_not_writable : forall c s rank F st n nd, Acyclic s rank -> (forall m, rank m < F) ->
  nth_error s n = Some nd ->
  (ValuedKind (nkind nd) /\ exists v, nvalue nd = VOne (IImm v)) \/
  nkind nd = KIntSwissKnife \/ nkind nd = KSwissKnife ->
  is_writable c s F st n <> Ok true.
Proof.
  intros c s rank F st n nd Hac HF E C H.
  destruct (step_of s rank c F HF st n nd E) as (f & _ & W & _). rewrite W in H. clear W.
  unfold writable_step in H. cbv zeta in H.
  destruct C as [[VK [v V]]|[K|K]]; [|rewrite K in H; discriminate|rewrite K in H; discriminate].
  destruct (nkind nd) eqn:K; simpl in VK; try contradiction; rewrite andl_true, V in H; simpl in H;
    destruct H as [_ H]; discriminate.
Qed.

(* the specification on its own already says what the corollaries say *)
Theorem spec_sanity : forall s ival bval n nd, nth_error s n = Some nd ->
  (Writable s ival bval n -> BaseW s ival bval nd) /\
  (Readable s ival bval n -> BaseR s ival bval nd) /\
  (Writable s ival bval n -> nkind nd <> KIntSwissKnife /\ nkind nd <> KSwissKnife) /\
  (Writable s ival bval n -> RegisterKind (nkind nd) -> regmode nd <> RO) /\
  (Readable s ival bval n -> RegisterKind (nkind nd) -> regmode nd <> WO).
Proof.
  intros s ival bval n nd E. split; [|split; [|split; [|split]]]; intros H; inversion H; subst;
    match goal with X : nth_error s n = Some ?nd' |- _ => rewrite E in X; injection X as <- end;
    try assumption;
    try (split; intros K; rewrite K in *; simpl in *; intuition discriminate);
    try (intros R; destruct (nkind nd); simpl in *; intuition discriminate).
Qed.

(* ================================================================== the verdict follows the state *)
(* The verdicts are functions of the current leaf values only: two states with the same slots /
   register contents / formula results get the same answers (values, errors and all). *)
Section Ext.
Variable c : cfg.
Variable s : store.
Variables st st' : state.
Hypothesis Hst : forall a b, st a b = st' a b.

Lemma val_ext : forall fuel n, val s fuel st n = val s fuel st' n.
Proof.
  induction fuel as [|f IH]; intros n; [reflexivity|]. cbn [val].
  destruct (nth_error s n) as [nd|]; [|reflexivity].
  destruct (nkind nd); try reflexivity; try apply Hst;
    (destruct (nvalue nd) as [[v|k|m]|p cs|idx es d]; rewrite ?IH, ?Hst; try reflexivity).
  all: match goal with |- context [is_iinteger ?x] => destruct (is_iinteger x); [|reflexivity] end.
  all: match goal with |- context [bind ?x _] => destruct x as [i| |]; simpl; try reflexivity end.
  all: match goal with |- context [select ?i ?es ?d] =>
         destruct (select i es d) as [v|k|m]; rewrite ?IH, ?Hst; reflexivity end.
Qed.

Lemma bool_from_id_ext : forall fuel n, bool_from_id s fuel st n = bool_from_id s fuel st' n.
Proof.
  intros fuel n. unfold bool_from_id. rewrite val_ext.
  destruct (is_iboolean (kind_of s n)); [|reflexivity].
  destruct fuel as [|f]; [reflexivity|]. cbn [bool_value].
  destruct (nth_error s n) as [nd|]; [|reflexivity].
  destruct (nvalue nd) as [[v|k|m]| |]; rewrite ?val_ext, ?Hst; reflexivity.
Qed.
End Ext.

Section StepExt.
Variable c : cfg.
Variable s : store.
Variables rd rd' wr wr' : nat -> outcome bool.
Variables vl vl' : nat -> outcome Z.
Variables bfi bfi' : nat -> outcome bool.
Hypothesis Hrd : forall m, rd m = rd' m.
Hypothesis Hwr : forall m, wr m = wr' m.
Hypothesis Hvl : forall m, vl m = vl' m.
Hypothesis Hbfi : forall m, bfi m = bfi' m.

Lemma all_amp_ext : forall (g g' : nat -> outcome bool), (forall m, g m = g' m) ->
  forall l acc, all_amp g l acc = all_amp g' l acc.
Proof.
  intros g g' H l; induction l as [|x r IH]; intros acc; simpl; [reflexivity|].
  rewrite H. destruct (g' x); simpl; auto.
Qed.
Lemma ctlq_ext r d : ctlq bfi r d = ctlq bfi' r d.
Proof. destruct r; simpl; auto. Qed.
Lemma base_r_ext nd : base_r bfi nd = base_r bfi' nd.
Proof. unfold base_r. rewrite !ctlq_ext. reflexivity. Qed.
Lemma base_w_ext nd : base_w bfi nd = base_w bfi' nd.
Proof. unfold base_w. rewrite !ctlq_ext. reflexivity. Qed.
Lemma nid_r_ext m : nid_r s rd m = nid_r s rd' m.
Proof. unfold nid_r. rewrite Hrd. reflexivity. Qed.
Lemma nid_w_ext m : nid_w c s wr m = nid_w c s wr' m.
Proof. unfold nid_w. rewrite Hwr. reflexivity. Qed.
Lemma iop_r_ext i : iop_r s rd i = iop_r s rd' i.
Proof. destruct i; simpl; auto using nid_r_ext. Qed.
Lemma iop_w_ext i : iop_w c s wr i = iop_w c s wr' i.
Proof. destruct i; simpl; auto using nid_w_ext. Qed.
Lemma var_q_ext (g g' : nat -> outcome bool) : (forall m, g m = g' m) ->
  forall m, var_q s g m = var_q s g' m.
Proof. intros H m. unfold var_q. rewrite H. reflexivity. Qed.
Lemma str_q_ext (g g' : nat -> outcome bool) : (forall m, g m = g' m) ->
  forall m, str_q s g m = str_q s g' m.
Proof. intros H m. unfold str_q. rewrite H. reflexivity. Qed.

Lemma readable_step_ext nd :
  readable_step c s rd vl bfi nd = readable_step c s rd' vl' bfi' nd.
Proof.
  unfold readable_step. cbv zeta. rewrite base_r_ext.
  rewrite (all_amp_ext _ _ (var_q_ext rd rd' Hrd)).
  rewrite (var_q_ext rd rd' Hrd).
  destruct (nkind nd); try reflexivity;
    destruct (nvalue nd) as [[v|k|m]|p cs|idx es d];
    rewrite ?nid_r_ext, ?iop_r_ext, ?(str_q_ext rd rd' Hrd), ?Hrd, ?Hvl; try reflexivity.
  all: match goal with |- context [is_iinteger ?x] => destruct (is_iinteger x); try reflexivity end.
  all: match goal with |- context [bind ?x _] => destruct x; simpl; rewrite ?iop_r_ext; reflexivity end.
Qed.

Lemma writable_step_ext nd :
  writable_step c s wr rd vl bfi nd = writable_step c s wr' rd' vl' bfi' nd.
Proof.
  unfold writable_step. cbv zeta. rewrite base_w_ext.
  rewrite (all_amp_ext _ _ (var_q_ext rd rd' Hrd)).
  rewrite (var_q_ext wr wr' Hwr).
  destruct (nkind nd); try reflexivity;
    destruct (nvalue nd) as [[v|k|m]|p cs|idx es d];
    rewrite ?nid_w_ext, ?iop_w_ext, ?(str_q_ext wr wr' Hwr), ?Hrd, ?Hvl, ?(all_amp_ext _ _ nid_w_ext);
    try reflexivity.
  all: try match goal with |- context [is_iinteger ?x] => destruct (is_iinteger x); try reflexivity end.
  all: match goal with |- context [bind ?x _] =>
         destruct x; simpl; rewrite ?iop_w_ext, ?(all_amp_ext _ _ nid_w_ext); reflexivity end.
Qed.
End StepExt.

Theorem readable_ext : forall c s st st', (forall a b, st a b = st' a b) ->
  forall fuel n, is_readable c s fuel st n = is_readable c s fuel st' n.
Proof.
  intros c s st st' H. induction fuel as [|f IH]; intros n; [reflexivity|].
  cbn [is_readable]. destruct (nth_error s n) as [nd|]; [|reflexivity].
  apply readable_step_ext; auto using val_ext, bool_from_id_ext.
Qed.

Theorem writable_ext : forall c s st st', (forall a b, st a b = st' a b) ->
  forall fuel n, is_writable c s fuel st n = is_writable c s fuel st' n.
Proof.
  intros c s st st' H. induction fuel as [|f IH]; intros n; [reflexivity|].
  cbn [is_writable]. destruct (nth_error s n) as [nd|]; [|reflexivity].
  apply writable_step_ext; auto using val_ext, bool_from_id_ext, readable_ext.
Qed.

Definition st0 : state := fun _ _ => Ok 0%Z.

Theorem verdict_of_state : forall c s st st', (forall a b, st a b = st' a b) ->
  forall F n, is_readable c s F st n = is_readable c s F st' n /\ is_writable c s F st n = is_writable c s F st' n.
Proof. intros c s st st' H F n; split; [apply readable_ext | apply writable_ext]; exact H. Qed.

Lemma upd_restore : forall st a b v x y, upd (upd st a b v) a b (st a b) x y = st x y.
Proof.
  intros st a b v x y. unfold upd.
  destruct (Nat.eqb x a && Nat.eqb y b)%bool eqn:E; [|reflexivity].
  apply andb_true_iff in E as [E1 E2]. apply Nat.eqb_eq in E1, E2. subst. reflexivity.
Qed.

(* what a step can do to a node's controls *)
Definition Blocks (s : store) (F : nat) (st : state) (nd : node) : Prop :=
  (exists l, p_lock nd = Some l /\ bool_from_id s F st l = Ok true) \/
  (exists a, p_avail nd = Some a /\ bool_from_id s F st a <> Ok true) \/
  (exists a, p_impl nd = Some a /\ bool_from_id s F st a <> Ok true).
Definition Hides (s : store) (F : nat) (st : state) (nd : node) : Prop :=
  (exists a, p_avail nd = Some a /\ bool_from_id s F st a <> Ok true) \/
  (exists a, p_impl nd = Some a /\ bool_from_id s F st a <> Ok true).

Theorem tracks_controls : forall c s rank F st n nd a b v,
  Acyclic s rank -> (forall m, rank m < F) -> nth_error s n = Some nd ->
  let st' := upd st a b v in
  let st'' := upd st' a b (st a b) in
  (Blocks s F st' nd -> is_writable c s F st' n <> Ok true) /\
  (Hides s F st' nd -> is_readable c s F st' n <> Ok true) /\
  is_writable c s F st'' n = is_writable c s F st n /\
  is_readable c s F st'' n = is_readable c s F st n.
Proof.
  intros c s rank F st n nd a b v Hac HF E st' st''. repeat split.
  - intros [(l & L & T)|[(x & A & T)|(x & A & T)]].
    + eapply locked_not_writable; eauto.
    + eapply unavailable; eauto.
    + eapply unimplemented; eauto.
  - intros [(x & A & T)|(x & A & T)].
    + eapply unavailable; eauto.
    + eapply unimplemented; eauto.
  - apply writable_ext. intros x y. apply upd_restore.
  - apply readable_ext. intros x y. apply upd_restore.
Qed.

(* non-vacuity: N0 an Integer holding 0, N1 an Integer locked by N0.  Writing 1 into N0's slot
   locks N1, writing 0 back unlocks it. *)
Definition lk_store : store :=
  [ N KInteger RW RO None None None (VOne (ISlot 0)) 0 [] 1 0;
    N KInteger RW RO None None (Some 0) (VOne (ISlot 0)) 0 [] 1 0 ].
Example tracks_example :
  is_writable fixed_cfg lk_store 3 st0 1 = Ok true /\
  is_writable fixed_cfg lk_store 3 (upd st0 0 0 (Ok 1%Z)) 1 = Ok false /\
  is_writable fixed_cfg lk_store 3 (upd (upd st0 0 0 (Ok 1%Z)) 0 0 (Ok 0%Z)) 1 = Ok true /\
  Blocks lk_store 3 (upd st0 0 0 (Ok 1%Z)) (N KInteger RW RO None None (Some 0) (VOne (ISlot 0)) 0 [] 1 0).
Proof. repeat split; try (vm_compute; reflexivity). left. exists 0. split; vm_compute; reflexivity. Qed.

(* the selected entry of a pIndex that is a literal is no target either *)
Theorem const_entry_not_writable : forall c s rank F st n nd idx es d i v,
  Acyclic s rank -> (forall m, rank m < F) ->
  nth_error s n = Some nd -> nkind nd = KInteger \/ nkind nd = KFloat ->
  nvalue nd = VPIndex idx es d -> val s F st idx = Ok i -> select i es d = IImm v ->
  is_writable c s F st n <> Ok true.
Proof.
  intros c s rank F st n nd idx es d i v Hac HF E K V I S H.
  destruct (step_of s rank c F HF st n nd E) as (f & Hn & W & _). rewrite W in H. clear W.
  assert (Hi : val s f st idx = Ok i).
  { rewrite <- I. apply (val_stable s rank Hac); [|apply HF].
    assert (Hin : In idx (refs nd)) by (apply refs_tail; destruct K as [K|K]; rewrite K, V; simpl; auto).
    pose proof (Hac _ _ _ E Hin). lia. }
  unfold writable_step in H. cbv zeta in H.
  destruct K as [K|K]; rewrite K, V, andl_true in H; destruct H as [_ H];
    (destruct (is_iinteger (kind_of s idx)); [|discriminate]);
    rewrite andl_true, Hi in H; simpl in H; rewrite S in H; destruct H as [_ H]; discriminate.
Qed.

(* ================================================================== the pinned code *)
Definition rank2 (n : nat) : nat := Nat.min n 2.

(* N0: a write-only register (unreadable); N1: a SwissKnife with N0 as variable *)
Definition sk_store : store :=
  [ N KIntReg RW WO None None None (VOne (IImm 0)) 0 [] 1 0;
    N KSwissKnife RW RO None None None (VOne (IImm 0)) 0 [0] 1 0 ].
(* N0: an Enumeration holding its value (readable, writable); N1: an Integer with pValue N0 *)
Definition en_store : store :=
  [ N KEnumeration RW RO None None None (VOne (ISlot 0)) 0 [] 1 0;
    N KInteger RW RO None None None (VPValue 0 []) 0 [] 1 0 ].

Lemma two_acyclic : forall a b, refs a = [] -> refs b = [0] -> Acyclic [a; b] rank2.
Proof.
  intros a b Ra Rb n nd m E Hin. destruct n as [|[|n]]; simpl in E.
  - inversion E; subst. rewrite Ra in Hin. contradiction.
  - inversion E; subst. rewrite Rb in Hin. destruct Hin as [<-|[]]. unfold rank2; simpl; lia.
  - destruct n; discriminate.
Qed.
Lemma rank2_bound : forall m, rank2 m < 3.
Proof. intros m; unfold rank2; lia. Qed.

Theorem swissknife_refuted : exists s rank F st n,
  Acyclic s rank /\ (forall m, rank m < F) /\
  is_readable pinned_cfg s F st n = Ok true /\ ~ Readable s (iv s F st) (bv s F st) n.
Proof.
  exists sk_store, rank2, 3, st0, 1.
  assert (A : Acyclic sk_store rank2) by (apply two_acyclic; reflexivity).
  split; [exact A|]. split; [exact rank2_bound|]. split; [vm_compute; reflexivity|].
  intros H. apply (readable_iff _ _ _ _ _ A rank2_bound) in H. vm_compute in H. discriminate.
Qed.

Theorem enum_target_refuted : exists s rank F st n,
  Acyclic s rank /\ (forall m, rank m < F) /\ LocksDecided s (iv s F st) (bv s F st) /\
  is_writable pinned_cfg s F st n = Ok false /\ Writable s (iv s F st) (bv s F st) n.
Proof.
  exists en_store, rank2, 3, st0, 1.
  assert (A : Acyclic en_store rank2) by (apply two_acyclic; reflexivity).
  assert (L : LocksDecided en_store (iv en_store 3 st0) (bv en_store 3 st0)).
  { intros n nd c E Hl. destruct n as [|[|[|n]]]; simpl in E; inversion E; subst; discriminate. }
  split; [exact A|]. split; [exact rank2_bound|]. split; [exact L|]. split; [vm_compute; reflexivity|].
  apply (writable_iff _ _ _ _ _ A rank2_bound L). vm_compute. reflexivity.
Qed.
