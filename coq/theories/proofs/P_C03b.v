(* Proofs for property C03, part 3: derived dataflow laws of model/Graph.v. *)
From Cam Require Import Outcome Bytes Mem BitField RegCodec Formula Graph P_C01 P_C03.

Notation "'let!' x ':=' e 'in' k" := (mbind e (fun x => k))
  (at level 200, x pattern, e at level 100, k at level 200, right associativity).

Section Laws.
  Variable fops : float_ops.
  Variable nodes : list node.
  Notation run := (run fops nodes).
  Notation body_of := (body_of nodes).

  (* ---- pIndex ------------------------------------------------------------------------------ *)
  Lemma pick_first i pre e post d :
    (forall x, In x pre -> fst x <> i) -> pindex_pick i (pre ++ (i, e) :: post) d = e.
  Proof.
    intros H. unfold pindex_pick. induction pre as [|x r IH]; cbn [app find fst snd].
    - now rewrite Z.eqb_refl.
    - destruct (fst x =? i) eqn:E.
      + apply Z.eqb_eq in E. exfalso. apply (H x); [left; reflexivity|exact E].
      + apply IH. intros y Hy. apply H. right. exact Hy.
  Qed.
  Lemma pick_default i ents d : (forall x, In x ents -> fst x <> i) -> pindex_pick i ents d = d.
  Proof.
    intros H. unfold pindex_pick. induction ents as [|x r IH]; cbn [find]; [reflexivity|].
    destruct (fst x =? i) eqn:E.
    - apply Z.eqb_eq in E. exfalso. apply (H x); [left; reflexivity|exact E].
    - apply IH. intros y Hy. apply H. right. exact Hy.
  Qed.

  (* the source selected by index i: the first entry with that index, else the default *)
  Inductive selects (i : Z) (ents : list (Z * src)) (d : src) : src -> Prop :=
  | sel_entry pre e post : ents = pre ++ (i, e) :: post -> (forall x, In x pre -> fst x <> i) -> selects i ents d e
  | sel_default : (forall x, In x ents -> fst x <> i) -> selects i ents d d.

  Lemma selects_pick i ents d x : selects i ents d x -> pindex_pick i ents d = x.
  Proof. intros [pre e post -> H|H]; [apply pick_first; exact H|apply pick_default; exact H]. Qed.

  Lemma pindex_index_ok f idx s i s1 :
    is_int (body_of idx) = true -> run f (QIntValue idx) s = (Ok (AZ i), s1) ->
    pindex_index nodes (run f) idx s = (Ok i, s1).
  Proof. intros Hk H. unfold pindex_index. rewrite Hk. unfold mbind. rewrite H. reflexivity. Qed.

  Lemma pindex_select_value f n idx ents d mn mx inc s i s1 x :
    body_of n = NInteger (VPIndex idx ents d) mn mx inc -> is_int (body_of idx) = true ->
    run f (QIntValue idx) s = (Ok (AZ i), s1) -> selects i ents d x ->
    run (S f) (QIntValue n) s = (let! v := src_get_i fops nodes (run f) x in mret (AZ v)) s1.
  Proof.
    intros Hb Hk Hi Hs. cbn [Graph.run step]. rewrite Hb. cbn [vk_get_i].
    unfold mbind at 1 2. rewrite (pindex_index_ok f idx s i s1 Hk Hi).
    rewrite (selects_pick _ _ _ _ Hs). reflexivity.
  Qed.
  Lemma pindex_select_set f n idx ents d mn mx inc s i s1 x v :
    body_of n = NInteger (VPIndex idx ents d) mn mx inc -> is_int (body_of idx) = true ->
    run f (QIntValue idx) s = (Ok (AZ i), s1) -> selects i ents d x ->
    run (S f) (QIntSet n v) s = (let! _ := src_set_i fops nodes (run f) x v in mret AUnit) s1.
  Proof.
    intros Hb Hk Hi Hs. cbn [Graph.run step]. rewrite Hb. cbn [vk_set_i].
    unfold mbind at 1 2. rewrite (pindex_index_ok f idx s i s1 Hk Hi).
    rewrite (selects_pick _ _ _ _ Hs). reflexivity.
  Qed.

  (* ---- Boolean -------------------------------------------------------------------------------- *)
  Lemma boolean_value f n v on off s x s1 :
    body_of n = NBoolean v on off -> src_get_i fops nodes (run f) v s = (Ok x, s1) ->
    run (S f) (QBoolValue n) s =
      ((if x =? on then Ok (AB true) else if x =? off then Ok (AB false) else Err Mem.E_INVALID_NODE), s1).
  Proof.
    intros Hb Hv. cbn [Graph.run step]. rewrite Hb. unfold mbind. rewrite Hv.
    destruct (x =? on); [reflexivity|]. destruct (x =? off); reflexivity.
  Qed.

  Lemma boolean_inverse f f' n v on off (b : bool) s s1 s2 :
    body_of n = NBoolean v on off -> on <> off ->
    src_set_i fops nodes (run f) v (if b then on else off) s = (Ok tt, s1) ->
    src_get_i fops nodes (run f') v s1 = (Ok (if b then on else off), s2) ->
    run (S f) (QBoolSet n b) s = (Ok AUnit, s1) /\ run (S f') (QBoolValue n) s1 = (Ok (AB b), s2).
  Proof.
    intros Hb Hne Hs Hg. split.
    - cbn [Graph.run step]. rewrite Hb. unfold mbind. rewrite Hs. reflexivity.
    - rewrite (boolean_value f' n v on off s1 _ s2 Hb Hg). destruct b.
      + now rewrite Z.eqb_refl.
      + destruct (off =? on) eqn:E; [apply Z.eqb_eq in E; congruence|]. now rewrite Z.eqb_refl.
  Qed.

  Lemma nth_error_set_nth_same {A} (l : list A) k x : (k < length l)%nat -> nth_error (set_nth k x l) k = Some x.
  Proof.
    revert k; induction l as [|y r IH]; intros k H; cbn [length] in H; [lia|].
    destruct k; cbn [set_nth nth_error]; [reflexivity|apply IH; lia].
  Qed.
  Lemma nth_error_set_nth_other {A} (l : list A) k j x : k <> j -> nth_error (set_nth k x l) j = nth_error l j.
  Proof.
    revert k j; induction l as [|y r IH]; intros k j H; [destruct k; reflexivity|].
    destruct k, j; cbn [set_nth nth_error]; try reflexivity; [congruence|apply IH; congruence].
  Qed.
  Lemma length_set_nth {A} (l : list A) k x : length (set_nth k x l) = length l.
  Proof. revert k; induction l as [|y r IH]; intros k; destruct k; cbn [set_nth length]; auto. Qed.

  (* a Boolean over its own value slot: set then value returns what was set *)
  Lemma boolean_slot_inverse f f' n vid on off (b : bool) s :
    body_of n = NBoolean (SImm vid) on off -> on <> off -> (vid < length (s_vals s))%nat ->
    exists s1, run (S f) (QBoolSet n b) s = (Ok AUnit, s1) /\ run (S f') (QBoolValue n) s1 = (Ok (AB b), s1) /\
               s_dev s1 = s_dev s.
  Proof.
    intros Hb Hne Hv.
    set (s1 := {| s_vals := set_nth vid (VI (if b then on else off)) (s_vals s); s_dev := s_dev s |}).
    exists s1.
    destruct (boolean_inverse f f' n (SImm vid) on off b s s1 s1 Hb Hne) as [H1 H2].
    - reflexivity.
    - cbn [src_get_i]. unfold vid_int. subst s1. cbn [s_vals].
      rewrite nth_error_set_nth_same by exact Hv. reflexivity.
    - auto.
  Qed.

  (* ---- Enumeration ----------------------------------------------------------------------------- *)
  Lemma find_val_from_none k ents x :
    find_val_from k ents x = None <-> (forall e, In e ents -> ee_val e <> x).
  Proof.
    revert k; induction ents as [|e r IH]; intros k; cbn [find_val_from].
    - split; [intros _ e []|reflexivity].
    - destruct (ee_val e =? x) eqn:E.
      + apply Z.eqb_eq in E. split; [discriminate|]. intros H. exfalso. apply (H e); [left; reflexivity|exact E].
      + apply Z.eqb_neq in E. rewrite IH. split.
        * intros H e' [<-|Hin]; [exact E|apply H; exact Hin].
        * intros H e' Hin. apply H. right. exact Hin.
  Qed.
  Lemma find_val_from_some k ents x j :
    find_val_from k ents x = Some j ->
    (k <= j)%nat /\ exists e, nth_error ents (j - k) = Some e /\ ee_val e = x /\
      forall i e', (i < j - k)%nat -> nth_error ents i = Some e' -> ee_val e' <> x.
  Proof.
    revert k; induction ents as [|e r IH]; intros k; cbn [find_val_from]; [discriminate|].
    destruct (ee_val e =? x) eqn:E.
    - intros H. injection H as <-. apply Z.eqb_eq in E. split; [lia|]. exists e.
      rewrite Nat.sub_diag. split; [reflexivity|]. split; [exact E|]. intros i e' Hi. lia.
    - intros H. apply IH in H. destruct H as [Hle [e0 [Hn [Hv Hfirst]]]]. apply Z.eqb_neq in E.
      split; [lia|]. exists e0. replace (j - k)%nat with (S (j - S k)) by lia. cbn [nth_error].
      split; [exact Hn|]. split; [exact Hv|]. intros i e' Hi Hn'. destruct i; cbn [nth_error] in Hn'.
      + injection Hn' as <-. exact E.
      + apply (Hfirst i e'); [lia|exact Hn'].
  Qed.

  (* a value that no declared entry carries is refused before anything is touched *)
  Lemma enum_set_undeclared f n ents v x s :
    body_of n = NEnumeration ents v -> (forall e, In e ents -> ee_val e <> x) ->
    run (S f) (QEnumSet n x) s = (Err Mem.E_INVALID_DATA, s).
  Proof.
    intros Hb H. cbn [Graph.run step]. rewrite Hb. unfold find_entry_by_val.
    apply find_val_from_none with (k := O) in H. rewrite H. reflexivity.
  Qed.
  (* a declared value is written to the value source *)
  Lemma enum_set_declared f n ents v e s :
    body_of n = NEnumeration ents v -> In e ents ->
    run (S f) (QEnumSet n (ee_val e)) s = (let! _ := src_set_i fops nodes (run f) v (ee_val e) in mret AUnit) s.
  Proof.
    intros Hb H. cbn [Graph.run step]. rewrite Hb. unfold find_entry_by_val.
    destruct (find_val_from 0 ents (ee_val e)) eqn:E; [reflexivity|].
    rewrite find_val_from_none in E. exfalso. exact (E e H eq_refl).
  Qed.
  (* the reported entry is the first declared entry carrying the stored value *)
  Lemma enum_entry_declared f n ents v s k s1 :
    body_of n = NEnumeration ents v -> run (S f) (QEnumEntry n) s = (Ok (AE k), s1) ->
    exists e, nth_error ents k = Some e /\ src_get_i fops nodes (run f) v s = (Ok (ee_val e), s1) /\
              forall i e', (i < k)%nat -> nth_error ents i = Some e' -> ee_val e' <> ee_val e.
  Proof.
    intros Hb. cbn [Graph.run step]. rewrite Hb. unfold mbind.
    destruct (src_get_i fops nodes (run f) v s) as [[x|c|] s'] eqn:Ev; try discriminate.
    unfold find_entry_by_val. destruct (find_val_from 0 ents x) as [j|] eqn:E; [|discriminate].
    intros H. injection H as -> ->. apply find_val_from_some in E.
    destruct E as [_ [e [Hn [Hv Hfirst]]]]. rewrite Nat.sub_0_r in *. exists e. subst x. auto.
  Qed.
  Lemma enum_entry_undeclared f n ents v s x s1 :
    body_of n = NEnumeration ents v -> src_get_i fops nodes (run f) v s = (Ok x, s1) ->
    (forall e, In e ents -> ee_val e <> x) -> run (S f) (QEnumEntry n) s = (Err Mem.E_INVALID_NODE, s1).
  Proof.
    intros Hb Hv H. cbn [Graph.run step]. rewrite Hb. unfold mbind. rewrite Hv.
    unfold find_entry_by_val. apply find_val_from_none with (k := O) in H. rewrite H. reflexivity.
  Qed.

  (* ---- Command ---------------------------------------------------------------------------------- *)
  Lemma command_execute f n v cv s c s1 :
    body_of n = NCommand v cv -> src_get_i fops nodes (run f) cv s = (Ok c, s1) ->
    run (S f) (QCmdExec n) s = (let! _ := src_set_i fops nodes (run f) v c in mret AUnit) s1.
  Proof. intros Hb Hc. cbn [Graph.run step]. rewrite Hb. unfold mbind at 1. rewrite Hc. reflexivity. Qed.

  Lemma command_done_imm f n vid cv s :
    body_of n = NCommand (SImm vid) cv -> run (S f) (QCmdDone n) s = (Ok (AB true), s).
  Proof. intros Hb. cbn [Graph.run step]. rewrite Hb. reflexivity. Qed.

  Lemma command_done_unreadable f n m cv s s1 :
    body_of n = NCommand (SNode m) cv -> nid_readable nodes (run f) m s = (Ok false, s1) ->
    run (S f) (QCmdDone n) s = (Ok (AB true), s1).
  Proof. intros Hb Hr. cbn [Graph.run step]. rewrite Hb. unfold mbind. rewrite Hr. reflexivity. Qed.

  Lemma command_done_readable f n m cv s s1 c s2 x s3 :
    body_of n = NCommand (SNode m) cv -> nid_readable nodes (run f) m s = (Ok true, s1) ->
    src_get_i fops nodes (run f) cv s1 = (Ok c, s2) -> nid_get_i fops nodes (run f) m s2 = (Ok x, s3) ->
    run (S f) (QCmdDone n) s = (Ok (AB (negb (c =? x))), s3).
  Proof.
    intros Hb Hr Hc Hx. cbn [Graph.run step]. rewrite Hb. unfold mbind. rewrite Hr, Hc, Hx. reflexivity.
  Qed.
End Laws.

(* ---- register address = sum of the address elements; length from Length / pLength ---------------- *)
Section Address.
  Variable fops : float_ops.
  Variable nodes : list node.
  Variable call : req -> M ans.
  Notation body_of := (body_of nodes).

  (* the elements are evaluated one after the other, each in the state left by the previous one *)
  Inductive addr_evals : list addr -> state -> list Z -> state -> Prop :=
  | ae_nil s : addr_evals [] s [] s
  | ae_cons a r s v s1 vs s2 :
      addr_value fops nodes call a s = (Ok v, s1) -> addr_evals r s1 vs s2 ->
      addr_evals (a :: r) s (v :: vs) s2.

  (* every partial sum is an i64 *)
  Fixpoint prefix_ok (acc : Z) (vs : list Z) : Prop :=
    match vs with
    | [] => True
    | v :: r => in_s 64 (acc + v) = true /\ prefix_ok (acc + v) r
    end.

  Definition zsum (vs : list Z) : Z := fold_right Z.add 0 vs.

  Lemma addr_sum_spec l s vs s' acc :
    addr_evals l s vs s' -> prefix_ok acc vs ->
    addr_sum fops nodes call acc l s = (Ok (acc + zsum vs), s').
  Proof.
    intros H. revert acc. induction H as [s|a r s v s1 vs s2 Hv _ IH]; intros acc Hp.
    - cbn [addr_sum zsum fold_right]. unfold mret. now rewrite Z.add_0_r.
    - cbn [addr_sum]. destruct Hp as [Hr Hp]. unfold mbind at 1. rewrite Hv.
      unfold mbind at 1. unfold mlift, chk_s. rewrite Hr.
      rewrite (IH _ Hp). cbn [zsum fold_right]. f_equal. f_equal. unfold zsum. lia.
  Qed.

  Lemma reg_address_sum r s vs s' :
    addr_evals (rb_addrs r) s vs s' -> prefix_ok 0 vs ->
    reg_address fops nodes call r s = (Ok (zsum vs), s').
  Proof. intros H Hp. unfold reg_address. rewrite (addr_sum_spec _ _ _ _ 0 H Hp). reflexivity. Qed.

  (* the value of one element *)
  Lemma addr_elem_address z s : addr_value fops nodes call (AAddr (IImm z)) s = (Ok z, s).
  Proof. reflexivity. Qed.
  Lemma addr_elem_paddress n s : addr_value fops nodes call (AAddr (INode n)) s = nid_get_i fops nodes call n s.
  Proof. reflexivity. Qed.
  Lemma addr_elem_knife n s : addr_value fops nodes call (AKnife n) s = nid_get_i fops nodes call n s.
  Proof. reflexivity. Qed.
  Lemma addr_elem_index_offset o idx s b s1 ov s2 :
    nid_get_i fops nodes call idx s = (Ok b, s1) -> isrc_get_i fops nodes call o s1 = (Ok ov, s2) ->
    in_s 64 (b * ov) = true ->
    addr_value fops nodes call (AIndex (Some o) idx) s = (Ok (b * ov), s2).
  Proof.
    intros Hb Ho Hr. cbn [addr_value]. unfold mbind. rewrite Hb, Ho. unfold mlift, chk_s. now rewrite Hr.
  Qed.
  Lemma addr_elem_index idx s : addr_value fops nodes call (AIndex None idx) s = nid_get_i fops nodes call idx s.
  Proof.
    cbn [addr_value]. unfold mbind, mret. destruct (nid_get_i fops nodes call idx s) as [[b|e|] s1]; reflexivity.
  Qed.

  (* every device access of a register-backed feature uses that address and that length *)
  Lemma reg_fetch_access r s len s1 a s2 :
    reg_length fops nodes call r s = (Ok len, s1) -> reg_address fops nodes call r s1 = (Ok a, s2) ->
    0 <= len <= 2 ^ 20 -> body_of (rb_port r) = NPort false ->
    reg_fetch fops nodes call r s = m_dev_read a len s2 /\
    d_log (s_dev (snd (m_dev_read a len s2))) = RdAcc a len :: d_log (s_dev s2).
  Proof.
    intros Hl Ha Hr Hp. split.
    - unfold reg_fetch, mbind. rewrite Hl, Ha. unfold alloc_check.
      destruct (len <? 0) eqn:E1; [lia|]. destruct (2 ^ 20 <? len) eqn:E2; [lia|]. unfold mret.
      unfold read_and_cache. rewrite Z.eqb_refl. cbn [negb]. unfold port_read. rewrite Hp. reflexivity.
    - unfold m_dev_read, dev_read. destruct (dev_check (s_dev s2) a len); reflexivity.
  Qed.
  Lemma reg_store_access r bs s s1 a s2 :
    reg_length fops nodes call r s = (Ok (zlen bs), s1) -> reg_address fops nodes call r s1 = (Ok a, s2) ->
    body_of (rb_port r) = NPort false ->
    reg_store fops nodes call r bs s = m_dev_write a bs s2 /\
    d_log (s_dev (snd (m_dev_write a bs s2))) = WrAcc a bs :: d_log (s_dev s2).
  Proof.
    intros Hl Ha Hp. split.
    - unfold reg_store. unfold mbind at 1. rewrite Hl. rewrite Z.eqb_refl. cbn [negb].
      unfold mbind. rewrite Ha. unfold port_write. rewrite Hp. reflexivity.
    - unfold m_dev_write, dev_write, dev_check.
      repeat match goal with |- context [if ?x then _ else _] => destruct x end; reflexivity.
  Qed.
  (* a buffer of another length is refused without any device access *)
  Lemma reg_store_wrong_length r bs s len s1 :
    reg_length fops nodes call r s = (Ok len, s1) -> zlen bs <> len ->
    reg_store fops nodes call r bs s = (Err E_INVALID_BUFFER, s1).
  Proof.
    intros Hl Hne. unfold reg_store. unfold mbind at 1. rewrite Hl.
    destruct (zlen bs =? len) eqn:E; [apply Z.eqb_eq in E; congruence|]. reflexivity.
  Qed.
  Lemma reg_length_imm r z s : rb_len r = IImm z -> reg_length fops nodes call r s = (Ok z, s).
  Proof. intros H. unfold reg_length. rewrite H. reflexivity. Qed.
  Lemma reg_length_node r n s : rb_len r = INode n -> reg_length fops nodes call r s = nid_get_i fops nodes call n s.
  Proof. intros H. unfold reg_length. rewrite H. reflexivity. Qed.
End Address.

(* ---- formula environments ------------------------------------------------------------------------ *)
Section Env.
  Variable fops : float_ops.
  Variable nodes : list node.
  Variable call : req -> M ans.
  Notation body_of := (body_of nodes).

  (* the LAST binding of a name in declaration order *)
  Fixpoint lookup_last {A} (s : ident) (l : list (ident * A)) : option A :=
    match l with
    | [] => None
    | (n, v) :: r =>
      match lookup_last s r with
      | Some x => Some x
      | None => if list_eq_dec Z.eq_dec n s then Some v else None
      end
    end.

  Lemma lookup_push_all {A} s (l env : list (ident * A)) :
    lookup s (rev l ++ env) = match lookup_last s l with Some x => Some x | None => lookup s env end.
  Proof.
    revert env; induction l as [|[n v] r IH]; intros env; cbn [rev lookup_last app]; [reflexivity|].
    rewrite <- app_assoc. rewrite IH. cbn [app lookup].
    destruct (lookup_last s r); [reflexivity|]. destruct (list_eq_dec Z.eq_dec n s); reflexivity.
  Qed.

  (* the variables are evaluated in declaration order, each in the state left by the previous one *)
  Inductive vars_eval : list (ident * nat) -> state -> list (ident * expr) -> state -> Prop :=
  | ve_nil s : vars_eval [] s [] s
  | ve_cons nm n r s k e s1 bs s2 :
      var_kind nm = Ok k -> var_value fops nodes call k n s = (Ok e, s1) -> vars_eval r s1 bs s2 ->
      vars_eval ((nm, n) :: r) s ((nm, e) :: bs) s2.

  Lemma collect_vars_spec vars s bs s' env :
    vars_eval vars s bs s' -> collect_vars fops nodes call vars env s = (Ok (rev bs ++ env), s').
  Proof.
    intros H. revert env. induction H as [s|nm n r s k e s1 bs s2 Hk Hv _ IH]; intros env.
    - reflexivity.
    - cbn [collect_vars]. unfold mbind at 1. unfold mlift. rewrite Hk. unfold mbind at 1. rewrite Hv.
      rewrite IH. cbn [rev]. rewrite <- app_assoc. reflexivity.
  Qed.

  (* name resolution in the collected environment: Expression, then Constant, then pVariable (the
     later declaration of a name wins inside each group), then the TO / FROM binding *)
  Definition resolve (k : knife) (bs env0 : list (ident * expr)) (s : ident) : option expr :=
    match lookup_last s (k_exprs k) with
    | Some e => Some e
    | None =>
      match lookup_last s (k_consts k) with
      | Some c => Some c
      | None => match lookup_last s bs with Some v => Some v | None => lookup s env0 end
      end
    end.

  Lemma collect_env_spec k env0 s bs s' :
    vars_eval (k_vars k) s bs s' ->
    exists env, collect_env fops nodes call k env0 s = (Ok env, s') /\
                forall name, lookup name env = resolve k bs env0 name.
  Proof.
    intros H. eexists. split.
    - unfold collect_env, mbind. rewrite (collect_vars_spec _ _ _ _ env0 H). reflexivity.
    - intros name. unfold push_all, resolve. rewrite !lookup_push_all. reflexivity.
  Qed.

  (* Converter / IntConverter read: FormulaFrom over the environment with TO bound to the pValue *)
  Lemma conv_value_spec k ffrom p s to s1 bs s2 :
    expr_from_nid fops nodes call p s = (Ok to, s1) -> vars_eval (k_vars k) s1 bs s2 ->
    exists env, conv_value fops nodes call k ffrom p s = eval_formula fops k env ffrom s2 /\
                forall name, lookup name env = resolve k bs [(S_TO, to)] name.
  Proof.
    intros Ht Hv. destruct (collect_env_spec k [(S_TO, to)] s1 bs s2 Hv) as [env [He Hl]].
    exists env. split; [|exact Hl]. unfold conv_value, mbind. rewrite Ht, He. reflexivity.
  Qed.
  (* write: FormulaTo with FROM bound to the written value, result stored through set_eval_result *)
  Lemma conv_set_spec k fto p from s bs s1 :
    vars_eval (k_vars k) s bs s1 ->
    exists env, conv_set fops nodes call k fto p from s =
                  (let! r := eval_formula fops k env fto in set_eval_result fops nodes call p r) s1 /\
                forall name, lookup name env = resolve k bs [(S_FROM, from)] name.
  Proof.
    intros Hv. destruct (collect_env_spec k [(S_FROM, from)] s bs s1 Hv) as [env [He Hl]].
    exists env. split; [|exact Hl]. unfold conv_set. unfold mbind at 1. rewrite He. reflexivity.
  Qed.
  (* SwissKnife / IntSwissKnife *)
  Lemma knife_value_spec k f s bs s1 :
    vars_eval (k_vars k) s bs s1 ->
    exists env, knife_value fops nodes call k f s = eval_formula fops k env f s1 /\
                forall name, lookup name env = resolve k bs [] name.
  Proof.
    intros Hv. destruct (collect_env_spec k [] s bs s1 Hv) as [env [He Hl]].
    exists env. split; [|exact Hl]. unfold knife_value, mbind. rewrite He. reflexivity.
  Qed.

  (* the result is stored with the coercion of the target's interface *)
  Definition coerced_request (p : nat) (r : res) : option req :=
    let b := body_of p in
    if is_int b then Some (QIntSet p (as_integer fops r))
    else if is_flt b then Some (QFltSet p (as_float fops r))
    else if is_bool b then Some (QBoolSet p (as_bool r))
    else if is_enum b then Some (QEnumSet p (as_integer fops r))
    else None.
  Lemma set_eval_result_spec p r :
    set_eval_result fops nodes call p r =
    match coerced_request p r with
    | Some q => (let! a := call q in as_u a)
    | None => merr Mem.E_INVALID_NODE
    end.
  Proof.
    unfold set_eval_result, coerced_request.
    destruct (is_int (body_of p)); [reflexivity|]. destruct (is_flt (body_of p)); [reflexivity|].
    destruct (is_bool (body_of p)); [reflexivity|]. destruct (is_enum (body_of p)); reflexivity.
  Qed.

  (* accessors *)
  Lemma var_kind_plain nm : ~ In 46 nm -> var_kind nm = Ok VkValue.
  Proof.
    intros H. unfold var_kind.
    assert (E : forall cur, split_dot 3 cur nm = [rev cur ++ nm]).
    { induction nm as [|c r IH]; intros cur; cbn [split_dot]; [now rewrite app_nil_r|].
      destruct (c =? 46) eqn:Ec; [apply Z.eqb_eq in Ec; exfalso; apply H; left; auto|].
      rewrite IH by (intros Hin; apply H; right; exact Hin). cbn [rev]. rewrite <- app_assoc. reflexivity. }
    rewrite E. reflexivity.
  Qed.
End Env.

(* ---- pValue chains of any length ------------------------------------------------------------------ *)
Section Chain.
  Variable fops : float_ops.
  Variable nodes : list node.
  Notation run := (run fops nodes).
  Notation body_of := (body_of nodes).

  Lemma bind_az_shape {A} (m : M A) (g : A -> Z) s a s' :
    (let! x := m in mret (AZ (g x))) s = (Ok a, s') -> exists z, a = AZ z.
  Proof.
    unfold mbind, mret. destruct (m s) as [[x|e|] s1]; intros H; inversion H; eauto.
  Qed.

  (* IInteger::value answers with an integer *)
  Lemma int_value_shape f n s a s' : run f (QIntValue n) s = (Ok a, s') -> exists z, a = AZ z.
  Proof.
    destruct f as [|f]; [discriminate|]. cbn [Graph.run step].
    destruct (body_of n); try discriminate.
    - apply (bind_az_shape _ (fun x => x)).
    - apply (bind_az_shape _ (fun x => x)).
    - apply (bind_az_shape _ (fun x => x)).
    - apply (bind_az_shape _ (as_integer fops)).
    - apply (bind_az_shape _ (as_integer fops)).
  Qed.

  Lemma nid_get_i_of_int f p s :
    is_int (body_of p) = true ->
    (let! x := nid_get_i fops nodes (run f) p in mret (AZ x)) s = run f (QIntValue p) s.
  Proof.
    intros Hk. unfold nid_get_i. rewrite Hk. unfold mbind, mret.
    destruct (run f (QIntValue p) s) as [[a|e|] s'] eqn:E; try reflexivity.
    destruct (int_value_shape _ _ _ _ _ E) as [z ->]. reflexivity.
  Qed.

  (* a slot integer: an Integer feature with an immediate <Value> *)
  Definition slot_int (c vid : nat) : Prop := exists a b d, body_of c = NInteger (VValue vid) a b d.

  (* chain [n_k; ...; n_1] t vids: n_1 ->pValue t, n_(i+1) ->pValue n_i; every level may have
     pValueCopy targets that are slot integers; vids lists their slots, innermost level first, in
     declaration order *)
  Inductive chain : list nat -> nat -> list nat -> Prop :=
  | ch_nil t : chain [] t []
  | ch_cons n rest t copies mn mx inc vids cv :
      body_of n = NInteger (VPValue (hd t rest) copies) mn mx inc ->
      Forall2 slot_int copies cv -> chain rest t vids -> chain (n :: rest) t (vids ++ cv).

  Lemma chain_hd_int ns t vids : chain ns t vids -> is_int (body_of t) = true -> is_int (body_of (hd t ns)) = true.
  Proof. intros [t'|n rest t' copies mn mx inc vs cv Hb _ _] Ht; cbn [hd]; [exact Ht|now rewrite Hb]. Qed.

  (* reading anywhere in the chain reads the terminal *)
  Lemma chain_value ns t vids :
    chain ns t vids -> is_int (body_of t) = true ->
    forall f s, run (length ns + S f) (QIntValue (hd t ns)) s = run (S f) (QIntValue t) s.
  Proof.
    intros H Ht. induction H as [t|n rest t copies mn mx inc vids cv Hb Hc Hch IH]; intros f s; [reflexivity|].
    cbn [length hd Nat.add]. cbn [Graph.run step]. rewrite Hb. cbn [vk_get_i].
    rewrite (nid_get_i_of_int _ _ _ (chain_hd_int _ _ _ Hch Ht)). apply IH. exact Ht.
  Qed.

  Definition set_slots (vids : list nat) (v : Z) (vals : list vslot) : list vslot :=
    fold_left (fun vs vid => set_nth vid (VI v) vs) vids vals.

  Lemma copy_set F c vid v st :
    slot_int c vid ->
    nid_set_i fops nodes (run (S F)) c v st =
      (Ok tt, {| s_vals := set_nth vid (VI v) (s_vals st); s_dev := s_dev st |}).
  Proof.
    intros [a [b [d Hb]]]. unfold nid_set_i. rewrite Hb. cbn [is_int].
    cbn [Graph.run step]. rewrite Hb. cbn [vk_set_i]. reflexivity.
  Qed.

  Lemma copies_set F copies cv v :
    Forall2 slot_int copies cv -> forall st,
    mfold (fun c => nid_set_i fops nodes (run (S F)) c v) copies st =
      (Ok tt, {| s_vals := set_slots cv v (s_vals st); s_dev := s_dev st |}).
  Proof.
    induction 1 as [|c vid copies cv Hc _ IH]; intros st.
    - cbn [mfold set_slots fold_left]. destruct st; reflexivity.
    - cbn [mfold]. unfold mbind at 1. rewrite (copy_set F c vid v st Hc).
      rewrite IH. cbn [s_vals s_dev set_slots fold_left]. reflexivity.
  Qed.

  (* writing at the top of a chain of ANY length: the terminal receives the value, then every copy
     target of every level (innermost level first, declaration order) holds it; nothing else is
     touched, in particular the device sees only what the terminal does *)
  Lemma chain_set ns t vids v :
    chain ns t vids -> is_int (body_of t) = true ->
    forall f s s1, run (S f) (QIntSet t v) s = (Ok AUnit, s1) ->
    run (length ns + S f) (QIntSet (hd t ns) v) s =
      (Ok AUnit, {| s_vals := set_slots vids v (s_vals s1); s_dev := s_dev s1 |}).
  Proof.
    intros H Ht. induction H as [t|n rest t copies mn mx inc vids cv Hb Hc Hch IH]; intros f s s1 Hs.
    - cbn [length hd Nat.add set_slots fold_left]. rewrite Hs. destruct s1; reflexivity.
    - cbn [length hd Nat.add]. cbn [Graph.run step]. rewrite Hb. cbn [vk_set_i].
      unfold mbind at 1 2. unfold nid_set_i at 1. rewrite (chain_hd_int _ _ _ Hch Ht).
      unfold mbind at 1. rewrite (IH Ht f s s1 Hs). cbn [as_u]. unfold mret at 1.
      replace (length rest + S f)%nat with (S (length rest + f)) by lia.
      rewrite (copies_set _ _ _ v Hc). cbn [s_vals s_dev]. unfold mret, set_slots. rewrite fold_left_app. reflexivity.
  Qed.

  Lemma set_slots_keeps r v vals vid :
    nth_error vals vid = Some (VI v) -> nth_error (set_slots r v vals) vid = Some (VI v).
  Proof.
    revert vals; induction r as [|x r IH]; intros vals H; cbn [set_slots fold_left]; [exact H|].
    apply IH. destruct (Nat.eq_dec x vid) as [->|Hne].
    - apply nth_error_set_nth_same. apply nth_error_Some. congruence.
    - rewrite nth_error_set_nth_other by exact Hne. exact H.
  Qed.
  Lemma set_slots_holds vids v vals vid :
    In vid vids -> (vid < length vals)%nat -> nth_error (set_slots vids v vals) vid = Some (VI v).
  Proof.
    revert vals; induction vids as [|x r IH]; intros vals Hin Hlt; [destruct Hin|].
    cbn [set_slots fold_left]. destruct (Nat.eq_dec x vid) as [->|Hne].
    - apply set_slots_keeps. apply nth_error_set_nth_same. exact Hlt.
    - destruct Hin as [->|Hin]; [congruence|]. apply IH; [exact Hin|]. now rewrite length_set_nth.
  Qed.

  (* a slot integer reports the content of its slot *)
  Lemma slot_int_value f c vid s v :
    slot_int c vid -> nth_error (s_vals s) vid = Some (VI v) -> run (S f) (QIntValue c) s = (Ok (AZ v), s).
  Proof.
    intros [a [b [d Hb]]] Hn. cbn [Graph.run step]. rewrite Hb. cbn [vk_get_i]. unfold mbind, vid_int.
    rewrite Hn. reflexivity.
  Qed.

  (* after the write every copy target reads back the written value *)
  Lemma chain_copies_hold ns t vids v f s s1 c vid g :
    chain ns t vids -> is_int (body_of t) = true -> run (S f) (QIntSet t v) s = (Ok AUnit, s1) ->
    In vid vids -> slot_int c vid -> (vid < length (s_vals s1))%nat ->
    exists s', run (length ns + S f) (QIntSet (hd t ns) v) s = (Ok AUnit, s') /\ s_dev s' = s_dev s1 /\
               run (S g) (QIntValue c) s' = (Ok (AZ v), s').
  Proof.
    intros Hch Ht Hs Hin Hc Hlt. eexists. split; [apply (chain_set _ _ _ v Hch Ht f s s1 Hs)|].
    split; [reflexivity|]. apply slot_int_value with (vid := vid); [exact Hc|].
    cbn [s_vals]. apply set_slots_holds; assumption.
  Qed.
End Chain.

(* ---- a register terminal: IntReg at a constant address (ties the chain laws to C01's codec laws) --- *)
Section Terminal.
  Variable fops : float_ops.
  Variable nodes : list node.
  Notation run := (run fops nodes).
  Notation body_of := (body_of nodes).

  Definition const_intreg (t : nat) (a len sign endian : Z) : Prop :=
    exists r, body_of t = NIntReg r sign endian /\ rb_addrs r = [AAddr (IImm a)] /\ rb_len r = IImm len /\
              body_of (rb_port r) = NPort false.

  Lemma supported_alloc len : supported_int_len len = true -> alloc_check len = mret tt.
  Proof.
    intros H. destruct (supported_cases len H) as [->|[->|[->| ->]]]; reflexivity.
  Qed.

  Lemma const_intreg_set f t a len sign endian v s :
    const_intreg t a len sign endian -> supported_int_len len = true -> in_s 64 a = true ->
    run (S f) (QIntSet t v) s =
      (let! _ := m_dev_write a (int_image v len endian) in mret AUnit) s.
  Proof.
    intros [r [Hb [Ha [Hl Hp]]]] Hs Hr. cbn [Graph.run step]. rewrite Hb.
    assert (Hlen : 0 <= len) by (destruct (supported_cases len Hs) as [->|[->|[->| ->]]]; lia).
    unfold intreg_set, reg_store, reg_length, reg_address, port_write. rewrite Hl, Ha, Hp.
    cbn [isrc_get_i addr_sum addr_value]. unfold mbind, mret.
    rewrite (supported_alloc len Hs). unfold mret, mlift.
    rewrite (bytes_from_int_image v len endian sign Hs).
    rewrite (zlen_int_image v len endian Hlen). rewrite Z.eqb_refl. cbn [negb].
    unfold chk_s. cbn [Z.add]. rewrite Hr. reflexivity.
  Qed.

  Lemma const_intreg_value f t a len sign endian s :
    const_intreg t a len sign endian -> supported_int_len len = true -> in_s 64 a = true ->
    run (S f) (QIntValue t) s =
      (let! data := m_dev_read a len in let! x := mlift (int_from_slice data endian sign) in mret (AZ x)) s.
  Proof.
    intros [r [Hb [Ha [Hl Hp]]]] Hs Hr. cbn [Graph.run step]. rewrite Hb.
    unfold intreg_value, reg_fetch, reg_length, reg_address, read_and_cache, port_read. rewrite Hl, Ha, Hp.
    cbn [isrc_get_i addr_sum addr_value]. unfold mbind, mret, mlift.
    unfold chk_s. cbn [Z.add]. rewrite Hr.
    rewrite (supported_alloc len Hs). unfold mret. rewrite Z.eqb_refl. cbn [negb].
    destruct (m_dev_read a len s) as [[d|e|] s']; try reflexivity.
  Qed.

  (* set then value on the terminal: exactly one device write (the codec image of C01), the value
     store untouched, and the value reads back *)
  Lemma const_intreg_roundtrip f g t a len sign endian v s :
    const_intreg t a len sign endian -> supported_int_len len = true -> in_s 64 a = true ->
    int_in_range len sign v -> in_dev (s_dev s) a len ->
    exists s1 s2,
      run (S f) (QIntSet t v) s = (Ok AUnit, s1) /\ s_vals s1 = s_vals s /\
      d_log (s_dev s1) = WrAcc a (int_image v len endian) :: d_log (s_dev s) /\
      (forall vals', run (S g) (QIntValue t) {| s_vals := vals'; s_dev := s_dev s1 |} =
                     (Ok (AZ v), {| s_vals := vals'; s_dev := s_dev s2 |})) /\
      d_mem (s_dev s2) = d_mem (s_dev s1).
  Proof.
    intros Hc Hs Hr Hv Hin.
    assert (Hlen : 0 <= len) by (destruct (supported_cases len Hs) as [->|[->|[->| ->]]]; lia).
    set (img := int_image v len endian).
    assert (Hzi : zlen img = len) by (apply zlen_int_image; exact Hlen).
    destruct (dev_write_spec (s_dev s) a img) as [d1 [Hw [Hlog [Hout [Hrej Hrd]]]]]; [rewrite Hzi; exact Hin|].
    assert (Hin1 : in_dev d1 a len).
    { destruct Hin as [A [B C]]. destruct Hout as [O1 [O2 _]]. unfold in_dev. rewrite O1, O2. auto. }
    destruct (dev_read_spec d1 a len Hin1) as [d2 [Hr2 [Hl2 [Hm2 _]]]].
    exists {| s_vals := s_vals s; s_dev := d1 |}, {| s_vals := s_vals s; s_dev := d2 |}.
    split.
    { rewrite (const_intreg_set f t a len sign endian v s Hc Hs Hr). unfold mbind, m_dev_write. fold img.
      rewrite Hw. reflexivity. }
    split; [reflexivity|]. split; [exact Hlog|]. split; [|exact Hm2].
    intros vals'. rewrite (const_intreg_value g t a len sign endian _ Hc Hs Hr).
    unfold mbind, m_dev_read. cbn [s_dev s_vals]. rewrite Hr2. unfold mlift.
    destruct Hout as [O1 _]. rewrite O1. rewrite Hzi in Hrd. rewrite Hrd. subst img.
    rewrite (int_roundtrip v len endian sign Hs Hv). reflexivity.
  Qed.
End Terminal.

(* ---- the chain law with a register terminal ----------------------------------------------------- *)
Section ChainRegister.
  Variable fops : float_ops.
  Variable nodes : list node.
  Notation run := (run fops nodes).

  Lemma chain_register_roundtrip ns t vids a len sign endian v f g s :
    chain nodes ns t vids -> const_intreg nodes t a len sign endian ->
    supported_int_len len = true -> in_s 64 a = true -> int_in_range len sign v -> in_dev (s_dev s) a len ->
    exists s1 s2,
      run (length ns + S f) (QIntSet (hd t ns) v) s = (Ok AUnit, s1) /\
      s_vals s1 = set_slots vids v (s_vals s) /\
      d_log (s_dev s1) = WrAcc a (int_image v len endian) :: d_log (s_dev s) /\
      run (length ns + S g) (QIntValue (hd t ns)) s1 = (Ok (AZ v), s2) /\
      s_vals s2 = s_vals s1 /\ d_mem (s_dev s2) = d_mem (s_dev s1).
  Proof.
    intros Hch Hc Hs Hr Hv Hin.
    assert (Ht : is_int (body_of nodes t) = true) by (destruct Hc as [r [Hb _]]; now rewrite Hb).
    destruct (const_intreg_roundtrip fops nodes f g t a len sign endian v s Hc Hs Hr Hv Hin)
      as [s1 [s2 [Hset [Hvals [Hlog [Hread Hmem]]]]]].
    exists {| s_vals := set_slots vids v (s_vals s1); s_dev := s_dev s1 |},
           {| s_vals := set_slots vids v (s_vals s1); s_dev := s_dev s2 |}.
    split; [apply (chain_set fops nodes ns t vids v Hch Ht f s s1 Hset)|].
    cbn [s_vals s_dev]. split; [now rewrite Hvals|]. split; [exact Hlog|].
    split; [|split; [reflexivity|exact Hmem]].
    rewrite (chain_value fops nodes ns t vids Hch Ht g). apply Hread.
  Qed.
End ChainRegister.

(* ---- non-vacuity: a concrete store satisfying the hypotheses -------------------------------------- *)
Definition ex_nodes : list node :=
  [ {| nd_acc := 2; nd_body := NIntReg {| rb_addrs := [AAddr (IImm 256)]; rb_len := IImm 2; rb_acc := 2; rb_port := 5 |} 0 0 |};
    {| nd_acc := 2; nd_body := NInteger (VValue 0) (SImm 1) (SImm 2) (IImm 1) |};
    {| nd_acc := 2; nd_body := NInteger (VPValue 0 [1%nat]) (SImm 1) (SImm 2) (IImm 1) |};
    {| nd_acc := 2; nd_body := NInteger (VPValue 2 []) (SImm 1) (SImm 2) (IImm 1) |};
    {| nd_acc := 2; nd_body := NInteger (VPIndex 1 [(0, SNode 3)] (SImm 0)) (SImm 1) (SImm 2) (IImm 1) |};
    {| nd_acc := 2; nd_body := NPort false |} ].

Example ex_ranked : ranked ex_nodes (fun n => n).
Proof.
  intros n nd H. do 6 (destruct n as [|n]; [injection H as <-; cbn; repeat constructor|]).
  destruct n; discriminate.
Qed.
Example ex_chain : chain ex_nodes [3; 2]%nat 0%nat [0%nat].
Proof.
  apply (ch_cons ex_nodes 3 [2%nat] 0 [] (SImm 1) (SImm 2) (IImm 1) [0%nat] []); [reflexivity|constructor|].
  apply (ch_cons ex_nodes 2 [] 0 [1%nat] (SImm 1) (SImm 2) (IImm 1) [] [0%nat]); [reflexivity| |constructor].
  constructor; [|constructor]. exists (SImm 1), (SImm 2), (IImm 1). reflexivity.
Qed.
Example ex_const_intreg : const_intreg ex_nodes 0 256 2 0 0.
Proof. eexists. repeat split. Qed.
