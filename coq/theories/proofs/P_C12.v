(* Proofs for C12 (model/StreamLoop.v, spec/FrameSpec.v). *)
From Coq Require Import Sorted.
From Cam Require Import Outcome Bytes Ack Stream Payload StreamLoop FrameSpec GenCPLayout StreamLayout P_C08 P_C11.

(* ---- lists ---------------------------------------------------------------------------- *)

Lemma take_app_le {A} n (a b : list A) : n <= zlen a -> take n (a ++ b) = take n a.
Proof.
  unfold take, zlen. intros H. rewrite firstn_app.
  replace (Z.to_nat n - length a)%nat with 0%nat by lia. cbn [firstn]. apply app_nil_r.
Qed.

Lemma take_app_ge {A} n (a b : list A) : zlen a <= n -> take n (a ++ b) = a ++ take (n - zlen a) b.
Proof.
  unfold take, zlen. intros H. rewrite firstn_app. rewrite firstn_all2 by lia.
  f_equal. f_equal. lia.
Qed.

Lemma take_take {A} n m (l : list A) : n <= m -> take n (take m l) = take n l.
Proof.
  unfold take. intros H. rewrite firstn_firstn. f_equal. lia.
Qed.

Lemma take_all {A} n (l : list A) : zlen l <= n -> take n l = l.
Proof. unfold take, zlen. intros H. apply firstn_all2. lia. Qed.

Lemma take_neg {A} n (l : list A) : n <= 0 -> take n l = [].
Proof. unfold take. intros H. replace (Z.to_nat n) with 0%nat by lia. reflexivity. Qed.

Lemma zlen_take_min {A} n (l : list A) : zlen (take n l) = Z.min (Z.max 0 n) (zlen l).
Proof. unfold take, zlen. rewrite firstn_length. lia. Qed.

Lemma zlen_repeat {A} (x : A) n : zlen (repeat x n) = Z.of_nat n.
Proof. unfold zlen. now rewrite repeat_length. Qed.

Lemma bytes_ok_repeat0 n : bytes_ok (repeat 0 n).
Proof. induction n; cbn [repeat]; constructor; auto. unfold is_byte. lia. Qed.

Lemma take_drop_take {A} n k (l : list A) : 0 <= k -> 0 <= n ->
  take n (drop k l) = drop k (take (k + n) l).
Proof.
  intros Hk Hn. unfold take, drop.
  replace (Z.to_nat (k + n)) with (Z.to_nat k + Z.to_nat n)%nat by lia.
  revert l. generalize (Z.to_nat k) as a. generalize (Z.to_nat n) as b. clear.
  intros b a. induction a as [|a IH]; intros l; cbn [skipn Nat.add]; [reflexivity|].
  destruct l as [|x l]; cbn [firstn skipn]; [now rewrite firstn_nil|]. apply IH.
Qed.

(* ---- write_at --------------------------------------------------------------------------- *)

Lemma zlen_write_at buf off d :
  0 <= off -> off + zlen d <= zlen buf -> zlen (write_at buf off d) = zlen buf.
Proof.
  intros H0 H1. pose proof (zlen_nonneg d). unfold write_at.
  rewrite !zlen_app, zlen_take, zlen_drop by lia. lia.
Qed.

Lemma bytes_ok_write_at buf off d : bytes_ok buf -> bytes_ok d -> bytes_ok (write_at buf off d).
Proof.
  intros Hb Hd. unfold write_at. apply bytes_ok_app; [now apply bytes_ok_take|].
  apply bytes_ok_app; [exact Hd|now apply bytes_ok_drop].
Qed.

Lemma take_write_at_0 buf d : take (zlen d) (write_at buf 0 d) = d.
Proof. unfold write_at. rewrite (take_neg 0) by lia. cbn [app]. apply take_app_exact. Qed.

Lemma take_write_at_before buf off d n :
  0 <= n <= off -> off <= zlen buf -> take n (write_at buf off d) = take n buf.
Proof.
  intros Hn Ho. unfold write_at. rewrite take_app_le by (rewrite zlen_take_min; lia).
  apply take_take. lia.
Qed.

Lemma take_write_at_end buf off d :
  0 <= off <= zlen buf -> take (off + zlen d) (write_at buf off d) = take off buf ++ d.
Proof.
  intros Ho. pose proof (zlen_nonneg d). unfold write_at.
  rewrite take_app_ge by (rewrite zlen_take_min; lia).
  rewrite zlen_take by lia. replace (off + zlen d - off) with (zlen d) by lia.
  now rewrite take_app_exact.
Qed.

(* ---- payload transfers --------------------------------------------------------------------- *)


Lemma zsum_app a b : zsum (a ++ b) = zsum a + zsum b.
Proof. unfold zsum. induction a as [|x a IH]; cbn [app fold_right]; lia. Qed.

Lemma zsum_repeat x n : zsum (repeat x n) = x * Z.of_nat n.
Proof.
  unfold zsum in *. induction n as [|n IH]; cbn [repeat fold_right]; lia.
Qed.

Lemma zsum_psizes q : prm_ok q = true -> zsum (psizes q) = max_payload q.
Proof.
  unfold prm_ok, psizes, max_payload. intros H.
  repeat (apply andb_prop in H; destruct H as [H ?]).
  rewrite !zsum_app, zsum_repeat. rewrite Z2Nat.id by lia.
  destruct (q_f1 q =? 0) eqn:E1; destruct (q_f2 q =? 0) eqn:E2; cbn [zsum fold_right]; lia.
Qed.

Lemma fits_nil_inv szs : fits [] szs -> szs = [].
Proof. intros H. inversion H. reflexivity. Qed.

Lemma pwrite_len szs : forall off buf pds, fits pds szs -> 0 <= off -> off + zsum szs <= zlen buf ->
  zlen (pwrite szs off buf pds) = zlen buf.
Proof.
  induction szs as [|sz szs IH]; intros off buf pds Hf Ho Hs.
  - destruct pds; reflexivity.
  - inversion Hf as [|d sz' pds' szs' [Hd Hl] Hf']; subst. cbn [pwrite].
    cbn [zsum fold_right] in Hs. fold (zsum szs) in Hs.
    pose proof (zlen_nonneg d).
    assert (Hz : zsum szs >= 0).
    { clear -Hf'. induction Hf' as [|d' s' p' z' [_ Hl'] _ IH']; cbn [zsum fold_right]; [lia|].
      fold (zsum z'). pose proof (zlen_nonneg d'). lia. }
    rewrite IH; auto; try lia.
    + apply zlen_write_at; lia.
    + rewrite zlen_write_at; lia.
Qed.

Lemma fits_zsum_nonneg pds szs : fits pds szs -> 0 <= zsum szs.
Proof.
  induction 1 as [|d s p z [_ Hl] _ IH]; cbn [zsum fold_right]; [lia|].
  fold (zsum z). pose proof (zlen_nonneg d). lia.
Qed.

Lemma pwrite_bytes szs : forall off buf pds, fits pds szs -> bytes_ok buf ->
  bytes_ok (pwrite szs off buf pds).
Proof.
  induction szs as [|sz szs IH]; intros off buf pds Hf Hb.
  - destruct pds; exact Hb.
  - inversion Hf as [|d sz' pds' szs' [Hd Hl] Hf']; subst. cbn [pwrite].
    apply IH; auto. now apply bytes_ok_write_at.
Qed.

Lemma pwrite_take_before szs : forall off buf pds n, fits pds szs -> 0 <= n <= off ->
  off + zsum szs <= zlen buf -> take n (pwrite szs off buf pds) = take n buf.
Proof.
  induction szs as [|sz szs IH]; intros off buf pds n Hf Hn Hs.
  - destruct pds; reflexivity.
  - inversion Hf as [|d sz' pds' szs' [Hd Hl] Hf']; subst. cbn [pwrite].
    cbn [zsum fold_right] in Hs. fold (zsum szs) in Hs.
    pose proof (zlen_nonneg d). pose proof (fits_zsum_nonneg _ _ Hf').
    rewrite IH; auto; try lia.
    + apply take_write_at_before; lia.
    + rewrite zlen_write_at; lia.
Qed.

Lemma pwrite_contig szs : forall off buf pds, fits pds szs -> 0 <= off ->
  off + zsum szs <= zlen buf ->
  take (off + zlen (contig szs pds)) (pwrite szs off buf pds) = take off buf ++ contig szs pds.
Proof.
  induction szs as [|sz szs IH]; intros off buf pds Hf Ho Hs.
  - destruct pds; cbn [contig pwrite]; rewrite zlen_nil, Z.add_0_r, app_nil_r; reflexivity.
  - inversion Hf as [|d sz' pds' szs' [Hd Hl] Hf']; subst. cbn [pwrite contig].
    cbn [zsum fold_right] in Hs. fold (zsum szs) in Hs.
    pose proof (zlen_nonneg d). pose proof (fits_zsum_nonneg _ _ Hf').
    destruct (zlen d =? sz) eqn:E.
    + apply Z.eqb_eq in E. rewrite zlen_app.
      replace (off + (zlen d + zlen (contig szs pds'))) with (off + sz + zlen (contig szs pds')) by lia.
      rewrite IH; auto; try lia.
      * rewrite <- E. rewrite take_write_at_end by lia. now rewrite app_assoc.
      * rewrite zlen_write_at; lia.
    + apply Z.eqb_neq in E.
      rewrite pwrite_take_before; auto; try lia.
      * apply take_write_at_end. lia.
      * rewrite zlen_write_at; lia.
Qed.

Lemma acct_false szs : forall pds plen, acct szs pds plen false = plen.
Proof.
  induction szs as [|sz szs IH]; intros [|d pds] plen; cbn [acct]; auto.
Qed.

Lemma acct_contig szs : forall pds plen, acct szs pds plen true = plen + zlen (contig szs pds).
Proof.
  induction szs as [|sz szs IH]; intros [|d pds] plen; cbn [acct contig]; rewrite ?zlen_nil; try lia.
  cbn [andb]. destruct (zlen d =? sz).
  - rewrite IH, zlen_app. lia.
  - apply acct_false.
Qed.

Lemma contig_bound pds szs : fits pds szs -> zlen (contig szs pds) <= zsum szs /\ bytes_ok (contig szs pds).
Proof.
  induction 1 as [|d s p z [Hd Hl] Hf [IH1 IH2]]; cbn [contig zsum fold_right].
  - split; [rewrite zlen_nil; lia|constructor].
  - fold (zsum z). pose proof (fits_zsum_nonneg _ _ Hf). destruct (zlen d =? s) eqn:E.
    + apply Z.eqb_eq in E. rewrite zlen_app. split; [lia|now apply bytes_ok_app].
    + split; [lia|exact Hd].
Qed.

(* ---- PayloadBuilder::build sees only the received bytes -------------------------------------- *)

Definition set_buf (p : payload) (b : list Z) : payload :=
  {| p_id := p_id p; p_type := p_type p; p_info := p_info p; p_buf := b; p_valid := p_valid p;
     p_timestamp := p_timestamp p |}.

Lemma chunk_walk_prefix fuel : forall buf rs off, bytes_ok buf -> off <= rs -> rs <= zlen buf ->
  chunk_walk fuel (take rs buf) off = chunk_walk fuel buf off.
Proof.
  induction fuel as [|f IH]; intros buf rs off Hb Ho Hr; cbn [chunk_walk]; [reflexivity|].
  destruct (off <? 4) eqn:E4; [reflexivity|]. apply Z.ltb_ge in E4.
  rewrite zlen_take_min.
  destruct (Z.min (Z.max 0 rs) (zlen buf) <? off - 4 + 4) eqn:Ea; [apply Z.ltb_lt in Ea; lia|].
  destruct (zlen buf <? off - 4 + 4) eqn:Eb; [apply Z.ltb_lt in Eb; lia|].
  assert (Hd : take 4 (drop (off - 4) (take rs buf)) = take 4 (drop (off - 4) buf)).
  { rewrite !take_drop_take by lia. rewrite take_take by lia. reflexivity. }
  rewrite Hd.
  set (ds := of_be (take 4 (drop (off - 4) buf))).
  assert (Hds : 0 <= ds).
  { subst ds. apply of_be_nonneg. apply bytes_ok_take, bytes_ok_drop, Hb. }
  destruct (off - 4 <? ds + 4); [reflexivity|].
  destruct (off - 4 - (ds + 4) =? 0); [reflexivity|].
  apply IH; auto; lia.
Qed.

Lemma build_prefix l t buf rs : bytes_ok buf -> rs <= zlen buf ->
  build l t (take rs buf) rs = omap (fun p => set_buf p (take rs buf)) (build l t buf rs).
Proof.
  intros Hb Hr. unfold build.
  destruct (negb (t_status t =? 0)); [reflexivity|].
  destruct (rs <? t_valid t) eqn:Er; [reflexivity|]. apply Z.ltb_ge in Er.
  destruct (l_type l =? 0); [|destruct (l_type l =? 1)].
  - destruct (stream_err (parse_image_leader (l_raw l))); cbn [bind omap]; try reflexivity.
    destruct (stream_err (parse_image_trailer (t_raw t))); cbn [bind omap]; reflexivity.
  - destruct (stream_err (parse_image_leader (l_raw l))); cbn [bind omap]; try reflexivity.
    destruct (stream_err (parse_ext_trailer (t_raw t))); cbn [bind omap]; try reflexivity.
    rewrite chunk_walk_prefix by (auto; lia).
    destruct (chunk_walk _ buf (t_valid t)); cbn [bind omap]; reflexivity.
  - destruct (stream_err (parse_chunk_leader (l_raw l))); cbn [bind omap]; try reflexivity.
    destruct (stream_err (parse_chunk_trailer (t_raw t))); cbn [bind omap]; reflexivity.
Qed.

Lemma view_of_set_buf p rs :
  p_valid p <= rs -> rs <= zlen (p_buf p) ->
  (forall ii, p_info p = Some ii -> ii_image_size ii <= p_valid p) ->
  view_of (set_buf p (take rs (p_buf p))) = view_of p.
Proof.
  intros Hv Hr Hi. unfold view_of, view_payload, view_image, slice_to.
  cbn [set_buf p_buf p_valid p_info p_id p_type p_timestamp].
  rewrite zlen_take_min.
  destruct (Z.min (Z.max 0 rs) (zlen (p_buf p)) <? p_valid p) eqn:Ea; [apply Z.ltb_lt in Ea; lia|].
  destruct (zlen (p_buf p) <? p_valid p) eqn:Eb; [apply Z.ltb_lt in Eb; lia|].
  cbn [bind]. rewrite take_take by lia.
  destruct (p_info p) as [ii|] eqn:Ei; [|reflexivity].
  specialize (Hi ii eq_refl).
  destruct (Z.min (Z.max 0 rs) (zlen (p_buf p)) <? ii_image_size ii) eqn:Ec; [apply Z.ltb_lt in Ec; lia|].
  destruct (zlen (p_buf p) <? ii_image_size ii) eqn:Ed; [apply Z.ltb_lt in Ed; lia|].
  cbn [omap bind]. rewrite take_take by lia. reflexivity.
Qed.

Lemma trailer_valid_nonneg bs t : bytes_ok bs -> parse_trailer bs = Ok t -> 0 <= t_valid t.
Proof.
  intros Hb Hp. pose proof (parse_trailer_faithful bs) as Ha. rewrite Hp in Ha.
  unfold agree, spec_trailer in Ha.
  destruct (length bs <? 28)%nat; [contradiction|].
  destruct (negb (le_at 0 4 bs =? 1414935381)); [contradiction|].
  destruct (spec_payload_status (le_at 16 2 bs)); [|contradiction].
  apply (f_equal st_valid) in Ha. cbn [st_valid to_strailer] in Ha. rewrite Ha.
  apply (le_at_range 20 8 bs Hb).
Qed.

Lemma parse_leader_no_panic bs : parse_leader bs <> Panic.
Proof.
  intros Hp. pose proof (parse_leader_faithful bs) as Ha. rewrite Hp in Ha. exact Ha.
Qed.

Lemma parse_trailer_no_panic bs : parse_trailer bs <> Panic.
Proof.
  intros Hp. pose proof (parse_trailer_faithful bs) as Ha. rewrite Hp in Ha. exact Ha.
Qed.

(* ---- one iteration: what is sent is the frame made of exactly the polled transfers ------------- *)

Definition bufok (q : params) (b : list Z) : Prop := zlen b = max_payload q /\ bytes_ok b.

Lemma fits_slots_inv q ds : fits ds (slots q) ->
  exists d0 pds dl, ds = d0 :: pds ++ [dl] /\ fits pds (psizes q) /\
    bytes_ok d0 /\ zlen d0 <= q_leader q /\ bytes_ok dl /\ zlen dl <= q_trailer q.
Proof.
  unfold fits, slots. intros H. inversion H as [|d0 s0 rest srest [Hb0 Hl0] Hrest]; subst.
  apply Forall2_app_inv_r in Hrest. destruct Hrest as [pds [l2 [Hp [H2 ->]]]].
  inversion H2 as [|dl sl l2' s2' [Hbl Hll] H3]; subst. inversion H3; subst.
  exists d0, pds, dl. repeat split; auto.
Qed.

Lemma finish_spec q lbuf tbuf buf ds :
  prm_ok q = true -> zlen lbuf = q_leader q -> zlen tbuf = q_trailer q -> bufok q buf ->
  fits ds (slots q) ->
  exists f, finish true q lbuf tbuf buf ds = Some f /\
    item_view (f_item f) = frame_item q ds /\ item_view (f_item f) <> VPanic /\
    zlen (f_lbuf f) = q_leader q /\ zlen (f_tbuf f) = q_trailer q /\
    (forall b, f_keep f = Some b -> bufok q b).
Proof.
  intros Hq Hl Ht [Hbl Hbb] Hf.
  destruct (fits_slots_inv _ _ Hf) as [d0 [pds [dl [-> [Hp [Hb0 [Hl0 [Hbt Hlt]]]]]]]].
  pose proof (zlen_nonneg d0) as Hn0. pose proof (zlen_nonneg dl) as Hnl.
  unfold finish, frame_item. cbn [hd tl]. rewrite removelast_last, last_last.
  rewrite !take_write_at_0. rewrite acct_contig, Z.add_0_l.
  set (buf' := pwrite (psizes q) 0 buf pds).
  set (data := contig (psizes q) pds).
  pose proof (zsum_psizes q Hq) as Hsum.
  destruct (contig_bound _ _ Hp) as [Hcl Hcb]. fold data in Hcl, Hcb.
  assert (Hlen' : zlen buf' = max_payload q).
  { subst buf'. rewrite pwrite_len; auto; lia. }
  assert (Hb' : bytes_ok buf') by (subst buf'; apply pwrite_bytes; auto).
  assert (Htake : take (zlen data) buf' = data).
  { subst buf' data. pose proof (pwrite_contig (psizes q) 0 buf pds Hp ltac:(lia) ltac:(lia)) as Hc.
    rewrite Z.add_0_l in Hc. rewrite Hc. rewrite (take_neg 0) by lia. reflexivity. }
  assert (Hwl : zlen (write_at lbuf 0 d0) = q_leader q) by (rewrite zlen_write_at; lia).
  assert (Hwt : zlen (write_at tbuf 0 dl) = q_trailer q) by (rewrite zlen_write_at; lia).
  destruct (parse_leader d0) as [l|e|] eqn:El.
  3:{ exfalso. exact (parse_leader_no_panic _ El). }
  2:{ eexists. split; [reflexivity|]. cbn [f_item f_lbuf f_tbuf f_keep item_view].
      split; [reflexivity|]. split; [discriminate|]. split; [exact Hwl|]. split; [exact Hwt|].
      intros kb Hkb; inversion Hkb; subst; split; auto. }
  destruct (parse_trailer dl) as [t|e|] eqn:Et.
  3:{ exfalso. exact (parse_trailer_no_panic _ Et). }
  2:{ eexists. split; [reflexivity|]. cbn [f_item f_lbuf f_tbuf f_keep item_view].
      split; [reflexivity|]. split; [discriminate|]. split; [exact Hwl|]. split; [exact Hwt|].
      intros kb Hkb; inversion Hkb; subst; split; auto. }
  pose proof (trailer_valid_nonneg _ _ Hbt Et) as Hvn.
  pose proof (build_prefix l t buf' (zlen data) Hb' ltac:(lia)) as Hpre. rewrite Htake in Hpre.
  rewrite Hpre.
  destruct (build l t buf' (zlen data)) as [p|e|] eqn:Eb.
  3:{ exfalso. exact (build_no_panic l t buf' (zlen data) Hb' Hvn ltac:(lia) Eb). }
  2:{ eexists. split; [reflexivity|]. cbn [f_item f_lbuf f_tbuf f_keep item_view omap].
      split; [reflexivity|]. split; [discriminate|]. split; [exact Hwl|]. split; [exact Hwt|].
      intros kb Hkb; discriminate. }
  destruct (build_sound l t buf' (zlen data) p Hb' Hvn ltac:(lia) Eb)
    as [_ [Hpb [Hpv [_ [_ [Hvr [Hii [_ [Hvi Hvp]]]]]]]]].
  eexists. split; [reflexivity|]. cbn [f_item f_lbuf f_tbuf f_keep item_view omap].
  assert (Hview : view_of (set_buf p data) = view_of p).
  { rewrite <- Htake. rewrite <- Hpb. apply view_of_set_buf.
    - lia.
    - rewrite Hpb. lia.
    - intros ii Hi. apply (Hii ii Hi). }
  rewrite Hview.
  assert (Hok : exists v, view_of p = Ok v).
  { unfold view_of. unfold view_payload, slice_to in *.
    destruct (zlen (p_buf p) <? p_valid p); [congruence|]. cbn [bind].
    unfold view_image in *. destruct (p_info p) as [ii|]; [|eexists; reflexivity].
    unfold slice_to in *. destruct (zlen (p_buf p) <? ii_image_size ii); [cbn [omap] in Hvi; congruence|].
    cbn [omap bind]. eexists; reflexivity. }
  destruct Hok as [v Hv]. rewrite Hv.
  split; [reflexivity|]. split; [discriminate|]. split; [exact Hwl|]. split; [exact Hwt|].
  intros kb Hkb; discriminate.
Qed.

(* ---- invariants of the transition system ------------------------------------------------------ *)

Ltac sf := cbn [st_script st_prm st_pos st_lbuf st_tbuf st_pbo st_pending st_pq st_cp st_bq st_cb st_rx
  st_cancel st_ctl st_zombies st_g g_consumed g_istart g_cur g_att g_hist g_fail g_done
  set_pos consume abandon] in *.

Definition keep_ok (q : params) (k : option (list Z)) : Prop := forall b, k = Some b -> bufok q b.

Definition pos_ok (s : state) : Prop :=
  let q := st_prm s in
  match st_pos s with
  | LIdle | LHead | LBuf => st_pending s = []
  | LPanic => False
  | LNew buf => bufok q buf /\ st_pending s = []
  | LSubmit buf k => bufok q buf /\ (k < nslots q)%nat /\ st_pending s = firstn k (slots q)
  | LPoll buf ds => bufok q buf /\ (length ds < nslots q)%nat /\
                    fits ds (firstn (length ds) (slots q)) /\ st_pending s = skipn (length ds) (slots q)
  | LSend it keep => keep_ok q keep
  | LDrop keep => keep_ok q keep
  end.

Record Inv (s : state) : Prop := {
  i_prm : prm_ok (st_prm s) = true;
  i_lbuf : zlen (st_lbuf s) = q_leader (st_prm s);
  i_tbuf : zlen (st_tbuf s) = q_trailer (st_prm s);
  i_pbo : keep_ok (st_prm s) (st_pbo s);
  i_bq : Forall (fun p => bytes_ok (p_buf p)) (st_bq s);
  i_script : script_ok (st_script s);
  i_pos : pos_ok s;
  i_wait : st_cancel s = CWaiting -> st_ctl s = KStopping;
  i_taken : st_cancel s = CTaken -> st_ctl s = KStopping /\ st_pos s = LIdle;
  i_idle : st_ctl s = KIdle -> st_cancel s = CNone -> st_pos s = LIdle
}.


Lemma prm_ok_nonneg q : prm_ok q = true ->
  0 <= q_leader q /\ 0 <= q_trailer q /\ 0 <= q_psize q /\ 0 <= q_pcount q /\ 0 <= q_f1 q /\ 0 <= q_f2 q.
Proof.
  unfold prm_ok. intros H. repeat (apply andb_prop in H; destruct H as [H ?]). lia.
Qed.

Lemma max_payload_nonneg q : prm_ok q = true -> 0 <= max_payload q.
Proof. intros H. apply prm_ok_nonneg in H. unfold max_payload. nia. Qed.

Lemma zlen_zeros n : 0 <= n -> zlen (zeros n) = n.
Proof. intros H. unfold zeros. rewrite zlen_repeat. lia. Qed.

Lemma bufok_zeros q : prm_ok q = true -> bufok q (zeros (max_payload q)).
Proof.
  intros H. split; [apply zlen_zeros, max_payload_nonneg, H|apply bytes_ok_repeat0].
Qed.

Lemma bufok_resize q b : prm_ok q = true -> bytes_ok b -> bufok q (resize (max_payload q) b).
Proof.
  intros H Hb. pose proof (max_payload_nonneg q H). unfold resize. split.
  - rewrite zlen_app, zlen_take_min, zlen_repeat. pose proof (zlen_nonneg b). lia.
  - apply bytes_ok_app; [now apply bytes_ok_take|apply bytes_ok_repeat0].
Qed.

Lemma nslots_pos q : (0 < nslots q)%nat.
Proof. unfold nslots, slots. cbn [length]. lia. Qed.

Lemma firstn_S_nth {A} (l : list A) k z : nth_error l k = Some z -> firstn (S k) l = firstn k l ++ [z].
Proof.
  revert k. induction l as [|x l IH]; intros [|k] H; cbn [nth_error] in H; try discriminate.
  - inversion H; subst. reflexivity.
  - cbn [firstn app]. f_equal. apply IH, H.
Qed.

Lemma skipn_S_cons {A} (l : list A) k x r : skipn k l = x :: r -> skipn (S k) l = r.
Proof.
  revert k. induction l as [|y l IH]; intros [|k] H; cbn [skipn] in *; try discriminate.
  - inversion H; subst. reflexivity.
  - destruct l; [destruct k; discriminate|]. apply (IH k H).
Qed.

Lemma skipn_nth {A} (l : list A) k x r : skipn k l = x :: r -> nth_error l k = Some x.
Proof.
  revert k. induction l as [|y l IH]; intros [|k] H; cbn [skipn nth_error] in *; try discriminate.
  - inversion H; subst. reflexivity.
  - apply IH, H.
Qed.

Lemma forallb_bytes l : forallb is_byteb l = true -> bytes_ok l.
Proof.
  induction l as [|x l IH]; cbn [forallb]; intros H; constructor.
  - apply andb_prop in H. destruct H as [H _]. unfold is_byteb in H. apply andb_prop in H.
    unfold is_byte. destruct H as [H1 H2]. apply Z.leb_le in H1. apply Z.ltb_lt in H2. lia.
  - apply IH. apply andb_prop in H. tauto.
Qed.

Lemma fits_first q d ds n : fits (d :: ds) (firstn n (slots q)) -> zlen d <= q_leader q.
Proof.
  unfold slots. destruct n as [|n]; cbn [firstn]; intros H; inversion H; subst. tauto.
Qed.

Lemma zlen_lbuf_after q lbuf ds n : zlen lbuf = q_leader q ->
  fits ds (firstn n (slots q)) -> zlen (lbuf_after lbuf ds) = q_leader q.
Proof.
  intros Hl Hf. destruct ds as [|d ds]; cbn [lbuf_after]; [exact Hl|].
  pose proof (fits_first _ _ _ _ Hf). pose proof (zlen_nonneg d).
  rewrite zlen_write_at; lia.
Qed.

Lemma fits_snoc ds d szs sz : fits ds szs -> bytes_ok d -> zlen d <= sz -> fits (ds ++ [d]) (szs ++ [sz]).
Proof.
  intros H Hb Hl. apply Forall2_app; [exact H|]. constructor; [split; auto|constructor].
Qed.

Ltac step_cases H :=
  unfold step in H;
  repeat match type of H with
  | context [match ?x with _ => _ end] => destruct x eqn:?; try discriminate
  end;
  try (apply Ok_inj in H); try (injection H as H); subst.


Lemma fits_extend q ds d z : fits ds (firstn (length ds) (slots q)) ->
  nth_error (slots q) (length ds) = Some z -> bytes_ok d -> zlen d <= z ->
  fits (ds ++ [d]) (firstn (length (ds ++ [d])) (slots q)).
Proof.
  intros Hf Hn Hb Hl. rewrite app_length. cbn [length]. rewrite Nat.add_1_r.
  rewrite (firstn_S_nth _ _ _ Hn). now apply fits_snoc.
Qed.

Lemma step_inv_polldata s len s' : Inv s -> step true s (LPollData len) = Some s' -> Inv s'.
Proof.
  intros [Hprm Hlb Htb Hpbo Hbq Hsc Hpos Hw Ht Hi] H.
  unfold pos_ok in Hpos. unfold step in H.
  destruct (st_pos s) eqn:Ep; try discriminate.
  destruct (st_script s) as [|[d| |] rest] eqn:Es; try discriminate.
  destruct (nth_error (slots (st_prm s)) (length ds)) as [z|] eqn:En; try discriminate.
  destruct (st_pending s) as [|p0 pend'] eqn:Epd; try discriminate.
  destruct ((len =? zlen d) && (zlen d <=? z)) eqn:Ec; try discriminate.
  apply andb_prop in Ec. destruct Ec as [_ Ec]. apply Z.leb_le in Ec.
  destruct Hpos as [Hbuf [Hlen [Hfit Hpend]]].
  assert (Hbd : bytes_ok d) by (exact (Forall_inv Hsc)).
  assert (Hsr : script_ok rest) by (exact (Forall_inv_tail Hsc)).
  pose proof (fits_extend _ _ _ _ Hfit En Hbd Ec) as Hfit'.
  assert (Hl' : length (ds ++ [d]) = S (length ds)) by (rewrite app_length; cbn [length]; lia).
  destruct (length (ds ++ [d]) =? nslots (st_prm s))%nat eqn:Ek.
  - apply Nat.eqb_eq in Ek. unfold nslots in Ek. rewrite Ek, firstn_all in Hfit'.
    destruct (finish_spec _ _ _ _ _ Hprm Hlb Htb Hbuf Hfit') as [f [Hf [_ [_ [Hfl [Hft Hfk]]]]]].
    rewrite Hf in H. injection H as H. subst s'.
    constructor; unfold pos_ok; sf; auto; try solve [intuition congruence].
  - apply Nat.eqb_neq in Ek. injection H as H. subst s'.
    constructor; unfold pos_ok; sf; auto; try solve [intuition congruence].
    split; [exact Hbuf|]. split; [lia|]. split; [exact Hfit'|].
    rewrite Hl'. symmetry. eapply skipn_S_cons. symmetry. exact Hpend.
Qed.

Lemma step_inv s l s' : Inv s -> step true s l = Some s' -> Inv s'.
Proof.
  intros [Hprm Hlb Htb Hpbo Hbq Hsc Hpos Hw Ht Hi] H.
  unfold pos_ok in Hpos.
  destruct l; try (eapply step_inv_polldata; [constructor; eassumption|eassumption]); step_cases H.
  all: try (constructor; unfold pos_ok in *; sf; auto; try congruence; try solve [intuition congruence]).
  all: try match goal with
    | Hs : script_ok (_ :: ?l) |- script_ok ?l => exact (Forall_inv_tail Hs)
    | |- zlen (lbuf_after _ _) = _ => eapply zlen_lbuf_after; [eassumption|apply Hpos]
    | |- zlen (zeros _) = _ => apply zlen_zeros; match goal with Hq : prm_ok _ = true |- _ => apply prm_ok_nonneg in Hq; lia end
    end.
  all: try match goal with
    | |- bufok _ (zeros _) /\ _ => split; [apply bufok_zeros; assumption|assumption]
    | Hb : Forall _ (_ :: ?l) |- Forall _ ?l => exact (Forall_inv_tail Hb)
    | Hb : Forall _ (?p :: _) |- bufok _ (resize _ (p_buf ?p)) /\ _ =>
      split; [apply bufok_resize; [assumption|exact (Forall_inv Hb)]|assumption]
    | |- _ /\ (0 < nslots _)%nat /\ _ => destruct Hpos; split; [assumption|split; [apply nslots_pos|assumption]]
    | Hc : (_ && forallb is_byteb (p_buf ?p)) = true |- Forall _ (_ ++ [?p]) =>
      apply andb_prop in Hc; destruct Hc as [_ Hc]; apply Forall_app; split;
      [assumption|constructor; [apply forallb_bytes, Hc|constructor]]
    end.
  - destruct Hpos as [Hb [Hk Hp]].
    match goal with He : (S _ =? nslots _)%nat = true, Hn : nth_error _ _ = Some _ |- _ =>
      apply Nat.eqb_eq in He;
      split; [exact Hb|]; split; [cbn [length]; apply nslots_pos|]; split; [constructor|];
      cbn [length skipn]; rewrite Hp; rewrite <- (firstn_S_nth _ _ _ Hn);
      rewrite He; apply firstn_all end.
  - destruct Hpos as [Hb [Hk Hp]].
    match goal with He : (S _ =? nslots _)%nat = false, Hn : nth_error _ _ = Some _ |- _ =>
      apply Nat.eqb_neq in He;
      split; [exact Hb|]; split; [lia|]; rewrite Hp; symmetry; apply firstn_S_nth; exact Hn end.
Qed.


Lemma inv_init sc cp cb : script_ok sc -> Inv (init sc cp cb).
Proof.
  intros H. constructor; unfold pos_ok, keep_ok; cbn; auto; try discriminate.
Qed.

Lemma run_inv ls : forall s s', Inv s -> run true s ls = Some s' -> Inv s'.
Proof.
  induction ls as [|l ls IH]; intros s s' Hi H; cbn [run] in H.
  - inversion H; subst; exact Hi.
  - destruct (step true s l) as [s1|] eqn:E; [|discriminate].
    eapply IH; [eapply step_inv; eassumption|exact H].
Qed.

(* ---- history ---- *)

Definition gbound (s : state) : nat :=
  match st_pos s with
  | LSubmit _ _ | LPoll _ _ | LSend _ _ => g_istart (st_g s)
  | _ => g_consumed (st_g s)
  end.

Definition complete (e : aentry) : bool := match a_ds e with Some _ => true | None => false end.

Definition cur_entry (s : state) (it : item) : aentry :=
  {| a_prm := st_prm s; a_start := g_istart (st_g s); a_ds := g_cur (st_g s); a_item := it |}.

Definition akey (e : aentry) : params * nat * option (list (list Z)) := (a_prm e, a_start e, a_ds e).
Definition dkey (d : params * nat * list (list Z)) : params * nat * option (list (list Z)) :=
  let '(q, i, ds) := d in (q, i, Some ds).

(* the completed iteration whose item is about to be sent *)
Definition pend (s : state) : list (params * nat * option (list (list Z))) :=
  match st_pos s with
  | LSend _ _ => match g_cur (st_g s) with Some ds => [(st_prm s, g_istart (st_g s), Some ds)] | None => [] end
  | _ => []
  end.

Record GInv (sc : list xfer) (s : state) : Prop := {
  gi_script : st_script s = skipn (g_consumed (st_g s)) sc;
  gi_le : (g_istart (st_g s) <= g_consumed (st_g s))%nat;
  gi_poll : forall buf ds, st_pos s = LPoll buf ds ->
    g_consumed (st_g s) = (g_istart (st_g s) + length ds)%nat /\
    firstn (length ds) (skipn (g_istart (st_g s)) sc) = map XData ds;
  gi_sub : forall buf k, st_pos s = LSubmit buf k -> g_consumed (st_g s) = g_istart (st_g s);
  gi_send : forall it keep, st_pos s = LSend it keep ->
    entry_ok sc (cur_entry s it) /\ (g_cur (st_g s) <> None -> (g_istart (st_g s) < g_consumed (st_g s))%nat);
  gi_att : Forall (entry_ok sc) (g_att (st_g s));
  gi_hist : Forall (entry_ok sc) (g_hist (st_g s));
  gi_bnd : Forall (fun e => complete e = true -> (a_start e < gbound s)%nat) (g_hist (st_g s));
  gi_sorted : StronglySorted lt (map a_start (filter complete (g_hist (st_g s))));
  gi_nofail : g_fail (st_g s) = 0%nat -> g_hist (st_g s) = g_att (st_g s);
  gi_pq : exists pre, map a_item (g_hist (st_g s)) = pre ++ st_pq s;
  gi_done : map akey (filter complete (g_att (st_g s))) ++ pend s = map dkey (g_done (st_g s))
}.

Lemma firstn_skipn_snoc {A} (sc : list A) i n x rest :
  skipn (i + n) sc = x :: rest -> firstn (S n) (skipn i sc) = firstn n (skipn i sc) ++ [x].
Proof.
  intros H. apply firstn_S_nth. eapply skipn_nth. rewrite skipn_skipn_add. exact H.
Qed.

Lemma sorted_snoc l x : StronglySorted lt l -> Forall (fun y => (y < x)%nat) l -> StronglySorted lt (l ++ [x]).
Proof.
  induction 1 as [|y l Hs IH Hy]; intros Hf; cbn [app].
  - constructor; constructor.
  - inversion Hf; subst. constructor; [apply IH; assumption|].
    apply Forall_app. split; [assumption|constructor; [assumption|constructor]].
Qed.

Lemma bnd_mono l (a b : nat) : (a <= b)%nat ->
  Forall (fun e => complete e = true -> (a_start e < a)%nat) l ->
  Forall (fun e => complete e = true -> (a_start e < b)%nat) l.
Proof. intros Hab H. eapply Forall_impl; [|exact H]. cbn. intros e He Hc. specialize (He Hc). lia. Qed.

Lemma ginv_init sc cp cb : GInv sc (init sc cp cb).
Proof.
  constructor; cbn; auto; try discriminate; try constructor. exists []. reflexivity.
Qed.


Lemma bnd_filter l b : Forall (fun e => complete e = true -> (a_start e < b)%nat) l ->
  Forall (fun y => (y < b)%nat) (map a_start (filter complete l)).
Proof.
  induction 1 as [|e l He Hl IH]; cbn [filter map]; [constructor|].
  destruct (complete e) eqn:E; cbn [map]; [constructor; auto|exact IH].
Qed.

Lemma step_ginv_trysend sc s r s' : Inv s -> GInv sc s -> step true s (LTrySend r) = Some s' -> GInv sc s'.
Proof.
  intros HI [Hsc Hle Hpoll Hsub Hsend Hatt Hhist Hbnd Hsort Hnf Hpq Hdn] H.
  unfold gbound in Hbnd. unfold pend in Hdn. unfold step in H.
  destruct (st_pos s) eqn:Ep; try discriminate.
  destruct (Hsend _ _ eq_refl) as [He Hlt]. unfold cur_entry in He.
  assert (Hb' : Forall (fun e => complete e = true -> (a_start e < g_consumed (st_g s))%nat) (g_hist (st_g s)))
    by (eapply bnd_mono; [|exact Hbnd]; lia).
  destruct (st_rx s); [destruct (zlen (st_pq s) <? st_cp s)|];
    destruct (r =? _); try discriminate; injection H as H; subst s';
    constructor; unfold gbound, cur_entry, pend; sf; auto; try discriminate.
  all: try match goal with
    | |- map akey (filter complete (_ ++ [_])) ++ [] = _ =>
      rewrite filter_app, map_app; cbn [filter]; unfold complete at 2; cbn [a_ds];
      rewrite <- Hdn; destruct (g_cur (st_g s)); cbn [map akey a_prm a_start a_ds]; rewrite !app_nil_r; reflexivity
    | |- Forall (entry_ok _) (_ ++ [_]) => apply Forall_app; split; auto
    | |- Forall (fun e => complete e = true -> _) (_ ++ [_]) =>
      apply Forall_app; split; auto; constructor; [|constructor];
      unfold complete; cbn [a_ds a_start]; intros Hc; apply Hlt; destruct (g_cur (st_g s)); congruence
    | |- StronglySorted _ _ =>
      rewrite filter_app, map_app; cbn [filter]; unfold complete at 2; cbn [a_ds];
      destruct (g_cur (st_g s)); cbn [map]; [|now rewrite app_nil_r];
      apply sorted_snoc; [exact Hsort|]; apply bnd_filter; exact Hbnd
    | |- g_fail _ = 0%nat -> _ ++ _ = _ ++ _ => let Hf := fresh in intros Hf; now rewrite (Hnf Hf)
    | |- exists pre, map a_item (_ ++ [_]) = _ =>
      destruct Hpq as [pre Hp]; exists pre; rewrite map_app, Hp, app_assoc; reflexivity
    end.
Qed.

Lemma step_ginv_polldata sc s len s' : Inv s -> GInv sc s -> step true s (LPollData len) = Some s' -> GInv sc s'.
Proof.
  intros [Hprm Hlb Htb Hpbo Hbq Hscr Hpos Hw Ht Hi] [Hsc Hle Hpoll Hsub Hsend Hatt Hhist Hbnd Hsort Hnf Hpq Hdn] H.
  unfold gbound in Hbnd. unfold pend in Hdn. unfold pos_ok in Hpos. unfold step in H.
  destruct (st_pos s) eqn:Ep; try discriminate.
  destruct (st_script s) as [|[d| |] rest] eqn:Es; try discriminate.
  destruct (nth_error (slots (st_prm s)) (length ds)) as [z|] eqn:En; try discriminate.
  destruct (st_pending s) as [|p0 pend'] eqn:Epd; try discriminate.
  destruct ((len =? zlen d) && (zlen d <=? z)) eqn:Ec; try discriminate.
  apply andb_prop in Ec. destruct Ec as [_ Ec]. apply Z.leb_le in Ec.
  destruct Hpos as [Hbuf [Hlen [Hfit Hpend]]].
  assert (Hbd : bytes_ok d) by (exact (Forall_inv Hscr)).
  pose proof (fits_extend _ _ _ _ Hfit En Hbd Ec) as Hfit'.
  assert (Hl' : length (ds ++ [d]) = S (length ds)) by (rewrite app_length; cbn [length]; lia).
  destruct (Hpoll _ _ eq_refl) as [Hc Hseg].
  assert (Hrest : rest = skipn (S (g_consumed (st_g s))) sc)
    by (symmetry; eapply skipn_S_cons; symmetry; exact Hsc).
  assert (Hseg' : firstn (length (ds ++ [d])) (skipn (g_istart (st_g s)) sc) = map XData (ds ++ [d])).
  { rewrite Hl', map_app. cbn [map]. rewrite <- Hseg. eapply firstn_skipn_snoc.
    rewrite <- Hc. symmetry. exact Hsc. }
  destruct (length (ds ++ [d]) =? nslots (st_prm s))%nat eqn:Ek.
  - apply Nat.eqb_eq in Ek. pose proof Hfit' as Hfit2. unfold nslots in Ek. rewrite Ek, firstn_all in Hfit2.
    destruct (finish_spec _ _ _ _ _ Hprm Hlb Htb Hbuf Hfit2) as [f [Hf [Hview [Hnp _]]]].
    rewrite Hf in H. injection H as H. subst s'.
    constructor; unfold gbound, cur_entry, pend; sf; auto; try discriminate; try lia.
    2:{ rewrite map_app. cbn [map dkey]. rewrite <- Hdn, app_nil_r. reflexivity. }
    intros it keep Hq. injection Hq as <- <-. split; [|intros _; lia].
    unfold entry_ok. cbn [a_ds a_prm a_start a_item]. split; [|split; [|split]; auto].
    unfold nslots. rewrite <- Ek. exact Hseg'.
  - injection H as H. subst s'.
    constructor; unfold gbound, cur_entry, pend; sf; auto; try discriminate; try lia.
    intros b0 ds0 Hq. injection Hq as <- <-. split; [lia|exact Hseg'].
Qed.

Lemma step_ginv sc s l s' : Inv s -> GInv sc s -> step true s l = Some s' -> GInv sc s'.
Proof.
  intros HI [Hsc Hle Hpoll Hsub Hsend Hatt Hhist Hbnd Hsort Hnf Hpq Hdn] H.
  unfold gbound in Hbnd. unfold pend in Hdn.
  destruct l;
    try (eapply step_ginv_polldata; [eassumption|constructor; eassumption|eassumption]);
    try (eapply step_ginv_trysend; [eassumption|constructor; eassumption|eassumption]);
    step_cases H.
  all: try (constructor; unfold gbound, cur_entry, pend in *; sf; auto; try discriminate; try congruence).
  all: try match goal with
    | Hs : _ :: ?l = skipn ?c ?sc |- ?l = skipn (S ?c) ?sc => symmetry; eapply skipn_S_cons; symmetry; exact Hs
    | |- Forall (fun e => complete e = true -> _) _ => eapply bnd_mono; [|exact Hbnd]; lia
    | |- forall it keep, LSend (IErr _) _ = LSend it keep -> _ =>
      let Hq := fresh in intros ? ? Hq; injection Hq as <- <-; split;
      [unfold entry_ok; cbn [a_ds a_item]; eexists; reflexivity|intros X; exfalso; apply X; reflexivity]
    | |- forall b0 ds0, LPoll _ [] = LPoll b0 ds0 -> _ =>
      let Hq := fresh in intros ? ? Hq; injection Hq as <- <-; cbn [length firstn map]; split;
      [rewrite (Hsub _ _ eq_refl); lia|reflexivity]
    | |- forall b0 k0, LSubmit _ _ = LSubmit b0 k0 -> _ => intros; first [exact (Hsub _ _ eq_refl)|reflexivity]
    | Hq : st_pq _ = ?it :: ?l |- exists pre, _ = pre ++ ?l =>
      destruct Hpq as [pre Hp]; exists (pre ++ [it]); rewrite Hp, <- app_assoc; reflexivity
    | Hq : st_pq ?s0 = [] |- exists pre, _ = pre ++ st_pq ?s0 => rewrite Hq; exact Hpq
    end.
Qed.


Lemma run_invs sc ls : forall s s', Inv s -> GInv sc s -> run true s ls = Some s' -> Inv s' /\ GInv sc s'.
Proof.
  induction ls as [|l ls IH]; intros s s' Hi Hg H; cbn [run] in H.
  - inversion H; subst; auto.
  - destruct (step true s l) as [s1|] eqn:E; [|discriminate].
    eapply IH; [eapply step_inv; eassumption|eapply step_ginv; eassumption|exact H].
Qed.

Lemma reach_invs sc cp cb ls s : script_ok sc -> run true (init sc cp cb) ls = Some s -> Inv s /\ GInv sc s.
Proof. intros Hs H. eapply run_invs; [apply inv_init, Hs|apply ginv_init|exact H]. Qed.

(* ---- no mixture, order ---- *)

Lemma no_mixture sc cp cb ls s : script_ok sc -> run true (init sc cp cb) ls = Some s ->
  forall e, In e (g_hist (st_g s)) -> entry_ok sc e.
Proof.
  intros Hs H e He. destruct (reach_invs _ _ _ _ _ Hs H) as [_ Hg].
  pose proof (gi_hist _ _ Hg) as Hh. rewrite Forall_forall in Hh. exact (Hh e He).
Qed.

Lemma no_mixture_ok sc cp cb ls s : script_ok sc -> run true (init sc cp cb) ls = Some s ->
  forall e p, In e (g_hist (st_g s)) -> a_item e = IOk p ->
  exists ds v, a_ds e = Some ds /\
    firstn (nslots (a_prm e)) (skipn (a_start e) sc) = map XData ds /\
    fits ds (slots (a_prm e)) /\
    view_of p = Ok v /\ frame_item (a_prm e) ds = VOk v.
Proof.
  intros Hs H e p He Hp. pose proof (no_mixture _ _ _ _ _ Hs H e He) as Ho.
  unfold entry_ok in Ho. destruct (a_ds e) as [ds|].
  - destruct Ho as [H1 [H2 [H3 H4]]]. rewrite Hp in H3, H4. cbn [item_view] in H3, H4.
    destruct (view_of p) as [v| |] eqn:Ev; try congruence.
    exists ds, v. repeat split; auto.
  - destruct Ho as [c Hc]. congruence.
Qed.

Lemma received_in_hist sc cp cb ls s : script_ok sc -> run true (init sc cp cb) ls = Some s ->
  forall it, In it (st_pq s) -> exists e, In e (g_hist (st_g s)) /\ a_item e = it.
Proof.
  intros Hs H it Hi. destruct (reach_invs _ _ _ _ _ Hs H) as [_ Hg].
  destruct (gi_pq _ _ Hg) as [pre Hp].
  assert (Hin : In it (map a_item (g_hist (st_g s)))) by (rewrite Hp; apply in_or_app; auto).
  apply in_map_iff in Hin. destruct Hin as [e [He1 He2]]. exists e; auto.
Qed.

Lemma order_no_dup sc cp cb ls s : script_ok sc -> run true (init sc cp cb) ls = Some s ->
  StronglySorted lt (map a_start (filter complete (g_hist (st_g s)))).
Proof. intros Hs H. destruct (reach_invs _ _ _ _ _ Hs H) as [_ Hg]. exact (gi_sorted _ _ Hg). Qed.

Lemma delivered_if_room sc cp cb ls s : script_ok sc -> run true (init sc cp cb) ls = Some s ->
  g_fail (st_g s) = 0%nat -> g_hist (st_g s) = g_att (st_g s).
Proof. intros Hs H. destruct (reach_invs _ _ _ _ _ Hs H) as [_ Hg]. exact (gi_nofail _ _ Hg). Qed.

Lemma no_loop_panic sc cp cb ls s : script_ok sc -> run true (init sc cp cb) ls = Some s -> st_pos s <> LPanic.
Proof.
  intros Hs H. destruct (reach_invs _ _ _ _ _ Hs H) as [Hi _]. pose proof (i_pos _ Hi) as Hp.
  unfold pos_ok in Hp. intros E. rewrite E in Hp. exact Hp.
Qed.


(* ---- every submitted slice lies inside its buffer ------------------------------------------------ *)

Lemma psizes_nonneg q : prm_ok q = true -> Forall (fun x => 0 <= x) (psizes q).
Proof.
  intros H. apply prm_ok_nonneg in H. unfold psizes. apply Forall_app. split.
  - apply Forall_forall. intros x Hx. apply repeat_spec in Hx. lia.
  - apply Forall_app. split.
    + destruct (q_f1 q =? 0); constructor; [lia|constructor].
    + destruct (q_f2 q =? 0); constructor; [lia|constructor].
Qed.

Lemma zsum_firstn_nth l : Forall (fun x => 0 <= x) l -> forall j x, nth_error l j = Some x ->
  0 <= zsum (firstn j l) /\ 0 <= x /\ zsum (firstn j l) + x <= zsum l.
Proof.
  induction 1 as [|y l Hy Hl IH]; intros [|j] x Hn; cbn [nth_error] in Hn; try discriminate.
  - inversion Hn; subst. cbn [firstn zsum fold_right]. fold (zsum l).
    assert (0 <= zsum l) by (clear -Hl; induction Hl; cbn [zsum fold_right]; [lia|fold (zsum l); lia]). lia.
  - destruct (IH j x Hn) as [H1 [H2 H3]]. cbn [firstn zsum fold_right]. fold (zsum (firstn j l)) (zsum l). lia.
Qed.

Lemma slice_in_ok q lbuf tbuf buf k sz : prm_ok q = true -> zlen lbuf = q_leader q ->
  zlen tbuf = q_trailer q -> zlen buf = max_payload q -> nth_error (slots q) k = Some sz ->
  slice_in q lbuf tbuf buf k sz = true.
Proof.
  intros Hq Hl Ht Hb Hn. unfold slice_in.
  assert (Hns : nslots q = S (length (psizes q) + 1)).
  { unfold nslots, slots. cbn [length]. rewrite app_length. reflexivity. }
  unfold slots in Hn.
  destruct (k =? 0)%nat eqn:E0.
  - apply Nat.eqb_eq in E0. subst k. cbn [nth_error] in Hn. inversion Hn; subst. apply Z.leb_le. lia.
  - apply Nat.eqb_neq in E0. destruct k as [|k]; [lia|]. cbn [nth_error] in Hn.
    destruct (S (S k) =? nslots q)%nat eqn:E.
    + apply Nat.eqb_eq in E. rewrite nth_error_app2 in Hn by lia.
      replace (k - length (psizes q))%nat with 0%nat in Hn by lia. cbn [nth_error] in Hn.
      inversion Hn; subst. apply Z.leb_le. lia.
    + apply Nat.eqb_neq in E.
      assert (Hk : (k < length (psizes q))%nat).
      { assert (k < length (psizes q ++ [q_trailer q]))%nat by (apply nth_error_Some; congruence).
        rewrite app_length in H. cbn [length] in H. lia. }
      rewrite nth_error_app1 in Hn by exact Hk. replace (S k - 1)%nat with k by lia.
      destruct (zsum_firstn_nth _ (psizes_nonneg q Hq) k sz Hn) as [_ [_ H3]].
      rewrite (zsum_psizes q Hq) in H3. apply Z.leb_le. lia.
Qed.

(* ---- the loop never blocks ---- *)

Definition loop_active (s : state) : bool :=
  match st_pos s with LIdle | LPanic => false | _ => true end.

Lemma skipn_nonempty {A} (l : list A) n : (n < length l)%nat -> exists x r, skipn n l = x :: r.
Proof.
  revert n. induction l as [|y l IH]; intros n H; cbn [length] in H; [lia|].
  destruct n as [|n]; cbn [skipn]; [eauto|]. apply IH. lia.
Qed.

Lemma nth_error_lt {A} (l : list A) n : (n < length l)%nat -> exists x, nth_error l n = Some x.
Proof.
  intros H. destruct (nth_error l n) eqn:E; [eauto|]. apply nth_error_None in E. lia.
Qed.

Lemma never_blocks s : Inv s -> loop_active s = true ->
  exists l s', is_loop_label l = true /\ step true s l = Some s'.
Proof.
  intros [Hprm Hlb Htb Hpbo Hbq Hsc Hpos Hw Ht Hi] Ha.
  unfold loop_active in Ha. unfold pos_ok in Hpos.
  destruct (st_pos s) eqn:Ep; try discriminate.
  - (* LHead *)
    destruct (st_cancel s) eqn:Ec.
    + exists (LCancel 0). unfold step. rewrite Ep, Ec. cbn [Z.eqb is_loop_label]. destruct (st_pbo s); eauto.
    + exists (LCancel 1). unfold step. rewrite Ep, Ec. cbn. eauto.
    + exists (LCancel 0). unfold step. rewrite Ep, Ec. cbn [Z.eqb is_loop_label]. destruct (st_pbo s); eauto.
    + exists (LCancel 2). unfold step. rewrite Ep, Ec. cbn. eauto.
  - (* LBuf *)
    destruct (st_bq s) eqn:Eb.
    + exists (LBackRecv 1). unfold step. rewrite Ep, Eb. cbn. eauto.
    + exists (LBackRecv 0). unfold step. rewrite Ep, Eb. cbn. eauto.
  - exists LPoolNew. unfold step. rewrite Ep. cbn. eauto.
  - (* LSubmit *)
    destruct Hpos as [[Hbl _] [Hk _]]. destruct (nth_error_lt (slots (st_prm s)) k Hk) as [sz Hsz].
    exists (LSubmitOk sz). unfold step.
    rewrite Ep, Hsz, Z.eqb_refl, (slice_in_ok _ _ _ _ _ _ Hprm Hlb Htb Hbl Hsz). cbn. eauto.
  - (* LPoll *)
    destruct Hpos as [_ [Hk [_ Hpend]]].
    destruct (nth_error_lt (slots (st_prm s)) (length ds) Hk) as [sz Hsz].
    destruct (skipn_nonempty (slots (st_prm s)) (length ds) Hk) as [x [r Hr]]. rewrite Hr in Hpend.
    destruct (st_script s) as [|[d|c|] rest] eqn:Es.
    + exists LPollTimeout. unfold step. rewrite Ep, Hsz, Es. cbn. eauto.
    + destruct (zlen d <=? sz) eqn:El.
      * exists (LPollData (zlen d)). unfold step. rewrite Ep, Es, Hsz, Hpend, Z.eqb_refl, El. cbn [andb is_loop_label].
        destruct (length (ds ++ [d]) =? nslots (st_prm s))%nat; [|eauto].
        destruct (finish true _ _ _ _ _); eauto.
      * exists (LPollErr 7). unfold step. rewrite Ep, Es, Hsz, Hpend. apply Z.leb_gt in El.
        destruct (sz <? zlen d) eqn:El'; [|apply Z.ltb_ge in El'; lia]. cbn. eauto.
    + exists (LPollErr c). unfold step. rewrite Ep, Es, Hsz, Hpend, Z.eqb_refl. cbn. eauto.
    + exists LPollTimeout. unfold step. rewrite Ep, Hsz, Es. cbn. eauto.
  - (* LSend *)
    destruct (st_rx s) eqn:Er; [destruct (zlen (st_pq s) <? st_cp s) eqn:Eq|].
    + exists (LTrySend 0). unfold step. rewrite Ep, Er, Eq. cbn. eauto.
    + exists (LTrySend 1). unfold step. rewrite Ep, Er, Eq. cbn. eauto.
    + exists (LTrySend 2). unfold step. rewrite Ep, Er. cbn. eauto.
  - exists (LPoolDrop (zlen (st_pending s))). unfold step. rewrite Ep, Z.eqb_refl. cbn. eauto.
Qed.


(* ---- stop ---- *)

Definition rank (s : state) : nat :=
  let n := nslots (st_prm s) in
  match st_pos s with
  | LIdle | LPanic | LHead => 0
  | LDrop _ => 1
  | LSend _ _ => 2
  | LPoll _ ds => 2 + (n - length ds)
  | LSubmit _ k => 2 + n + (n - k)
  | LNew _ => 3 + 2 * n
  | LBuf => 4 + 2 * n
  end.

Fixpoint nloop (ls : list label) : nat :=
  match ls with [] => 0 | l :: r => (if is_loop_label l then 1 else 0) + nloop r end.

Lemma rank_bound s : (rank s <= 2 * nslots (st_prm s) + 4)%nat.
Proof. unfold rank. destruct (st_pos s); lia. Qed.

Lemma loop_step_rank s l s' : Inv s -> step true s l = Some s' -> is_loop_label l = true ->
  st_pos s <> LHead ->
  (rank s' < rank s)%nat /\ st_cancel s' = st_cancel s.
Proof.
  intros [Hprm Hlb Htb Hpbo Hbq Hsc Hpos Hw Ht Hi] H Hl Hh.
  unfold pos_ok in Hpos. unfold rank.
  destruct l; try discriminate; step_cases H; try congruence.
  all: sf; try (split; [lia|reflexivity]).
  all: try match goal with
    | |- context [if ?c then _ else _] => destruct c eqn:?
    end; sf; try (split; [lia|reflexivity]).
  all: try (rewrite app_length; cbn [length]).
  all: try (destruct Hpos as [? [? ?]]; split; [lia|reflexivity]).
  all: try (pose proof (nslots_pos (st_prm s)); split; [lia|reflexivity]).
Qed.

Lemma head_step s l s' : st_pos s = LHead -> st_cancel s = CWaiting -> pos_ok s ->
  step true s l = Some s' -> is_loop_label l = true ->
  l = LCancel 1 /\ st_pos s' = LIdle /\ st_pending s' = [] /\ st_cancel s' = CTaken /\ st_ctl s' = st_ctl s.
Proof.
  intros Hp Hc Hpos H Hl. unfold pos_ok in Hpos. rewrite Hp in Hpos.
  destruct l; try discriminate; unfold step in H; rewrite Hp in H; try discriminate.
  rewrite Hc in H. destruct (r =? 1) eqn:E; [|discriminate]. apply Z.eqb_eq in E. subst r.
  injection H as H. subst s'. sf. auto.
Qed.

Lemma env_step s l s' : Inv s -> step true s l = Some s' -> is_loop_label l = false ->
  st_cancel s = CWaiting ->
  st_pos s' = st_pos s /\ st_prm s' = st_prm s /\ st_cancel s' = CWaiting.
Proof.
  intros HI H Hl Hc. pose proof (i_wait _ HI Hc) as Hk.
  destruct l; try discriminate; step_cases H; sf; try congruence; auto.
Qed.

Lemma stop_bounded ls : forall s s', Inv s -> st_cancel s = CWaiting -> run true s ls = Some s' ->
  (rank s < nloop ls)%nat ->
  exists ls1 ls2 s0 s1, ls = ls1 ++ LCancel 1 :: ls2 /\ (nloop ls1 <= rank s)%nat /\
    run true s ls1 = Some s0 /\ step true s0 (LCancel 1) = Some s1 /\
    st_pos s1 = LIdle /\ st_pending s1 = [] /\ st_cancel s1 = CTaken.
Proof.
  induction ls as [|l ls IH]; intros s s' HI Hc H Hn; cbn [nloop run] in *; [lia|].
  destruct (step true s l) as [sa|] eqn:E; [|discriminate].
  pose proof (step_inv _ _ _ HI E) as HIa.
  destruct (is_loop_label l) eqn:El.
  - destruct (st_pos s) eqn:Ep.
    3:{ destruct (head_step _ _ _ Ep Hc (i_pos _ HI) E El) as [-> [H1 [H2 [H3 _]]]].
        exists [], ls, s, sa. cbn [app nloop run]. repeat split; auto. lia. }
    all: assert (Hnh : st_pos s <> LHead) by congruence;
      destruct (loop_step_rank _ _ _ HI E El Hnh) as [Hr Hca];
      rewrite Hc in Hca;
      destruct (IH sa s' HIa Hca H ltac:(lia)) as [ls1 [ls2 [s0 [s1 [-> [Hb [Hr1 Hrest]]]]]]];
      exists (l :: ls1), ls2, s0, s1; cbn [app nloop run]; rewrite E, El;
      (split; [reflexivity|]); (split; [lia|]); (split; [exact Hr1|exact Hrest]).
  - destruct (env_step _ _ _ HI E El Hc) as [Hp [Hq Hca]].
    assert (Hrk : rank sa = rank s) by (unfold rank; rewrite Hp, Hq; reflexivity).
    destruct (IH sa s' HIa Hca H ltac:(lia)) as [ls1 [ls2 [s0 [s1 [-> [Hb [Hr1 Hrest]]]]]]].
    exists (l :: ls1), ls2, s0, s1. cbn [app nloop run]. rewrite E, El.
    split; [reflexivity|]. split; [lia|]. split; [exact Hr1|exact Hrest].
Qed.

(* while no loop thread is inside `run` nothing is submitted, polled or sent, the ledger stays
   as it is, and only a start brings a loop back *)
Lemma stopped_quiet s l s' : st_pos s = LIdle -> step true s l = Some s' ->
  is_loop_label l = false /\ st_pending s' = st_pending s /\ g_hist (st_g s') = g_hist (st_g s) /\
  (st_pos s' = LIdle \/ exists q, l = KStart q).
Proof.
  intros Hp H. destruct l; unfold step in H; rewrite ?Hp in H; try discriminate.
  all: step_cases H; sf; repeat split; auto; eauto.
Qed.

Lemma stop_returns s : Inv s -> st_cancel s = CTaken ->
  exists s', step true s KStopRet = Some s' /\ st_ctl s' = KIdle /\ st_cancel s' = CNone /\ st_pos s' = LIdle.
Proof.
  intros HI Hc. destruct (i_taken _ HI Hc) as [Hk Hp]. unfold step. rewrite Hk, Hc.
  eexists. split; [reflexivity|]. sf. auto.
Qed.

Lemma restart s q : Inv s -> st_ctl s = KIdle -> st_cancel s = CNone -> prm_ok q = true ->
  exists s', step true s (KStart q) = Some s' /\ Inv s' /\ st_pos s' = LHead /\ st_prm s' = q /\
    st_pending s' = [] /\ st_pbo s' = None /\ st_lbuf s' = zeros (q_leader q) /\
    st_tbuf s' = zeros (q_trailer q) /\ st_cancel s' = CNone.
Proof.
  intros HI Hk Hc Hq. pose proof (i_idle _ HI Hk Hc) as Hp.
  pose proof (i_pos _ HI) as Hpos. unfold pos_ok in Hpos. rewrite Hp in Hpos.
  assert (E : exists s', step true s (KStart q) = Some s') by (unfold step; rewrite Hp, Hk, Hq; eauto).
  destruct E as [s' E]. exists s'. split; [exact E|]. split; [exact (step_inv _ _ _ HI E)|].
  unfold step in E. rewrite Hp, Hk, Hq in E. injection E as E. subst s'. sf. repeat split; auto.
Qed.

(* ---- the pinned code (before the two fix: commits) violates no_mixture -------------------------- *)

Definition wit_trailer_script : list xfer := [XData [85; 51; 86; 76; 0; 0; 28; 0; 1; 0; 0; 0; 0; 0; 0; 0; 0; 0; 0; 64; 1; 0; 0; 0; 0; 0; 0; 0]; XData [1; 2; 3; 4]; XData [5; 6; 7; 8]; XData [85; 51; 86; 84; 0; 0; 32; 0; 1; 0; 0; 0; 0; 0; 0; 0; 0; 0; 0; 0; 8; 0; 0; 0; 0; 0; 0; 0; 0; 0; 0; 0]; XData [85; 51; 86; 76; 0; 0; 28; 0; 2; 0; 0; 0; 0; 0; 0; 0; 0; 0; 0; 64; 2; 0; 0; 0; 0; 0; 0; 0]; XData [9; 9; 9; 9]; XData [8; 8; 8; 8]; XData []].
Definition wit_trailer_labels : list label := [KStart (Build_params 28 32 4 2 0 0); LCancel 0; LBackRecv 1; LPoolNew; LSubmitOk 28; LSubmitOk 4; LSubmitOk 4; LSubmitOk 32; LPollData 28; LPollData 4; LPollData 4; LPollData 32; LTrySend 0; LPoolDrop 0; LCancel 0; LBackRecv 1; LPoolNew; LSubmitOk 28; LSubmitOk 4; LSubmitOk 4; LSubmitOk 32; LPollData 28; LPollData 4; LPollData 4; LPollData 0; LTrySend 0; LPoolDrop 0].
Definition wit_leader_script : list xfer := [XData [85; 51; 86; 76; 0; 0; 28; 0; 1; 0; 0; 0; 0; 0; 0; 0; 0; 0; 0; 64; 1; 0; 0; 0; 0; 0; 0; 0]; XData [1; 2; 3; 4]; XData [5; 6; 7; 8]; XData [85; 51; 86; 84; 0; 0; 32; 0; 1; 0; 0; 0; 0; 0; 0; 0; 0; 0; 0; 0; 8; 0; 0; 0; 0; 0; 0; 0; 0; 0; 0; 0]; XData []; XData [9; 9; 9; 9]; XData [8; 8; 8; 8]; XData [85; 51; 86; 84; 0; 0; 32; 0; 2; 0; 0; 0; 0; 0; 0; 0; 0; 0; 0; 0; 8; 0; 0; 0; 0; 0; 0; 0; 0; 0; 0; 0]].
Definition wit_leader_labels : list label := [KStart (Build_params 28 32 4 2 0 0); LCancel 0; LBackRecv 1; LPoolNew; LSubmitOk 28; LSubmitOk 4; LSubmitOk 4; LSubmitOk 32; LPollData 28; LPollData 4; LPollData 4; LPollData 32; LTrySend 0; LPoolDrop 0; LCancel 0; LBackRecv 1; LPoolNew; LSubmitOk 28; LSubmitOk 4; LSubmitOk 4; LSubmitOk 32; LPollData 0; LPollData 4; LPollData 4; LPollData 32; LTrySend 0; LPoolDrop 0].
Definition wit_hole_script : list xfer := [XData [85; 51; 86; 76; 0; 0; 28; 0; 1; 0; 0; 0; 0; 0; 0; 0; 0; 0; 0; 64; 1; 0; 0; 0; 0; 0; 0; 0]; XData [1; 2; 3; 4]; XData [5; 6; 7; 8]; XData [85; 51; 86; 84; 0; 0; 32; 0; 1; 0; 0; 0; 0; 0; 0; 0; 0; 0; 0; 0; 8; 0; 0; 0; 0; 0; 0; 0; 0; 0; 0; 0]; XData [85; 51; 86; 76; 0; 0; 28; 0; 2; 0; 0; 0; 0; 0; 0; 0; 0; 0; 0; 64; 2; 0; 0; 0; 0; 0; 0; 0]; XData [9; 9]; XData [8; 8; 8; 8]; XData [85; 51; 86; 84; 0; 0; 32; 0; 2; 0; 0; 0; 0; 0; 0; 0; 0; 0; 0; 0; 6; 0; 0; 0; 0; 0; 0; 0; 0; 0; 0; 0]].
Definition wit_hole_labels : list label := [KStart (Build_params 28 32 4 2 0 0); LCancel 0; LBackRecv 1; LPoolNew; LSubmitOk 28; LSubmitOk 4; LSubmitOk 4; LSubmitOk 32; LPollData 28; LPollData 4; LPollData 4; LPollData 32; LTrySend 0; LPoolDrop 0; LCancel 0; LBackRecv 1; LPoolNew; LSubmitOk 28; LSubmitOk 4; LSubmitOk 4; LSubmitOk 32; LPollData 28; LPollData 2; LPollData 4; LPollData 32; LTrySend 0; LPoolDrop 0].

Definition mixture_in (sc : list xfer) (ls : list label) : Prop :=
  exists s e p ds, run false (init sc 4 4) ls = Some s /\ In e (g_hist (st_g s)) /\
    a_item e = IOk p /\ a_ds e = Some ds /\
    firstn (nslots (a_prm e)) (skipn (a_start e) sc) = map XData ds /\
    item_view (IOk p) <> frame_item (a_prm e) ds.

Ltac mixture_witness :=
  unfold mixture_in;
  match goal with |- context [run false ?i ?l] =>
    let r := eval vm_compute in (run false i l) in
    match r with
    | Some ?s =>
      exists s;
      let h := eval vm_compute in (nth 1 (g_hist (st_g s)) {| a_prm := Build_params 0 0 0 0 0 0; a_start := 0%nat; a_ds := None; a_item := IErr 0 |}) in
      exists h;
      match h with {| a_prm := _; a_start := _; a_ds := Some ?ds; a_item := IOk ?p |} =>
        exists p, ds;
        split; [vm_compute; reflexivity|];
        split; [vm_compute; right; left; reflexivity|];
        split; [reflexivity|]; split; [reflexivity|];
        split; [vm_compute; reflexivity|];
        vm_compute; discriminate
      end
    end
  end.

(* a trailer transfer that delivers nothing: frame 2 is handed over with the trailer of frame 1 *)
Lemma no_mixture_v0_refuted_trailer : mixture_in wit_trailer_script wit_trailer_labels.
Proof. mixture_witness. Qed.

(* a leader transfer that delivers nothing: the payload of frame 2 under the leader of frame 1 *)
Lemma no_mixture_v0_refuted_leader : mixture_in wit_leader_script wit_leader_labels.
Proof. mixture_witness. Qed.

(* a short payload transfer followed by a full one: a hole inside the valid payload size *)
Lemma no_mixture_v0_refuted_hole : mixture_in wit_hole_script wit_hole_labels.
Proof. mixture_witness. Qed.

(* the same executions on the repaired code: accepted, the second frame is reported as an error *)
Lemma fixed_rejects_witnesses :
  forall sc ls, In (sc, ls) [(wit_trailer_script, wit_trailer_labels); (wit_leader_script, wit_leader_labels);
                             (wit_hole_script, wit_hole_labels)] ->
  exists s, run true (init sc 4 4) ls = Some s /\ map a_item (skipn 1 (g_hist (st_g s))) = [IErr C_INVALID_PAYLOAD].
Proof.
  intros sc ls [H|[H|[H|[]]]]; inversion H; subst; eexists; (split; [vm_compute; reflexivity|vm_compute; reflexivity]).
Qed.

(* every iteration in which all transfers completed ends in one try_send of the item of its frame;
   when no try_send failed all of them are in the payload channel's history *)
Lemma all_attempted sc cp cb ls s : script_ok sc -> run true (init sc cp cb) ls = Some s ->
  forall q i ds, In (q, i, ds) (g_done (st_g s)) ->
  (exists e, In e (g_att (st_g s)) /\ a_prm e = q /\ a_start e = i /\ a_ds e = Some ds /\
             item_view (a_item e) = frame_item q ds) \/
  (exists it keep, st_pos s = LSend it keep /\ st_prm s = q /\ g_istart (st_g s) = i /\
             g_cur (st_g s) = Some ds /\ item_view it = frame_item q ds).
Proof.
  intros Hs H q i ds Hin. destruct (reach_invs _ _ _ _ _ Hs H) as [_ Hg].
  assert (Hk : In (q, i, Some ds) (map dkey (g_done (st_g s)))).
  { apply in_map_iff. exists (q, i, ds). split; [reflexivity|exact Hin]. }
  rewrite <- (gi_done _ _ Hg) in Hk. apply in_app_or in Hk. destruct Hk as [Hk|Hk].
  - left. apply in_map_iff in Hk. destruct Hk as [e [He1 He2]]. apply filter_In in He2.
    destruct He2 as [He2 _]. unfold akey in He1. inversion He1; subst.
    exists e. repeat split; auto.
    pose proof (gi_att _ _ Hg) as Ha. rewrite Forall_forall in Ha. specialize (Ha e He2).
    unfold entry_ok in Ha. rewrite H3 in Ha. tauto.
  - right. unfold pend in Hk. destruct (st_pos s) eqn:Ep; try contradiction.
    destruct (g_cur (st_g s)) as [ds'|] eqn:Ec; [|contradiction].
    destruct Hk as [Hk|[]]. inversion Hk; subst.
    exists it, keep. repeat split; auto.
    destruct (gi_send _ _ Hg _ _ Ep) as [He _]. unfold entry_ok, cur_entry in He.
    cbn [a_ds a_prm a_item] in He. rewrite Ec in He. tauto.
Qed.

(* ---- statements over executions from the initial state ------------------------------------------ *)

Lemma never_blocks_reach sc cp cb ls s : script_ok sc -> run true (init sc cp cb) ls = Some s ->
  loop_active s = true -> exists l s', is_loop_label l = true /\ step true s l = Some s'.
Proof. intros Hs H. destruct (reach_invs _ _ _ _ _ Hs H) as [Hi _]. now apply never_blocks. Qed.

Lemma stop_bounded_reach sc cp cb ls0 s : script_ok sc -> run true (init sc cp cb) ls0 = Some s ->
  st_cancel s = CWaiting ->
  forall ls s', run true s ls = Some s' -> (2 * nslots (st_prm s) + 4 < nloop ls)%nat ->
  exists ls1 ls2 s0 s1, ls = ls1 ++ LCancel 1 :: ls2 /\ (nloop ls1 <= 2 * nslots (st_prm s) + 4)%nat /\
    run true s ls1 = Some s0 /\ step true s0 (LCancel 1) = Some s1 /\
    st_pos s1 = LIdle /\ st_pending s1 = [] /\ st_cancel s1 = CTaken.
Proof.
  intros Hs H Hc ls s' Hr Hn. destruct (reach_invs _ _ _ _ _ Hs H) as [Hi _].
  pose proof (rank_bound s) as Hb.
  destruct (stop_bounded ls s s' Hi Hc Hr ltac:(lia)) as [ls1 [ls2 [s0 [s1 [H1 [H2 H3]]]]]].
  exists ls1, ls2, s0, s1. split; [exact H1|]. split; [lia|exact H3].
Qed.

Lemma stop_returns_reach sc cp cb ls s : script_ok sc -> run true (init sc cp cb) ls = Some s ->
  st_cancel s = CTaken ->
  exists s', step true s KStopRet = Some s' /\ st_ctl s' = KIdle /\ st_cancel s' = CNone /\ st_pos s' = LIdle.
Proof. intros Hs H. destruct (reach_invs _ _ _ _ _ Hs H) as [Hi _]. now apply stop_returns. Qed.

Lemma restart_reach sc cp cb ls s q : script_ok sc -> run true (init sc cp cb) ls = Some s ->
  st_ctl s = KIdle -> st_cancel s = CNone -> prm_ok q = true ->
  exists s', run true (init sc cp cb) (ls ++ [KStart q]) = Some s' /\ st_pos s' = LHead /\ st_prm s' = q /\
    st_pending s' = [] /\ st_pbo s' = None /\ st_lbuf s' = zeros (q_leader q) /\
    st_tbuf s' = zeros (q_trailer q) /\ st_cancel s' = CNone.
Proof.
  intros Hs H Hk Hc Hq. destruct (reach_invs _ _ _ _ _ Hs H) as [Hi _].
  destruct (restart s q Hi Hk Hc Hq) as [s' [E [_ R]]]. exists s'. split; [|exact R].
  clear -H E. revert H. generalize (init sc cp cb). induction ls as [|l ls IH]; intros s0 H; cbn [app run] in *.
  - inversion H; subst. rewrite E. reflexivity.
  - destruct (step true s0 l); [apply IH, H|discriminate].
Qed.

Lemma ledger_empty_when_idle sc cp cb ls s : script_ok sc -> run true (init sc cp cb) ls = Some s ->
  (st_pos s = LIdle \/ st_pos s = LHead) -> st_pending s = [].
Proof.
  intros Hs H Hp. destruct (reach_invs _ _ _ _ _ Hs H) as [Hi _]. pose proof (i_pos _ Hi) as Hpos.
  unfold pos_ok in Hpos. destruct Hp as [Hp|Hp]; rewrite Hp in Hpos; exact Hpos.
Qed.

(* ---- buffers handed back by the receiver ---------------------------------------------------------- *)

Lemma resize_any_length n b : 0 <= n -> zlen (resize n b) = n.
Proof.
  intros H. unfold resize. rewrite zlen_app, zlen_take_min, zlen_repeat.
  pose proof (zlen_nonneg b). lia.
Qed.

(* whatever length the buffer of a handed-back payload has (shorter, equal, longer than the current
   maximum_payload_size, e.g. kept from a run with another geometry), the loop goes on with a buffer
   of exactly maximum_payload_size bytes *)
Lemma returned_buffers_resized sc cp cb ls s p bq' : script_ok sc -> run true (init sc cp cb) ls = Some s ->
  st_pos s = LBuf -> st_bq s = p :: bq' ->
  exists s' b, step true s (LBackRecv 0) = Some s' /\ st_pos s' = LNew b /\
    zlen b = max_payload (st_prm s') /\ st_prm s' = st_prm s /\ bytes_ok b.
Proof.
  intros Hs H Hp Hb. destruct (reach_invs _ _ _ _ _ Hs H) as [Hi _].
  unfold step. rewrite Hp, Hb. cbn [Z.eqb]. eexists. eexists. split; [reflexivity|]. sf.
  split; [reflexivity|]. pose proof (i_bq _ Hi) as Hq. rewrite Hb in Hq.
  destruct (bufok_resize (st_prm s) (p_buf p) (i_prm _ Hi) (Forall_inv Hq)) as [H1 H2]. auto.
Qed.

(* every slice the loop passes to submit lies inside its buffer (no slicing panic), in particular
   payload_buf[cursor .. cursor + size] for every payload transfer *)
Lemma submitted_slices_inside sc cp cb ls s buf k : script_ok sc -> run true (init sc cp cb) ls = Some s ->
  st_pos s = LSubmit buf k ->
  zlen buf = max_payload (st_prm s) /\
  exists sz, nth_error (slots (st_prm s)) k = Some sz /\
    slice_in (st_prm s) (st_lbuf s) (st_tbuf s) buf k sz = true /\
    ((0 < k)%nat -> S k <> nslots (st_prm s) ->
     0 <= zsum (firstn (k - 1) (psizes (st_prm s))) /\
     zsum (firstn (k - 1) (psizes (st_prm s))) + sz <= zlen buf).
Proof.
  intros Hs H Hp. destruct (reach_invs _ _ _ _ _ Hs H) as [Hi _].
  pose proof (i_pos _ Hi) as Hpos. unfold pos_ok in Hpos. rewrite Hp in Hpos.
  destruct Hpos as [[Hbl Hbb] [Hk _]]. split; [exact Hbl|].
  destruct (nth_error_lt (slots (st_prm s)) k Hk) as [sz Hsz]. exists sz. split; [exact Hsz|].
  pose proof (slice_in_ok _ _ _ _ _ _ (i_prm _ Hi) (i_lbuf _ Hi) (i_tbuf _ Hi) Hbl Hsz) as Hin.
  split; [exact Hin|]. intros Hk0 Hkn. unfold slice_in in Hin.
  destruct (k =? 0)%nat eqn:E0; [apply Nat.eqb_eq in E0; lia|].
  destruct (S k =? nslots (st_prm s))%nat eqn:E1; [apply Nat.eqb_eq in E1; congruence|].
  apply Z.leb_le in Hin. split; [|exact Hin].
  assert (Hnn : forall l, Forall (fun x => 0 <= x) l -> 0 <= zsum l).
  { induction 1 as [|x l Hx Hl IH]; cbn [zsum fold_right]; [lia|]. fold (zsum l). lia. }
  apply Hnn. apply Forall_firstn. apply psizes_nonneg. exact (i_prm _ Hi).
Qed.

(* ---- the per-frame bookkeeping never outlives its frame --------------------------------------------- *)

(* first_buf_len / last_buf_len / payload_len / is_contiguous are functions of the list ds of polled
   data kept in LPoll; the poll loop is entered with ds = [] ... *)
Lemma poll_starts_fresh s len s' buf ds : step true s (LSubmitOk len) = Some s' ->
  st_pos s' = LPoll buf ds -> ds = [].
Proof.
  intros H Hp. step_cases H; sf; try congruence.
Qed.

(* ... every poll error or time-out leaves it for a position that carries nothing of the frame ... *)
Lemma poll_error_abandons s l s' : step true s l = Some s' ->
  (l = LPollTimeout \/ exists c, l = LPollErr c) ->
  exists c, st_pos s' = LSend (IErr c) None /\ g_cur (st_g s') = None.
Proof.
  intros H [->|[c ->]]; step_cases H; sf; eauto.
Qed.

(* ... and while polling, ds is exactly what the script delivered since this iteration began *)
Lemma bookkeeping_per_frame sc cp cb ls s buf ds : script_ok sc -> run true (init sc cp cb) ls = Some s ->
  st_pos s = LPoll buf ds ->
  g_consumed (st_g s) = (g_istart (st_g s) + length ds)%nat /\
  firstn (length ds) (skipn (g_istart (st_g s)) sc) = map XData ds.
Proof.
  intros Hs H Hp. destruct (reach_invs _ _ _ _ _ Hs H) as [_ Hg]. exact (gi_poll _ _ Hg _ _ Hp).
Qed.

Lemma view_of_payload p v : view_of p = Ok v -> view_payload p = Ok (v_payload v).
Proof.
  unfold view_of. destruct (view_payload p); cbn [bind]; try discriminate.
  destruct (view_image p); cbn [bind]; try discriminate. intros H. apply Ok_inj in H. subst v. reflexivity.
Qed.

(* what payload() shows of a delivered payload is a prefix of the payload bytes received in the
   transfers of THAT frame: valid payload size <= bytes received for this frame, nothing else visible *)
Lemma valid_le_received sc cp cb ls s : script_ok sc -> run true (init sc cp cb) ls = Some s ->
  forall e p ds, In e (g_hist (st_g s)) -> a_item e = IOk p -> a_ds e = Some ds ->
  let data := contig (psizes (a_prm e)) (removelast (tl ds)) in
  exists pl, view_payload p = Ok pl /\ zlen pl <= zlen data /\ pl = take (zlen pl) data.
Proof.
  intros Hs H e p ds He Hp Hd data.
  destruct (no_mixture_ok _ _ _ _ _ Hs H e p He Hp) as [ds' [v [Hd' [_ [Hfit [Hv Hfr]]]]]].
  rewrite Hd in Hd'. inversion Hd'; subst ds'. clear Hd'.
  destruct (fits_slots_inv _ _ Hfit) as [d0 [pds [dl [-> [Hpf [_ [_ [Hbt _]]]]]]]].
  subst data. cbn [tl]. rewrite removelast_last.
  unfold frame_item in Hfr. cbn [hd tl] in Hfr. rewrite removelast_last, last_last in Hfr.
  destruct (parse_leader d0) as [l| |]; try discriminate.
  destruct (parse_trailer dl) as [t| |] eqn:Et; try discriminate.
  set (dat := contig (psizes (a_prm e)) pds) in *.
  destruct (build l t dat (zlen dat)) as [p'| |] eqn:Eb; try discriminate.
  destruct (view_of p') as [v'| |] eqn:Ev'; try discriminate.
  assert (v' = v) by congruence. subst v'.
  destruct (contig_bound _ _ Hpf) as [_ Hcb]. fold dat in Hcb.
  pose proof (trailer_valid_nonneg _ _ Hbt Et) as Hvn.
  destruct (build_sound l t dat (zlen dat) p' Hcb Hvn ltac:(lia) Eb)
    as [_ [Hpb [Hpv [_ [_ [Hvr [_ [_ [_ Hvp]]]]]]]]].
  pose proof (view_of_payload _ _ Hv) as H1. pose proof (view_of_payload _ _ Ev') as H2.
  exists (v_payload v). split; [exact H1|].
  unfold view_payload, slice_to in H2. rewrite Hpb in H2.
  destruct (zlen dat <? p_valid p'); [discriminate|]. apply Ok_inj in H2.
  rewrite <- H2. rewrite zlen_take by lia. split; [lia|reflexivity].
Qed.
