(* Proofs for C12 (model/StreamLoop.v, spec/FrameSpec.v). *)
From Cam Require Import Outcome Bytes Ack Stream Payload StreamLoop FrameSpec GenCPLayout StreamLayout P_C08 P_C11.

(* ---- lists ---------------------------------------------------------------------------- *)

Lemma take_app_le {A} n (a b : list A) : n <= zlen a -> take n (a ++ b) = take n a.
Proof.
  unfold take, zlen. intros H. rewrite firstn_app.
  replace (Z.to_nat n - length a)%nat with 0%nat by lia. cbn [firstn]. apply app_nil_r.
Qed.

Lemma take_app_ge {A} n (a b : list A) : zlen a <= n -> take n (a ++ b) = a ++ take (n - zlen a) b.
Proof.
  unfold take, zlen. intros H. rewrite firstn_app. rewrite firstn_all2 by lia.
  f_equal. f_equal. lia.
Qed.

Lemma take_take {A} n m (l : list A) : n <= m -> take n (take m l) = take n l.
Proof.
  unfold take. intros H. rewrite firstn_firstn. f_equal. lia.
Qed.

Lemma take_all {A} n (l : list A) : zlen l <= n -> take n l = l.
Proof. unfold take, zlen. intros H. apply firstn_all2. lia. Qed.

Lemma take_neg {A} n (l : list A) : n <= 0 -> take n l = [].
Proof. unfold take. intros H. replace (Z.to_nat n) with 0%nat by lia. reflexivity. Qed.

Lemma zlen_take_min {A} n (l : list A) : zlen (take n l) = Z.min (Z.max 0 n) (zlen l).
Proof. unfold take, zlen. rewrite firstn_length. lia. Qed.

Lemma zlen_repeat {A} (x : A) n : zlen (repeat x n) = Z.of_nat n.
Proof. unfold zlen. now rewrite repeat_length. Qed.

Lemma bytes_ok_repeat0 n : bytes_ok (repeat 0 n).
Proof. induction n; cbn [repeat]; constructor; auto. unfold is_byte. lia. Qed.

Lemma take_drop_take {A} n k (l : list A) : 0 <= k -> 0 <= n ->
  take n (drop k l) = drop k (take (k + n) l).
Proof.
  intros Hk Hn. unfold take, drop.
  replace (Z.to_nat (k + n)) with (Z.to_nat k + Z.to_nat n)%nat by lia.
  revert l. generalize (Z.to_nat k) as a. generalize (Z.to_nat n) as b. clear.
  intros b a. induction a as [|a IH]; intros l; cbn [skipn Nat.add]; [reflexivity|].
  destruct l as [|x l]; cbn [firstn skipn]; [now rewrite firstn_nil|]. apply IH.
Qed.

(* ---- write_at --------------------------------------------------------------------------- *)

Lemma zlen_write_at buf off d :
  0 <= off -> off + zlen d <= zlen buf -> zlen (write_at buf off d) = zlen buf.
Proof.
  intros H0 H1. pose proof (zlen_nonneg d). unfold write_at.
  rewrite !zlen_app, zlen_take, zlen_drop by lia. lia.
Qed.

Lemma bytes_ok_write_at buf off d : bytes_ok buf -> bytes_ok d -> bytes_ok (write_at buf off d).
Proof.
  intros Hb Hd. unfold write_at. apply bytes_ok_app; [now apply bytes_ok_take|].
  apply bytes_ok_app; [exact Hd|now apply bytes_ok_drop].
Qed.

Lemma take_write_at_0 buf d : take (zlen d) (write_at buf 0 d) = d.
Proof. unfold write_at. rewrite (take_neg 0) by lia. cbn [app]. apply take_app_exact. Qed.

Lemma take_write_at_before buf off d n :
  0 <= n <= off -> off <= zlen buf -> take n (write_at buf off d) = take n buf.
Proof.
  intros Hn Ho. unfold write_at. rewrite take_app_le by (rewrite zlen_take_min; lia).
  apply take_take. lia.
Qed.

Lemma take_write_at_end buf off d :
  0 <= off <= zlen buf -> take (off + zlen d) (write_at buf off d) = take off buf ++ d.
Proof.
  intros Ho. pose proof (zlen_nonneg d). unfold write_at.
  rewrite take_app_ge by (rewrite zlen_take_min; lia).
  rewrite zlen_take by lia. replace (off + zlen d - off) with (zlen d) by lia.
  now rewrite take_app_exact.
Qed.

(* ---- payload transfers --------------------------------------------------------------------- *)

Definition zsum (l : list Z) : Z := fold_right Z.add 0 l.

Lemma zsum_app a b : zsum (a ++ b) = zsum a + zsum b.
Proof. unfold zsum. induction a as [|x a IH]; cbn [app fold_right]; lia. Qed.

Lemma zsum_repeat x n : zsum (repeat x n) = x * Z.of_nat n.
Proof.
  unfold zsum in *. induction n as [|n IH]; cbn [repeat fold_right]; lia.
Qed.

Lemma zsum_psizes q : prm_ok q = true -> zsum (psizes q) = max_payload q.
Proof.
  unfold prm_ok, psizes, max_payload. intros H.
  repeat (apply andb_prop in H; destruct H as [H ?]).
  rewrite !zsum_app, zsum_repeat. rewrite Z2Nat.id by lia.
  destruct (q_f1 q =? 0) eqn:E1; destruct (q_f2 q =? 0) eqn:E2; cbn [zsum fold_right]; lia.
Qed.

Lemma fits_nil_inv szs : fits [] szs -> szs = [].
Proof. intros H. inversion H. reflexivity. Qed.

Lemma pwrite_len szs : forall off buf pds, fits pds szs -> 0 <= off -> off + zsum szs <= zlen buf ->
  zlen (pwrite szs off buf pds) = zlen buf.
Proof.
  induction szs as [|sz szs IH]; intros off buf pds Hf Ho Hs.
  - destruct pds; reflexivity.
  - inversion Hf as [|d sz' pds' szs' [Hd Hl] Hf']; subst. cbn [pwrite].
    cbn [zsum fold_right] in Hs. fold (zsum szs) in Hs.
    pose proof (zlen_nonneg d).
    assert (Hz : zsum szs >= 0).
    { clear -Hf'. induction Hf' as [|d' s' p' z' [_ Hl'] _ IH']; cbn [zsum fold_right]; [lia|].
      fold (zsum z'). pose proof (zlen_nonneg d'). lia. }
    rewrite IH; auto; try lia.
    + apply zlen_write_at; lia.
    + rewrite zlen_write_at; lia.
Qed.

Lemma fits_zsum_nonneg pds szs : fits pds szs -> 0 <= zsum szs.
Proof.
  induction 1 as [|d s p z [_ Hl] _ IH]; cbn [zsum fold_right]; [lia|].
  fold (zsum z). pose proof (zlen_nonneg d). lia.
Qed.

Lemma pwrite_bytes szs : forall off buf pds, fits pds szs -> bytes_ok buf ->
  bytes_ok (pwrite szs off buf pds).
Proof.
  induction szs as [|sz szs IH]; intros off buf pds Hf Hb.
  - destruct pds; exact Hb.
  - inversion Hf as [|d sz' pds' szs' [Hd Hl] Hf']; subst. cbn [pwrite].
    apply IH; auto. now apply bytes_ok_write_at.
Qed.

Lemma pwrite_take_before szs : forall off buf pds n, fits pds szs -> 0 <= n <= off ->
  off + zsum szs <= zlen buf -> take n (pwrite szs off buf pds) = take n buf.
Proof.
  induction szs as [|sz szs IH]; intros off buf pds n Hf Hn Hs.
  - destruct pds; reflexivity.
  - inversion Hf as [|d sz' pds' szs' [Hd Hl] Hf']; subst. cbn [pwrite].
    cbn [zsum fold_right] in Hs. fold (zsum szs) in Hs.
    pose proof (zlen_nonneg d). pose proof (fits_zsum_nonneg _ _ Hf').
    rewrite IH; auto; try lia.
    + apply take_write_at_before; lia.
    + rewrite zlen_write_at; lia.
Qed.

Lemma pwrite_contig szs : forall off buf pds, fits pds szs -> 0 <= off ->
  off + zsum szs <= zlen buf ->
  take (off + zlen (contig szs pds)) (pwrite szs off buf pds) = take off buf ++ contig szs pds.
Proof.
  induction szs as [|sz szs IH]; intros off buf pds Hf Ho Hs.
  - destruct pds; cbn [contig pwrite]; rewrite zlen_nil, Z.add_0_r, app_nil_r; reflexivity.
  - inversion Hf as [|d sz' pds' szs' [Hd Hl] Hf']; subst. cbn [pwrite contig].
    cbn [zsum fold_right] in Hs. fold (zsum szs) in Hs.
    pose proof (zlen_nonneg d). pose proof (fits_zsum_nonneg _ _ Hf').
    destruct (zlen d =? sz) eqn:E.
    + apply Z.eqb_eq in E. rewrite zlen_app.
      replace (off + (zlen d + zlen (contig szs pds'))) with (off + sz + zlen (contig szs pds')) by lia.
      rewrite IH; auto; try lia.
      * rewrite <- E. rewrite take_write_at_end by lia. now rewrite app_assoc.
      * rewrite zlen_write_at; lia.
    + apply Z.eqb_neq in E.
      rewrite pwrite_take_before; auto; try lia.
      * apply take_write_at_end. lia.
      * rewrite zlen_write_at; lia.
Qed.

Lemma acct_false szs : forall pds plen, acct szs pds plen false = plen.
Proof.
  induction szs as [|sz szs IH]; intros [|d pds] plen; cbn [acct]; auto.
Qed.

Lemma acct_contig szs : forall pds plen, acct szs pds plen true = plen + zlen (contig szs pds).
Proof.
  induction szs as [|sz szs IH]; intros [|d pds] plen; cbn [acct contig]; rewrite ?zlen_nil; try lia.
  cbn [andb]. destruct (zlen d =? sz).
  - rewrite IH, zlen_app. lia.
  - apply acct_false.
Qed.

Lemma contig_bound pds szs : fits pds szs -> zlen (contig szs pds) <= zsum szs /\ bytes_ok (contig szs pds).
Proof.
  induction 1 as [|d s p z [Hd Hl] Hf [IH1 IH2]]; cbn [contig zsum fold_right].
  - split; [rewrite zlen_nil; lia|constructor].
  - fold (zsum z). pose proof (fits_zsum_nonneg _ _ Hf). destruct (zlen d =? s) eqn:E.
    + apply Z.eqb_eq in E. rewrite zlen_app. split; [lia|now apply bytes_ok_app].
    + split; [lia|exact Hd].
Qed.

(* ---- PayloadBuilder::build sees only the received bytes -------------------------------------- *)

Definition set_buf (p : payload) (b : list Z) : payload :=
  {| p_id := p_id p; p_type := p_type p; p_info := p_info p; p_buf := b; p_valid := p_valid p;
     p_timestamp := p_timestamp p |}.

Lemma chunk_walk_prefix fuel : forall buf rs off, bytes_ok buf -> off <= rs -> rs <= zlen buf ->
  chunk_walk fuel (take rs buf) off = chunk_walk fuel buf off.
Proof.
  induction fuel as [|f IH]; intros buf rs off Hb Ho Hr; cbn [chunk_walk]; [reflexivity|].
  destruct (off <? 4) eqn:E4; [reflexivity|]. apply Z.ltb_ge in E4.
  rewrite zlen_take_min.
  destruct (Z.min (Z.max 0 rs) (zlen buf) <? off - 4 + 4) eqn:Ea; [apply Z.ltb_lt in Ea; lia|].
  destruct (zlen buf <? off - 4 + 4) eqn:Eb; [apply Z.ltb_lt in Eb; lia|].
  assert (Hd : take 4 (drop (off - 4) (take rs buf)) = take 4 (drop (off - 4) buf)).
  { rewrite !take_drop_take by lia. rewrite take_take by lia. reflexivity. }
  rewrite Hd.
  set (ds := of_be (take 4 (drop (off - 4) buf))).
  assert (Hds : 0 <= ds).
  { subst ds. apply of_be_nonneg. apply bytes_ok_take, bytes_ok_drop, Hb. }
  destruct (off - 4 <? ds + 4); [reflexivity|].
  destruct (off - 4 - (ds + 4) =? 0); [reflexivity|].
  apply IH; auto; lia.
Qed.

Lemma build_prefix l t buf rs : bytes_ok buf -> rs <= zlen buf ->
  build l t (take rs buf) rs = omap (fun p => set_buf p (take rs buf)) (build l t buf rs).
Proof.
  intros Hb Hr. unfold build.
  destruct (negb (t_status t =? 0)); [reflexivity|].
  destruct (rs <? t_valid t) eqn:Er; [reflexivity|]. apply Z.ltb_ge in Er.
  destruct (l_type l =? 0); [|destruct (l_type l =? 1)].
  - destruct (stream_err (parse_image_leader (l_raw l))); cbn [bind omap]; try reflexivity.
    destruct (stream_err (parse_image_trailer (t_raw t))); cbn [bind omap]; reflexivity.
  - destruct (stream_err (parse_image_leader (l_raw l))); cbn [bind omap]; try reflexivity.
    destruct (stream_err (parse_ext_trailer (t_raw t))); cbn [bind omap]; try reflexivity.
    rewrite chunk_walk_prefix by (auto; lia).
    destruct (chunk_walk _ buf (t_valid t)); cbn [bind omap]; reflexivity.
  - destruct (stream_err (parse_chunk_leader (l_raw l))); cbn [bind omap]; try reflexivity.
    destruct (stream_err (parse_chunk_trailer (t_raw t))); cbn [bind omap]; reflexivity.
Qed.

Lemma view_of_set_buf p rs :
  p_valid p <= rs -> rs <= zlen (p_buf p) ->
  (forall ii, p_info p = Some ii -> ii_image_size ii <= p_valid p) ->
  view_of (set_buf p (take rs (p_buf p))) = view_of p.
Proof.
  intros Hv Hr Hi. unfold view_of, view_payload, view_image, slice_to.
  cbn [set_buf p_buf p_valid p_info p_id p_type p_timestamp].
  rewrite zlen_take_min.
  destruct (Z.min (Z.max 0 rs) (zlen (p_buf p)) <? p_valid p) eqn:Ea; [apply Z.ltb_lt in Ea; lia|].
  destruct (zlen (p_buf p) <? p_valid p) eqn:Eb; [apply Z.ltb_lt in Eb; lia|].
  cbn [bind]. rewrite take_take by lia.
  destruct (p_info p) as [ii|] eqn:Ei; [|reflexivity].
  specialize (Hi ii eq_refl).
  destruct (Z.min (Z.max 0 rs) (zlen (p_buf p)) <? ii_image_size ii) eqn:Ec; [apply Z.ltb_lt in Ec; lia|].
  destruct (zlen (p_buf p) <? ii_image_size ii) eqn:Ed; [apply Z.ltb_lt in Ed; lia|].
  cbn [omap bind]. rewrite take_take by lia. reflexivity.
Qed.

Lemma trailer_valid_nonneg bs t : bytes_ok bs -> parse_trailer bs = Ok t -> 0 <= t_valid t.
Proof.
  intros Hb Hp. pose proof (parse_trailer_faithful bs) as Ha. rewrite Hp in Ha.
  unfold agree, spec_trailer in Ha.
  destruct (length bs <? 28)%nat; [contradiction|].
  destruct (negb (le_at 0 4 bs =? 1414935381)); [contradiction|].
  destruct (spec_payload_status (le_at 16 2 bs)); [|contradiction].
  apply (f_equal st_valid) in Ha. cbn [st_valid to_strailer] in Ha. rewrite Ha.
  apply (le_at_range 20 8 bs Hb).
Qed.

Lemma parse_leader_no_panic bs : parse_leader bs <> Panic.
Proof.
  intros Hp. pose proof (parse_leader_faithful bs) as Ha. rewrite Hp in Ha. exact Ha.
Qed.

Lemma parse_trailer_no_panic bs : parse_trailer bs <> Panic.
Proof.
  intros Hp. pose proof (parse_trailer_faithful bs) as Ha. rewrite Hp in Ha. exact Ha.
Qed.

(* ---- one iteration: what is sent is the frame made of exactly the polled transfers ------------- *)

Definition bufok (q : params) (b : list Z) : Prop := zlen b = max_payload q /\ bytes_ok b.

Lemma fits_slots_inv q ds : fits ds (slots q) ->
  exists d0 pds dl, ds = d0 :: pds ++ [dl] /\ fits pds (psizes q) /\
    bytes_ok d0 /\ zlen d0 <= q_leader q /\ bytes_ok dl /\ zlen dl <= q_trailer q.
Proof.
  unfold fits, slots. intros H. inversion H as [|d0 s0 rest srest [Hb0 Hl0] Hrest]; subst.
  apply Forall2_app_inv_r in Hrest. destruct Hrest as [pds [l2 [Hp [H2 ->]]]].
  inversion H2 as [|dl sl l2' s2' [Hbl Hll] H3]; subst. inversion H3; subst.
  exists d0, pds, dl. repeat split; auto.
Qed.

Lemma finish_spec q lbuf tbuf buf ds :
  prm_ok q = true -> zlen lbuf = q_leader q -> zlen tbuf = q_trailer q -> bufok q buf ->
  fits ds (slots q) ->
  exists f, finish true q lbuf tbuf buf ds = Some f /\
    item_view (f_item f) = frame_item q ds /\ item_view (f_item f) <> VPanic /\
    zlen (f_lbuf f) = q_leader q /\ zlen (f_tbuf f) = q_trailer q /\
    (forall b, f_keep f = Some b -> bufok q b).
Proof.
  intros Hq Hl Ht [Hbl Hbb] Hf.
  destruct (fits_slots_inv _ _ Hf) as [d0 [pds [dl [-> [Hp [Hb0 [Hl0 [Hbt Hlt]]]]]]]].
  pose proof (zlen_nonneg d0) as Hn0. pose proof (zlen_nonneg dl) as Hnl.
  unfold finish, frame_item. cbn [hd tl]. rewrite removelast_last, last_last.
  rewrite !take_write_at_0. rewrite acct_contig, Z.add_0_l.
  set (buf' := pwrite (psizes q) 0 buf pds).
  set (data := contig (psizes q) pds).
  pose proof (zsum_psizes q Hq) as Hsum.
  destruct (contig_bound _ _ Hp) as [Hcl Hcb]. fold data in Hcl, Hcb.
  assert (Hlen' : zlen buf' = max_payload q).
  { subst buf'. rewrite pwrite_len; auto; lia. }
  assert (Hb' : bytes_ok buf') by (subst buf'; apply pwrite_bytes; auto).
  assert (Htake : take (zlen data) buf' = data).
  { subst buf' data. pose proof (pwrite_contig (psizes q) 0 buf pds Hp ltac:(lia) ltac:(lia)) as Hc.
    rewrite Z.add_0_l in Hc. rewrite Hc. rewrite (take_neg 0) by lia. reflexivity. }
  assert (Hwl : zlen (write_at lbuf 0 d0) = q_leader q) by (rewrite zlen_write_at; lia).
  assert (Hwt : zlen (write_at tbuf 0 dl) = q_trailer q) by (rewrite zlen_write_at; lia).
  destruct (parse_leader d0) as [l|e|] eqn:El.
  3:{ exfalso. exact (parse_leader_no_panic _ El). }
  2:{ eexists. split; [reflexivity|]. cbn [f_item f_lbuf f_tbuf f_keep item_view].
      split; [reflexivity|]. split; [discriminate|]. split; [exact Hwl|]. split; [exact Hwt|].
      intros kb Hkb; inversion Hkb; subst; split; auto. }
  destruct (parse_trailer dl) as [t|e|] eqn:Et.
  3:{ exfalso. exact (parse_trailer_no_panic _ Et). }
  2:{ eexists. split; [reflexivity|]. cbn [f_item f_lbuf f_tbuf f_keep item_view].
      split; [reflexivity|]. split; [discriminate|]. split; [exact Hwl|]. split; [exact Hwt|].
      intros kb Hkb; inversion Hkb; subst; split; auto. }
  pose proof (trailer_valid_nonneg _ _ Hbt Et) as Hvn.
  pose proof (build_prefix l t buf' (zlen data) Hb' ltac:(lia)) as Hpre. rewrite Htake in Hpre.
  rewrite Hpre.
  destruct (build l t buf' (zlen data)) as [p|e|] eqn:Eb.
  3:{ exfalso. exact (build_no_panic l t buf' (zlen data) Hb' Hvn ltac:(lia) Eb). }
  2:{ eexists. split; [reflexivity|]. cbn [f_item f_lbuf f_tbuf f_keep item_view omap].
      split; [reflexivity|]. split; [discriminate|]. split; [exact Hwl|]. split; [exact Hwt|].
      intros kb Hkb; discriminate. }
  destruct (build_sound l t buf' (zlen data) p Hb' Hvn ltac:(lia) Eb)
    as [_ [Hpb [Hpv [_ [_ [Hvr [Hii [_ [Hvi Hvp]]]]]]]]].
  eexists. split; [reflexivity|]. cbn [f_item f_lbuf f_tbuf f_keep item_view omap].
  assert (Hview : view_of (set_buf p data) = view_of p).
  { rewrite <- Htake. rewrite <- Hpb. apply view_of_set_buf.
    - lia.
    - rewrite Hpb. lia.
    - intros ii Hi. apply (Hii ii Hi). }
  rewrite Hview.
  assert (Hok : exists v, view_of p = Ok v).
  { unfold view_of. unfold view_payload, slice_to in *.
    destruct (zlen (p_buf p) <? p_valid p); [congruence|]. cbn [bind].
    unfold view_image in *. destruct (p_info p) as [ii|]; [|eexists; reflexivity].
    unfold slice_to in *. destruct (zlen (p_buf p) <? ii_image_size ii); [cbn [omap] in Hvi; congruence|].
    cbn [omap bind]. eexists; reflexivity. }
  destruct Hok as [v Hv]. rewrite Hv.
  split; [reflexivity|]. split; [discriminate|]. split; [exact Hwl|]. split; [exact Hwt|].
  intros kb Hkb; discriminate.
Qed.
