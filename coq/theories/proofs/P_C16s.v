(* C16 -- the methods of gen/CameraSrc.v (translated from cameleon/src/camera.rs on every run) are the
   hand-written methods of model/Camera.v, as functions of the failure plan and the state (pointwise:
   no functional extensionality). *)
From Cam Require Import Outcome CameraProto Camera CamOps CameraSrc P_C16.

(* unfold the vocabulary, the translated methods and the model's methods down to the monad; the literals of the
   source (TLParamsLocked := 1 / 0, DEFAULT_BUFFER_CAP = 5) are evaluated *)
Ltac unfold_all :=
  cbv [src_params_ctxt src_cam_open src_cam_load src_cam_start src_cam_stop src_cam_close src_DEFAULT_BUFFER_CAP
       ok_unit ok_value ok_receiver err_StreamError_InStreaming_into err_CameleonError_GenApiContextMissing
       strm_is_loop_running ctxt_is_none cond_not ctrl_open ctrl_close ctrl_enable_streaming ctrl_disable_streaming
       strm_open strm_close strm_stop_streaming_loop channel strm_start_streaming_loop ctrl_genapi Ctxt_from_xml
       assign_ctxt_some if_let_ctxt_else if_let_ctxt ParamsCtxt_mk ctxt_clear_cache node_defined unsupported
       expect_node expect_node_set_value expect_node_execute];
  change (tl_bit 1) with (Some true); change (tl_bit 0) with (Some false); change (5 =? 0) with false;
  cbv [params_ctxt cam_open cam_load cam_start cam_stop cam_close tl_read_back
       bindM get need ret fail panic do_op emit ctxt_loaded orb].

(* case analysis on exactly what the code branches on: the bits of the state, the plan at the operations
   reached, cap = 0 (crunch of P_C16.v) *)
Ltac split_state s :=
  destruct s as [[oc os cx en tl aq lr tc bk tf] tr ops att fl];
  try (destruct cx as [[nt ns np ny nz nm ct cs cp cy cb ht]|]).

Ltac solve_eq := crunch; reflexivity.

Lemma params_ctxt_src pl s : src_params_ctxt pl s = params_ctxt pl s.
Proof. unfold_all. split_state s; reflexivity. Qed.

Lemma cam_open_src pl s : src_cam_open pl s = cam_open pl s.
Proof. reflexivity. Qed.

Lemma cam_load_src x pl s : src_cam_load x pl s = cam_load x pl s.
Proof. unfold_all. destruct (pl (m_ops s)); [reflexivity|]. destruct (x_parses x); reflexivity. Qed.

Lemma cam_stop_src pl s : src_cam_stop pl s = cam_stop pl s.
Proof. unfold_all. split_state s; solve_eq. Qed.

Lemma cam_start_src cap pl s : src_cam_start cap pl s = cam_start true cap pl s.
Proof. unfold_all. split_state s; solve_eq. Qed.

Lemma bind_ext {A B} (m m' : M A) (f f' : A -> M B) pl s :
  m pl s = m' pl s -> (forall a pl' s', f a pl' s' = f' a pl' s') -> bindM m f pl s = bindM m' f' pl s.
Proof. intros E H. unfold bindM. rewrite E. destruct (m' pl s) as [[a| |] s1]; [apply H|reflexivity|reflexivity]. Qed.

Lemma cam_close_src pl s : src_cam_close pl s = cam_close pl s.
Proof.
  unfold src_cam_close, cam_close. apply bind_ext; [apply cam_stop_src|].
  intros _ pl' s'. unfold_all. split_state s'; solve_eq.
Qed.

(* ---------------------------------------------------------------------- *)
(* sessions executed with the TRANSLATED methods                           *)

Definition src_call_body (c : call) : M Z :=
  match c with
  | COpen => src_cam_open
  | CLoad x => src_cam_load x
  | CStart cap => src_cam_start cap
  | CStop => src_cam_stop
  | CClose => src_cam_close
  | _ => call_body true c        (* the application's parameter accesses and the environment: not in camera.rs *)
  end.

Definition src_run_call (c : call) (pl : nat -> option Z) (s : cam) : callres :=
  let '(r, m) := src_call_body c pl {| m_cam := s; m_tr := []; m_ops := 0%nat; m_att := []; m_failed := None |} in
  {| r_res := r; r_effs := m_tr m; r_nops := m_ops m; r_atts := m_att m; r_failed := m_failed m; r_cam := m_cam m |}.

Fixpoint src_run_from (pl : nat -> nat -> option Z) (i : nat) (s : cam) (cs : list call) : list callres :=
  match cs with
  | [] => []
  | c :: q => let r := src_run_call c (pl i) s in r :: src_run_from pl (S i) (r_cam r) q
  end.

Definition src_run (pl : nat -> nat -> option Z) (cs : list call) : list callres := src_run_from pl 0%nat cam0 cs.

Lemma src_call_body_eq c pl m : src_call_body c pl m = call_body true c pl m.
Proof.
  destruct c; cbn [src_call_body call_body];
    first [apply cam_open_src|apply cam_load_src|apply cam_start_src|apply cam_stop_src|apply cam_close_src|reflexivity].
Qed.

Lemma src_run_call_eq c pl s : src_run_call c pl s = run_call true c pl s.
Proof. unfold src_run_call, run_call. rewrite src_call_body_eq. reflexivity. Qed.

Lemma src_run_from_eq pl cs : forall i s, src_run_from pl i s cs = run_from true pl i s cs.
Proof.
  induction cs as [|c cs IH]; intros i s; cbn [src_run_from run_from]; [reflexivity|].
  rewrite src_run_call_eq, IH. reflexivity.
Qed.

Theorem src_run_eq pl cs : src_run pl cs = run true pl cs.
Proof. apply src_run_from_eq. Qed.

(* composed with the ordering theorem: every session run with the translated methods obeys the protocol *)
Theorem order_of_source pl cs : proto_ok (trace_of (src_run pl cs)).
Proof. rewrite src_run_eq. apply (order true). Qed.

(* the device log of a translated start in which nothing fails, on a camera that is not streaming and holds a
   conforming description: exactly these accesses in this order (the mirror write only where the description
   declares it; a host-side TLParamsLocked is written without a device access) *)
Theorem start_of_source cap plc s c0 :
  loop_running s = false -> ctxt s = Some c0 -> n_tl c0 = true -> n_start c0 = true -> cap <> 0 ->
  (forall j, plc j = None) ->
  let r := src_run_call (CStart cap) plc s in
  r_res r = Ok (-1) /\
  r_atts r = EnableStreaming ::
             match h_tl c0 with
             | Some _ => []
             | None => tl_read_effs c0 ++ SetTLParamsLocked true :: (if n_copy c0 then [CopyTL true] else [])
             end ++ [AcqStart; LoopStart] /\
  filter is_access (r_effs r) = r_atts r /\
  loop_running (r_cam r) = true.
Proof.
  intros Hl Hc Ht Hs Hcap Hpl. cbv zeta. rewrite src_run_call_eq.
  destruct s as [oc os cx en tl aq lr tc bk tf]. destruct c0 as [nt ns np ny nz nm ct cs cp cy cb ht].
  unfold tl_read_effs. cbn [loop_running ctxt n_tl n_start n_copy h_tl n_mask c_tl] in *. subst lr cx nt ns.
  unfold run_call.
  cbv [call_body cam_start tl_read_back params_ctxt bindM get need ret fail panic do_op emit ctxt_loaded].
  crunch; try congruence; repeat split.
Qed.

(* and of a translated stop / close of a streaming camera *)
Theorem stop_of_source plc s c0 :
  loop_running s = true -> ctxt s = Some c0 -> n_tl c0 = true -> n_stop c0 = true ->
  (forall j, plc j = None) ->
  let r := src_run_call CStop plc s in
  r_res r = Ok (-1) /\
  r_atts r = [LoopStop; AcqStop] ++
             match h_tl c0 with
             | Some _ => []
             | None => tl_read_effs c0 ++ SetTLParamsLocked false :: (if n_copy c0 then [CopyTL false] else [])
             end ++ [DisableStreaming] /\
  filter is_access (r_effs r) = r_atts r /\
  loop_running (r_cam r) = false.
Proof.
  intros Hl Hc Ht Hs Hpl. cbv zeta. rewrite src_run_call_eq.
  destruct s as [oc os cx en tl aq lr tc bk tf]. destruct c0 as [nt ns np ny nz nm ct cs cp cy cb ht].
  unfold tl_read_effs. cbn [loop_running ctxt n_tl n_stop n_copy h_tl n_mask c_tl] in *. subst lr cx nt np.
  unfold run_call.
  cbv [call_body cam_stop tl_read_back params_ctxt bindM get need ret fail panic do_op emit ctxt_loaded].
  crunch; try congruence; repeat split.
Qed.

(* non-vacuity: the intended session through the translated methods *)
Example source_example :
  let rs := src_run no_failure [COpen; CLoad xml_good; CStart 3; CParams; CStop; CClose] in
  trace_of rs =
    [CtrlOpen; StrmOpen; GenApiFetch; LoadCtxt true true true false false false false;
     EnableStreaming; SetTLParamsLocked true; AcqStart; LoopStart;
     LoopStop; AcqStop; SetTLParamsLocked false; DisableStreaming;
     CtrlClose; StrmClose; ClearCache] /\
  map r_res rs = [Ok (-1); Ok (-1); Ok (-1); Ok 1; Ok (-1); Ok (-1)] /\
  map r_res (src_run (plan_of [(2%nat, 2%nat, 1)]) [COpen; CLoad xml_good; CStart 3]) =
    [Ok (-1); Ok (-1); Err (E_GENAPI_DEVICE + 1)] /\
  map r_res (src_run no_failure [COpen; CLoad xml_good; CStart 0]) = [Ok (-1); Ok (-1); Panic].
Proof. vm_compute. repeat split. Qed.
