(* C15, read-back of the stream parameters: on a conforming device StreamParams::from_control
   returns exactly what a successful enable_streaming programmed.
   Uses the transaction lemmas of proofs/P_C06.v (ctl_write_exact, range_in, seg_read_in) and the
   conforming-read theorem of proofs/P_C14b.v (conforming_reads_conf, ctl_read_honest, segs_sep). *)
From Cam Require Import Outcome Bytes Chunks Cmd Ack CmdLayout Control ManifestSpec P_C09 P_C06 P_C07 P_C14b
  P_C15 P_C15b.

(* ---- a write into a list leaves every disjoint window as it was ------------------------------- *)

Lemma frame_nat (m d : list Z) (o i n : nat) : (o + length d <= length m)%nat ->
  (i + n <= o \/ o + length d <= i)%nat ->
  firstn n (skipn i (firstn o m ++ d ++ skipn (o + length d) m)) = firstn n (skipn i m).
Proof.
  intros Hb [H|H].
  - rewrite skipn_app, firstn_length_le by lia. replace (i - o)%nat with O by lia. cbn [skipn].
    rewrite firstn_app. rewrite skipn_length, firstn_length_le by lia.
    replace (n - (o - i))%nat with O by lia. cbn [firstn]. rewrite app_nil_r.
    rewrite skipn_firstn_comm, firstn_firstn. f_equal. lia.
  - rewrite skipn_app, firstn_length_le by lia.
    rewrite (skipn_all2 (firstn o m)) by (rewrite firstn_length_le; lia). cbn [app].
    rewrite skipn_app. rewrite (skipn_all2 d) by lia. cbn [app].
    rewrite skipn_skipn_add. do 2 f_equal. lia.
Qed.

Lemma frame_set_at (m d : list Z) o i n : 0 <= o -> o + zlen d <= zlen m -> 0 <= i -> 0 <= n ->
  (i + n <= o \/ o + zlen d <= i) -> take n (drop i (set_at o m d)) = take n (drop i m).
Proof.
  intros Ho Hb Hi Hn H. unfold set_at, take, drop. unfold zlen in *.
  replace (Z.to_nat (o + Z.of_nat (length d))) with (Z.to_nat o + length d)%nat by lia.
  apply frame_nat; lia.
Qed.

Lemma seg_read_frame_gen (pre post : list (Z * list Z)) b (m mi : list Z) a n : zlen mi = zlen m ->
  (b <= a -> a - b + n <= zlen m -> take n (drop (a - b) mi) = take n (drop (a - b) m)) ->
  seg_read (pre ++ (b, mi) :: post) a n = seg_read (pre ++ (b, m) :: post) a n.
Proof.
  intros Hz Ho. induction pre as [|[b0 m0] pre' IH]; cbn [app seg_read].
  - rewrite Hz. destruct ((b <=? a) && (a - b + n <=? zlen m)) eqn:E; [|reflexivity].
    apply andb_true_iff in E as [E1 E2]. apply Z.leb_le in E1, E2. f_equal. apply Ho; lia.
  - rewrite IH. reflexivity.
Qed.

Lemma seg_apart_len b0 (m0 : list Z) b1 (m1 m1' : list Z) : zlen m1' = zlen m1 ->
  seg_apart b0 m0 (b1, m1) -> seg_apart b0 m0 (b1, m1').
Proof. unfold seg_apart. cbn [fst snd]. intros ->. auto. Qed.

Lemma segs_sep_gen (pre post : list (Z * list Z)) b (m mi : list Z) : zlen mi = zlen m ->
  segs_sep (pre ++ (b, m) :: post) -> segs_sep (pre ++ (b, mi) :: post).
Proof.
  intros Hz. induction pre as [|[b0 m0] pre' IH]; cbn [app segs_sep].
  - intros (A & B & C & D). rewrite Hz. repeat split; try assumption.
    eapply Forall_impl; [|exact C]. intros s. unfold seg_apart. rewrite Hz. auto.
  - intros (A & B & C & D). repeat split; try assumption; [|apply IH; exact D].
    apply Forall_app in C as [C1 C2]. apply Forall_app. split; [exact C1|].
    inversion C2 as [|x l Hx Hl]; subst. constructor; [|exact Hl].
    eapply seg_apart_len; [|exact Hx]. exact Hz.
Qed.

(* ---- the device memory with the SIRM block [sirm, sirm + 48) inside one segment ------------------ *)

Section Block.
Variables (pre post : list (Z * list Z)) (b sirm : Z) (m : list Z).
Hypothesis Hri : range_in (pre ++ (b, m) :: post) sirm 48 pre b m post.
Hypothesis Hs0 : 0 <= sirm.
Hypothesis Hs64 : sirm + 48 <= 2 ^ 64.

Definition blk (mi : list Z) : list (Z * list Z) := pre ++ (b, mi) :: post.
Definition put (off v : Z) (mi : list Z) : list Z := set_at (sirm - b + off) mi (le_bytes 4 v).
Definition get (off n : Z) (mi : list Z) : list Z := take n (drop (sirm - b + off) mi).

(* mi has the length of m and differs from it at most inside the block *)
Definition same_out (mi : list Z) : Prop :=
  zlen mi = zlen m /\
  forall i n, 0 <= i -> 0 <= n -> (i + n <= sirm - b \/ sirm - b + 48 <= i) ->
              take n (drop i mi) = take n (drop i m).

Lemma blk_bounds : b <= sirm /\ sirm + 48 <= b + zlen m /\ Forall (away sirm 48) pre.
Proof. destruct Hri as [_ [H1 [_ [H2 H3]]]]. auto. Qed.

Lemma same_out_refl : same_out m.
Proof. split; [reflexivity|]. intros; reflexivity. Qed.

Lemma zlen_put off v mi : zlen mi = zlen m -> 0 <= off -> off + 4 <= 48 -> zlen (put off v mi) = zlen m.
Proof.
  intros Hz H0 H1. destruct blk_bounds as [B1 [B2 _]]. unfold put.
  rewrite zlen_set_at; [exact Hz|lia|rewrite zlen_le_bytes; lia].
Qed.

Lemma same_out_put off v mi : same_out mi -> 0 <= off -> off + 4 <= 48 -> same_out (put off v mi).
Proof.
  intros [Hz Ho] H0 H1. destruct blk_bounds as [B1 [B2 _]]. split; [apply zlen_put; assumption|].
  intros i n Hi Hn Hd. rewrite <- (Ho i n Hi Hn Hd). unfold put.
  apply frame_set_at; try lia; rewrite zlen_le_bytes; lia.
Qed.

Lemma get_put_same off v mi : zlen mi = zlen m -> 0 <= off -> off + 4 <= 48 ->
  get off 4 (put off v mi) = le_bytes 4 v.
Proof.
  intros Hz H0 H1. destruct blk_bounds as [B1 [B2 _]]. unfold get, put.
  rewrite <- (zlen_le_bytes 4 v) at 1. change (Z.of_nat 4) with 4.
  pose proof (rd_set_same (sirm - b + off) mi (le_bytes 4 v)) as X. rewrite zlen_le_bytes in X.
  apply X; lia.
Qed.

Lemma get_put_other off1 n off2 v mi : zlen mi = zlen m -> 0 <= off2 -> off2 + 4 <= 48 -> 0 <= off1 -> 0 <= n ->
  (off1 + n <= off2 \/ off2 + 4 <= off1) -> get off1 n (put off2 v mi) = get off1 n mi.
Proof.
  intros Hz H0 H1 H2 Hn Hd. destruct blk_bounds as [B1 [B2 _]]. unfold get, put.
  apply frame_set_at; try lia; rewrite zlen_le_bytes; lia.
Qed.

Lemma range_blk mi off : same_out mi -> 0 <= off -> off + 4 <= 48 ->
  range_in (blk mi) (sirm + off) 4 pre b mi post.
Proof.
  intros [Hz _] H0 H1. destruct blk_bounds as [B1 [B2 B3]]. unfold range_in, blk.
  split; [reflexivity|]. split; [lia|]. split; [lia|]. split; [lia|].
  eapply Forall_impl; [|exact B3]. intros s Hs. unfold away in *. lia.
Qed.

(* reading inside the block *)
Lemma mem_read_blk mi off n : same_out mi -> 0 <= off -> 0 < n -> off + n <= 48 ->
  mem_read (blk mi) (sirm + off) n = Some (get off n mi).
Proof.
  intros [Hz _] H0 Hn H1. destruct blk_bounds as [B1 [B2 B3]]. unfold mem_read.
  destruct (sirm + off <? 0) eqn:E1; [lia|]. destruct (2 ^ 64 <? sirm + off + n) eqn:E2; [lia|]. cbn [orb].
  destruct (n <=? 0) eqn:E3; [lia|].
  assert (R : range_in (blk mi) sirm 48 pre b mi post).
  { unfold range_in, blk. split; [reflexivity|]. split; [lia|]. split; [lia|]. split; [lia|exact B3]. }
  rewrite (seg_read_in _ _ _ _ _ _ _ (sirm + off) n R) by lia. unfold get. do 3 f_equal. lia.
Qed.

Lemma mem_read_frame mi a n : same_out mi -> (a + n <= sirm \/ sirm + 48 <= a) ->
  mem_read (blk mi) a n = mem_read (blk m) a n.
Proof.
  intros Hs Hd. unfold mem_read. destruct ((a <? 0) || (2 ^ 64 <? a + n)); [reflexivity|].
  destruct (n <=? 0) eqn:E; [reflexivity|]. destruct Hs as [Hz Ho]. unfold blk.
  apply seg_read_frame_gen; [exact Hz|]. intros H1 H2. apply Ho; lia.
Qed.

Lemma segs_sep_blk mi : zlen mi = zlen m -> segs_sep (blk m) -> segs_sep (blk mi).
Proof. intros Hz. apply segs_sep_gen. exact Hz. Qed.


(* ---- total runs on good conforming states ----------------------------------------------------------- *)

Definition runs_to {A} (P : st -> Prop) (mm : M A) (Q : outcome A -> st -> Prop) : Prop :=
  forall s, P s -> exists r s', mm s = (r, s') /\ Q r s'.

Lemma rt_bind {A B} (P : st -> Prop) (mm : M A) (v : A) (Q : st -> Prop) (f : A -> M B) R :
  runs_to P mm (fun r s => r = Ok v /\ Q s) -> runs_to Q (f v) R -> runs_to P (bindM mm f) R.
Proof.
  intros H1 H2 s Hs. destruct (H1 s Hs) as (r & s1 & E & -> & Hq).
  destruct (H2 s1 Hq) as (r2 & s2 & E2 & HR). exists r2, s2. split; [|exact HR].
  unfold bindM. rewrite E. exact E2.
Qed.

Lemma rt_ret {A} (P : st -> Prop) (a : A) : runs_to P (ret a) (fun r s => r = Ok a /\ P s).
Proof. intros s Hs. exists (Ok a), s. auto. Qed.

Lemma rt_conseq {A} (P P' : st -> Prop) (mm : M A) (Q Q' : outcome A -> st -> Prop) :
  runs_to P' mm Q' -> (forall s, P s -> P' s) -> (forall r s, Q' r s -> Q r s) -> runs_to P mm Q.
Proof. intros H HP HQ s Hs. destruct (H s (HP s Hs)) as (r & s' & E & Hq). exists r, s'. auto. Qed.

Lemma rt_reg_addr (P : st -> Prop) base off : base + off < 2 ^ 64 ->
  runs_to P (reg_addr base off) (fun r s => r = Ok (base + off) /\ P s).
Proof.
  intros H s Hs. unfold reg_addr. destruct (base + off <? 2 ^ 64) eqn:E; [|lia]. exists (Ok (base + off)), s. auto.
Qed.

Variables (sbrm ucap : Z).

(* what the handle may have cached *)
Definition cache_ok (c : ctl) : Prop :=
  (c_sirm c = None \/ c_sirm c = Some sirm) /\ (c_sbrm c = None \/ c_sbrm c = Some (sbrm, ucap)).

(* good conforming state (proofs/P_C14b.v: opened, 12 < max_ack < 2^32, request id u16, ABRM cached,
   separated segments inside the address space, 24 <= max_cmd, retry >= 1, every transaction plan
   conforming) whose device memory is segs *)
Definition atg (segs : list (Z * list Z)) (s : st) : Prop :=
  good_conf s /\ w_segs (snd s) = segs /\ cache_ok (fst s).

Lemma rt_read segs a n d : mem_read segs a n = Some d ->
  runs_to (atg segs) (read_reg a n) (fun r s => r = Ok (of_le d) /\ atg segs s).
Proof.
  intros Hm [c w] [G [S Hc]]. destruct conforming_reads_conf as [[_ [_ H3]] H4].
  destruct (H4 a n (c, w) d G) as [[c' w'] E]; [rewrite S; exact Hm|].
  destruct (H3 a n (c, w) (Ok d) (c', w') G E) as [G' [S' _]].
  pose proof G as [Gh _].
  destruct (ctl_read_honest a n c w (Ok d) c' w' Gh E) as (_ & _ & _ & _ & Hcfg & _).
  destruct Hcfg as (_ & _ & _ & _ & _ & C6 & C7 & _).
  exists (Ok (of_le d)), (c', w'). split; [unfold read_reg, bindM; rewrite E; reflexivity|].
  split; [reflexivity|]. split; [exact G'|]. split; [congruence|].
  unfold cache_ok in *. cbn [fst] in *. rewrite C6, C7. exact Hc.
Qed.

Lemma rt_field segs a (n : nat) v : u_field segs a n v ->
  runs_to (atg segs) (read_reg a (Z.of_nat n)) (fun r s => r = Ok v /\ atg segs s).
Proof.
  intros [Hv Hm]. eapply rt_conseq; [apply (rt_read _ _ _ _ Hm)|auto|].
  intros r s [-> Hs]. split; [|exact Hs]. rewrite of_le_le_bytes by exact Hv. reflexivity.
Qed.

Lemma rt_write mi off v : same_out mi -> 0 <= off -> off + 4 <= 48 ->
  runs_to (atg (blk mi)) (write_reg (sirm + off) 4 v) (fun r s => r = Ok tt /\ atg (blk (put off v mi)) s).
Proof.
  intros Hso H0 H1 [c w] [G [S Hcache]]. cbn [snd] in S.
  destruct G as ((Ho & Hma & Hid & Hab & Hw & Hsep) & Hmc & HR & Hc).
  assert (Z4 : zlen (le_bytes 4 v) = 4) by apply zlen_le_bytes.
  destruct (ctl_write_exact c w (sirm + off) (le_bytes 4 v) pre b mi post Ho ltac:(lia) Hid HR Hc (le_bytes_ok 4 v))
    as (c' & w' & Hrun & Hsegs & _ & Hc' & Hst & _).
  { rewrite S, Z4. apply range_blk; assumption. } { lia. } { rewrite Z4. lia. }
  destruct Hst as (S1 & S2 & S3 & S4 & S5 & _ & S7 & S8 & S9).
  exists (Ok tt), (c', w'). split; [exact Hrun|]. split; [reflexivity|].
  assert (Eseg : w_segs w' = blk (put off v mi)).
  { rewrite Hsegs. unfold blk, put. replace (sirm + off - b) with (sirm - b + off) by lia. reflexivity. }
  split; [|split; [exact Eseg|unfold cache_ok in *; cbn [fst] in *; rewrite S8, S9; exact Hcache]].
  unfold good_conf, good_honest.
  rewrite S1, S3, S4, S5, S7, S2. repeat split; try assumption; try apply wrapu16_range; try lia.
  - eapply conf_whonest. exact Hc'.
  - rewrite Eseg. rewrite S in Hsep. unfold blk in *. eapply segs_sep_gen; [|exact Hsep].
    destruct Hso as [Hz _]. rewrite zlen_put; auto.
Qed.

(* ---- the registers the handle and from_control read --------------------------------------------------- *)

Definition off_ok (x : Z * Z) : Prop := 0 <= fst x /\ fst x + 4 <= 48.

Definition puts (L : list (Z * Z)) (mi : list Z) : list Z := fold_left (fun acc x => put (fst x) (snd x) acc) L mi.

Lemma same_out_puts L : Forall off_ok L -> forall mi, same_out mi -> same_out (puts L mi).
Proof.
  induction 1 as [|x L [H0 H1] _ IH]; intros mi Hs; [exact Hs|]. cbn [puts fold_left].
  apply IH. apply same_out_put; assumption.
Qed.

Lemma rt_write_seq L : Forall off_ok L -> forall mi, same_out mi ->
  runs_to (atg (blk mi)) (write_seq sirm L) (fun r s => r = Ok tt /\ atg (blk (puts L mi)) s).
Proof.
  induction 1 as [|[off v] L [H0 H1] _ IH]; intros mi Hs; cbn [write_seq].
  - apply rt_ret.
  - cbn [fst snd] in *. eapply rt_bind; [|apply IH; apply same_out_put; eassumption].
    unfold wstep1, sirm_reg. cbn [fst snd].
    eapply rt_bind; [apply rt_reg_addr; lia|]. apply rt_write; assumption.
Qed.

(* bootstrap registers: SBRM address (ABRM 0x1D8), U3V capability (SBRM+4, bit 0 = SIRM available),
   SIRM address (SBRM+0x20); for from_control also the device capability (ABRM 0x1C4) and the maximum
   device response time (ABRM 0x1CC).  None of them overlaps the SIRM block. *)
Variables (devcap resp : Z).
Hypothesis Hb472 : u_field (blk m) 472 8 sbrm.
Hypothesis Hsb4 : sbrm + 4 < 2 ^ 64.
Hypothesis Hbcap : u_field (blk m) (sbrm + 4) 8 ucap.
Hypothesis Hodd : Z.odd ucap = true.
Hypothesis Hsb32 : sbrm + 32 < 2 ^ 64.
Hypothesis Hbsirm : u_field (blk m) (sbrm + 32) 8 sirm.
Hypothesis Hb452 : u_field (blk m) 452 8 devcap.
Hypothesis Hb460 : u_field (blk m) 460 4 resp.
Hypothesis A472 : 472 + 8 <= sirm \/ sirm + 48 <= 472.
Hypothesis A452 : 452 + 8 <= sirm \/ sirm + 48 <= 452.
Hypothesis A460 : 460 + 4 <= sirm \/ sirm + 48 <= 460.
Hypothesis Acap : sbrm + 4 + 8 <= sirm \/ sirm + 48 <= sbrm + 4.
Hypothesis Asirm : sbrm + 32 + 8 <= sirm \/ sirm + 48 <= sbrm + 32.

Lemma field_frame mi a (n : nat) v : same_out mi -> (a + Z.of_nat n <= sirm \/ sirm + 48 <= a) ->
  u_field (blk m) a n v -> u_field (blk mi) a n v.
Proof. intros Hs Ha [Hv Hm]. split; [exact Hv|]. rewrite mem_read_frame; assumption. Qed.

Lemma rt_abrm_sbrm mi : same_out mi ->
  runs_to (atg (blk mi)) abrm_sbrm (fun r s => r = Ok (sbrm, ucap) /\ atg (blk mi) s).
Proof.
  intros Hs. unfold abrm_sbrm.
  eapply rt_bind; [apply (rt_field _ 472 8 sbrm); apply field_frame; auto|].
  eapply rt_bind; [apply rt_reg_addr; exact Hsb4|].
  eapply rt_bind; [apply (rt_field _ (sbrm + 4) 8 ucap); apply field_frame; auto|].
  apply rt_ret.
Qed.

Lemma rt_sirm_address mi : same_out mi ->
  runs_to (atg (blk mi)) (sbrm_sirm_address (sbrm, ucap)) (fun r s => r = Ok (Some sirm) /\ atg (blk mi) s).
Proof.
  intros Hs. unfold sbrm_sirm_address. cbn [fst snd]. rewrite Hodd.
  eapply rt_bind; [apply rt_reg_addr; exact Hsb32|].
  eapply rt_bind; [apply (rt_field _ (sbrm + 32) 8 sirm); apply field_frame; auto|].
  apply rt_ret.
Qed.

Lemma rt_upd_cache f :
  (forall c w, good_conf (c, w) -> good_conf (f c, w)) -> (forall c, cache_ok c -> cache_ok (f c)) -> forall segs,
  runs_to (atg segs) (upd_ctl f) (fun r s => r = Ok tt /\ atg segs s).
Proof.
  intros Hf Hg segs [c w] [G [S Hc]]. exists (Ok tt), (f c, w). split; [reflexivity|]. split; [reflexivity|].
  split; [apply Hf; exact G|]. split; [exact S|apply Hg; exact Hc].
Qed.

Lemma rt_bind_any {A B} (P : st -> Prop) (mm : M A) (Q : st -> Prop) (f : A -> M B) R :
  runs_to P mm (fun r s => (exists v, r = Ok v) /\ Q s) -> (forall v, runs_to Q (f v) R) -> runs_to P (bindM mm f) R.
Proof.
  intros H1 H2 s Hs. destruct (H1 s Hs) as (r & s1 & E & [v ->] & Hq).
  destruct (H2 v s1 Hq) as (r2 & s2 & E2 & HR). exists r2, s2. split; [|exact HR].
  unfold bindM. rewrite E. exact E2.
Qed.

Lemma rt_h_abrm segs : runs_to (atg segs) h_abrm (fun r s => (exists v, r = Ok v) /\ atg segs s).
Proof.
  intros [c1 w1] [G1 S1]. unfold h_abrm. unfold bindM at 1, get_ctl. cbn [fst].
  pose proof G1 as ((_ & _ & _ & Hab & _) & _).
  destruct (c_abrm c1) as [cap|] eqn:Eab; [|contradiction].
  exists (Ok cap), (c1, w1). split; [reflexivity|]. split; [exists cap; reflexivity|split; assumption].
Qed.

Lemma rt_h_sbrm : runs_to (atg (blk m)) h_sbrm (fun r s => r = Ok (sbrm, ucap) /\ atg (blk m) s).
Proof.
  intros [c w] Hat. pose proof Hat as [_ [_ [_ Hc]]]. cbn [fst] in Hc.
  unfold h_sbrm. unfold bindM at 1, get_ctl. cbn [fst].
  destruct Hc as [E|E]; rewrite E.
  - assert (RT : runs_to (atg (blk m))
       (do _ <- h_abrm; do s <- abrm_sbrm;
        do _ <- upd_ctl (fun c => {| c_opened := c_opened c; c_next := c_next c; c_retry := c_retry c;
                                     c_max_cmd := c_max_cmd c; c_max_ack := c_max_ack c; c_buflen := c_buflen c;
                                     c_abrm := c_abrm c; c_sbrm := Some s; c_sirm := c_sirm c |});
        ret s) (fun r s => r = Ok (sbrm, ucap) /\ atg (blk m) s)).
    { eapply rt_bind_any; [apply rt_h_abrm|]. intros _.
      eapply rt_bind; [apply rt_abrm_sbrm; apply same_out_refl|].
      eapply rt_bind; [apply rt_upd_cache; [intros c0 w0 G0; exact G0|]|apply rt_ret].
      intros c0 [H1 _]. split; [exact H1|right; reflexivity]. }
    apply RT. exact Hat.
  - exists (Ok (sbrm, ucap)), (c, w). split; [reflexivity|]. split; [reflexivity|exact Hat].
Qed.

Lemma rt_h_sirm : runs_to (atg (blk m)) h_sirm (fun r s => r = Ok sirm /\ atg (blk m) s).
Proof.
  intros [c w] Hat. pose proof Hat as [_ [_ [Hc1 _]]]. cbn [fst] in Hc1.
  unfold h_sirm. unfold bindM at 1, get_ctl. cbn [fst].
  destruct Hc1 as [E|E]; rewrite E.
  - assert (RT : runs_to (atg (blk m))
       (do s <- h_sbrm; do oa <- sbrm_sirm_address s;
        match oa with
        | None => fail CE_INVALID_DEVICE
        | Some a =>
          do _ <- upd_ctl (fun c => {| c_opened := c_opened c; c_next := c_next c; c_retry := c_retry c;
                                       c_max_cmd := c_max_cmd c; c_max_ack := c_max_ack c; c_buflen := c_buflen c;
                                       c_abrm := c_abrm c; c_sbrm := c_sbrm c; c_sirm := Some a |});
          ret a
        end) (fun r s => r = Ok sirm /\ atg (blk m) s)).
    { eapply rt_bind; [apply rt_h_sbrm|].
      eapply rt_bind; [apply rt_sirm_address; apply same_out_refl|]. cbv beta iota.
      eapply rt_bind; [apply rt_upd_cache; [intros c0 w0 G0; exact G0|]|apply rt_ret].
      intros c0 [_ H2]. split; [right; reflexivity|exact H2]. }
    apply RT. exact Hat.
  - exists (Ok sirm), (c, w). split; [reflexivity|]. split; [reflexivity|exact Hat].
Qed.

(* ---- the SIRM registers before enable_streaming --------------------------------------------------------- *)

Variables (info ctrl rl rp rt : Z).
Hypothesis Hinfo : u_field (blk m) (sirm + 0) 4 info.
Hypothesis Hctrl : u_field (blk m) (sirm + 4) 4 ctrl.
Hypothesis Hrl : u_field (blk m) (sirm + 16) 4 rl.
Hypothesis Hrp : u_field (blk m) (sirm + 8) 8 rp.
Hypothesis Hrt : u_field (blk m) (sirm + 20) 4 rt.

Definition kexp : Z := info / 2 ^ 24.
Definition m1 : list Z := if Z.odd ctrl then put 4 0 m else m.
Definition the_plan : sirm_plan := plan_of (2 ^ kexp) rl rp rt.
Definition m_final : list Z := puts (plan_regs the_plan) m1.

Lemma same_out_m1 : same_out m1.
Proof. unfold m1. destruct (Z.odd ctrl); [apply same_out_put; [apply same_out_refl|lia|lia]|apply same_out_refl]. Qed.

Lemma get_m1 off n : 0 <= off -> 0 <= n -> (off + n <= 4 \/ 8 <= off) -> get off n m1 = get off n m.
Proof.
  intros H0 Hn Hd. unfold m1. destruct (Z.odd ctrl); [|reflexivity].
  apply get_put_other; try reflexivity; lia.
Qed.

Lemma field_blk mi off (n : nat) v : same_out mi -> get off (Z.of_nat n) mi = get off (Z.of_nat n) m ->
  0 <= off -> 0 < Z.of_nat n -> off + Z.of_nat n <= 48 ->
  u_field (blk m) (sirm + off) n v -> u_field (blk mi) (sirm + off) n v.
Proof.
  intros Hs Hg H0 Hn H1 [Hv Hm]. split; [exact Hv|].
  rewrite mem_read_blk in Hm by (try apply same_out_refl; lia).
  rewrite mem_read_blk by (try exact Hs; lia). congruence.
Qed.

Lemma plan_regs_ok p : Forall off_ok (plan_regs p).
Proof. unfold plan_regs. repeat constructor; cbn [fst]; lia. Qed.

Lemma rt_fail {A} (P : st -> Prop) e (R : outcome A -> st -> Prop) : (forall s, P s -> R (Err e) s) -> runs_to P (fail e) R.
Proof. intros H s Hs. exists (Err e), s. split; [reflexivity|auto]. Qed.

Definition enable_post (r : outcome unit) (s : st) : Prop :=
  (r = Err CE_INVALID_DEVICE /\ ~ (kexp < 32 /\ programmable (2 ^ kexp) rl rp rt) /\ atg (blk m1) s) \/
  (r = Ok tt /\ kexp < 32 /\ programmable (2 ^ kexp) rl rp rt /\ atg (blk m_final) s).

Lemma info_range : 0 <= kexp.
Proof. destruct Hinfo as [[H _] _]. unfold kexp. apply Z.div_pos; lia. Qed.

Theorem enable_run : runs_to (atg (blk m)) enable_alt enable_post.
Proof.
  pose proof same_out_m1 as Hs1. pose proof info_range as Hk0.
  unfold enable_alt. eapply rt_bind; [apply rt_h_sirm|]. unfold sirm_reg.
  eapply rt_bind; [apply rt_reg_addr; lia|].
  eapply rt_bind; [apply (rt_field _ (sirm + 4) 4 ctrl Hctrl)|].
  eapply rt_bind with (v := tt) (Q := atg (blk m1)).
  { unfold m1. destruct (Z.odd ctrl); [apply rt_write; [apply same_out_refl|lia|lia]|apply rt_ret]. }
  eapply rt_bind; [apply rt_reg_addr; lia|].
  eapply rt_bind; [apply (rt_field _ (sirm + 0) 4 info);
                   apply field_blk; [exact Hs1|apply get_m1; lia|lia|lia|lia|exact Hinfo]|].
  cbv zeta. fold kexp. destruct (32 <=? kexp) eqn:E32.
  { apply rt_fail. intros s Hs. left. split; [reflexivity|]. split; [intros [H _]; lia|exact Hs]. }
  eapply rt_bind; [apply rt_reg_addr; lia|].
  eapply rt_bind; [apply (rt_field _ (sirm + 16) 4 rl);
                   apply field_blk; [exact Hs1|apply get_m1; lia|lia|lia|lia|exact Hrl]|].
  eapply rt_bind; [apply rt_reg_addr; lia|].
  eapply rt_bind; [apply (rt_field _ (sirm + 8) 8 rp);
                   apply field_blk; [exact Hs1|apply get_m1; lia|lia|lia|lia|exact Hrp]|].
  eapply rt_bind; [apply rt_reg_addr; lia|].
  eapply rt_bind; [apply (rt_field _ (sirm + 20) 4 rt);
                   apply field_blk; [exact Hs1|apply get_m1; lia|lia|lia|lia|exact Hrt]|].
  intros s Hs.
  assert (Hk : 0 <= kexp <= 31) by lia.
  assert (Hp : 0 <= rp < 2 ^ 64) by (destruct Hrp as [H _]; rewrite pow256_8 in H; exact H).
  destruct (compute_sizes_run (2 ^ kexp) rl rp rt s (pow2_range kexp Hk) Hp) as [[Pr E]|[Pr E]];
    unfold bindM; rewrite E.
  - destruct (rt_write_seq (plan_regs the_plan) (plan_regs_ok _) m1 Hs1 s Hs) as (r & s' & E2 & -> & Hat).
    exists (Ok tt), s'. split; [exact E2|]. right. split; [reflexivity|]. split; [lia|]. split; [exact Pr|exact Hat].
  - exists (Err CE_INVALID_DEVICE), s. split; [reflexivity|]. left. split; [reflexivity|].
    split; [intros [_ H]; contradiction|exact Hs].
Qed.

(* ---- the registers after a successful run ------------------------------------------------------------------ *)

Lemma Hl0 : 0 <= rl. Proof. destruct Hrl as [[H _] _]. exact H. Qed.
Lemma Ht0 : 0 <= rt. Proof. destruct Hrt as [[H _] _]. exact H. Qed.

Ltac zl := repeat (apply zlen_put; [|lia|lia]); (assumption || reflexivity).
Ltac getc := repeat first [ rewrite get_put_same by (first [zl|lia]) | rewrite get_put_other by (first [zl|lia]) ].

Lemma final_field off v : kexp < 32 -> programmable (2 ^ kexp) rl rp rt ->
  In (off, v) (plan_regs the_plan) -> u_field (blk m_final) (sirm + off) 4 v.
Proof.
  intros Hk Pr Hin. pose proof same_out_m1 as Hs1. pose proof info_range as Hk0.
  assert (Hz1 : zlen m1 = zlen m) by apply Hs1.
  assert (Hp : 0 <= rp) by (destruct Hrp as [[H _] _]; exact H).
  assert (Hal : 1 <= 2 ^ kexp <= 2 ^ 31) by (apply pow2_range; lia).
  pose proof (plan_covers (2 ^ kexp) rl rp rt Hal Hl0 Hp Ht0 Pr) as C. fold the_plan in C.
  assert (Hsf : same_out m_final) by (apply same_out_puts; [apply plan_regs_ok|exact Hs1]).
  unfold plan_regs in Hin. cbn [In] in Hin.
  assert (R : forall o x, (o, x) = (off, v) -> 0 <= x < 2 ^ 32 -> 0 <= o -> o + 4 <= 48 ->
              get o 4 m_final = le_bytes 4 x -> u_field (blk m_final) (sirm + off) 4 v).
  { intros o x Eq Hx H0 H1 Hg. inversion Eq; subst. split; [rewrite pow256_4; exact Hx|].
    change (Z.of_nat 4) with 4. rewrite mem_read_blk by (try exact Hsf; lia). rewrite Hg. reflexivity. }
  unfold m_final, puts, plan_regs in R. cbn [fold_left fst snd] in R.
  destruct Hin as [H|[H|[H|[H|[H|[H|[H|[]]]]]]]]; (eapply R; [exact H| |lia|lia|]);
    try apply C; try (change (2 ^ 32) with 4294967296; lia); getc; reflexivity.
Qed.

Theorem params_run : kexp < 32 -> programmable (2 ^ kexp) rl rp rt ->
  runs_to (atg (blk m_final)) stream_params
    (fun r s => r = Ok [sp_leader the_plan; sp_trailer the_plan; sp_size the_plan; sp_count the_plan;
                        sp_final1 the_plan; sp_final2 the_plan] /\ atg (blk m_final) s).
Proof.
  intros Hk Pr. pose proof same_out_m1 as Hs1.
  assert (Hsf : same_out m_final) by (apply same_out_puts; [apply plan_regs_ok|exact Hs1]).
  assert (F : forall off v, In (off, v) (plan_regs the_plan) -> u_field (blk m_final) (sirm + off) 4 v)
    by (intros; apply final_field; assumption).
  unfold stream_params.
  eapply rt_bind; [apply (rt_field _ 452 8 devcap); apply field_frame; auto|].
  eapply rt_bind; [apply rt_abrm_sbrm; exact Hsf|].
  eapply rt_bind; [apply rt_sirm_address; exact Hsf|]. cbv beta iota. unfold sirm_reg.
  eapply rt_bind; [apply rt_reg_addr; lia|].
  eapply rt_bind; [apply (rt_field _ (sirm + 24) 4 (sp_leader the_plan)); apply F; unfold plan_regs; cbn [In]; auto 10|].
  eapply rt_bind; [apply rt_reg_addr; lia|].
  eapply rt_bind; [apply (rt_field _ (sirm + 44) 4 (sp_trailer the_plan)); apply F; unfold plan_regs; cbn [In]; auto 10|].
  eapply rt_bind; [apply rt_reg_addr; lia|].
  eapply rt_bind; [apply (rt_field _ (sirm + 28) 4 (sp_size the_plan)); apply F; unfold plan_regs; cbn [In]; auto 10|].
  eapply rt_bind; [apply rt_reg_addr; lia|].
  eapply rt_bind; [apply (rt_field _ (sirm + 32) 4 (sp_count the_plan)); apply F; unfold plan_regs; cbn [In]; auto 10|].
  eapply rt_bind; [apply rt_reg_addr; lia|].
  eapply rt_bind; [apply (rt_field _ (sirm + 36) 4 (sp_final1 the_plan)); apply F; unfold plan_regs; cbn [In]; auto 10|].
  eapply rt_bind; [apply rt_reg_addr; lia|].
  eapply rt_bind; [apply (rt_field _ (sirm + 40) 4 (sp_final2 the_plan)); apply F; unfold plan_regs; cbn [In]; auto 10|].
  eapply rt_bind; [apply (rt_field _ 460 4 resp); apply field_frame; auto|].
  apply rt_ret.
Qed.

(* from_control on any memory that differs from m inside the block only *)
Lemma params_run_gen mi v1 v2 v3 v4 v5 v6 : same_out mi ->
  u_field (blk mi) (sirm + 24) 4 v1 -> u_field (blk mi) (sirm + 44) 4 v2 -> u_field (blk mi) (sirm + 28) 4 v3 ->
  u_field (blk mi) (sirm + 32) 4 v4 -> u_field (blk mi) (sirm + 36) 4 v5 -> u_field (blk mi) (sirm + 40) 4 v6 ->
  runs_to (atg (blk mi)) stream_params (fun r s => r = Ok [v1; v2; v3; v4; v5; v6] /\ atg (blk mi) s).
Proof.
  intros Hsf F1 F2 F3 F4 F5 F6. unfold stream_params.
  eapply rt_bind; [apply (rt_field _ 452 8 devcap); apply field_frame; auto|].
  eapply rt_bind; [apply rt_abrm_sbrm; exact Hsf|].
  eapply rt_bind; [apply rt_sirm_address; exact Hsf|]. cbv beta iota. unfold sirm_reg.
  eapply rt_bind; [apply rt_reg_addr; lia|]. eapply rt_bind; [apply (rt_field _ (sirm + 24) 4 v1 F1)|].
  eapply rt_bind; [apply rt_reg_addr; lia|]. eapply rt_bind; [apply (rt_field _ (sirm + 44) 4 v2 F2)|].
  eapply rt_bind; [apply rt_reg_addr; lia|]. eapply rt_bind; [apply (rt_field _ (sirm + 28) 4 v3 F3)|].
  eapply rt_bind; [apply rt_reg_addr; lia|]. eapply rt_bind; [apply (rt_field _ (sirm + 32) 4 v4 F4)|].
  eapply rt_bind; [apply rt_reg_addr; lia|]. eapply rt_bind; [apply (rt_field _ (sirm + 36) 4 v5 F5)|].
  eapply rt_bind; [apply rt_reg_addr; lia|]. eapply rt_bind; [apply (rt_field _ (sirm + 40) 4 v6 F6)|].
  eapply rt_bind; [apply (rt_field _ 460 4 resp); apply field_frame; auto|].
  apply rt_ret.
Qed.

(* disable_streaming *)
Lemma disable_run : runs_to (atg (blk m)) ctl_disable_streaming (fun r s => r = Ok tt /\ atg (blk (put 4 0 m)) s).
Proof.
  unfold ctl_disable_streaming. eapply rt_bind; [apply rt_h_sirm|]. unfold sirm_reg.
  eapply rt_bind; [apply rt_reg_addr; lia|]. apply rt_write; [apply same_out_refl|lia|lia].
Qed.

(* C15_params_readback *)
Theorem params_readback c w c' w' : good_conf (c, w) -> w_segs w = blk m -> cache_ok c ->
  ctl_enable_streaming (c, w) = (Ok tt, (c', w')) ->
  kexp < 32 /\ programmable (2 ^ kexp) rl rp rt /\
  (forall s0 : st, compute_sizes (2 ^ kexp) rl rp rt s0 = (Ok the_plan, s0)) /\
  covers (2 ^ kexp) rl rp rt the_plan /\
  w_segs w' = blk m_final /\
  u_field (w_segs w') (sirm + 4) 4 1 /\
  (forall off v, In (off, v) (plan_regs the_plan) -> u_field (w_segs w') (sirm + off) 4 v) /\
  exists s'', stream_params (c', w') =
              (Ok [sp_leader the_plan; sp_trailer the_plan; sp_size the_plan; sp_count the_plan;
                   sp_final1 the_plan; sp_final2 the_plan], s'').
Proof.
  intros G S Hc H. rewrite enable_as_seq in H.
  destruct (enable_run (c, w) (conj G (conj S Hc))) as (r & s' & E & [[-> _]|[-> [Hk [Pr Hat]]]]);
    rewrite E in H; [discriminate H|].
  apply pair_inj in H as [_ ->]. pose proof Hat as [G' [S' _]]. cbn [snd] in S'.
  pose proof info_range as Hk0.
  assert (Hp : 0 <= rp < 2 ^ 64) by (destruct Hrp as [X _]; rewrite pow256_8 in X; exact X).
  split; [exact Hk|]. split; [exact Pr|]. split.
  { intros s0. apply (compute_sizes_ok_iff kexp rl rp rt s0 ltac:(lia) Hp). exact Pr. }
  split. { apply plan_covers; [apply pow2_range; lia|apply Hl0|lia|apply Ht0|exact Pr]. }
  split; [exact S'|]. rewrite S'.
  assert (F : forall off v, In (off, v) (plan_regs the_plan) -> u_field (blk m_final) (sirm + off) 4 v)
    by (intros; apply final_field; assumption).
  split; [apply F; unfold plan_regs; cbn [In]; auto 10|]. split; [exact F|].
  destruct (params_run Hk Pr (c', w') Hat) as (r & s'' & E2 & -> & _). exists s''. exact E2.
Qed.

End Block.

(* the hypotheses of params_readback are satisfiable: the standard device image of the check
   (ABRM at 0, SBRM at 0x10000, SIRM at 0x20000), leader 52 / payload 1000 / trailer 64, k = 3,
   stream enabled *)
Definition ex_abrm : list Z := set_at 472 (repeat 0 480) (le_bytes 8 65536).
Definition ex_sbrm : list Z := set_at 32 (set_at 4 (repeat 0 256) (le_bytes 8 1)) (le_bytes 8 131072).
Definition ex_sirm : list Z :=
  set_at 20 (set_at 16 (set_at 8 (set_at 4 (set_at 0 (repeat 0 256) (le_bytes 4 (3 * 2 ^ 24))) (le_bytes 4 1))
    (le_bytes 8 1000)) (le_bytes 4 52)) (le_bytes 4 64).
Definition ex_world : world :=
  {| w_segs := [(0, ex_abrm); (65536, ex_sbrm)] ++ (131072, ex_sirm) :: []; w_plans := []; w_replies := [];
     w_cur_ack := []; w_cur_rid := 0; w_log := []; w_open_err := None; w_writes := [] |}.

Lemma zl_abrm : zlen ex_abrm = 480. Proof. vm_compute. reflexivity. Qed.
Lemma zl_sbrm : zlen ex_sbrm = 256. Proof. vm_compute. reflexivity. Qed.
Lemma zl_sirm : zlen ex_sirm = 256. Proof. vm_compute. reflexivity. Qed.

Lemma ex_good : good_conf (ex_good_ctl, ex_world).
Proof.
  unfold good_conf, good_honest, ex_good_ctl, ex_world.
  cbn [c_opened c_max_ack c_next c_abrm c_max_cmd c_retry w_segs w_plans app].
  assert (Hsep : segs_sep [(0, ex_abrm); (65536, ex_sbrm); (131072, ex_sirm)]).
  { cbn [segs_sep]. rewrite zl_abrm, zl_sbrm, zl_sirm. unfold seg_apart. cbn [fst snd].
    rewrite ?zl_abrm, ?zl_sbrm, ?zl_sirm.
    repeat split; try lia; repeat constructor; cbn [fst snd]; rewrite ?zl_abrm, ?zl_sbrm, ?zl_sirm; lia. }
  split.
  - split; [reflexivity|]. split; [lia|]. split; [lia|]. split; [discriminate|].
    split; [apply Forall_nil|exact Hsep].
  - split; [lia|]. split; [lia|apply Forall_nil].
Qed.

Ltac uf := split; [vm_compute; split; [discriminate|reflexivity]|vm_compute; reflexivity].

Example readback_example :
  exists c' w' s'', ctl_enable_streaming (ex_good_ctl, ex_world) = (Ok tt, (c', w')) /\
    stream_params (c', w') = (Ok [56; 64; 65536; 0; 1000; 0], s'').
Proof.
  destruct (ctl_enable_streaming (ex_good_ctl, ex_world)) as [r [c' w']] eqn:E.
  assert (Er : r = Ok tt).
  { assert (X : fst (ctl_enable_streaming (ex_good_ctl, ex_world)) = Ok tt) by (vm_compute; reflexivity).
    rewrite E in X. exact X. }
  subst r. exists c', w'.
  pose proof (params_readback [(0, ex_abrm); (65536, ex_sbrm)] [] 131072 131072 ex_sirm) as T.
  specialize (T ltac:(unfold range_in; rewrite zl_sirm; repeat split; try lia;
                      repeat constructor; unfold away; cbn [fst snd]; rewrite ?zl_abrm, ?zl_sbrm; lia)
                ltac:(lia) ltac:(lia) 65536 1 0 0).
  specialize (T ltac:(uf) ltac:(lia) ltac:(uf) eq_refl ltac:(lia) ltac:(uf) ltac:(uf) ltac:(uf)
                ltac:(lia) ltac:(lia) ltac:(lia) ltac:(lia) ltac:(lia)
                (3 * 2 ^ 24) 1 52 1000 64 ltac:(uf) ltac:(uf) ltac:(uf) ltac:(uf) ltac:(uf)
                ex_good_ctl ex_world c' w' ex_good eq_refl).
  specialize (T ltac:(split; left; reflexivity) E).
  destruct T as (_ & _ & _ & _ & _ & _ & _ & s'' & Hs). exists s''. split; [reflexivity|].
  rewrite Hs. vm_compute. reflexivity.
Qed.
