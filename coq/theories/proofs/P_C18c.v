(* C18 — the complete answer: is_readable / is_writable against spec/AccessAnswer.v, for every
   acyclic store and every state (no evaluability hypothesis); consequences. *)
From Cam Require Import Outcome Access AccessSpec AccessAnswer P_C18.
Local Open Scope nat_scope.

(* ------------------------------------------------------------------ combinators *)
Lemma andl_seq a b : a &&? b = seq a b.
Proof. destruct a as [[|]| |]; reflexivity. Qed.

Lemma all_amp_amp f l : forall acc,
  all_amp f l acc = match first_failure (map f l) with
                    | Some x => x
                    | None => Ok (acc && forallb says_yes (map f l))%bool
                    end.
Proof.
  induction l as [|x r IH]; intros acc; simpl; [rewrite andb_true_r; reflexivity|].
  destruct (f x) as [b| |]; simpl; try reflexivity. rewrite IH.
  destruct (first_failure (map f r)); [reflexivity|].
  destruct b; simpl; rewrite ?andb_true_r, ?andb_false_r; reflexivity.
Qed.
Lemma all_amp_true_amp f l : all_amp f l true = amp (map f l).
Proof. rewrite all_amp_amp. unfold amp. destruct (first_failure _); reflexivity. Qed.

Lemma numeric_dec k : NumericKind k \/ ~ NumericKind k.
Proof. destruct (is_numeric k) eqn:E; [left; apply is_numeric_spec, E | right; intros H; apply is_numeric_spec in H; congruence]. Qed.
Lemma varkind_dec k : VarKind k \/ ~ VarKind k.
Proof. destruct (is_varkind k) eqn:E; [left; apply is_varkind_spec, E | right; intros H; apply is_varkind_spec in H; congruence]. Qed.
Lemma stringkind_dec k : StringKind k \/ ~ StringKind k.
Proof. destruct (is_istring k) eqn:E; [left; apply is_istring_spec, E | right; intros H; apply is_istring_spec in H; congruence]. Qed.
Lemma integerkind_dec k : IntegerKind k \/ ~ IntegerKind k.
Proof. destruct (is_iinteger k) eqn:E; [left; apply is_iinteger_spec, E | right; intros H; apply is_iinteger_spec in H; congruence]. Qed.

(* ------------------------------------------------------------------ references *)
Section Refs.
Variable s : store.
Variable A : nat -> outcome bool -> Prop.
Variable q : nat -> outcome bool.
Variable X : nat -> Prop.                       (* the references the hypotheses speak about *)
Hypothesis Hs : forall m, X m -> A m (q m).
Hypothesis Hc : forall m o, X m -> A m o -> q m = o.

Lemma num_r_sound m : X m -> NumAns s A m (nid_r s q m).
Proof.
  intros Hm. unfold NumAns, nid_r, kd. split; intros K.
  - rewrite (proj2 (is_numeric_spec _) K). auto.
  - destruct (is_numeric (kind_of s m)) eqn:E; [exfalso; apply K, is_numeric_spec, E | reflexivity].
Qed.
Lemma num_r_complete m o : X m -> NumAns s A m o -> nid_r s q m = o.
Proof.
  intros Hm [H1 H2]. unfold nid_r. destruct (numeric_dec (kd s m)) as [K|K].
  - unfold kd in K. rewrite (proj2 (is_numeric_spec _) K). auto.
  - destruct (is_numeric (kind_of s m)) eqn:E; [exfalso; apply K, is_numeric_spec, E | symmetry; auto].
Qed.
Lemma num_w_sound m : X m -> NumAns s A m (nid_w fixed_cfg s q m).
Proof.
  intros Hm. unfold NumAns, nid_w, kd. cbv zeta. split; intros K.
  - rewrite (proj2 (nid_w_kind_spec _) K). auto.
  - destruct (_ || _ || _)%bool eqn:E; [exfalso; apply K, nid_w_kind_spec, E | reflexivity].
Qed.
Lemma num_w_complete m o : X m -> NumAns s A m o -> nid_w fixed_cfg s q m = o.
Proof.
  intros Hm [H1 H2]. unfold nid_w. cbv zeta. destruct (numeric_dec (kd s m)) as [K|K].
  - unfold kd in K. rewrite (proj2 (nid_w_kind_spec _) K). auto.
  - destruct (_ || _ || _)%bool eqn:E; [exfalso; apply K, nid_w_kind_spec, E | symmetry; auto].
Qed.

Lemma iop_r_sound i : (forall m, i = INode m -> X m) -> IopAns s A true i (iop_r s q i).
Proof.
  intros H. unfold IopAns. destruct i as [v|k|m]; simpl;
    (split; [|split]; [intros v' E | intros k' E | intros m' E]; try discriminate; try reflexivity).
  injection E as <-. apply num_r_sound; auto.
Qed.
Lemma iop_r_complete i o : (forall m, i = INode m -> X m) -> IopAns s A true i o -> iop_r s q i = o.
Proof.
  intros H (H1 & H2 & H3). destruct i as [v|k|m]; simpl.
  - symmetry; eauto.
  - symmetry; eauto.
  - apply num_r_complete; auto.
Qed.
Lemma iop_w_sound i : (forall m, i = INode m -> X m) -> IopAns s A false i (iop_w fixed_cfg s q i).
Proof.
  intros H. unfold IopAns. destruct i as [v|k|m]; simpl;
    (split; [|split]; [intros v' E | intros k' E | intros m' E]; try discriminate; try reflexivity).
  injection E as <-. apply num_w_sound; auto.
Qed.
Lemma iop_w_complete i o : (forall m, i = INode m -> X m) -> IopAns s A false i o -> iop_w fixed_cfg s q i = o.
Proof.
  intros H (H1 & H2 & H3). destruct i as [v|k|m]; simpl.
  - symmetry; eauto.
  - symmetry; eauto.
  - apply num_w_complete; auto.
Qed.

Definition str_model (lit : bool) (i : iop) : outcome bool :=
  match i with IImm _ => Ok lit | ISlot _ => Ok true | INode m => str_q s q m end.
Lemma str_sound lit i : (forall m, i = INode m -> X m) -> StrAns s A lit i (str_model lit i).
Proof.
  intros H. unfold StrAns. destruct i as [v|k|m]; simpl.
  - split; [|split]; intros; try discriminate; reflexivity.
  - split; [|split]; intros; try discriminate; reflexivity.
  - split; [intros v [=]|]. split; [intros k [=]|]. intros m' [= <-]. unfold str_q, kd. split; intros K.
    + rewrite (proj2 (is_istring_spec _) K). auto.
    + destruct (is_istring (kind_of s m)) eqn:E; [exfalso; apply K, is_istring_spec, E | reflexivity].
Qed.
Lemma str_complete lit i o : (forall m, i = INode m -> X m) -> StrAns s A lit i o -> str_model lit i = o.
Proof.
  intros H (H1 & H2 & H3). destruct i as [v|k|m]; simpl.
  - symmetry; eauto.
  - symmetry; eauto.
  - destruct (H3 m eq_refl) as [S1 S2]. unfold str_q. destruct (stringkind_dec (kd s m)) as [K|K].
    + unfold kd in K. rewrite (proj2 (is_istring_spec _) K). auto.
    + destruct (is_istring (kind_of s m)) eqn:E; [exfalso; apply K, is_istring_spec, E | symmetry; auto].
Qed.

Lemma var_sound m : X m -> VarAns s A m (var_q s q m).
Proof.
  intros Hm. unfold VarAns, var_q, kd. split; intros K.
  - rewrite (proj2 (is_varkind_spec _) K). auto.
  - destruct (is_varkind (kind_of s m)) eqn:E; [exfalso; apply K, is_varkind_spec, E | reflexivity].
Qed.
Lemma var_complete m o : X m -> VarAns s A m o -> var_q s q m = o.
Proof.
  intros Hm [H1 H2]. unfold var_q. destruct (varkind_dec (kd s m)) as [K|K].
  - unfold kd in K. rewrite (proj2 (is_varkind_spec _) K). auto.
  - destruct (is_varkind (kind_of s m)) eqn:E; [exfalso; apply K, is_varkind_spec, E | symmetry; auto].
Qed.

Lemma list_sound (P : nat -> outcome bool -> Prop) (g : nat -> outcome bool) l :
  (forall m, In m l -> P m (g m)) -> Forall2 P l (map g l).
Proof. induction l; simpl; intros H; constructor; auto. Qed.
Lemma list_complete (P : nat -> outcome bool -> Prop) (g : nat -> outcome bool) l os :
  (forall m o, In m l -> P m o -> g m = o) -> Forall2 P l os -> os = map g l.
Proof.
  intros H F2. induction F2; simpl; [reflexivity|]. f_equal.
  - symmetry. apply H; simpl; auto.
  - apply IHF2. intros m o Hm. apply H; simpl; auto.
Qed.

End Refs.

(* ------------------------------------------------------------------ the base conditions *)
Lemma seq_assoc a b c : seq (seq a b) c = seq a (seq b c).
Proof. destruct a as [[|]| |]; reflexivity. Qed.
Lemma ctlq_ans bfi r d : ctlq bfi r d = ctl_ans bfi r d.
Proof. destruct r; reflexivity. Qed.
Ltac base_cases bfi nd :=
  unfold base_r, base_w, base_r_ans, base_w_ans, ctlq, ctl_ans;
  destruct (p_impl nd), (p_avail nd), (p_lock nd), (imposed nd); simpl;
  repeat match goal with |- context [bfi ?c] => destruct (bfi c) as [[|]| |]; simpl end; reflexivity.
Lemma base_r_model bfi nd : base_r bfi nd = base_r_ans bfi nd.
Proof. base_cases bfi nd. Qed.
Lemma base_w_model bfi nd : base_w bfi nd = base_w_ans bfi nd.
Proof. base_cases bfi nd. Qed.

Section Complete.
Variable s : store.
Variable rank : nat -> nat.
Hypothesis Hac : Acyclic s rank.
Variable F : nat.
Hypothesis HF : forall m, rank m < F.
Variable st : state.
Let CV := bool_from_id s F st.
Let XV := val s F st.

Lemma in_tail nd m :
  In m (match nkind nd with
        | KInteger | KFloat | KBoolean | KEnumeration | KCommand | KString => vsrc_refs (nvalue nd)
        | KIntConverter | KConverter => conv_pvalue nd :: vars nd
        | KIntSwissKnife | KSwissKnife => vars nd
        | _ => []
        end) -> In m (refs nd).
Proof. apply refs_tail. Qed.

(* everything one step needs about its environment *)
Section OneStep.
Variable n f : nat.
Variable nd : node.
Hypothesis E : nth_error s n = Some nd.
Hypothesis Hn : rank n < S f.

Lemma rank_ref m : In m (refs nd) -> rank m < f.
Proof. intros Hm. pose proof (Hac _ _ _ E Hm). lia. Qed.
Lemma baser_eq : base_r (bool_from_id s f st) nd = base_r_ans CV nd.
Proof. destruct (base_stable s rank Hac F HF st n nd f E Hn) as [_ ->]. apply base_r_model. Qed.
Lemma basew_eq : base_w (bool_from_id s f st) nd = base_w_ans CV nd.
Proof. destruct (base_stable s rank Hac F HF st n nd f E Hn) as [-> _]. apply base_w_model. Qed.
Lemma val_eq m : In m (refs nd) -> val s f st m = XV m.
Proof. intros Hm. apply (val_stable s rank Hac); [apply rank_ref, Hm | apply HF]. Qed.

(* the pIndex form, for either query *)
Definition pindex_model (rd : nat -> outcome bool) (g : iop -> outcome bool) idx es d : outcome bool :=
  if is_iinteger (kind_of s idx) then rd idx &&? (let? i := val s f st idx in g (select i es d))
  else Err E_INVALID_NODE.
Definition entry_choice (g : iop -> outcome bool) idx es d : outcome bool :=
  match XV idx with Ok i => g (select i es d) | _ => Ok true end.
Lemma pindex_shape rd g idx es d : In idx (refs nd) -> IntegerKind (kd s idx) ->
  pindex_model rd g idx es d = seq (rd idx) (after_value (XV idx) (entry_choice g idx es d)).
Proof.
  intros Hin K. unfold pindex_model, entry_choice, kd in *. rewrite (proj2 (is_iinteger_spec _) K), andl_seq.
  rewrite (val_eq idx Hin). destruct (XV idx); reflexivity.
Qed.
Lemma pindex_bad rd g idx es d : ~ IntegerKind (kd s idx) -> pindex_model rd g idx es d = Err E_KIND.
Proof.
  intros K. unfold pindex_model, kd in *.
  destruct (is_iinteger (kind_of s idx)) eqn:EK; [exfalso; apply K, is_iinteger_spec, EK | reflexivity].
Qed.

(* references of the three value shapes are references of the node *)
Lemma in_one K i m : nkind nd = K -> ValuedKind K -> nvalue nd = VOne i -> i = INode m -> In m (refs nd).
Proof. intros HK VK V ->. apply in_tail. rewrite HK, V. destruct K; simpl in VK; try contradiction; simpl; auto. Qed.
Lemma in_vsrc K m : nkind nd = K -> ValuedKind K -> In m (vsrc_refs (nvalue nd)) -> In m (refs nd).
Proof. intros HK VK H. apply in_tail. rewrite HK. destruct K; simpl in VK; try contradiction; exact H. Qed.
Lemma in_entry idx es d i m : In m (iop_refs (entry_for i es d)) -> In m (vsrc_refs (VPIndex idx es d)).
Proof. rewrite <- select_entry_for. intros H. simpl. right. eapply select_refs; eauto. Qed.

Definition Xr (m : nat) : Prop := In m (refs nd).

(* --- is_readable: the model's answer satisfies the relation, and only it does *)
Section ReadStep.
Variable rd : nat -> outcome bool.
Let A := RAns s CV XV.
Hypothesis Hs : forall m, Xr m -> A m (rd m).
Hypothesis Hc : forall m o, Xr m -> A m o -> rd m = o.
Let model := readable_step fixed_cfg s rd (val s f st) (bool_from_id s f st) nd.

Lemma string_model_r i :
  match i with INode m => str_q s rd m | _ => Ok true end = str_model s rd true i.
Proof. destruct i; reflexivity. Qed.

Lemma rstep_sound : A n model.
Proof.
  unfold A, model, readable_step. cbv zeta. rewrite baser_eq, !andl_seq.
  destruct (nkind nd) eqn:K; simpl sk_checks_vars; cbv iota;
    try (eapply RA_noquery; eauto; fail);
    try (eapply RA_register; eauto; rewrite K; exact I).
  - (* Integer *)
    destruct (nvalue nd) as [i|p cs|idx es d] eqn:V.
    + eapply RA_one; eauto. apply (iop_r_sound s _ rd Xr Hs). intros m Hm. eapply in_one; eauto. exact I.
    + eapply RA_pvalue; eauto. apply (num_r_sound s _ rd Xr Hs). eapply in_vsrc; eauto; [exact I|rewrite V; simpl; auto].
    + change (if is_iinteger (kind_of s idx) then _ else _) with (pindex_model rd (iop_r s rd) idx es d).
      assert (Hidx : Xr idx) by (eapply in_vsrc; eauto; [exact I|rewrite V; simpl; auto]).
      destruct (integerkind_dec (kd s idx)) as [KI|KI].
      * rewrite pindex_shape by auto. eapply RA_pindex; eauto. { apply Hs, Hidx. }
        intros i Hi. unfold entry_choice. rewrite Hi, select_entry_for.
        apply (iop_r_sound s _ rd Xr Hs). intros m Hm. eapply in_vsrc; eauto; [exact I|].
        rewrite V. eapply in_entry. rewrite Hm. simpl; auto.
      * rewrite pindex_bad by auto. eapply RA_pindex_kind; eauto.
  - (* IntConverter *)
    rewrite seq_assoc, all_amp_true_amp. eapply RA_converter; eauto.
    + apply (var_sound s _ rd Xr Hs). apply in_tail. rewrite K. simpl; auto.
    + apply list_sound. intros m Hm. apply (var_sound s _ rd Xr Hs). apply in_tail. rewrite K. simpl; auto.
  - (* IntSwissKnife *)
    rewrite all_amp_true_amp. eapply RA_swissknife; eauto.
    apply list_sound. intros m Hm. apply (var_sound s _ rd Xr Hs). apply in_tail. rewrite K. exact Hm.
  - (* Float *)
    destruct (nvalue nd) as [i|p cs|idx es d] eqn:V.
    + eapply RA_one; eauto. apply (iop_r_sound s _ rd Xr Hs). intros m Hm. eapply in_one; eauto. exact I.
    + eapply RA_pvalue; eauto. apply (num_r_sound s _ rd Xr Hs). eapply in_vsrc; eauto; [exact I|rewrite V; simpl; auto].
    + change (if is_iinteger (kind_of s idx) then _ else _) with (pindex_model rd (iop_r s rd) idx es d).
      assert (Hidx : Xr idx) by (eapply in_vsrc; eauto; [exact I|rewrite V; simpl; auto]).
      destruct (integerkind_dec (kd s idx)) as [KI|KI].
      * rewrite pindex_shape by auto. eapply RA_pindex; eauto. { apply Hs, Hidx. }
        intros i Hi. unfold entry_choice. rewrite Hi, select_entry_for.
        apply (iop_r_sound s _ rd Xr Hs). intros m Hm. eapply in_vsrc; eauto; [exact I|].
        rewrite V. eapply in_entry. rewrite Hm. simpl; auto.
      * rewrite pindex_bad by auto. eapply RA_pindex_kind; eauto.
  - (* Converter *)
    rewrite seq_assoc, all_amp_true_amp. eapply RA_converter; eauto.
    + apply (var_sound s _ rd Xr Hs). apply in_tail. rewrite K. simpl; auto.
    + apply list_sound. intros m Hm. apply (var_sound s _ rd Xr Hs). apply in_tail. rewrite K. simpl; auto.
  - (* SwissKnife *)
    rewrite all_amp_true_amp. eapply RA_swissknife; eauto.
    apply list_sound. intros m Hm. apply (var_sound s _ rd Xr Hs). apply in_tail. rewrite K. exact Hm.
  - (* String *)
    destruct (nvalue nd) as [i| |] eqn:V.
    + rewrite string_model_r. eapply RA_string; eauto.
      apply (str_sound s _ rd Xr Hs). intros m Hm. eapply in_one; eauto. exact I.
    + eapply RA_shape; eauto. intros [i Hi]; rewrite V in Hi; discriminate.
    + eapply RA_shape; eauto. intros [i Hi]; rewrite V in Hi; discriminate.
  - (* Boolean *)
    destruct (nvalue nd) as [i| |] eqn:V.
    + eapply RA_one; eauto. apply (iop_r_sound s _ rd Xr Hs). intros m Hm. eapply in_one; eauto. exact I.
    + eapply RA_shape; eauto. intros [i Hi]; rewrite V in Hi; discriminate.
    + eapply RA_shape; eauto. intros [i Hi]; rewrite V in Hi; discriminate.
  - (* Enumeration *)
    destruct (nvalue nd) as [i| |] eqn:V.
    + eapply RA_one; eauto 6. apply (iop_r_sound s _ rd Xr Hs). intros m Hm. eapply in_one; eauto. exact I.
    + eapply RA_shape; eauto. intros [i Hi]; rewrite V in Hi; discriminate.
    + eapply RA_shape; eauto. intros [i Hi]; rewrite V in Hi; discriminate.
Qed.

Ltac same_node :=
  match goal with X : nth_error s n = Some ?nd' |- _ => rewrite E in X; injection X as <- end.
Ltac kinds H := repeat (destruct H as [H|H]); rewrite H.

Lemma rstep_complete o : A n o -> model = o.
Proof.
  unfold A, model, readable_step. cbv zeta. rewrite baser_eq, !andl_seq.
  intros H. inversion H; subst; try congruence; same_node.
  - (* no query *) match goal with K : _ \/ _ |- _ => kinds K; reflexivity end.
  - (* one *)
    match goal with K : _ \/ _ |- _ => rename K into HK end. match goal with V : nvalue nd = _ |- _ => rename V into HV end.
    assert (R : iop_r s rd i = o0).
    { apply (iop_r_complete s _ rd Xr Hc); auto. intros m Hm.
      repeat (destruct HK as [HK|HK]); eapply in_one; eauto; exact I. }
    kinds HK; rewrite HV, R; reflexivity.
  - (* pvalue *)
    match goal with K : _ \/ _ |- _ => rename K into HK end. match goal with V : nvalue nd = _ |- _ => rename V into HV end.
    assert (R : nid_r s rd p = o0).
    { apply (num_r_complete s _ rd Xr Hc); auto.
      destruct HK as [HK|HK]; eapply in_vsrc; eauto; try exact I; rewrite HV; simpl; auto. }
    kinds HK; rewrite HV, R; reflexivity.
  - (* pindex *)
    match goal with K : _ \/ _ |- _ => rename K into HK end. match goal with V : nvalue nd = _ |- _ => rename V into HV end.
    assert (Hidx : Xr idx) by (destruct HK as [HK|HK]; eapply in_vsrc; eauto; try exact I; rewrite HV; simpl; auto).
    assert (R : pindex_model rd (iop_r s rd) idx es d = seq oi (after_value (XV idx) oe)).
    { rewrite pindex_shape by auto. f_equal; [apply Hc; auto|].
      unfold entry_choice. destruct (XV idx) as [i| |] eqn:EX; simpl; try reflexivity.
      rewrite select_entry_for. apply (iop_r_complete s _ rd Xr Hc); auto.
      intros m Hm. destruct HK as [HK|HK]; eapply in_vsrc; eauto; try exact I;
        rewrite HV; eapply in_entry; rewrite Hm; simpl; auto. }
    unfold pindex_model in R. kinds HK; rewrite HV, R; reflexivity.
  - (* pindex, wrong kind *)
    match goal with K : _ \/ _ |- _ => rename K into HK end. match goal with V : nvalue nd = _ |- _ => rename V into HV end.
    assert (R : pindex_model rd (iop_r s rd) idx es d = Err E_KIND) by (apply pindex_bad; auto).
    unfold pindex_model in R. kinds HK; rewrite HV, R; reflexivity.
  - (* shape *)
    match goal with K : _ \/ _ |- _ => rename K into HK end.
    match goal with N : ~ IsOne _ |- _ => rename N into HN end.
    kinds HK; (destruct (nvalue nd) as [i| |]; [exfalso; apply HN; exists i; reflexivity | reflexivity | reflexivity]).
  - (* string *)
    match goal with K : nkind nd = _ |- _ => rewrite K end. match goal with V : nvalue nd = _ |- _ => rename V into HV end.
    rewrite HV, string_model_r. f_equal. apply (str_complete s _ rd Xr Hc); auto.
    intros m Hm. eapply in_one; eauto. exact I.
  - (* register *)
    match goal with K : RegisterKind _ |- _ => rename K into HK end.
    destruct (nkind nd); simpl in HK; try contradiction; reflexivity.
  - (* converter *)
    match goal with K : _ \/ _ |- _ => rename K into HK end.
    assert (P : var_q s rd (conv_pvalue nd) = op).
    { apply (var_complete s _ rd Xr Hc); auto. apply in_tail. destruct HK as [HK|HK]; rewrite HK; simpl; auto. }
    assert (L : os = map (var_q s rd) (vars nd)).
    { eapply list_complete; eauto. intros m o' Hm. apply (var_complete s _ rd Xr Hc).
      apply in_tail. destruct HK as [HK|HK]; rewrite HK; simpl; auto. }
    kinds HK; rewrite seq_assoc, all_amp_true_amp, P, L; reflexivity.
  - (* swiss knife *)
    match goal with K : _ \/ _ |- _ => rename K into HK end.
    assert (L : os = map (var_q s rd) (vars nd)).
    { eapply list_complete; eauto. intros m o' Hm. apply (var_complete s _ rd Xr Hc).
      apply in_tail. destruct HK as [HK|HK]; rewrite HK; exact Hm. }
    kinds HK; simpl sk_checks_vars; cbv iota; rewrite all_amp_true_amp, L; reflexivity.
Qed.

End ReadStep.

(* --- is_writable *)
Section WriteStep.
Variables wr rd : nat -> outcome bool.
Let AW := WAns s CV XV.
Let AR := RAns s CV XV.
Hypothesis Hws : forall m, Xr m -> AW m (wr m).
Hypothesis Hwc : forall m o, Xr m -> AW m o -> wr m = o.
Hypothesis Hrs : forall m, Xr m -> AR m (rd m).
Hypothesis Hrc : forall m o, Xr m -> AR m o -> rd m = o.
Let model := writable_step fixed_cfg s wr rd (val s f st) (bool_from_id s f st) nd.

Lemma string_model_w i :
  match i with INode m => str_q s wr m | ISlot _ => Ok true | IImm _ => Ok false end
  = str_model s wr false i.
Proof. destruct i; reflexivity. Qed.

Lemma pvalue_model p cs :
  (let? b := nid_w fixed_cfg s wr p in all_amp (nid_w fixed_cfg s wr) cs b)
  = amp (map (nid_w fixed_cfg s wr) (p :: cs)).
Proof.
  simpl. unfold amp. simpl. destruct (nid_w fixed_cfg s wr p) as [b| |]; simpl; try reflexivity.
  rewrite all_amp_amp. destruct (first_failure _); [reflexivity|]. destruct b; reflexivity.
Qed.

Lemma wstep_sound : AW n model.
Proof.
  unfold AW, model, writable_step. cbv zeta. rewrite basew_eq, !andl_seq.
  destruct (nkind nd) eqn:K; cbv iota;
    try (eapply WA_noquery; eauto; fail);
    try (eapply WA_formula; eauto; fail);
    try (eapply WA_register; eauto; rewrite K; exact I).
  - (* Integer *)
    destruct (nvalue nd) as [i|p cs|idx es d] eqn:V.
    + eapply WA_one; eauto. apply (iop_w_sound s _ wr Xr Hws). intros m Hm. eapply in_one; eauto. exact I.
    + rewrite pvalue_model. eapply WA_pvalue; eauto. apply list_sound. intros m Hm.
      apply (num_w_sound s _ wr Xr Hws). eapply in_vsrc; eauto; [exact I|rewrite V; exact Hm].
    + change (if is_iinteger (kind_of s idx) then _ else _) with (pindex_model rd (iop_w fixed_cfg s wr) idx es d).
      assert (Hidx : Xr idx) by (eapply in_vsrc; eauto; [exact I|rewrite V; simpl; auto]).
      destruct (integerkind_dec (kd s idx)) as [KI|KI].
      * rewrite pindex_shape by auto. eapply WA_pindex; eauto. { apply Hrs, Hidx. }
        intros i Hi. unfold entry_choice. rewrite Hi, select_entry_for.
        apply (iop_w_sound s _ wr Xr Hws). intros m Hm. eapply in_vsrc; eauto; [exact I|].
        rewrite V. eapply in_entry. rewrite Hm. simpl; auto.
      * rewrite pindex_bad by auto. eapply WA_pindex_kind; eauto.
  - (* IntConverter *)
    rewrite seq_assoc, all_amp_true_amp. eapply WA_converter; eauto.
    + apply (var_sound s _ wr Xr Hws). apply in_tail. rewrite K. simpl; auto.
    + apply list_sound. intros m Hm. apply (var_sound s _ rd Xr Hrs). apply in_tail. rewrite K. simpl; auto.
  - (* Float *)
    destruct (nvalue nd) as [i|p cs|idx es d] eqn:V.
    + eapply WA_one; eauto. apply (iop_w_sound s _ wr Xr Hws). intros m Hm. eapply in_one; eauto. exact I.
    + rewrite pvalue_model. eapply WA_pvalue; eauto. apply list_sound. intros m Hm.
      apply (num_w_sound s _ wr Xr Hws). eapply in_vsrc; eauto; [exact I|rewrite V; exact Hm].
    + change (if is_iinteger (kind_of s idx) then _ else _) with (pindex_model rd (iop_w fixed_cfg s wr) idx es d).
      assert (Hidx : Xr idx) by (eapply in_vsrc; eauto; [exact I|rewrite V; simpl; auto]).
      destruct (integerkind_dec (kd s idx)) as [KI|KI].
      * rewrite pindex_shape by auto. eapply WA_pindex; eauto. { apply Hrs, Hidx. }
        intros i Hi. unfold entry_choice. rewrite Hi, select_entry_for.
        apply (iop_w_sound s _ wr Xr Hws). intros m Hm. eapply in_vsrc; eauto; [exact I|].
        rewrite V. eapply in_entry. rewrite Hm. simpl; auto.
      * rewrite pindex_bad by auto. eapply WA_pindex_kind; eauto.
  - (* Converter *)
    rewrite seq_assoc, all_amp_true_amp. eapply WA_converter; eauto.
    + apply (var_sound s _ wr Xr Hws). apply in_tail. rewrite K. simpl; auto.
    + apply list_sound. intros m Hm. apply (var_sound s _ rd Xr Hrs). apply in_tail. rewrite K. simpl; auto.
  - (* String *)
    destruct (nvalue nd) as [i| |] eqn:V.
    + rewrite string_model_w. eapply WA_string; eauto.
      apply (str_sound s _ wr Xr Hws). intros m Hm. eapply in_one; eauto. exact I.
    + eapply WA_shape; eauto 6. intros [i Hi]; rewrite V in Hi; discriminate.
    + eapply WA_shape; eauto 6. intros [i Hi]; rewrite V in Hi; discriminate.
  - (* Boolean *)
    destruct (nvalue nd) as [i| |] eqn:V.
    + eapply WA_one; eauto 6. apply (iop_w_sound s _ wr Xr Hws). intros m Hm. eapply in_one; eauto. exact I.
    + eapply WA_shape; eauto. intros [i Hi]; rewrite V in Hi; discriminate.
    + eapply WA_shape; eauto. intros [i Hi]; rewrite V in Hi; discriminate.
  - (* Command *)
    destruct (nvalue nd) as [i| |] eqn:V.
    + eapply WA_one; eauto 7. apply (iop_w_sound s _ wr Xr Hws). intros m Hm. eapply in_one; eauto. exact I.
    + eapply WA_shape; eauto 6. intros [i Hi]; rewrite V in Hi; discriminate.
    + eapply WA_shape; eauto 6. intros [i Hi]; rewrite V in Hi; discriminate.
  - (* Enumeration *)
    destruct (nvalue nd) as [i| |] eqn:V.
    + eapply WA_one; eauto 7. apply (iop_w_sound s _ wr Xr Hws). intros m Hm. eapply in_one; eauto. exact I.
    + eapply WA_shape; eauto 6. intros [i Hi]; rewrite V in Hi; discriminate.
    + eapply WA_shape; eauto 6. intros [i Hi]; rewrite V in Hi; discriminate.
Qed.

Ltac same_node :=
  match goal with X : nth_error s n = Some ?nd' |- _ => rewrite E in X; injection X as <- end.
Ltac kinds H := repeat (destruct H as [H|H]); rewrite H.

Lemma wstep_complete o : AW n o -> model = o.
Proof.
  unfold AW, model, writable_step. cbv zeta. rewrite basew_eq, !andl_seq.
  intros H. inversion H; subst; try congruence; same_node.
  - (* no query *) match goal with K : _ \/ _ |- _ => kinds K; reflexivity end.
  - (* formula *) match goal with K : _ \/ _ |- _ => kinds K; reflexivity end.
  - (* one *)
    match goal with K : _ \/ _ |- _ => rename K into HK end. match goal with V : nvalue nd = _ |- _ => rename V into HV end.
    assert (R : iop_w fixed_cfg s wr i = o0).
    { apply (iop_w_complete s _ wr Xr Hwc); auto. intros m Hm.
      repeat (destruct HK as [HK|HK]); eapply in_one; eauto; exact I. }
    kinds HK; rewrite HV, R; reflexivity.
  - (* pvalue *)
    match goal with K : _ \/ _ |- _ => rename K into HK end. match goal with V : nvalue nd = _ |- _ => rename V into HV end.
    assert (L : os = map (nid_w fixed_cfg s wr) (p :: cs)).
    { eapply list_complete; eauto. intros m o' Hm. apply (num_w_complete s _ wr Xr Hwc).
      destruct HK as [HK|HK]; eapply in_vsrc; eauto; try exact I; rewrite HV; exact Hm. }
    kinds HK; rewrite HV, pvalue_model, L; reflexivity.
  - (* pindex *)
    match goal with K : _ \/ _ |- _ => rename K into HK end. match goal with V : nvalue nd = _ |- _ => rename V into HV end.
    assert (Hidx : Xr idx) by (destruct HK as [HK|HK]; eapply in_vsrc; eauto; try exact I; rewrite HV; simpl; auto).
    assert (R : pindex_model rd (iop_w fixed_cfg s wr) idx es d = seq oi (after_value (XV idx) oe)).
    { rewrite pindex_shape by auto. f_equal; [apply Hrc; auto|].
      unfold entry_choice. destruct (XV idx) as [i| |] eqn:EX; simpl; try reflexivity.
      rewrite select_entry_for. apply (iop_w_complete s _ wr Xr Hwc); auto.
      intros m Hm. destruct HK as [HK|HK]; eapply in_vsrc; eauto; try exact I;
        rewrite HV; eapply in_entry; rewrite Hm; simpl; auto. }
    unfold pindex_model in R. kinds HK; rewrite HV, R; reflexivity.
  - (* pindex, wrong kind *)
    match goal with K : _ \/ _ |- _ => rename K into HK end. match goal with V : nvalue nd = _ |- _ => rename V into HV end.
    assert (R : pindex_model rd (iop_w fixed_cfg s wr) idx es d = Err E_KIND) by (apply pindex_bad; auto).
    unfold pindex_model in R. kinds HK; rewrite HV, R; reflexivity.
  - (* shape *)
    match goal with K : _ \/ _ |- _ => rename K into HK end.
    match goal with N : ~ IsOne _ |- _ => rename N into HN end.
    kinds HK; (destruct (nvalue nd) as [i| |]; [exfalso; apply HN; exists i; reflexivity | reflexivity | reflexivity]).
  - (* string *)
    match goal with K : nkind nd = _ |- _ => rewrite K end. match goal with V : nvalue nd = _ |- _ => rename V into HV end.
    rewrite HV, string_model_w. f_equal. apply (str_complete s _ wr Xr Hwc); auto.
    intros m Hm. eapply in_one; eauto. exact I.
  - (* register *)
    match goal with K : RegisterKind _ |- _ => rename K into HK end.
    destruct (nkind nd); simpl in HK; try contradiction; reflexivity.
  - (* converter *)
    match goal with K : _ \/ _ |- _ => rename K into HK end.
    assert (P : var_q s wr (conv_pvalue nd) = op).
    { apply (var_complete s _ wr Xr Hwc); auto. apply in_tail. destruct HK as [HK|HK]; rewrite HK; simpl; auto. }
    assert (L : os = map (var_q s rd) (vars nd)).
    { eapply list_complete; eauto. intros m o' Hm. apply (var_complete s _ rd Xr Hrc).
      apply in_tail. destruct HK as [HK|HK]; rewrite HK; simpl; auto. }
    kinds HK; rewrite seq_assoc, all_amp_true_amp, P, L; reflexivity.
Qed.

End WriteStep.
End OneStep.

Lemma answers_fuel : forall fuel n, rank n < fuel ->
  (forall o, RAns s CV XV n o <-> is_readable fixed_cfg s fuel st n = o) /\
  (forall o, WAns s CV XV n o <-> is_writable fixed_cfg s fuel st n = o).
Proof.
  induction fuel as [|f IH]; intros n Hn; [lia|]. cbn [is_readable is_writable].
  destruct (nth_error s n) as [nd|] eqn:E.
  - assert (HR : forall m, Xr nd m -> rank m < f) by (intros m Hm; apply (rank_ref n f nd E Hn m Hm)).
    assert (Rs : forall m, Xr nd m -> RAns s CV XV m (is_readable fixed_cfg s f st m))
      by (intros m Hm; apply (IH m (HR m Hm)); reflexivity).
    assert (Rc : forall m o, Xr nd m -> RAns s CV XV m o -> is_readable fixed_cfg s f st m = o)
      by (intros m o Hm; apply (IH m (HR m Hm))).
    assert (Ws : forall m, Xr nd m -> WAns s CV XV m (is_writable fixed_cfg s f st m))
      by (intros m Hm; apply (IH m (HR m Hm)); reflexivity).
    assert (Wc : forall m o, Xr nd m -> WAns s CV XV m o -> is_writable fixed_cfg s f st m = o)
      by (intros m o Hm; apply (IH m (HR m Hm))).
    split; intros o; split.
    + apply (rstep_complete n f nd E Hn _ Rc).
    + intros <-. apply (rstep_sound n f nd E Hn _ Rs).
    + apply (wstep_complete n f nd E Hn _ _ Wc Rc).
    + intros <-. apply (wstep_sound n f nd E Hn _ _ Ws Rs).
  - split; intros o; split.
    + intros H; inversion H; subst; try congruence; reflexivity.
    + intros <-. apply RA_dangling, E.
    + intros H; inversion H; subst; try congruence; reflexivity.
    + intros <-. apply WA_dangling, E.
Qed.

End Complete.

(* ================================================================== results *)
Theorem readable_answer : forall s rank F st n o, Acyclic s rank -> (forall m, rank m < F) ->
  (is_readable fixed_cfg s F st n = o <-> RAns s (bool_from_id s F st) (val s F st) n o).
Proof. intros s rank F st n o Hac HF. symmetry. apply (answers_fuel s rank Hac F HF st F n (HF n)). Qed.

Theorem writable_answer : forall s rank F st n o, Acyclic s rank -> (forall m, rank m < F) ->
  (is_writable fixed_cfg s F st n = o <-> WAns s (bool_from_id s F st) (val s F st) n o).
Proof. intros s rank F st n o Hac HF. symmetry. apply (answers_fuel s rank Hac F HF st F n (HF n)). Qed.

(* ================================================================== the first failing control *)
Lemma andl_assoc a b c : (a &&? b) &&? c = a &&? (b &&? c).
Proof. destruct a as [[|]| |]; reflexivity. Qed.
Lemma andl_stops x y : x <> Ok true -> x &&? y = x.
Proof. destruct x as [[|]| |]; intros H; try reflexivity. congruence. Qed.

Definition HasReadQuery (k : kind) : Prop :=
  match k with KCommand | KRegister | KOther => False | _ => True end.
Definition HasGuardedWrite (k : kind) : Prop :=
  match k with KRegister | KOther | KIntSwissKnife | KSwissKnife => False | _ => True end.

Lemma readable_step_base_first c s rd vl bfi nd : HasReadQuery (nkind nd) ->
  exists X, readable_step c s rd vl bfi nd = base_r bfi nd &&? X.
Proof.
  intros H. unfold readable_step. cbv zeta.
  destruct (nkind nd); simpl in H; try contradiction; try destruct (sk_checks_vars c);
    rewrite ?andl_assoc; try (eexists; reflexivity).
  exists (Ok true). destruct (base_r bfi nd) as [[|]| |]; reflexivity.
Qed.
Lemma writable_step_base_first c s wr rd vl bfi nd : HasGuardedWrite (nkind nd) ->
  exists X, writable_step c s wr rd vl bfi nd = base_w bfi nd &&? X.
Proof.
  intros H. unfold writable_step. cbv zeta.
  destruct (nkind nd); simpl in H; try contradiction; rewrite ?andl_assoc; eexists; reflexivity.
Qed.

(* The answer starts with the base conditions, evaluated in the order pIsImplemented,
   pIsAvailable, [pIsLocked,] imposed mode: whatever they yield other than Ok(true) — Ok(false),
   an error of any class, a panic — IS the answer, for every configuration. *)
Theorem base_decides : forall c s rank F st n nd x, Acyclic s rank -> (forall m, rank m < F) ->
  nth_error s n = Some nd -> x <> Ok true ->
  (HasReadQuery (nkind nd) -> base_r_ans (bool_from_id s F st) nd = x -> is_readable c s F st n = x) /\
  (HasGuardedWrite (nkind nd) -> base_w_ans (bool_from_id s F st) nd = x -> is_writable c s F st n = x).
Proof.
  intros c s rank F st n nd x Hac HF E Hx.
  destruct (step_of s rank c F HF st n nd E) as (f & Hn & W & R).
  destruct (base_stable s rank Hac F HF st n nd f E Hn) as [BW BR].
  split; intros K B.
  - rewrite R. destruct (readable_step_base_first c s (is_readable c s f st) (val s f st)
                           (bool_from_id s f st) nd K) as [X ->].
    rewrite BR, base_r_model, B. apply andl_stops, Hx.
  - rewrite W. destruct (writable_step_base_first c s (is_writable c s f st) (is_readable c s f st)
                           (val s f st) (bool_from_id s f st) nd K) as [X ->].
    rewrite BW, base_w_model, B. apply andl_stops, Hx.
Qed.

Definition fails {A} (x : outcome A) : Prop := match x with Ok _ => False | _ => True end.
Lemma fails_not_true x : @fails bool x -> x <> Ok true.
Proof. destruct x; simpl; intros H; [contradiction|discriminate|discriminate]. Qed.

(* the three controlling nodes in evaluation order *)
Definition says_yes_ref (s : store) (F : nat) (st : state) (r : option nat) : Prop :=
  forall m, r = Some m -> bool_from_id s F st m = Ok true.

Lemma ctl_yes s F st r d : says_yes_ref s F st r -> d = true -> ctl_ans (bool_from_id s F st) r d = Ok true.
Proof. intros H ->. destruct r as [m|]; simpl; [apply H; reflexivity | reflexivity]. Qed.

Theorem first_failing_control : forall c s rank F st n nd x, Acyclic s rank -> (forall m, rank m < F) ->
  nth_error s n = Some nd -> fails x ->
  (forall i, p_impl nd = Some i -> bool_from_id s F st i = x ->
     (HasReadQuery (nkind nd) -> is_readable c s F st n = x) /\
     (HasGuardedWrite (nkind nd) -> is_writable c s F st n = x)) /\
  (forall a, says_yes_ref s F st (p_impl nd) -> p_avail nd = Some a -> bool_from_id s F st a = x ->
     (HasReadQuery (nkind nd) -> is_readable c s F st n = x) /\
     (HasGuardedWrite (nkind nd) -> is_writable c s F st n = x)) /\
  (forall l, says_yes_ref s F st (p_impl nd) -> says_yes_ref s F st (p_avail nd) ->
     p_lock nd = Some l -> bool_from_id s F st l = x ->
     HasGuardedWrite (nkind nd) -> is_writable c s F st n = x).
Proof.
  intros c s rank F st n nd x Hac HF E Hx.
  pose proof (base_decides c s rank F st n nd x Hac HF E (fails_not_true x Hx)) as [BR BW].
  assert (SX : forall y, seq x y = x) by (intros y; destruct x; simpl in Hx; [contradiction|reflexivity|reflexivity]).
  assert (NX : not_ans x = x) by (destruct x; simpl in Hx; [contradiction|reflexivity|reflexivity]).
  split; [|split].
  - intros i I S. split; intros K; [apply BR|apply BW]; auto;
      unfold base_r_ans, base_w_ans; rewrite I; unfold ctl_ans at 1; rewrite S; apply SX.
  - intros a YI A S. split; intros K; [apply BR|apply BW]; auto;
      unfold base_r_ans, base_w_ans; rewrite (ctl_yes s F st _ true YI eq_refl); cbn [seq];
      rewrite A; unfold ctl_ans at 1; rewrite S; apply SX.
  - intros l YI YA L S K. apply BW; auto.
    unfold base_w_ans. rewrite (ctl_yes s F st _ true YI eq_refl), (ctl_yes s F st _ true YA eq_refl). cbn [seq].
    rewrite L. unfold ctl_ans. rewrite S, NX. apply SX.
Qed.

(* ================================================================== writable, then readable? *)
(* A node reported writable has passed pIsImplemented and pIsAvailable, so its readability is the
   access-mode table applied to what it reads from. *)
Theorem writable_then_readable : forall c s rank F st n nd, Acyclic s rank -> (forall m, rank m < F) ->
  nth_error s n = Some nd -> is_writable c s F st n = Ok true ->
  (RegisterKind (nkind nd) ->
     is_readable c s F st n = Ok (reads (imposed nd) && reads (regmode nd))%bool) /\
  (nkind nd = KInteger \/ nkind nd = KFloat \/ nkind nd = KBoolean \/ nkind nd = KEnumeration \/
   nkind nd = KString ->
   (exists k, nvalue nd = VOne (ISlot k)) -> is_readable c s F st n = Ok (reads (imposed nd))).
Proof.
  intros c s rank F st n nd Hac HF E H.
  pose proof (writable_true_base s rank Hac c F HF st n nd E H) as B.
  destruct (step_of s rank c F HF st n nd E) as (f & Hn & _ & R).
  destruct (base_stable s rank Hac F HF st n nd f E Hn) as [_ BR].
  assert (BRv : base_r (bool_from_id s f st) nd = Ok (reads (imposed nd))).
  { rewrite BR. unfold base_w in B. rewrite !andl_true in B. destruct B as [[[I A] _] _].
    unfold base_r. rewrite I, A. simpl. destruct (imposed nd); reflexivity. }
  split.
  - intros K. rewrite R. unfold readable_step. cbv zeta. rewrite BRv.
    destruct (nkind nd); simpl in K; try contradiction;
      destruct (imposed nd), (regmode nd); reflexivity.
  - intros K [k V]. rewrite R. unfold readable_step. cbv zeta. rewrite BRv, V.
    repeat (destruct K as [K|K]); rewrite K; destruct (imposed nd); reflexivity.
Qed.

(* ================================================================== non-vacuity *)
(* N0 an IntReg whose read the device refuses (Err 30), N1 an Integer with pIsImplemented N0,
   N2 an Integer whose pIsAvailable refers to a node that does not exist (N9), N3 an Integer with
   pIsLocked N0 (implemented and available by default). *)
Definition err_store : store :=
  [ N KIntReg RW RW None None None (VOne (IImm 0)) 0 [] 1 0;
    N KInteger RW RO (Some 0) None None (VOne (ISlot 0)) 0 [] 1 0;
    N KInteger RW RO None (Some 9) None (VOne (ISlot 0)) 0 [] 1 0;
    N KInteger RW RO None None (Some 0) (VOne (ISlot 0)) 0 [] 1 0 ].
Definition err_state : state := fun n k => match n with 0 => Err E_DEVICE | _ => Ok 1%Z end.
Definition err_rank (n : nat) : nat := if Nat.ltb n 4 then S n else 0.

Lemma err_store_acyclic : Acyclic err_store err_rank.
Proof.
  intros n nd m E Hin.
  do 4 (destruct n as [|n]; [inversion E; subst; simpl in Hin;
        repeat (destruct Hin as [<-|Hin]; [vm_compute; lia|]); contradiction|]).
  destruct n; discriminate.
Qed.
Lemma err_rank_bound : forall m, err_rank m < 5.
Proof. intros m. unfold err_rank. destruct (Nat.ltb_spec m 4); lia. Qed.

Theorem failing_control_example :
  Acyclic err_store err_rank /\ (forall m, err_rank m < 5) /\
  map (fun n => is_readable fixed_cfg err_store 5 err_state n) [0; 1; 2; 3]
    = [Ok true; Err E_DEVICE; Err E_KIND; Ok true] /\
  map (fun n => is_writable fixed_cfg err_store 5 err_state n) [0; 1; 2; 3]
    = [Ok true; Err E_DEVICE; Err E_KIND; Err E_DEVICE] /\
  RAns err_store (bool_from_id err_store 5 err_state) (val err_store 5 err_state) 1 (Err E_DEVICE) /\
  WAns err_store (bool_from_id err_store 5 err_state) (val err_store 5 err_state) 3 (Err E_DEVICE).
Proof.
  split; [exact err_store_acyclic|]. split; [exact err_rank_bound|].
  split; [vm_compute; reflexivity|]. split; [vm_compute; reflexivity|]. split.
  - apply (readable_answer _ _ _ _ _ _ err_store_acyclic err_rank_bound). vm_compute. reflexivity.
  - apply (writable_answer _ _ _ _ _ _ err_store_acyclic err_rank_bound). vm_compute. reflexivity.
Qed.
