(* The statement-level translation of the device-description retrieval (gen/XmlFetchSrc.v, regenerated from
   cameleon/src/u3v/control_handle.rs and cameleon/src/u3v/register_map.rs on every run by tools/translate_xmlfetch.py,
   vocabulary model/XfOps.v, decoders gen/DecodersSrc.v) is the hand-written model model/XmlFetch.v: ManifestTable::entries,
   the selection loop of genapi (any number of entries: induction), verify_xml and the fetch - as functions of the state,
   for EVERY state (handle + device world), table content and oracle.

   Computations are compared pointwise ([m s = m' s] for every state s: no functional extensionality).  The only
   hypotheses are on explicit arguments: the table / first-entry address is not negative (it is a u64). *)
From Cam Require Import XfOps RustInt RegTables DecodersSrc XmlFetchSrc P_C14s ManifestSpec P_C14.
From Cam Require U3VTables.

(* ---- the monad, pointwise ------------------------------------------------------------------------------------------ *)
Lemma xbind_ret_l {A B} (a : A) (f : A -> X B) s : xbind (xret a) f s = f a s.
Proof. reflexivity. Qed.
Lemma xbind_fail_l {A B} e (f : A -> X B) s : xbind (xfail e) f s = xfail e s.
Proof. reflexivity. Qed.
Lemma xbind_panic_l {A B} (f : A -> X B) s : xbind xpanic f s = xpanic s.
Proof. reflexivity. Qed.
Lemma xbind_assoc {A B C} (m : X A) (g : A -> X B) (f : B -> X C) s :
  xbind (xbind m g) f s = xbind m (fun a => xbind (g a) f) s.
Proof. unfold xbind. destruct (m s) as [[a| |] s1]; reflexivity. Qed.
Lemma xbind_ret_r {A} (m : X A) s : xbind m (fun a => xret a) s = m s.
Proof. unfold xbind, xret. destruct (m s) as [[a| |] s1]; reflexivity. Qed.
Lemma xbind_head {A B} (m m' : X A) (f : A -> X B) s : (forall s, m s = m' s) -> xbind m f s = xbind m' f s.
Proof. intros H. unfold xbind. rewrite H. reflexivity. Qed.
(* same first operation: compare the continuations on what it returned *)
Lemma xbind_same {A B} (m : X A) (f f' : A -> X B) s :
  (forall a s1, m s = (Ok a, s1) -> f a s1 = f' a s1) -> xbind m f s = xbind m f' s.
Proof. intros H. unfold xbind. destruct (m s) as [[a| |] s1]; try reflexivity. apply H. reflexivity. Qed.
Lemma xbind_if {A B} (c : bool) (m m' : X A) (f : A -> X B) s :
  xbind (if c then m else m') f s = (if c then xbind m f else xbind m' f) s.
Proof. destruct c; reflexivity. Qed.

Ltac xn := repeat first [rewrite xbind_assoc | rewrite xbind_ret_l | rewrite xbind_fail_l | rewrite xbind_panic_l].
(* reading the handle's own state commutes with everything that does not change it *)
Lemma xbind_getx {B} (f : xctl -> X B) s : xbind get_x f s = f (fst s) s.
Proof. reflexivity. Qed.
Ltac xg := repeat first [rewrite xbind_assoc | rewrite xbind_ret_l | rewrite xbind_fail_l | rewrite xbind_panic_l
                        | rewrite xbind_getx].

(* ---- the vocabulary against the model's primitives ------------------------------------------------------------------ *)
Lemma src_register_address_val b o :
  src_register_address b o = if b + o <? 2 ^ 64 then Ok (b + o) else Err U3VTables.CE_INVALID_DEVICE.
Proof.
  unfold src_register_address. cbn [bind]. unfold r_checked_add, r_ok_or. destruct (b + o <? 2 ^ 64); reflexivity.
Qed.

Lemma regaddr_eq b o s : xf_register_address b o s = x_addr b o s.
Proof.
  destruct s as [[mt cap] [c w]]. unfold xf_register_address. rewrite src_register_address_val.
  unfold x_addr, liftM, reg_addr.
  destruct (b + o <? 2 ^ 64); unfold ret, fail; cbn [fst snd x_mt x_cap xf_lift_rm]; unfold grow_cap;
    rewrite Z.ltb_irrefl; reflexivity.
Qed.

Lemma x_addr_ok b o s v s1 : x_addr b o s = (Ok v, s1) -> v = b + o /\ b + o < 2 ^ 64.
Proof.
  destruct s as [[mt cap] [c w]]. unfold x_addr, liftM, reg_addr.
  destruct (b + o <? 2 ^ 64) eqn:C; unfold ret, fail; intros H; [|discriminate].
  apply Z.ltb_lt in C. split; [|exact C]. injection H as H _. symmetry. exact H.
Qed.

(* Self::read_register(device, (off, len)) with size_of::<T>() = len: register_address, then the register read *)
Lemma me_read_register_eq e off len s :
  src_ManifestEntry_read_register e (off, len) len s = xbind (x_addr e off) (fun a => x_reg a len) s.
Proof.
  unfold src_ManifestEntry_read_register. apply eq_trans with (xbind (x_addr e off) (fun a => xf_read_as len a len) s).
  - apply xbind_head. intros s0. apply regaddr_eq.
  - apply xbind_same; intros a s1 _; xn. unfold xf_read_as. rewrite Z.eqb_refl. reflexivity.
Qed.

Lemma mt_read_register_eq e off len s :
  src_ManifestTable_read_register e (off, len) len s = xbind (x_addr e off) (fun a => x_reg a len) s.
Proof.
  unfold src_ManifestTable_read_register. apply eq_trans with (xbind (x_addr e off) (fun a => xf_read_as len a len) s).
  - apply xbind_head. intros s0. apply regaddr_eq.
  - apply xbind_same; intros a s1 _; xn. unfold xf_read_as. rewrite Z.eqb_refl. reflexivity.
Qed.

Lemma xf_class_dev : xf_class U3VTables.CE_INVALID_DEVICE = CE_INVALID_DEVICE.
Proof. reflexivity. Qed.

(* ---- ManifestTable::entries ------------------------------------------------------------------------------------------ *)
(* the iterator (0..entry_num).map(move |i| ManifestEntry::new(first_entry_addr + i * 64)) is (0, entry_num, first) *)
Definition iter_of (fe : Z * Z) : Z * Z * Z := (0, snd fe, fst fe).

Lemma entries_from_source : forall t s, 0 <= t ->
  src_ManifestTable_entries t s = xbind (entries t) (fun fe => xret (iter_of fe)) s.
Proof.
  intros t s Ht. unfold src_ManifestTable_entries, entries.
  rewrite (xbind_head _ _ _ _ (mt_read_register_eq t 0 8)). xn.
  apply xbind_same; intros a0 s1 _; xn. apply xbind_same; intros n s2 _; xn.
  rewrite (xbind_head _ _ _ _ (regaddr_eq t 8)). apply xbind_same; intros first s3 Hf; xn.
  apply x_addr_ok in Hf. destruct Hf as [-> Hlt].
  unfold xf_checked_sub. destruct (n <? 1) eqn:C.
  - apply Z.ltb_lt in C. xn. destruct (n =? 0) eqn:Z0.
    + apply Z.eqb_eq in Z0. subst n. reflexivity.
    + apply Z.eqb_neq in Z0.
      destruct (t + 8 + (n - 1) * 64 <? 2 ^ 64) eqn:S; [reflexivity|apply Z.ltb_ge in S; lia].
  - apply Z.ltb_ge in C. destruct (n =? 0) eqn:Z0; [apply Z.eqb_eq in Z0; lia|].
    unfold xf_checked_mul, xf_and_then, r_checked_add, r_ok_or.
    destruct (t + 8 + (n - 1) * 64 <? 2 ^ 64) eqn:S.
    + apply Z.ltb_lt in S. destruct ((n - 1) * 64 <? 2 ^ 64) eqn:M; [|apply Z.ltb_ge in M; lia].
      rewrite (proj2 (Z.ltb_lt _ _) S). reflexivity.
    + destruct ((n - 1) * 64 <? 2 ^ 64) eqn:M; [rewrite S|]; reflexivity.
Qed.

(* ---- the selection loop ---------------------------------------------------------------------------------------------- *)
Lemma item_eq first i s : 0 <= first -> 0 <= i ->
  src_ManifestTable_entries_item0 first i s = (if first + i * 64 <? 2 ^ 64 then xret (first + i * 64) else xpanic) s.
Proof.
  intros F I. unfold src_ManifestTable_entries_item0, src_ManifestEntry_new, r_mul, r_add.
  destruct (first + i * 64 <? 2 ^ 64) eqn:S.
  - apply Z.ltb_lt in S. rewrite (proj2 (Z.ltb_lt (i * 64) (2 ^ 64))) by lia. cbn [xf_lift]. xn.
    rewrite (proj2 (Z.ltb_lt _ _) S). reflexivity.
  - apply Z.ltb_ge in S. destruct (i * 64 <? 2 ^ 64) eqn:M; [|reflexivity]. cbn [xf_lift]. xn.
    rewrite (proj2 (Z.ltb_ge _ _) S). reflexivity.
Qed.

Lemma file_type_lift info s :
  xf_lift_rm (src_file_type info) s =
  (if file_type info =? 0 then xret 0 else if file_type info =? 1 then xret 1 else xfail CE_INVALID_DEVICE) s.
Proof.
  destruct (file_info_src info) as [-> _]. unfold type_of_raw.
  destruct (file_type info =? 0); [reflexivity|]. destruct (file_type info =? 1); reflexivity.
Qed.

Lemma compression_type_lift info s :
  xf_lift_rm (src_compression_type info) s =
  (if compression_type info =? 0 then xret 0 else if compression_type info =? 1 then xret 1 else xfail CE_INVALID_DEVICE) s.
Proof.
  destruct (file_info_src info) as [_ ->]. unfold type_of_raw.
  destruct (compression_type info =? 0); [reflexivity|]. destruct (compression_type info =? 1); reflexivity.
Qed.

Lemma file_version_eq ent s :
  src_ManifestEntry_genicam_file_version ent s =
  xbind (x_addr ent 0) (fun a => xbind (x_reg a 4) (fun v => xret (version_of v))) s.
Proof.
  unfold src_ManifestEntry_genicam_file_version.
  rewrite (xbind_head _ _ _ _ (me_read_register_eq ent 0 4)). xn.
  apply xbind_same; intros a s1 _; xn. apply xbind_same; intros v s2 _; xn. rewrite file_version_src. reflexivity.
Qed.

Lemma loop_body_from_source : forall ent nw s,
  src_ControlHandle_genapi_loop0_body ent nw s = scan_entry ent nw s.
Proof.
  intros ent nw s. unfold src_ControlHandle_genapi_loop0_body, scan_entry, src_ManifestEntry_file_info.
  rewrite (xbind_head _ _ _ _ (me_read_register_eq ent 4 4)). xn.
  apply xbind_same; intros ia s1 _; xn. apply xbind_same; intros info s2 _; xn. xn.
  rewrite (xbind_head _ _ _ _ (file_type_lift info)).
  destruct (file_type info =? 0) eqn:F0.
  - xn. change (0 =? 0) with true. cbv iota. xn.
    rewrite (xbind_head _ _ _ _ (file_version_eq ent)). xn.
    apply xbind_same; intros va s3 _; xn. apply xbind_same; intros v s4 _; xn. xn. unfold xf_ver_le.
    destruct nw as [[[e0 cur] i0]|]; [destruct (ver_le (version_of v) cur)|]; reflexivity.
  - destruct (file_type info =? 1); xn; reflexivity.
Qed.

Lemma loop_from_source_gen first : 0 <= first -> forall k i nw s, 0 <= i ->
  xf_for k i (fun i_ st => dox item_ <- src_ManifestTable_entries_item0 first i_;
                           src_ControlHandle_genapi_loop0_body item_ st) nw s = scan k first i nw s.
Proof.
  intros F k. induction k as [|k IH]; intros i nw s I; [reflexivity|].
  cbn [xf_for scan]. xn. rewrite (xbind_head _ _ _ _ (fun s0 => item_eq first i s0 F I)).
  destruct (first + i * 64 <? 2 ^ 64); [|reflexivity]. xn.
  rewrite (xbind_head _ _ _ _ (loop_body_from_source (first + i * 64) nw)).
  apply xbind_same; intros nw' s1 _; xn. apply IH. lia.
Qed.

Lemma selection_from_source : forall first n nw s, 0 <= first ->
  src_ControlHandle_genapi_loop0 0 n first nw s = scan (Z.to_nat n) first 0 nw s.
Proof.
  intros first n nw s F. unfold src_ControlHandle_genapi_loop0, xf_for_range. rewrite Z.sub_0_r.
  apply loop_from_source_gen; [exact F|lia].
Qed.

Lemma selection_from_source_all :
  (forall ent nw s, src_ControlHandle_genapi_loop0_body ent nw s = scan_entry ent nw s) /\
  (forall first n nw s, 0 <= first ->
     src_ControlHandle_genapi_loop0 0 n first nw s = scan (Z.to_nat n) first 0 nw s).
Proof. exact (conj loop_body_from_source selection_from_source). Qed.

(* ---- verify_xml, the fetch -------------------------------------------------------------------------------------------- *)
Section Oracles.
Variable sha1 : list Z -> list Z.
Variable unzip : list Z -> option (list (option (list Z))).

Lemma verify_xml_from_source : forall xml ent s,
  src_ControlHandle_verify_xml sha1 xml ent s = verify_xml sha1 xml ent s.
Proof.
  intros xml ent s. unfold src_ControlHandle_verify_xml, verify_xml, src_ManifestEntry_sha1_hash. cbv zeta. xn.
  rewrite (xbind_head _ _ _ _ (regaddr_eq ent (fst manifest_entry_SHA1_HASH))).
  change (fst manifest_entry_SHA1_HASH) with 24.
  apply xbind_same; intros ha s1 _; xn. unfold xf_read_into. apply xbind_same; intros h s2 _; xn.
  unfold xf_all_zero, xf_slice_eq. rewrite xbind_if. destruct (forallb (fun b => b =? 0) h); xn; [reflexivity|].
  destruct (zeqb_list (sha1 xml) h); reflexivity.
Qed.

Lemma zlen_one {A} (x : A) l : (zlen (x :: l) =? 1) = match l with [] => true | _ => false end.
Proof.
  destruct l as [|y l]; [reflexivity|]. rewrite !zlen_cons. pose proof (zlen_nonneg l).
  apply Z.eqb_neq. lia.
Qed.

(* the Zip / Uncompressed arms against [decode], for a compression type already known to be 0 or 1: evaluates the
   `match comp_type` of the source whichever way its arms are ordered, then follows the oracle *)
Ltac decode_tac :=
  let files := fresh "files" in let f := fresh "f" in let rest := fresh "rest" in let g := fresh "g" in
  let xml := fresh "xml" in
  unfold decode; cbn [Z.eqb Pos.eqb]; first [reflexivity | idtac];
  unfold xf_zip_new, src_ControlHandle_genapi_zip_err;
  match goal with |- context [unzip ?b] => destruct (unzip b) as [files|]; [|reflexivity] end;
  cbn [xf_map_err xf_lift]; xn; unfold xf_zip_len; destruct files as [|f rest]; [reflexivity|];
  rewrite zlen_one; destruct rest as [|g rest]; [|reflexivity]; cbn [negb];
  unfold xf_zip_by_index; cbn [Z.to_nat nth_error xf_map_err xf_lift]; xn;
  unfold xf_try_into_usize; cbn [xf_lift]; xn; cbv zeta; unfold xf_vec_with_capacity, xf_zip_read_to_end;
  destruct f as [xml|]; reflexivity.

Lemma fetch_from_source : forall nw s,
  src_ControlHandle_genapi_after0 sha1 unzip nw s =
  match nw with None => xfail CE_INVALID_DEVICE s | Some sel => fetch sha1 unzip sel s end.
Proof.
  intros nw s. unfold src_ControlHandle_genapi_after0. destruct nw as [[[ent ver] info]|]; [|reflexivity].
  cbn [r_ok_or xf_lift]. xn. unfold fetch, src_ManifestEntry_file_address, src_ManifestEntry_file_size.
  rewrite (xbind_head _ _ _ _ (me_read_register_eq ent 8 8)). xn.
  apply xbind_same; intros aa s1 _; xn. apply xbind_same; intros file_address s2 _; xn.
  rewrite (xbind_head _ _ _ _ (me_read_register_eq ent 16 8)). xn.
  apply xbind_same; intros sa s3 _; xn. apply xbind_same; intros file_size s4 _; xn.
  unfold xf_try_into_usize. cbn [xf_lift]. xn.
  rewrite (xbind_head _ _ _ _ (compression_type_lift info)). cbv zeta.
  destruct (compression_type info =? 0) eqn:C0; [|destruct (compression_type info =? 1) eqn:C1; [|reflexivity]];
    cbn [orb negb]; unfold xf_buffer_capacity, xf_vec_zeroed; (destruct (2 ^ 63 <=? file_size); xg; [reflexivity|]);
    cbv zeta; unfold xf_read_into;
    (apply xbind_same; intros buf s6 _; xn); (apply xbind_same; intros u s7 _; xn);
    rewrite (xbind_head _ _ _ _ (verify_xml_from_source buf ent)); (apply xbind_same; intros u' s8 _; xn).
  - apply Z.eqb_eq in C0. rewrite C0. unfold decode. cbn [Z.eqb Pos.eqb]. reflexivity.
  - apply Z.eqb_eq in C1. rewrite C1. decode_tac.
Qed.

(* ---- genapi ---------------------------------------------------------------------------------------------------------- *)
Lemma genapi_from_source : forall s,
  (forall t s1, manifest_table s = (Ok t, s1) -> 0 <= t) ->
  src_ControlHandle_genapi sha1 unzip s = genapi sha1 unzip s.
Proof.
  intros s Ht. unfold src_ControlHandle_genapi, genapi. cbv zeta.
  apply xbind_same; intros t s1 Hm; xn. specialize (Ht t s1 Hm).
  rewrite (xbind_head _ _ _ _ (fun s0 => entries_from_source t s0 Ht)). xn.
  apply xbind_same; intros [first n] s2 He; xn. unfold iter_of. cbn [fst snd]. xn.
  assert (F : 0 <= first).
  { revert He. unfold entries. unfold xbind at 1.
    destruct (x_addr t 0 s1) as [[a0| |] sa]; try discriminate. unfold xbind at 1.
    destruct (x_reg a0 8 sa) as [[n0| |] sb]; try discriminate. unfold xbind at 1.
    destruct (x_addr t 8 sb) as [[f0| |] sc] eqn:Ha; try discriminate.
    apply x_addr_ok in Ha. destruct Ha as [-> _].
    destruct (n0 =? 0); [|destruct (_ <? _)]; intros H; try discriminate; injection H; intros; lia. }
  rewrite (xbind_head _ _ _ _ (fun s0 => selection_from_source first n None s0 F)).
  apply xbind_same; intros nw s3 _; xn. rewrite fetch_from_source. destruct nw; reflexivity.
Qed.

End Oracles.

Lemma fetch_from_source_all : forall sha1 unzip,
  (forall xml ent s, src_ControlHandle_verify_xml sha1 xml ent s = verify_xml sha1 xml ent s) /\
  (forall nw s, src_ControlHandle_genapi_after0 sha1 unzip nw s =
                match nw with None => xfail CE_INVALID_DEVICE s | Some sel => fetch sha1 unzip sel s end).
Proof. intros sha1 unzip. exact (conj (verify_xml_from_source sha1) (fetch_from_source sha1 unzip)). Qed.

(* ---- the property, of the translated selection loop -------------------------------------------------------------------- *)
Lemma selection_of_source :
  forall (good : st -> Prop) segs t es (xs : xst) r xs',
  honest_reads good -> good (snd xs) -> w_segs (snd (snd xs)) = segs -> entries_at segs (t + 8) es -> 0 <= t + 8 ->
  src_ControlHandle_genapi_loop0 0 (zlen es) (t + 8) None xs = (r, xs') ->
  r <> Panic /\
  forall nw, r = Ok nw ->
    Forall valid_type es /\
    match nw with
    | Some (a, v, inf) =>
      exists i e, newest_at es i e /\ a = t + 8 + Z.of_nat i * 64 /\ v = vkey e /\ inf = me_info e
    | None => forall e, In e es -> ~ is_dev e
    end.
Proof.
  intros good segs t es xs r xs' HH Hg Hs He F E.
  rewrite selection_from_source in E by exact F. unfold zlen in E. rewrite Nat2Z.id in E.
  exact (selects_newest good segs t es xs r xs' HH Hg Hs He E).
Qed.

(* ---- non-vacuity: the translated genapi on a concrete device ------------------------------------------------------------ *)
Example ex_newest_src :
  fst (src_ControlHandle_genapi fake_sha1 (fun _ => None)
         (opened (wit_world (le_bytes 8 3 ++ mk_entry 16777471 0 262144 10 (fake_sha1 doc_a)
                                           ++ mk_entry 16777472 0 262656 10 (fake_sha1 doc_b)
                                           ++ mk_entry 150994944 1 262144 10 (repeat 0 20))
                            [(262144, doc_a); (262656, doc_b)]))) = Ok doc_b /\
  fst (src_ControlHandle_genapi fake_sha1 (fun _ => None)
         (opened (wit_world (le_bytes 8 1 ++ mk_entry 16777216 1024 262144 10 (repeat 0 20)) [(262144, doc_a)])))
    = Err CE_INVALID_DEVICE /\
  fst (src_ControlHandle_genapi fake_sha1 (fun bs => Some [Some (tl bs)])
         (opened (wit_world (le_bytes 8 1 ++ mk_entry 16777216 1024 262144 10 (repeat 0 20)) [(262144, doc_a)])))
    = Ok (tl doc_a).
Proof. vm_compute. repeat split. Qed.
