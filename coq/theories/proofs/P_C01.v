From Cam Require Import Outcome Bytes Mem BitField RegCodec.

(* ---- memory lemmas ------------------------------------------------------------------- *)

Lemma zlen_splice off bs mem : 0 <= off -> off + zlen bs <= zlen mem ->
  zlen (splice off bs mem) = zlen mem.
Proof.
  intros H0 H1. unfold splice. rewrite !zlen_app. pose proof (zlen_nonneg bs).
  rewrite zlen_take, zlen_drop by lia. lia.
Qed.

Lemma read_splice_same off bs mem : 0 <= off -> off + zlen bs <= zlen mem ->
  take (zlen bs) (drop off (splice off bs mem)) = bs.
Proof.
  intros H0 H1. pose proof (zlen_nonneg bs). unfold splice.
  assert (E : off = zlen (take off mem)) by (rewrite zlen_take; lia).
  rewrite E at 1. rewrite drop_app_exact. apply take_app_exact.
Qed.

Lemma splice_before off bs mem : 0 <= off -> off + zlen bs <= zlen mem ->
  take off (splice off bs mem) = take off mem.
Proof.
  intros H0 H1. pose proof (zlen_nonneg bs). unfold splice.
  assert (E : off = zlen (take off mem)) by (rewrite zlen_take; lia).
  rewrite E at 1. apply take_app_exact.
Qed.

Lemma splice_after off bs mem : 0 <= off -> off + zlen bs <= zlen mem ->
  drop (off + zlen bs) (splice off bs mem) = drop (off + zlen bs) mem.
Proof.
  intros H0 H1. pose proof (zlen_nonneg bs). unfold splice.
  rewrite app_assoc.
  assert (E : off + zlen bs = zlen (take off mem ++ bs)) by (rewrite zlen_app, zlen_take; lia).
  rewrite E at 1. apply drop_app_exact.
Qed.

Definition in_dev (d : dev) (a n : Z) : Prop :=
  0 <= a - d_base d /\ a - d_base d + n <= zlen (d_mem d) /\ d_rej d = [].

Lemma dev_check_ok d a n : in_dev d a n -> dev_check d a n = Ok (a - d_base d).
Proof.
  intros [H0 [H1 Hr]]. unfold dev_check. rewrite Hr. cbn [zmem existsb].
  destruct (a - d_base d <? 0) eqn:E0; [lia|].
  destruct (zlen (d_mem d) <? a - d_base d + n) eqn:E1; [lia|]. reflexivity.
Qed.

(* ---- integer codec ---------------------------------------------------------------------- *)

Definition int_in_range (len sign v : Z) : Prop :=
  if sign =? 1 then - 2 ^ (8 * len - 1) <= v < 2 ^ (8 * len - 1)
  else 0 <= v < 2 ^ (8 * len) /\ v < 2 ^ 63.

Definition int_image (v len endian : Z) : list Z :=
  order endian (le_bytes (Z.to_nat len) (v mod 2 ^ (8 * len))).

Lemma order_involutive e bs : order e (order e bs) = bs.
Proof. unfold order. destruct (e =? 0); [reflexivity|apply rev_involutive]. Qed.

Lemma zlen_order e bs : zlen (order e bs) = zlen bs.
Proof. unfold order, zlen. destruct (e =? 0); [reflexivity|now rewrite rev_length]. Qed.

Lemma supported_cases len : supported_int_len len = true -> len = 1 \/ len = 2 \/ len = 4 \/ len = 8.
Proof.
  unfold supported_int_len. intros H.
  destruct (len =? 1) eqn:E1; [apply Z.eqb_eq in E1; auto|].
  destruct (len =? 2) eqn:E2; [apply Z.eqb_eq in E2; auto|].
  destruct (len =? 4) eqn:E4; [apply Z.eqb_eq in E4; auto|].
  destruct (len =? 8) eqn:E8; [apply Z.eqb_eq in E8; auto|]. discriminate.
Qed.

Lemma zlen_int_image v len e : 0 <= len -> zlen (int_image v len e) = len.
Proof. intros H. unfold int_image. rewrite zlen_order, zlen_le_bytes. lia. Qed.

Lemma bytes_from_int_image v len e s : supported_int_len len = true ->
  bytes_from_int v len e s = Ok (int_image v len e).
Proof. intros H. unfold bytes_from_int. now rewrite H. Qed.

Lemma bytes_from_int_unsupported v len e s : supported_int_len len = false ->
  bytes_from_int v len e s = Err E_INVALID_BUFFER.
Proof. intros H. unfold bytes_from_int. now rewrite H. Qed.

(* decoding the image of an in-range value gives the value back *)
Ltac ev_pows :=
  repeat match goal with
         | H : context [2 ^ ?k] |- _ =>
           let p := eval vm_compute in (2 ^ k) in progress change (2 ^ k) with p in H
         | |- context [2 ^ ?k] =>
           let p := eval vm_compute in (2 ^ k) in progress change (2 ^ k) with p
         | |- context [256 ^ Z.of_nat ?k] =>
           let p := eval vm_compute in (256 ^ Z.of_nat k) in progress change (256 ^ Z.of_nat k) with p
         end.

Lemma int_roundtrip v len e s : supported_int_len len = true -> int_in_range len s v ->
  int_from_slice (int_image v len e) e s = Ok v.
Proof.
  intros Hs Hr. unfold int_in_range in Hr.
  destruct (supported_cases len Hs) as [->|[->|[->| ->]]]; clear Hs;
    unfold int_from_slice; rewrite zlen_int_image by lia;
    cbn [supported_int_len Z.eqb orb negb Pos.eqb];
    unfold int_image; rewrite order_involutive;
    match goal with |- context [Z.to_nat ?k] =>
      let n := eval vm_compute in (Z.to_nat k) in change (Z.to_nat k) with n end;
    cbn [Z.mul Pos.mul Z.sub Z.add Z.opp Z.pos_sub Pos.pred_double Pos.add Pos.succ] in *;
    (rewrite of_le_le_bytes by (ev_pows; dlia));
    destruct (s =? 1); unfold sw; ev_pows; f_equal; dlia.
Qed.

Lemma bytes_ok_order e bs : bytes_ok bs -> bytes_ok (order e bs).
Proof. unfold order. destruct (e =? 0); auto using bytes_ok_rev. Qed.

Lemma length_order e bs : length (order e bs) = length bs.
Proof. unfold order. destruct (e =? 0); [reflexivity|apply rev_length]. Qed.

(* for every byte image of a supported length the decoded number re-encodes to exactly that
   image and lies in the natural range (sign extension included) *)
Lemma int_decode_any bs e s : bytes_ok bs -> supported_int_len (zlen bs) = true ->
  exists z, int_from_slice bs e s = Ok z /\ int_image z (zlen bs) e = bs /\
            (if s =? 1 then int_in_range (zlen bs) 1 z
             else - 2 ^ 63 <= z < 2 ^ 63 /\ z mod 2 ^ (8 * zlen bs) = of_le (order e bs)).
Proof.
  intros Hb Hs. unfold int_from_slice. rewrite Hs. cbn [negb].
  pose proof (of_le_bound _ (bytes_ok_order e bs Hb)) as B. rewrite length_order in B.
  set (u := of_le (order e bs)) in *.
  assert (Himg : forall z, z mod 2 ^ (8 * zlen bs) = u -> int_image z (zlen bs) e = bs).
  { intros z Hz. unfold int_image. rewrite Hz. unfold zlen at 1. rewrite Nat2Z.id.
    subst u. rewrite <- (length_order e bs). rewrite le_bytes_of_le by now apply bytes_ok_order.
    apply order_involutive. }
  unfold zlen in *.
  destruct (supported_cases _ Hs) as [E|[E|[E|E]]]; rewrite E in *; clear Hs;
    cbn [Z.mul Pos.mul Z.sub Z.add Z.opp Z.pos_sub Pos.pred_double Pos.add Pos.succ Z.eqb Pos.eqb] in *;
    unfold int_in_range;
    destruct (s =? 1); cbn [Z.eqb Pos.eqb];
    eexists; (split; [reflexivity|]); (split; [apply Himg; unfold sw; ev_pows; dlia|]);
    unfold sw; ev_pows; cbn [Z.eqb Pos.eqb Z.mul Pos.mul Z.sub Z.pos_sub Pos.pred_double]; ev_pows; dlia.
Qed.

(* ---- node level: what reaches the device ------------------------------------------------------ *)

Definition same_outside (d d' : dev) (a n : Z) : Prop :=
  d_base d' = d_base d /\ zlen (d_mem d') = zlen (d_mem d) /\
  take (a - d_base d) (d_mem d') = take (a - d_base d) (d_mem d) /\
  drop (a - d_base d + n) (d_mem d') = drop (a - d_base d + n) (d_mem d).

Lemma dev_write_spec d a bs : in_dev d a (zlen bs) ->
  exists d', dev_write d a bs = (Ok tt, d') /\ d_log d' = WrAcc a bs :: d_log d /\
             same_outside d d' a (zlen bs) /\ d_rej d' = [] /\
             take (zlen bs) (drop (a - d_base d) (d_mem d')) = bs.
Proof.
  intros H. pose proof H as [H0 [H1 Hr]]. unfold dev_write. rewrite dev_check_ok by exact H.
  eexists. split; [reflexivity|]. cbn [d_log d_base d_mem d_rej].
  split; [reflexivity|]. split.
  { unfold same_outside. cbn [d_base d_mem]. split; [reflexivity|].
    split; [apply zlen_splice; lia|]. split; [apply splice_before; lia|apply splice_after; lia]. }
  split; [exact Hr|]. apply read_splice_same; lia.
Qed.

Lemma dev_read_spec d a n : in_dev d a n ->
  exists d', dev_read d a n = (Ok (take n (drop (a - d_base d) (d_mem d))), d') /\
             d_log d' = RdAcc a n :: d_log d /\ d_mem d' = d_mem d /\ d_base d' = d_base d /\ d_rej d' = d_rej d.
Proof.
  intros H. unfold dev_read. rewrite dev_check_ok by exact H.
  eexists. split; [reflexivity|]. cbn. auto.
Qed.

(* IntReg::set_value of an in-range value: Ok, exactly one device write of the spec image at
   [address, address+length), nothing else changes; then value() reads [address, length) and
   returns the value *)
Lemma int_set_then_value r n v d :
  supported_int_len (r_len r) = true -> int_in_range (r_len r) (n_sign n) v ->
  in_dev d (r_addr r) (r_len r) ->
  exists d1 d2,
    int_set_value r n v d = (Ok tt, d1) /\
    d_log d1 = WrAcc (r_addr r) (int_image v (r_len r) (r_endian r)) :: d_log d /\
    same_outside d d1 (r_addr r) (r_len r) /\
    int_value r n d1 = (Ok v, d2) /\
    d_log d2 = RdAcc (r_addr r) (r_len r) :: d_log d1 /\ d_mem d2 = d_mem d1.
Proof.
  intros Hs Hr Hin.
  assert (Hl : 0 <= r_len r) by (destruct (supported_cases _ Hs) as [E|[E|[E|E]]]; rewrite E; lia).
  unfold int_set_value. rewrite bytes_from_int_image by exact Hs.
  unfold reg_write. rewrite zlen_int_image by exact Hl. rewrite Z.eqb_refl. cbn [negb].
  set (img := int_image v (r_len r) (r_endian r)).
  assert (Hzi : zlen img = r_len r) by (subst img; apply zlen_int_image; exact Hl).
  destruct (dev_write_spec d (r_addr r) img) as [d1 [Hw [Hlog [Hout [Hrej Hrd]]]]].
  { rewrite Hzi. exact Hin. }
  exists d1. rewrite Hzi in *.
  assert (Hin1 : in_dev d1 (r_addr r) (r_len r)).
  { destruct Hin as [A [B C]]. destruct Hout as [O1 [O2 _]]. unfold in_dev. rewrite O1, O2. auto. }
  destruct (dev_read_spec d1 (r_addr r) (r_len r) Hin1) as [d2 [Hr2 [Hl2 [Hm2 _]]]].
  exists d2. split; [exact Hw|]. split; [exact Hlog|]. split; [exact Hout|].
  split.
  { unfold int_value, reg_read. rewrite Z.eqb_refl. cbn [negb]. rewrite Hr2. cbn [bind2 ret].
    destruct Hout as [O1 _]. rewrite O1, Hrd. subst img. now rewrite int_roundtrip. }
  split; [exact Hl2|exact Hm2].
Qed.

(* unsupported lengths are refused before any device access *)
Lemma int_set_unsupported r n v d : supported_int_len (r_len r) = false ->
  int_set_value r n v d = (Err E_INVALID_BUFFER, d).
Proof. intros H. unfold int_set_value. now rewrite bytes_from_int_unsupported. Qed.

(* value() of any device image: reads exactly [address, length) and decodes it faithfully *)
Lemma int_value_any r n d : supported_int_len (r_len r) = true -> bytes_ok (d_mem d) ->
  in_dev d (r_addr r) (r_len r) ->
  exists z d', int_value r n d = (Ok z, d') /\ d_log d' = RdAcc (r_addr r) (r_len r) :: d_log d /\
    d_mem d' = d_mem d /\
    int_image z (r_len r) (r_endian r) = take (r_len r) (drop (r_addr r - d_base d) (d_mem d)).
Proof.
  intros Hs Hb Hin.
  assert (Hl : 0 <= r_len r) by (destruct (supported_cases _ Hs) as [E|[E|[E|E]]]; rewrite E; lia).
  destruct (dev_read_spec d (r_addr r) (r_len r) Hin) as [d' [Hr [Hlog [Hm _]]]].
  set (bs := take (r_len r) (drop (r_addr r - d_base d) (d_mem d))) in *.
  assert (Hzl : zlen bs = r_len r).
  { subst bs. destruct Hin as [A [B _]]. rewrite zlen_take; [reflexivity|]. rewrite zlen_drop; lia. }
  assert (Hbb : bytes_ok bs) by (subst bs; apply bytes_ok_take, bytes_ok_drop, Hb).
  destruct (int_decode_any bs (r_endian r) (n_sign n) Hbb) as [z [Hz [Hi _]]].
  { rewrite Hzl. exact Hs. }
  exists z, d'. unfold int_value, reg_read. rewrite Z.eqb_refl. cbn [negb]. rewrite Hr. cbn [bind2 ret].
  rewrite Hz. rewrite Hzl in Hi. auto.
Qed.

(* ---- 8-byte floats: bit exact for all 2^64 patterns ------------------------------------------- *)

Lemma f64_bits_exact b e : 0 <= b < 2 ^ 64 ->
  exists img, bytes_from_float b 8 e = Ok img /\ zlen img = 8 /\ float_from_slice img e = Ok b /\
              img = order e (le_bytes 8 b).
Proof.
  intros Hb. unfold bytes_from_float. cbn [Z.eqb Pos.eqb]. eexists. split; [reflexivity|].
  split; [rewrite zlen_order, zlen_le_bytes; reflexivity|]. split; [|reflexivity].
  unfold float_from_slice. rewrite zlen_order, zlen_le_bytes. cbn [Z.of_nat Pos.of_succ_nat Pos.succ Z.eqb Pos.eqb].
  rewrite order_involutive, of_le_le_bytes; [reflexivity|].
  change (256 ^ Z.of_nat 8) with (2 ^ 64). exact Hb.
Qed.

Lemma float_unsupported bits len e : len <> 4 -> len <> 8 ->
  bytes_from_float bits len e = Err E_INVALID_BUFFER.
Proof.
  intros H4 H8. unfold bytes_from_float.
  destruct (len =? 8) eqn:E8; [apply Z.eqb_eq in E8; contradiction|].
  destruct (len =? 4) eqn:E4; [apply Z.eqb_eq in E4; contradiction|]. reflexivity.
Qed.

(* ---- strings ------------------------------------------------------------------------------------ *)

Definition str_image (len : Z) (s : list Z) : list Z := s ++ repeat 0 (Z.to_nat (len - zlen s)).

Lemma until_nul_padded s pad : has_nul s = false -> until_nul (s ++ repeat 0 pad) = s.
Proof.
  induction s as [|c s IH]; cbn [has_nul existsb until_nul app].
  - intros _. destruct pad; reflexivity.
  - intros H. apply orb_false_iff in H. destruct H as [Hc Hs]. rewrite Hc. f_equal. apply IH. exact Hs.
Qed.

Lemma zlen_str_image len s : zlen s <= len -> zlen (str_image len s) = len.
Proof.
  intros H. unfold str_image. rewrite zlen_app. unfold zlen at 2. rewrite repeat_length.
  pose proof (zlen_nonneg s). lia.
Qed.

Lemma string_set_then_value r s d :
  is_ascii s = true -> has_nul s = false -> zlen s <= r_len r -> in_dev d (r_addr r) (r_len r) ->
  exists d1 d2,
    string_set_value r s d = (Ok tt, d1) /\
    d_log d1 = WrAcc (r_addr r) (str_image (r_len r) s) :: d_log d /\
    same_outside d d1 (r_addr r) (r_len r) /\
    string_value r d1 = (Ok s, d2) /\ d_log d2 = RdAcc (r_addr r) (r_len r) :: d_log d1.
Proof.
  intros Ha Hn Hl Hin. unfold string_set_value, string_set_value_with. rewrite Ha, Hn. cbn [negb orb andb].
  destruct (r_len r <? zlen s) eqn:E; [lia|].
  fold (str_image (r_len r) s). unfold reg_write. rewrite zlen_str_image by exact Hl.
  rewrite Z.eqb_refl. cbn [negb].
  destruct (dev_write_spec d (r_addr r) (str_image (r_len r) s)) as [d1 [Hw [Hlog [Hout [Hrej Hrd]]]]].
  { rewrite zlen_str_image by exact Hl. exact Hin. }
  rewrite zlen_str_image in * by exact Hl.
  assert (Hin1 : in_dev d1 (r_addr r) (r_len r)).
  { destruct Hin as [A [B C]]. destruct Hout as [O1 [O2 _]]. unfold in_dev. rewrite O1, O2. auto. }
  destruct (dev_read_spec d1 (r_addr r) (r_len r) Hin1) as [d2 [Hr2 [Hl2 _]]].
  exists d1, d2. split; [exact Hw|]. split; [exact Hlog|]. split; [exact Hout|]. split; [|exact Hl2].
  unfold string_value, reg_read. rewrite Z.eqb_refl. cbn [negb]. rewrite Hr2. cbn [bind2 ret].
  destruct Hout as [O1 _]. rewrite O1, Hrd. unfold str_image. now rewrite until_nul_padded.
Qed.

(* non-ASCII, NUL-containing and over-long strings are refused without any device access *)
Lemma string_refused r s d :
  is_ascii s = false \/ has_nul s = true \/ r_len r < zlen s ->
  string_set_value r s d = (Err E_INVALID_DATA, d).
Proof.
  intros H. unfold string_set_value, string_set_value_with.
  destruct (is_ascii s) eqn:Ea; cbn [negb orb andb]; [|reflexivity].
  destruct (has_nul s) eqn:En; [reflexivity|].
  destruct H as [H|[H|H]]; try discriminate.
  destruct (r_len r <? zlen s) eqn:E; [reflexivity|lia].
Qed.

(* the pinned code accepted an embedded NUL and then read back a different string *)
Lemma string_v0_refuted :
  exists r s d d1 d2, has_nul s = true /\ string_set_value_with true r s d = (Ok tt, d1) /\
                      string_value r d1 = (Ok [97], d2) /\ s <> [97].
Proof.
  exists {| r_addr := 0; r_len := 4; r_endian := 0 |}, [97; 0; 98], (mk_dev 0 [1;1;1;1]).
  eexists. eexists. split; [reflexivity|]. split; [vm_compute; reflexivity|].
  split; [vm_compute; reflexivity|discriminate].
Qed.

(* ---- raw register access -------------------------------------------------------------------------- *)

Lemma raw_write_exact r bs d : zlen bs = r_len r -> in_dev d (r_addr r) (r_len r) ->
  exists d1, reg_write r bs d = (Ok tt, d1) /\ d_log d1 = WrAcc (r_addr r) bs :: d_log d /\
             same_outside d d1 (r_addr r) (r_len r) /\
             take (r_len r) (drop (r_addr r - d_base d) (d_mem d1)) = bs.
Proof.
  intros Hl Hin. unfold reg_write. rewrite Hl, Z.eqb_refl. cbn [negb].
  destruct (dev_write_spec d (r_addr r) bs) as [d1 [Hw [Hlog [Hout [_ Hrd]]]]]; [now rewrite Hl|].
  rewrite Hl in *. exists d1. auto.
Qed.

Lemma raw_read_exact r d : in_dev d (r_addr r) (r_len r) ->
  exists d1, reg_read r (r_len r) d = (Ok (take (r_len r) (drop (r_addr r - d_base d) (d_mem d))), d1) /\
             d_log d1 = RdAcc (r_addr r) (r_len r) :: d_log d /\ d_mem d1 = d_mem d.
Proof.
  intros Hin. unfold reg_read. rewrite Z.eqb_refl. cbn [negb].
  destruct (dev_read_spec d (r_addr r) (r_len r) Hin) as [d1 [Hr [Hl [Hm _]]]]. exists d1. auto.
Qed.

Lemma raw_wrong_length r d :
  (forall bs, zlen bs <> r_len r -> reg_write r bs d = (Err E_INVALID_BUFFER, d)) /\
  (forall n, n <> r_len r -> reg_read r n d = (Err E_INVALID_BUFFER, d)).
Proof.
  split; intros x H.
  - unfold reg_write. destruct (zlen x =? r_len r) eqn:E; [apply Z.eqb_eq in E; contradiction|reflexivity].
  - unfold reg_read. destruct (x =? r_len r) eqn:E; [apply Z.eqb_eq in E; contradiction|reflexivity].
Qed.

Example c01_example :
  exists d1, int_set_value {| r_addr := 2; r_len := 2; r_endian := 1 |} {| n_kind := 0; n_sign := 1; n_lsb := 0; n_msb := 0 |}
                           (-2) (mk_dev 0 [9;9;9;9;9]) = (Ok tt, d1) /\ d_mem d1 = [9;9;255;254;9].
Proof. eexists. split; vm_compute; reflexivity. Qed.
