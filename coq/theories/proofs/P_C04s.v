(* C04s - the register caching path TRANSLATED FROM THE SOURCE (tools/translate_cachepath.py -> gen/CachePathSrc.v over
   the vocabulary of model/CacheOps.v) against the hand-written model model/Cache.v.

   A. write_path_src / read_path_src / read_and_cache_src: over the model's flat store ([model_store on y]: the
      association list of model/Cache.v as an instance of the translated trait record src_CacheStore) the translated
      RegisterBase::write_and_cache / with_cache_or_read / read_and_cache ARE m_write_and_cache / m_cached_bytes /
      m_read_and_cache: same result or error, same device (memory, access log, write counter), same cache, for every
      register, mode, cache, device and variable values with a length in 0 .. 2^63-1 (the model's GUARD on lengths;
      `length as usize` of a negative i64 is not the length).
   B. view_* / store_*: the translated DefaultCacheStore (two-level HashMap + invalidator table) answers every key as
      the model's association list does, before and after cache / invalidate_by / invalidate_of / clear, for every store
      ([store_rel]); build_store_rel: the table the translated store_invalidators / store_invalidator build from the
      nodes of a system is the system's pInvalidator relation.  CacheSink: the model with on = false keeps [].
   C. sim_*: the translated paths are parametric in the store - over two stores that simulate each other they return
      the same result and leave related states; *_on_store: hence over the translated DefaultCacheStore / CacheSink they
      do what the model does.
   D. write_through_of_source / nocache_of_source: clauses of the property on the translated code alone. *)
From Cam Require Import Outcome RustInt Bytes Mem Cache CacheOps.
From Cam Require Import CachePathSrc.
From Cam Require Import P_C04.

Definition model_store (on : bool) (y : system) : src_CacheStore cache :=
  {| CacheStore_cache := fun n a l d c => c_put on (n, a, l) d c;
     CacheStore_get_cache := fun n a l c => c_find (n, a, l) c;
     CacheStore_invalidate_by := fun n c => c_inval_by y n c;
     CacheStore_invalidate_of := fun n c => c_inval_of n c;
     CacheStore_clear := fun _ => [] |}.

Lemma r_cast_len : forall l, 0 <= l < 2 ^ 63 -> r_cast 64 l = l.
Proof.
  intros l H. unfold r_cast. apply Z.mod_small.
  assert (2 ^ 63 < 2 ^ 64) by reflexivity. lia.
Qed.

Ltac xunf := autounfold with csrc;
  unfold x_expect_iport_kind; unfold on_cst, of_cst, to_cst, xbind, xret, xerr, xpanic, xlift, x_cx_upd, x_cx_get, x_length, x_address,
    x_expect_iport_kind, x_device_read, x_device_write, xset_store, xset_dev, rb_of, model_store;
  cbn [x_dev x_vars x_store c_dev c_cache c_vars RegisterBase_reg RegisterBase_p_port RegisterBase_cacheable
       RegisterBase_p_invalidators PortNode_id PortNode_chunk_id_is_some
       CacheStore_cache CacheStore_get_cache CacheStore_invalidate_by CacheStore_invalidate_of CacheStore_clear].

Lemma write_path_src : forall on y n r buf s,
  0 <= len_of r (c_vars s) < 2 ^ 63 ->
  on_cst (src_RegisterBase_write_and_cache (model_store on y) (rb_of y r) n buf) s
  = m_write_and_cache on cur y n r buf s.
Proof.
  intros on y n r buf [d c vs] H. cbn [c_vars] in H.
  xunf.
  unfold m_write_and_cache, mbind, mret, mlift, m_inval_by, m_length, m_address, m_dev_write, m_inval_of, m_put,
    set_cache, set_dev.
  cbn [fix_raw fix_own fix_wa cur c_dev c_cache c_vars].
  rewrite (r_cast_len _ H).
  destruct (Z.ltb_spec (len_of r vs) 0) as [Hn|_]; [lia|].
  destruct (negb (zlen buf =? len_of r vs)); [reflexivity|].
  cbn [x_vars c_vars x_dev x_store c_dev c_cache].
  destruct (address r vs) as [a|e|]; [|reflexivity|reflexivity].
  cbn [PortNode_chunk_id_is_some PortNode_id x_dev x_vars x_store].
  destruct (cdev_write d a buf) as [[[]|e|] d0]; cbn [x_dev x_vars x_store c_dev c_cache c_vars]; try reflexivity.
  unfold mode_of.
  destruct (g_mode r =? WT); [reflexivity|].
  destruct (g_mode r =? WA); reflexivity.
Qed.

Lemma zlen_vec_zeros : forall l, 0 <= l -> zlen (vec_zeros l) = l.
Proof. intros l H. unfold vec_zeros, zlen. rewrite repeat_length. lia. Qed.

Lemma mode_cacheable : forall r,
  negb (CachingMode_eqb (mode_of (g_mode r)) CachingMode_NoCache) = cacheable r.
Proof.
  intros r. unfold mode_of, cacheable.
  destruct (g_mode r =? WT); [reflexivity|]. destruct (g_mode r =? WA); reflexivity.
Qed.

(* read_and_cache with a buffer of the register's length is the model's m_read_and_cache ... *)
Lemma read_and_cache_src : forall on y n r a l buf s,
  0 <= l < 2 ^ 63 -> zlen buf = l ->
  on_cst (src_RegisterBase_read_and_cache (model_store on y) (rb_of y r) n a l buf) s
  = m_read_and_cache on n r a l s.
Proof.
  intros on y n r a l buf [d c vs] H Hb.
  xunf. unfold m_read_and_cache, set_cache, set_dev. cbn [c_dev c_cache c_vars].
  rewrite (r_cast_len _ H), Hb, Z.eqb_refl. cbn [negb x_dev x_vars x_store].
  unfold mode_of, cacheable.
  destruct (cdev_read d a l) as [[bs|e|] d0]; cbn [x_dev x_vars x_store]; try reflexivity;
    destruct (g_mode r =? WT), (g_mode r =? WA); reflexivity.
Qed.

(* ... and with any other buffer it fails before the device is touched (the check of IRegister::read in m_raw_read) *)
Lemma read_and_cache_src_badbuf : forall on y n r a l buf s,
  0 <= l < 2 ^ 63 -> zlen buf <> l ->
  on_cst (src_RegisterBase_read_and_cache (model_store on y) (rb_of y r) n a l buf) s = (Err E_INVALID_BUFFER, s).
Proof.
  intros on y n r a l buf [d c vs] H Hb.
  xunf. rewrite (r_cast_len _ H).
  destruct (Z.eqb_spec (zlen buf) l) as [E|_]; [contradiction|]. reflexivity.
Qed.

Lemma read_path_src : forall on y n r (R : Type) (f : list Z -> outcome R) s,
  0 <= len_of r (c_vars s) < 2 ^ 63 ->
  on_cst (src_RegisterBase_with_cache_or_read (model_store on y) (rb_of y r) n f) s
  = mbind (m_cached_bytes on n r) (fun bs => mlift (f bs)) s.
Proof.
  intros on y n r R f [d c vs] H. cbn [c_vars] in H.
  xunf.
  unfold m_cached_bytes, mbind, mlift, m_length, m_address, m_read_and_cache, set_cache, set_dev.
  cbn [c_dev c_cache c_vars].
  destruct (Z.ltb_spec (len_of r vs) 0) as [Hn|_]; [lia|].
  cbn [c_dev c_cache c_vars x_dev x_vars x_store].
  destruct (address r vs) as [a|e|]; [|reflexivity|reflexivity].
  cbn [x_dev x_vars x_store].
  destruct (c_find (n, a, len_of r vs) c) as [bs|]; [reflexivity|].
  rewrite (r_cast_len _ H), zlen_vec_zeros by lia. rewrite Z.eqb_refl. cbn [negb x_dev x_vars x_store].
  unfold mode_of, cacheable.
  destruct (cdev_read d a (len_of r vs)) as [[bs|e|] d0]; cbn [x_dev x_vars x_store]; try reflexivity;
    destruct (g_mode r =? WT), (g_mode r =? WA); reflexivity.
Qed.
(* ---- HashMap facts ------------------------------------------------------------------------------- *)
Section HM.
  Context {K V : Type} (eqb : K -> K -> bool).
  Hypothesis eqb_eq : forall a b, eqb a b = true <-> a = b.

  Lemma eqb_refl' a : eqb a a = true.
  Proof. apply eqb_eq. reflexivity. Qed.

  Lemma eqb_sym' a b : eqb a b = eqb b a.
  Proof.
    destruct (eqb a b) eqn:E1, (eqb b a) eqn:E2; try reflexivity.
    - apply eqb_eq in E1. subst. rewrite eqb_refl' in E2. discriminate.
    - apply eqb_eq in E2. subst. rewrite eqb_refl' in E1. discriminate.
  Qed.

  Lemma hm_get_remove k k' (m : hmap K V) :
    hm_get eqb k' (hm_remove eqb k m) = if eqb k' k then None else hm_get eqb k' m.
  Proof.
    induction m as [|[k0 v0] m IH]; cbn [hm_remove filter hm_get fst].
    - destruct (eqb k' k); reflexivity.
    - fold (hm_remove eqb k m). destruct (eqb k k0) eqn:E0; cbn [negb hm_get].
      + apply eqb_eq in E0. subst k0. rewrite IH. destruct (eqb k' k); reflexivity.
      + rewrite IH. destruct (eqb k' k0) eqn:E1; [|reflexivity].
        apply eqb_eq in E1. subst k0. rewrite eqb_sym', E0. reflexivity.
  Qed.

  Lemma hm_get_insert k v k' (m : hmap K V) :
    hm_get eqb k' (hm_insert eqb k v m) = if eqb k' k then Some v else hm_get eqb k' m.
  Proof.
    unfold hm_insert. cbn [hm_get]. rewrite hm_get_remove. destruct (eqb k' k); reflexivity.
  Qed.

  Lemma hm_get_modify k f k' (m : hmap K V) :
    hm_get eqb k' (hm_modify eqb k f m) = if eqb k' k then option_map f (hm_get eqb k m) else hm_get eqb k' m.
  Proof.
    unfold hm_modify. destruct (hm_get eqb k m) as [v|] eqn:E.
    - rewrite hm_get_insert. reflexivity.
    - destruct (eqb k' k) eqn:E1; [|reflexivity]. apply eqb_eq in E1. subst. exact E.
  Qed.

  Lemma hm_get_upsert k f v0 k' (m : hmap K V) :
    hm_get eqb k' (hm_upsert eqb k f v0 m)
    = if eqb k' k then Some (match hm_get eqb k m with Some v => f v | None => v0 end) else hm_get eqb k' m.
  Proof.
    unfold hm_upsert. destruct (hm_get eqb k m); rewrite hm_get_insert; reflexivity.
  Qed.

  Lemma hm_get_or_default k d k' (m : hmap K V) :
    hm_get eqb k' (hm_or_default eqb k d m)
    = if eqb k' k then Some (match hm_get eqb k m with Some v => v | None => d end) else hm_get eqb k' m.
  Proof.
    unfold hm_or_default. destruct (hm_get eqb k m) as [v|] eqn:E.
    - destruct (eqb k' k) eqn:E1; [|reflexivity]. apply eqb_eq in E1. subst. exact E.
    - rewrite hm_get_insert. reflexivity.
  Qed.
End HM.

Lemma Zeqb_eq : forall a b, Z.eqb a b = true <-> a = b.
Proof. intros. apply Z.eqb_eq. Qed.

Lemma key2_eqb_eq : forall a b, key2_eqb a b = true <-> a = b.
Proof.
  intros [a1 a2] [b1 b2]. unfold key2_eqb. cbn [fst snd]. rewrite andb_true_iff, !Z.eqb_eq.
  split; [intros [-> ->]; reflexivity | intros E; inversion E; auto].
Qed.

(* ---- the translated DefaultCacheStore against the model's flat association list ------------------------------- *)

(* what the translated store answers for a key *)
Definition view (st : src_DefaultCacheStore) (k : key) : option (list Z) :=
  src_DefaultCacheStore_get_cache (key_node k) (key_addr k) (key_len k) st.

(* the registers the translated store drops when node n is written *)
Definition targets (st : src_DefaultCacheStore) (n : Z) : list Z :=
  match hm_get Z.eqb n (DefaultCacheStore_invalidators st) with Some l => l | None => [] end.

(* the store holds the blocks of the model's cache, and its invalidator table is the system's pInvalidator relation *)
Definition store_rel (y : system) (st : src_DefaultCacheStore) (c : cache) : Prop :=
  (forall k, view st k = c_find k c) /\
  (forall n m, In m (targets st n) <-> zmem n (invals_of y m) = true).

Lemma key_eqb_split k k0 :
  key_eqb k k0 = (key_node k =? key_node k0) && key2_eqb (key_addr k, key_len k) (key_addr k0, key_len k0).
Proof. unfold key_eqb, key2_eqb. cbn [fst snd]. rewrite andb_assoc. reflexivity. Qed.

Lemma c_find_filter (p : Z -> bool) k c :
  c_find k (filter (fun e => p (key_node (fst e))) c) = if p (key_node k) then c_find k c else None.
Proof.
  induction c as [|[k0 bs] c IH]; cbn [filter c_find fst].
  - destruct (p (key_node k)); reflexivity.
  - destruct (p (key_node k0)) eqn:E0; cbn [c_find].
    + destruct (key_eqb k k0) eqn:E1.
      * apply key_eqb_eq in E1. subst k0. rewrite E0. reflexivity.
      * exact IH.
    + rewrite IH. destruct (key_eqb k k0) eqn:E1; [|reflexivity].
      apply key_eqb_eq in E1. subst k0. rewrite E0. reflexivity.
Qed.

Lemma c_find_remove k k0 c :
  c_find k (c_remove k0 c) = if key_eqb k k0 then None else c_find k c.
Proof.
  induction c as [|[k1 bs] c IH]; cbn [c_remove filter c_find fst].
  - destruct (key_eqb k k0); reflexivity.
  - fold (c_remove k0 c). destruct (key_eqb k0 k1) eqn:E0; cbn [negb c_find].
    + apply key_eqb_eq in E0. subst k1. rewrite IH. destruct (key_eqb k k0); reflexivity.
    + rewrite IH. destruct (key_eqb k k1) eqn:E1; [|reflexivity].
      apply key_eqb_eq in E1. subst k1. destruct (key_eqb k k0) eqn:E2; [|reflexivity].
      apply key_eqb_eq in E2. subst k0. rewrite key_eqb_refl in E0. discriminate.
Qed.

Lemma view_unfold st k :
  view st k = match hm_get Z.eqb (key_node k) (DefaultCacheStore_store st) with
              | Some lv => hm_get key2_eqb (key_addr k, key_len k) lv
              | None => None
              end.
Proof.
  unfold view. autounfold with csrc. unfold obind.
  destruct (hm_get Z.eqb (key_node k) (DefaultCacheStore_store st)) as [lv|]; [|reflexivity].
  destruct (hm_get key2_eqb (key_addr k, key_len k) lv); reflexivity.
Qed.

(* cache *)
Lemma view_cache st n a l d k :
  view (src_DefaultCacheStore_cache n a l d st) k = if key_eqb k (n, a, l) then Some d else view st k.
Proof.
  rewrite !view_unfold, key_eqb_split.
  unfold src_DefaultCacheStore_cache. cbn [DefaultCacheStore_store key_node key_addr key_len fst snd].
  rewrite (hm_get_upsert Z.eqb Zeqb_eq).
  destruct (key_node k =? n) eqn:E; cbn [andb]; [|reflexivity].
  apply Z.eqb_eq in E. rewrite E.
  destruct (hm_get Z.eqb n (DefaultCacheStore_store st)) as [lv|].
  - rewrite (hm_get_upsert key2_eqb key2_eqb_eq). destruct (key2_eqb _ _); [|reflexivity].
    destruct (hm_get key2_eqb (a, l) lv); reflexivity.
  - unfold hm_new. rewrite (hm_get_insert key2_eqb key2_eqb_eq). destruct (key2_eqb _ _); reflexivity.
Qed.

Lemma targets_cache st n a l d m : targets (src_DefaultCacheStore_cache n a l d st) m = targets st m.
Proof. reflexivity. Qed.

(* invalidate_of *)
Lemma view_invalidate_of st n k :
  view (src_DefaultCacheStore_invalidate_of n st) k = if key_node k =? n then None else view st k.
Proof.
  rewrite !view_unfold. unfold src_DefaultCacheStore_invalidate_of.
  destruct (hm_get Z.eqb n (DefaultCacheStore_store st)) as [lv|] eqn:E; cbn [DefaultCacheStore_store].
  - rewrite (hm_get_modify Z.eqb Zeqb_eq). destruct (key_node k =? n); [|reflexivity].
    rewrite E. reflexivity.
  - destruct (key_node k =? n) eqn:E1; [|reflexivity]. apply Z.eqb_eq in E1. rewrite E1, E. reflexivity.
Qed.

Lemma invalidators_invalidate_of st n :
  DefaultCacheStore_invalidators (src_DefaultCacheStore_invalidate_of n st) = DefaultCacheStore_invalidators st.
Proof.
  unfold src_DefaultCacheStore_invalidate_of.
  destruct (hm_get Z.eqb n (DefaultCacheStore_store st)); reflexivity.
Qed.

(* invalidate_by: a fold of invalidate_of over the registered targets *)
Lemma invalidate_by_fold st n :
  src_DefaultCacheStore_invalidate_by n st
  = fold_left (fun s m => src_DefaultCacheStore_invalidate_of m s) (targets st n) st.
Proof.
  unfold src_DefaultCacheStore_invalidate_by, targets.
  destruct (hm_get Z.eqb n (DefaultCacheStore_invalidators st)); reflexivity.
Qed.

Lemma view_fold_invalidate_of ms : forall st k,
  view (fold_left (fun s m => src_DefaultCacheStore_invalidate_of m s) ms st) k
  = if zmem (key_node k) ms then None else view st k.
Proof.
  induction ms as [|m ms IH]; intros st k; cbn [fold_left]; [reflexivity|].
  rewrite IH, view_invalidate_of. unfold zmem. cbn [existsb]. fold (zmem (key_node k) ms).
  destruct (zmem (key_node k) ms); [rewrite orb_true_r; reflexivity|].
  rewrite orb_false_r. reflexivity.
Qed.

Lemma invalidators_fold_invalidate_of ms : forall st,
  DefaultCacheStore_invalidators (fold_left (fun s m => src_DefaultCacheStore_invalidate_of m s) ms st)
  = DefaultCacheStore_invalidators st.
Proof.
  induction ms as [|m ms IH]; intros st; cbn [fold_left]; [reflexivity|].
  rewrite IH. apply invalidators_invalidate_of.
Qed.

Lemma targets_invalidators st st' :
  DefaultCacheStore_invalidators st' = DefaultCacheStore_invalidators st -> forall n, targets st' n = targets st n.
Proof. intros E n. unfold targets. rewrite E. reflexivity. Qed.

(* the five operations preserve the relation, and get_cache answers alike *)
Lemma store_get_cache y st c n a l :
  store_rel y st c -> src_DefaultCacheStore_get_cache n a l st = c_find (n, a, l) c.
Proof. intros [H _]. exact (H (n, a, l)). Qed.

Lemma store_cache y st c n a l d :
  store_rel y st c -> store_rel y (src_DefaultCacheStore_cache n a l d st) (c_put true (n, a, l) d c).
Proof.
  intros [H T]. split; [|exact T].
  intros k. rewrite view_cache. unfold c_put. cbn [c_find].
  destruct (key_eqb k (n, a, l)) eqn:E; [reflexivity|].
  rewrite c_find_remove, E. apply H.
Qed.

Lemma store_invalidate_of y st c n :
  store_rel y st c -> store_rel y (src_DefaultCacheStore_invalidate_of n st) (c_inval_of n c).
Proof.
  intros [H T]. split.
  - intros k. rewrite view_invalidate_of. unfold c_inval_of.
    rewrite (c_find_filter (fun m => negb (m =? n))). destruct (key_node k =? n); cbn [negb]; [reflexivity|apply H].
  - intros m m'. rewrite (targets_invalidators _ _ (invalidators_invalidate_of st n)). apply T.
Qed.

Lemma store_invalidate_by y st c n :
  store_rel y st c -> store_rel y (src_DefaultCacheStore_invalidate_by n st) (c_inval_by y n c).
Proof.
  intros [H T]. rewrite invalidate_by_fold. split.
  - intros k. rewrite view_fold_invalidate_of. unfold c_inval_by.
    rewrite (c_find_filter (fun m => negb (zmem n (invals_of y m)))).
    destruct (zmem (key_node k) (targets st n)) eqn:E.
    + apply zmem_In, T in E. rewrite E. reflexivity.
    + destruct (zmem n (invals_of y (key_node k))) eqn:E2; cbn [negb]; [|apply H].
      apply T, zmem_In in E2. rewrite E2 in E. discriminate.
  - intros m m'. rewrite (targets_invalidators _ _ (invalidators_fold_invalidate_of _ st)). apply T.
Qed.

Lemma store_clear y st c :
  store_rel y st c -> store_rel y (src_DefaultCacheStore_clear st) [].
Proof.
  intros [H T]. split; [|exact T]. intros k. rewrite view_unfold. reflexivity.
Qed.

(* ---- registration of the invalidators (GenApiBuilder: every register node calls store_invalidators with its id) ---- *)

Fixpoint register_nodes {B : Type} (D : src_CacheStoreBuilder B) (y : system) (i : Z) (ns : list cnode) (b : B) : B :=
  match ns with
  | [] => b
  | NReg r :: rest => register_nodes D y (i + 1) rest (src_RegisterBase_store_invalidators D (rb_of y r) i b)
  | _ :: rest => register_nodes D y (i + 1) rest b
  end.

Definition build_store (y : system) : src_DefaultCacheStore :=
  register_nodes src_DefaultCacheStore_impl_CacheStoreBuilder y 0 (y_nodes y) src_DefaultCacheStore_default.

Definition build_sink (y : system) : src_CacheSink :=
  register_nodes src_CacheSink_impl_CacheStoreBuilder y 0 (y_nodes y) src_CacheSink_default.

Lemma targets_store_invalidator st i t n :
  targets (src_DefaultCacheStore_store_invalidator i t st) n
  = if n =? i then targets st n ++ [t] else targets st n.
Proof.
  unfold targets, src_DefaultCacheStore_store_invalidator. cbn [DefaultCacheStore_invalidators].
  rewrite (hm_get_modify Z.eqb Zeqb_eq), !(hm_get_or_default Z.eqb Zeqb_eq), Z.eqb_refl.
  destruct (n =? i) eqn:E; [|reflexivity].
  apply Z.eqb_eq in E. subst n. cbn [option_map]. unfold vec_push.
  destruct (hm_get Z.eqb i (DefaultCacheStore_invalidators st)); reflexivity.
Qed.

Lemma store_store_invalidator st i t :
  DefaultCacheStore_store (src_DefaultCacheStore_store_invalidator i t st) = DefaultCacheStore_store st.
Proof. reflexivity. Qed.

Definition D_builder := src_DefaultCacheStore_impl_CacheStoreBuilder.

Lemma store_invalidators_spec ivs : forall y r t st n m,
  RegisterBase_p_invalidators (rb_of y r) = ivs ->
  (In m (targets (src_RegisterBase_store_invalidators D_builder (rb_of y r) t st) n)
   <-> In m (targets st n) \/ (m = t /\ In n ivs)) /\
  DefaultCacheStore_store (src_RegisterBase_store_invalidators D_builder (rb_of y r) t st) = DefaultCacheStore_store st.
Proof.
  intros y r t st n m E. unfold src_RegisterBase_store_invalidators. rewrite E. clear E.
  unfold D_builder, src_DefaultCacheStore_impl_CacheStoreBuilder. cbn [CacheStoreBuilder_store_invalidator].
  revert st. induction ivs as [|i ivs IH]; intros st; cbn [fold_left].
  - split; [|reflexivity]. cbn [In]. tauto.
  - destruct (IH (src_DefaultCacheStore_store_invalidator i t st)) as [IH1 IH2]. split.
    + rewrite IH1, targets_store_invalidator. cbn [In].
      destruct (Z.eqb_spec n i) as [->|Hne].
      * rewrite in_app_iff. cbn [In]. intuition (subst; auto).
      * intuition (subst; auto; try contradiction).
    + rewrite IH2. apply store_store_invalidator.
Qed.

Definition reg_at (ns : list cnode) (i m : Z) (r : creg) : Prop :=
  exists k : nat, m = i + Z.of_nat k /\ nth_error ns k = Some (NReg r).

Lemma reg_at_cons c ns i m r :
  reg_at (c :: ns) i m r <-> (m = i /\ c = NReg r) \/ reg_at ns (i + 1) m r.
Proof.
  unfold reg_at. split.
  - intros [[|k] [E1 E2]]; cbn [nth_error] in E2.
    + left. split; [lia|]. inversion E2. reflexivity.
    + right. exists k. split; [lia|exact E2].
  - intros [[E1 E2]|[k [E1 E2]]].
    + exists O. subst. split; [lia|reflexivity].
    + exists (S k). split; [lia|exact E2].
Qed.

Lemma register_nodes_spec y ns : forall i st n m,
  (In m (targets (register_nodes D_builder y i ns st) n)
   <-> In m (targets st n) \/ exists r, reg_at ns i m r /\ In n (g_inval r)) /\
  DefaultCacheStore_store (register_nodes D_builder y i ns st) = DefaultCacheStore_store st.
Proof.
  induction ns as [|c ns IH]; intros i st n m; cbn [register_nodes].
  - split; [|reflexivity]. split; [tauto|]. intros [H|[r [[k [_ H]] _]]]; [exact H|]. destruct k; discriminate.
  - assert (Hother : c <> NReg (match c with NReg r => r | _ => Build_creg 0 0 0 0 0 0 [] (LImm 0) 0 [] end) ->
      (In m (targets (register_nodes D_builder y (i + 1) ns st) n)
       <-> In m (targets st n) \/ exists r, reg_at (c :: ns) i m r /\ In n (g_inval r)) /\
      DefaultCacheStore_store (register_nodes D_builder y (i + 1) ns st) = DefaultCacheStore_store st).
    { intros Hc. destruct (IH (i + 1) st n m) as [IH1 IH2]. split; [|exact IH2].
      rewrite IH1. split; (intros [H|[r [H1 H2]]]; [left; exact H|right; exists r; split; [|exact H2]]).
      - apply reg_at_cons. right. exact H1.
      - apply reg_at_cons in H1. destruct H1 as [[_ E]|H1]; [|exact H1]. subst c. contradiction. }
    destruct c as [r0| | |]; try (apply Hother; discriminate). clear Hother.
    destruct (IH (i + 1) (src_RegisterBase_store_invalidators D_builder (rb_of y r0) i st) n m) as [IH1 IH2].
    destruct (store_invalidators_spec (g_inval r0) y r0 i st n m eq_refl) as [S1 S2].
    split; [|rewrite IH2; exact S2].
    rewrite IH1, S1. split.
    + intros [[H|[-> H]]|[r [H1 H2]]].
      * left. exact H.
      * right. exists r0. split; [apply reg_at_cons; left; split; reflexivity|exact H].
      * right. exists r. split; [apply reg_at_cons; right; exact H1|exact H2].
    + intros [H|[r [H1 H2]]]; [left; left; exact H|].
      apply reg_at_cons in H1. destruct H1 as [[-> E]|H1].
      * inversion E. subst r0. left. right. split; [reflexivity|exact H2].
      * right. exists r. split; assumption.
Qed.

Lemma reg_at_node_at y m r : reg_at (y_nodes y) 0 m r <-> node_at y m = Some (NReg r).
Proof.
  unfold reg_at, node_at. split.
  - intros [k [-> H]]. destruct (Z.ltb_spec (0 + Z.of_nat k) 0) as [L|_]; [lia|].
    replace (Z.to_nat (0 + Z.of_nat k)) with k by lia. exact H.
  - destruct (Z.ltb_spec m 0) as [L|L]; [discriminate|]. intros H. exists (Z.to_nat m). split; [lia|exact H].
Qed.

Lemma build_store_rel y : store_rel y (build_store y) [].
Proof.
  unfold build_store. split.
  - intros k. rewrite view_unfold.
    destruct (register_nodes_spec y (y_nodes y) 0 src_DefaultCacheStore_default 0 0) as [_ E].
    fold D_builder. rewrite E. reflexivity.
  - intros n m. destruct (register_nodes_spec y (y_nodes y) 0 src_DefaultCacheStore_default n m) as [E _].
    fold D_builder. rewrite E. unfold invals_of. split.
    + intros [H|[r [H1 H2]]]; [destruct H|]. apply reg_at_node_at in H1. rewrite H1. apply zmem_In. exact H2.
    + intros H. right. destruct (node_at y m) as [[r| | |]|] eqn:E1; try discriminate.
      exists r. split; [apply reg_at_node_at; exact E1|apply zmem_In; exact H].
Qed.

(* CacheSink: the store of `.no_cache()`; the model then keeps its cache empty *)
Definition sink_rel (st : src_CacheSink) (c : cache) : Prop := c = [].

Lemma build_sink_rel y : sink_rel (build_sink y) [].
Proof. reflexivity. Qed.

(* ---- the translated paths do the same over any two stores that simulate each other ------------------------------ *)
Section Sim.
  Context {U1 U2 : Type} (D1 : src_CacheStore U1) (D2 : src_CacheStore U2) (R : U1 -> U2 -> Prop).
  Hypothesis ss_get : forall u1 u2 n a l, R u1 u2 ->
    CacheStore_get_cache D1 n a l u1 = CacheStore_get_cache D2 n a l u2.
  Hypothesis ss_cache : forall u1 u2 n a l d, R u1 u2 ->
    R (CacheStore_cache D1 n a l d u1) (CacheStore_cache D2 n a l d u2).
  Hypothesis ss_by : forall u1 u2 n, R u1 u2 -> R (CacheStore_invalidate_by D1 n u1) (CacheStore_invalidate_by D2 n u2).
  Hypothesis ss_of : forall u1 u2 n, R u1 u2 -> R (CacheStore_invalidate_of D1 n u1) (CacheStore_invalidate_of D2 n u2).

  Definition RX (x1 : xst U1) (x2 : xst U2) : Prop :=
    x_dev x1 = x_dev x2 /\ x_vars x1 = x_vars x2 /\ R (x_store x1) (x_store x2).

  (* same result, related states *)
  Definition simX {A} (m1 : X U1 A) (m2 : X U2 A) : Prop :=
    forall x1 x2, RX x1 x2 -> fst (m1 x1) = fst (m2 x2) /\ RX (snd (m1 x1)) (snd (m2 x2)).

  Lemma simX_bind {A B} (m1 : X U1 A) (m2 : X U2 A) (f1 : A -> X U1 B) (f2 : A -> X U2 B) :
    simX m1 m2 -> (forall a, simX (f1 a) (f2 a)) -> simX (xbind m1 f1) (xbind m2 f2).
  Proof.
    intros Hm Hf x1 x2 Hx. unfold xbind. destruct (Hm x1 x2 Hx) as [E1 E2].
    destruct (m1 x1) as [o1 x1'], (m2 x2) as [o2 x2']. cbn [fst snd] in *. subst o2.
    destruct o1 as [a|e|]; [apply Hf; exact E2| |]; split; assumption || reflexivity.
  Qed.

  Lemma simX_const {A} (o : outcome A) : simX (fun x => (o, x)) (fun x => (o, x)).
  Proof. intros x1 x2 Hx. split; [reflexivity|exact Hx]. Qed.

  Lemma simX_upd (f1 : U1 -> U1) (f2 : U2 -> U2) :
    (forall u1 u2, R u1 u2 -> R (f1 u1) (f2 u2)) -> simX (x_cx_upd f1) (x_cx_upd f2).
  Proof.
    intros Hf x1 x2 [E1 [E2 E3]]. split; [reflexivity|].
    unfold x_cx_upd, xset_store, RX. cbn [fst snd x_dev x_vars x_store]. auto.
  Qed.

  Lemma simX_get {A} (f1 : U1 -> A) (f2 : U2 -> A) :
    (forall u1 u2, R u1 u2 -> f1 u1 = f2 u2) -> simX (x_cx_get f1) (x_cx_get f2).
  Proof.
    intros Hf x1 x2 Hx. unfold x_cx_get. cbn [fst snd]. split; [|exact Hx].
    f_equal. apply Hf. apply Hx.
  Qed.

  Lemma simX_length self : simX (x_length self) (x_length self).
  Proof. intros x1 x2 Hx. unfold x_length. cbn [fst snd]. split; [|exact Hx]. destruct Hx as [_ [E _]]. rewrite E. reflexivity. Qed.

  Lemma simX_address self : simX (x_address self) (x_address self).
  Proof. intros x1 x2 Hx. unfold x_address. cbn [fst snd]. split; [|exact Hx]. destruct Hx as [_ [E _]]. rewrite E. reflexivity. Qed.

  Lemma simX_dev_read a buf : simX (x_device_read a buf) (x_device_read a buf).
  Proof.
    intros x1 x2 [E1 [E2 E3]]. unfold x_device_read. rewrite E1.
    destruct (cdev_read (x_dev x2) a (zlen buf)) as [o d]. cbn [fst snd]. split; [reflexivity|].
    unfold RX, xset_dev. cbn [x_dev x_vars x_store]. auto.
  Qed.

  Lemma simX_dev_write a buf : simX (x_device_write a buf) (x_device_write a buf).
  Proof.
    intros x1 x2 [E1 [E2 E3]]. unfold x_device_write. rewrite E1.
    destruct (cdev_write (x_dev x2) a buf) as [o d]. cbn [fst snd]. split; [reflexivity|].
    unfold RX, xset_dev. cbn [x_dev x_vars x_store]. auto.
  Qed.

  Lemma simX_if {A} (b : bool) (m1 n1 : X U1 A) (m2 n2 : X U2 A) :
    simX m1 m2 -> simX n1 n2 -> simX (if b then m1 else n1) (if b then m2 else n2).
  Proof. destruct b; auto. Qed.

  Ltac sim_step :=
    first [ apply simX_bind; [|intros ?]
          | apply simX_if
          | apply simX_const
          | apply simX_length | apply simX_address | apply simX_dev_read | apply simX_dev_write
          | apply simX_upd; intros ? ? ?; autounfold with csrc; auto
          | apply simX_get; intros ? ? ?; autounfold with csrc; auto ].

  Lemma sim_port_read p a buf : simX (src_PortNode_read D1 p a buf) (src_PortNode_read D2 p a buf).
  Proof. unfold src_PortNode_read, xerr. repeat sim_step. Qed.

  Lemma sim_port_write p a buf : simX (src_PortNode_write D1 p a buf) (src_PortNode_write D2 p a buf).
  Proof. unfold src_PortNode_write, xpanic. repeat sim_step. Qed.

  Lemma sim_read_and_cache self n a l buf :
    simX (src_RegisterBase_read_and_cache D1 self n a l buf) (src_RegisterBase_read_and_cache D2 self n a l buf).
  Proof.
    unfold src_RegisterBase_read_and_cache, xerr, xret, x_expect_iport_kind, xret.
    repeat first [apply sim_port_read | sim_step].
  Qed.

  Lemma sim_write_and_cache self n buf :
    simX (src_RegisterBase_write_and_cache D1 self n buf) (src_RegisterBase_write_and_cache D2 self n buf).
  Proof.
    unfold src_RegisterBase_write_and_cache, xerr, xret, x_expect_iport_kind, xret.
    repeat first [apply sim_port_write | sim_step].
    destruct (RegisterBase_cacheable self); repeat sim_step.
  Qed.

  Lemma sim_with_cache_or_read {A} self n (f : list Z -> outcome A) :
    simX (src_RegisterBase_with_cache_or_read D1 self n f) (src_RegisterBase_with_cache_or_read D2 self n f).
  Proof.
    unfold src_RegisterBase_with_cache_or_read, xlift.
    repeat sim_step.
    match goal with |- simX (match ?o with _ => _ end) _ => destruct o end; repeat first [apply sim_read_and_cache | sim_step].
  Qed.
End Sim.

(* ---- the translated paths over a translated store against the model's paths ------------------------------------ *)
Definition st_rel {U : Type} (R : U -> cache -> Prop) (x : xst U) (s : cst) : Prop :=
  x_dev x = c_dev s /\ x_vars x = c_vars s /\ R (x_store x) (c_cache s).

(* same result, same device (memory and access log), same variables, related stores *)
Definition same_run {U A : Type} (R : U -> cache -> Prop) (a : outcome A * xst U) (b : outcome A * cst) : Prop :=
  fst a = fst b /\ st_rel R (snd a) (snd b).

Lemma on_cst_eq {A} (m : X cache A) s : on_cst m s = (fst (m (of_cst s)), to_cst (snd (m (of_cst s)))).
Proof. unfold on_cst. destruct (m (of_cst s)); reflexivity. Qed.

Section OnStore.
  Context {U : Type} (D : src_CacheStore U) (R : U -> cache -> Prop) (on : bool) (y : system).
  Hypothesis ss_get : forall u c n a l, R u c -> CacheStore_get_cache D n a l u = c_find (n, a, l) c.
  Hypothesis ss_cache : forall u c n a l d, R u c -> R (CacheStore_cache D n a l d u) (c_put on (n, a, l) d c).
  Hypothesis ss_by : forall u c n, R u c -> R (CacheStore_invalidate_by D n u) (c_inval_by y n c).
  Hypothesis ss_of : forall u c n, R u c -> R (CacheStore_invalidate_of D n u) (c_inval_of n c).

  Lemma lift_sim {A} (m1 : X U A) (m2 : X cache A) (m : M A) x s :
    simX R m1 m2 -> on_cst m2 s = m s -> st_rel R x s -> same_run R (m1 x) (m s).
  Proof.
    intros Hs Hm [E1 [E2 E3]].
    destruct (Hs x (of_cst s)) as [F1 [F2 [F3 F4]]]; [split; [|split]; destruct s; assumption|].
    rewrite <- Hm, on_cst_eq. unfold same_run, st_rel, to_cst. cbn [fst snd c_dev c_vars c_cache]. auto.
  Qed.

  Lemma write_path_on_store n r buf x s :
    st_rel R x s -> 0 <= len_of r (c_vars s) < 2 ^ 63 ->
    same_run R (src_RegisterBase_write_and_cache D (rb_of y r) n buf x) (m_write_and_cache on cur y n r buf s).
  Proof using ss_get ss_cache ss_by ss_of.
    intros Hx Hl. apply (lift_sim _ (src_RegisterBase_write_and_cache (model_store on y) (rb_of y r) n buf)); auto.
    - apply sim_write_and_cache; cbn [model_store CacheStore_cache CacheStore_get_cache CacheStore_invalidate_by
                                      CacheStore_invalidate_of]; auto.
    - apply write_path_src. exact Hl.
  Qed.

  Lemma read_path_on_store n r (A : Type) (f : list Z -> outcome A) x s :
    st_rel R x s -> 0 <= len_of r (c_vars s) < 2 ^ 63 ->
    same_run R (src_RegisterBase_with_cache_or_read D (rb_of y r) n f x)
               (mbind (m_cached_bytes on n r) (fun bs => mlift (f bs)) s).
  Proof using ss_get ss_cache ss_by ss_of.
    intros Hx Hl. apply (lift_sim _ (src_RegisterBase_with_cache_or_read (model_store on y) (rb_of y r) n f)); auto.
    - apply sim_with_cache_or_read; cbn [model_store CacheStore_cache CacheStore_get_cache CacheStore_invalidate_by
                                         CacheStore_invalidate_of]; auto.
    - apply read_path_src. exact Hl.
  Qed.

  Lemma read_and_cache_on_store n r a l buf x s :
    st_rel R x s -> 0 <= l < 2 ^ 63 -> zlen buf = l ->
    same_run R (src_RegisterBase_read_and_cache D (rb_of y r) n a l buf x) (m_read_and_cache on n r a l s).
  Proof using ss_get ss_cache ss_by ss_of.
    intros Hx Hl Hb. apply (lift_sim _ (src_RegisterBase_read_and_cache (model_store on y) (rb_of y r) n a l buf)); auto.
    - apply sim_read_and_cache; cbn [model_store CacheStore_cache CacheStore_get_cache CacheStore_invalidate_by
                                     CacheStore_invalidate_of]; auto.
    - apply read_and_cache_src; assumption.
  Qed.
End OnStore.

Definition D_store : src_CacheStore src_DefaultCacheStore := src_DefaultCacheStore_impl_CacheStore.
Definition D_sink : src_CacheStore src_CacheSink := src_CacheSink_impl_CacheStore.

(* a sequence of store operations, on the translated store and on the model's *)
Inductive sop := SCache (n a l : Z) (d : list Z) | SInvBy (n : Z) | SInvOf (n : Z) | SClear.

Definition sop_src {U} (D : src_CacheStore U) (o : sop) (u : U) : U :=
  match o with
  | SCache n a l d => src_ValueCtxt_cache_data D n a l d u
  | SInvBy n => src_ValueCtxt_invalidate_cache_by D n u
  | SInvOf n => src_ValueCtxt_invalidate_cache_of D n u
  | SClear => src_ValueCtxt_clear_cache D u
  end.

Definition sop_model (on : bool) (y : system) (o : sop) (c : cache) : cache :=
  match o with
  | SCache n a l d => c_put on (n, a, l) d c
  | SInvBy n => c_inval_by y n c
  | SInvOf n => c_inval_of n c
  | SClear => []
  end.

Lemma sop_store y o st c : store_rel y st c -> store_rel y (sop_src D_store o st) (sop_model true y o c).
Proof.
  intros H. destruct o; unfold sop_src, D_store; autounfold with csrc;
    cbn [CacheStore_cache CacheStore_invalidate_by CacheStore_invalidate_of CacheStore_clear sop_model].
  - apply store_cache; exact H.
  - apply store_invalidate_by; exact H.
  - apply store_invalidate_of; exact H.
  - apply (store_clear y st c); exact H.
Qed.

Lemma sop_sink y o st c : sink_rel st c -> sink_rel (sop_src D_sink o st) (sop_model false y o c).
Proof. unfold sink_rel. intros ->. destruct o; reflexivity. Qed.

Lemma sops_store y os : forall st c,
  store_rel y st c -> store_rel y (fold_left (fun u o => sop_src D_store o u) os st) (fold_left (fun c o => sop_model true y o c) os c).
Proof. induction os as [|o os IH]; intros st c H; cbn [fold_left]; [exact H|]. apply IH, sop_store, H. Qed.

Lemma sops_sink y os : forall st c,
  sink_rel st c -> sink_rel (fold_left (fun u o => sop_src D_sink o u) os st) (fold_left (fun c o => sop_model false y o c) os c).
Proof. induction os as [|o os IH]; intros st c H; cbn [fold_left]; [exact H|]. apply IH, (sop_sink y), H. Qed.

Lemma sink_get st c n a l : sink_rel st c -> CacheStore_get_cache D_sink n a l st = c_find (n, a, l) c.
Proof. unfold sink_rel. intros ->. reflexivity. Qed.
Lemma sink_cache st c n a l d : sink_rel st c -> sink_rel (CacheStore_cache D_sink n a l d st) (c_put false (n, a, l) d c).
Proof. unfold sink_rel. intros ->. reflexivity. Qed.
Lemma sink_by y st c n : sink_rel st c -> sink_rel (CacheStore_invalidate_by D_sink n st) (c_inval_by y n c).
Proof. unfold sink_rel. intros ->. reflexivity. Qed.
Lemma sink_of st c n : sink_rel st c -> sink_rel (CacheStore_invalidate_of D_sink n st) (c_inval_of n c).
Proof. unfold sink_rel. intros ->. reflexivity. Qed.

(* statements for props/C04.v *)
Lemma store_from_source : forall y,
  (* the store the builder produces is the empty cache with the system's pInvalidator table ... *)
  store_rel y (build_store y) [] /\ sink_rel (build_sink y) [] /\
  (* ... every operation of DefaultCacheStore (through the ValueCtxt forwarder) is the model's, for every store and key ... *)
  (forall st c, store_rel y st c ->
     (forall n a l, src_ValueCtxt_get_cache D_store n a l st = c_find (n, a, l) c) /\
     (forall n a l d, store_rel y (src_ValueCtxt_cache_data D_store n a l d st) (c_put true (n, a, l) d c)) /\
     (forall n, store_rel y (src_ValueCtxt_invalidate_cache_by D_store n st) (c_inval_by y n c)) /\
     (forall n, store_rel y (src_ValueCtxt_invalidate_cache_of D_store n st) (c_inval_of n c)) /\
     store_rel y (src_ValueCtxt_clear_cache D_store st) []) /\
  (* ... so after any sequence of operations the translated store answers every key as the model's cache does ... *)
  (forall os n a l,
     src_ValueCtxt_get_cache D_store n a l (fold_left (fun u o => sop_src D_store o u) os (build_store y))
     = c_find (n, a, l) (fold_left (fun c o => sop_model true y o c) os [])) /\
  (* ... and CacheSink never answers, as the model with on = false, whose cache stays empty *)
  (forall os n a l,
     src_ValueCtxt_get_cache D_sink n a l (fold_left (fun u o => sop_src D_sink o u) os (build_sink y)) = None /\
     fold_left (fun c o => sop_model false y o c) os [] = []).
Proof.
  intros y. split; [apply build_store_rel|]. split; [apply build_sink_rel|]. split; [|split].
  - intros st c H. split; [|split; [|split; [|split]]].
    + intros n a l. exact (store_get_cache y st c n a l H).
    + intros n a l d. exact (sop_store y (SCache n a l d) st c H).
    + intros n. exact (sop_store y (SInvBy n) st c H).
    + intros n. exact (sop_store y (SInvOf n) st c H).
    + exact (sop_store y SClear st c H).
  - intros os n a l. apply (store_get_cache y). apply sops_store, build_store_rel.
  - intros os n a l. split; [reflexivity|]. exact (sops_sink y os _ _ (build_sink_rel y)).
Qed.

Lemma write_path_from_source : forall y n r buf,
  (* over the model's flat store the translated write_and_cache IS the model's, for both kinds of context ... *)
  (forall on s, 0 <= len_of r (c_vars s) < 2 ^ 63 ->
     on_cst (src_RegisterBase_write_and_cache (model_store on y) (rb_of y r) n buf) s = m_write_and_cache on cur y n r buf s) /\
  (* ... and over the translated DefaultCacheStore / CacheSink it does the same as the model from related states *)
  (forall x s, st_rel (store_rel y) x s -> 0 <= len_of r (c_vars s) < 2 ^ 63 ->
     same_run (store_rel y) (src_RegisterBase_write_and_cache D_store (rb_of y r) n buf x)
                            (m_write_and_cache true cur y n r buf s)) /\
  (forall x s, st_rel sink_rel x s -> 0 <= len_of r (c_vars s) < 2 ^ 63 ->
     same_run sink_rel (src_RegisterBase_write_and_cache D_sink (rb_of y r) n buf x)
                       (m_write_and_cache false cur y n r buf s)).
Proof.
  intros y n r buf. split; [|split].
  - intros on s H. apply write_path_src. exact H.
  - intros x s Hx Hl. apply (write_path_on_store D_store (store_rel y) true y (store_get_cache y) (store_cache y)
             (store_invalidate_by y) (store_invalidate_of y)); assumption.
  - intros x s Hx Hl. apply (write_path_on_store D_sink sink_rel false y sink_get sink_cache (sink_by y) sink_of); assumption.
Qed.

Lemma read_path_from_source : forall y n r,
  (forall on (A : Type) (f : list Z -> outcome A) s, 0 <= len_of r (c_vars s) < 2 ^ 63 ->
     on_cst (src_RegisterBase_with_cache_or_read (model_store on y) (rb_of y r) n f) s
     = mbind (m_cached_bytes on n r) (fun bs => mlift (f bs)) s) /\
  (forall on a l buf s, 0 <= l < 2 ^ 63 ->
     on_cst (src_RegisterBase_read_and_cache (model_store on y) (rb_of y r) n a l buf) s
     = if zlen buf =? l then m_read_and_cache on n r a l s else (Err E_INVALID_BUFFER, s)) /\
  (forall (A : Type) (f : list Z -> outcome A) x s, st_rel (store_rel y) x s -> 0 <= len_of r (c_vars s) < 2 ^ 63 ->
     same_run (store_rel y) (src_RegisterBase_with_cache_or_read D_store (rb_of y r) n f x)
                            (mbind (m_cached_bytes true n r) (fun bs => mlift (f bs)) s)) /\
  (forall (A : Type) (f : list Z -> outcome A) x s, st_rel sink_rel x s -> 0 <= len_of r (c_vars s) < 2 ^ 63 ->
     same_run sink_rel (src_RegisterBase_with_cache_or_read D_sink (rb_of y r) n f x)
                       (mbind (m_cached_bytes false n r) (fun bs => mlift (f bs)) s)) /\
  (forall a l buf x s, st_rel (store_rel y) x s -> 0 <= l < 2 ^ 63 -> zlen buf = l ->
     same_run (store_rel y) (src_RegisterBase_read_and_cache D_store (rb_of y r) n a l buf x)
                            (m_read_and_cache true n r a l s)).
Proof.
  intros y n r. split; [|split; [|split; [|split]]].
  - intros on A f s H. apply read_path_src. exact H.
  - intros on a l buf s H. destruct (Z.eqb_spec (zlen buf) l) as [E|E].
    + apply read_and_cache_src; assumption.
    + apply read_and_cache_src_badbuf; assumption.
  - intros A f x s Hx Hl. apply (read_path_on_store D_store (store_rel y) true y (store_get_cache y) (store_cache y)
             (store_invalidate_by y) (store_invalidate_of y)); assumption.
  - intros A f x s Hx Hl. apply (read_path_on_store D_sink sink_rel false y sink_get sink_cache (sink_by y) sink_of); assumption.
  - intros a l buf x s Hx Hl Hb. apply (read_and_cache_on_store D_store (store_rel y) true y (store_get_cache y) (store_cache y)
             (store_invalidate_by y) (store_invalidate_of y)); assumption.
Qed.

(* ---- the property's clauses on the translated code alone (no model, no hypothesis on the register) -------------- *)

(* after a successful write_and_cache of a WriteThrough register over the translated DefaultCacheStore, the only block
   the store holds for this node is the one just written, under (address, current length) *)
Lemma write_through_of_source : forall self n buf x x',
  RegisterBase_cacheable self = CachingMode_WriteThrough ->
  src_RegisterBase_write_and_cache D_store self n buf x = (Ok tt, x') ->
  exists a, address (RegisterBase_reg self) (x_vars x) = Ok a /\
    forall a' l', src_ValueCtxt_get_cache D_store n a' l' (x_store x')
                  = if (a' =? a) && (l' =? len_of (RegisterBase_reg self) (x_vars x)) then Some buf else None.
Proof.
  intros self n buf [d vs st] x' Hm H.
  unfold src_RegisterBase_write_and_cache in H. rewrite Hm in H.
  unfold src_PortNode_write, x_expect_iport_kind in H.
  unfold xbind, xret, xerr, xpanic, x_cx_upd, x_length, x_address, x_device_write, xset_store, xset_dev in H.
  cbn [x_dev x_vars x_store PortNode_chunk_id_is_some PortNode_id] in H.
  destruct (negb (zlen buf =? r_cast 64 (len_of (RegisterBase_reg self) vs))); [discriminate|].
  cbn [x_dev x_vars x_store] in H.
  destruct (address (RegisterBase_reg self) vs) as [a|e|] eqn:Ea; [|discriminate|discriminate].
  cbn [x_dev x_vars x_store PortNode_chunk_id_is_some PortNode_id] in H.
  destruct (cdev_write d a buf) as [[[]|e|] d0]; cbn [x_dev x_vars x_store] in H; try discriminate.
  injection H as <-. cbn [x_vars x_store].
  exists a. split; [exact Ea|]. intros a' l'.
  unfold src_ValueCtxt_get_cache, src_ValueCtxt_cache_data, src_ValueCtxt_invalidate_cache_by,
    src_ValueCtxt_invalidate_cache_of, D_store, src_DefaultCacheStore_impl_CacheStore.
  cbn [CacheStore_cache CacheStore_get_cache CacheStore_invalidate_by CacheStore_invalidate_of].
  match goal with |- src_DefaultCacheStore_get_cache n a' l' ?s = _ => change (view s (n, a', l') = 
    if (a' =? a) && (l' =? len_of (RegisterBase_reg self) vs) then Some buf else None) end.
  rewrite view_cache, view_invalidate_of. unfold key_eqb. cbn [key_node key_addr key_len fst snd].
  rewrite Z.eqb_refl. cbn [andb]. destruct ((a' =? a) && (l' =? len_of (RegisterBase_reg self) vs)); reflexivity.
Qed.

(* a NoCache register never reaches cache_data: read_and_cache leaves the store as it was, write_and_cache only
   invalidates (by the register's id, then - inside Port::write - by the port's id), over any store *)
Lemma nocache_of_source : forall (U : Type) (D : src_CacheStore U) self n x,
  RegisterBase_cacheable self = CachingMode_NoCache ->
  (forall a l buf, x_store (snd (src_RegisterBase_read_and_cache D self n a l buf x)) = x_store x) /\
  (forall buf,
     let u := x_store (snd (src_RegisterBase_write_and_cache D self n buf x)) in
     u = CacheStore_invalidate_by D n (x_store x) \/
     u = CacheStore_invalidate_by D (RegisterBase_p_port self) (CacheStore_invalidate_by D n (x_store x))).
Proof.
  intros U D self n [d vs st] Hm. split.
  - intros a l buf. unfold src_RegisterBase_read_and_cache. rewrite Hm.
    unfold src_PortNode_read, x_expect_iport_kind.
    unfold xbind, xret, xerr, x_cx_upd, x_device_read, xset_store, xset_dev.
    cbn [x_dev x_vars x_store PortNode_chunk_id_is_some CachingMode_eqb negb].
    destruct (negb (zlen buf =? r_cast 64 l)); [reflexivity|].
    cbn [x_dev x_vars x_store PortNode_chunk_id_is_some].
    destruct (cdev_read d a (zlen buf)) as [[bs|e|] d0]; reflexivity.
  - intros buf. unfold src_RegisterBase_write_and_cache. rewrite Hm.
    unfold src_PortNode_write, x_expect_iport_kind.
    unfold xbind, xret, xerr, xpanic, x_cx_upd, x_length, x_address, x_device_write, xset_store, xset_dev.
    autounfold with csrc.
    cbn [x_dev x_vars x_store PortNode_chunk_id_is_some PortNode_id].
    destruct (negb (zlen buf =? r_cast 64 (len_of (RegisterBase_reg self) vs))); [left; reflexivity|].
    cbn [x_dev x_vars x_store].
    destruct (address (RegisterBase_reg self) vs) as [a|e|]; [|left; reflexivity|left; reflexivity].
    cbn [x_dev x_vars x_store PortNode_chunk_id_is_some PortNode_id].
    destruct (cdev_write d a buf) as [[[]|e|] d0]; right; reflexivity.
Qed.

(* ---- non-vacuity: two registers over the same four bytes, each the pInvalidator of the other, on the store the
   translated builder produces; write through node 0, read it (served from the store: no device access), write
   through node 1 (drops node 0's block), read node 0 again (device access) ---------------------------------------- *)
Definition ex_reg (mode : Z) (inval : list Z) : creg :=
  {| g_kind := 0; g_sign := 0; g_endian := 0; g_lsb := 0; g_msb := 0; g_base := 256; g_index := [];
     g_len := LImm 4; g_mode := mode; g_inval := inval |}.
Definition ex_sys : system := {| y_nodes := [NReg (ex_reg WT [1]); NReg (ex_reg WA [0])]; y_port := 2 |}.
Definition ex_x0 : xst src_DefaultCacheStore :=
  {| x_dev := mk_dev 256 [1; 2; 3; 4; 5; 6; 7; 8]; x_vars := []; x_store := build_store ex_sys |}.

Definition ex_run : outcome (list Z * list Z) * xst src_DefaultCacheStore :=
  xbind (src_RegisterBase_write_and_cache D_store (rb_of ex_sys (ex_reg WT [1])) 0 [9; 9; 9; 9]) (fun _ =>
  xbind (src_RegisterBase_with_cache_or_read D_store (rb_of ex_sys (ex_reg WT [1])) 0 (fun bs => Ok bs)) (fun v1 =>
  xbind (src_RegisterBase_write_and_cache D_store (rb_of ex_sys (ex_reg WA [0])) 1 [7; 7; 7; 7]) (fun _ =>
  xbind (src_RegisterBase_with_cache_or_read D_store (rb_of ex_sys (ex_reg WT [1])) 0 (fun bs => Ok bs)) (fun v2 =>
  xret (v1, v2))))) ex_x0.

Example c04s_example :
  fst ex_run = Ok ([9; 9; 9; 9], [7; 7; 7; 7]) /\
  d_log (x_dev (snd ex_run)) = [RdAcc 256 4; WrAcc 256 [7; 7; 7; 7]; WrAcc 256 [9; 9; 9; 9]] /\
  targets (build_store ex_sys) 0 = [1] /\ targets (build_store ex_sys) 1 = [0] /\
  src_ValueCtxt_get_cache D_store 0 256 4 (x_store (snd ex_run)) = Some [7; 7; 7; 7] /\
  src_ValueCtxt_get_cache D_store 1 256 4 (x_store (snd ex_run)) = None.
Proof. vm_compute. repeat split. Qed.
