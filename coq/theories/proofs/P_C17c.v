(* Proofs for C17, third part: comments and processing instructions are ignored.  [cleans] removes every comment /
   processing instruction of a tree, at every depth; a parser is [Inv] when a success on the cleaned cursor is
   the same success on the original one. *)
From Cam Require Import Outcome GenApiParse P_C17 P_C17b.
Open Scope Z_scope.

Fixpoint clean (x : xml) : list xml :=
  match x with
  | Elem t a ch => [Elem t a ((fix go (l : list xml) : list xml :=
                                 match l with [] => [] | y :: r => clean y ++ go r end) ch)]
  | Text s => [Text s]
  | Comment _ => []
  | PI _ _ => []
  end.
Definition cleans := fix go (l : list xml) : list xml := match l with [] => [] | y :: r => clean y ++ go r end.

(* the text nodes of an element, in order *)
Fixpoint texts (ch : list xml) : list str :=
  match ch with [] => [] | Text s :: r => s :: texts r | _ :: r => texts r end.

(* TextView::view is the concatenation of ALL text nodes, whatever stands between them *)
Lemma text_of_all ch : text_of ch = List.concat (texts ch).
Proof. induction ch as [|[t a c|s|s|t d] r IH]; cbn; try assumption; [reflexivity | now rewrite IH]. Qed.

Lemma texts_cleans ch : texts (cleans ch) = texts ch.
Proof. induction ch as [|[t a c|s|s|t d] r IH]; cbn; try assumption; [reflexivity | now rewrite IH]. Qed.
Lemma text_of_cleans ch : text_of (cleans ch) = text_of ch.
Proof. now rewrite !text_of_all, texts_cleans. Qed.

Lemma texts_app a b : texts (a ++ b) = texts a ++ texts b.
Proof. induction a as [|[t x c|s|s|t d] r IH]; cbn; try assumption; [reflexivity | now rewrite IH]. Qed.

(* any number of comments / processing instructions between, before and after the pieces of a text *)
Fixpoint only_noise (l : list xml) : Prop :=
  match l with [] => True | Comment _ :: r => only_noise r | PI _ _ :: r => only_noise r | _ => False end.
Lemma texts_noise l : only_noise l -> texts l = [].
Proof. induction l as [|[t a c|s|s|t d] r IH]; cbn; intros H; try contradiction; auto. Qed.
Fixpoint scattered (pieces : list str) (gaps : list (list xml)) (tail : list xml) : list xml :=
  match pieces, gaps with
  | p :: ps, g :: gs => g ++ Text p :: scattered ps gs tail
  | p :: ps, [] => Text p :: scattered ps [] tail
  | [], _ => tail
  end.
Lemma text_of_scattered : forall pieces gaps tail, Forall only_noise gaps -> only_noise tail ->
  text_of (scattered pieces gaps tail) = List.concat pieces.
Proof.
  intros pieces gaps tail F T. rewrite text_of_all. revert gaps F.
  induction pieces as [|p ps IH]; intros gaps F; cbn [scattered].
  - destruct gaps; now rewrite (texts_noise tail T).
  - destruct gaps as [|g gs].
    + cbn [texts List.concat]. now rewrite <- (IH [] (Forall_nil _)).
    + inversion F; subst. rewrite texts_app, (texts_noise g) by assumption. cbn [app texts List.concat].
      now rewrite <- (IH gs).
Qed.

(* adjacent text nodes glued together, at every depth *)
Definition glue (x : xml) (l : list xml) : list xml :=
  match x, l with
  | Text s, Text s2 :: r => Text (s ++ s2) :: r
  | _, _ => x :: l
  end.
Fixpoint merge1 (x : xml) : xml :=
  match x with
  | Elem t a ch => Elem t a ((fix go (l : list xml) : list xml :=
                                match l with [] => [] | y :: r => glue (merge1 y) (go r) end) ch)
  | _ => x
  end.
Definition merges := fix go (l : list xml) : list xml := match l with [] => [] | y :: r => glue (merge1 y) (go r) end.

(* normal form of a child list: no comments / processing instructions, no two adjacent text nodes *)
Definition norm (c : list xml) : list xml := merges (cleans c).

Lemma cleans_length c : (List.length (cleans c) <= List.length c)%nat.
Proof. induction c as [|[t a ch|s|s|t d] r IH]; cbn; lia. Qed.

Lemma peek_cleans c :
  peek (cleans c) = match peek c with Some (t, a, ch, r) => Some (t, a, cleans ch, cleans r) | None => None end.
Proof. induction c as [|[t a ch|s|s|t d] r IH]; cbn; try assumption; reflexivity. Qed.

Lemma peek_glue_text s l : peek (glue (Text s) l) = peek l.
Proof. destruct l as [|[t a ch|s2|s2|t d] r]; reflexivity. Qed.
Lemma text_of_glue x l : text_of (glue x l) = text_of (x :: l).
Proof.
  destruct x as [t a ch|s|s|t d]; try reflexivity. destruct l as [|[t a ch|s2|s2|t d] r]; try reflexivity.
  cbn. now rewrite app_assoc.
Qed.
Lemma glue_length x l : (List.length (glue x l) <= S (List.length l))%nat.
Proof. destruct x as [t a ch|s|s|t d]; cbn; try lia. destruct l as [|[t a ch|s2|s2|t d] r]; cbn; lia. Qed.

Lemma merges_length c : (List.length (merges c) <= List.length c)%nat.
Proof. induction c as [|y r IH]; cbn [merges]; [lia|]. fold merges. pose proof (glue_length (merge1 y) (merges r)). cbn. lia. Qed.
Lemma peek_merges c :
  peek (merges c) = match peek c with Some (t, a, ch, r) => Some (t, a, merges ch, merges r) | None => None end.
Proof.
  induction c as [|[t a ch|s|s|t d] r IH]; cbn [merges merge1]; fold merges; try reflexivity.
  - rewrite peek_glue_text. exact IH.
  - exact IH.
  - exact IH.
Qed.
Lemma text_of_merges c : text_of (merges c) = text_of c.
Proof.
  induction c as [|y r IH]; cbn [merges]; [reflexivity|]. fold merges. rewrite text_of_glue.
  destruct y as [t a ch|s|s|t d]; cbn [merge1 text_of]; try exact IH. now rewrite IH.
Qed.

(* iteration over the element children, expressed with peek *)
Lemma peek_shorter : forall c t a ch r, peek c = Some (t, a, ch, r) -> (List.length r < List.length c)%nat.
Proof.
  induction c as [|[t0 a0 ch0|s|s|t0 d] rest IH]; intros t a ch r H; cbn in *; try discriminate;
    try (specialize (IH _ _ _ _ H); lia). injection H as <- <- <- <-. lia.
Qed.
Fixpoint size (x : xml) : nat :=
  match x with
  | Elem _ _ ch => S ((fix go (l : list xml) : nat := match l with [] => O | y :: r => (size y + go r)%nat end) ch)
  | _ => 1%nat
  end.
Definition sizes := fix go (l : list xml) : nat := match l with [] => O | y :: r => (size y + go r)%nat end.
Lemma peek_size : forall c t a ch r, peek c = Some (t, a, ch, r) -> (sizes ch + sizes r < sizes c)%nat.
Proof.
  induction c as [|[t0 a0 ch0|s|s|t0 d] rest IH]; intros t a ch r H; cbn [peek sizes size] in *; fold sizes in *;
    try discriminate; try (specialize (IH _ _ _ _ H); lia). injection H as <- <- <- <-. lia.
Qed.

Lemma p_sentries_peek fixed c :
  p_sentries fixed c =
  match peek c with
  | None => Ok []
  | Some (t, a, ch, r) =>
      if str_eqb t T_StructEntry then
        let? e := run_elem (p_sentry fixed) a ch in let? es := p_sentries fixed r in Ok (e :: es)
      else Panic
  end.
Proof. induction c as [|[t a ch|s|s|t d] r IH]; cbn [p_sentries peek]; try exact IH; reflexivity. Qed.
Lemma group_go_peek fixed c acc :
  group_go fixed c acc =
  match peek c with
  | None => Ok acc
  | Some (t, a, ch, r) => let? p := parse_node fixed (pr_fresh acc) (Elem t a ch) in group_go fixed r (pres_app acc p)
  end.
Proof. revert acc. induction c as [|[t a ch|s|s|t d] r IH]; intros acc; cbn [group_go peek]; fold (group_go fixed); try apply IH; reflexivity. Qed.
Lemma parse_children_peek fixed c fresh st :
  parse_children fixed c fresh st =
  match peek c with
  | None => Ok st
  | Some (t, a, ch, r) =>
      let? p := parse_node fixed fresh (Elem t a ch) in
      let? ns := store_all (s_nodes st) (pr_stored p ++ pr_ret p) in
      parse_children fixed r (pr_fresh p) (mkStore ns (s_invs st ++ pr_invs p))
  end.
Proof. revert fresh st. induction c as [|[t a ch|s|s|t d] r IH]; intros fresh st; cbn [parse_children peek]; try apply IH; reflexivity. Qed.

(* ---------------------------------------------------------------------------------------------- *)
(* a transformation T of child lists that keeps the element sequence (children transformed recursively) and the
   text of every list: a success on the transformed cursor is the same success on the original one *)
Section Transformer.
Variable T : list xml -> list xml.
Hypothesis peek_T : forall c,
  peek (T c) = match peek c with Some (t, a, ch, r) => Some (t, a, T ch, T r) | None => None end.
Hypothesis text_of_T : forall ch, text_of (T ch) = text_of ch.
Hypothesis T_length : forall c, (List.length (T c) <= List.length c)%nat.

Lemma T_nil : T [] = [].
Proof. pose proof (T_length []) as H. destruct (T []); [reflexivity | cbn in H; lia]. Qed.
Definition Inv {A} (p : P A) : Prop :=
  forall c a r', p (T c) = Ok (a, r') -> exists r, p c = Ok (a, r) /\ T r = r'.

Lemma Inv_ret {A} (a : A) : Inv (ret a).
Proof. intros c x r' H. apply Ok_inj in H. injection H as <- <-. exists c. split; reflexivity. Qed.
Lemma Inv_fail {A} : Inv (@fail A).
Proof. intros c x r' H. discriminate. Qed.
Lemma Inv_err {A} e : Inv (fun _ : list xml => @Err (A * list xml) e).
Proof. intros c x r' H. discriminate. Qed.
Lemma Inv_lift {A} (o : outcome A) : Inv (lift o).
Proof. intros c x r' H. destruct o; cbn in H; try discriminate. apply Ok_inj in H. injection H as <- <-. exists c. split; reflexivity. Qed.
Lemma Inv_bind {A B} (p : P A) (f : A -> P B) : Inv p -> (forall a, Inv (f a)) -> Inv (bindP p f).
Proof.
  intros Hp Hf c b r' H. unfold bindP in *. destruct (p (T c)) as [[a1 r1']| |] eqn:E; try discriminate.
  destruct (Hp _ _ _ E) as (r1 & E1 & C1). rewrite <- C1 in H. destruct (Hf a1 _ _ _ H) as (r & E2 & C2).
  exists r. rewrite E1. split; assumption.
Qed.
Lemma Inv_mapP {A B} (g : A -> B) (p : P A) : Inv p -> Inv (mapP g p).
Proof. intros H. apply Inv_bind; [exact H | intros a; apply Inv_ret]. Qed.

Lemma Inv_next_text : Inv next_text.
Proof.
  intros c a r' H. unfold next_text in *. rewrite peek_T in H.
  destruct (peek c) as [[[[t x] ch] r]|]; [|discriminate]. apply Ok_inj in H. injection H as <- <-.
  exists r. now rewrite text_of_T.
Qed.
Lemma Inv_peek_text : Inv peek_text.
Proof.
  intros c a r' H. unfold peek_text in *. rewrite peek_T in H.
  destruct (peek c) as [[[[t x] ch] r]|]; [|discriminate]. apply Ok_inj in H. injection H as <- <-.
  exists c. now rewrite text_of_T.
Qed.
Lemma Inv_peek_attr n : Inv (peek_attr n).
Proof.
  intros c a r' H. unfold peek_attr in *. rewrite peek_T in H.
  destruct (peek c) as [[[[t x] ch] r]|]; [|discriminate]. apply Ok_inj in H. injection H as <- <-.
  exists c. split; reflexivity.
Qed.
Lemma Inv_peek_tag : Inv peek_tag.
Proof.
  intros c a r' H. unfold peek_tag in *. rewrite peek_T in H.
  destruct (peek c) as [[[[t x] ch] r]|]; [|discriminate]. apply Ok_inj in H. injection H as <- <-.
  exists c. split; reflexivity.
Qed.

Lemma Inv_parse_if {A} tag (p : P A) : Inv p -> Inv (parse_if tag p).
Proof.
  intros Hp c a r' H. unfold parse_if in *. rewrite peek_T in H.
  destruct (peek c) as [[[[t x] ch] r]|].
  - destruct (str_eqb t tag); [exact (Inv_mapP Some p Hp c a r' H)|].
    apply Ok_inj in H. injection H as <- <-. exists c. split; reflexivity.
  - apply Ok_inj in H. injection H as <- <-. exists c. split; reflexivity.
Qed.
Lemma Inv_or_else {A} (p q : P (option A)) : Inv p -> Inv q -> Inv (or_else p q).
Proof. intros Hp Hq. apply Inv_bind; [exact Hp|]. intros [a|]; [apply Inv_ret | exact Hq]. Qed.

Lemma loop_f_inv {A} (step : P (option A)) : Inv step ->
  forall f1 c l r', loop_f f1 step (T c) = Ok (l, r') -> forall f2, (f1 <= f2)%nat ->
  exists r, loop_f f2 step c = Ok (l, r) /\ T r = r'.
Proof.
  intros Hs. induction f1 as [|f1 IH]; intros c l r' H f2 Hf; [discriminate|].
  destruct f2 as [|f2]; [lia|]. cbn [loop_f] in *. unfold bindP in *.
  destruct (step (T c)) as [[x r1']| |] eqn:E; try discriminate.
  destruct (Hs _ _ _ E) as (r1 & E1 & C1). rewrite E1. destruct x as [a|].
  - destruct (loop_f f1 step r1') as [[l2 r2']| |] eqn:E2; try discriminate.
    apply Ok_inj in H. injection H as <- <-. rewrite <- C1 in E2.
    destruct (IH _ _ _ E2 f2 ltac:(lia)) as (r2 & E3 & C3). rewrite E3. exists r2. split; [reflexivity | exact C3].
  - apply Ok_inj in H. injection H as <- <-. exists r1. split; [reflexivity | exact C1].
Qed.
Lemma Inv_loop {A} (step : P (option A)) : Inv step -> Inv (loop step).
Proof.
  intros Hs c l r' H. unfold loop in *. apply (loop_f_inv step Hs _ _ _ _ H). pose proof (T_length c). lia.
Qed.
Lemma Inv_parse_while {A} tag (p : P A) : Inv p -> Inv (parse_while tag p).
Proof. intros H. apply Inv_loop, Inv_parse_if, H. Qed.

Lemma Inv_with_attr {A} attrs (f : attr Par -> P A) : (forall a, Inv (f a)) -> Inv (with_attr attrs f).
Proof. intros H. unfold with_attr. destruct (parse_attr attrs); [apply H | apply Inv_err | apply Inv_fail]. Qed.

Lemma run_elem_inv {A} (p : list (str * str) -> P A) attrs ch v :
  Inv (p attrs) -> run_elem p attrs (T ch) = Ok v -> run_elem p attrs ch = Ok v.
Proof.
  intros Hp H. unfold run_elem in *. destruct (p attrs (T ch)) as [[a r']| |] eqn:E; try discriminate.
  destruct (Hp _ _ _ E) as (r & E1 & _). rewrite E1. exact H.
Qed.

(* next_if / next_elem hand the children of the element to the continuation *)
Lemma Inv_next_if {B} tag (h : option (list (str * str) * list xml) -> P B) :
  (forall x, Inv (h x)) ->
  (forall a ch c b r, h (Some (a, T ch)) c = Ok (b, r) -> h (Some (a, ch)) c = Ok (b, r)) ->
  Inv (let! v := next_if tag in h v).
Proof.
  intros H1 H2 c b r' H. unfold bindP, next_if in *. rewrite peek_T in H.
  destruct (peek c) as [[[[t x] ch] r]|].
  - destruct (str_eqb t tag).
    + destruct (H1 _ _ _ _ H) as (r2 & E2 & C2). exists r2. split; [apply H2; exact E2 | exact C2].
    + exact (H1 None c b r' H).
  - exact (H1 None c b r' H).
Qed.
Lemma Inv_next_elem {B} (h : option (str * list (str * str) * list xml) -> P B) :
  (forall x, Inv (h x)) ->
  (forall t a ch c b r, h (Some (t, a, T ch)) c = Ok (b, r) -> h (Some (t, a, ch)) c = Ok (b, r)) ->
  Inv (let! v := next_elem in h v).
Proof.
  intros H1 H2 c b r' H. unfold bindP, next_elem in *. rewrite peek_T in H.
  destruct (peek c) as [[[[t x] ch] r]|].
  - destruct (H1 _ _ _ _ H) as (r2 & E2 & C2). exists r2. split; [apply H2; exact E2 | exact C2].
  - exact (H1 None c b r' H).
Qed.

Create HintDb inv.
#[local] Hint Resolve Inv_next_text Inv_peek_text Inv_peek_attr Inv_peek_tag : inv.

Ltac inv_tac :=
  cbv zeta;
  repeat first
    [ solve [eauto 6 with inv]
    | apply Inv_ret | apply Inv_fail | apply Inv_err | apply Inv_lift
    | apply Inv_bind; [| intros ?]
    | apply Inv_mapP | apply Inv_parse_while | apply Inv_parse_if | apply Inv_or_else | apply Inv_loop
    | apply Inv_with_attr; intros ?
    | match goal with |- Inv (match ?x with _ => _ end) => destruct x end
    | match goal with |- Inv (if ?b then _ else _) => destruct b end ].

Lemma Inv_p_string : Inv p_string. Proof. exact Inv_next_text. Qed.
Lemma Inv_p_nodeid : Inv p_nodeid. Proof. exact Inv_next_text. Qed.
Lemma Inv_p_bool : Inv p_bool. Proof. unfold p_bool. inv_tac. Qed.
Lemma Inv_p_i64 : Inv p_i64. Proof. unfold p_i64. inv_tac. Qed.
Lemma Inv_p_u64 : Inv p_u64. Proof. unfold p_u64. inv_tac. Qed.
Lemma Inv_p_hex64 : Inv p_hex64. Proof. unfold p_hex64. inv_tac. Qed.
Lemma Inv_p_f64 : Inv p_f64. Proof. unfold p_f64. inv_tac. Qed.
Lemma Inv_p_enum {A} (tbl : list (str * A)) : Inv (p_enum tbl). Proof. unfold p_enum. inv_tac. Qed.
#[local] Hint Resolve Inv_p_string Inv_p_nodeid Inv_p_bool Inv_p_i64 Inv_p_u64 Inv_p_hex64 Inv_p_f64 Inv_p_enum : inv.
Lemma Inv_p_imm_i64 : Inv p_imm_i64. Proof. unfold p_imm_i64. inv_tac. Qed.
Lemma Inv_p_imm_f64 : Inv p_imm_f64. Proof. unfold p_imm_f64. inv_tac. Qed.
Lemma Inv_p_imm_bool : Inv p_imm_bool. Proof. unfold p_imm_bool. inv_tac. Qed.
#[local] Hint Resolve Inv_p_imm_i64 Inv_p_imm_f64 Inv_p_imm_bool : inv.
Lemma Inv_p_eb : Inv p_eb. Proof. unfold p_eb. inv_tac. Qed.
Lemma Inv_p_pvalue : Inv p_pvalue. Proof. unfold p_pvalue. inv_tac. Qed.
#[local] Hint Resolve Inv_p_eb Inv_p_pvalue : inv.
Lemma Inv_p_value_indexed {L} (pimm : P (imm L)) : Inv pimm -> Inv (p_value_indexed pimm).
Proof. intros H. unfold p_value_indexed. inv_tac. Qed.
#[local] Hint Resolve Inv_p_value_indexed : inv.
Lemma Inv_p_pindex {L} (pimm : P (imm L)) : Inv pimm -> Inv (p_pindex pimm).
Proof. intros H. unfold p_pindex. inv_tac. Qed.
#[local] Hint Resolve Inv_p_pindex : inv.
Lemma Inv_p_vkind {L} (pT : P L) (pimm : P (imm L)) : Inv pT -> Inv pimm -> Inv (p_vkind pT pimm).
Proof. intros H1 H2. unfold p_vkind. inv_tac. Qed.
Lemma Inv_p_named {A} (p : P A) : Inv p -> Inv (p_named p).
Proof. intros H. unfold p_named. inv_tac. Qed.
Lemma Inv_p_bitmask : Inv p_bitmask. Proof. unfold p_bitmask. inv_tac. Qed.
#[local] Hint Resolve Inv_p_vkind Inv_p_named Inv_p_bitmask : inv.
Lemma Inv_p_iswiss attrs : Inv (p_iswiss attrs). Proof. unfold p_iswiss. inv_tac. Qed.
Lemma Inv_p_reg_pindex : Inv p_reg_pindex. Proof. unfold p_reg_pindex. inv_tac. Qed.
#[local] Hint Resolve Inv_p_iswiss Inv_p_reg_pindex : inv.

Lemma lift_run_elem_inv {A B} (p : list (str * str) -> P A) (g : A -> P B) attrs ch c b r :
  Inv (p attrs) ->
  (let! k := lift (run_elem p attrs (T ch)) in g k) c = Ok (b, r) ->
  (let! k := lift (run_elem p attrs ch) in g k) c = Ok (b, r).
Proof.
  intros Hp H. unfold bindP, lift in *.
  destruct (run_elem p attrs (T ch)) as [v| |] eqn:E; try discriminate.
  rewrite (run_elem_inv p attrs ch v Hp E). exact H.
Qed.

Lemma Inv_p_addr : Inv p_addr.
Proof.
  unfold p_addr. apply Inv_bind; [apply Inv_peek_tag|]. intros t.
  destruct (str_eqb t T_Address || str_eqb t T_pAddress); [inv_tac|].
  destruct (str_eqb t T_IntSwissKnife); [|inv_tac].
  apply Inv_next_elem.
  - intros [[[t0 a] ch]|]; inv_tac.
  - intros t0 a ch c b r H. apply (lift_run_elem_inv p_iswiss _ a ch c b r (Inv_p_iswiss a) H).
Qed.
#[local] Hint Resolve Inv_p_addr : inv.

Lemma Inv_p_rb : Inv p_rb. Proof. unfold p_rb. inv_tac. Qed.
#[local] Hint Resolve Inv_p_rb : inv.

Lemma Inv_p_plain a : Inv (p_plain a). Proof. unfold p_plain. inv_tac. Qed.
Lemma Inv_p_category a : Inv (p_category a). Proof. unfold p_category. inv_tac. Qed.
Lemma Inv_p_integer a : Inv (p_integer a). Proof. unfold p_integer. inv_tac. Qed.
Lemma Inv_p_intreg a : Inv (p_intreg a). Proof. unfold p_intreg. inv_tac. Qed.
Lemma Inv_p_masked a : Inv (p_masked a). Proof. unfold p_masked. inv_tac. Qed.
Lemma Inv_p_boolean a : Inv (p_boolean a). Proof. unfold p_boolean. inv_tac. Qed.
Lemma Inv_p_command a : Inv (p_command a). Proof. unfold p_command. inv_tac. Qed.
Lemma Inv_p_float a : Inv (p_float a). Proof. unfold p_float. inv_tac. Qed.
Lemma Inv_p_floatreg a : Inv (p_floatreg a). Proof. unfold p_floatreg. inv_tac. Qed.
Lemma Inv_p_regnode a : Inv (p_regnode a). Proof. unfold p_regnode. inv_tac. Qed.
Lemma Inv_p_fswiss a : Inv (p_fswiss a). Proof. unfold p_fswiss. inv_tac. Qed.
Lemma Inv_p_iconv a : Inv (p_iconv a). Proof. unfold p_iconv. inv_tac. Qed.
Lemma Inv_p_fconv a : Inv (p_fconv a). Proof. unfold p_fconv. inv_tac. Qed.
Lemma Inv_p_sentry fixed a : Inv (p_sentry fixed a). Proof. unfold p_sentry. inv_tac. Qed.
Lemma Inv_p_enumentry fresh a : Inv (p_enumentry fresh a). Proof. unfold p_enumentry. inv_tac. Qed.

Lemma Inv_p_stringn a : Inv (p_stringn a).
Proof.
  unfold p_stringn. apply Inv_with_attr. intros at0. apply Inv_bind; [inv_tac|]. intros e.
  apply Inv_bind; [inv_tac|]. intros st. apply Inv_next_if.
  - intros [[a0 ch]|]; inv_tac.
  - intros a0 ch c b r H. now rewrite text_of_T in H.
Qed.

Lemma Inv_p_port a : Inv (p_port a).
Proof.
  unfold p_port. apply Inv_with_attr. intros at0. apply Inv_bind; [inv_tac|]. intros e.
  apply Inv_next_if.
  - intros [[a0 ch]|].
    + inv_tac.
    + apply Inv_bind; [|intros ?; inv_tac]. apply Inv_next_if.
      * intros [[a1 ch1]|]; inv_tac.
      * intros a1 ch1 c b r H. now rewrite text_of_T in H.
  - intros a0 ch c b r H. now rewrite text_of_T in H.
Qed.

Lemma p_enumentries_inv : forall f1 fresh c l r', p_enumentries f1 fresh (T c) = Ok (l, r') ->
  forall f2, (f1 <= f2)%nat -> exists r, p_enumentries f2 fresh c = Ok (l, r) /\ T r = r'.
Proof.
  induction f1 as [|f1 IH]; intros fresh c l r' H f2 Hf; [discriminate|].
  destruct f2 as [|f2]; [lia|]. cbn [p_enumentries] in *. unfold bindP, next_if in *. rewrite peek_T in H.
  destruct (peek c) as [[[[t x] ch] r]|].
  - destruct (str_eqb t T_EnumEntry).
    + unfold lift in *. destruct (run_elem (p_enumentry fresh) x (T ch)) as [e| |] eqn:E; try discriminate.
      rewrite (run_elem_inv _ _ _ _ (Inv_p_enumentry fresh x) E).
      destruct (p_enumentries f1 (fresh + 1) (T r)) as [[l2 r2']| |] eqn:E2; try discriminate.
      destruct (IH _ _ _ _ E2 f2 ltac:(lia)) as (r2 & E3 & C3). rewrite E3.
      apply Ok_inj in H. injection H as <- <-. exists r2. split; [reflexivity | exact C3].
    + apply Ok_inj in H. injection H as <- <-. exists c. split; reflexivity.
  - apply Ok_inj in H. injection H as <- <-. exists c. split; reflexivity.
Qed.

Lemma Inv_p_enumeration fresh a : Inv (p_enumeration fresh a).
Proof.
  unfold p_enumeration. apply Inv_with_attr. intros at0. apply Inv_bind; [inv_tac|]. intros e.
  apply Inv_bind; [inv_tac|]. intros st. apply Inv_bind; [|intros ?; inv_tac].
  intros c l r' H. apply (p_enumentries_inv _ _ _ _ _ H). pose proof (T_length c). lia.
Qed.

Lemma p_sentries_inv fixed : forall n c l, (List.length c < n)%nat ->
  p_sentries fixed (T c) = Ok l -> p_sentries fixed c = Ok l.
Proof.
  induction n as [|n IH]; intros c l Hn H; [lia|].
  rewrite p_sentries_peek in *. rewrite peek_T in H. destruct (peek c) as [[[[t a] ch] r]|] eqn:EP; [|exact H].
  destruct (str_eqb t T_StructEntry); [|discriminate].
  destruct (run_elem (p_sentry fixed) a (T ch)) as [e| |] eqn:E; try discriminate.
  rewrite (run_elem_inv _ _ _ _ (Inv_p_sentry fixed a) E). cbn [bind] in *.
  destruct (p_sentries fixed (T r)) as [es| |] eqn:E2; try discriminate.
  pose proof (peek_shorter _ _ _ _ _ EP). rewrite (IH r es ltac:(lia) E2). exact H.
Qed.

Lemma Inv_p_struct fixed : Inv (p_struct fixed).
Proof.
  unfold p_struct. apply Inv_bind; [inv_tac|]. intros r. apply Inv_bind; [inv_tac|]. intros en.
  intros c v r' H. destruct (p_sentries fixed (T c)) as [es| |] eqn:E; try discriminate.
  rewrite (p_sentries_inv fixed _ c es (Nat.lt_succ_diag_r _) E). cbn [bind] in *. apply Ok_inj in H. injection H as <- <-.
  exists []. split; [reflexivity | exact T_nil].
Qed.

Lemma on_ok_inv {A} (p : P A) (f : A -> presult) ch r : Inv p -> on_ok (p (T ch)) f = Ok r -> on_ok (p ch) f = Ok r.
Proof.
  intros Hp H. unfold on_ok in *. destruct (p (T ch)) as [[a r']| |] eqn:E; try discriminate.
  destruct (Hp _ _ _ E) as (r2 & E2 & _). rewrite E2. exact H.
Qed.

Lemma parse_leaf_inv fixed fresh tag attrs ch r :
  parse_leaf fixed fresh tag attrs (T ch) = Ok r -> parse_leaf fixed fresh tag attrs ch = Ok r.
Proof.
  unfold parse_leaf.
  repeat match goal with |- context [if ?b then _ else _] => destruct b end; try (intros H; exact H);
    apply on_ok_inv;
    first [ apply Inv_p_plain | apply Inv_p_category | apply Inv_p_integer | apply Inv_p_intreg | apply Inv_p_masked
          | apply Inv_p_boolean | apply Inv_p_command | apply Inv_p_enumeration | apply Inv_p_float
          | apply Inv_p_floatreg | apply Inv_p_stringn | apply Inv_p_regnode | apply Inv_p_iswiss | apply Inv_p_port
          | apply Inv_p_struct | apply Inv_p_fswiss | apply Inv_p_iconv | apply Inv_p_fconv ].
Qed.

(* ---------------------------------------------------------------------------------------------- *)
(* nodes, groups, the document                                                                      *)

Lemma parse_node_inv fixed : forall n t a ch fresh p, (sizes ch < n)%nat ->
  parse_node fixed fresh (Elem t a (T ch)) = Ok p -> parse_node fixed fresh (Elem t a ch) = Ok p.
Proof.
  induction n as [|n IH]; intros t a ch fresh p Hn; [lia|].
  cbn [parse_node]. destruct (str_eqb t T_Group); [|apply parse_leaf_inv].
  fold (group_go fixed). generalize (mkPres [] [] [] fresh) as acc.
  assert (G : forall m c, (List.length c < m)%nat -> (sizes c <= sizes ch)%nat -> forall acc,
            group_go fixed (T c) acc = Ok p -> group_go fixed c acc = Ok p).
  { induction m as [|m IHm]; intros c Hm Hs acc H; [lia|].
    rewrite group_go_peek in *. rewrite peek_T in H. destruct (peek c) as [[[[t2 a2] ch2] r]|] eqn:EP; [|exact H].
    pose proof (peek_shorter _ _ _ _ _ EP). pose proof (peek_size _ _ _ _ _ EP).
    destruct (parse_node fixed (pr_fresh acc) (Elem t2 a2 (T ch2))) as [q| |] eqn:E; try discriminate.
    rewrite (IH t2 a2 ch2 (pr_fresh acc) q ltac:(lia) E). cbn [bind] in *.
    apply IHm; [lia | lia | exact H]. }
  intros acc. apply (G (S (List.length ch)) ch); lia.
Qed.

Lemma parse_children_inv fixed : forall n c fresh st r, (List.length c < n)%nat ->
  parse_children fixed (T c) fresh st = Ok r -> parse_children fixed c fresh st = Ok r.
Proof.
  induction n as [|n IH]; intros c fresh st r Hn H; [lia|].
  rewrite parse_children_peek in *. rewrite peek_T in H. destruct (peek c) as [[[[t a] ch] rest]|] eqn:EP; [|exact H].
  pose proof (peek_shorter _ _ _ _ _ EP).
  destruct (parse_node fixed fresh (Elem t a (T ch))) as [q| |] eqn:E; try discriminate.
  rewrite (parse_node_inv fixed _ t a ch fresh q (Nat.lt_succ_diag_r _) E). cbn [bind] in *.
  destruct (store_all (s_nodes st) (pr_stored q ++ pr_ret q)) as [ns| |]; try discriminate. cbn [bind] in *.
  apply IH; [lia | exact H].
Qed.

Lemma parse_doc_inv fixed t a ch r :
  parse_doc fixed (Elem t a (T ch)) = Ok r -> parse_doc fixed (Elem t a ch) = Ok r.
Proof.
  unfold parse_doc. destruct (negb (str_eqb t T_RegisterDescription)); [intros H; exact H|].
  destruct (parse_regdesc a) as [rd| |]; cbn [bind]; try (intros H; exact H).
  destruct (parse_children fixed (T ch) 0 (mkStore [] [])) as [st| |] eqn:E; try discriminate.
  rewrite (parse_children_inv fixed _ ch 0 _ st (Nat.lt_succ_diag_r _) E). intros H. exact H.
Qed.

End Transformer.

(* a document that builds in normal form (comments and processing instructions removed, adjacent text pieces
   glued, at every depth) builds to the same description and store as it stands *)
Lemma comments_ignored fixed t a ch r :
  parse_doc fixed (Elem t a (norm ch)) = Ok r -> parse_doc fixed (Elem t a ch) = Ok r.
Proof.
  intros H. apply (parse_doc_inv cleans peek_cleans text_of_cleans cleans_length).
  apply (parse_doc_inv merges peek_merges text_of_merges merges_length). exact H.
Qed.

(* ... in particular a rendered document with comments / processing instructions inserted anywhere - between
   elements, at any position inside element texts, inside nested elements - builds to the expected store *)
Lemma comments_ignored_document attrs rd ns ch :
  norm ch = map render ns ->
  parse_regdesc attrs = Ok rd -> Forall wf_node ns -> NoDup (map nd_name (doc_nodes ns)) ->
  parse_doc true (Elem T_RegisterDescription attrs ch) = Ok (rd, mkStore (doc_nodes ns) (doc_invs ns)).
Proof.
  intros C R W N. apply comments_ignored. rewrite C. exact (proj1 (document attrs rd ns R W N)).
Qed.

(* non-vacuity: <Value>1<!--a-->2<?b?>3<!----></Value> inside an Integer, with noise around, reads 123 *)
Definition interrupted_integer : integer Src :=
  mkInteger Src (mkAttr Src [65] None None None) eb0 None (SvValue (IL FmDec 123)) None None None None None [].
Definition interrupted_example : list xml :=
  [Comment [120]; Elem T_Integer [(T_Name, [65])]
     [PI [98] []; Elem T_Value [] [Text [49]; Comment [97]; Text [50]; PI [98] []; Text [51]; Comment []]; Comment [32]]].
Lemma interrupted_example_ok :
  norm interrupted_example = map render [SnInteger interrupted_integer] /\
  Forall wf_node [SnInteger interrupted_integer] /\
  NoDup (map nd_name (doc_nodes [SnInteger interrupted_integer])) /\
  i_value (n_integer interrupted_integer) = VkValue 123.
Proof.
  split; [vm_compute; reflexivity|]. split; [|split; [|reflexivity]].
  - repeat constructor; try exact Logic.I; vm_compute; congruence.
  - vm_compute. repeat constructor. intros [].
Qed.
