(* C04, adaptive clients: the step simulation of P_C04 lifted to every client tree. *)
From Cam Require Import Outcome Bytes Mem BitField RegCodec Cache CacheSpec P_C04 CacheClient.

Section Clients.
Variable y : system.
Hypothesis HD : Declared y.

Lemma sim_client c : simS y (run_client true cur y c) (run_client false cur y c).
Proof.
  induction c as [r|op k IH]; intros sc su HS; cbn [run_client]; [cbn [fst snd]; auto|].
  destruct (sim_step y HD op sc su HS) as [E1 S1].
  destruct (step true cur y op sc) as [oc sc1], (step false cur y op su) as [ou su1].
  cbn [fst snd] in *. subst ou.
  destruct (IH oc sc1 su1 S1) as [E2 S2].
  destruct (run_client true cur y (k oc) sc1) as [tc sc2], (run_client false cur y (k oc) su1) as [tu su2].
  cbn [fst snd] in *. subst tu. auto.
Qed.

Lemma sim_history_of c : forall sc su, Sim y sc su ->
  history_of true cur y c sc = history_of false cur y c su.
Proof.
  induction c as [r|op k IH]; intros sc su HS; cbn [history_of]; [reflexivity|].
  destruct (sim_step y HD op sc su HS) as [E1 S1].
  destruct (step true cur y op sc) as [oc sc1], (step false cur y op su) as [ou su1].
  cbn [fst snd] in *. subst ou. f_equal. now apply IH.
Qed.

End Clients.

Lemma client_transparent y : Declared y -> forall base image vars rej c,
  cl_trace (client_run true cur y base image vars rej c) = cl_trace (client_run false cur y base image vars rej c) /\
  cl_answer (client_run true cur y base image vars rej c) = cl_answer (client_run false cur y base image vars rej c) /\
  cl_mem (client_run true cur y base image vars rej c) = cl_mem (client_run false cur y base image vars rej c).
Proof.
  intros HD base image vars rej c. unfold client_run, cl_trace, cl_answer, cl_mem.
  destruct (sim_client y HD c _ _ (Sim_init y base image vars rej)) as [E S].
  rewrite E. repeat split. apply S.
Qed.

Lemma client_no_extra_access y : Declared y -> forall base image vars rej c,
  sublist (cl_log (client_run true cur y base image vars rej c)) (cl_log (client_run false cur y base image vars rej c)) /\
  writes_of (cl_log (client_run true cur y base image vars rej c)) =
  writes_of (cl_log (client_run false cur y base image vars rej c)).
Proof.
  intros HD base image vars rej c. unfold client_run, cl_log.
  destruct (sim_client y HD c _ _ (Sim_init y base image vars rej)) as [E S]. split; apply S.
Qed.

(* cached and uncached runs of one client perform the same operations: the client takes the same branch at
   every step *)
Lemma client_same_branches y : Declared y -> forall base image vars rej c,
  history_of true cur y c (init base image vars rej) = history_of false cur y c (init base image vars rej).
Proof. intros HD base image vars rej c. apply sim_history_of; auto. apply Sim_init. Qed.

(* a client run IS the run of the history it performs: the correspondence check, which replays histories on the
   code, therefore covers adaptive evaluators as well *)
Lemma client_is_history on v y c : forall s,
  cl_trace (run_client on v y c s) = fst (run_ops on v y (history_of on v y c s) s) /\
  snd (run_client on v y c s) = snd (run_ops on v y (history_of on v y c s) s).
Proof.
  induction c as [r|op k IH]; intros s; cbn [run_client history_of run_ops]; [split; reflexivity|].
  destruct (step on v y op s) as [o s1] eqn:Es. cbn [run_ops]. rewrite Es.
  specialize (IH o s1). unfold cl_trace in *.
  destruct (run_client on v y (k o) s1) as [t s2], (run_ops on v y (history_of on v y (k o) s1) s1) as [os s3].
  cbn [fst snd] in *. destruct IH as [-> ->]. split; reflexivity.
Qed.

Lemma history_is_client on v y h : forall s,
  cl_trace (run_client on v y (client_of_history h) s) = fst (run_ops on v y h s) /\
  snd (run_client on v y (client_of_history h) s) = snd (run_ops on v y h s).
Proof.
  induction h as [|op h IH]; intros s; cbn [client_of_history run_client run_ops]; [split; reflexivity|].
  destruct (step on v y op s) as [o s1]. specialize (IH s1). unfold cl_trace in *.
  destruct (run_client on v y (client_of_history h) s1) as [t s2], (run_ops on v y h s1) as [os s3].
  cbn [fst snd] in *. destruct IH as [-> ->]. split; reflexivity.
Qed.

(* non-vacuity: the adaptive example over the selector-addressed bank takes a data-dependent branch, answers
   the same with and without the cache, and the cache saves a device access *)
Lemma client_example :
  Declared ex_bank /\
  let xc := client_run true cur ex_bank 256 wit_image [0] [] ex_client in
  let xu := client_run false cur ex_bank 256 wit_image [0] [] ex_client in
  cl_answer xc = cl_answer xu /\ cl_answer xc <> [] /\
  history_of true cur ex_bank ex_client (init 256 wit_image [0] []) =
    [OpValue 2; OpSet 0 [1]; OpValue 1; OpValue 1] /\
  (length (cl_log xc) < length (cl_log xu))%nat.
Proof. split; [exact declared_ex_bank|]. vm_compute. repeat split; try lia. discriminate. Qed.
