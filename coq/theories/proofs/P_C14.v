(* Proofs for C14 (model/XmlFetch.v against spec/ManifestSpec.v). *)
From Cam Require Import XmlFetch ManifestSpec P_C06 P_C07.
From Cam Require U3VTables.

Lemma lossy_ascii bs : Forall (fun b => 0 <= b < 128) bs -> lossy bs = bs.
Proof.
  induction 1 as [|b r Hb Hr IH]; cbn [lossy]; auto.
  destruct (Z.ltb_spec b 128); [|lia]. now rewrite IH.
Qed.

(* from_utf8_lossy is the identity on well-formed UTF-8 (utf8_valid of spec/U3VTables.v: P_C13 proves it
   accepts exactly the encodings of Unicode scalar values) *)
Lemma lossy_valid_n : forall n bs, (length bs <= n)%nat -> U3VTables.utf8_valid bs = true -> lossy bs = bs.
Proof.
  induction n as [|n IH]; intros bs Hl Hv.
  - destruct bs; [reflexivity|cbn in Hl; lia].
  - destruct bs as [|b0 r]; [reflexivity|]. cbn [length] in Hl.
    cbn [U3VTables.utf8_valid] in Hv. cbn [lossy].
    unfold U3VTables.in_rng, U3VTables.cont, U3VTables.in_rng in Hv. unfold in_r, is_cont, ok3, ok4, in_r.
    destruct (Z.ltb_spec b0 128).
    { destruct ((0 <=? b0) && (b0 <=? 127)) eqn:E0.
      - rewrite IH; [reflexivity|lia|exact Hv].
      - exfalso. repeat match type of Hv with (if ?c then _ else _) = true => destruct c eqn:?; try discriminate end; lia. }
    assert (E0 : (0 <=? b0) && (b0 <=? 127) = false) by lia. rewrite E0 in Hv.
    destruct ((194 <=? b0) && (b0 <=? 223)) eqn:E2.
    { destruct r as [|b1 r1]; [discriminate|]. apply andb_prop in Hv as [Hc Hv]. rewrite Hc.
      rewrite IH; [reflexivity|cbn in *; lia|exact Hv]. }
    destruct ((224 <=? b0) && (b0 <=? 239)) eqn:E3.
    { destruct r as [|b1 [|b2 r2]]; try discriminate.
      apply andb_prop in Hv as [Hv Hr]. apply andb_prop in Hv as [H1 H2]. rewrite H2.
      assert (Hok : (b0 =? 224) && ((160 <=? b1) && (b1 <=? 191)) || (225 <=? b0) && (b0 <=? 236) && ((128 <=? b1) && (b1 <=? 191))
            || (b0 =? 237) && ((128 <=? b1) && (b1 <=? 159)) || (238 <=? b0) && (b0 <=? 239) && ((128 <=? b1) && (b1 <=? 191)) = true).
      { destruct (Z.eqb_spec b0 224); [rewrite H1; reflexivity|]. destruct (Z.eqb_spec b0 237); [rewrite H1; cbn; lia|]. rewrite H1. lia. }
      rewrite Hok. rewrite IH; [reflexivity|cbn in *; lia|exact Hr]. }
    destruct ((240 <=? b0) && (b0 <=? 244)) eqn:E4; [|discriminate].
    destruct r as [|b1 [|b2 [|b3 r3]]]; try discriminate.
    apply andb_prop in Hv as [Hv Hr]. apply andb_prop in Hv as [Hv H3]. apply andb_prop in Hv as [H1 H2]. rewrite H2, H3.
    assert (Hok : (b0 =? 240) && ((144 <=? b1) && (b1 <=? 191)) || (241 <=? b0) && (b0 <=? 243) && ((128 <=? b1) && (b1 <=? 191))
            || (b0 =? 244) && ((128 <=? b1) && (b1 <=? 143)) = true).
    { destruct (Z.eqb_spec b0 240); [rewrite H1; reflexivity|]. destruct (Z.eqb_spec b0 244); [rewrite H1; cbn; lia|]. rewrite H1. lia. }
    rewrite Hok. rewrite IH; [reflexivity|cbn in *; lia|exact Hr].
Qed.

Lemma lossy_valid bs : U3VTables.utf8_valid bs = true -> lossy bs = bs.
Proof. apply (lossy_valid_n (length bs)). lia. Qed.

Lemma pair_inj {A B} (a a' : A) (b b' : B) : (a, b) = (a', b') -> a = a' /\ b = b'.
Proof. intros H; split; congruence. Qed.

Lemma Ok_inj' {A} (a b : A) : Some a = Some b -> a = b.
Proof. congruence. Qed.

(* ---- the selection loop as a pure function over the entry list, and its meaning ------------- *)
Definition pstep (i : nat) (e : mentry) (cur : option (nat * mentry)) : option (option (nat * mentry)) :=
  if me_info e mod 8 =? 0 then
    match cur with
    | Some (j, c) => if ver_le (vkey e) (vkey c) then Some cur else Some (Some (i, e))
    | None => Some (Some (i, e))
    end
  else if me_info e mod 8 =? 1 then Some cur else None.

Fixpoint pick (i : nat) (es : list mentry) (cur : option (nat * mentry)) : option (option (nat * mentry)) :=
  match es with
  | [] => Some cur
  | e :: r => match pstep i e cur with Some c => pick (S i) r c | None => None end
  end.

Definition best_of (l : list mentry) (c : option (nat * mentry)) : Prop :=
  match c with
  | None => forall j e, nth_error l j = Some e -> ~ is_dev e
  | Some (i, e) => newest_at l i e
  end.

Lemma ver_le_spec a b : ver_le a b = true <-> lex_le a b.
Proof.
  destruct a as [[a1 a2] a3], b as [[b1 b2] b3]. unfold ver_le, lex_le, lex_lt.
  repeat (first [rewrite orb_true_iff | rewrite andb_true_iff]).
  rewrite !Z.ltb_lt, !Z.eqb_eq, Z.leb_le.
  split.
  - intros [?|[? [?|[? ?]]]]; [left; lia|left; lia|].
    destruct (Z.eq_dec a3 b3); [right; congruence|left; lia].
  - intros [?|E]; [lia|]. apply pair_inj in E as [E1 E3]; apply pair_inj in E1 as [E1 E2]. lia.
Qed.

Lemma lex_not_le a b : ~ lex_le a b -> lex_lt b a.
Proof.
  destruct a as [[a1 a2] a3], b as [[b1 b2] b3]. unfold lex_le, lex_lt. intros H.
  destruct (Z.lt_trichotomy a1 b1) as [?|[?|?]]; [elim H; left; lia| |lia].
  destruct (Z.lt_trichotomy a2 b2) as [?|[?|?]]; [elim H; left; lia| |lia].
  destruct (Z.lt_trichotomy a3 b3) as [?|[?|?]]; [elim H; left; lia| |lia].
  elim H. right. congruence.
Qed.

Lemma lex_le_lt_trans a b c : lex_le a b -> lex_lt b c -> lex_lt a c.
Proof.
  destruct a as [[a1 a2] a3], b as [[b1 b2] b3], c as [[c1 c2] c3]. unfold lex_le, lex_lt.
  intros [H|H] H'; [lia|]. apply pair_inj in H as [H1 H3]. apply pair_inj in H1 as [H1 H2]. lia.
Qed.

Lemma nth_error_snoc {A} (l : list A) x j y :
  nth_error (l ++ [x]) j = Some y ->
  ((j < length l)%nat /\ nth_error l j = Some y) \/ (j = length l /\ y = x).
Proof.
  intros H. destruct (Nat.lt_ge_cases j (length l)) as [Hl|Hl].
  - left. split; [exact Hl|]. now rewrite nth_error_app1 in H.
  - right. rewrite nth_error_app2 in H by exact Hl.
    destruct (j - length l)%nat as [|k] eqn:E.
    + cbn in H. split; [lia|congruence].
    + cbn in H. destruct k; discriminate.
Qed.

Lemma nth_error_snoc_l {A} (l : list A) x j y : nth_error l j = Some y -> nth_error (l ++ [x]) j = Some y.
Proof. intros H. rewrite nth_error_app1; [exact H|]. apply nth_error_Some. congruence. Qed.

Lemma keep_best pre e j c :
  newest_at pre j c -> (is_dev e -> lex_le (vkey e) (vkey c)) -> newest_at (pre ++ [e]) j c.
Proof.
  intros (Hn & Hd & Hall & Hearly) He. unfold newest_at.
  split; [now apply nth_error_snoc_l|]. split; [exact Hd|]. split.
  - intros k e' Hk Hdev. apply nth_error_snoc in Hk as [[_ Hk]|[_ ->]]; [eapply Hall; eauto|now apply He].
  - intros k e' Hlt Hk Hdev. apply nth_error_snoc in Hk as [[_ Hk]|[-> ->]]; [eapply Hearly; eauto|].
    assert (j < length pre)%nat by (apply nth_error_Some; congruence). lia.
Qed.

Lemma pstep_best pre e cur c' :
  best_of pre cur -> pstep (length pre) e cur = Some c' -> best_of (pre ++ [e]) c' /\ valid_type e.
Proof.
  intros Hb Hp. unfold pstep in Hp.
  assert (Hnew : (forall k e', nth_error pre k = Some e' -> is_dev e' -> lex_lt (vkey e') (vkey e)) ->
                 is_dev e -> newest_at (pre ++ [e]) (length pre) e).
  { intros Hlt Hd. unfold newest_at. split; [rewrite nth_error_app2, Nat.sub_diag by lia; reflexivity|].
    split; [exact Hd|]. split.
    - intros k e' Hk Hdev. apply nth_error_snoc in Hk as [[_ Hk]|[_ ->]]; [left; eapply Hlt; eauto|now right].
    - intros k e' Hlt' Hk Hdev. apply nth_error_snoc in Hk as [[_ Hk]|[Hk ->]]; [eapply Hlt; eauto|].
      exfalso. lia. }
  destruct (Z.eqb_spec (me_info e mod 8) 0) as [H0|H0].
  - assert (Hd : is_dev e) by exact H0.
    split; [|left; exact H0].
    destruct cur as [[j c]|].
    + destruct (ver_le (vkey e) (vkey c)) eqn:Ev; apply Ok_inj' in Hp; subst c'.
      * cbn [best_of] in *. apply keep_best; [exact Hb|]. intros _. now apply ver_le_spec.
      * cbn [best_of] in *. apply Hnew; [|exact Hd].
        assert (Hlt : lex_lt (vkey c) (vkey e)).
        { apply lex_not_le. intros Hc. apply ver_le_spec in Hc. congruence. }
        destruct Hb as (_ & _ & Hall & _). intros k e' Hk Hdev.
        eapply lex_le_lt_trans; [eapply Hall; eauto|exact Hlt].
    + apply Ok_inj' in Hp; subst c'. cbn [best_of] in *. apply Hnew; [|exact Hd].
      intros k e' Hk Hdev. elim (Hb _ _ Hk Hdev).
  - destruct (Z.eqb_spec (me_info e mod 8) 1) as [H1|H1]; [|discriminate].
    apply Ok_inj' in Hp; subst c'.
    assert (Hnd : ~ is_dev e) by (unfold is_dev; lia).
    split; [|right; exact H1].
    destruct cur as [[j c]|]; cbn [best_of] in *.
    + apply keep_best; [exact Hb|]. intros Hd. now elim Hnd.
    + intros k e' Hk. apply nth_error_snoc in Hk as [[_ Hk]|[_ ->]]; [eapply Hb; eauto|exact Hnd].
Qed.

Lemma pick_best es : forall pre cur r,
  best_of pre cur -> pick (length pre) es cur = Some r -> best_of (pre ++ es) r /\ Forall valid_type es.
Proof.
  induction es as [|e es IH]; intros pre cur r Hb Hp; cbn [pick] in Hp.
  - apply Ok_inj' in Hp; subst r. rewrite app_nil_r. split; [exact Hb|constructor].
  - destruct (pstep (length pre) e cur) as [c|] eqn:Es; [|discriminate].
    destruct (pstep_best _ _ _ _ Hb Es) as [Hb' Hv].
    replace (S (length pre)) with (length (pre ++ [e])) in Hp by (rewrite app_length; cbn; lia).
    destruct (IH _ _ _ Hb' Hp) as [Hr Hf]. rewrite <- app_assoc in Hr. cbn [app] in Hr.
    split; [exact Hr|constructor; assumption].
Qed.

Lemma pick_spec es r : pick 0 es None = Some r -> best_of es r /\ Forall valid_type es.
Proof.
  intros H. apply (pick_best es [] None r); [|exact H].
  intros j e Hj. destruct j; discriminate.
Qed.

Lemma zeqb_list_eq a b : zeqb_list a b = true -> a = b.
Proof.
  unfold zeqb_list. revert b; induction a as [|x a IH]; intros [|y b] H; cbn in H; try discriminate; auto.
  apply andb_prop in H as [Hl H]. apply andb_prop in H as [Hx H].
  apply Z.eqb_eq in Hx. subst y. f_equal. apply IH. now rewrite Hl, H.
Qed.

(* ---- a partial-correctness logic for the X monad over an honest device ---------------------- *)
Section Sound.
Variable sha1 : list Z -> list Z.
Variable unzip : list Z -> option (list (option (list Z))).
Variable good : st -> Prop.
Hypothesis HH : honest_reads good.
Variable segs : list (Z * list Z).
Variable Bad : Prop.          (* what a panic implies *)

Definition Inv (xs : xst) : Prop := good (snd xs) /\ w_segs (snd (snd xs)) = segs.

Definition tri {A} (m : X A) (Q : A -> Prop) : Prop :=
  forall xs r xs', Inv xs -> m xs = (r, xs') ->
    Inv xs' /\ (r = Panic -> Bad) /\ forall a, r = Ok a -> Q a.

Definition mtri {A} (m : M A) (Q : A -> Prop) : Prop :=
  forall s r s', good s -> w_segs (snd s) = segs -> m s = (r, s') ->
    (good s' /\ w_segs (snd s') = segs) /\ (r = Panic -> Bad) /\ forall a, r = Ok a -> Q a.

Lemma tri_ret {A} (a : A) (Q : A -> Prop) : Q a -> tri (xret a) Q.
Proof.
  intros HQ xs r xs' HI E. unfold xret in E. apply pair_inj in E as [<- <-].
  split; [exact HI|]. split; [discriminate|]. intros b Hb. apply Ok_inj in Hb. now subst.
Qed.

Lemma tri_fail {A} e (Q : A -> Prop) : tri (xfail e) Q.
Proof.
  intros xs r xs' HI E. unfold xfail in E. apply pair_inj in E as [<- <-].
  split; [exact HI|]. split; discriminate.
Qed.

Lemma tri_bind {A B} (m : X A) (f : A -> X B) (Q : A -> Prop) (R : B -> Prop) :
  tri m Q -> (forall a, Q a -> tri (f a) R) -> tri (xbind m f) R.
Proof.
  intros Hm Hf xs r xs' HI E. unfold xbind in E.
  destruct (m xs) as [[a|e|] xs1] eqn:Em.
  - destruct (Hm _ _ _ HI Em) as (HI1 & _ & HQ). eapply Hf; eauto.
  - destruct (Hm _ _ _ HI Em) as (HI1 & _ & _). apply pair_inj in E as [<- <-].
    split; [exact HI1|]. split; discriminate.
  - destruct (Hm _ _ _ HI Em) as (HI1 & HP & _). apply pair_inj in E as [<- <-].
    split; [exact HI1|]. split; [intros _; now apply HP|discriminate].
Qed.

Lemma tri_conseq {A} (m : X A) (Q Q' : A -> Prop) : tri m Q -> (forall a, Q a -> Q' a) -> tri m Q'.
Proof.
  intros Hm HQ xs r xs' HI E. destruct (Hm _ _ _ HI E) as (H1 & H2 & H3). repeat split; auto.
  - apply H1.
  - apply H1.
Qed.

Lemma mtri_ret {A} (a : A) (Q : A -> Prop) : Q a -> mtri (ret a) Q.
Proof.
  intros HQ s r s' Hg Hs E. unfold ret in E. apply pair_inj in E as [<- <-].
  repeat split; auto; try discriminate. intros b Hb. apply Ok_inj in Hb. now subst.
Qed.

Lemma mtri_fail {A} e (Q : A -> Prop) : mtri (fail e) Q.
Proof.
  intros s r s' Hg Hs E. unfold fail in E. apply pair_inj in E as [<- <-].
  repeat split; auto; discriminate.
Qed.

Lemma mtri_bind {A B} (m : M A) (f : A -> M B) (Q : A -> Prop) (R : B -> Prop) :
  mtri m Q -> (forall a, Q a -> mtri (f a) R) -> mtri (bindM m f) R.
Proof.
  intros Hm Hf s r s' Hg Hs E. unfold bindM in E.
  destruct (m s) as [[a|e|] s1] eqn:Em.
  - destruct (Hm _ _ _ Hg Hs Em) as ((Hg1 & Hs1) & _ & HQ). eapply Hf; eauto.
  - destruct (Hm _ _ _ Hg Hs Em) as (HI1 & _ & _). apply pair_inj in E as [<- <-].
    split; [exact HI1|]. split; discriminate.
  - destruct (Hm _ _ _ Hg Hs Em) as (HI1 & HP & _). apply pair_inj in E as [<- <-].
    split; [exact HI1|]. split; [intros _; now apply HP|discriminate].
Qed.

Lemma mtri_read a n : mtri (ctl_read a n) (fun d => mem_read segs a n = Some d).
Proof.
  intros s r s' Hg Hs E. destruct HH as (_ & _ & Hr).
  destruct (Hr _ _ _ _ _ Hg E) as (Hg' & Hs' & Hp & Hd).
  split; [split; [exact Hg'|congruence]|]. split; [intros ->; now elim Hp|].
  intros d Hd'. rewrite <- Hs. now apply Hd.
Qed.

Lemma mtri_reg a n : mtri (read_reg a n) (fun v => exists d, mem_read segs a n = Some d /\ v = of_le d).
Proof.
  unfold read_reg. eapply mtri_bind; [apply mtri_read|].
  intros d Hd. apply mtri_ret. exists d. auto.
Qed.

Lemma mtri_addr b o : mtri (reg_addr b o) (fun v => v = b + o /\ b + o < 2 ^ 64).
Proof.
  unfold reg_addr. destruct (Z.ltb_spec (b + o) (2 ^ 64)).
  - apply mtri_ret. auto.
  - apply mtri_fail.
Qed.

Lemma mtri_abrm : mtri h_abrm (fun _ => True).
Proof.
  intros s r s' Hg Hs E. destruct HH as (_ & Ha & _). specialize (Ha _ Hg).
  unfold h_abrm, bindM, get_ctl in E. destruct (c_abrm (fst s)) as [cap|]; [|now elim Ha].
  unfold ret in E. apply pair_inj in E as [<- <-]. repeat split; auto; discriminate.
Qed.

Lemma tri_lift {A} (m : M A) (Q : A -> Prop) : mtri m Q -> tri (liftM m) Q.
Proof.
  intros Hm [x s] r xs' [Hg Hs] E. unfold liftM in E. cbn [snd] in Hg, Hs.
  destruct (m s) as [r1 s1] eqn:Em. apply pair_inj in E as [<- <-].
  destruct (Hm _ _ _ Hg Hs Em) as ((Hg1 & Hs1) & HP & HQ).
  split; [split; assumption|]. split; assumption.
Qed.

Lemma tri_read a n : tri (x_read a n) (fun d => mem_read segs a n = Some d).
Proof. apply tri_lift, mtri_read. Qed.
Lemma tri_reg a n : tri (x_reg a n) (fun v => exists d, mem_read segs a n = Some d /\ v = of_le d).
Proof. apply tri_lift, mtri_reg. Qed.
Lemma tri_addr b o : tri (x_addr b o) (fun v => v = b + o /\ b + o < 2 ^ 64).
Proof. apply tri_lift, mtri_addr. Qed.

Lemma tri_getx : tri get_x (fun _ => True).
Proof.
  intros xs r xs' HI E. unfold get_x in E. apply pair_inj in E as [<- <-].
  repeat split; auto; try apply HI; discriminate.
Qed.

Lemma tri_set_mt a : tri (set_mt a) (fun _ => True).
Proof.
  intros [x s] r xs' HI E. unfold set_mt in E. apply pair_inj in E as [<- <-].
  repeat split; auto; try apply HI; discriminate.
Qed.

Lemma tri_resize n : tri (resize_buffer n) (fun _ => True).
Proof.
  intros [x [c w]] r xs' [Hg Hs] E. unfold resize_buffer in E. apply pair_inj in E as [<- <-].
  cbn [snd] in *. destruct HH as (Hb & _). unfold Inv. cbn [snd].
  split; [split; [now apply Hb|exact Hs]|]. split; [discriminate|auto].
Qed.

(* a register holding v reads as v *)
Lemma field_val a n v d : u_field segs a n v -> mem_read segs a (Z.of_nat n) = Some d -> of_le d = v.
Proof.
  intros [Hr Hm] Hd. rewrite Hm in Hd. apply (f_equal (fun o => match o with Some x => x | None => [] end)) in Hd.
  subst d. now apply of_le_le_bytes.
Qed.

Lemma tri_panic {A} (Q : A -> Prop) : Bad -> tri xpanic Q.
Proof.
  intros HB xs r xs' HI E. unfold xpanic in E. apply pair_inj in E as [<- <-].
  split; [exact HI|]. split; [auto|discriminate].
Qed.

(* model candidate vs (index, entry) *)
Definition crel (first : Z) (c : option cand) (p : option (nat * mentry)) : Prop :=
  match c, p with
  | None, None => True
  | Some (a, v, inf), Some (i, e) => a = first + Z.of_nat i * 64 /\ v = vkey e /\ inf = me_info e
  | _, _ => False
  end.

Lemma tri_scan_entry first i e nw cur :
  entry_at segs (first + Z.of_nat i * 64) e -> crel first nw cur ->
  tri (scan_entry (first + Z.of_nat i * 64) nw)
      (fun nw' => exists c', pstep i e cur = Some c' /\ crel first nw' c').
Proof.
  intros (Ha0 & Ha1 & Fv & Fi & _) Hc. unfold scan_entry.
  eapply tri_bind; [apply tri_addr|]. intros ia [-> _].
  eapply tri_bind; [apply tri_reg|]. intros info (d & Hd & ->).
  rewrite (field_val _ 4%nat _ _ Fi Hd).
  unfold file_type, pstep.
  destruct (Z.eqb_spec (me_info e mod 8) 0) as [E0|E0].
  - eapply tri_bind; [apply tri_addr|]. intros va [-> _].
    eapply tri_bind; [apply tri_reg|]. intros v (d2 & Hd2 & ->).
    rewrite Z.add_0_r in Hd2. rewrite (field_val _ 4%nat _ _ Fv Hd2).
    change (version_of (me_ver e)) with (vkey e).
    destruct nw as [[[a0 cv] ci]|], cur as [[j c]|]; cbn [crel] in Hc; try contradiction.
    + destruct Hc as (-> & -> & ->).
      destruct (ver_le (vkey e) (vkey c)); apply tri_ret; eexists; (split; [reflexivity|]); cbn [crel]; auto.
    + apply tri_ret. eexists; split; [reflexivity|]. cbn [crel]; auto.
  - destruct (Z.eqb_spec (me_info e mod 8) 1) as [E1|E1]; [apply tri_ret; eauto|apply tri_fail].
Qed.

Lemma tri_scan first : forall es i cur nw,
  entries_at segs (first + Z.of_nat i * 64) es -> crel first nw cur ->
  tri (scan (length es) first (Z.of_nat i) nw)
      (fun nw' => exists c', pick i es cur = Some c' /\ crel first nw' c').
Proof.
  induction es as [|e es IH]; intros i cur nw He Hc; cbn [scan length pick].
  - apply tri_ret. eauto.
  - destruct He as [He Hr].
    destruct (Z.ltb_spec (first + Z.of_nat i * 64) (2 ^ 64)) as [Hlt|Hge].
    + eapply tri_bind; [apply (tri_scan_entry first i e nw cur He Hc)|].
      intros nw' (c' & Hp & Hc'). rewrite Hp.
      replace (Z.of_nat i + 1) with (Z.of_nat (S i)) by lia.
      apply IH; [|exact Hc'].
      replace (first + Z.of_nat (S i) * 64) with (first + Z.of_nat i * 64 + 64) by lia. exact Hr.
    + exfalso. destruct He as (_ & H64 & _). lia.
Qed.

Lemma tri_entries t es : table_at segs t es -> tri (entries t) (fun fe => fe = (t + 8, zlen es)).
Proof.
  intros (Ht & Fn & _). unfold entries.
  eapply tri_bind; [apply tri_addr|]. intros a0 [-> _]. rewrite Z.add_0_r.
  eapply tri_bind; [apply tri_reg|]. intros n (d & Hd & ->). rewrite (field_val _ 8%nat _ _ Fn Hd).
  eapply tri_bind; [apply tri_addr|]. intros first [-> _].
  destruct (Z.eqb_spec (zlen es) 0) as [E|E]; [apply tri_ret; now rewrite E|].
  destruct (t + 8 + (zlen es - 1) * 64 <? 2 ^ 64); [apply tri_ret; reflexivity|apply tri_fail].
Qed.

Lemma tri_verify buf ent h : mem_read segs (ent + 24) 20 = Some h ->
  tri (verify_xml sha1 buf ent) (fun _ => hash_absent h \/ sha1 buf = h).
Proof.
  intros Hh. unfold verify_xml.
  eapply tri_bind; [apply tri_addr|]. intros ha [-> _].
  eapply tri_bind; [apply tri_read|]. intros h' Hh'. rewrite Hh in Hh'. apply Ok_inj' in Hh'. subst h'.
  destruct (forallb (fun b => b =? 0) h) eqn:Ef.
  - apply tri_ret. left. unfold hash_absent. apply Forall_forall. intros b Hb.
    rewrite forallb_forall in Ef. apply Z.eqb_eq. now apply Ef.
  - destruct (zeqb_list (sha1 buf) h) eqn:Ez; [apply tri_ret; right; now apply zeqb_list_eq|apply tri_fail].
Qed.

Local Notation doc_rel := (ManifestSpec.doc_rel unzip lossy).
Local Notation doc_spec := (ManifestSpec.doc_spec sha1 unzip lossy segs).
Local Notation result_spec := (ManifestSpec.result_spec sha1 unzip lossy segs).

Lemma tri_decode comp buf : comp = 0 \/ comp = 1 -> tri (decode unzip comp buf) (doc_rel comp buf).
Proof.
  intros Hc. unfold decode. destruct (Z.eqb_spec comp 1) as [E|E].
  - destruct (unzip buf) as [[|[xml|] [|f2 fs]]|] eqn:Eu; try apply tri_fail.
    apply tri_ret. right. split; [exact E|]. exists xml. auto.
  - apply tri_ret. left. split; [lia|reflexivity].
Qed.

Lemma tri_fetch first i e sel :
  crel first (Some sel) (Some (i, e)) -> entry_at segs (first + Z.of_nat i * 64) e ->
  (2 ^ 63 <= me_size e -> Bad) ->
  tri (fetch sha1 unzip sel) (doc_spec e).
Proof.
  destruct sel as [[a v] inf]. intros (-> & -> & ->) (Ha0 & Ha1 & Fv & Fi & Fa & Fs & Fh) HB.
  unfold fetch.
  eapply tri_bind; [apply tri_addr|]. intros aa [-> _].
  eapply tri_bind; [apply tri_reg|]. intros fa (d & Hd & ->). rewrite (field_val _ 8%nat _ _ Fa Hd).
  eapply tri_bind; [apply tri_addr|]. intros sa [-> _].
  eapply tri_bind; [apply tri_reg|]. intros fs (d2 & Hd2 & ->). rewrite (field_val _ 8%nat _ _ Fs Hd2).
  change (compression_type (me_info e)) with (file_format e).
  destruct ((file_format e =? 0) || (file_format e =? 1)) eqn:Ec; cbn [negb]; [|apply tri_fail].
  assert (Hc : file_format e = 0 \/ file_format e = 1).
  { apply orb_true_iff in Ec as [Ec|Ec]; apply Z.eqb_eq in Ec; auto. }
  eapply tri_bind; [apply tri_getx|]. intros x _.
  destruct (Z.leb_spec (2 ^ 63) (me_size e)); [apply tri_panic; auto|].
  eapply tri_bind; [apply tri_read|]. intros buf Hbuf.
  eapply tri_bind; [apply tri_resize|]. intros _ _.
  eapply tri_bind; [apply (tri_verify buf _ _ Fh)|]. intros u Hh. cbv beta in Hh.
  eapply tri_conseq; [apply (tri_decode _ buf Hc)|].
  intros text Hdoc. exists buf. auto.
Qed.

Lemma entries_at_nth : forall es a i e,
  entries_at segs a es -> nth_error es i = Some e -> entry_at segs (a + Z.of_nat i * 64) e.
Proof.
  induction es as [|e0 es IH]; intros a i e He Hn; [destruct i; discriminate|].
  destruct He as [He Hr]. destruct i as [|i].
  - cbn in Hn. apply Ok_inj' in Hn. subst e0. cbn [Z.of_nat]. now rewrite Z.add_0_r.
  - cbn [nth_error] in Hn. specialize (IH _ _ _ Hr Hn).
    replace (a + Z.of_nat (S i) * 64) with (a + 64 + Z.of_nat i * 64) by lia. exact IH.
Qed.

Definition after_table (t : Z) : X (list Z) :=
  dox fe <- entries t;
  dox newest <- scan (Z.to_nat (snd fe)) (fst fe) 0 None;
  match newest with
  | None => xfail CE_INVALID_DEVICE
  | Some sel => fetch sha1 unzip sel
  end.

Lemma genapi_unfold : genapi sha1 unzip = xbind manifest_table after_table.
Proof. reflexivity. Qed.

Lemma tri_after_table t es :
  table_at segs t es -> (forall e, In e es -> 2 ^ 63 <= me_size e -> Bad) ->
  tri (after_table t) (result_spec es).
Proof.
  intros Ht HB. unfold after_table.
  eapply tri_bind; [apply (tri_entries t es Ht)|]. intros fe ->. cbn [fst snd].
  unfold zlen. rewrite Nat2Z.id.
  eapply tri_bind; [apply (tri_scan (t + 8) es 0%nat None None)|].
  { cbn [Z.of_nat]. replace (t + 8 + 0 * 64) with (t + 8) by lia. apply Ht. }
  { exact I. }
  intros nw (c' & Hp & Hc). apply pick_spec in Hp as [Hb Hv].
  destruct nw as [[[a0 v0] i0]|]; destruct c' as [[i e]|]; cbn [crel] in Hc; try contradiction.
  - cbn [best_of] in Hb. eapply tri_conseq; [apply (tri_fetch (t + 8) i e (a0, v0, i0) Hc)|].
    + apply (entries_at_nth es (t + 8) i e); [apply Ht|apply Hb].
    + apply HB. eapply nth_error_In. apply Hb.
    + intros text Hd. exists i, e. auto.
  - apply tri_fail.
Qed.

Definition mt_fetch : X Z :=
  dox _ <- liftM h_abrm; dox a <- x_reg 464 8; dox _ <- set_mt a; xret a.

Lemma manifest_table_eq xs :
  manifest_table xs = match x_mt (fst xs) with Some a => (Ok a, xs) | None => mt_fetch xs end.
Proof. unfold manifest_table, xbind at 1, get_x. destruct (x_mt (fst xs)); reflexivity. Qed.

Lemma tri_mt_fetch t : u_field segs 464 8 t -> tri mt_fetch (fun a => a = t).
Proof.
  intros F. unfold mt_fetch.
  eapply tri_bind; [apply tri_lift, mtri_abrm|]. intros _ _.
  eapply tri_bind; [apply tri_reg|]. intros a (d & Hd & ->). rewrite (field_val _ 8%nat _ _ F Hd).
  eapply tri_bind; [apply tri_set_mt|]. intros _ _. now apply tri_ret.
Qed.

Lemma genapi_sound_core x s t es r xs' :
  good s -> w_segs (snd s) = segs -> manifest_known (x_mt x) segs t -> table_at segs t es ->
  (forall e, In e es -> 2 ^ 63 <= me_size e -> Bad) ->
  genapi sha1 unzip (x, s) = (r, xs') ->
  Inv xs' /\ (r = Panic -> Bad) /\ forall text, r = Ok text -> result_spec es text.
Proof.
  intros Hg Hs Hm Ht HB E. rewrite genapi_unfold in E. unfold xbind in E.
  assert (HI : Inv (x, s)) by (split; assumption).
  assert (M : forall r1 xs1, manifest_table (x, s) = (r1, xs1) ->
              Inv xs1 /\ (r1 = Panic -> Bad) /\ forall a, r1 = Ok a -> a = t).
  { intros r1 xs1 E1. rewrite manifest_table_eq in E1. cbn [fst] in E1. unfold manifest_known in Hm.
    destruct (x_mt x) as [a|].
    - apply pair_inj in E1 as [<- <-]. split; [exact HI|]. split; [discriminate|].
      intros b Hb. apply Ok_inj in Hb. congruence.
    - exact (tri_mt_fetch t Hm _ _ _ HI E1). }
  destruct (manifest_table (x, s)) as [[a|e|] xs1] eqn:Em; destruct (M _ _ eq_refl) as (HI1 & HP1 & HA1).
  - rewrite (HA1 a eq_refl) in E. exact (tri_after_table t es Ht HB _ _ _ HI1 E).
  - apply pair_inj in E as [<- <-]. split; [exact HI1|]. split; discriminate.
  - apply pair_inj in E as [<- <-]. split; [exact HI1|]. split; [intros _; now apply HP1|discriminate].
Qed.

End Sound.

(* ---- total correctness over a conforming device ------------------------------------------------ *)
Lemma lex_lt_le_false a b : lex_lt a b -> lex_le b a -> False.
Proof.
  destruct a as [[a1 a2] a3], b as [[b1 b2] b3]. unfold lex_le, lex_lt.
  intros H [H'|H']; [lia|]. apply pair_inj in H' as [H1 H3]. apply pair_inj in H1 as [H1 H2]. lia.
Qed.

Lemma newest_unique es i e i' e' : newest_at es i e -> newest_at es i' e' -> i = i' /\ e = e'.
Proof.
  intros (Hn & Hd & Hall & Hearly) (Hn' & Hd' & Hall' & Hearly').
  destruct (Nat.lt_trichotomy i i') as [Hlt|[->|Hlt]].
  - exfalso. apply (lex_lt_le_false (vkey e) (vkey e')); eauto.
  - split; [reflexivity|congruence].
  - exfalso. apply (lex_lt_le_false (vkey e') (vkey e)); eauto.
Qed.

Lemma pick_total es : forall i cur, Forall valid_type es -> exists c', pick i es cur = Some c'.
Proof.
  induction es as [|e es IH]; intros i cur Hv; cbn [pick]; [eauto|].
  inversion Hv as [|? ? He Hr]; subst. unfold pstep.
  destruct He as [He|He]; rewrite He; cbn [Z.eqb Pos.eqb].
  - destruct cur as [[j c]|]; [destruct (ver_le _ _)|]; apply IH; exact Hr.
  - apply IH; exact Hr.
Qed.

Lemma pick_complete es i e : Forall valid_type es -> newest_at es i e -> pick 0 es None = Some (Some (i, e)).
Proof.
  intros Hv Hn. destruct (pick_total es 0%nat None Hv) as [c' Hp]. rewrite Hp.
  destruct (pick_spec _ _ Hp) as [Hb _]. destruct c' as [[i' e']|]; cbn [best_of] in Hb.
  - destruct (newest_unique _ _ _ _ _ Hn Hb) as [-> ->]. reflexivity.
  - exfalso. destruct Hn as (Hn & Hd & _). exact (Hb _ _ Hn Hd).
Qed.

Lemma zeqb_list_refl a : zeqb_list a a = true.
Proof.
  unfold zeqb_list. rewrite Nat.eqb_refl. cbn [andb].
  induction a as [|x a IH]; cbn [combine forallb fst snd]; [reflexivity|]. now rewrite Z.eqb_refl, IH.
Qed.

Section Complete.
Variable sha1 : list Z -> list Z.
Variable unzip : list Z -> option (list (option (list Z))).
Variable good : st -> Prop.
Hypothesis HC : conforming_reads good.
Variable segs : list (Z * list Z).

Local Notation Inv := (Inv good segs).
Local Notation doc_rel := (ManifestSpec.doc_rel unzip lossy).
Local Notation doc_spec := (ManifestSpec.doc_spec sha1 unzip lossy segs).

Definition tot {A} (m : X A) (Q : A -> Prop) : Prop :=
  forall xs, Inv xs -> exists a xs', m xs = (Ok a, xs') /\ Inv xs' /\ Q a.

Lemma tot_ret {A} (a : A) (Q : A -> Prop) : Q a -> tot (xret a) Q.
Proof. intros HQ xs HI. exists a, xs. auto. Qed.

Lemma tot_bind {A B} (m : X A) (f : A -> X B) (Q : A -> Prop) (R : B -> Prop) :
  tot m Q -> (forall a, Q a -> tot (f a) R) -> tot (xbind m f) R.
Proof.
  intros Hm Hf xs HI. destruct (Hm xs HI) as (a & xs1 & E & HI1 & HQ).
  unfold xbind. rewrite E. exact (Hf a HQ xs1 HI1).
Qed.

Lemma read_ok a n d s : good s -> w_segs (snd s) = segs -> mem_read segs a n = Some d ->
  exists s', ctl_read a n s = (Ok d, s') /\ good s' /\ w_segs (snd s') = segs.
Proof.
  intros Hg Hs Hm. destruct HC as [(_ & _ & Hh) Hc]. rewrite <- Hs in Hm.
  destruct (Hc _ _ _ _ Hg Hm) as [s' E]. exists s'. split; [exact E|].
  destruct (Hh _ _ _ _ _ Hg E) as (Hg' & Hs' & _). split; [exact Hg'|congruence].
Qed.

Lemma tot_read a n d : mem_read segs a n = Some d -> tot (x_read a n) (fun r => r = d).
Proof.
  intros Hm [x s] [Hg Hs]. cbn [snd] in Hg, Hs.
  destruct (read_ok a n d s Hg Hs Hm) as (s' & E & Hg' & Hs').
  unfold x_read, liftM. rewrite E. eexists; eexists. split; [reflexivity|]. split; [split; assumption|reflexivity].
Qed.

Lemma tot_reg a n v : u_field segs a n v -> tot (x_reg a (Z.of_nat n)) (fun r => r = v).
Proof.
  intros [Hr Hm] [x s] [Hg Hs]. cbn [snd] in Hg, Hs.
  destruct (read_ok _ _ _ s Hg Hs Hm) as (s' & E & Hg' & Hs').
  unfold x_reg, liftM, read_reg, bindM. rewrite E. unfold ret.
  eexists; eexists. split; [reflexivity|]. split; [split; assumption|]. now apply of_le_le_bytes.
Qed.

Lemma tot_addr b o : b + o < 2 ^ 64 -> tot (x_addr b o) (fun r => r = b + o).
Proof.
  intros Hlt [x s] HI. unfold x_addr, liftM, reg_addr.
  destruct (Z.ltb_spec (b + o) (2 ^ 64)); [|lia]. unfold ret.
  eexists; eexists. split; [reflexivity|]. split; [|reflexivity].
  destruct HI as [Hg Hs]. split; assumption.
Qed.

Lemma tot_getx : tot get_x (fun _ => True).
Proof. intros xs HI. exists (fst xs), xs. auto. Qed.

Lemma tot_set_mt a : tot (set_mt a) (fun _ => True).
Proof. intros [x s] HI. eexists; eexists. split; [reflexivity|]. split; [exact HI|exact I]. Qed.

Lemma tot_resize n : tot (resize_buffer n) (fun _ => True).
Proof.
  intros [x [c w]] [Hg Hs]. cbn [snd] in Hg, Hs. eexists; eexists. split; [reflexivity|].
  destruct HC as [(Hb & _) _]. split; [split; [now apply Hb|exact Hs]|exact I].
Qed.

Lemma tot_abrm : tot (liftM h_abrm) (fun _ => True).
Proof.
  intros [x s] [Hg Hs]. cbn [snd] in Hg, Hs. destruct HC as [(_ & Ha & _) _]. specialize (Ha _ Hg).
  unfold liftM, h_abrm, bindM, get_ctl. destruct (c_abrm (fst s)) as [cap|]; [|now elim Ha].
  unfold ret. eexists; eexists. split; [reflexivity|]. split; [split; assumption|exact I].
Qed.

Local Notation crel := (crel).

Lemma tot_scan_entry first i e nw cur :
  entry_at segs (first + Z.of_nat i * 64) e -> valid_type e -> crel first nw cur ->
  tot (scan_entry (first + Z.of_nat i * 64) nw)
      (fun nw' => exists c', pstep i e cur = Some c' /\ crel first nw' c').
Proof.
  intros (Ha0 & Ha1 & Fv & Fi & _) Hv Hc. unfold scan_entry.
  eapply tot_bind; [apply tot_addr; lia|]. intros ia ->.
  eapply tot_bind; [apply (tot_reg _ 4%nat _ Fi)|]. intros info ->.
  unfold file_type, pstep.
  destruct (Z.eqb_spec (me_info e mod 8) 0) as [E0|E0].
  - eapply tot_bind; [apply tot_addr; lia|]. intros va ->. rewrite Z.add_0_r.
    eapply tot_bind; [apply (tot_reg _ 4%nat _ Fv)|]. intros v ->.
    change (version_of (me_ver e)) with (vkey e).
    destruct nw as [[[a0 cv] ci]|], cur as [[j c]|]; cbn [P_C14.crel] in Hc; try contradiction.
    + destruct Hc as (-> & -> & ->).
      destruct (ver_le (vkey e) (vkey c)); apply tot_ret; eexists; (split; [reflexivity|]); cbn [P_C14.crel]; auto.
    + apply tot_ret. eexists; split; [reflexivity|]. cbn [P_C14.crel]; auto.
  - destruct (Z.eqb_spec (me_info e mod 8) 1) as [E1|E1]; [apply tot_ret; eauto|].
    exfalso. destruct Hv; contradiction.
Qed.

Lemma tot_scan first : forall es i cur nw,
  entries_at segs (first + Z.of_nat i * 64) es -> Forall valid_type es -> crel first nw cur ->
  tot (scan (length es) first (Z.of_nat i) nw)
      (fun nw' => exists c', pick i es cur = Some c' /\ crel first nw' c').
Proof.
  induction es as [|e es IH]; intros i cur nw He Hv Hc; cbn [scan length pick].
  - apply tot_ret. eauto.
  - destruct He as [He Hr]. inversion Hv as [|? ? Hve Hvr]; subst.
    destruct (Z.ltb_spec (first + Z.of_nat i * 64) (2 ^ 64)) as [Hlt|Hge].
    + eapply tot_bind; [apply (tot_scan_entry first i e nw cur He Hve Hc)|].
      intros nw' (c' & Hp & Hc'). rewrite Hp.
      replace (Z.of_nat i + 1) with (Z.of_nat (S i)) by lia.
      apply IH; [|exact Hvr|exact Hc'].
      replace (first + Z.of_nat (S i) * 64) with (first + Z.of_nat i * 64 + 64) by lia. exact Hr.
    + exfalso. destruct He as (_ & H64 & _). lia.
Qed.

Lemma tot_entries t es : table_at segs t es -> t + 8 < 2 ^ 64 ->
  tot (entries t) (fun fe => fe = (t + 8, zlen es)).
Proof.
  intros (Ht & Fn & He) H8. unfold entries.
  eapply tot_bind; [apply tot_addr; lia|]. intros a0 ->. rewrite Z.add_0_r.
  eapply tot_bind; [apply (tot_reg _ 8%nat _ Fn)|]. intros n ->.
  eapply tot_bind; [apply tot_addr; lia|]. intros first ->.
  destruct (Z.eqb_spec (zlen es) 0) as [E|E]; [apply tot_ret; now rewrite E|].
  destruct (Z.ltb_spec (t + 8 + (zlen es - 1) * 64) (2 ^ 64)) as [Hl|Hl]; [apply tot_ret; reflexivity|].
  exfalso. unfold zlen in *.
  destruct (nth_error es (length es - 1)) as [e|] eqn:En.
  - pose proof (entries_at_nth segs es (t + 8) _ _ He En) as (_ & H64 & _).
    rewrite Nat2Z.inj_sub in H64 by (destruct es; cbn in *; lia). cbn [Z.of_nat Pos.of_succ_nat] in H64. lia.
  - apply nth_error_None in En. destruct es; cbn in *; lia.
Qed.

Lemma tot_verify buf ent h : ent + 24 < 2 ^ 64 -> mem_read segs (ent + 24) 20 = Some h ->
  hash_absent h \/ sha1 buf = h -> tot (verify_xml sha1 buf ent) (fun _ => True).
Proof.
  intros Hlt Hh Hok. unfold verify_xml.
  eapply tot_bind; [apply tot_addr; exact Hlt|]. intros ha ->.
  eapply tot_bind; [apply (tot_read _ _ _ Hh)|]. intros h' ->.
  destruct (forallb (fun b => b =? 0) h) eqn:Ef; [now apply tot_ret|].
  destruct Hok as [Ha| <-].
  - exfalso. assert (forallb (fun b => b =? 0) h = true); [|congruence].
    apply forallb_forall. intros b Hb. unfold hash_absent in Ha. rewrite Forall_forall in Ha.
    apply Z.eqb_eq. now apply Ha.
  - rewrite zeqb_list_refl. now apply tot_ret.
Qed.

Lemma tot_decode comp buf text : doc_rel comp buf text -> tot (decode unzip comp buf) (fun r => r = text).
Proof.
  intros [[-> ->]|(-> & xml & Eu & ->)]; unfold decode.
  - change (0 =? 1) with false. cbv iota. now apply tot_ret.
  - change (1 =? 1) with true. cbv iota. rewrite Eu. now apply tot_ret.
Qed.

Lemma tot_fetch first i e sel text :
  P_C14.crel first (Some sel) (Some (i, e)) -> entry_at segs (first + Z.of_nat i * 64) e ->
  me_size e < 2 ^ 63 -> doc_spec e text ->
  tot (fetch sha1 unzip sel) (fun r => r = text).
Proof.
  destruct sel as [[a v] inf]. intros (-> & -> & ->) (Ha0 & Ha1 & Fv & Fi & Fa & Fs & Fh) Hsz (file & Hf & Hh & Hd).
  unfold fetch.
  eapply tot_bind; [apply tot_addr; lia|]. intros aa ->.
  eapply tot_bind; [apply (tot_reg _ 8%nat _ Fa)|]. intros fa ->.
  eapply tot_bind; [apply tot_addr; lia|]. intros sa ->.
  eapply tot_bind; [apply (tot_reg _ 8%nat _ Fs)|]. intros fs ->.
  change (compression_type (me_info e)) with (file_format e).
  assert (Hc : (file_format e =? 0) || (file_format e =? 1) = true).
  { destruct Hd as [[-> _]|[-> _]]; reflexivity. }
  rewrite Hc. cbn [negb].
  eapply tot_bind; [apply tot_getx|]. intros x _.
  destruct (Z.leb_spec (2 ^ 63) (me_size e)); [lia|].
  eapply tot_bind; [apply (tot_read _ _ _ Hf)|]. intros buf ->.
  eapply tot_bind; [apply tot_resize|]. intros u _.
  assert (H24 : first + Z.of_nat i * 64 + 24 < 2 ^ 64) by lia.
  eapply tot_bind; [apply (tot_verify file _ _ H24 Fh Hh)|]. intros u' _.
  now apply tot_decode.
Qed.

Lemma tot_after_table t es i e text :
  table_at segs t es -> t + 8 < 2 ^ 64 -> Forall valid_type es -> newest_at es i e ->
  me_size e < 2 ^ 63 -> doc_spec e text ->
  tot (after_table sha1 unzip t) (fun r => r = text).
Proof.
  intros Ht H8 Hv Hn Hsz Hd. unfold after_table.
  eapply tot_bind; [apply (tot_entries t es Ht H8)|]. intros fe ->. cbn [fst snd].
  unfold zlen. rewrite Nat2Z.id.
  eapply tot_bind; [apply (tot_scan (t + 8) es 0%nat None None)|].
  { cbn [Z.of_nat]. replace (t + 8 + 0 * 64) with (t + 8) by lia. apply Ht. }
  { exact Hv. } { exact I. }
  intros nw (c' & Hp & Hc). rewrite (pick_complete es i e Hv Hn) in Hp. apply Ok_inj' in Hp. subst c'.
  destruct nw as [[[a0 v0] i0]|]; cbn [P_C14.crel] in Hc; [|contradiction].
  apply (tot_fetch (t + 8) i e (a0, v0, i0) text Hc); auto.
  apply (entries_at_nth segs es (t + 8) i e); [apply Ht|apply Hn].
Qed.

Lemma tot_mt_fetch t : u_field segs 464 8 t -> tot mt_fetch (fun a => a = t).
Proof.
  intros F. unfold mt_fetch.
  eapply tot_bind; [apply tot_abrm|]. intros u _.
  eapply tot_bind; [apply (tot_reg 464 8%nat t F)|]. intros a ->.
  eapply tot_bind; [apply tot_set_mt|]. intros u' _. now apply tot_ret.
Qed.

Lemma genapi_complete_core x s t es i e text :
  good s -> w_segs (snd s) = segs -> manifest_known (x_mt x) segs t -> table_at segs t es ->
  t + 8 < 2 ^ 64 -> Forall valid_type es -> newest_at es i e -> me_size e < 2 ^ 63 -> doc_spec e text ->
  exists xs', genapi sha1 unzip (x, s) = (Ok text, xs') /\ Inv xs'.
Proof.
  intros Hg Hs Hm Ht H8 Hv Hn Hsz Hd. rewrite genapi_unfold. unfold xbind.
  assert (HI : Inv (x, s)) by (split; assumption).
  assert (M : exists xs1, manifest_table (x, s) = (Ok t, xs1) /\ Inv xs1).
  { rewrite manifest_table_eq. cbn [fst]. unfold manifest_known in Hm. destruct (x_mt x) as [a|].
    - subst a. eauto.
    - destruct (tot_mt_fetch t Hm _ HI) as (a & xs1 & E & HI1 & ->). eauto. }
  destruct M as (xs1 & -> & HI1).
  destruct (tot_after_table t es i e text Ht H8 Hv Hn Hsz Hd xs1 HI1) as (a & xs' & E & HI' & ->).
  eauto.
Qed.

End Complete.

(* ---- no panic against any device (lying, hostile): DeviceControl::read never panics (P_C07) and
   keeps the negotiated limits ------------------------------------------------------------------- *)
Definition lim_ok (s : st) : Prop := c_max_ack (fst s) - 12 < 2 ^ 64.

Lemma read_loop_keeps chunk : forall fuel addr remaining acc c w x c' w',
  read_loop fuel addr remaining chunk acc (c, w) = (x, (c', w')) -> c_max_ack c' = c_max_ack c.
Proof.
  induction fuel as [|f IH]; intros addr remaining acc c w x c' w' E; cbn [read_loop] in E.
  - unfold fail in E. apply pair_inj in E as [_ E]. apply pair_inj in E as [<- _]. reflexivity.
  - destruct (remaining <=? 0).
    { unfold ret in E. apply pair_inj in E as [_ E]. apply pair_inj in E as [<- _]. reflexivity. }
    destruct (send_cmd_spec (CRead addr (Z.min chunk remaining)) c w) as [y [c1 [w1 [Hs [_ Hk]]]]].
    unfold bindM at 1 in E. rewrite Hs in E.
    assert (K : c_max_ack c1 = c_max_ack c).
    { destruct y; [destruct Hk as (_ & _ & _ & _ & Hst); apply Hst|apply Hk|apply Hk]. }
    destruct y as [a|e|]; try (apply pair_inj in E as [_ E]; apply pair_inj in E as [<- _]; exact K).
    unfold bindM at 1 in E. unfold lift at 1 in E.
    destruct (view_data a) as [data|e|]; try (apply pair_inj in E as [_ E]; apply pair_inj in E as [<- _]; exact K).
    destruct (negb (zlen data =? Z.min chunk remaining)).
    { unfold fail in E. apply pair_inj in E as [_ E]. apply pair_inj in E as [<- _]. exact K. }
    rewrite (IH _ _ _ _ _ _ _ _ E). exact K.
Qed.

Lemma ctl_read_keeps a n c w x c' w' :
  ctl_read a n (c, w) = (x, (c', w')) -> c_max_ack c' = c_max_ack c.
Proof.
  unfold ctl_read. unfold bindM at 1. unfold assert_open. cbn [fst].
  destruct (c_opened c); [|intros E; apply pair_inj in E as [_ E]; apply pair_inj in E as [<- _]; reflexivity].
  unfold bindM at 1. unfold verify_range.
  destruct ((a <? 0) || (2 ^ 64 <? a + n)); [unfold fail; intros E; apply pair_inj in E as [_ E]; apply pair_inj in E as [<- _]; reflexivity|].
  unfold ret at 1. unfold bindM at 1. unfold get_ctl. cbn [fst].
  unfold bindM at 1. unfold lift at 1.
  destruct (read_chunks_init a 0 (c_max_ack c));
    try (intros E; apply pair_inj in E as [_ E]; apply pair_inj in E as [<- _]; reflexivity).
  unfold bindM at 1. unfold lift at 1.
  destruct (maximum_read_length (c_max_ack c)) as [chunk|e|];
    try (intros E; apply pair_inj in E as [_ E]; apply pair_inj in E as [<- _]; reflexivity).
  destruct (chunk =? 0); [unfold panic; intros E; apply pair_inj in E as [_ E]; apply pair_inj in E as [<- _]; reflexivity|].
  apply read_loop_keeps.
Qed.

Lemma ctl_read_safe a n s r s' : lim_ok s -> ctl_read a n s = (r, s') -> r <> Panic /\ lim_ok s'.
Proof.
  destruct s as [c w], s' as [c' w']. unfold lim_ok. cbn [fst]. intros HL E.
  destruct (ctl_read_total c w a n HL) as (x & s2 & E2 & Hnp & _). rewrite E in E2.
  apply pair_inj in E2 as [<- _]. split; [exact Hnp|]. now rewrite (ctl_read_keeps _ _ _ _ _ _ _ E).
Qed.

Section NoPanic.
Variable sha1 : list Z -> list Z.
Variable unzip : list Z -> option (list (option (list Z))).

(* v was returned by some register read *)
Definition seen (v : Z) : Prop := exists a n s0 s1, read_reg a n s0 = (Ok v, s1).
Definition absurd_size_seen : Prop := exists v, seen v /\ 2 ^ 63 <= v.
Local Notation Bad := absurd_size_seen.

Definition npq {A} (m : X A) (Q : A -> Prop) : Prop :=
  forall xs r xs', lim_ok (snd xs) -> m xs = (r, xs') ->
    lim_ok (snd xs') /\ (r = Panic -> Bad) /\ forall a, r = Ok a -> Q a.
Definition mnpq {A} (m : M A) (Q : A -> Prop) : Prop :=
  forall s r s', lim_ok s -> m s = (r, s') ->
    lim_ok s' /\ (r = Panic -> Bad) /\ forall a, r = Ok a -> Q a.

Lemma npq_ret {A} (a : A) (Q : A -> Prop) : Q a -> npq (xret a) Q.
Proof.
  intros HQ xs r xs' HL E. unfold xret in E. apply pair_inj in E as [<- <-].
  split; [exact HL|]. split; [discriminate|]. intros b Hb. apply Ok_inj in Hb. now subst.
Qed.
Lemma npq_fail {A} e (Q : A -> Prop) : npq (xfail e) Q.
Proof.
  intros xs r xs' HL E. unfold xfail in E. apply pair_inj in E as [<- <-].
  split; [exact HL|]. split; discriminate.
Qed.
Lemma npq_bind {A B} (m : X A) (f : A -> X B) (Q : A -> Prop) (R : B -> Prop) :
  npq m Q -> (forall a, Q a -> npq (f a) R) -> npq (xbind m f) R.
Proof.
  intros Hm Hf xs r xs' HL E. unfold xbind in E. destruct (m xs) as [[a|e|] xs1] eqn:Em.
  - destruct (Hm _ _ _ HL Em) as (HL1 & _ & HQ). eapply Hf; eauto.
  - destruct (Hm _ _ _ HL Em) as (HL1 & _ & _). apply pair_inj in E as [<- <-].
    split; [exact HL1|]. split; discriminate.
  - destruct (Hm _ _ _ HL Em) as (HL1 & HP & _). apply pair_inj in E as [<- <-].
    split; [exact HL1|]. split; [intros _; now apply HP|discriminate].
Qed.

Lemma mnpq_ret {A} (a : A) (Q : A -> Prop) : Q a -> mnpq (ret a) Q.
Proof.
  intros HQ s r s' HL E. unfold ret in E. apply pair_inj in E as [<- <-].
  split; [exact HL|]. split; [discriminate|]. intros b Hb. apply Ok_inj in Hb. now subst.
Qed.
Lemma mnpq_fail {A} e (Q : A -> Prop) : mnpq (fail e) Q.
Proof.
  intros s r s' HL E. unfold fail in E. apply pair_inj in E as [<- <-]. split; [exact HL|]. split; discriminate.
Qed.
Lemma mnpq_bind {A B} (m : M A) (f : A -> M B) (Q : A -> Prop) (R : B -> Prop) :
  mnpq m Q -> (forall a, Q a -> mnpq (f a) R) -> mnpq (bindM m f) R.
Proof.
  intros Hm Hf s r s' HL E. unfold bindM in E. destruct (m s) as [[a|e|] s1] eqn:Em.
  - destruct (Hm _ _ _ HL Em) as (HL1 & _ & HQ). eapply Hf; eauto.
  - destruct (Hm _ _ _ HL Em) as (HL1 & _ & _). apply pair_inj in E as [<- <-].
    split; [exact HL1|]. split; discriminate.
  - destruct (Hm _ _ _ HL Em) as (HL1 & HP & _). apply pair_inj in E as [<- <-].
    split; [exact HL1|]. split; [intros _; now apply HP|discriminate].
Qed.

Lemma mnpq_read a n : mnpq (ctl_read a n) (fun _ => True).
Proof.
  intros s r s' HL E. destruct (ctl_read_safe _ _ _ _ _ HL E) as [Hnp HL'].
  split; [exact HL'|]. split; [intros ->; now elim Hnp|auto].
Qed.
Lemma mnpq_reg a n : mnpq (read_reg a n) seen.
Proof.
  intros s r s' HL E. pose proof E as E0. unfold read_reg, bindM in E.
  destruct (ctl_read a n s) as [[d|e|] s1] eqn:Er; destruct (ctl_read_safe _ _ _ _ _ HL Er) as [Hnp HL1].
  - unfold ret in E. apply pair_inj in E as [<- <-]. split; [exact HL1|]. split; [discriminate|].
    intros v Hv. apply Ok_inj in Hv. subst v. exists a, n, s, s1. exact E0.
  - apply pair_inj in E as [<- <-]. split; [exact HL1|]. split; discriminate.
  - now elim Hnp.
Qed.
Lemma mnpq_addr b o : mnpq (reg_addr b o) (fun v => v = b + o /\ b + o < 2 ^ 64).
Proof.
  unfold reg_addr. destruct (Z.ltb_spec (b + o) (2 ^ 64)); [apply mnpq_ret; auto|apply mnpq_fail].
Qed.
Lemma mnpq_abrm : mnpq h_abrm (fun _ => True).
Proof.
  unfold h_abrm. eapply mnpq_bind with (Q := fun _ => True).
  - intros s r s' HL E. unfold get_ctl in E. apply pair_inj in E as [<- <-].
    split; [exact HL|]. split; [discriminate|auto].
  - intros c _. destruct (c_abrm c); [now apply mnpq_ret|].
    eapply mnpq_bind; [apply mnpq_reg|]. intros cap _.
    eapply mnpq_bind with (Q := fun _ => True); [|intros; now apply mnpq_ret].
    intros s r s' HL E. unfold upd_ctl in E. apply pair_inj in E as [<- <-].
    split; [exact HL|]. split; [discriminate|auto].
Qed.
Lemma npq_lift {A} (m : M A) (Q : A -> Prop) : mnpq m Q -> npq (liftM m) Q.
Proof.
  intros Hm [x s] r xs' HL E. unfold liftM in E. destruct (m s) as [r1 s1] eqn:Em.
  apply pair_inj in E as [<- <-]. exact (Hm _ _ _ HL Em).
Qed.
Lemma npq_getx : npq get_x (fun _ => True).
Proof.
  intros xs r xs' HL E. unfold get_x in E. apply pair_inj in E as [<- <-].
  split; [exact HL|]. split; [discriminate|auto].
Qed.
Lemma npq_set_mt a : npq (set_mt a) (fun _ => True).
Proof.
  intros [x s] r xs' HL E. unfold set_mt in E. apply pair_inj in E as [<- <-].
  split; [exact HL|]. split; [discriminate|auto].
Qed.
Lemma npq_resize n : npq (resize_buffer n) (fun _ => True).
Proof.
  intros [x [c w]] r xs' HL E. unfold resize_buffer in E. apply pair_inj in E as [<- <-].
  split; [exact HL|]. split; [discriminate|auto].
Qed.

Lemma npq_scan_entry ent nw : npq (scan_entry ent nw) (fun _ => True).
Proof.
  unfold scan_entry.
  eapply npq_bind; [apply npq_lift, mnpq_addr|]. intros ia _.
  eapply npq_bind; [apply npq_lift, mnpq_reg|]. intros info _.
  destruct (file_type info =? 0).
  - eapply npq_bind; [apply npq_lift, mnpq_addr|]. intros va _.
    eapply npq_bind; [apply npq_lift, mnpq_reg|]. intros v _.
    destruct nw as [[[a0 cv] ci]|]; [destruct (ver_le _ _)|]; now apply npq_ret.
  - destruct (file_type info =? 1); [now apply npq_ret|apply npq_fail].
Qed.

Lemma npq_scan first : forall k i nw,
  (k = O \/ first + (i + Z.of_nat k - 1) * 64 < 2 ^ 64) -> npq (scan k first i nw) (fun _ => True).
Proof.
  induction k as [|k IH]; intros i nw Hb; cbn [scan]; [now apply npq_ret|].
  destruct Hb as [Hb|Hb]; [discriminate|].
  destruct (Z.ltb_spec (first + i * 64) (2 ^ 64)) as [Hl|Hl]; [|exfalso; lia].
  eapply npq_bind; [apply npq_scan_entry|]. intros nw' _.
  apply IH. destruct k; [now left|right]. lia.
Qed.

Lemma npq_entries t :
  npq (entries t) (fun fe => Z.to_nat (snd fe) = O \/ fst fe + (snd fe - 1) * 64 < 2 ^ 64).
Proof.
  unfold entries.
  eapply npq_bind; [apply npq_lift, mnpq_addr|]. intros a0 _.
  eapply npq_bind; [apply npq_lift, mnpq_reg|]. intros n _.
  eapply npq_bind; [apply npq_lift, mnpq_addr|]. intros first _.
  destruct (n =? 0); [apply npq_ret; now left|].
  destruct (Z.ltb_spec (first + (n - 1) * 64) (2 ^ 64)); [apply npq_ret; now right|apply npq_fail].
Qed.

Lemma npq_verify buf ent : npq (verify_xml sha1 buf ent) (fun _ => True).
Proof.
  unfold verify_xml.
  eapply npq_bind; [apply npq_lift, mnpq_addr|]. intros ha _.
  eapply npq_bind; [apply npq_lift, mnpq_read|]. intros h _.
  destruct (forallb _ h); [now apply npq_ret|]. destruct (zeqb_list _ _); [now apply npq_ret|apply npq_fail].
Qed.

Lemma npq_decode comp buf : npq (decode unzip comp buf) (fun _ => True).
Proof.
  unfold decode. destruct (comp =? 1); [|now apply npq_ret].
  destruct (unzip buf) as [[|[xml|] [|f2 fs]]|]; try apply npq_fail. now apply npq_ret.
Qed.

Lemma npq_fetch sel : npq (fetch sha1 unzip sel) (fun _ => True).
Proof.
  destruct sel as [[ent v] info]. unfold fetch.
  eapply npq_bind; [apply npq_lift, mnpq_addr|]. intros aa _.
  eapply npq_bind; [apply npq_lift, mnpq_reg|]. intros fa _.
  eapply npq_bind; [apply npq_lift, mnpq_addr|]. intros sa _.
  eapply npq_bind; [apply npq_lift, mnpq_reg|]. intros fs Hseen.
  destruct (negb _); [apply npq_fail|].
  eapply npq_bind; [apply npq_getx|]. intros x _.
  destruct (Z.leb_spec (2 ^ 63) fs) as [Hbig|Hsmall].
  - intros xs r xs' HL E. unfold xpanic in E. apply pair_inj in E as [<- <-].
    split; [exact HL|]. split; [intros _; exists fs; auto|discriminate].
  - eapply npq_bind; [apply npq_lift, mnpq_read|]. intros buf _.
    eapply npq_bind; [apply npq_resize|]. intros u _.
    eapply npq_bind; [apply npq_verify|]. intros u' _. apply npq_decode.
Qed.

Lemma npq_manifest_table : npq manifest_table (fun _ => True).
Proof.
  unfold manifest_table.
  eapply npq_bind; [apply npq_getx|].
  intros x _. destruct (x_mt x); [now apply npq_ret|].
  eapply npq_bind; [apply npq_lift, mnpq_abrm|]. intros u _.
  eapply npq_bind; [apply npq_lift, mnpq_reg|]. intros a _.
  eapply npq_bind; [apply npq_set_mt|].
  intros u' _. now apply npq_ret.
Qed.

Lemma genapi_no_panic xs :
  c_max_ack (fst (snd xs)) - 12 < 2 ^ 64 -> fst (genapi sha1 unzip xs) = Panic -> absurd_size_seen.
Proof.
  intros HL H. destruct (genapi sha1 unzip xs) as [r xs'] eqn:E. cbn [fst] in H.
  assert (N : npq (genapi sha1 unzip) (fun _ => True)); [|exact (proj1 (proj2 (N _ _ _ HL E)) H)].
  unfold genapi.
  eapply npq_bind; [apply npq_manifest_table|]. intros t _.
  eapply npq_bind; [apply npq_entries|]. intros [first n] Hb. cbn [fst snd] in *.
  eapply npq_bind with (Q := fun _ => True).
  - apply npq_scan. destruct Hb as [Hb|Hb]; [now left|].
    destruct (Z.to_nat n) eqn:En; [now left|right]. rewrite <- En. rewrite Z2Nat.id by lia. lia.
  - intros nw _. destruct nw; [apply npq_fetch|apply npq_fail].
Qed.

End NoPanic.

(* ---- the property theorems ----------------------------------------------------------------------- *)
Theorem selects_newest good segs t es xs r xs' :
  honest_reads good -> good (snd xs) -> w_segs (snd (snd xs)) = segs -> entries_at segs (t + 8) es ->
  scan (length es) (t + 8) 0 None xs = (r, xs') ->
  r <> Panic /\
  forall nw, r = Ok nw ->
    Forall valid_type es /\
    match nw with
    | Some (a, v, inf) =>
      exists i e, newest_at es i e /\ a = t + 8 + Z.of_nat i * 64 /\ v = vkey e /\ inf = me_info e
    | None => forall e, In e es -> ~ is_dev e
    end.
Proof.
  intros HH Hg Hs He E.
  assert (T := tri_scan good HH segs False (t + 8) es 0%nat None None).
  cbn [Z.of_nat] in T. replace (t + 8 + 0 * 64) with (t + 8) in T by lia.
  destruct (T He I xs r xs' (conj Hg Hs) E) as (_ & HP & HQ).
  split; [intros ->; now apply HP|]. intros nw ->.
  destruct (HQ nw eq_refl) as (c' & Hp & Hc). apply pick_spec in Hp as [Hb Hv]. split; [exact Hv|].
  destruct nw as [[[a v] inf]|], c' as [[i e]|]; cbn [crel] in Hc; try contradiction; cbn [best_of] in Hb.
  - exists i, e. tauto.
  - intros e Hin. apply In_nth_error in Hin as [j Hj]. eauto.
Qed.

Theorem genapi_sound sha1 unzip good x s t es r xs' :
  honest_reads good -> good s -> manifest_known (x_mt x) (w_segs (snd s)) t ->
  table_at (w_segs (snd s)) t es ->
  genapi sha1 unzip (x, s) = (r, xs') ->
  (good (snd xs') /\ w_segs (snd (snd xs')) = w_segs (snd s)) /\
  (r = Panic -> exists e, In e es /\ 2 ^ 63 <= me_size e) /\
  (forall text, r = Ok text -> result_spec sha1 unzip lossy (w_segs (snd s)) es text).
Proof.
  intros HH Hg Hm Ht E.
  apply (genapi_sound_core sha1 unzip good HH (w_segs (snd s)) (exists e, In e es /\ 2 ^ 63 <= me_size e)
           x s t es r xs' Hg eq_refl Hm Ht); [|exact E].
  intros e Hin Hbig. eauto.
Qed.

Lemma no_document_cases sha1 unzip segs es :
  (forall e, In e es -> ~ is_dev e) \/
  (exists e, In e es /\ ~ valid_type e) \/
  (exists i e, newest_at es i e /\
     (mem_read segs (me_addr e) (me_size e) = None \/
      exists file, mem_read segs (me_addr e) (me_size e) = Some file /\
        ((~ hash_absent (me_hash e) /\ sha1 file <> me_hash e) \/
         (file_format e <> 0 /\ file_format e <> 1) \/
         (file_format e = 1 /\ forall xml, unzip file <> Some [Some xml])))) ->
  ~ exists text, result_spec sha1 unzip lossy segs es text.
Proof.
  intros Hcase [text (i' & e' & Hn & Hv & file' & Hf & Hh & Hd)].
  destruct Hcase as [Hnone|[(e & Hin & Hbad)|(i & e & Hn0 & Hcase)]].
  - destruct Hn as (Hnth & Hdev & _). apply nth_error_In in Hnth. exact (Hnone _ Hnth Hdev).
  - rewrite Forall_forall in Hv. exact (Hbad (Hv _ Hin)).
  - destruct (newest_unique _ _ _ _ _ Hn0 Hn) as [-> ->].
    destruct Hcase as [Hnomem|(file & Hf0 & Hcase)]; [congruence|].
    assert (file = file') by congruence. subst file'.
    destruct Hcase as [[Hpres Hne]|[[Hf1 Hf2]|[Hz Hnz]]].
    + destruct Hh; contradiction.
    + destruct Hd as [[? _]|[? _]]; contradiction.
    + destruct Hd as [[? _]|(_ & xml & Hu & _)]; [lia|]. exact (Hnz _ Hu).
Qed.

Theorem genapi_errors sha1 unzip good x s t es r xs' :
  honest_reads good -> good s -> manifest_known (x_mt x) (w_segs (snd s)) t ->
  table_at (w_segs (snd s)) t es -> (forall e, In e es -> me_size e < 2 ^ 63) ->
  genapi sha1 unzip (x, s) = (r, xs') ->
  ~ (exists text, result_spec sha1 unzip lossy (w_segs (snd s)) es text) ->
  exists c, r = Err c.
Proof.
  intros HH Hg Hm Ht Hsz E Hno.
  destruct (genapi_sound _ _ _ _ _ _ _ _ _ HH Hg Hm Ht E) as (_ & HP & HQ).
  destruct r as [text|c|].
  - exfalso. apply Hno. exists text. now apply HQ.
  - eauto.
  - exfalso. destruct (HP eq_refl) as (e & Hin & Hbig). specialize (Hsz _ Hin). lia.
Qed.

Theorem genapi_returns_file sha1 unzip good x s t es i e text :
  conforming_reads good -> good s -> manifest_known (x_mt x) (w_segs (snd s)) t ->
  table_at (w_segs (snd s)) t es -> t + 8 < 2 ^ 64 -> Forall valid_type es ->
  newest_at es i e -> me_size e < 2 ^ 63 -> doc_spec sha1 unzip lossy (w_segs (snd s)) e text ->
  exists xs', genapi sha1 unzip (x, s) = (Ok text, xs') /\
              good (snd xs') /\ w_segs (snd (snd xs')) = w_segs (snd s).
Proof.
  intros HC Hg Hm Ht H8 Hv Hn Hsz Hd.
  exact (genapi_complete_core sha1 unzip good HC (w_segs (snd s)) x s t es i e text Hg eq_refl Hm Ht H8 Hv Hn Hsz Hd).
Qed.

(* ---- concrete devices: non-vacuity, and the two defects of the pinned code ------------------------ *)
Definition poke (segs : list (Z * list Z)) (a : Z) (n : nat) (v : Z) : list (Z * list Z) :=
  match seg_write segs a (le_bytes n v) with Some s => s | None => segs end.

Definition std_segs : list (Z * list Z) :=
  poke (poke (poke (poke (poke (poke (poke
    [(0, repeat 0 1024); (65536, repeat 0 256); (131072, repeat 0 256)]
    460 4 5) 464 8 196608) 472 8 65536) 65540 8 1) 65556 4 1024) 65560 4 64) 65568 8 131072.

Definition mk_entry (ver info addr size : Z) (h : list Z) : list Z :=
  le_bytes 4 ver ++ le_bytes 4 info ++ le_bytes 8 addr ++ le_bytes 8 size ++ h ++ repeat 0 20.

Definition wit_world (tab : list Z) (files : list (Z * list Z)) : world :=
  w_with world_init (std_segs ++ (196608, tab) :: files) [] None.

(* the state after ControlHandle::open on that device *)
Definition opened (w : world) : xst := snd (liftM ctl_open (xctl_init, (ctl_init, w))).

Definition doc_a : list Z := [60; 97; 62; 111; 108; 100; 60; 47; 97; 62].      (* <a>old</a> *)
Definition doc_b : list Z := [60; 98; 62; 110; 101; 119; 60; 47; 98; 62].      (* <b>new</b> *)
Definition fake_sha1 (bs : list Z) : list Z := repeat (1 + hd 0 (tl bs)) 20.

(* two device XML entries 1.0.255 and 1.0.256 and a buffer XML 9.0.0: the second one is returned *)
Example ex_newest :
  fst (genapi fake_sha1 (fun _ => None)
         (opened (wit_world (le_bytes 8 3 ++ mk_entry 16777471 0 262144 10 (fake_sha1 doc_a)
                                           ++ mk_entry 16777472 0 262656 10 (fake_sha1 doc_b)
                                           ++ mk_entry 150994944 1 262144 10 (repeat 0 20))
                            [(262144, doc_a); (262656, doc_b)]))) = Ok doc_b.
Proof. vm_compute. reflexivity. Qed.

(* the pinned code: ZipArchive::new(..).unwrap() on a file that is not an archive *)
Lemma zip_v0_refuted :
  exists sha1 unzip xs,
    fst (genapi_v0 sha1 unzip xs) = Panic /\ fst (genapi sha1 unzip xs) = Err CE_INVALID_DEVICE.
Proof.
  exists fake_sha1, (fun _ => None),
    (opened (wit_world (le_bytes 8 1 ++ mk_entry 16777216 1024 262144 10 (repeat 0 20)) [(262144, doc_a)])).
  vm_compute. split; reflexivity.
Qed.

(* known finding: vec![0; file_size] with file_size = 2^63 panics (capacity overflow) *)
Lemma absurd_size_refuted :
  exists sha1 unzip xs, fst (genapi sha1 unzip xs) = Panic.
Proof.
  exists fake_sha1, (fun _ => None),
    (opened (wit_world (le_bytes 8 1 ++ mk_entry 16777216 0 262144 (2 ^ 63) (repeat 0 20)) [(262144, doc_a)])).
  vm_compute. reflexivity.
Qed.

Theorem genapi_error_cases sha1 unzip (good : st -> Prop) x s t es r xs' :
  honest_reads good -> good s -> manifest_known (x_mt x) (w_segs (snd s)) t ->
  table_at (w_segs (snd s)) t es -> (forall e, In e es -> me_size e < 2 ^ 63) ->
  genapi sha1 unzip (x, s) = (r, xs') ->
  ((forall e, In e es -> ~ is_dev e) \/
   (exists e, In e es /\ ~ valid_type e) \/
   (exists i e, newest_at es i e /\
      (mem_read (w_segs (snd s)) (me_addr e) (me_size e) = None \/
       exists file, mem_read (w_segs (snd s)) (me_addr e) (me_size e) = Some file /\
         ((~ hash_absent (me_hash e) /\ sha1 file <> me_hash e) \/
          (file_format e <> 0 /\ file_format e <> 1) \/
          (file_format e = 1 /\ forall xml, unzip file <> Some [Some xml]))))) ->
  exists c, r = Err c.
Proof.
  intros HH Hg Hm Ht Hsz E Hcase.
  exact (genapi_errors sha1 unzip good x s t es r xs' HH Hg Hm Ht Hsz E
           (no_document_cases sha1 unzip (w_segs (snd s)) es Hcase)).
Qed.
