(* Proofs for C14 (model/XmlFetch.v against spec/ManifestSpec.v). *)
From Cam Require Import XmlFetch ManifestSpec.

Lemma lossy_ascii bs : Forall (fun b => 0 <= b < 128) bs -> lossy bs = bs.
Proof.
  induction 1 as [|b r Hb Hr IH]; cbn [lossy]; auto.
  destruct (Z.ltb_spec b 128); [|lia]. now rewrite IH.
Qed.

Lemma pair_inj {A B} (a a' : A) (b b' : B) : (a, b) = (a', b') -> a = a' /\ b = b'.
Proof. intros H; split; congruence. Qed.

Lemma Ok_inj' {A} (a b : A) : Some a = Some b -> a = b.
Proof. congruence. Qed.

(* ---- the selection loop as a pure function over the entry list, and its meaning ------------- *)
Definition pstep (i : nat) (e : mentry) (cur : option (nat * mentry)) : option (option (nat * mentry)) :=
  if me_info e mod 8 =? 0 then
    match cur with
    | Some (j, c) => if ver_le (vkey e) (vkey c) then Some cur else Some (Some (i, e))
    | None => Some (Some (i, e))
    end
  else if me_info e mod 8 =? 1 then Some cur else None.

Fixpoint pick (i : nat) (es : list mentry) (cur : option (nat * mentry)) : option (option (nat * mentry)) :=
  match es with
  | [] => Some cur
  | e :: r => match pstep i e cur with Some c => pick (S i) r c | None => None end
  end.

Definition best_of (l : list mentry) (c : option (nat * mentry)) : Prop :=
  match c with
  | None => forall j e, nth_error l j = Some e -> ~ is_dev e
  | Some (i, e) => newest_at l i e
  end.

Lemma ver_le_spec a b : ver_le a b = true <-> lex_le a b.
Proof.
  destruct a as [[a1 a2] a3], b as [[b1 b2] b3]. unfold ver_le, lex_le, lex_lt.
  repeat (first [rewrite orb_true_iff | rewrite andb_true_iff]).
  rewrite !Z.ltb_lt, !Z.eqb_eq, Z.leb_le.
  split.
  - intros [?|[? [?|[? ?]]]]; [left; lia|left; lia|].
    destruct (Z.eq_dec a3 b3); [right; congruence|left; lia].
  - intros [?|E]; [lia|]. apply pair_inj in E as [E1 E3]; apply pair_inj in E1 as [E1 E2]. lia.
Qed.

Lemma lex_not_le a b : ~ lex_le a b -> lex_lt b a.
Proof.
  destruct a as [[a1 a2] a3], b as [[b1 b2] b3]. unfold lex_le, lex_lt. intros H.
  destruct (Z.lt_trichotomy a1 b1) as [?|[?|?]]; [elim H; left; lia| |lia].
  destruct (Z.lt_trichotomy a2 b2) as [?|[?|?]]; [elim H; left; lia| |lia].
  destruct (Z.lt_trichotomy a3 b3) as [?|[?|?]]; [elim H; left; lia| |lia].
  elim H. right. congruence.
Qed.

Lemma lex_le_lt_trans a b c : lex_le a b -> lex_lt b c -> lex_lt a c.
Proof.
  destruct a as [[a1 a2] a3], b as [[b1 b2] b3], c as [[c1 c2] c3]. unfold lex_le, lex_lt.
  intros [H|H] H'; [lia|]. apply pair_inj in H as [H1 H3]. apply pair_inj in H1 as [H1 H2]. lia.
Qed.

Lemma nth_error_snoc {A} (l : list A) x j y :
  nth_error (l ++ [x]) j = Some y ->
  ((j < length l)%nat /\ nth_error l j = Some y) \/ (j = length l /\ y = x).
Proof.
  intros H. destruct (Nat.lt_ge_cases j (length l)) as [Hl|Hl].
  - left. split; [exact Hl|]. now rewrite nth_error_app1 in H.
  - right. rewrite nth_error_app2 in H by exact Hl.
    destruct (j - length l)%nat as [|k] eqn:E.
    + cbn in H. split; [lia|congruence].
    + cbn in H. destruct k; discriminate.
Qed.

Lemma nth_error_snoc_l {A} (l : list A) x j y : nth_error l j = Some y -> nth_error (l ++ [x]) j = Some y.
Proof. intros H. rewrite nth_error_app1; [exact H|]. apply nth_error_Some. congruence. Qed.

Lemma keep_best pre e j c :
  newest_at pre j c -> (is_dev e -> lex_le (vkey e) (vkey c)) -> newest_at (pre ++ [e]) j c.
Proof.
  intros (Hn & Hd & Hall & Hearly) He. unfold newest_at.
  split; [now apply nth_error_snoc_l|]. split; [exact Hd|]. split.
  - intros k e' Hk Hdev. apply nth_error_snoc in Hk as [[_ Hk]|[_ ->]]; [eapply Hall; eauto|now apply He].
  - intros k e' Hlt Hk Hdev. apply nth_error_snoc in Hk as [[_ Hk]|[-> ->]]; [eapply Hearly; eauto|].
    assert (j < length pre)%nat by (apply nth_error_Some; congruence). lia.
Qed.

Lemma pstep_best pre e cur c' :
  best_of pre cur -> pstep (length pre) e cur = Some c' -> best_of (pre ++ [e]) c' /\ valid_type e.
Proof.
  intros Hb Hp. unfold pstep in Hp.
  assert (Hnew : (forall k e', nth_error pre k = Some e' -> is_dev e' -> lex_lt (vkey e') (vkey e)) ->
                 is_dev e -> newest_at (pre ++ [e]) (length pre) e).
  { intros Hlt Hd. unfold newest_at. split; [rewrite nth_error_app2, Nat.sub_diag by lia; reflexivity|].
    split; [exact Hd|]. split.
    - intros k e' Hk Hdev. apply nth_error_snoc in Hk as [[_ Hk]|[_ ->]]; [left; eapply Hlt; eauto|now right].
    - intros k e' Hlt' Hk Hdev. apply nth_error_snoc in Hk as [[_ Hk]|[Hk ->]]; [eapply Hlt; eauto|].
      exfalso. lia. }
  destruct (Z.eqb_spec (me_info e mod 8) 0) as [H0|H0].
  - assert (Hd : is_dev e) by exact H0.
    split; [|left; exact H0].
    destruct cur as [[j c]|].
    + destruct (ver_le (vkey e) (vkey c)) eqn:Ev; apply Ok_inj' in Hp; subst c'.
      * cbn [best_of] in *. apply keep_best; [exact Hb|]. intros _. now apply ver_le_spec.
      * cbn [best_of] in *. apply Hnew; [|exact Hd].
        assert (Hlt : lex_lt (vkey c) (vkey e)).
        { apply lex_not_le. intros Hc. apply ver_le_spec in Hc. congruence. }
        destruct Hb as (_ & _ & Hall & _). intros k e' Hk Hdev.
        eapply lex_le_lt_trans; [eapply Hall; eauto|exact Hlt].
    + apply Ok_inj' in Hp; subst c'. cbn [best_of] in *. apply Hnew; [|exact Hd].
      intros k e' Hk Hdev. elim (Hb _ _ Hk Hdev).
  - destruct (Z.eqb_spec (me_info e mod 8) 1) as [H1|H1]; [|discriminate].
    apply Ok_inj' in Hp; subst c'.
    assert (Hnd : ~ is_dev e) by (unfold is_dev; lia).
    split; [|right; exact H1].
    destruct cur as [[j c]|]; cbn [best_of] in *.
    + apply keep_best; [exact Hb|]. intros Hd. now elim Hnd.
    + intros k e' Hk. apply nth_error_snoc in Hk as [[_ Hk]|[_ ->]]; [eapply Hb; eauto|exact Hnd].
Qed.

Lemma pick_best es : forall pre cur r,
  best_of pre cur -> pick (length pre) es cur = Some r -> best_of (pre ++ es) r /\ Forall valid_type es.
Proof.
  induction es as [|e es IH]; intros pre cur r Hb Hp; cbn [pick] in Hp.
  - apply Ok_inj' in Hp; subst r. rewrite app_nil_r. split; [exact Hb|constructor].
  - destruct (pstep (length pre) e cur) as [c|] eqn:Es; [|discriminate].
    destruct (pstep_best _ _ _ _ Hb Es) as [Hb' Hv].
    replace (S (length pre)) with (length (pre ++ [e])) in Hp by (rewrite app_length; cbn; lia).
    destruct (IH _ _ _ Hb' Hp) as [Hr Hf]. rewrite <- app_assoc in Hr. cbn [app] in Hr.
    split; [exact Hr|constructor; assumption].
Qed.

Lemma pick_spec es r : pick 0 es None = Some r -> best_of es r /\ Forall valid_type es.
Proof.
  intros H. apply (pick_best es [] None r); [|exact H].
  intros j e Hj. destruct j; discriminate.
Qed.

Lemma zeqb_list_eq a b : zeqb_list a b = true -> a = b.
Proof.
  unfold zeqb_list. revert b; induction a as [|x a IH]; intros [|y b] H; cbn in H; try discriminate; auto.
  apply andb_prop in H as [Hl H]. apply andb_prop in H as [Hx H].
  apply Z.eqb_eq in Hx. subst y. f_equal. apply IH. now rewrite Hl, H.
Qed.

(* ---- a partial-correctness logic for the X monad over an honest device ---------------------- *)
Section Sound.
Variable sha1 : list Z -> list Z.
Variable unzip : list Z -> option (list (option (list Z))).
Variable good : st -> Prop.
Hypothesis HH : honest_reads good.
Variable segs : list (Z * list Z).
Variable Bad : Prop.          (* what a panic implies *)

Definition Inv (xs : xst) : Prop := good (snd xs) /\ w_segs (snd (snd xs)) = segs.

Definition tri {A} (m : X A) (Q : A -> Prop) : Prop :=
  forall xs r xs', Inv xs -> m xs = (r, xs') ->
    Inv xs' /\ (r = Panic -> Bad) /\ forall a, r = Ok a -> Q a.

Definition mtri {A} (m : M A) (Q : A -> Prop) : Prop :=
  forall s r s', good s -> w_segs (snd s) = segs -> m s = (r, s') ->
    (good s' /\ w_segs (snd s') = segs) /\ (r = Panic -> Bad) /\ forall a, r = Ok a -> Q a.

Lemma tri_ret {A} (a : A) (Q : A -> Prop) : Q a -> tri (xret a) Q.
Proof.
  intros HQ xs r xs' HI E. unfold xret in E. apply pair_inj in E as [<- <-].
  split; [exact HI|]. split; [discriminate|]. intros b Hb. apply Ok_inj in Hb. now subst.
Qed.

Lemma tri_fail {A} e (Q : A -> Prop) : tri (xfail e) Q.
Proof.
  intros xs r xs' HI E. unfold xfail in E. apply pair_inj in E as [<- <-].
  split; [exact HI|]. split; discriminate.
Qed.

Lemma tri_bind {A B} (m : X A) (f : A -> X B) (Q : A -> Prop) (R : B -> Prop) :
  tri m Q -> (forall a, Q a -> tri (f a) R) -> tri (xbind m f) R.
Proof.
  intros Hm Hf xs r xs' HI E. unfold xbind in E.
  destruct (m xs) as [[a|e|] xs1] eqn:Em.
  - destruct (Hm _ _ _ HI Em) as (HI1 & _ & HQ). eapply Hf; eauto.
  - destruct (Hm _ _ _ HI Em) as (HI1 & _ & _). apply pair_inj in E as [<- <-].
    split; [exact HI1|]. split; discriminate.
  - destruct (Hm _ _ _ HI Em) as (HI1 & HP & _). apply pair_inj in E as [<- <-].
    split; [exact HI1|]. split; [intros _; now apply HP|discriminate].
Qed.

Lemma tri_conseq {A} (m : X A) (Q Q' : A -> Prop) : tri m Q -> (forall a, Q a -> Q' a) -> tri m Q'.
Proof.
  intros Hm HQ xs r xs' HI E. destruct (Hm _ _ _ HI E) as (H1 & H2 & H3). repeat split; auto.
  - apply H1.
  - apply H1.
Qed.

Lemma mtri_ret {A} (a : A) (Q : A -> Prop) : Q a -> mtri (ret a) Q.
Proof.
  intros HQ s r s' Hg Hs E. unfold ret in E. apply pair_inj in E as [<- <-].
  repeat split; auto; try discriminate. intros b Hb. apply Ok_inj in Hb. now subst.
Qed.

Lemma mtri_fail {A} e (Q : A -> Prop) : mtri (fail e) Q.
Proof.
  intros s r s' Hg Hs E. unfold fail in E. apply pair_inj in E as [<- <-].
  repeat split; auto; discriminate.
Qed.

Lemma mtri_bind {A B} (m : M A) (f : A -> M B) (Q : A -> Prop) (R : B -> Prop) :
  mtri m Q -> (forall a, Q a -> mtri (f a) R) -> mtri (bindM m f) R.
Proof.
  intros Hm Hf s r s' Hg Hs E. unfold bindM in E.
  destruct (m s) as [[a|e|] s1] eqn:Em.
  - destruct (Hm _ _ _ Hg Hs Em) as ((Hg1 & Hs1) & _ & HQ). eapply Hf; eauto.
  - destruct (Hm _ _ _ Hg Hs Em) as (HI1 & _ & _). apply pair_inj in E as [<- <-].
    split; [exact HI1|]. split; discriminate.
  - destruct (Hm _ _ _ Hg Hs Em) as (HI1 & HP & _). apply pair_inj in E as [<- <-].
    split; [exact HI1|]. split; [intros _; now apply HP|discriminate].
Qed.

Lemma mtri_read a n : mtri (ctl_read a n) (fun d => mem_read segs a n = Some d).
Proof.
  intros s r s' Hg Hs E. destruct HH as (_ & _ & Hr).
  destruct (Hr _ _ _ _ _ Hg E) as (Hg' & Hs' & Hp & Hd).
  split; [split; [exact Hg'|congruence]|]. split; [intros ->; now elim Hp|].
  intros d Hd'. rewrite <- Hs. now apply Hd.
Qed.

Lemma mtri_reg a n : mtri (read_reg a n) (fun v => exists d, mem_read segs a n = Some d /\ v = of_le d).
Proof.
  unfold read_reg. eapply mtri_bind; [apply mtri_read|].
  intros d Hd. apply mtri_ret. exists d. auto.
Qed.

Lemma mtri_addr b o : mtri (reg_addr b o) (fun v => v = b + o /\ b + o < 2 ^ 64).
Proof.
  unfold reg_addr. destruct (Z.ltb_spec (b + o) (2 ^ 64)).
  - apply mtri_ret. auto.
  - apply mtri_fail.
Qed.

Lemma mtri_abrm : mtri h_abrm (fun _ => True).
Proof.
  intros s r s' Hg Hs E. destruct HH as (_ & Ha & _). specialize (Ha _ Hg).
  unfold h_abrm, bindM, get_ctl in E. destruct (c_abrm (fst s)) as [cap|]; [|now elim Ha].
  unfold ret in E. apply pair_inj in E as [<- <-]. repeat split; auto; discriminate.
Qed.

Lemma tri_lift {A} (m : M A) (Q : A -> Prop) : mtri m Q -> tri (liftM m) Q.
Proof.
  intros Hm [x s] r xs' [Hg Hs] E. unfold liftM in E. cbn [snd] in Hg, Hs.
  destruct (m s) as [r1 s1] eqn:Em. apply pair_inj in E as [<- <-].
  destruct (Hm _ _ _ Hg Hs Em) as ((Hg1 & Hs1) & HP & HQ).
  split; [split; assumption|]. split; assumption.
Qed.

Lemma tri_read a n : tri (x_read a n) (fun d => mem_read segs a n = Some d).
Proof. apply tri_lift, mtri_read. Qed.
Lemma tri_reg a n : tri (x_reg a n) (fun v => exists d, mem_read segs a n = Some d /\ v = of_le d).
Proof. apply tri_lift, mtri_reg. Qed.
Lemma tri_addr b o : tri (x_addr b o) (fun v => v = b + o /\ b + o < 2 ^ 64).
Proof. apply tri_lift, mtri_addr. Qed.

Lemma tri_getx : tri get_x (fun _ => True).
Proof.
  intros xs r xs' HI E. unfold get_x in E. apply pair_inj in E as [<- <-].
  repeat split; auto; try apply HI; discriminate.
Qed.

Lemma tri_set_mt a : tri (set_mt a) (fun _ => True).
Proof.
  intros [x s] r xs' HI E. unfold set_mt in E. apply pair_inj in E as [<- <-].
  repeat split; auto; try apply HI; discriminate.
Qed.

Lemma tri_resize n : tri (resize_buffer n) (fun _ => True).
Proof.
  intros [x [c w]] r xs' [Hg Hs] E. unfold resize_buffer in E. apply pair_inj in E as [<- <-].
  cbn [snd] in *. destruct HH as (Hb & _). unfold Inv. cbn [snd].
  split; [split; [now apply Hb|exact Hs]|]. split; [discriminate|auto].
Qed.

(* a register holding v reads as v *)
Lemma field_val a n v d : u_field segs a n v -> mem_read segs a (Z.of_nat n) = Some d -> of_le d = v.
Proof.
  intros [Hr Hm] Hd. rewrite Hm in Hd. apply (f_equal (fun o => match o with Some x => x | None => [] end)) in Hd.
  subst d. now apply of_le_le_bytes.
Qed.

Lemma tri_panic {A} (Q : A -> Prop) : Bad -> tri xpanic Q.
Proof.
  intros HB xs r xs' HI E. unfold xpanic in E. apply pair_inj in E as [<- <-].
  split; [exact HI|]. split; [auto|discriminate].
Qed.

(* model candidate vs (index, entry) *)
Definition crel (first : Z) (c : option cand) (p : option (nat * mentry)) : Prop :=
  match c, p with
  | None, None => True
  | Some (a, v, inf), Some (i, e) => a = first + Z.of_nat i * 64 /\ v = vkey e /\ inf = me_info e
  | _, _ => False
  end.

Lemma tri_scan_entry first i e nw cur :
  entry_at segs (first + Z.of_nat i * 64) e -> crel first nw cur ->
  tri (scan_entry (first + Z.of_nat i * 64) nw)
      (fun nw' => exists c', pstep i e cur = Some c' /\ crel first nw' c').
Proof.
  intros (Ha0 & Ha1 & Fv & Fi & _) Hc. unfold scan_entry.
  eapply tri_bind; [apply tri_addr|]. intros ia [-> _].
  eapply tri_bind; [apply tri_reg|]. intros info (d & Hd & ->).
  rewrite (field_val _ 4%nat _ _ Fi Hd).
  unfold file_type, pstep.
  destruct (Z.eqb_spec (me_info e mod 8) 0) as [E0|E0].
  - eapply tri_bind; [apply tri_addr|]. intros va [-> _].
    eapply tri_bind; [apply tri_reg|]. intros v (d2 & Hd2 & ->).
    rewrite Z.add_0_r in Hd2. rewrite (field_val _ 4%nat _ _ Fv Hd2).
    change (version_of (me_ver e)) with (vkey e).
    destruct nw as [[[a0 cv] ci]|], cur as [[j c]|]; cbn [crel] in Hc; try contradiction.
    + destruct Hc as (-> & -> & ->).
      destruct (ver_le (vkey e) (vkey c)); apply tri_ret; eexists; (split; [reflexivity|]); cbn [crel]; auto.
    + apply tri_ret. eexists; split; [reflexivity|]. cbn [crel]; auto.
  - destruct (Z.eqb_spec (me_info e mod 8) 1) as [E1|E1]; [apply tri_ret; eauto|apply tri_fail].
Qed.

Lemma tri_scan first : forall es i cur nw,
  entries_at segs (first + Z.of_nat i * 64) es -> crel first nw cur ->
  tri (scan (length es) first (Z.of_nat i) nw)
      (fun nw' => exists c', pick i es cur = Some c' /\ crel first nw' c').
Proof.
  induction es as [|e es IH]; intros i cur nw He Hc; cbn [scan length pick].
  - apply tri_ret. eauto.
  - destruct He as [He Hr].
    destruct (Z.ltb_spec (first + Z.of_nat i * 64) (2 ^ 64)) as [Hlt|Hge].
    + eapply tri_bind; [apply (tri_scan_entry first i e nw cur He Hc)|].
      intros nw' (c' & Hp & Hc'). rewrite Hp.
      replace (Z.of_nat i + 1) with (Z.of_nat (S i)) by lia.
      apply IH; [|exact Hc'].
      replace (first + Z.of_nat (S i) * 64) with (first + Z.of_nat i * 64 + 64) by lia. exact Hr.
    + exfalso. destruct He as (_ & H64 & _). lia.
Qed.

Lemma tri_entries t es : table_at segs t es -> tri (entries t) (fun fe => fe = (t + 8, zlen es)).
Proof.
  intros (Ht & Fn & _). unfold entries.
  eapply tri_bind; [apply tri_addr|]. intros a0 [-> _]. rewrite Z.add_0_r.
  eapply tri_bind; [apply tri_reg|]. intros n (d & Hd & ->). rewrite (field_val _ 8%nat _ _ Fn Hd).
  eapply tri_bind; [apply tri_addr|]. intros first [-> _].
  destruct (Z.eqb_spec (zlen es) 0) as [E|E]; [apply tri_ret; now rewrite E|].
  destruct (t + 8 + (zlen es - 1) * 64 <? 2 ^ 64); [apply tri_ret; reflexivity|apply tri_fail].
Qed.

Lemma tri_verify buf ent h : mem_read segs (ent + 24) 20 = Some h ->
  tri (verify_xml sha1 buf ent) (fun _ => hash_absent h \/ sha1 buf = h).
Proof.
  intros Hh. unfold verify_xml.
  eapply tri_bind; [apply tri_addr|]. intros ha [-> _].
  eapply tri_bind; [apply tri_read|]. intros h' Hh'. rewrite Hh in Hh'. apply Ok_inj' in Hh'. subst h'.
  destruct (forallb (fun b => b =? 0) h) eqn:Ef.
  - apply tri_ret. left. unfold hash_absent. apply Forall_forall. intros b Hb.
    rewrite forallb_forall in Ef. apply Z.eqb_eq. now apply Ef.
  - destruct (zeqb_list (sha1 buf) h) eqn:Ez; [apply tri_ret; right; now apply zeqb_list_eq|apply tri_fail].
Qed.

Local Notation doc_rel := (ManifestSpec.doc_rel unzip lossy).
Local Notation doc_spec := (ManifestSpec.doc_spec sha1 unzip lossy segs).
Local Notation result_spec := (ManifestSpec.result_spec sha1 unzip lossy segs).

Lemma tri_decode comp buf : comp = 0 \/ comp = 1 -> tri (decode unzip comp buf) (doc_rel comp buf).
Proof.
  intros Hc. unfold decode. destruct (Z.eqb_spec comp 1) as [E|E].
  - destruct (unzip buf) as [[|[xml|] [|f2 fs]]|] eqn:Eu; try apply tri_fail.
    apply tri_ret. right. split; [exact E|]. exists xml. auto.
  - apply tri_ret. left. split; [lia|reflexivity].
Qed.

Lemma tri_fetch first i e sel :
  crel first (Some sel) (Some (i, e)) -> entry_at segs (first + Z.of_nat i * 64) e ->
  (2 ^ 63 <= me_size e -> Bad) ->
  tri (fetch sha1 unzip sel) (doc_spec e).
Proof.
  destruct sel as [[a v] inf]. intros (-> & -> & ->) (Ha0 & Ha1 & Fv & Fi & Fa & Fs & Fh) HB.
  unfold fetch.
  eapply tri_bind; [apply tri_addr|]. intros aa [-> _].
  eapply tri_bind; [apply tri_reg|]. intros fa (d & Hd & ->). rewrite (field_val _ 8%nat _ _ Fa Hd).
  eapply tri_bind; [apply tri_addr|]. intros sa [-> _].
  eapply tri_bind; [apply tri_reg|]. intros fs (d2 & Hd2 & ->). rewrite (field_val _ 8%nat _ _ Fs Hd2).
  change (compression_type (me_info e)) with (file_format e).
  destruct ((file_format e =? 0) || (file_format e =? 1)) eqn:Ec; cbn [negb]; [|apply tri_fail].
  assert (Hc : file_format e = 0 \/ file_format e = 1).
  { apply orb_true_iff in Ec as [Ec|Ec]; apply Z.eqb_eq in Ec; auto. }
  eapply tri_bind; [apply tri_getx|]. intros x _.
  destruct (Z.leb_spec (2 ^ 63) (me_size e)); [apply tri_panic; auto|].
  eapply tri_bind; [apply tri_read|]. intros buf Hbuf.
  eapply tri_bind; [apply tri_resize|]. intros _ _.
  eapply tri_bind; [apply (tri_verify buf _ _ Fh)|]. intros u Hh. cbv beta in Hh.
  eapply tri_conseq; [apply (tri_decode _ buf Hc)|].
  intros text Hdoc. exists buf. auto.
Qed.

Lemma entries_at_nth : forall es a i e,
  entries_at segs a es -> nth_error es i = Some e -> entry_at segs (a + Z.of_nat i * 64) e.
Proof.
  induction es as [|e0 es IH]; intros a i e He Hn; [destruct i; discriminate|].
  destruct He as [He Hr]. destruct i as [|i].
  - cbn in Hn. apply Ok_inj' in Hn. subst e0. cbn [Z.of_nat]. now rewrite Z.add_0_r.
  - cbn [nth_error] in Hn. specialize (IH _ _ _ Hr Hn).
    replace (a + Z.of_nat (S i) * 64) with (a + 64 + Z.of_nat i * 64) by lia. exact IH.
Qed.

Definition after_table (t : Z) : X (list Z) :=
  dox fe <- entries t;
  dox newest <- scan (Z.to_nat (snd fe)) (fst fe) 0 None;
  match newest with
  | None => xfail CE_INVALID_DEVICE
  | Some sel => fetch sha1 unzip sel
  end.

Lemma genapi_unfold : genapi sha1 unzip = xbind manifest_table after_table.
Proof. reflexivity. Qed.

Lemma tri_after_table t es :
  table_at segs t es -> (forall e, In e es -> 2 ^ 63 <= me_size e -> Bad) ->
  tri (after_table t) (result_spec es).
Proof.
  intros Ht HB. unfold after_table.
  eapply tri_bind; [apply (tri_entries t es Ht)|]. intros fe ->. cbn [fst snd].
  unfold zlen. rewrite Nat2Z.id.
  eapply tri_bind; [apply (tri_scan (t + 8) es 0%nat None None)|].
  { cbn [Z.of_nat]. replace (t + 8 + 0 * 64) with (t + 8) by lia. apply Ht. }
  { exact I. }
  intros nw (c' & Hp & Hc). apply pick_spec in Hp as [Hb Hv].
  destruct nw as [[[a0 v0] i0]|]; destruct c' as [[i e]|]; cbn [crel] in Hc; try contradiction.
  - cbn [best_of] in Hb. eapply tri_conseq; [apply (tri_fetch (t + 8) i e (a0, v0, i0) Hc)|].
    + apply (entries_at_nth es (t + 8) i e); [apply Ht|apply Hb].
    + apply HB. eapply nth_error_In. apply Hb.
    + intros text Hd. exists i, e. auto.
  - apply tri_fail.
Qed.

Definition mt_fetch : X Z :=
  dox _ <- liftM h_abrm; dox a <- x_reg 464 8; dox _ <- set_mt a; xret a.

Lemma manifest_table_eq xs :
  manifest_table xs = match x_mt (fst xs) with Some a => (Ok a, xs) | None => mt_fetch xs end.
Proof. unfold manifest_table, xbind at 1, get_x. destruct (x_mt (fst xs)); reflexivity. Qed.

Lemma tri_mt_fetch t : u_field segs 464 8 t -> tri mt_fetch (fun a => a = t).
Proof.
  intros F. unfold mt_fetch.
  eapply tri_bind; [apply tri_lift, mtri_abrm|]. intros _ _.
  eapply tri_bind; [apply tri_reg|]. intros a (d & Hd & ->). rewrite (field_val _ 8%nat _ _ F Hd).
  eapply tri_bind; [apply tri_set_mt|]. intros _ _. now apply tri_ret.
Qed.

Lemma genapi_sound_core x s t es r xs' :
  good s -> w_segs (snd s) = segs -> manifest_known (x_mt x) segs t -> table_at segs t es ->
  (forall e, In e es -> 2 ^ 63 <= me_size e -> Bad) ->
  genapi sha1 unzip (x, s) = (r, xs') ->
  Inv xs' /\ (r = Panic -> Bad) /\ forall text, r = Ok text -> result_spec es text.
Proof.
  intros Hg Hs Hm Ht HB E. rewrite genapi_unfold in E. unfold xbind in E.
  assert (HI : Inv (x, s)) by (split; assumption).
  assert (M : forall r1 xs1, manifest_table (x, s) = (r1, xs1) ->
              Inv xs1 /\ (r1 = Panic -> Bad) /\ forall a, r1 = Ok a -> a = t).
  { intros r1 xs1 E1. rewrite manifest_table_eq in E1. cbn [fst] in E1. unfold manifest_known in Hm.
    destruct (x_mt x) as [a|].
    - apply pair_inj in E1 as [<- <-]. split; [exact HI|]. split; [discriminate|].
      intros b Hb. apply Ok_inj in Hb. congruence.
    - exact (tri_mt_fetch t Hm _ _ _ HI E1). }
  destruct (manifest_table (x, s)) as [[a|e|] xs1] eqn:Em; destruct (M _ _ eq_refl) as (HI1 & HP1 & HA1).
  - rewrite (HA1 a eq_refl) in E. exact (tri_after_table t es Ht HB _ _ _ HI1 E).
  - apply pair_inj in E as [<- <-]. split; [exact HI1|]. split; discriminate.
  - apply pair_inj in E as [<- <-]. split; [exact HI1|]. split; [intros _; now apply HP1|discriminate].
Qed.

End Sound.
