(* Proofs for property C03 (model/Graph.v), part 1: the interpreter is a function of the graph,
   not of the fuel. *)
From Cam Require Import Outcome Bytes Mem BitField RegCodec Formula Graph.

Notation "'let!' x ':=' e 'in' k" := (mbind e (fun x => k))
  (at level 200, x pattern, e at level 100, k at level 200, right associativity).

(* "did not run out of fuel" *)
Definition nf {A} (x : outcome A * state) : Prop := fst x <> Err E_FUEL.

(* m2 agrees with m1 wherever m1 did not run out of fuel *)
Definition mono {A} (m1 m2 : M A) : Prop := forall s, nf (m1 s) -> m2 s = m1 s.
Definition ext (c1 c2 : req -> M ans) : Prop := forall q, mono (c1 q) (c2 q).

Lemma mono_refl {A} (m : M A) : mono m m.
Proof. intros s _. reflexivity. Qed.

Lemma mbind_mono {A B} (m1 m2 : M A) (k1 k2 : A -> M B) :
  mono m1 m2 -> (forall a, mono (k1 a) (k2 a)) -> mono (mbind m1 k1) (mbind m2 k2).
Proof.
  intros Hm Hk s H. unfold mbind in *.
  destruct (m1 s) as [[a|e|] s'] eqn:E.
  - rewrite (Hm s) by (rewrite E; discriminate). rewrite E. apply Hk. exact H.
  - assert (He : e <> E_FUEL) by (intros ->; apply H; reflexivity).
    rewrite (Hm s) by (rewrite E; unfold nf; cbn [fst]; congruence). rewrite E. reflexivity.
  - rewrite (Hm s) by (rewrite E; discriminate). rewrite E. reflexivity.
Qed.

Lemma mfold_mono {A} (f1 f2 : A -> M unit) l :
  (forall a, mono (f1 a) (f2 a)) -> mono (mfold f1 l) (mfold f2 l).
Proof.
  intros H. induction l as [|x r IH]; cbn [mfold]; [apply mono_refl|].
  apply mbind_mono; [apply H|intros _; exact IH].
Qed.

Create HintDb monodb.

Ltac mono_step :=
  match goal with
  | |- mono ?a ?a => apply mono_refl
  | |- mono (mbind _ _) (mbind _ _) => apply mbind_mono; [|intros ?]
  | |- mono (mfold _ _) (mfold _ _) => apply mfold_mono; intros ?
  | |- mono (match ?x with _ => _ end) (match ?x with _ => _ end) => destruct x
  | |- mono (if ?x then _ else _) (if ?x then _ else _) => destruct x
  | H : ext ?c1 ?c2 |- mono (?c1 _) (?c2 _) => apply H
  | |- mono _ _ => solve [auto with monodb]
  end.
Ltac mono_tac := repeat mono_step.

Section Mono.
  Variable fops : float_ops.
  Variable nodes : list node.
  Variables c1 c2 : req -> M ans.
  Hypothesis Hext : ext c1 c2.

  Notation body_of := (body_of nodes).

  Lemma nid_get_i_mono n : mono (nid_get_i fops nodes c1 n) (nid_get_i fops nodes c2 n).
  Proof. unfold nid_get_i. mono_tac. Qed.
  Lemma nid_set_i_mono n v : mono (nid_set_i fops nodes c1 n v) (nid_set_i fops nodes c2 n v).
  Proof. unfold nid_set_i. mono_tac. Qed.
  Lemma nid_get_f_mono n : mono (nid_get_f fops nodes c1 n) (nid_get_f fops nodes c2 n).
  Proof. unfold nid_get_f. mono_tac. Qed.
  Lemma nid_set_f_mono n v : mono (nid_set_f fops nodes c1 n v) (nid_set_f fops nodes c2 n v).
  Proof. unfold nid_set_f. mono_tac. Qed.
  Lemma nid_readable_mono n : mono (nid_readable nodes c1 n) (nid_readable nodes c2 n).
  Proof. unfold nid_readable. mono_tac. Qed.
  Lemma nid_readable_strict_mono n : mono (nid_readable_strict nodes c1 n) (nid_readable_strict nodes c2 n).
  Proof. unfold nid_readable_strict. mono_tac. Qed.
  Hint Resolve nid_get_i_mono nid_set_i_mono nid_get_f_mono nid_set_f_mono nid_readable_mono
       nid_readable_strict_mono : monodb.

  Lemma src_get_i_mono x : mono (src_get_i fops nodes c1 x) (src_get_i fops nodes c2 x).
  Proof. unfold src_get_i. mono_tac. Qed.
  Lemma src_set_i_mono x v : mono (src_set_i fops nodes c1 x v) (src_set_i fops nodes c2 x v).
  Proof. unfold src_set_i. mono_tac. Qed.
  Lemma src_get_f_mono x : mono (src_get_f fops nodes c1 x) (src_get_f fops nodes c2 x).
  Proof. unfold src_get_f. mono_tac. Qed.
  Lemma src_set_f_mono x v : mono (src_set_f fops nodes c1 x v) (src_set_f fops nodes c2 x v).
  Proof. unfold src_set_f. mono_tac. Qed.
  Lemma src_readable_mono x : mono (src_readable nodes c1 x) (src_readable nodes c2 x).
  Proof. unfold src_readable. mono_tac. Qed.
  Lemma isrc_get_i_mono x : mono (isrc_get_i fops nodes c1 x) (isrc_get_i fops nodes c2 x).
  Proof. unfold isrc_get_i. mono_tac. Qed.
  Lemma isrc_get_f_mono x : mono (isrc_get_f fops nodes c1 x) (isrc_get_f fops nodes c2 x).
  Proof. unfold isrc_get_f. mono_tac. Qed.
  Lemma pindex_index_mono i : mono (pindex_index nodes c1 i) (pindex_index nodes c2 i).
  Proof. unfold pindex_index. mono_tac. Qed.
  Hint Resolve src_get_i_mono src_set_i_mono src_get_f_mono src_set_f_mono src_readable_mono
       isrc_get_i_mono isrc_get_f_mono pindex_index_mono : monodb.

  Lemma vk_get_i_mono v : mono (vk_get_i fops nodes c1 v) (vk_get_i fops nodes c2 v).
  Proof. unfold vk_get_i. mono_tac. Qed.
  Lemma vk_set_i_mono v x : mono (vk_set_i fops nodes c1 v x) (vk_set_i fops nodes c2 v x).
  Proof. unfold vk_set_i. mono_tac. Qed.
  Lemma vk_get_f_mono v : mono (vk_get_f fops nodes c1 v) (vk_get_f fops nodes c2 v).
  Proof. unfold vk_get_f. mono_tac. Qed.
  Lemma vk_set_f_mono v x : mono (vk_set_f fops nodes c1 v x) (vk_set_f fops nodes c2 v x).
  Proof. unfold vk_set_f. mono_tac. Qed.
  Lemma vk_readable_mono v : mono (vk_readable nodes c1 v) (vk_readable nodes c2 v).
  Proof. unfold vk_readable. mono_tac. Qed.
  Hint Resolve vk_get_i_mono vk_set_i_mono vk_get_f_mono vk_set_f_mono vk_readable_mono : monodb.

  Lemma reg_length_mono r : mono (reg_length fops nodes c1 r) (reg_length fops nodes c2 r).
  Proof. unfold reg_length. mono_tac. Qed.
  Lemma addr_value_mono a : mono (addr_value fops nodes c1 a) (addr_value fops nodes c2 a).
  Proof. unfold addr_value. mono_tac. Qed.
  Hint Resolve reg_length_mono addr_value_mono : monodb.
  Lemma addr_sum_mono l acc : mono (addr_sum fops nodes c1 acc l) (addr_sum fops nodes c2 acc l).
  Proof. revert acc; induction l as [|a r IH]; intros acc; cbn [addr_sum]; mono_tac; try apply IH. Qed.
  Hint Resolve addr_sum_mono : monodb.
  Lemma reg_address_mono r : mono (reg_address fops nodes c1 r) (reg_address fops nodes c2 r).
  Proof. unfold reg_address. mono_tac. Qed.
  Hint Resolve reg_address_mono : monodb.
  Lemma reg_fetch_mono r : mono (reg_fetch fops nodes c1 r) (reg_fetch fops nodes c2 r).
  Proof. unfold reg_fetch. mono_tac. Qed.
  Lemma reg_store_mono r bs : mono (reg_store fops nodes c1 r bs) (reg_store fops nodes c2 r bs).
  Proof. unfold reg_store. mono_tac. Qed.
  Lemma ireg_read_mono r n : mono (ireg_read fops nodes c1 r n) (ireg_read fops nodes c2 r n).
  Proof. unfold ireg_read. mono_tac. Qed.
  Hint Resolve reg_fetch_mono reg_store_mono ireg_read_mono : monodb.

  Lemma intreg_value_mono r a b : mono (intreg_value fops nodes c1 r a b) (intreg_value fops nodes c2 r a b).
  Proof. unfold intreg_value. mono_tac. Qed.
  Lemma intreg_set_mono r a b v : mono (intreg_set fops nodes c1 r a b v) (intreg_set fops nodes c2 r a b v).
  Proof. unfold intreg_set. mono_tac. Qed.
  Lemma mreg_value_mono r a b c d : mono (mreg_value fops nodes c1 r a b c d) (mreg_value fops nodes c2 r a b c d).
  Proof. unfold mreg_value. mono_tac. Qed.
  Lemma mreg_set_mono r a b c d v : mono (mreg_set fops nodes c1 r a b c d v) (mreg_set fops nodes c2 r a b c d v).
  Proof. unfold mreg_set. mono_tac. Qed.
  Lemma mreg_min_mono r a b c d : mono (mreg_min fops nodes c1 r a b c d) (mreg_min fops nodes c2 r a b c d).
  Proof. unfold mreg_min. mono_tac. Qed.
  Lemma mreg_max_mono r a b c d : mono (mreg_max fops nodes c1 r a b c d) (mreg_max fops nodes c2 r a b c d).
  Proof. unfold mreg_max. mono_tac. Qed.
  Lemma fltreg_value_mono r a : mono (fltreg_value fops nodes c1 r a) (fltreg_value fops nodes c2 r a).
  Proof. unfold fltreg_value. mono_tac. Qed.
  Lemma fltreg_set_mono r a v : mono (fltreg_set fops nodes c1 r a v) (fltreg_set fops nodes c2 r a v).
  Proof. unfold fltreg_set. mono_tac. Qed.
  Lemma strreg_value_mono r : mono (strreg_value fops nodes c1 r) (strreg_value fops nodes c2 r).
  Proof. unfold strreg_value. mono_tac. Qed.
  Lemma strreg_set_mono r v : mono (strreg_set fops nodes c1 r v) (strreg_set fops nodes c2 r v).
  Proof. unfold strreg_set. mono_tac. Qed.
  Hint Resolve intreg_value_mono intreg_set_mono mreg_value_mono mreg_set_mono mreg_min_mono mreg_max_mono
       fltreg_value_mono fltreg_set_mono strreg_value_mono strreg_set_mono : monodb.

  Lemma expr_from_nid_mono n : mono (expr_from_nid fops nodes c1 n) (expr_from_nid fops nodes c2 n).
  Proof. unfold expr_from_nid. mono_tac. Qed.
  Hint Resolve expr_from_nid_mono : monodb.
  Lemma var_value_mono k n : mono (var_value fops nodes c1 k n) (var_value fops nodes c2 k n).
  Proof. unfold var_value. mono_tac. Qed.
  Hint Resolve var_value_mono : monodb.
  Lemma collect_vars_mono vars env : mono (collect_vars fops nodes c1 vars env) (collect_vars fops nodes c2 vars env).
  Proof. revert env; induction vars as [|[nm n] r IH]; intros env; cbn [collect_vars]; mono_tac; try apply IH. Qed.
  Hint Resolve collect_vars_mono : monodb.
  Lemma collect_env_mono k env : mono (collect_env fops nodes c1 k env) (collect_env fops nodes c2 k env).
  Proof. unfold collect_env. mono_tac. Qed.
  Hint Resolve collect_env_mono : monodb.
  Lemma knife_value_mono k f : mono (knife_value fops nodes c1 k f) (knife_value fops nodes c2 k f).
  Proof. unfold knife_value. mono_tac. Qed.
  Lemma conv_value_mono k f p : mono (conv_value fops nodes c1 k f p) (conv_value fops nodes c2 k f p).
  Proof. unfold conv_value. mono_tac. Qed.
  Lemma set_eval_result_mono p r : mono (set_eval_result fops nodes c1 p r) (set_eval_result fops nodes c2 p r).
  Proof. unfold set_eval_result. mono_tac. Qed.
  Hint Resolve knife_value_mono conv_value_mono set_eval_result_mono : monodb.
  Lemma conv_set_mono k f p e : mono (conv_set fops nodes c1 k f p e) (conv_set fops nodes c2 k f p e).
  Proof. unfold conv_set. mono_tac. Qed.
  Hint Resolve conv_set_mono : monodb.
  Lemma vars_readable_mono vars acc : mono (vars_readable nodes c1 vars acc) (vars_readable nodes c2 vars acc).
  Proof. revert acc; induction vars as [|[nm n] r IH]; intros acc; cbn [vars_readable]; mono_tac; try apply IH. Qed.
  Hint Resolve vars_readable_mono : monodb.
  Lemma node_readable_mono n : mono (node_readable nodes c1 n) (node_readable nodes c2 n).
  Proof. unfold node_readable. mono_tac. Qed.
  Hint Resolve node_readable_mono : monodb.

  Lemma step_mono q : mono (step fops nodes c1 q) (step fops nodes c2 q).
  Proof. destruct q; unfold step; mono_tac. Qed.
End Mono.

Lemma run_S_mono fops nodes f : ext (run fops nodes f) (run fops nodes (S f)).
Proof.
  induction f as [|f IH]; intros q.
  - intros s H. exfalso. apply H. reflexivity.
  - change (mono (step fops nodes (run fops nodes f) q) (step fops nodes (run fops nodes (S f)) q)).
    apply step_mono. exact IH.
Qed.

(* more fuel never changes a result that was obtained without running out of fuel *)
Lemma run_fuel_mono fops nodes f f' q s :
  (f <= f')%nat -> nf (run fops nodes f q s) -> run fops nodes f' q s = run fops nodes f q s.
Proof.
  intros Hle. induction Hle as [|f' Hle IH]; intros H; [reflexivity|].
  rewrite <- (IH H). apply run_S_mono. rewrite (IH H). exact H.
Qed.

(* ---- part 2: with fuel above the rank of the node, the interpreter never runs out of fuel ------- *)
Definition nfm {A} (m : M A) : Prop := forall s, nf (m s).

Lemma mbind_nf {A B} (m : M A) (k : A -> M B) : nfm m -> (forall a, nfm (k a)) -> nfm (mbind m k).
Proof.
  intros Hm Hk s. unfold mbind. pose proof (Hm s) as H.
  destruct (m s) as [[a|e|] s']; [apply Hk| |unfold nf; cbn; discriminate].
  unfold nf in *; cbn [fst] in *. congruence.
Qed.
Lemma mret_nf {A} (a : A) : nfm (mret a).
Proof. intros s. unfold nf, mret; cbn. discriminate. Qed.
Lemma mpanic_nf {A} : nfm (@mpanic A).
Proof. intros s. unfold nf, mpanic; cbn. discriminate. Qed.
Lemma merr_nf {A} e : e <> E_FUEL -> nfm (@merr A e).
Proof. intros H s. unfold nf, merr; cbn. congruence. Qed.
Lemma mlift_nf {A} (x : outcome A) : x <> Err E_FUEL -> nfm (mlift x).
Proof. intros H s. exact H. Qed.

Lemma mfold_nf {A} (f : A -> M unit) l : (forall a, In a l -> nfm (f a)) -> nfm (mfold f l).
Proof.
  induction l as [|x r IH]; intros H; cbn [mfold]; [apply mret_nf|].
  apply mbind_nf; [apply H; left; reflexivity|intros _; apply IH; intros a Ha; apply H; right; exact Ha].
Qed.

Ltac nf_prim := intros s; unfold nf; cbv beta delta [vid_int vid_flt vid_str vid_set m_dev_read m_dev_write
  as_z as_oz as_b as_l as_e as_u mret merr mpanic]; cbn [fst];
  repeat match goal with
         | |- context [match ?x with _ => _ end] => destruct x
         end; cbn [fst]; try discriminate.

Lemma as_z_nf a : nfm (as_z a). Proof. nf_prim. Qed.
Lemma as_oz_nf a : nfm (as_oz a). Proof. nf_prim. Qed.
Lemma as_b_nf a : nfm (as_b a). Proof. nf_prim. Qed.
Lemma as_e_nf a : nfm (as_e a). Proof. nf_prim. Qed.
Lemma as_u_nf a : nfm (as_u a). Proof. nf_prim. Qed.
Lemma vid_int_nf fops v : nfm (vid_int fops v). Proof. nf_prim. Qed.
Lemma vid_flt_nf fops v : nfm (vid_flt fops v). Proof. nf_prim. Qed.
Lemma vid_str_nf v : nfm (vid_str v). Proof. nf_prim. Qed.
Lemma vid_set_nf v x : nfm (vid_set v x). Proof. nf_prim. Qed.

Lemma dev_read_nf d a n : fst (dev_read d a n) <> Err E_FUEL.
Proof.
  unfold dev_read, dev_check.
  repeat match goal with |- context [if ?x then _ else _] => destruct x end; cbn [fst]; discriminate.
Qed.
Lemma dev_write_nf d a bs : fst (dev_write d a bs) <> Err E_FUEL.
Proof.
  unfold dev_write, dev_check.
  repeat match goal with |- context [if ?x then _ else _] => destruct x end; cbn [fst]; discriminate.
Qed.
Lemma m_dev_read_nf a n : nfm (m_dev_read a n).
Proof. intros s. unfold nf, m_dev_read. pose proof (dev_read_nf (s_dev s) a n). destruct (dev_read (s_dev s) a n). exact H. Qed.
Lemma m_dev_write_nf a bs : nfm (m_dev_write a bs).
Proof. intros s. unfold nf, m_dev_write. pose proof (dev_write_nf (s_dev s) a bs). destruct (dev_write (s_dev s) a bs). exact H. Qed.

Ltac pure_nf := repeat match goal with
                       | |- context [if ?x then _ else _] => destruct x
                       end; try discriminate.
Lemma int_from_slice_nf bs e s : int_from_slice bs e s <> Err E_FUEL.
Proof. unfold int_from_slice. pure_nf. Qed.
Lemma bytes_from_int_nf v l e s : bytes_from_int v l e s <> Err E_FUEL.
Proof. unfold bytes_from_int. pure_nf. Qed.
Lemma float_from_slice_nf bs e : float_from_slice bs e <> Err E_FUEL.
Proof. unfold float_from_slice. pure_nf. Qed.
Lemma bytes_from_float_nf v l e : bytes_from_float v l e <> Err E_FUEL.
Proof. unfold bytes_from_float. pure_nf. Qed.
Lemma chk_s_nf w z : chk_s w z <> Err E_FUEL.
Proof. unfold chk_s. pure_nf. Qed.
Lemma chk_u_nf w z : chk_u w z <> Err E_FUEL.
Proof. unfold chk_u. pure_nf. Qed.
Lemma var_kind_nf nm : var_kind nm <> Err E_FUEL.
Proof.
  unfold var_kind. destruct (split_dot 3 [] nm) as [|a [|b [|c [|d l]]]]; try discriminate; pure_nf.
Qed.
Lemma field_norm_cases len e l m : field_norm len e l m = Panic \/ exists x, field_norm len e l m = Ok x.
Proof.
  unfold field_norm, norm_bit, chk_u, bind.
  repeat match goal with |- context [if ?x then _ else _] => destruct x end; eauto.
Qed.
Lemma field_apply_nf len e l m sign reg :
  (let? (lo, hi) := field_norm len e l m in Ok (bm_apply lo hi sign reg)) <> Err E_FUEL.
Proof. destruct (field_norm_cases len e l m) as [->|[[a b] ->]]; cbn [bind]; discriminate. Qed.
Lemma field_masked_nf len e l m sign old v :
  (let? (lo, hi) := field_norm len e l m in bm_masked lo hi sign old v) <> Err E_FUEL.
Proof.
  destruct (field_norm_cases len e l m) as [->|[[a b] ->]]; cbn [bind]; [discriminate|].
  unfold bm_masked. pure_nf.
Qed.
Lemma field_min_nf len e l m sign :
  (let? (lo, hi) := field_norm len e l m in Ok (bm_min lo hi sign)) <> Err E_FUEL.
Proof. destruct (field_norm_cases len e l m) as [->|[[a b] ->]]; cbn [bind]; discriminate. Qed.
Lemma field_max_nf len e l m sign :
  (let? (lo, hi) := field_norm len e l m in Ok (bm_max lo hi sign)) <> Err E_FUEL.
Proof. destruct (field_norm_cases len e l m) as [->|[[a b] ->]]; cbn [bind]; discriminate. Qed.

Create HintDb nfdb.
#[global] Hint Resolve as_z_nf as_oz_nf as_b_nf as_e_nf as_u_nf vid_int_nf vid_flt_nf vid_str_nf vid_set_nf
  m_dev_read_nf m_dev_write_nf mret_nf mpanic_nf : nfdb.

Ltac split_forall :=
  repeat match goal with
         | H : Forall _ (_ ++ _) |- _ => apply Forall_app in H; destruct H
         | H : Forall _ (_ :: _) |- _ => apply Forall_cons_iff in H; destruct H
         | H : Forall _ [] |- _ => clear H
         end.
Ltac prep :=
  repeat (progress (cbn [refs_src refs_isrc refs_vk refs_addr refs_regb refs_knife refs_body flat_map map snd] in *; split_forall)).

Section NF.
  Variable fops : float_ops.
  Variable nodes : list node.
  Variable rk : nat -> nat.
  Variable call : req -> M ans.
  Variable k : nat.
  Hypothesis Hok : forall q s, (rk (req_node q) < k)%nat -> nf (call q s).
  Notation P := (fun m => (rk m < k)%nat).

  Lemma call_nf q : P (req_node q) -> nfm (call q).
  Proof. intros H s. apply Hok. exact H. Qed.

  Ltac nf_step :=
    match goal with
    | |- nfm (mbind _ _) => apply mbind_nf; [|intros ?]
    | |- nfm (mret _) => apply mret_nf
    | |- nfm mpanic => apply mpanic_nf
    | |- nfm (merr _) => apply merr_nf; discriminate
    | |- nfm (call _) => apply call_nf; cbn [req_node]; assumption
    | |- nfm (mlift (int_from_slice _ _ _)) => apply mlift_nf, int_from_slice_nf
    | |- nfm (mlift (bytes_from_int _ _ _ _)) => apply mlift_nf, bytes_from_int_nf
    | |- nfm (mlift (float_from_slice _ _)) => apply mlift_nf, float_from_slice_nf
    | |- nfm (mlift (bytes_from_float _ _ _)) => apply mlift_nf, bytes_from_float_nf
    | |- nfm (mlift (chk_s _ _)) => apply mlift_nf, chk_s_nf
    | |- nfm (mlift (var_kind _)) => apply mlift_nf, var_kind_nf
    | |- nfm (match ?x with _ => _ end) => destruct x; prep
    | |- nfm (if ?x then _ else _) => destruct x
    | |- nfm _ => solve [auto with nfdb]
    end.
  Ltac nf_tac := prep; repeat nf_step.

  Lemma nid_get_i_nf n : P n -> nfm (nid_get_i fops nodes call n).
  Proof. intros H. unfold nid_get_i. nf_tac. Qed.
  Lemma nid_set_i_nf n v : P n -> nfm (nid_set_i fops nodes call n v).
  Proof. intros H. unfold nid_set_i. nf_tac. Qed.
  Lemma nid_get_f_nf n : P n -> nfm (nid_get_f fops nodes call n).
  Proof. intros H. unfold nid_get_f. nf_tac. Qed.
  Lemma nid_set_f_nf n v : P n -> nfm (nid_set_f fops nodes call n v).
  Proof. intros H. unfold nid_set_f. nf_tac. Qed.
  Lemma nid_readable_nf n : P n -> nfm (nid_readable nodes call n).
  Proof. intros H. unfold nid_readable. nf_tac. Qed.
  Lemma nid_readable_strict_nf n : P n -> nfm (nid_readable_strict nodes call n).
  Proof. intros H. unfold nid_readable_strict. nf_tac. Qed.
  Hint Resolve nid_get_i_nf nid_set_i_nf nid_get_f_nf nid_set_f_nf nid_readable_nf nid_readable_strict_nf : nfdb.

  Lemma src_get_i_nf x : Forall P (refs_src x) -> nfm (src_get_i fops nodes call x).
  Proof. intros H. unfold src_get_i. nf_tac. Qed.
  Lemma src_set_i_nf x v : Forall P (refs_src x) -> nfm (src_set_i fops nodes call x v).
  Proof. intros H. unfold src_set_i. nf_tac. Qed.
  Lemma src_get_f_nf x : Forall P (refs_src x) -> nfm (src_get_f fops nodes call x).
  Proof. intros H. unfold src_get_f. nf_tac. Qed.
  Lemma src_set_f_nf x v : Forall P (refs_src x) -> nfm (src_set_f fops nodes call x v).
  Proof. intros H. unfold src_set_f. nf_tac. Qed.
  Lemma src_readable_nf x : Forall P (refs_src x) -> nfm (src_readable nodes call x).
  Proof. intros H. unfold src_readable. nf_tac. Qed.
  Lemma isrc_get_i_nf x : Forall P (refs_isrc x) -> nfm (isrc_get_i fops nodes call x).
  Proof. intros H. unfold isrc_get_i. nf_tac. Qed.
  Lemma isrc_get_f_nf x : Forall P (refs_isrc x) -> nfm (isrc_get_f fops nodes call x).
  Proof. intros H. unfold isrc_get_f. nf_tac. Qed.
  Lemma pindex_index_nf i : P i -> nfm (pindex_index nodes call i).
  Proof. intros H. unfold pindex_index. nf_tac. Qed.
  Hint Resolve src_get_i_nf src_set_i_nf src_get_f_nf src_set_f_nf src_readable_nf isrc_get_i_nf
       isrc_get_f_nf pindex_index_nf : nfdb.

  Lemma pick_refs i ents d :
    Forall P (flat_map (fun e => refs_src (snd e)) ents) -> Forall P (refs_src d) ->
    Forall P (refs_src (pindex_pick i ents d)).
  Proof.
    intros He Hd. unfold pindex_pick. induction ents as [|e r IH]; cbn [find]; [exact Hd|].
    cbn [flat_map] in He. apply Forall_app in He. destruct He as [H1 H2].
    destruct (fst e =? i); [exact H1|apply IH; exact H2].
  Qed.
  Hint Resolve pick_refs : nfdb.

  Lemma copies_i_nf cs x : Forall P cs -> nfm (mfold (fun c => nid_set_i fops nodes call c x) cs).
  Proof. intros H. apply mfold_nf. intros a Ha. apply nid_set_i_nf. rewrite Forall_forall in H. auto. Qed.
  Lemma copies_f_nf cs x : Forall P cs -> nfm (mfold (fun c => nid_set_f fops nodes call c x) cs).
  Proof. intros H. apply mfold_nf. intros a Ha. apply nid_set_f_nf. rewrite Forall_forall in H. auto. Qed.
  Hint Resolve copies_i_nf copies_f_nf : nfdb.

  Lemma vk_get_i_nf v : Forall P (refs_vk v) -> nfm (vk_get_i fops nodes call v).
  Proof. intros H. unfold vk_get_i. nf_tac. Qed.
  Lemma vk_set_i_nf v x : Forall P (refs_vk v) -> nfm (vk_set_i fops nodes call v x).
  Proof. intros H. unfold vk_set_i. nf_tac. Qed.
  Lemma vk_get_f_nf v : Forall P (refs_vk v) -> nfm (vk_get_f fops nodes call v).
  Proof. intros H. unfold vk_get_f. nf_tac. Qed.
  Lemma vk_set_f_nf v x : Forall P (refs_vk v) -> nfm (vk_set_f fops nodes call v x).
  Proof. intros H. unfold vk_set_f. nf_tac. Qed.
  Lemma vk_readable_nf v : Forall P (refs_vk v) -> nfm (vk_readable nodes call v).
  Proof. intros H. unfold vk_readable. nf_tac. Qed.
  Hint Resolve vk_get_i_nf vk_set_i_nf vk_get_f_nf vk_set_f_nf vk_readable_nf : nfdb.

  Lemma addr_value_nf a : Forall P (refs_addr a) -> nfm (addr_value fops nodes call a).
  Proof. intros H. unfold addr_value. nf_tac. Qed.
  Hint Resolve addr_value_nf : nfdb.
  Lemma addr_sum_nf l acc : Forall P (flat_map refs_addr l) -> nfm (addr_sum fops nodes call acc l).
  Proof.
    revert acc; induction l as [|a r IH]; intros acc H; cbn [addr_sum]; [apply mret_nf|].
    cbn [flat_map] in H. apply Forall_app in H. destruct H as [H1 H2].
    apply mbind_nf; [apply addr_value_nf; exact H1|intros v].
    apply mbind_nf; [apply mlift_nf, chk_s_nf|intros acc']. apply IH. exact H2.
  Qed.
  Lemma reg_length_nf r : Forall P (refs_regb r) -> nfm (reg_length fops nodes call r).
  Proof. intros H. unfold reg_length. unfold refs_regb in H. nf_tac. Qed.
  Lemma reg_address_nf r : Forall P (refs_regb r) -> nfm (reg_address fops nodes call r).
  Proof. intros H. unfold reg_address. unfold refs_regb in H. apply Forall_app in H. apply addr_sum_nf, H. Qed.
  Hint Resolve reg_length_nf reg_address_nf : nfdb.

  Lemma port_read_nf p a n : nfm (port_read nodes p a n).
  Proof. unfold port_read. nf_tac. Qed.
  Lemma port_write_nf p a bs : nfm (port_write nodes p a bs).
  Proof. unfold port_write. nf_tac. Qed.
  Hint Resolve port_read_nf port_write_nf : nfdb.
  Lemma read_and_cache_nf r a l b : nfm (read_and_cache nodes r a l b).
  Proof. unfold read_and_cache. nf_tac. Qed.
  Lemma alloc_check_nf l : nfm (alloc_check l).
  Proof. unfold alloc_check. nf_tac. Qed.
  Hint Resolve read_and_cache_nf alloc_check_nf : nfdb.

  Lemma reg_fetch_nf r : Forall P (refs_regb r) -> nfm (reg_fetch fops nodes call r).
  Proof. intros H. unfold reg_fetch. repeat nf_step. Qed.
  Lemma reg_store_nf r bs : Forall P (refs_regb r) -> nfm (reg_store fops nodes call r bs).
  Proof. intros H. unfold reg_store. repeat nf_step. Qed.
  Lemma ireg_read_nf r n : Forall P (refs_regb r) -> nfm (ireg_read fops nodes call r n).
  Proof. intros H. unfold ireg_read. repeat nf_step. Qed.
  Hint Resolve reg_fetch_nf reg_store_nf ireg_read_nf : nfdb.

  Lemma intreg_value_nf r a b : Forall P (refs_regb r) -> nfm (intreg_value fops nodes call r a b).
  Proof. intros H. unfold intreg_value. repeat nf_step. Qed.
  Lemma intreg_set_nf r a b v : Forall P (refs_regb r) -> nfm (intreg_set fops nodes call r a b v).
  Proof. intros H. unfold intreg_set. repeat nf_step. Qed.
  Lemma mreg_value_nf r a b c d : Forall P (refs_regb r) -> nfm (mreg_value fops nodes call r a b c d).
  Proof. intros H. unfold mreg_value. repeat nf_step. apply mlift_nf, field_apply_nf. Qed.
  Lemma mreg_set_nf r a b c d v : Forall P (refs_regb r) -> nfm (mreg_set fops nodes call r a b c d v).
  Proof.
    intros H. unfold mreg_set.
    do 3 (apply mbind_nf; [repeat nf_step|intros ?]).
    apply mbind_nf; [apply mlift_nf, field_masked_nf|intros ?]. repeat nf_step.
  Qed.
  Lemma mreg_min_nf r a b c d : Forall P (refs_regb r) -> nfm (mreg_min fops nodes call r a b c d).
  Proof. intros H. unfold mreg_min. apply mbind_nf; [repeat nf_step|intros ?]. apply mlift_nf, field_min_nf. Qed.
  Lemma mreg_max_nf r a b c d : Forall P (refs_regb r) -> nfm (mreg_max fops nodes call r a b c d).
  Proof. intros H. unfold mreg_max. apply mbind_nf; [repeat nf_step|intros ?]. apply mlift_nf, field_max_nf. Qed.
  Lemma fltreg_value_nf r a : Forall P (refs_regb r) -> nfm (fltreg_value fops nodes call r a).
  Proof. intros H. unfold fltreg_value. repeat nf_step. Qed.
  Lemma fltreg_set_nf r a v : Forall P (refs_regb r) -> nfm (fltreg_set fops nodes call r a v).
  Proof. intros H. unfold fltreg_set. repeat nf_step. Qed.
  Lemma strreg_value_nf r : Forall P (refs_regb r) -> nfm (strreg_value fops nodes call r).
  Proof. intros H. unfold strreg_value. repeat nf_step. Qed.
  Lemma strreg_set_nf r v : Forall P (refs_regb r) -> nfm (strreg_set fops nodes call r v).
  Proof. intros H. unfold strreg_set. repeat nf_step. Qed.
  Hint Resolve intreg_value_nf intreg_set_nf mreg_value_nf mreg_set_nf mreg_min_nf mreg_max_nf
       fltreg_value_nf fltreg_set_nf strreg_value_nf strreg_set_nf : nfdb.

  Lemma expr_from_nid_nf n : P n -> nfm (expr_from_nid fops nodes call n).
  Proof. intros H. unfold expr_from_nid. repeat nf_step. Qed.
  Hint Resolve expr_from_nid_nf : nfdb.
  Lemma var_value_nf vk n : P n -> nfm (var_value fops nodes call vk n).
  Proof. intros H. unfold var_value. repeat nf_step. Qed.
  Hint Resolve var_value_nf : nfdb.
  Lemma collect_vars_nf vars env : Forall P (map snd vars) -> nfm (collect_vars fops nodes call vars env).
  Proof.
    revert env; induction vars as [|[nm n] r IH]; intros env H; cbn [collect_vars]; [apply mret_nf|].
    cbn [map snd] in H. apply Forall_cons_iff in H. destruct H as [H1 H2].
    repeat nf_step; try (apply IH; exact H2).
  Qed.
  Hint Resolve collect_vars_nf : nfdb.
  Lemma collect_env_nf kn env : Forall P (refs_knife kn) -> nfm (collect_env fops nodes call kn env).
  Proof. intros H. unfold collect_env. unfold refs_knife in H. repeat nf_step. Qed.
  Lemma eval_formula_nf kn env f : nfm (eval_formula fops kn env f).
  Proof.
    unfold eval_formula. destruct (eval fops true (S (length (k_exprs kn))) env f) as [r|e|].
    - apply mret_nf.
    - apply merr_nf. destruct (e =? Formula.E_FUEL) eqn:E; [discriminate|].
      apply Z.eqb_neq in E. exact E.
    - apply mpanic_nf.
  Qed.
  Hint Resolve collect_env_nf eval_formula_nf : nfdb.
  Lemma knife_value_nf kn f : Forall P (refs_knife kn) -> nfm (knife_value fops nodes call kn f).
  Proof. intros H. unfold knife_value. repeat nf_step. Qed.
  Lemma conv_value_nf kn f p : P p -> Forall P (refs_knife kn) -> nfm (conv_value fops nodes call kn f p).
  Proof. intros H H'. unfold conv_value. repeat nf_step. Qed.
  Lemma set_eval_result_nf p r : P p -> nfm (set_eval_result fops nodes call p r).
  Proof. intros H. unfold set_eval_result. repeat nf_step. Qed.
  Hint Resolve knife_value_nf conv_value_nf set_eval_result_nf : nfdb.
  Lemma conv_set_nf kn f p e : P p -> Forall P (refs_knife kn) -> nfm (conv_set fops nodes call kn f p e).
  Proof. intros H H'. unfold conv_set. repeat nf_step. Qed.
  Hint Resolve conv_set_nf : nfdb.
  Lemma vars_readable_nf vars acc : Forall P (map snd vars) -> nfm (vars_readable nodes call vars acc).
  Proof.
    revert acc; induction vars as [|[nm n] r IH]; intros acc H; cbn [vars_readable]; [apply mret_nf|].
    cbn [map snd] in H. apply Forall_cons_iff in H. destruct H as [H1 H2].
    repeat nf_step; try (apply IH; exact H2).
  Qed.
  Hint Resolve vars_readable_nf : nfdb.
  Lemma reg_readable_nf n r : nfm (reg_readable nodes n r).
  Proof. unfold reg_readable. apply mret_nf. Qed.
  Hint Resolve reg_readable_nf : nfdb.

  Lemma node_readable_nf n : Forall P (refs_body (body_of nodes n)) -> nfm (node_readable nodes call n).
  Proof.
    intros H. unfold node_readable. destruct (body_of nodes n); prep; unfold refs_knife in *; repeat nf_step.
  Qed.
  Hint Resolve node_readable_nf : nfdb.

  Lemma step_nf q : Forall P (refs_body (body_of nodes (req_node q))) -> nfm (step fops nodes call q).
  Proof.
    intros H. destruct q; cbn [req_node] in H; unfold step.
    25: { apply mbind_nf; [apply node_readable_nf; exact H|intros ?; apply mret_nf]. }
    all: destruct (body_of nodes n); prep; unfold regb_of; repeat nf_step.
  Qed.
End NF.

(* fuel above the rank of the requested node suffices *)
Lemma run_rank_nf fops nodes rk :
  ranked nodes rk -> forall f q s, (rk (req_node q) < f)%nat -> nf (run fops nodes f q s).
Proof.
  intros Hr. induction f as [|f IH]; intros q s Hlt; [lia|].
  change (nf (step fops nodes (run fops nodes f) q s)).
  apply (step_nf fops nodes rk (run fops nodes f) (rk (req_node q))).
  - intros q' s' H'. apply IH. lia.
  - unfold body_of. destruct (nth_error nodes (req_node q)) as [nd|] eqn:E; [|constructor].
    exact (Hr _ _ E).
Qed.

(* C03_fuel_adequate *)
Lemma fuel_adequate fops nodes rk :
  ranked nodes rk ->
  forall f f' q s, (rk (req_node q) < f)%nat -> (f <= f')%nat ->
    fst (run fops nodes f q s) <> Err E_FUEL /\ run fops nodes f' q s = run fops nodes f q s.
Proof.
  intros Hr f f' q s H1 H2. pose proof (run_rank_nf fops nodes rk Hr f q s H1) as Hn.
  split; [exact Hn|]. apply run_fuel_mono; assumption.
Qed.
