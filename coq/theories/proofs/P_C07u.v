(* Proofs for the USB enumeration part of C07 (props/C07.v, names C07_usb_...): descriptor parsing and the
   enumeration decision of device/src/u3v/device_builder.rs, model/UsbEnum.v against spec/UsbDescLayout.v. *)
From Coq Require Import Sorted.
From Cam Require Import Outcome Bytes UsbEnum UsbDescLayout.

(* ---- generic helpers -------------------------------------------------------------------------------- *)
Lemma nth_skipn_add {A} (d : A) : forall n k (l : list A), nth k (skipn n l) d = nth (n + k) l d.
Proof.
  induction n as [|n IH]; intros k l; [reflexivity|].
  destruct l as [|x l]; cbn [skipn Nat.add nth]; [destruct k; reflexivity|]. apply IH.
Qed.

Lemma idx_lt bs k : (k < length bs)%nat -> idx bs k = Ok (nth k bs 0).
Proof.
  intros H. unfold idx. destruct (nth_error bs k) eqn:E.
  - now rewrite (nth_error_nth _ _ _ E).
  - apply nth_error_None in E. lia.
Qed.

Lemma idx_ge bs k : (length bs <= k)%nat -> idx bs k = Panic.
Proof. intros H. unfold idx. apply nth_error_None in H. now rewrite H. Qed.

Lemma iad_fields_ok l bs : (8 <= length bs)%nat ->
  iad_fields l bs = Ok (Some (mkIad l (nth 1 bs 0) (nth 2 bs 0) (nth 3 bs 0) (nth 4 bs 0) (nth 5 bs 0)
                                     (nth 6 bs 0) (nth 7 bs 0))).
Proof.
  intros H. unfold iad_fields.
  rewrite !idx_lt by lia. reflexivity.
Qed.

(* ---- Iad::from_bytes: total ------------------------------------------------------------------------- *)
Lemma iad_scan_ok fuel : forall bs, exists o, iad_scan fuel bs = Ok o.
Proof.
  induction fuel as [|f IH]; intros bs; cbn [iad_scan]; [now eexists|].
  destruct bs as [|l r]; [now eexists|].
  destruct (l =? 0); [now eexists|].
  destruct (l =? 1); [apply IH|].
  destruct (length (l :: r) <? 2)%nat eqn:E2; [now eexists|].
  apply Nat.ltb_ge in E2.
  rewrite idx_lt by lia. cbn [bind].
  destruct (negb (nth 1 (l :: r) 0 =? IAD_DESC_TYPE)); [apply IH|].
  destruct (length (l :: r) <? 8)%nat eqn:E8; [now eexists|].
  apply Nat.ltb_ge in E8. rewrite iad_fields_ok by lia. now eexists.
Qed.

Lemma iad_from_bytes_ok bs : exists o, iad_from_bytes bs = Ok o.
Proof. apply iad_scan_ok. Qed.

Lemma iad_from_bytes_total bs : iad_from_bytes bs <> Panic.
Proof. destruct (iad_from_bytes_ok bs) as [o ->]. discriminate. Qed.

Lemma iad_from_bytes_no_err bs e : iad_from_bytes bs <> Err e.
Proof. destruct (iad_from_bytes_ok bs) as [o ->]. discriminate. Qed.

(* the pinned code panics: the bytes end inside a descriptor header / inside an IAD *)
Lemma iad_v0_refuted :
  iad_from_bytes_v0 [5] = Panic /\ iad_from_bytes_v0 [5; 11] = Panic /\
  iad_from_bytes_v0 [3; 48; 0; 8; 11; 0; 2; 239; 5; 0] = Panic /\
  iad_from_bytes [5] = Ok None /\ iad_from_bytes [5; 11] = Ok None /\
  iad_from_bytes [3; 48; 0; 8; 11; 0; 2; 239; 5; 0] = Ok None.
Proof. repeat split; vm_compute; reflexivity. Qed.

(* ---- what is found is an IAD-typed descriptor of the chain, decoded at the standard's offsets ---------- *)
Lemma spec_iad_at_skipn bs n p : spec_iad_at (skipn n bs) p = spec_iad_at bs (n + p).
Proof.
  unfold spec_iad_at, byte_at. rewrite !nth_skipn_add.
  repeat (f_equal; try lia).
Qed.

Lemma iad_scan_found fuel : forall bs i, iad_scan fuel bs = Ok (Some i) ->
  exists p, (p + 8 <= length bs)%nat /\ i = spec_iad_at bs p /\ i_type i = 0x0B.
Proof.
  induction fuel as [|f IH]; intros bs i; cbn [iad_scan]; [discriminate|].
  assert (REC : forall n, iad_scan f (skipn n bs) = Ok (Some i) ->
                exists p, (p + 8 <= length bs)%nat /\ i = spec_iad_at bs p /\ i_type i = 0x0B).
  { intros n H. destruct (IH _ _ H) as [p [Hp [Hi Ht]]].
    rewrite skipn_length in Hp. exists (n + p)%nat. split; [lia|]. split; [|exact Ht].
    now rewrite <- spec_iad_at_skipn. }
  destruct bs as [|l r]; [discriminate|].
  destruct (l =? 0); [discriminate|].
  destruct (l =? 1); [apply REC|].
  destruct (length (l :: r) <? 2)%nat eqn:E2; [discriminate|].
  apply Nat.ltb_ge in E2.
  rewrite idx_lt by lia. cbn [bind].
  destruct (nth 1 (l :: r) 0 =? IAD_DESC_TYPE) eqn:ET; cbn [negb]; [|apply REC].
  destruct (length (l :: r) <? 8)%nat eqn:E8; [discriminate|].
  apply Nat.ltb_ge in E8. rewrite iad_fields_ok by lia.
  intros H. apply Ok_inj in H. injection H as <-.
  exists 0%nat. split; [lia|]. split; [reflexivity|].
  cbn [i_type]. apply Z.eqb_eq in ET. exact ET.
Qed.

Lemma iad_found_at_offsets bs i : iad_from_bytes bs = Ok (Some i) ->
  exists p, (p + 8 <= length bs)%nat /\ i = spec_iad_at bs p /\ i_type i = 0x0B.
Proof. apply iad_scan_found. Qed.

(* ---- round trip over well-formed descriptor chains --------------------------------------------------- *)
Lemma skipn_enc_desc x tail :
  skipn (Z.to_nat (2 + zlen (snd x))) (enc_desc x ++ tail) = tail.
Proof.
  unfold enc_desc, zlen.
  assert (E : Z.to_nat (2 + Z.of_nat (length (snd x))) = S (S (length (snd x)))) by lia.
  rewrite E. cbn [app skipn]. rewrite skipn_app, skipn_all, Nat.sub_diag. reflexivity.
Qed.

Lemma iad_scan_head fuel d rest :
  iad_scan (S fuel) (encode_iad d ++ rest) = Ok (Some (iad_of_siad d)).
Proof. reflexivity. Qed.

Lemma iad_scan_skip fuel x tail : not_iad_desc x ->
  iad_scan (S fuel) (enc_desc x ++ tail) = iad_scan fuel tail.
Proof.
  intros Hx. pose proof (skipn_enc_desc x tail) as Hs.
  unfold enc_desc in *. cbn [app] in *. cbn [iad_scan].
  pose proof (zlen_nonneg (snd x)) as Hn.
  replace (2 + zlen (snd x) =? 0) with false by (symmetry; apply Z.eqb_neq; lia).
  replace (2 + zlen (snd x) =? 1) with false by (symmetry; apply Z.eqb_neq; lia).
  cbn [length Nat.ltb Nat.leb idx nth_error bind].
  replace (fst x =? IAD_DESC_TYPE) with false by (symmetry; apply Z.eqb_neq; exact Hx).
  cbn [negb]. now rewrite Hs.
Qed.

Lemma iad_scan_chain : forall pre fuel d rest, Forall not_iad_desc pre -> (length pre < fuel)%nat ->
  iad_scan fuel (enc_chain pre ++ encode_iad d ++ rest) = Ok (Some (iad_of_siad d)).
Proof.
  induction pre as [|x pre IH]; intros fuel d rest HF Hf.
  - destruct fuel; [cbn in Hf; lia|]. apply iad_scan_head.
  - destruct fuel; [cbn in Hf; lia|]. inversion HF as [|? ? Hx HF']; subst.
    cbn [enc_chain flat_map]. rewrite <- app_assoc.
    rewrite iad_scan_skip by exact Hx. apply IH; [exact HF'|cbn [length] in Hf; lia].
Qed.

Lemma enc_chain_length pre : (length pre <= length (enc_chain pre))%nat.
Proof.
  induction pre as [|x pre IH]; [cbn; lia|].
  cbn [enc_chain flat_map]. rewrite app_length. unfold enc_desc at 1. cbn [length]. fold (enc_chain pre). lia.
Qed.

Lemma iad_roundtrip pre d rest : Forall not_iad_desc pre ->
  iad_from_bytes (enc_chain pre ++ encode_iad d ++ rest) = Ok (Some (iad_of_siad d)).
Proof.
  intros HF. apply iad_scan_chain; [exact HF|].
  rewrite app_length. pose proof (enc_chain_length pre).
  rewrite app_length. cbn [encode_iad length]. lia.
Qed.

Lemma iad_scan_chain_none : forall pre fuel, Forall not_iad_desc pre ->
  iad_scan fuel (enc_chain pre) = Ok None.
Proof.
  induction pre as [|x pre IH]; intros fuel HF.
  - destruct fuel; reflexivity.
  - destruct fuel; [reflexivity|]. inversion HF as [|? ? Hx HF']; subst.
    cbn [enc_chain flat_map]. rewrite iad_scan_skip by exact Hx. apply IH. exact HF'.
Qed.

Lemma iad_none_without_iad pre : Forall not_iad_desc pre -> iad_from_bytes (enc_chain pre) = Ok None.
Proof. intros H. apply iad_scan_chain_none. exact H. Qed.

(* a chain that ends inside a descriptor: any cut of the encoding of a chain followed by an IAD gives either
   nothing or that IAD -- never a panic, never other fields *)
Lemma iad_cut_total pre d k : iad_from_bytes (firstn k (enc_chain pre ++ encode_iad d)) <> Panic.
Proof. apply iad_from_bytes_total. Qed.

(* ---- the search order -------------------------------------------------------------------------------- *)
Lemma first_u3v_app fb xs ys :
  first_u3v fb (xs ++ ys) =
  let? o := first_u3v fb xs in match o with Some i => Ok (Some i) | None => first_u3v fb ys end.
Proof.
  induction xs as [|x xs IH]; cbn [app first_u3v bind]; [reflexivity|].
  destruct (u3v_iad_in fb x) as [[i|]| |]; cbn [bind]; try reflexivity. exact IH.
Qed.

Section SearchOrder.
  Variable fb : list Z -> outcome (option iad).
  Hypothesis fb_nil : fb [] = Ok None.

  Lemma u3v_iad_in_nil : u3v_iad_in fb [] = Ok None.
  Proof. unfold u3v_iad_in. rewrite fb_nil. reflexivity. Qed.

  Lemma find_in_ep_spec e : find_in_ep fb e = u3v_iad_in fb (ep_extra e).
  Proof. unfold find_in_ep. destruct (ep_extra e); [now rewrite u3v_iad_in_nil|reflexivity]. Qed.

  Lemma find_in_eps_spec es : find_in_eps fb es = first_u3v fb (map ep_extra es).
  Proof.
    induction es as [|e es IH]; cbn [find_in_eps map first_u3v]; [reflexivity|].
    rewrite find_in_ep_spec. destruct (u3v_iad_in fb (ep_extra e)) as [[i|]| |]; cbn [bind]; auto.
  Qed.

  Lemma find_in_alt_spec a : find_in_alt fb a = first_u3v fb (alt_extras a).
  Proof.
    unfold find_in_alt, alt_extras. cbn [first_u3v].
    destruct (u3v_iad_in fb (a_extra a)) as [[i|]| |]; cbn [bind]; auto. apply find_in_eps_spec.
  Qed.

  Lemma find_in_alts_spec xs : find_in_alts fb xs = first_u3v fb (flat_map alt_extras xs).
  Proof.
    induction xs as [|a xs IH]; cbn [find_in_alts flat_map]; [reflexivity|].
    rewrite first_u3v_app, find_in_alt_spec.
    destruct (first_u3v fb (alt_extras a)) as [[i|]| |]; cbn [bind]; auto.
  Qed.

  Lemma find_in_ifaces_spec xs : find_in_ifaces fb xs = first_u3v fb (flat_map iface_extras xs).
  Proof.
    induction xs as [|i xs IH]; cbn [find_in_ifaces flat_map]; [reflexivity|].
    rewrite first_u3v_app, find_in_alts_spec. fold (iface_extras i).
    destruct (first_u3v fb (iface_extras i)) as [[x|]| |]; cbn [bind]; auto.
  Qed.

  Lemma find_in_config_spec c : find_in_config fb c = first_u3v fb (extras_in_order c).
  Proof.
    unfold find_in_config, extras_in_order. cbn [first_u3v].
    destruct (u3v_iad_in fb (cf_extra c)) as [[i|]| |]; cbn [bind]; auto. apply find_in_ifaces_spec.
  Qed.
End SearchOrder.

Lemma search_order c : find_in_config iad_from_bytes c = first_u3v iad_from_bytes (extras_in_order c).
Proof. apply find_in_config_spec. reflexivity. Qed.

Lemma search_order_v0 c : find_in_config iad_from_bytes_v0 c = first_u3v iad_from_bytes_v0 (extras_in_order c).
Proof. apply find_in_config_spec. reflexivity. Qed.

Lemma iad_from_bytes_pure x : iad_from_bytes x = Ok (spec_iad_of x).
Proof. unfold spec_iad_of. destruct (iad_from_bytes_ok x) as [o ->]. reflexivity. Qed.

Lemma u3v_iad_in_pure x : u3v_iad_in iad_from_bytes x = Ok (spec_u3v_of x).
Proof. unfold u3v_iad_in, spec_u3v_of. rewrite iad_from_bytes_pure. reflexivity. Qed.

Lemma first_u3v_pure xs :
  first_u3v iad_from_bytes xs = Ok (match filter_map spec_u3v_of xs with i :: _ => Some i | [] => None end).
Proof.
  induction xs as [|x xs IH]; cbn [first_u3v filter_map]; [reflexivity|].
  rewrite u3v_iad_in_pure. cbn [bind]. destruct (spec_u3v_of x); [reflexivity|exact IH].
Qed.

Lemma find_in_config_pure c : find_in_config iad_from_bytes c = Ok (spec_find_config c).
Proof. rewrite search_order. apply first_u3v_pure. Qed.

(* the first U3V function of a configuration whose extra bytes are well-formed chains: if the extras before
   position k hold no IAD at all and the k-th one holds the chain pre ++ IAD d ++ rest with d a U3V function,
   d is what the search returns *)
Lemma spec_u3v_of_chain pre d rest : Forall not_iad_desc pre ->
  bFunctionClass d = 0xEF -> bFunctionSubClass d = 0x05 -> bFunctionProtocol d = 0x00 ->
  spec_u3v_of (enc_chain pre ++ encode_iad d ++ rest) = Some (iad_of_siad d).
Proof.
  intros HF H1 H2 H3. unfold spec_u3v_of, spec_iad_of. rewrite iad_roundtrip by exact HF.
  unfold is_u3v_iad, iad_of_siad. cbn [i_cls i_sub i_proto]. rewrite H1, H2, H3. reflexivity.
Qed.

Lemma spec_u3v_of_no_iad pre : Forall not_iad_desc pre -> spec_u3v_of (enc_chain pre) = None.
Proof. intros HF. unfold spec_u3v_of, spec_iad_of. now rewrite iad_none_without_iad. Qed.

Lemma filter_map_app {A B} (f : A -> option B) xs ys : filter_map f (xs ++ ys) = filter_map f xs ++ filter_map f ys.
Proof. induction xs as [|x xs IH]; cbn [app filter_map]; [reflexivity|]. destruct (f x); cbn [app]; now rewrite IH. Qed.

Lemma filter_map_none {A B} (f : A -> option B) xs : Forall (fun x => f x = None) xs -> filter_map f xs = [].
Proof. induction 1 as [|x xs Hx _ IH]; cbn [filter_map]; [reflexivity|]. now rewrite Hx. Qed.

Lemma search_finds_first c before x after pre d rest :
  extras_in_order c = before ++ x :: after ->
  Forall (fun y => exists p, Forall not_iad_desc p /\ y = enc_chain p) before ->
  x = enc_chain pre ++ encode_iad d ++ rest -> Forall not_iad_desc pre ->
  bFunctionClass d = 0xEF -> bFunctionSubClass d = 0x05 -> bFunctionProtocol d = 0x00 ->
  find_in_config iad_from_bytes c = Ok (Some (iad_of_siad d)).
Proof.
  intros HE HB -> HF H1 H2 H3. rewrite find_in_config_pure. unfold spec_find_config.
  rewrite HE, filter_map_app. rewrite filter_map_none.
  - cbn [app filter_map]. now rewrite spec_u3v_of_chain.
  - eapply Forall_impl; [|exact HB]. intros y [p [Hp ->]]. now apply spec_u3v_of_no_iad.
Qed.

(* ---- DeviceInfoDescriptor::from_bytes ---------------------------------------------------------------- *)
Lemma rdu1 b r : rdu 1 (b :: r) = Ok (b, r).
Proof. unfold rdu. cbn [length Nat.ltb Nat.leb firstn skipn of_le]. f_equal. f_equal. lia. Qed.
Lemma rdu2 a b r : rdu 2 (a :: b :: r) = Ok (a + 256 * b, r).
Proof. unfold rdu. cbn [length Nat.ltb Nat.leb firstn skipn of_le]. f_equal. f_equal. lia. Qed.

Lemma list_ge_20 (bs : list Z) : 20 <= zlen bs ->
  exists b0 b1 b2 b3 b4 b5 b6 b7 b8 b9 b10 b11 b12 b13 b14 b15 b16 b17 b18 b19 r,
    bs = b0 :: b1 :: b2 :: b3 :: b4 :: b5 :: b6 :: b7 :: b8 :: b9 :: b10 :: b11 :: b12 :: b13 :: b14 :: b15 ::
         b16 :: b17 :: b18 :: b19 :: r.
Proof.
  unfold zlen. intros H.
  do 20 (destruct bs as [|? bs]; [cbn [length] in H; lia|]).
  repeat eexists.
Qed.

Lemma info_from_bytes_spec bs :
  info_from_bytes bs = if spec_info_valid bs then Ok (spec_info bs) else Err UE_INVALID_DEVICE.
Proof.
  unfold info_from_bytes, spec_info_valid, MINIMUM_DESC_LENGTH.
  destruct (zlen bs <? 20) eqn:EL.
  - replace (20 <=? zlen bs) with false by (symmetry; apply Z.leb_gt; apply Z.ltb_lt in EL; lia). reflexivity.
  - apply Z.ltb_ge in EL. replace (20 <=? zlen bs) with true by (symmetry; apply Z.leb_le; lia).
    destruct (list_ge_20 bs EL) as (b0 & b1 & b2 & b3 & b4 & b5 & b6 & b7 & b8 & b9 & b10 & b11 & b12 & b13 &
                                    b14 & b15 & b16 & b17 & b18 & b19 & r & ->).
    rewrite !rdu1. cbn [bind]. rewrite !rdu1. cbn [bind]. rewrite !rdu1. cbn [bind].
    unfold byte_at. cbn [nth andb].
    replace (b0 <? 20) with (negb (20 <=? b0)) by (rewrite Z.leb_antisym, negb_involutive; reflexivity).
    destruct (20 <=? b0); cbn [negb orb andb]; [|reflexivity].
    destruct (b1 =? 36); cbn [negb orb andb]; [|reflexivity].
    destruct (b2 =? 1); cbn [negb orb andb]; [|reflexivity].
    rewrite !rdu2. cbn [bind]. rewrite !rdu2. cbn [bind]. rewrite !rdu2. cbn [bind]. rewrite !rdu2. cbn [bind].
    repeat (rewrite rdu1; cbn [bind]).
    reflexivity.
Qed.

Lemma info_from_bytes_total bs : info_from_bytes bs <> Panic.
Proof. rewrite info_from_bytes_spec. destruct (spec_info_valid bs); discriminate. Qed.

Lemma info_roundtrip d tail : sinfo_ok d ->
  info_from_bytes (encode_info d ++ tail) = Ok (idesc_of_sinfo d).
Proof.
  intros [[Hg0 Hg1] [Hu0 Hu1]]. rewrite info_from_bytes_spec.
  unfold encode_info. cbn [le_bytes app]. unfold spec_info_valid, spec_info, le16_at, byte_at, zlen.
  cbn [nth length Nat.add].
  replace (20 <=? Z.of_nat _) with true by (symmetry; apply Z.leb_le; lia).
  cbn [Z.leb Z.compare Pos.compare Pos.compare_cont Z.eqb Pos.eqb andb].
  unfold idesc_of_sinfo. f_equal.
  assert (E : 2 ^ 32 = 4294967296) by reflexivity. rewrite E in *.
  f_equal; dlia.
Qed.

(* ---- speed ------------------------------------------------------------------------------------------- *)
Lemma speed_bit_testbit m k : 0 <= k -> speed_bit m k = Z.testbit m k.
Proof.
  intros Hk. unfold speed_bit.
  change 1 with (Z.ones 1) at 1. rewrite Z.land_ones by lia. change (2 ^ 1) with 2.
  rewrite <- (Z.bit0_mod (Z.shiftr m k)). rewrite Z.shiftr_spec by lia. rewrite Z.add_0_l.
  destruct (Z.testbit m k); reflexivity.
Qed.

Lemma land1_testbit m : (Z.land m 1 =? 1) = Z.testbit m 0.
Proof.
  change 1 with (Z.ones 1) at 1. rewrite Z.land_ones by lia. change (2 ^ 1) with 2.
  rewrite <- (Z.bit0_mod m). destruct (Z.testbit m 0); reflexivity.
Qed.

Definition speed_by_bits (b4 b3 b2 b1 b0 : bool) : outcome Z :=
  if b4 then Ok 4 else if b3 then Ok 3 else if b2 then Ok 2 else if b1 then Ok 1 else if b0 then Ok 0
  else Err UE_INVALID_DEVICE.

Lemma speed_of_bits m :
  speed_of m = speed_by_bits (Z.testbit m 4) (Z.testbit m 3) (Z.testbit m 2) (Z.testbit m 1) (Z.testbit m 0).
Proof.
  unfold speed_of, speed_by_bits. rewrite !speed_bit_testbit by lia. rewrite land1_testbit. reflexivity.
Qed.

Fixpoint zrange (n : nat) : list Z := match n with O => [] | S k => zrange k ++ [Z.of_nat k] end.
Lemma zrange_in n : forall v, 0 <= v < Z.of_nat n -> In v (zrange n).
Proof.
  induction n as [|n IH]; intros v Hv; [lia|]. cbn [zrange]. apply in_or_app.
  destruct (Z.eq_dec v (Z.of_nat n)) as [->|Hne]; [right; now left|left; apply IH; lia].
Qed.

Definition out_eqb (x y : outcome Z) : bool :=
  match x, y with Ok a, Ok b => a =? b | Err a, Err b => a =? b | Panic, Panic => true | _, _ => false end.
Lemma out_eqb_eq x y : out_eqb x y = true -> x = y.
Proof. destruct x, y; cbn; try discriminate; try reflexivity; intros H; apply Z.eqb_eq in H; now subst. Qed.

Lemma speed_small : forall v, 0 <= v < 32 ->
  speed_of v = match spec_speed v with Some k => Ok k | None => Err UE_INVALID_DEVICE end.
Proof.
  assert (H : forallb (fun v => out_eqb (speed_of v)
              (match spec_speed v with Some k => Ok k | None => Err UE_INVALID_DEVICE end)) (zrange 32) = true)
    by (vm_compute; reflexivity).
  rewrite forallb_forall in H. intros v Hv. apply out_eqb_eq. apply H. apply zrange_in. cbn. lia.
Qed.

Lemma speed_of_spec m :
  speed_of m = match spec_speed m with Some k => Ok k | None => Err UE_INVALID_DEVICE end.
Proof.
  assert (Hm : 0 <= m mod 32 < 32) by (apply Z.mod_pos_bound; lia).
  assert (E : speed_of m = speed_of (m mod 32)).
  { rewrite !speed_of_bits. change 32 with (2 ^ 5). rewrite !Z.mod_pow2_bits_low by lia. reflexivity. }
  rewrite E, speed_small by exact Hm. unfold spec_speed. rewrite Z.mod_mod by lia. reflexivity.
Qed.

Lemma speed_highest_bit m k : speed_of m = Ok k ->
  0 <= k <= 4 /\ Z.testbit m k = true /\ forall j, k < j <= 4 -> Z.testbit m j = false.
Proof.
  rewrite speed_of_bits. unfold speed_by_bits.
  destruct (Z.testbit m 4) eqn:E4; [intros H; apply Ok_inj in H; subst k; repeat split; try lia; auto; intros j Hj; lia|].
  destruct (Z.testbit m 3) eqn:E3; [intros H; apply Ok_inj in H; subst k; repeat split; try lia; auto;
    intros j Hj; assert (j = 4) by lia; now subst|].
  destruct (Z.testbit m 2) eqn:E2; [intros H; apply Ok_inj in H; subst k; repeat split; try lia; auto;
    intros j Hj; assert (j = 3 \/ j = 4) as [->| ->] by lia; assumption|].
  destruct (Z.testbit m 1) eqn:E1; [intros H; apply Ok_inj in H; subst k; repeat split; try lia; auto;
    intros j Hj; assert (j = 2 \/ j = 3 \/ j = 4) as [->|[->| ->]] by lia; assumption|].
  destruct (Z.testbit m 0) eqn:E0; [intros H; apply Ok_inj in H; subst k; repeat split; try lia; auto;
    intros j Hj; assert (j = 1 \/ j = 2 \/ j = 3 \/ j = 4) as [->|[->|[->| ->]]] by lia; assumption|].
  discriminate.
Qed.

(* ---- outcome + log helpers ----------------------------------------------------------------------------- *)
Definition ok_or_err {A} (x : outcome A) (o : option A) : Prop :=
  match o with Some a => x = Ok a | None => exists e, x = Err e end.

Lemma ok_or_err_total {A} (x : outcome A) o : ok_or_err x o -> x <> Panic.
Proof. destruct o; cbn; [intros ->; discriminate|intros [e ->]; discriminate]. Qed.

Lemma fst_lbind {A B} (x : lout A) (f : A -> lout B) :
  fst (lbind x f) = match fst x with Ok a => fst (f a) | Err e => Err e | Panic => Panic end.
Proof. unfold lbind. destruct (fst x); reflexivity. Qed.

Lemma snd_lbind {A B} (x : lout A) (f : A -> lout B) :
  snd (lbind x f) = match fst x with Ok a => snd x ++ snd (f a) | _ => snd x end.
Proof. unfold lbind. destruct (fst x); reflexivity. Qed.

(* ---- strings, DeviceInfoDescriptor::interpret ------------------------------------------------------------ *)
Lemma read_string_spec di d i : ok_or_err (fst (read_string di d i)) (spec_string d i).
Proof.
  unfold read_string, spec_string, call, ok_or_err. cbn [fst].
  destruct (lookup_str i (d_strs d)) as [[bs|c]|]; [reflexivity|now eexists|now eexists].
Qed.

Lemma read_opt_string_spec di d i : ok_or_err (fst (read_opt_string di d i)) (spec_opt_string d i).
Proof.
  unfold read_opt_string, spec_opt_string. destruct (i =? 0); [reflexivity|].
  rewrite fst_lbind. pose proof (read_string_spec di d i) as H. unfold ok_or_err in *.
  destruct (spec_string d i); [rewrite H; reflexivity|destruct H as [e ->]; now eexists].
Qed.

Lemma speed_lift_spec m : ok_or_err (fst (lift (speed_of m))) (spec_speed m).
Proof. unfold lift. cbn [fst]. rewrite speed_of_spec. unfold ok_or_err. destruct (spec_speed m); [reflexivity|now eexists]. Qed.

Ltac step_string H :=
  rewrite fst_lbind;
  let e := fresh "e" in
  match type of H with
  | ok_or_err ?x ?o => unfold ok_or_err in H; destruct o; [rewrite H|destruct H as [e ->]; now eexists]
  end.

Lemma interpret_spec di d x : ok_or_err (fst (interpret di d x)) (spec_dinfo d x).
Proof.
  unfold interpret, spec_dinfo.
  pose proof (read_string_spec di d (id_guid x)) as H1. step_string H1.
  pose proof (read_string_spec di d (id_vendor x)) as H2. step_string H2.
  pose proof (read_string_spec di d (id_model x)) as H3. step_string H3.
  pose proof (read_opt_string_spec di d (id_family x)) as H4. step_string H4.
  pose proof (read_string_spec di d (id_version x)) as H5. step_string H5.
  pose proof (read_string_spec di d (id_manufacturer x)) as H6. step_string H6.
  pose proof (read_string_spec di d (id_serial x)) as H7. step_string H7.
  pose proof (read_opt_string_spec di d (id_user x)) as H8. step_string H8.
  pose proof (speed_lift_spec (id_speed x)) as H9. step_string H9.
  reflexivity.
Qed.

(* ---- ControlIfaceInfo::new ---------------------------------------------------------------------------------- *)
Lemma ep_in_out e : ep_is_in e = negb (ep_is_out e).
Proof. reflexivity. Qed.

Lemma control_iface_info_spec i : ok_or_err (control_iface_info i) (spec_ctrl i).
Proof.
  unfold control_iface_info, spec_ctrl, is_u3v_class, ok_or_err.
  destruct (a_cls (if_first i) =? 239), (a_sub (if_first i) =? 5), (a_proto (if_first i) =? 0);
    cbn [andb negb orb]; try (now eexists).
  destruct (a_eps (if_first i)) as [|e1 [|e2 [|e3 r]]]; cbn [length Nat.eqb negb]; try (now eexists).
  cbn [find]. rewrite !ep_in_out.
  destruct (ep_is_out e1), (ep_is_out e2); cbn [negb andb orb]; try (now eexists);
    destruct (ep_is_bulk e1), (ep_is_bulk e2); cbn [negb andb orb]; try reflexivity; now eexists.
Qed.

(* ---- ReceiveIfaceInfo::new ---------------------------------------------------------------------------------- *)
Lemma recv_info_alts_spec num xs :
  recv_info_alts num xs = Ok
    (match find (fun a => a_setting a =? 0) xs with
     | None => None
     | Some a =>
       if (a_cls a =? 0xEF) && (a_sub a =? 0x05) then
         match a_eps a with
         | [e] => if ep_is_bulk e && ep_is_in e then
                    if a_proto a =? 0x01 then Some ((num, ep_addr e), REvent)
                    else if a_proto a =? 0x02 then Some ((num, ep_addr e), RStream) else None
                  else None
         | _ => None
         end
       else None
     end).
Proof.
  induction xs as [|a r IH]; cbn [recv_info_alts find]; [reflexivity|].
  destruct (a_setting a =? 0); cbn [negb]; [|exact IH].
  unfold is_u3v_class. destruct ((a_cls a =? 239) && (a_sub a =? 5)); cbn [negb]; [|reflexivity].
  destruct (a_proto a =? 1).
  - destruct (a_eps a) as [|e [|e2 r2]]; cbn [length Nat.eqb negb]; try reflexivity.
    destruct (ep_is_bulk e), (ep_is_in e); reflexivity.
  - destruct (a_proto a =? 2).
    + destruct (a_eps a) as [|e [|e2 r2]]; cbn [length Nat.eqb negb]; try reflexivity.
      destruct (ep_is_bulk e), (ep_is_in e); reflexivity.
    + destruct (a_eps a) as [|e [|e2 r2]]; try reflexivity.
      destruct (ep_is_bulk e && ep_is_in e); reflexivity.
Qed.

Lemma recv_info_spec i : recv_info i = Ok (spec_recv i).
Proof. unfold recv_info, spec_recv. apply recv_info_alts_spec. Qed.

Lemma recv_infos_spec xs : recv_infos xs = Ok (filter_map spec_recv xs).
Proof.
  induction xs as [|i r IH]; cbn [recv_infos filter_map]; [reflexivity|].
  rewrite recv_info_spec, IH. cbn [bind]. destruct (spec_recv i); reflexivity.
Qed.

Lemma classify_spec rs : ok_or_err (classify rs) (spec_classify rs).
Proof.
  unfold classify, spec_classify, ok_or_err.
  destruct rs as [|[x [|]] [|[y [|]] [|z r]]]; cbn [length Nat.ltb Nat.leb rev app]; try reflexivity; now eexists.
Qed.

(* ---- find_u3v_iad -------------------------------------------------------------------------------------------- *)
Lemma config_descriptor_fst di d i : 0 <= i ->
  fst (config_descriptor di d i) =
  match nth_error (d_confs d) (Z.to_nat i) with
  | None => Err UE_NOT_FOUND
  | Some c => if cf_err c =? 0 then Ok c else Err (usb_kind (cf_err c))
  end.
Proof. reflexivity. Qed.

Lemma find_u3v_iad_from_spec di d : forall k i, 0 <= i ->
  match spec_pick_config (d_confs d) k (Z.to_nat i) with
  | Some xc => fst (find_u3v_iad_from iad_from_bytes di d k i) = Ok (Some xc)
  | None => fst (find_u3v_iad_from iad_from_bytes di d k i) = Ok None \/
            exists e, fst (find_u3v_iad_from iad_from_bytes di d k i) = Err e
  end.
Proof.
  induction k as [|k IH]; intros i Hi; cbn [spec_pick_config find_u3v_iad_from]; [now left|].
  rewrite fst_lbind, config_descriptor_fst by exact Hi.
  destruct (nth_error (d_confs d) (Z.to_nat i)) as [c|]; [|right; now eexists].
  destruct (cf_err c =? 0); [|right; now eexists].
  rewrite fst_lbind. unfold lift. cbn [fst]. rewrite find_in_config_pure.
  destruct (spec_find_config c) as [x|]; [reflexivity|].
  specialize (IH (i + 1) ltac:(lia)). replace (Z.to_nat (i + 1)) with (S (Z.to_nat i)) in IH by lia. exact IH.
Qed.

Lemma find_u3v_iad_from_total di d k i : fst (find_u3v_iad_from iad_from_bytes di d k i) <> Panic.
Proof.
  revert i. induction k as [|k IH]; intros i; cbn [find_u3v_iad_from]; [discriminate|].
  rewrite fst_lbind. unfold config_descriptor, call. cbn [fst].
  destruct (nth_error (d_confs d) (Z.to_nat i)) as [c|]; [|discriminate].
  destruct (cf_err c =? 0); [|discriminate].
  rewrite fst_lbind. unfold lift. cbn [fst]. rewrite find_in_config_pure.
  destruct (spec_find_config c); [discriminate|apply IH].
Qed.

(* ---- DeviceBuilder::new / build ------------------------------------------------------------------------------- *)
Definition candidate (d : dev) : bool :=
  (d_dd_err d =? 0) && (d_cls d =? 0xEF) && (d_sub d =? 0x02) && (d_proto d =? 0x01).

Lemma builder_new_spec di d :
  match (if candidate d then spec_pick_config (d_confs d) (Z.to_nat (d_nconf d)) 0 else None) with
  | Some xc => fst (builder_new iad_from_bytes di d) = Ok (Some xc)
  | None => fst (builder_new iad_from_bytes di d) = Ok None \/ exists e, fst (builder_new iad_from_bytes di d) = Err e
  end.
Proof.
  unfold builder_new, candidate. rewrite fst_lbind. unfold call, try_code. cbn [fst].
  destruct (d_dd_err d =? 0); cbn [andb]; [|right; now eexists].
  destruct ((d_cls d =? 239) && (d_sub d =? 2) && (d_proto d =? 1)); [|now left].
  exact (find_u3v_iad_from_spec di d (Z.to_nat (d_nconf d)) 0 ltac:(lia)).
Qed.

Definition spec_tail (d : dev) (x : iad) (c : conf) : option devres :=
  match spec_interfaces x c with
  | None => None
  | Some (ctrl, others) =>
    match spec_ctrl ctrl with
    | None => None
    | Some ci =>
      if spec_info_valid (a_extra (if_first ctrl)) then
        match spec_dinfo d (spec_info (a_extra (if_first ctrl))) with
        | None => None
        | Some info =>
          match spec_classify (filter_map spec_recv others) with
          | None => None
          | Some (ev, st) => Some (mkDevres info ci ev st)
          end
        end
      else None
    end
  end.

Definition spec_build (d : dev) (x : iad) (c : conf) : option devres :=
  if (d_open d =? 0) && (d_getcfg_code d =? 0) &&
     ((d_getcfg_val d mod 256 =? cf_value c) || (d_setcfg d =? 0))
  then spec_tail d x c else None.

Definition build_tail (di : Z) (d : dev) (x : iad) (c : conf) : lout devres :=
  match skip_to (i_first x) (cf_ifaces c) with
  | [] => lift (Err UE_INVALID_DEVICE)
  | ctrl :: others =>
    let! ci := lift (control_iface_info ctrl) in
    let! idsc := lift (info_from_bytes (a_extra (if_first ctrl))) in
    let! info := interpret di d idsc in
    let! rs := lift (recv_infos others) in
    let! es := lift (classify rs) in
    lret (mkDevres info ci (fst es) (snd es))
  end.

Lemma build_tail_spec di d x c : ok_or_err (fst (build_tail di d x c)) (spec_tail d x c).
Proof.
  unfold build_tail, spec_tail, spec_interfaces.
  destruct (skip_to (i_first x) (cf_ifaces c)) as [|ctrl others]; [unfold lift; cbn [fst]; now eexists|].
  rewrite fst_lbind. unfold lift at 1. cbn [fst].
  pose proof (control_iface_info_spec ctrl) as HC. unfold ok_or_err in HC.
  destruct (spec_ctrl ctrl) as [ci|]; [rewrite HC|destruct HC as [e ->]; now eexists].
  rewrite fst_lbind. unfold lift at 1. cbn [fst]. rewrite info_from_bytes_spec.
  destruct (spec_info_valid (a_extra (if_first ctrl))); [|now eexists].
  rewrite fst_lbind.
  pose proof (interpret_spec di d (spec_info (a_extra (if_first ctrl)))) as HI. unfold ok_or_err in HI.
  destruct (spec_dinfo d (spec_info (a_extra (if_first ctrl)))) as [info|];
    [rewrite HI|destruct HI as [e ->]; now eexists].
  rewrite fst_lbind. unfold lift at 1. cbn [fst]. rewrite recv_infos_spec.
  rewrite fst_lbind. unfold lift at 1. cbn [fst].
  pose proof (classify_spec (filter_map spec_recv others)) as HK. unfold ok_or_err in HK.
  destruct (spec_classify (filter_map spec_recv others)) as [[ev st]|];
    [rewrite HK; reflexivity|destruct HK as [e ->]; now eexists].
Qed.

Lemma build_opened_spec di d x c :
  ok_or_err (fst (build_opened di d x c))
    (if (d_getcfg_code d =? 0) && ((d_getcfg_val d mod 256 =? cf_value c) || (d_setcfg d =? 0))
     then spec_tail d x c else None).
Proof.
  unfold build_opened. fold (build_tail di d x c).
  rewrite fst_lbind. unfold call at 1, try_code at 1. cbn [fst].
  destruct (d_getcfg_code d =? 0); cbn [bind andb]; [|now eexists].
  rewrite fst_lbind.
  destruct (d_getcfg_val d mod 256 =? cf_value c); cbn [negb orb].
  - unfold lret at 1. cbn [fst]. apply build_tail_spec.
  - unfold call at 1, try_code at 1. cbn [fst].
    destruct (d_setcfg d =? 0); [apply build_tail_spec|now eexists].
Qed.

Lemma build_spec di d x c : ok_or_err (fst (build di d x c)) (spec_build d x c).
Proof.
  unfold build, spec_build. rewrite fst_lbind. unfold call at 1, try_code at 1. cbn [fst].
  destruct (d_open d =? 0); cbn [andb]; [|now eexists].
  cbn [fst]. apply build_opened_spec.
Qed.

Lemma accept_spec_unfold d :
  accept_spec d =
  if candidate d then
    match spec_pick_config (d_confs d) (Z.to_nat (d_nconf d)) 0 with
    | Some (x, c) => spec_build d x c
    | None => None
    end
  else None.
Proof. reflexivity. Qed.

(* one device of the list: never a panic, never an error; kept exactly when the closed form says so *)
Lemma enum_device_spec di d : fst (enum_device iad_from_bytes di d) = Ok (accept_spec d).
Proof.
  rewrite accept_spec_unfold. unfold enum_device.
  pose proof (builder_new_spec di d) as HN.
  destruct (candidate d).
  - destruct (spec_pick_config (d_confs d) (Z.to_nat (d_nconf d)) 0) as [[x c]|].
    + rewrite HN. pose proof (build_spec di d x c) as HB. unfold ok_or_err in HB.
      destruct (spec_build d x c); [rewrite HB; reflexivity|destruct HB as [e ->]; reflexivity].
    + destruct HN as [-> | [e ->]]; reflexivity.
  - destruct HN as [-> | [e ->]]; reflexivity.
Qed.

Lemma enum_from_spec : forall ds di, fst (enum_from iad_from_bytes di ds) = Ok (accepted_from di ds).
Proof.
  induction ds as [|d r IH]; intros di; cbn [enum_from accepted_from]; [reflexivity|].
  rewrite fst_lbind, enum_device_spec, fst_lbind, IH. cbn [lret fst].
  destruct (accept_spec d); reflexivity.
Qed.

Lemma enumerate_spec list_code ds :
  fst (enumerate_devices list_code ds) =
  if list_code <? 0 then Err (usb_kind list_code) else Ok (accepted_from 0 ds).
Proof.
  unfold enumerate_devices, enumerate_with. rewrite fst_lbind. unfold call. cbn [fst].
  destruct (list_code <? 0); [reflexivity|]. apply enum_from_spec.
Qed.

Lemma enumerate_total list_code ds : fst (enumerate_devices list_code ds) <> Panic.
Proof. rewrite enumerate_spec. destruct (list_code <? 0); discriminate. Qed.

Lemma run_enum_never_panics list_code ds : run_enum list_code ds <> [2].
Proof.
  unfold run_enum, show_enum. rewrite enumerate_spec.
  destruct (list_code <? 0); cbn [app]; discriminate.
Qed.

(* the kept devices are exactly the accepted ones, in list order, each under its own position; a device is kept
   or not by its own descriptors and libusb answers alone *)
Lemma accepted_from_in : forall ds di k r,
  In (k, r) (accepted_from di ds) <->
  exists j, k = di + Z.of_nat j /\ exists d, nth_error ds j = Some d /\ accept_spec d = Some r.
Proof.
  induction ds as [|d ds IH]; intros di k r; cbn [accepted_from].
  - split; [intros []|intros [j [_ [d [H _]]]]; destruct j; discriminate].
  - assert (IH' : In (k, r) (accepted_from (di + 1) ds) <->
                  exists j, k = di + Z.of_nat (S j) /\ exists d0, nth_error ds j = Some d0 /\ accept_spec d0 = Some r).
    { rewrite IH. split; intros [j [Hk Hd]]; exists j; (split; [lia|exact Hd]). }
    destruct (accept_spec d) as [x|] eqn:EA.
    + cbn [In]. rewrite IH'. split.
      * intros [H|[j [Hk Hd]]].
        -- injection H as <- <-. exists 0%nat. split; [lia|]. exists d. now split.
        -- exists (S j). split; [exact Hk|exact Hd].
      * intros [[|j] [Hk [d0 [Hn Ha]]]].
        -- left. cbn [nth_error] in Hn. injection Hn as <-. rewrite EA in Ha. injection Ha as <-. f_equal. lia.
        -- right. exists j. split; [exact Hk|]. exists d0. now split.
    + rewrite IH'. split.
      * intros [j [Hk Hd]]. exists (S j). split; [exact Hk|exact Hd].
      * intros [[|j] [Hk [d0 [Hn Ha]]]].
        -- cbn [nth_error] in Hn. injection Hn as <-. rewrite EA in Ha. discriminate.
        -- exists j. split; [exact Hk|]. exists d0. now split.
Qed.

Lemma accepted_from_sorted : forall ds di, 
  StronglySorted Z.lt (map fst (accepted_from di ds)) /\ Forall (fun p => di <= fst p) (accepted_from di ds).
Proof.
  induction ds as [|d ds IH]; intros di; cbn [accepted_from map]; [split; constructor|].
  destruct (IH (di + 1)) as [HS HF].
  assert (HF' : Forall (fun p => di <= fst p) (accepted_from (di + 1) ds)).
  { eapply Forall_impl; [|exact HF]. cbn. intros; lia. }
  destruct (accept_spec d); [|split; assumption].
  cbn [map fst]. split.
  - constructor; [exact HS|]. rewrite Forall_map. eapply Forall_impl; [|exact HF]. cbn. intros; lia.
  - constructor; [cbn; lia|exact HF'].
Qed.

Lemma accepted_from_app : forall a b di,
  accepted_from di (a ++ b) = accepted_from di a ++ accepted_from (di + Z.of_nat (length a)) b.
Proof.
  induction a as [|d a IH]; intros b di; cbn [app accepted_from length].
  - now rewrite Z.add_0_r.
  - rewrite IH. replace (di + 1 + Z.of_nat (length a)) with (di + Z.of_nat (S (length a))) by lia.
    destruct (accept_spec d); reflexivity.
Qed.

(* ---- the libusb calls --------------------------------------------------------------------------------------- *)
(* a device that is not a candidate (descriptor unreadable or not class EF/02/01) is asked for its device
   descriptor and nothing else: never opened, its configuration never read *)
Lemma non_candidate_untouched di d : candidate d = false ->
  enum_device iad_from_bytes di d = (Ok None, [1; di]).
Proof.
  unfold candidate, enum_device, builder_new, lbind, call, try_code. cbn [fst snd].
  destruct (d_dd_err d =? 0); cbn [andb fst snd app]; [|reflexivity].
  intros ->. reflexivity.
Qed.

(* build: one open; when it succeeds the handle is closed after everything else, on every way out *)
Lemma build_log di d x c :
  snd (build di d x c) =
  [3; di] ++ (if d_open d =? 0 then snd (build_opened di d x c) ++ [7; di] else []).
Proof.
  unfold build. rewrite snd_lbind. unfold call, try_code. cbn [fst snd].
  destruct (d_open d =? 0); cbn [snd]; [reflexivity|now rewrite app_nil_r].
Qed.

(* failing get_device_list: nothing else is called *)
Lemma enumerate_list_error list_code ds : list_code < 0 ->
  enumerate_devices list_code ds = (Err (usb_kind list_code), [13]).
Proof.
  intros H. unfold enumerate_devices, enumerate_with, lbind, call. cbn [fst snd].
  apply Z.ltb_lt in H. rewrite H. reflexivity.
Qed.

(* ---- what an accepted device looks like ------------------------------------------------------------------------ *)
Lemma spec_ctrl_directions i n a b : spec_ctrl i = Some (n, a, b) ->
  n = a_num (if_first i) /\ Z.land a 0x80 <> 0 /\ Z.land b 0x80 = 0.
Proof.
  unfold spec_ctrl.
  destruct ((a_cls (if_first i) =? 239) && (a_sub (if_first i) =? 5) && (a_proto (if_first i) =? 0)); [|discriminate].
  destruct (a_eps (if_first i)) as [|e1 [|e2 [|e3 r]]]; try discriminate.
  destruct (ep_is_in e1 && ep_is_out e2 && ep_is_bulk e1 && ep_is_bulk e2) eqn:E1.
  - intros H. injection H as <- <- <-. apply andb_prop in E1 as [E1 _]. apply andb_prop in E1 as [E1 _].
    apply andb_prop in E1 as [Ei Eo]. unfold ep_is_in, ep_is_out in *.
    apply negb_true_iff, Z.eqb_neq in Ei. apply Z.eqb_eq in Eo. auto.
  - destruct (ep_is_out e1 && ep_is_in e2 && ep_is_bulk e1 && ep_is_bulk e2) eqn:E2; [|discriminate].
    intros H. injection H as <- <- <-. apply andb_prop in E2 as [E2 _]. apply andb_prop in E2 as [E2 _].
    apply andb_prop in E2 as [Eo Ei]. unfold ep_is_in, ep_is_out in *.
    apply negb_true_iff, Z.eqb_neq in Ei. apply Z.eqb_eq in Eo. auto.
Qed.

Lemma spec_recv_direction i n a k : spec_recv i = Some ((n, a), k) ->
  n = a_num (if_first i) /\ Z.land a 0x80 <> 0.
Proof.
  unfold spec_recv. destruct (find (fun a0 => a_setting a0 =? 0) (if_alts i)) as [al|]; [|discriminate].
  destruct ((a_cls al =? 239) && (a_sub al =? 5)); [|discriminate].
  destruct (a_eps al) as [|e [|e2 r]]; try discriminate.
  destruct (ep_is_bulk e && ep_is_in e) eqn:E; [|discriminate].
  apply andb_prop in E as [_ Ei]. unfold ep_is_in in Ei. apply negb_true_iff, Z.eqb_neq in Ei.
  destruct (a_proto al =? 1); [intros H; injection H as <- <- <-; auto|].
  destruct (a_proto al =? 2); [intros H; injection H as <- <- <-; auto|discriminate].
Qed.

Lemma filter_map_in {A B} (f : A -> option B) xs y : In y (filter_map f xs) -> exists x, In x xs /\ f x = Some y.
Proof.
  induction xs as [|x xs IH]; cbn [filter_map]; [intros []|].
  destruct (f x) eqn:E.
  - intros [<-|H]; [exists x; split; [now left|exact E]|].
    destruct (IH H) as [x' [Hi Hf]]. exists x'. split; [now right|exact Hf].
  - intros H. destruct (IH H) as [x' [Hi Hf]]. exists x'. split; [now right|exact Hf].
Qed.

Lemma spec_classify_members rs ev st : spec_classify rs = Some (ev, st) ->
  (forall x, ev = Some x -> In (x, REvent) rs) /\ (forall x, st = Some x -> In (x, RStream) rs) /\
  (ev = None -> forall x, ~ In (x, REvent) rs) /\ (st = None -> forall x, ~ In (x, RStream) rs) /\
  (length rs <= 2)%nat.
Proof.
  unfold spec_classify.
  destruct rs as [|[x [|]] [|[y [|]] [|z r]]]; try discriminate; intros H; injection H as <- <-;
    repeat split; cbn [In length]; try lia; try (intros ? H; injection H as <-; auto); try discriminate;
    try (intros _ ? [H|[H|[]]]; discriminate); try (intros _ ? [H|[]]; discriminate); try (intros _ ? []).
Qed.

(* everything an accepted device's record says, in terms of its descriptor tree *)
Lemma accepted_shape d r : accept_spec d = Some r ->
  candidate d = true /\
  exists x c ctrl others,
    spec_pick_config (d_confs d) (Z.to_nat (d_nconf d)) 0 = Some (x, c) /\ is_u3v_iad x = true /\
    d_open d = 0 /\ d_getcfg_code d = 0 /\ (d_getcfg_val d mod 256 = cf_value c \/ d_setcfg d = 0) /\
    skip_to (i_first x) (cf_ifaces c) = ctrl :: others /\
    spec_ctrl ctrl = Some (r_ctrl r) /\
    spec_info_valid (a_extra (if_first ctrl)) = true /\
    spec_dinfo d (spec_info (a_extra (if_first ctrl))) = Some (r_info r) /\
    spec_classify (filter_map spec_recv others) = Some (r_event r, r_stream r).
Proof.
  rewrite accept_spec_unfold. intros H. destruct (candidate d); [|discriminate]. split; [reflexivity|].
  destruct (spec_pick_config (d_confs d) (Z.to_nat (d_nconf d)) 0) as [[x c]|] eqn:EP; [|discriminate].
  unfold spec_build in H.
  destruct (d_open d =? 0) eqn:E1; cbn [andb] in H; [|discriminate].
  destruct (d_getcfg_code d =? 0) eqn:E2; cbn [andb] in H; [|discriminate].
  destruct ((d_getcfg_val d mod 256 =? cf_value c) || (d_setcfg d =? 0)) eqn:E3; [|discriminate].
  unfold spec_tail, spec_interfaces in H.
  destruct (skip_to (i_first x) (cf_ifaces c)) as [|ctrl others] eqn:ES; [discriminate|].
  destruct (spec_ctrl ctrl) as [ci|] eqn:EC; [|discriminate].
  destruct (spec_info_valid (a_extra (if_first ctrl))) eqn:EV; [|discriminate].
  destruct (spec_dinfo d (spec_info (a_extra (if_first ctrl)))) as [info|] eqn:EI; [|discriminate].
  destruct (spec_classify (filter_map spec_recv others)) as [[ev st]|] eqn:EK; [|discriminate].
  injection H as <-. cbn [r_ctrl r_info r_event r_stream].
  exists x, c, ctrl, others. repeat split; auto.
  - (* the IAD that was picked is a U3V one *)
    clear - EP. revert EP. generalize 0%nat. induction (Z.to_nat (d_nconf d)) as [|k IH]; intros i; cbn [spec_pick_config]; [discriminate|].
    destruct (nth_error (d_confs d) i) as [c0|]; [|discriminate]. destruct (cf_err c0 =? 0); [|discriminate].
    destruct (spec_find_config c0) as [x0|] eqn:EF; [|apply IH].
    intros H. injection H as <- <-. unfold spec_find_config in EF.
    destruct (filter_map spec_u3v_of (extras_in_order c0)) as [|i0 l] eqn:EL; [discriminate|]. injection EF as <-.
    assert (Hin : In i0 (filter_map spec_u3v_of (extras_in_order c0))) by (rewrite EL; now left).
    destruct (filter_map_in _ _ _ Hin) as [y [_ Hy]]. unfold spec_u3v_of in Hy.
    destruct (spec_iad_of y) as [i1|]; [|discriminate]. destruct (is_u3v_iad i1) eqn:EU; [|discriminate].
    now injection Hy as <-.
  - now apply Z.eqb_eq.
  - now apply Z.eqb_eq.
  - apply orb_prop in E3 as [E3|E3]; apply Z.eqb_eq in E3; auto.
Qed.

Lemma accepted_endpoints d r : accept_spec d = Some r ->
  (let '(n, a, b) := r_ctrl r in Z.land a 0x80 <> 0 /\ Z.land b 0x80 = 0) /\
  (forall n a, r_event r = Some (n, a) -> Z.land a 0x80 <> 0) /\
  (forall n a, r_stream r = Some (n, a) -> Z.land a 0x80 <> 0).
Proof.
  intros H. destruct (accepted_shape d r H) as [_ (x & c & ctrl & others & _ & _ & _ & _ & _ & _ & HC & _ & _ & HK)].
  destruct (r_ctrl r) as [[n a] b]. split; [apply (spec_ctrl_directions _ _ _ _ HC)|].
  destruct (spec_classify_members _ _ _ HK) as (HE & HS & _).
  split; intros n' a' Hr.
  - destruct (filter_map_in _ _ _ (HE _ Hr)) as [i [_ Hi]]. apply (spec_recv_direction _ _ _ _ Hi).
  - destruct (filter_map_in _ _ _ (HS _ Hr)) as [i [_ Hi]]. apply (spec_recv_direction _ _ _ _ Hi).
Qed.

(* optional strings: absent iff the index is 0; the speed is the highest set bit of the mask *)
Lemma spec_dinfo_fields d x info : spec_dinfo d x = Some info ->
  di_gencp info = (id_gencp_major x, id_gencp_minor x) /\ di_u3v info = (id_u3v_major x, id_u3v_minor x) /\
  spec_string d (id_guid x) = Some (di_guid info) /\ spec_string d (id_vendor x) = Some (di_vendor info) /\
  spec_string d (id_model x) = Some (di_model info) /\ spec_string d (id_version x) = Some (di_version info) /\
  spec_string d (id_manufacturer x) = Some (di_manufacturer info) /\ spec_string d (id_serial x) = Some (di_serial info) /\
  (di_family info = None <-> id_family x = 0) /\ (di_user info = None <-> id_user x = 0) /\
  (forall s, di_family info = Some s -> spec_string d (id_family x) = Some s) /\
  (forall s, di_user info = Some s -> spec_string d (id_user x) = Some s) /\
  spec_speed (id_speed x) = Some (di_speed info).
Proof.
  unfold spec_dinfo.
  destruct (spec_string d (id_guid x)) as [s1|]; [|discriminate].
  destruct (spec_string d (id_vendor x)) as [s2|]; [|discriminate].
  destruct (spec_string d (id_model x)) as [s3|]; [|discriminate].
  destruct (spec_opt_string d (id_family x)) as [s4|] eqn:E4; [|discriminate].
  destruct (spec_string d (id_version x)) as [s5|]; [|discriminate].
  destruct (spec_string d (id_manufacturer x)) as [s6|]; [|discriminate].
  destruct (spec_string d (id_serial x)) as [s7|]; [|discriminate].
  destruct (spec_opt_string d (id_user x)) as [s8|] eqn:E8; [|discriminate].
  destruct (spec_speed (id_speed x)) as [sp|]; [|discriminate].
  intros H. injection H as <-. cbn [di_gencp di_u3v di_guid di_vendor di_model di_family di_version di_manufacturer
                                   di_serial di_user di_speed].
  assert (OPT : forall i o, spec_opt_string d i = Some o ->
                (o = None <-> i = 0) /\ (forall s, o = Some s -> spec_string d i = Some s)).
  { intros i o. unfold spec_opt_string. destruct (i =? 0) eqn:E0.
    - intros H. injection H as <-. apply Z.eqb_eq in E0. split; [tauto|discriminate].
    - apply Z.eqb_neq in E0. destruct (spec_string d i) as [s|]; [|discriminate].
      intros H. injection H as <-. split; [split; [discriminate|tauto]|]. intros s0 H. now injection H as <-. }
  destruct (OPT _ _ E4) as [F1 F2]. destruct (OPT _ _ E8) as [U1 U2].
  repeat split; auto; try apply F1; try apply U1.
Qed.

(* ---- concrete devices (non-vacuity, and the pinned defect end to end) ---------------------------------------- *)
Definition ex_info : list Z := [20; 36; 1; 2; 0; 1; 0; 0; 0; 1; 0; 1; 2; 3; 0; 5; 6; 7; 8; 12].
Definition ex_strs : list (Z * sres) :=
  [(1, SBytes [71; 85]); (2, SBytes [86]); (3, SBytes [77]); (5, SBytes [49]); (6, SBytes []); (7, SBytes [83; 78]);
   (8, SBytes [117])].
Definition ex_camera (cextra : list Z) : dev :=
  mkDev 0 239 2 1 1
    [mkConf 0 1 cextra
       [mkIf (mkAlt 0 0 239 5 0 ex_info [mkEp 129 2 []; mkEp 1 2 []]) [];
        mkIf (mkAlt 1 0 239 5 1 [] [mkEp 130 2 []]) [];
        mkIf (mkAlt 2 0 239 5 2 [] [mkEp 131 2 [6; 48; 0; 0; 0; 0]]) [mkAlt 2 1 239 5 2 [] [mkEp 131 2 []]]]]
    0 0 1 0 ex_strs.
Definition ex_good : dev := ex_camera [8; 11; 0; 3; 239; 5; 0; 0].
Definition ex_cut : dev := ex_camera [3; 48; 0; 8; 11; 0; 3; 239].     (* the IAD is cut after four bytes *)
Definition ex_hub : dev := mkDev 0 9 0 3 1 [] 0 0 1 0 [].

Lemma example_camera :
  accept_spec ex_good =
    Some (mkDevres (mkDinfo (1, 2) (1, 0) [71; 85] [86] [77] None [49] [] [83; 78] (Some [117]) 3)
                   (0, 129, 1) (Some (1, 130)) (Some (2, 131))) /\
  accept_spec ex_cut = None /\ accept_spec ex_hub = None.
Proof. repeat split; vm_compute; reflexivity. Qed.

(* the pinned code: one device whose configuration's extra bytes end inside an IAD makes enumerate_devices
   panic and thereby hides the two healthy cameras next to it; the repaired code reports exactly those two *)
Lemma enumerate_v0_refuted :
  fst (enumerate_devices_v0 3 [ex_good; ex_cut; ex_good]) = Panic /\
  run_enum_v0 3 [ex_good; ex_cut; ex_good] = [2] /\
  map fst (accepted_from 0 [ex_good; ex_cut; ex_good]) = [0; 2] /\
  exists l, fst (enumerate_devices 3 [ex_good; ex_cut; ex_good]) = Ok l /\ map fst l = [0; 2].
Proof.
  repeat split; try (vm_compute; reflexivity).
  eexists. split; [rewrite enumerate_spec; reflexivity|vm_compute; reflexivity].
Qed.

(* ---- the statements of props/C07.v that combine several lemmas ------------------------------------------------- *)
Lemma search_order_both : forall c,
  find_in_config iad_from_bytes c = first_u3v iad_from_bytes (extras_in_order c) /\
  find_in_config iad_from_bytes c = Ok (spec_find_config c).
Proof. intros c. split; [exact (search_order c)|exact (find_in_config_pure c)]. Qed.

Lemma interfaces_spec : forall i rs,
  match spec_ctrl i with Some c => control_iface_info i = Ok c | None => exists e, control_iface_info i = Err e end /\
  recv_info i = Ok (spec_recv i) /\
  match spec_classify rs with Some p => classify rs = Ok p | None => exists e, classify rs = Err e end.
Proof. intros i rs. split; [exact (control_iface_info_spec i)|split; [exact (recv_info_spec i)|exact (classify_spec rs)]]. Qed.

Lemma enumerate_total_both : forall list_code ds,
  fst (enumerate_devices list_code ds) <> Panic /\ run_enum list_code ds <> [2].
Proof. intros l ds. split; [exact (enumerate_total l ds)|exact (run_enum_never_panics l ds)]. Qed.

Lemma enumerate_members : forall ds k r,
  In (k, r) (accepted_from 0 ds) <->
  exists j, k = 0 + Z.of_nat j /\ exists d, nth_error ds j = Some d /\ accept_spec d = Some r.
Proof. intros ds k r. exact (accepted_from_in ds 0 k r). Qed.

Lemma enumerate_order : forall ds a b,
  StronglySorted Z.lt (map fst (accepted_from 0 ds)) /\
  accepted_from 0 (a ++ b) = accepted_from 0 a ++ accepted_from (0 + Z.of_nat (length a)) b.
Proof. intros ds a b. split; [exact (proj1 (accepted_from_sorted ds 0))|exact (accepted_from_app a b 0)]. Qed.

Lemma enumerate_calls : forall di d x c list_code ds,
  (candidate d = false -> enum_device iad_from_bytes di d = (Ok None, [1; di])) /\
  snd (build di d x c) = [3; di] ++ (if d_open d =? 0 then snd (build_opened di d x c) ++ [7; di] else []) /\
  (list_code < 0 -> enumerate_devices list_code ds = (Err (usb_kind list_code), [13])).
Proof.
  intros di d x c l ds.
  split; [exact (non_candidate_untouched di d)|split; [exact (build_log di d x c)|exact (enumerate_list_error l ds)]].
Qed.
