(* Proofs for C19 (GenTL C API): state machine, last error, buffer protocol, port safety. *)
From Cam Require Import Outcome Bytes GenTL.
From Coq Require Import String.

Local Open Scope Z_scope.

(* ---------------------------------------------------------------- helpers -- *)
Ltac inv H := inversion H; subst; clear H.

Lemma code_nonzero e : code_of e =? 0 = false.
Proof. destruct e; reflexivity. Qed.

Lemma code_negative e : code_of e <= -1001.
Proof. destruct e; cbn; lia. Qed.

(* control part of the state: everything but the two register images and their queues *)
Definition same_ctl (s s' : state) : Prop :=
  lib_init s' = lib_init s /\ sys_open s' = sys_open s /\ if_open s' = if_open s /\
  handles s' = handles s /\ last_error s' = last_error s.

Lemma same_ctl_refl s : same_ctl s s.
Proof. repeat split. Qed.
Lemma same_ctl_trans a b c : same_ctl a b -> same_ctl b c -> same_ctl a c.
Proof. unfold same_ctl; intros (A1 & A2 & A3 & A4 & A5) (B1 & B2 & B3 & B4 & B5).
  repeat split; congruence. Qed.

(* ------------------------------------------------------- buffer protocol -- *)
Definition need (i : info) : Z := zlen (info_bytes i).
Definition ascii_ok (i : info) : Prop := match i with IStr s => is_ascii s = true | _ => True end.

Lemma copy_to_null v : copy_to v DNull = GOk ([], zlen v).
Proof. reflexivity. Qed.
Lemma copy_to_small v cap : cap < zlen v -> copy_to v (DBuf cap) = GErr EBufferTooSmall.
Proof. intros H; unfold copy_to. destruct (Z.ltb_spec cap (zlen v)); [reflexivity | lia]. Qed.
Lemma copy_to_fits v cap : zlen v <= cap -> copy_to v (DBuf cap) = GOk (v, zlen v).
Proof. intros H; unfold copy_to. destruct (Z.ltb_spec cap (zlen v)); [lia | reflexivity]. Qed.

(* The CopyTo protocol, for every value and every destination. *)
Lemma copy_info_protocol i d :
  ascii_ok i ->
  copy_info i d =
  match d with
  | DNull => GOk ([], need i, info_type i)
  | DBuf cap => if cap <? need i then GErr EBufferTooSmall
                else GOk (info_bytes i, need i, info_type i)
  end.
Proof.
  intros A. unfold copy_info, need.
  destruct i; cbn [ascii_ok] in A; cbn [info_bytes info_type];
    try (unfold str_copy_to; rewrite A);
    destruct d as [|cap]; cbn [copy_to gbind]; try reflexivity;
    destruct (cap <? _); reflexivity.
Qed.

Lemma copy_info_not_ascii s d :
  is_ascii s = false -> exists w, copy_info (IStr s) d = GErr (EInvalidValue w).
Proof. intros A. unfold copy_info, str_copy_to. rewrite A. eexists; reflexivity. Qed.

Lemma copy_info_no_panic i d : copy_info i d <> GPanic.
Proof.
  unfold copy_info, str_copy_to, copy_to.
  destruct i; try destruct (is_ascii s); destruct d as [|cap]; cbn; try congruence;
    destruct (cap <? _); cbn; congruence.
Qed.

(* what the caller sees of a buffer of cap bytes followed by guard bytes *)
Lemma buf_view_length cap w : zlen w <= cap -> zlen (buf_view cap w) = cap.
Proof.
  intros H. unfold buf_view. rewrite zlen_app. unfold zlen at 2. rewrite repeat_length.
  pose proof (zlen_nonneg w). lia.
Qed.

(* API level: the observable result of an info query *)
Lemma info_out_ok s d i :
  ascii_ok i ->
  info_out s d (GOk i) =
  match d with
  | DNull => Some (s, None, [info_type i; need i; 1])
  | DBuf cap =>
      if cap <? need i then Some (s, Some EBufferTooSmall, info_untouched d)
      else Some (s, None, [info_type i; need i] ++ buf_view cap (info_bytes i) ++ [1])
  end.
Proof.
  intros A. unfold info_out. cbn [gbind]. rewrite (copy_info_protocol i d A).
  destruct d as [|cap]; [reflexivity|]. destruct (cap <? need i); reflexivity.
Qed.
Lemma info_out_err s d e : info_out s d (GErr e) = Some (s, Some e, info_untouched d).
Proof. reflexivity. Qed.

Lemma info_out_state s d q s' e o : info_out s d q = Some (s', e, o) -> s' = s.
Proof.
  unfold info_out. destruct q as [i|e0|]; cbn [gbind]; [|intros H; inv H; reflexivity|discriminate].
  destruct (copy_info i d) as [[[w n] ty]|e0|]; intros H; inv H; reflexivity.
Qed.
Lemma str_out_state s d q s' e o : str_out s d q = Some (s', e, o) -> s' = s.
Proof.
  unfold str_out. destruct q as [i|e0|]; cbn [gbind]; [|intros H; inv H; reflexivity|discriminate].
  destruct (str_copy_to i d) as [[w n]|e0|]; intros H; inv H; reflexivity.
Qed.
Lemma info_out_some s d q : q <> GPanic -> info_out s d q <> None.
Proof.
  unfold info_out. destruct q as [i|e0|]; cbn [gbind]; [|congruence|congruence].
  intros _. pose proof (copy_info_no_panic i d).
  destruct (copy_info i d) as [[[w n] ty]|e0|]; congruence.
Qed.
Lemma str_copy_no_panic x d : str_copy_to x d <> GPanic.
Proof.
  unfold str_copy_to, copy_to. destruct (is_ascii x); [|congruence].
  destruct d as [|cap]; [congruence|]. destruct (cap <? _); congruence.
Qed.
Lemma str_out_some s d q : q <> GPanic -> str_out s d q <> None.
Proof.
  unfold str_out. destruct q as [i|e0|]; cbn [gbind]; [|congruence|congruence].
  intros _. pose proof (str_copy_no_panic i d).
  destruct (str_copy_to i d) as [[w n]|e0|]; congruence.
Qed.

(* every query that takes a caller buffer answers with a value that does not depend on the buffer;
   the buffer is handled by CopyTo only *)
Definition set_dst (c : api_call) (d : dst) : api_call :=
  match c with
  | TLGetInfo h cmd _ => TLGetInfo h cmd d
  | TLGetInterfaceID h i _ => TLGetInterfaceID h i d
  | TLGetInterfaceInfo h id cmd _ => TLGetInterfaceInfo h id cmd d
  | IFGetInfo h cmd _ => IFGetInfo h cmd d
  | IFGetDeviceID h i _ => IFGetDeviceID h i d
  | IFGetDeviceInfo h id cmd _ => IFGetDeviceInfo h id cmd d
  | GCGetPortInfo h cmd _ => GCGetPortInfo h cmd d
  | GCGetPortURL h _ => GCGetPortURL h d
  | GCGetPortURLInfo h i cmd _ => GCGetPortURLInfo h i cmd d
  | c => c
  end.
Definition has_dst (c : api_call) : bool :=
  match c with
  | TLGetInfo _ _ _ | TLGetInterfaceID _ _ _ | TLGetInterfaceInfo _ _ _ _ | IFGetInfo _ _ _
  | IFGetDeviceID _ _ _ | IFGetDeviceInfo _ _ _ _ | GCGetPortInfo _ _ _ | GCGetPortURL _ _
  | GCGetPortURLInfo _ _ _ _ => true
  | _ => false
  end.

Lemma api_buffer_protocol E v s t c r :
  has_dst c = true ->
  (exists q, q <> GPanic /\ forall d, body E v s t (set_dst c d) r = info_out s d q) \/
  (exists q, q <> GPanic /\ forall d, body E v s t (set_dst c d) r = str_out s d q).
Proof.
  assert (K : forall k, as_kind k r <> GPanic).
  { intros k. destruct r as [|i k']; destruct k; try destruct k'; cbn; congruence. }
  assert (P : as_port r <> GPanic) by (destruct r; cbn; congruence).
  assert (R : forall k, port_ready s k <> GPanic).
  { intros k; destruct k; cbn; [congruence|]. destruct (if_open s); congruence. }
  destruct c; cbn [has_dst]; try discriminate; intros _; cbn [set_dst body].
  - left. eexists; split; [|intros; reflexivity].
    specialize (K KSys). destruct (as_kind KSys r); cbn [gbind]; try congruence.
    unfold tl_info. repeat (match goal with |- context [if ?b then _ else _] => destruct b end);
      congruence.
  - right. eexists; split; [|intros; reflexivity].
    specialize (K KSys). destruct (as_kind KSys r); cbn [gbind]; try congruence.
    destruct (idx =? 0); congruence.
  - left. eexists; split; [|intros; reflexivity].
    specialize (K KSys). destruct (as_kind KSys r); cbn [gbind]; try congruence.
    destruct (list_eq_dec Z.eq_dec id IF_ID); [|congruence]. unfold if_info.
    repeat (match goal with |- context [if ?b then _ else _] => destruct b end); congruence.
  - left. eexists; split; [|intros; reflexivity].
    specialize (K KIf). destruct (as_kind KIf r); cbn [gbind]; try congruence.
    unfold if_info.
    repeat (match goal with |- context [if ?b then _ else _] => destruct b end); congruence.
  - right. eexists; split; [|intros; reflexivity].
    specialize (K KIf). destruct (as_kind KIf r); cbn [gbind]; congruence.
  - left. eexists; split; [|intros; reflexivity].
    specialize (K KIf). destruct (as_kind KIf r); cbn [gbind]; congruence.
  - left. eexists; split; [|intros; reflexivity].
    destruct (as_port r) as [k| |]; cbn [gbind]; try congruence.
    specialize (R k). destruct (port_ready s k); cbn [gbind]; try congruence.
    unfold port_info.
    repeat (match goal with |- context [if ?b then _ else _] => destruct b end); congruence.
  - right. eexists; split; [|intros; reflexivity].
    destruct (as_port r) as [k| |]; cbn [gbind]; try congruence.
    specialize (R k). destruct (port_ready s k); cbn [gbind]; congruence.
  - left. eexists; split; [|intros; reflexivity].
    destruct (as_port r) as [k| |]; cbn [gbind]; try congruence.
    specialize (R k). destruct (port_ready s k); cbn [gbind]; try congruence.
    destruct (idx =? 0); [|congruence]. unfold url_info.
    repeat (match goal with |- context [if ?b then _ else _] => destruct b end); congruence.
Qed.

(* ------------------------------------------------------- register maps ---- *)
Lemma readable_meet a b : is_readable (meet a b) = is_readable a && is_readable b.
Proof. destruct a, b; reflexivity. Qed.
Lemma writable_meet a b : is_writable (meet a b) = is_writable a && is_writable b.
Proof. destruct a, b; reflexivity. Qed.

Lemma fold_meet_prop (p : access -> bool) (f : nat -> access) :
  (forall a b, p (meet a b) = p a && p b) ->
  forall l acc, p (fold_left (fun acc i => meet acc (f i)) l acc) = p acc && forallb (fun i => p (f i)) l.
Proof.
  intros M. induction l as [|x l IH]; intros acc; cbn [fold_left forallb].
  - now rewrite andb_true_r.
  - rewrite IH, M. now rewrite andb_assoc.
Qed.

Lemma range_right_iff (p : access -> bool) L s e :
  (forall a b, p (meet a b) = p a && p b) -> p RW = true ->
  (p (right_range L s e) = true <-> forall i, s <= i < e -> p (right_at L i) = true).
Proof.
  intros M R. unfold right_range.
  rewrite (fold_meet_prop p (fun i => right_at L (s + Z.of_nat i)) M), R. cbn [andb].
  rewrite forallb_forall. split.
  - intros H i Hi. specialize (H (Z.to_nat (i - s))).
    replace (s + Z.of_nat (Z.to_nat (i - s))) with i in H by lia.
    apply H. apply in_seq. lia.
  - intros H n Hn. apply in_seq in Hn. apply H. lia.
Qed.

Definition all_readable L s e := forall i, s <= i < e -> is_readable (right_at L i) = true.
Definition all_writable L s e := forall i, s <= i < e -> is_writable (right_at L i) = true.

Lemma readable_range_iff L s e : is_readable (right_range L s e) = true <-> all_readable L s e.
Proof. apply range_right_iff; [apply readable_meet | reflexivity]. Qed.
Lemma writable_range_iff L s e : is_writable (right_range L s e) = true <-> all_writable L s e.
Proof. apply range_right_iff; [apply writable_meet | reflexivity]. Qed.

Lemma zlen_slice raw s e : 0 <= s -> s <= e -> e <= zlen raw -> zlen (slice raw s e) = e - s.
Proof.
  intros. unfold slice. rewrite zlen_take; [lia|]. rewrite zlen_drop by lia. lia.
Qed.

(* Port::read of the repaired code, completely: *)
Lemma port_read_ok L raw a n :
  0 <= a -> 0 <= n -> a + n <= zlen raw -> zlen raw < 2 ^ 64 -> all_readable L a (a + n) ->
  port_read fixed L raw a n = GOk (slice raw a (a + n)).
Proof.
  intros Ha Hn Hin Hsz Hr. unfold port_read, read_raw.
  destruct (Z.leb_spec (2 ^ 64) (a + n)); [lia|].
  replace (zlen raw <? a + n) with false by (symmetry; apply Z.ltb_ge; lia).
  rewrite andb_false_r.
  apply readable_range_iff in Hr. rewrite Hr. cbn [negb].
  replace (a <=? a + n) with true by (symmetry; apply Z.leb_le; lia).
  replace (a + n <=? zlen raw) with true by (symmetry; apply Z.leb_le; lia).
  reflexivity.
Qed.

Lemma port_read_denied L raw a n :
  0 <= a -> 0 < n -> a + n <= zlen raw -> zlen raw < 2 ^ 64 -> ~ all_readable L a (a + n) ->
  port_read fixed L raw a n = GErr EAccessDenied.
Proof.
  intros Ha Hn Hin Hsz Hr. unfold port_read, read_raw.
  destruct (Z.leb_spec (2 ^ 64) (a + n)); [lia|].
  replace (zlen raw <? a + n) with false by (symmetry; apply Z.ltb_ge; lia).
  rewrite andb_false_r.
  destruct (is_readable (right_range L a (a + n))) eqn:R.
  - apply readable_range_iff in R. contradiction.
  - reflexivity.
Qed.

Lemma port_read_invalid L raw a n :
  0 <= a -> 0 <= n -> zlen raw < a + n -> port_read fixed L raw a n = GErr EInvalidAddress.
Proof.
  intros Ha Hn Hout. unfold port_read, read_raw.
  destruct (Z.leb_spec (2 ^ 64) (a + n)); [reflexivity|].
  destruct (Z.ltb_spec a (a + n)).
  - replace (zlen raw <? a + n) with true by (symmetry; apply Z.ltb_lt; lia). reflexivity.
  - assert (n = 0) by lia. subst n. cbn [andb].
    assert (R : is_readable (right_range L a (a + 0)) = true).
    { apply readable_range_iff. intros i Hi. lia. }
    rewrite R. cbn [negb].
    replace (a + 0 <=? zlen raw) with false by (symmetry; apply Z.leb_gt; lia).
    rewrite andb_false_r. reflexivity.
Qed.

(* summary: never a panic; Ok exactly transfers the bytes of a readable in-map range *)
Lemma port_read_safe L raw a n :
  0 <= a -> 0 <= n -> zlen raw < 2 ^ 64 ->
  match port_read fixed L raw a n with
  | GOk bs => a + n <= zlen raw /\ bs = slice raw a (a + n) /\ zlen bs = n /\ all_readable L a (a + n)
  | GErr e => (e = EInvalidAddress /\ zlen raw < a + n) \/
              (e = EAccessDenied /\ a + n <= zlen raw /\ ~ all_readable L a (a + n))
  | GPanic => False
  end.
Proof.
  intros Ha Hn Hsz.
  destruct (Z.ltb_spec (zlen raw) (a + n)) as [Hout|Hin].
  - rewrite port_read_invalid by assumption. left; auto.
  - destruct (is_readable (right_range L a (a + n))) eqn:R.
    + apply readable_range_iff in R. rewrite port_read_ok by assumption.
      repeat split; try assumption. rewrite zlen_slice by lia. lia.
    + assert (NR : ~ all_readable L a (a + n)).
      { intros A. apply readable_range_iff in A. congruence. }
      assert (0 < n).
      { destruct (Z.eq_dec n 0); [|lia]. subst n. exfalso. apply NR. intros i Hi. lia. }
      rewrite port_read_denied by assumption. right; auto.
Qed.

(* ---- splice ---- *)
Lemma zlen_splice raw a bs :
  0 <= a -> a + zlen bs <= zlen raw -> zlen (splice raw a bs) = zlen raw.
Proof.
  intros Ha Hin. pose proof (zlen_nonneg bs). unfold splice.
  rewrite !zlen_app, zlen_take, zlen_drop by lia. lia.
Qed.
Lemma take_splice raw a bs : 0 <= a <= zlen raw -> take a (splice raw a bs) = take a raw.
Proof.
  intros Ha. unfold splice.
  replace a with (zlen (take a raw)) at 1 by (apply zlen_take; lia).
  apply take_app_exact.
Qed.
Lemma slice_splice raw a bs : 0 <= a <= zlen raw -> slice (splice raw a bs) a (a + zlen bs) = bs.
Proof.
  intros Ha. unfold slice, splice.
  replace a with (zlen (take a raw)) at 3 by (apply zlen_take; lia).
  rewrite drop_app_exact. replace (a + zlen bs - a) with (zlen bs) by lia.
  apply take_app_exact.
Qed.
Lemma drop_splice raw a bs :
  0 <= a <= zlen raw -> drop (a + zlen bs) (splice raw a bs) = drop (a + zlen bs) raw.
Proof.
  intros Ha. unfold splice. rewrite app_assoc.
  replace (a + zlen bs) with (zlen (take a raw ++ bs)) at 1
    by (rewrite zlen_app, zlen_take; lia).
  apply drop_app_exact.
Qed.

(* ---- write_raw of the repaired macro ---- *)
Section WriteRaw.
Context {Ev : Type}.
Variables (L : layout) (obs : list (Z * Z * Ev)) (raw : list Z).

Lemma write_raw_ok a n bytes :
  0 <= a -> 0 <= n -> a + n <= zlen raw -> zlen raw < 2 ^ 64 -> all_writable L a (a + n) ->
  write_raw fixed L obs raw a n bytes = GOk (splice raw a (bytes tt), notify fixed obs a (a + n)).
Proof.
  intros Ha Hn Hin Hsz Hw. unfold write_raw.
  destruct (Z.leb_spec (2 ^ 64) (a + n)); [lia|]. cbv zeta.
  replace (zlen raw <? a + n) with false by (symmetry; apply Z.ltb_ge; lia).
  rewrite andb_false_r.
  apply writable_range_iff in Hw. rewrite Hw. cbn [negb].
  replace (a <=? a + n) with true by (symmetry; apply Z.leb_le; lia).
  replace (a + n <=? zlen raw) with true by (symmetry; apply Z.leb_le; lia).
  reflexivity.
Qed.

Lemma write_raw_denied a n bytes :
  0 <= a -> 0 < n -> a + n <= zlen raw -> zlen raw < 2 ^ 64 -> ~ all_writable L a (a + n) ->
  write_raw fixed L obs raw a n bytes = GErr EAccessDenied.
Proof.
  intros Ha Hn Hin Hsz Hw. unfold write_raw.
  destruct (Z.leb_spec (2 ^ 64) (a + n)); [lia|]. cbv zeta.
  replace (zlen raw <? a + n) with false by (symmetry; apply Z.ltb_ge; lia).
  rewrite andb_false_r.
  destruct (is_writable (right_range L a (a + n))) eqn:R.
  - apply writable_range_iff in R. contradiction.
  - reflexivity.
Qed.

Lemma write_raw_invalid a n bytes :
  0 <= a -> 0 <= n -> zlen raw < a + n -> write_raw fixed L obs raw a n bytes = GErr EInvalidAddress.
Proof.
  intros Ha Hn Hout. unfold write_raw.
  destruct (Z.leb_spec (2 ^ 64) (a + n)); [reflexivity|]. cbv zeta.
  destruct (Z.ltb_spec a (a + n)).
  - replace (zlen raw <? a + n) with true by (symmetry; apply Z.ltb_lt; lia). reflexivity.
  - assert (n = 0) by lia. subst n. cbn [andb].
    assert (R : is_writable (right_range L a (a + 0)) = true).
    { apply writable_range_iff. intros i Hi. lia. }
    rewrite R. cbn [negb].
    replace (a + 0 <=? zlen raw) with false by (symmetry; apply Z.leb_gt; lia).
    rewrite andb_false_r. reflexivity.
Qed.

Lemma write_raw_safe a n bytes :
  0 <= a -> 0 <= n -> zlen raw < 2 ^ 64 ->
  match write_raw fixed L obs raw a n bytes with
  | GOk (raw', evs) => a + n <= zlen raw /\ all_writable L a (a + n) /\
                       raw' = splice raw a (bytes tt) /\ evs = notify fixed obs a (a + n)
  | GErr e => (e = EInvalidAddress /\ zlen raw < a + n) \/
              (e = EAccessDenied /\ a + n <= zlen raw /\ ~ all_writable L a (a + n))
  | GPanic => False
  end.
Proof.
  intros Ha Hn Hsz.
  destruct (Z.ltb_spec (zlen raw) (a + n)) as [Hout|Hin].
  - rewrite write_raw_invalid by assumption. left; auto.
  - destruct (is_writable (right_range L a (a + n))) eqn:R.
    + apply writable_range_iff in R. rewrite write_raw_ok by assumption. auto.
    + assert (NR : ~ all_writable L a (a + n)).
      { intros A. apply writable_range_iff in A. congruence. }
      assert (0 < n).
      { destruct (Z.eq_dec n 0); [|lia]. subst n. exfalso. apply NR. intros i Hi. lia. }
      rewrite write_raw_denied by assumption. right; auto.
Qed.

Lemma write_raw_no_panic a n bytes : write_raw fixed L obs raw a n bytes <> GPanic.
Proof.
  unfold write_raw. cbn [v_macro_checked fixed].
  repeat match goal with |- context [if ?b then _ else _] => destruct b end; congruence.
Qed.
End WriteRaw.

Lemma port_read_no_panic L raw a n : port_read fixed L raw a n <> GPanic.
Proof.
  unfold port_read, read_raw. cbn [v_macro_checked v_checked_end fixed].
  repeat match goal with |- context [if ?b then _ else _] => destruct b end; congruence.
Qed.

(* the written bytes are exactly the range, the rest of the image is unchanged *)
Lemma write_effect raw a bs :
  0 <= a -> a + zlen bs <= zlen raw ->
  let raw' := splice raw a bs in
  zlen raw' = zlen raw /\ slice raw' a (a + zlen bs) = bs /\
  take a raw' = take a raw /\ drop (a + zlen bs) raw' = drop (a + zlen bs) raw.
Proof.
  intros Ha Hin. pose proof (zlen_nonneg bs). cbv zeta.
  split; [apply zlen_splice; lia|]. split; [apply slice_splice; lia|].
  split; [apply take_splice; lia | apply drop_splice; lia].
Qed.

(* ---- module ports: events, Port::write ---- *)
Lemma sys_events_no_panic q : forall raw, snd (sys_handle_events q raw) <> GPanic.
Proof.
  induction q as [|ev q IH]; intros raw; cbn [sys_handle_events]; [cbn; congruence|].
  destruct ev; [apply IH|].
  unfold sys_selector_change. destruct (1 <=? of_le (slice raw 1028 1032)); [cbn; congruence|apply IH].
Qed.
Lemma if_events_no_panic q raw : snd (if_handle_events fixed q raw) <> GPanic.
Proof. destruct q as [|[] q]; cbn; congruence. Qed.
Lemma if_events_raw v q raw : fst (fst (if_handle_events v q raw)) = raw.
Proof. destruct q as [|[] q]; reflexivity. Qed.

Lemma port_write_ctl E v s k a n b s' r : port_write E v s k a n b = (s', r) -> same_ctl s s'.
Proof.
  unfold port_write. destruct k.
  - destruct (write_raw v (sys_layout E) sys_obs (sys_raw s) a n b) as [[raw' evs]|e|];
      [|intros H; inv H; apply same_ctl_refl|intros H; inv H; apply same_ctl_refl].
    destruct (sys_handle_events (sys_evq s ++ evs) raw') as [[raw'' q] [u|e|]];
      intros H; inv H; repeat split.
  - destruct (if_open s); cbn [negb]; [|intros H; inv H; apply same_ctl_refl].
    destruct (write_raw v (if_layout E) if_obs (if_raw s) a n b) as [[raw' evs]|e|];
      [|intros H; inv H; apply same_ctl_refl|intros H; inv H; apply same_ctl_refl].
    destruct (if_handle_events v (if_evq s ++ evs) raw') as [[raw'' q] [u|e|]];
      intros H; inv H; repeat split.
Qed.

Lemma port_write_no_panic E s k a n b : snd (port_write E fixed s k a n b) <> GPanic.
Proof.
  unfold port_write. destruct k.
  - pose proof (@write_raw_no_panic sev (sys_layout E) sys_obs (sys_raw s) a n b) as W.
    destruct (write_raw fixed (sys_layout E) sys_obs (sys_raw s) a n b) as [[raw' evs]|e|];
      [|cbn; congruence|congruence].
    pose proof (sys_events_no_panic (sys_evq s ++ evs) raw') as P.
    destruct (sys_handle_events (sys_evq s ++ evs) raw') as [[raw'' q] [u|e|]]; cbn in *; congruence.
  - destruct (if_open s); cbn [negb]; [|cbn; congruence].
    pose proof (@write_raw_no_panic iev (if_layout E) if_obs (if_raw s) a n b) as W.
    destruct (write_raw fixed (if_layout E) if_obs (if_raw s) a n b) as [[raw' evs]|e|];
      [|cbn; congruence|congruence].
    pose proof (if_events_no_panic (if_evq s ++ evs) raw') as P.
    destruct (if_handle_events fixed (if_evq s ++ evs) raw') as [[raw'' q] [u|e|]]; cbn in *; congruence.
Qed.

(* a write that is refused for its address or access right changes nothing at all; a write that
   reports success stored exactly the caller's bytes in a writable in-map range of the interface *)
Lemma port_write_refused E s k a n b s' e :
  port_write E fixed s k a n b = (s', GErr e) ->
  e = EInvalidAddress \/ e = EAccessDenied \/ e = ENotInitialized -> s' = s.
Proof.
  unfold port_write. destruct k.
  - destruct (write_raw fixed (sys_layout E) sys_obs (sys_raw s) a n b) as [[raw' evs]|e0|];
      [|intros H; inv H; reflexivity|discriminate].
    destruct (sys_handle_events (sys_evq s ++ evs) raw') as [[raw'' q] r] eqn:HE.
    assert (forall q raw, match snd (sys_handle_events q raw) with
                          | GErr e1 => e1 = EInvalidIndex | _ => True end) as P.
    { clear. induction q as [|ev q IH]; intros raw; cbn [sys_handle_events]; [exact I|].
      destruct ev; [apply IH|]. unfold sys_selector_change.
      destruct (1 <=? of_le (slice raw 1028 1032)); [reflexivity|apply IH]. }
    specialize (P (sys_evq s ++ evs) raw'). rewrite HE in P. cbn in P.
    destruct r as [u|e1|]; intros H; inv H. intros [X|[X|X]]; discriminate.
  - destruct (if_open s); cbn [negb]; [|intros H; inv H; reflexivity].
    destruct (write_raw fixed (if_layout E) if_obs (if_raw s) a n b) as [[raw' evs]|e0|];
      [|intros H; inv H; reflexivity|discriminate].
    destruct (if_evq s ++ evs) as [|[] q]; cbn; intros H; inv H; intros [X|[X|X]]; discriminate.
Qed.

Lemma port_write_codes E s k a n b s' e :
  port_write E fixed s k a n b = (s', GErr e) ->
  In e [EInvalidAddress; EAccessDenied; ENotInitialized; EInvalidIndex; ENotImplemented].
Proof.
  unfold port_write. destruct k.
  - assert (W : 0 <= 0) by lia.
    destruct (write_raw fixed (sys_layout E) sys_obs (sys_raw s) a n b) as [[raw' evs]|e0|] eqn:HW;
      [| |discriminate].
    + destruct (sys_handle_events (sys_evq s ++ evs) raw') as [[raw'' q] r] eqn:HE.
      assert (forall q raw, match snd (sys_handle_events q raw) with
                            | GErr e1 => e1 = EInvalidIndex | _ => True end) as P.
      { clear. induction q as [|ev q IH]; intros raw; cbn [sys_handle_events]; [exact I|].
        destruct ev; [apply IH|]. unfold sys_selector_change.
        destruct (1 <=? of_le (slice raw 1028 1032)); [reflexivity|apply IH]. }
      specialize (P (sys_evq s ++ evs) raw'). rewrite HE in P. cbn in P.
      destruct r as [u|e1|]; intros H; inv H. cbn; auto.
    + intros H; inv H. revert HW. unfold write_raw. cbn [v_macro_checked fixed].
      repeat match goal with |- context [if ?c then _ else _] => destruct c end;
        intros H; inv H; cbn; auto.
  - destruct (if_open s); cbn [negb]; [|intros H; inv H; cbn; auto].
    destruct (write_raw fixed (if_layout E) if_obs (if_raw s) a n b) as [[raw' evs]|e0|] eqn:HW;
      [| |discriminate].
    + destruct (if_evq s ++ evs) as [|[] q]; cbn; intros H; inv H; auto 6.
    + intros H; inv H. revert HW. unfold write_raw. cbn [v_macro_checked fixed].
      repeat match goal with |- context [if ?c then _ else _] => destruct c end;
        intros H; inv H; cbn; auto.
Qed.

Lemma if_write_ok E s a n b s' w :
  0 <= a -> 0 <= n -> zlen (if_raw s) < 2 ^ 64 ->
  port_write E fixed s KIf a n b = (s', GOk w) ->
  w = n /\ if_open s = true /\ a + n <= zlen (if_raw s) /\ all_writable (if_layout E) a (a + n) /\
  if_raw s' = splice (if_raw s) a (b tt) /\ sys_raw s' = sys_raw s.
Proof.
  intros Ha Hn Hsz. unfold port_write. destruct (if_open s); cbn [negb]; [|discriminate].
  pose proof (@write_raw_safe iev (if_layout E) if_obs (if_raw s) a n b Ha Hn Hsz) as W.
  destruct (write_raw fixed (if_layout E) if_obs (if_raw s) a n b) as [[raw' evs]|e0|];
    [|discriminate|discriminate].
  destruct W as (W1 & W2 & W3 & W4).
  pose proof (if_events_raw fixed (if_evq s ++ evs) raw') as R.
  destruct (if_handle_events fixed (if_evq s ++ evs) raw') as [[raw'' q] [u|e|]];
    intros H; inv H. cbn in R. subst raw''. cbn. auto 8.
Qed.

Lemma sys_write_ok E s a n b s' w :
  0 <= a -> 0 <= n -> zlen (sys_raw s) < 2 ^ 64 ->
  port_write E fixed s KSys a n b = (s', GOk w) ->
  w = n /\ a + n <= zlen (sys_raw s) /\ all_writable (sys_layout E) a (a + n) /\ if_raw s' = if_raw s.
Proof.
  intros Ha Hn Hsz. unfold port_write.
  pose proof (@write_raw_safe sev (sys_layout E) sys_obs (sys_raw s) a n b Ha Hn Hsz) as W.
  destruct (write_raw fixed (sys_layout E) sys_obs (sys_raw s) a n b) as [[raw' evs]|e0|];
    [|discriminate|discriminate].
  destruct W as (W1 & W2 & W3 & W4).
  destruct (sys_handle_events (sys_evq s ++ evs) raw') as [[raw'' q] [u|e|]];
    intros H; inv H. cbn. auto.
Qed.

Lemma port_read_k_no_panic E s k a n : port_read_k E fixed s k a n <> GPanic.
Proof.
  unfold port_read_k. destruct k; [apply port_read_no_panic|].
  destruct (if_open s); cbn [negb]; [apply port_read_no_panic|congruence].
Qed.

Lemma read_stacked_some E s k ents : forall cnt, read_stacked E fixed s k ents cnt <> None.
Proof.
  induction ents as [|[a n] r IH]; intros cnt; cbn [read_stacked]; [congruence|].
  pose proof (port_read_k_no_panic E s k a n).
  destruct (port_read_k E fixed s k a n); [|congruence|congruence].
  specialize (IH (cnt + 1)). destruct (read_stacked E fixed s k r (cnt + 1)) as [[[c e] o]|]; congruence.
Qed.

Lemma write_stacked_some E k ents : forall s cnt, write_stacked E fixed s k ents cnt <> None.
Proof.
  induction ents as [|[a bs] r IH]; intros s cnt; cbn [write_stacked]; [congruence|].
  pose proof (port_write_no_panic E s k a (zlen bs) (fun _ => bs)).
  destruct (port_write E fixed s k a (zlen bs) (fun _ => bs)) as [s' [w|e|]]; cbn in *;
    [apply IH|congruence|congruence].
Qed.

Lemma write_stacked_ctl E v k ents : forall s cnt s' c e,
  write_stacked E v s k ents cnt = Some (s', c, e) -> same_ctl s s'.
Proof.
  induction ents as [|[a bs] r IH]; intros s cnt s' c e; cbn [write_stacked].
  - intros H; inv H. apply same_ctl_refl.
  - destruct (port_write E v s k a (zlen bs) (fun _ => bs)) as [s1 [w|e1|]] eqn:HW;
      [| |discriminate]; apply port_write_ctl in HW.
    + intros H. apply IH in H. eapply same_ctl_trans; eassumption.
    + intros H; inv H. assumption.
Qed.

(* ---- what a function body may change ---- *)
Ltac break_body H :=
  repeat (first
    [ match type of H with info_out _ _ _ = Some _ => apply info_out_state in H; subst end
    | match type of H with str_out _ _ _ = Some _ => apply str_out_state in H; subst end
    | match type of H with Some _ = Some _ => inv H end
    | match type of H with None = Some _ => discriminate H end
    | match type of H with context [match ?x with _ => _ end] => destruct x eqn:? end ]).

Definition changes_init (c : api_call) := c = GCInitLib \/ c = GCCloseLib.
Definition changes_sys (c : api_call) := c = TLOpen \/ exists h, c = TLClose h.
Definition changes_if (c : api_call) :=
  (exists h id, c = TLOpenInterface h id) \/ (exists h, c = TLClose h) \/ exists h, c = IFClose h.

Lemma body_frame E v s t c r s' e o :
  body E v s t c r = Some (s', e, o) ->
  last_error s' = last_error s /\
  (lib_init s' = lib_init s \/ changes_init c) /\
  (sys_open s' = sys_open s \/ changes_sys c) /\
  (if_open s' = if_open s \/ changes_if c).
Proof.
  unfold changes_init, changes_sys, changes_if.
  destruct c; unfold body; intros H;
  try (break_body H; cbn; repeat split; eauto 6; fail).
  - (* GCWritePort *)
    destruct (as_port r) as [k| |]; [|inv H; cbn; auto|discriminate].
    destruct (port_write E v s k addr (zlen data + extra) (fun _ => data ++ zeros extra))
      as [s1 [w|e1|]] eqn:HW; [| |discriminate]; apply port_write_ctl in HW;
      destruct HW as (A & B & C & D & F); inv H; auto.
  - (* GCWritePortStacked *)
    destruct (as_port r) as [k| |]; [|inv H; cbn; auto|discriminate].
    destruct (write_stacked E v s k ents 0) as [[[s1 c1] e1]|] eqn:HW; [|discriminate].
    apply write_stacked_ctl in HW. destruct HW as (A & B & C & D & F). inv H; auto.
Qed.

(* ---- one call ---- *)
Definition resolve (s : state) (c : api_call) : option href :=
  match handle_of c with Some h => lookup s h | None => Some HNull end.

Lemma step_unfold E v s t c :
  step E v s t c =
  match resolve s c with
  | None => Some (s, Skipped)
  | Some r =>
      if (match c with GCInitLib => false | _ => true end) && negb (lib_init s)
      then Some (set_err s t ENotInitialized, Made (code_of ENotInitialized) (untouched c))
      else match body E v s t c r with
           | None => None
           | Some (s', None, o) => Some (s', Made 0 o)
           | Some (s', Some e, o) => Some (set_err s' t e, Made (code_of e) o)
           end
  end.
Proof. reflexivity. Qed.

(* C19_not_initialized, one call *)
Lemma step_not_initialized E v s t c :
  lib_init s = false -> c <> GCInitLib ->
  step E v s t c = Some (s, Skipped) \/
  step E v s t c = Some (set_err s t ENotInitialized, Made (-1002) (untouched c)).
Proof.
  intros Hi Hc. rewrite step_unfold. destruct (resolve s c); [|auto].
  rewrite Hi. right. destruct c; try congruence; reflexivity.
Qed.

Lemma step_frame E v s t c s' x :
  step E v s t c = Some (s', x) ->
  (lib_init s' = lib_init s \/ changes_init c) /\
  (sys_open s' = sys_open s \/ changes_sys c) /\
  (if_open s' = if_open s \/ changes_if c).
Proof.
  rewrite step_unfold. destruct (resolve s c) as [r|]; [|intros H; inv H; auto].
  destruct (_ && _); [intros H; inv H; cbn; auto|].
  destruct (body E v s t c r) as [[[s1 e] o]|] eqn:B; [|discriminate].
  apply body_frame in B. destruct B as (_ & B1 & B2 & B3).
  destruct e; intros H; inv H; cbn; auto.
Qed.

Definition fails (x : result) : option Z :=
  match x with Made c _ => if c =? 0 then None else Some c | Skipped => None end.

(* C19_last_error, one call: the thread's last error becomes the failing call's code and is
   otherwise untouched; other threads are never affected *)
Lemma step_last_error E v s t c s' x :
  step E v s t c = Some (s', x) ->
  forall u, option_map code_of (last_error s' u) =
            if Nat.eqb u t
            then match fails x with Some k => Some k | None => option_map code_of (last_error s u) end
            else option_map code_of (last_error s u).
Proof.
  rewrite step_unfold. destruct (resolve s c) as [r|].
  2:{ intros H; inv H. intros u. cbn. destruct (Nat.eqb u t); reflexivity. }
  destruct (_ && _).
  { intros H; inv H. intros u. cbn. destruct (Nat.eqb u t); reflexivity. }
  destruct (body E v s t c r) as [[[s1 e] o]|] eqn:B; [|discriminate].
  apply body_frame in B. destruct B as (B0 & _).
  destruct e as [e|]; intros H; inv H; intros u; cbn [fails set_err last_error].
  - rewrite code_nonzero. destruct (Nat.eqb u t); [reflexivity|now rewrite B0].
  - cbn. rewrite B0. destruct (Nat.eqb u t); reflexivity.
Qed.

Lemma is_ascii_app a b : is_ascii (a ++ b) = is_ascii a && is_ascii b.
Proof. unfold is_ascii. apply forallb_app. Qed.

(* GCGetLastError reports it *)
Lemma get_last_error E v s t d :
  lib_init s = true ->
  let text := match last_error s t with Some e => err_text e | None => zs "No Error" end in
  is_ascii text = true ->
  (d = DNull \/ exists cap, d = DBuf cap /\ zlen text < cap) ->
  step E v s t (GCGetLastError d) =
  Some (s, Made 0 [match last_error s t with Some e => code_of e | None => 0 end; 1]).
Proof.
  intros Hi text Ha Hd. rewrite step_unfold. cbn [resolve handle_of]. rewrite Hi. cbn [negb andb].
  unfold body. subst text.
  destruct (last_error s t) as [e|]; unfold str_copy_to; rewrite Ha;
    (destruct Hd as [->|(cap & -> & Hc)]; [reflexivity|]);
    rewrite copy_to_fits by (rewrite zlen_app, zlen_cons, zlen_nil; lia); reflexivity.
Qed.

(* ---- call sequences ---- *)
Lemma exec_cons E v s t c cs :
  exec E v s ((t, c) :: cs) =
  match step E v s t c with
  | None => None
  | Some (s', x) => match exec E v s' cs with Some (s'', xs) => Some (s'', x :: xs) | None => None end
  end.
Proof. reflexivity. Qed.

Definition not_init_result (x : result) : Prop := x = Skipped \/ exists o, x = Made (-1002) o.

(* C19_not_initialized for all call sequences *)
Lemma exec_not_initialized E v : forall cs s,
  lib_init s = false -> Forall (fun tc => snd tc <> GCInitLib) cs ->
  exists s' xs, exec E v s cs = Some (s', xs) /\ lib_init s' = false /\ Forall not_init_result xs.
Proof.
  induction cs as [|[t c] cs IH]; intros s Hi Hc.
  - exists s, []. repeat split; auto.
  - inv Hc. cbn [snd] in H1. rewrite exec_cons.
    destruct (step_not_initialized E v s t c Hi H1) as [St|St]; rewrite St.
    + destruct (IH s Hi H2) as (s' & xs & Ex & Li & F). rewrite Ex.
      exists s', (Skipped :: xs). repeat split; auto. constructor; [left; reflexivity|assumption].
    + destruct (IH (set_err s t ENotInitialized) Hi H2) as (s' & xs & Ex & Li & F). rewrite Ex.
      eexists s', (_ :: xs). repeat split; auto. constructor; [right; eexists; reflexivity|assumption].
Qed.

Lemma closelib_uninit E v s t s' o :
  step E v s t GCCloseLib = Some (s', Made 0 o) -> lib_init s' = false.
Proof.
  rewrite step_unfold. cbn [resolve handle_of]. destruct (lib_init s) eqn:Hi; cbn [negb andb].
  - unfold body. rewrite Hi. intros H; inv H. reflexivity.
  - intros H; inv H.
Qed.

Fixpoint last_fail (t : nat) (prev : option Z) (cs : list (nat * api_call)) (xs : list result) : option Z :=
  match cs, xs with
  | (u, _) :: cs', x :: xs' =>
      last_fail t (if Nat.eqb t u then match fails x with Some k => Some k | None => prev end else prev) cs' xs'
  | _, _ => prev
  end.

(* C19_last_error for all call sequences *)
Lemma exec_last_error E v : forall cs s s' xs,
  exec E v s cs = Some (s', xs) ->
  forall t, option_map code_of (last_error s' t) = last_fail t (option_map code_of (last_error s t)) cs xs.
Proof.
  induction cs as [|[u c] cs IH]; intros s s' xs.
  - intros H; inv H. reflexivity.
  - rewrite exec_cons. destruct (step E v s u c) as [[s1 x]|] eqn:St; [|discriminate].
    destruct (exec E v s1 cs) as [[s2 xs1]|] eqn:Ex; [|discriminate].
    intros H; inv H. intros t. cbn [last_fail].
    rewrite (IH _ _ _ Ex t). f_equal. apply (step_last_error _ _ _ _ _ _ _ St t).
Qed.

(* ---- open / close ---- *)
Lemma tlopen_in_use E v s t :
  lib_init s = true -> sys_open s = true ->
  step E v s t TLOpen = Some (set_err s t EResourceInUse, Made (-1004) [-1]).
Proof.
  intros Hi Ho. rewrite step_unfold. cbn [resolve handle_of]. rewrite Hi. cbn [negb andb].
  unfold body. rewrite Ho. reflexivity.
Qed.

Lemma tlopen_ok E v s t :
  lib_init s = true -> sys_open s = false ->
  exists s', step E v s t TLOpen = Some (s', Made 0 [zlen (handles s)]) /\
             sys_open s' = true /\ lib_init s' = true /\ if_open s' = if_open s /\
             lookup s' (zlen (handles s)) = Some (HLive (List.length (handles s)) KSys).
Proof.
  intros Hi Ho. rewrite step_unfold. cbn [resolve handle_of]. rewrite Hi. cbn [negb andb].
  unfold body. rewrite Ho. eexists. split; [reflexivity|]. cbn [sys_open lib_init if_open set_open].
  repeat split; try assumption.
  unfold lookup. cbn [handles set_open]. pose proof (zlen_nonneg (handles s)).
  destruct (Z.eqb_spec (zlen (handles s)) (-1)); [lia|].
  destruct (Z.ltb_spec (zlen (handles s)) 0); [lia|].
  unfold zlen. rewrite Nat2Z.id. rewrite nth_error_app2 by lia. rewrite Nat.sub_diag. reflexivity.
Qed.

Lemma made_ok_init E v s t c s' o :
  step E v s t c = Some (s', Made 0 o) -> c <> GCInitLib -> lib_init s = true.
Proof.
  rewrite step_unfold. destruct (resolve s c); [|discriminate].
  destruct (lib_init s); [reflexivity|]. cbn [negb]. rewrite andb_true_r.
  destruct c; try congruence; discriminate.
Qed.

Lemma tlclose_ok E s t h s' o :
  step E fixed s t (TLClose h) = Some (s', Made 0 o) ->
  lib_init s' = true /\ sys_open s' = false /\ if_open s' = false.
Proof.
  intros H. pose proof (made_ok_init _ _ _ _ _ _ _ H ltac:(discriminate)) as Hi.
  revert H. rewrite step_unfold. destruct (resolve s (TLClose h)) as [r|]; [|discriminate].
  rewrite Hi. cbn [negb andb]. unfold body.
  destruct (as_kind KSys r) as [i|e|]; [|intros H; inv H; pose proof (code_nonzero e); lia|discriminate].
  destruct (sys_open s); intros H; inv H. cbn. auto.
Qed.

Lemma ifclose_ok E v s t h s' o :
  step E v s t (IFClose h) = Some (s', Made 0 o) -> lib_init s' = true /\ if_open s' = false.
Proof.
  intros H. pose proof (made_ok_init _ _ _ _ _ _ _ H ltac:(discriminate)) as Hi.
  revert H. rewrite step_unfold. destruct (resolve s (IFClose h)) as [r|]; [|discriminate].
  rewrite Hi. cbn [negb andb]. unfold body.
  destruct (as_kind KIf r) as [i|e|]; [|intros H; inv H; pose proof (code_nonzero e); lia|discriminate].
  intros H; inv H. cbn. auto.
Qed.

Lemma step_init_stays E v s t c s' x :
  step E v s t c = Some (s', x) -> c <> GCCloseLib -> lib_init s = true -> lib_init s' = true.
Proof.
  intros H Hc Hi. destruct (step_frame _ _ _ _ _ _ _ H) as ([A|[A|A]] & _); try congruence.
  subst c. revert H. rewrite step_unfold. cbn [resolve handle_of andb]. unfold body. rewrite Hi.
  intros H; inv H. assumption.
Qed.

Lemma step_sys_closed_stays E s t c s' x :
  step E fixed s t c = Some (s', x) -> c <> TLOpen -> sys_open s = false -> sys_open s' = false.
Proof.
  intros H Hc Ho. destruct (step_frame _ _ _ _ _ _ _ H) as (_ & [A|[A|(h & A)]] & _); try congruence.
  subst c. revert H. rewrite step_unfold. destruct (resolve s (TLClose h)) as [r|]; [|intros H; inv H; auto].
  destruct (_ && _); [intros H; inv H; auto|]. unfold body.
  destruct (as_kind KSys r); [|intros H; inv H; auto|discriminate].
  rewrite Ho. intros H; inv H. assumption.
Qed.

Lemma step_if_closed_stays E v s t c s' x :
  step E v s t c = Some (s', x) -> (forall h id, c <> TLOpenInterface h id) ->
  if_open s = false -> if_open s' = false.
Proof.
  intros H Hc Ho.
  destruct (step_frame _ _ _ _ _ _ _ H) as (_ & _ & [A|[(h & id & A)|[(h & A)|(h & A)]]]).
  - congruence.
  - exfalso; eapply Hc; eassumption.
  - subst c; revert H; rewrite step_unfold.
    destruct (resolve s (TLClose h)) as [r|]; [|intros H; inv H; auto].
    destruct (_ && _); [intros H; inv H; auto|]. unfold body.
    destruct (as_kind KSys r); [|intros H; inv H; auto|discriminate].
    destruct (sys_open s); intros H; inv H; auto.
  - subst c; revert H; rewrite step_unfold.
    destruct (resolve s (IFClose h)) as [r|]; [|intros H; inv H; auto].
    destruct (_ && _); [intros H; inv H; auto|]. unfold body.
    destruct (as_kind KIf r); intros H; inv H; auto.
Qed.

(* C19_open_close, system module, all interleavings *)
Lemma reopen_system E : forall cs s1 s2 xs t,
  lib_init s1 = true -> sys_open s1 = false ->
  Forall (fun tc => snd tc <> TLOpen /\ snd tc <> GCCloseLib) cs ->
  exec E fixed s1 cs = Some (s2, xs) ->
  exists s3, step E fixed s2 t TLOpen = Some (s3, Made 0 [zlen (handles s2)]) /\ sys_open s3 = true.
Proof.
  induction cs as [|[u c] cs IH]; intros s1 s2 xs t Hi Ho Hc.
  - intros H; inv H. destruct (tlopen_ok E fixed s2 t Hi Ho) as (s3 & A & B & _). eauto.
  - inv Hc. cbn [snd] in H1. destruct H1 as [C1 C2]. rewrite exec_cons.
    destruct (step E fixed s1 u c) as [[sa x]|] eqn:St; [|discriminate].
    destruct (exec E fixed sa cs) as [[sb xs1]|] eqn:Ex; [|discriminate].
    intros H; inv H. eapply IH; [ | |eassumption|eassumption].
    + eapply step_init_stays; eassumption.
    + eapply step_sys_closed_stays; eassumption.
Qed.

Lemma open_interface_ok E v s t h i :
  lib_init s = true -> if_open s = false -> lookup s h = Some (HLive i KSys) ->
  exists s', step E v s t (TLOpenInterface h IF_ID) = Some (s', Made 0 [zlen (handles s)]) /\
             if_open s' = true.
Proof.
  intros Hi Ho Hl. rewrite step_unfold. cbn [resolve handle_of]. rewrite Hl, Hi. cbn [negb andb].
  unfold body. cbn [as_kind gbind].
  destruct (list_eq_dec Z.eq_dec IF_ID IF_ID); [|congruence]. rewrite Ho.
  eexists; split; reflexivity.
Qed.

Lemma open_interface_in_use E v s t h i :
  lib_init s = true -> if_open s = true -> lookup s h = Some (HLive i KSys) ->
  step E v s t (TLOpenInterface h IF_ID) = Some (set_err s t EResourceInUse, Made (-1004) [-1]).
Proof.
  intros Hi Ho Hl. rewrite step_unfold. cbn [resolve handle_of]. rewrite Hl, Hi. cbn [negb andb].
  unfold body. cbn [as_kind gbind].
  destruct (list_eq_dec Z.eq_dec IF_ID IF_ID); [|congruence]. rewrite Ho. reflexivity.
Qed.

Lemma reopen_interface E : forall cs s1 s2 xs t h i,
  lib_init s1 = true -> if_open s1 = false ->
  Forall (fun tc => (forall h id, snd tc <> TLOpenInterface h id) /\ snd tc <> GCCloseLib) cs ->
  exec E fixed s1 cs = Some (s2, xs) ->
  lookup s2 h = Some (HLive i KSys) ->
  exists s3, step E fixed s2 t (TLOpenInterface h IF_ID) = Some (s3, Made 0 [zlen (handles s2)]) /\
             if_open s3 = true.
Proof.
  induction cs as [|[u c] cs IH]; intros s1 s2 xs t h i Hi Ho Hc.
  - intros H Hl; inv H. eapply open_interface_ok; eassumption.
  - inv Hc. cbn [snd] in H1. destruct H1 as [C1 C2]. rewrite exec_cons.
    destruct (step E fixed s1 u c) as [[sa x]|] eqn:St; [|discriminate].
    destruct (exec E fixed sa cs) as [[sb xs1]|] eqn:Ex; [|discriminate].
    intros H Hl; inv H. eapply IH; [ | |eassumption|eassumption|eassumption].
    + eapply step_init_stays; eassumption.
    + eapply step_if_closed_stays; eassumption.
Qed.

(* ---- no call of the repaired code aborts the process ---- *)
Lemma body_fixed_some E s t c r : body E fixed s t c r <> None.
Proof.
  destruct (has_dst c) eqn:HD.
  - destruct c; try (cbn [has_dst] in HD; discriminate HD);
      (destruct (api_buffer_protocol E fixed s t _ r HD) as [(q & Q & B)|(q & Q & B)];
       specialize (B d); cbn [set_dst] in B; rewrite B;
       [apply info_out_some | apply str_out_some]; assumption).
  - destruct c; cbn [has_dst] in HD; try discriminate; unfold body;
      cbn [v_enum_error v_close_resets fixed];
      try (destruct r as [|i [|]]; cbn [as_kind as_port gbind port_ready];
           repeat match goal with
                  | |- context [list_eq_dec ?a ?b ?c] => destruct (list_eq_dec a b c)
                  | |- context [if_open ?s] => destruct (if_open s)
                  | |- context [sys_open ?s] => destruct (sys_open s)
                  | |- context [lib_init ?s] => destruct (lib_init s)
                  | |- context [match ?x with _ => _ end] => destruct x
                  end; cbn [gbind]; congruence).
    + (* GCGetLastError *)
      destruct (last_error s t); cbv beta iota;
        match goal with |- context [str_copy_to ?x ?d] =>
          pose proof (str_copy_no_panic x d); destruct (str_copy_to x d) end; congruence.
    + (* GCReadPort *)
      destruct r as [|i k]; cbn [as_port gbind]; try congruence.
      pose proof (port_read_k_no_panic E s k addr size).
      destruct (port_read_k E fixed s k addr size); congruence.
    + (* GCWritePort *)
      destruct r as [|i k]; cbn [as_port gbind]; try congruence.
      pose proof (port_write_no_panic E s k addr (zlen data + extra) (fun _ => data ++ zeros extra)).
      destruct (port_write E fixed s k addr (zlen data + extra) (fun _ => data ++ zeros extra))
        as [s1 [w|e|]]; cbn in *; congruence.
    + (* GCReadPortStacked *)
      destruct r as [|i k]; cbn [as_port gbind]; try congruence.
      pose proof (read_stacked_some E s k ents 0).
      destruct (read_stacked E fixed s k ents 0) as [[[c e] o]|]; congruence.
    + (* GCWritePortStacked *)
      destruct r as [|i k]; cbn [as_port gbind]; try congruence.
      pose proof (write_stacked_some E k ents s 0).
      destruct (write_stacked E fixed s k ents 0) as [[[s1 c] e]|]; congruence.
Qed.

Lemma step_fixed_some E s t c : step E fixed s t c <> None.
Proof.
  rewrite step_unfold. destruct (resolve s c) as [r|]; [|congruence].
  destruct (_ && _); [congruence|].
  pose proof (body_fixed_some E s t c r).
  destruct (body E fixed s t c r) as [[[s' [e|]] o]|]; congruence.
Qed.

Lemma exec_fixed_some E : forall cs s, exec E fixed s cs <> None.
Proof.
  induction cs as [|[t c] cs IH]; intros s; [cbn; congruence|].
  rewrite exec_cons. pose proof (step_fixed_some E s t c).
  destruct (step E fixed s t c) as [[s' x]|]; [|congruence].
  specialize (IH s'). destruct (exec E fixed s' cs) as [[s'' xs]|]; congruence.
Qed.

(* ---- the port functions of the API in terms of the module ports ---- *)
Lemma gc_read_port E v s t h a n i k :
  lib_init s = true -> lookup s h = Some (HLive i k) ->
  step E v s t (GCReadPort h a n) =
  match port_read_k E v s k a n with
  | GOk bs => Some (s, Made 0 ([zlen bs] ++ buf_view (real_cap n) bs ++ [1]))
  | GErr e => Some (set_err s t e, Made (code_of e) ([n] ++ buf_view (real_cap n) [] ++ [1]))
  | GPanic => None
  end.
Proof.
  intros Hi Hl. rewrite step_unfold. cbn [resolve handle_of]. rewrite Hl, Hi. cbn [negb andb].
  unfold body. cbn [as_port gbind]. destruct (port_read_k E v s k a n); reflexivity.
Qed.

Lemma gc_write_port E v s t h a data i k :
  lib_init s = true -> lookup s h = Some (HLive i k) ->
  step E v s t (GCWritePort h a data 0) =
  match port_write E v s k a (zlen data) (fun _ => data) with
  | (s', GOk w) => Some (s', Made 0 [w])
  | (s', GErr e) => Some (set_err s' t e, Made (code_of e) [zlen data])
  | (_, GPanic) => None
  end.
Proof.
  intros Hi Hl. rewrite step_unfold. cbn [resolve handle_of]. rewrite Hl, Hi. cbn [negb andb].
  unfold body. cbn [as_port]. unfold zeros. cbn [Z.to_nat repeat].
  rewrite Z.add_0_r.
  replace (fun _ : unit => data ++ []) with (fun _ : unit => data);
    [|now rewrite app_nil_r].
  destruct (port_write E v s k a (zlen data) (fun _ => data)) as [s' [w|e|]]; reflexivity.
Qed.

Lemma null_handle_invalid E v s t c :
  lib_init s = true -> handle_of c = Some (-1) ->
  exists s' o, step E v s t c = Some (s', Made (-1006) o).
Proof.
  intros Hi Hh. rewrite step_unfold. unfold resolve. rewrite Hh. cbn [lookup Z.eqb].
  rewrite Hi, andb_false_r.
  destruct c; cbn [handle_of] in Hh; try discriminate; unfold body;
    cbn [as_kind as_port gbind info_out str_out]; eexists; eexists; reflexivity.
Qed.

(* ---- the pinned code: concrete failing inputs ---- *)
Definition E0 : env := {| e_path := zs "/r/gentl/src/imp/system/mod.rs"; e_sys_xml := zs "<a/>";
                          e_if_xml := zs "<b/>" |}.
Definition results (v : ver) (cs : list (nat * api_call)) : option (list result) :=
  option_map snd (exec E0 v (init_state E0) cs).

(* TLOpen; TLClose; TLOpen: the system module can never be opened again *)
Lemma open_close_pinned_refuted :
  results pinned [(0%nat, GCInitLib); (0%nat, TLOpen); (0%nat, TLClose 0); (0%nat, TLOpen)] =
  Some [Made 0 []; Made 0 [0]; Made 0 []; Made (-1004) [-1]].
Proof. vm_compute. reflexivity. Qed.
Lemma open_close_fixed_witness :
  results fixed [(0%nat, GCInitLib); (0%nat, TLOpen); (0%nat, TLClose 0); (0%nat, TLOpen)] =
  Some [Made 0 []; Made 0 [0]; Made 0 []; Made 0 [1]].
Proof. vm_compute. reflexivity. Qed.

(* port reads that abort the process: end address overflow, empty range beyond the map *)
Lemma port_read_pinned_refuted :
  results pinned [(0%nat, GCInitLib); (0%nat, TLOpen); (0%nat, GCReadPort 0 (2 ^ 64 - 1) 4)] = None /\
  results pinned [(0%nat, GCInitLib); (0%nat, TLOpen); (0%nat, GCReadPort 0 100000 0)] = None /\
  results pinned [(0%nat, GCInitLib); (0%nat, TLOpen); (0%nat, GCWritePort 0 (2 ^ 64 - 1) [1; 2] 0)] = None.
Proof. vm_compute. repeat split. Qed.
Lemma port_read_fixed_witness :
  results fixed [(0%nat, GCInitLib); (0%nat, TLOpen); (0%nat, GCReadPort 0 (2 ^ 64 - 1) 4);
                 (0%nat, GCReadPort 0 100000 0); (0%nat, GCWritePort 0 (2 ^ 64 - 1) [1; 2] 0)] =
  Some [Made 0 []; Made 0 [0]; Made (-1015) [4; 165; 165; 165; 165; 1]; Made (-1015) [0; 1];
        Made (-1015) [2]].
Proof. vm_compute. reflexivity. Qed.

(* device enumeration is todo!(): IFUpdateDeviceList and a write to DeviceUpdateList abort *)
Lemma enumerate_pinned_refuted :
  results pinned [(0%nat, GCInitLib); (0%nat, TLOpen); (0%nat, TLOpenInterface 0 IF_ID);
                  (0%nat, IFUpdateDeviceList 1)] = None /\
  results pinned [(0%nat, GCInitLib); (0%nat, TLOpen); (0%nat, TLOpenInterface 0 IF_ID);
                  (0%nat, GCWritePort 1 0 [1; 0; 0; 0] 0)] = None.
Proof. vm_compute. split; reflexivity. Qed.
Lemma enumerate_fixed_witness :
  results fixed [(0%nat, GCInitLib); (0%nat, TLOpen); (0%nat, TLOpenInterface 0 IF_ID);
                 (0%nat, IFUpdateDeviceList 1); (0%nat, GCWritePort 1 0 [1; 0; 0; 0] 0)] =
  Some [Made 0 []; Made 0 [0]; Made 0 [1]; Made (-1003) [90]; Made (-1003) [4]].
Proof. vm_compute. reflexivity. Qed.

(* non-vacuity of the sequence theorems: a history with failing calls on two threads *)
Example last_error_example :
  exists s xs, exec E0 fixed (init_state E0)
     [(0%nat, TLOpen); (0%nat, GCInitLib); (1%nat, GCInitLib); (0%nat, TLOpen); (1%nat, GCGetLastError (DBuf 200))]
     = Some (s, xs) /\
  xs = [Made (-1002) [-1]; Made 0 []; Made (-1004) []; Made 0 [0]; Made 0 [-1004; 1]] /\
  option_map code_of (last_error s 0%nat) = Some (-1002) /\
  option_map code_of (last_error s 1%nat) = Some (-1004).
Proof. eexists; eexists. split; [vm_compute; reflexivity|]. vm_compute. repeat split. Qed.

(* ---- the statements of props/C19.v that combine lemmas above ---- *)
Lemma not_initialized_states E v s t s' o :
  lib_init (init_state E) = false /\
  (step E v s t GCCloseLib = Some (s', Made 0 o) -> lib_init s' = false).
Proof. split; [reflexivity | apply closelib_uninit]. Qed.

Lemma open_close E s t h s1 o cs s2 xs t' :
  step E fixed s t (TLClose h) = Some (s1, Made 0 o) ->
  Forall (fun tc => snd tc <> TLOpen /\ snd tc <> GCCloseLib) cs ->
  exec E fixed s1 cs = Some (s2, xs) ->
  sys_open s1 = false /\ if_open s1 = false /\
  exists s3, step E fixed s2 t' TLOpen = Some (s3, Made 0 [zlen (handles s2)]) /\ sys_open s3 = true.
Proof.
  intros H F X. destruct (tlclose_ok _ _ _ _ _ _ H) as (A & B & C).
  repeat split; try assumption. eapply reopen_system; eassumption.
Qed.

Lemma reopen_interface_after_close E s t hi s1 o cs s2 xs t' h i :
  step E fixed s t (IFClose hi) = Some (s1, Made 0 o) ->
  Forall (fun tc => (forall h id, snd tc <> TLOpenInterface h id) /\ snd tc <> GCCloseLib) cs ->
  exec E fixed s1 cs = Some (s2, xs) ->
  lookup s2 h = Some (HLive i KSys) ->
  exists s3, step E fixed s2 t' (TLOpenInterface h IF_ID) = Some (s3, Made 0 [zlen (handles s2)]) /\
             if_open s3 = true.
Proof.
  intros H F X L. destruct (ifclose_ok _ _ _ _ _ _ _ H) as (A & B).
  eapply reopen_interface; eassumption.
Qed.

Lemma buffer_view s cap i :
  ascii_ok i ->
  info_out s (DBuf cap) (GOk i) =
    (if cap <? need i then Some (s, Some EBufferTooSmall, [-77; cap] ++ repeat FILL (Z.to_nat cap) ++ [1])
     else Some (s, None, [info_type i; need i] ++ (info_bytes i ++ repeat FILL (Z.to_nat (cap - need i))) ++ [1])).
Proof.
  intros A. rewrite (info_out_ok s (DBuf cap) i A). destruct (cap <? need i); [|reflexivity].
  unfold info_untouched, dst_view, buf_view, dst_size0. rewrite zlen_nil, Z.sub_0_r. reflexivity.
Qed.

Lemma module_write E s k a n b s' e :
  port_write E fixed s k a n b = (s', GErr e) ->
  In e [EInvalidAddress; EAccessDenied; ENotInitialized; EInvalidIndex; ENotImplemented] /\
  (e = EInvalidAddress \/ e = EAccessDenied \/ e = ENotInitialized -> s' = s).
Proof.
  intros. split; [eapply port_write_codes; eassumption | eapply port_write_refused; eassumption].
Qed.

Lemma write_raw_safe_any (Ev : Type) (L : layout) (obs : list (Z * Z * Ev)) raw a n bytes :
  0 <= a -> 0 <= n -> zlen raw < 2 ^ 64 ->
  match write_raw fixed L obs raw a n bytes with
  | GOk (raw', evs) => a + n <= zlen raw /\ all_writable L a (a + n) /\
                       raw' = splice raw a (bytes tt) /\ evs = notify fixed obs a (a + n)
  | GErr e => (e = EInvalidAddress /\ zlen raw < a + n) \/
              (e = EAccessDenied /\ a + n <= zlen raw /\ ~ all_writable L a (a + n))
  | GPanic => False
  end.
Proof. intros. apply write_raw_safe; assumption. Qed.

(* ---- the system module's image after a successful write ---- *)
Definition IFID_REG := pad 64 IF_ID.

Lemma zlen_ifid_reg : zlen IFID_REG = 64.
Proof. vm_compute. reflexivity. Qed.

Lemma splice_idem raw a bs :
  0 <= a -> a + zlen bs <= zlen raw -> splice (splice raw a bs) a bs = splice raw a bs.
Proof.
  intros Ha Hin. pose proof (zlen_nonneg bs). unfold splice at 1.
  rewrite take_splice, drop_splice by lia. reflexivity.
Qed.

Definition fix_id (raw : list Z) : list Z := splice raw 1036 IFID_REG.

Lemma sys_events_image q : forall raw,
  1100 <= zlen raw ->
  let raw' := fst (fst (sys_handle_events q raw)) in raw' = raw \/ raw' = fix_id raw.
Proof.
  induction q as [|ev q IH]; intros raw Hz; cbn [sys_handle_events]; [left; reflexivity|].
  destruct ev; [apply IH; assumption|].
  unfold sys_selector_change. destruct (1 <=? of_le (slice raw 1028 1032)); [left; reflexivity|].
  fold IFID_REG. fold (fix_id raw).
  assert (Z1 : zlen (fix_id raw) = zlen raw).
  { unfold fix_id. apply zlen_splice; rewrite ?zlen_ifid_reg; lia. }
  destruct (IH (fix_id raw) ltac:(lia)) as [A|A]; cbv zeta in A |- *; rewrite A; [right; reflexivity|].
  right. unfold fix_id. apply splice_idem; rewrite ?zlen_ifid_reg; lia.
Qed.

(* the only writable bytes of the system map are the InterfaceSelector register *)
Lemma sys_writable_at E i : is_writable (right_at (sys_layout E) i) = true -> 1028 <= i < 1032.
Proof.
  unfold sys_layout, right_at, SYS_XML_ADDR.
  repeat match goal with
         | |- context [if ?c then _ else _] => destruct c eqn:?
         end; cbn [is_writable]; try discriminate; intros _; lia.
Qed.

Lemma slice_splice_before raw p bs s e :
  0 <= s -> s <= e -> e <= p -> p <= zlen raw -> slice (splice raw p bs) s e = slice raw s e.
Proof.
  intros Hs He Hp Hz. unfold slice, splice, take, drop.
  assert (L : List.length (firstn (Z.to_nat p) raw) = Z.to_nat p).
  { rewrite firstn_length. unfold zlen in Hz. lia. }
  rewrite skipn_app, L, firstn_app, skipn_length, L.
  replace (Z.to_nat s - Z.to_nat p)%nat with 0%nat by lia.
  replace (Z.to_nat (e - s) - (Z.to_nat p - Z.to_nat s))%nat with 0%nat by lia.
  cbn [skipn firstn]. rewrite app_nil_r.
  rewrite <- (firstn_skipn (Z.to_nat p) raw) at 2.
  rewrite skipn_app, L, firstn_app, skipn_length, L.
  replace (Z.to_nat s - Z.to_nat p)%nat with 0%nat by lia.
  replace (Z.to_nat (e - s) - (Z.to_nat p - Z.to_nat s))%nat with 0%nat by lia.
  cbn [skipn firstn]. now rewrite app_nil_r.
Qed.

(* a successful write to the system port stored exactly the caller's bytes, in the selector
   register, and the only other effect is the handler's refresh of the InterfaceID register *)
Lemma sys_write_image E s a n b s' w :
  0 <= a -> 0 < n -> zlen (b tt) = n -> 1100 <= zlen (sys_raw s) < 2 ^ 64 ->
  port_write E fixed s KSys a n b = (s', GOk w) ->
  let W := splice (sys_raw s) a (b tt) in
  1028 <= a /\ a + n <= 1032 /\
  (sys_raw s' = W \/ sys_raw s' = fix_id W) /\
  zlen (sys_raw s') = zlen (sys_raw s) /\ slice (sys_raw s') a (a + n) = b tt.
Proof.
  intros Ha Hn Hb Hsz. unfold port_write.
  pose proof (@write_raw_safe sev (sys_layout E) sys_obs (sys_raw s) a n b Ha ltac:(lia) ltac:(lia)) as WS.
  destruct (write_raw fixed (sys_layout E) sys_obs (sys_raw s) a n b) as [[raw' evs]|e0|];
    [|discriminate|discriminate].
  destruct WS as (W1 & W2 & W3 & W4). subst raw'.
  assert (R1 : 1028 <= a).
  { assert (X : a <= a < a + n) by lia. pose proof (sys_writable_at E _ (W2 _ X)). lia. }
  assert (R2 : a + n <= 1032).
  { assert (X : a <= a + n - 1 < a + n) by lia. pose proof (sys_writable_at E _ (W2 _ X)). lia. }
  assert (ZW : zlen (splice (sys_raw s) a (b tt)) = zlen (sys_raw s)) by (apply zlen_splice; lia).
  pose proof (sys_events_image (sys_evq s ++ evs) (splice (sys_raw s) a (b tt)) ltac:(lia)) as EV.
  destruct (sys_handle_events (sys_evq s ++ evs) (splice (sys_raw s) a (b tt))) as [[raw'' q] [u|e|]];
    intros H; try discriminate H; injection H as <- <-. cbn [fst sys_raw set_sys_mem] in *. cbv zeta in *.
  repeat split; try assumption.
  - destruct EV as [->| ->]; [assumption|]. unfold fix_id. rewrite zlen_splice; rewrite ?zlen_ifid_reg; lia.
  - destruct EV as [->| ->].
    + rewrite <- Hb. apply slice_splice. lia.
    + unfold fix_id. rewrite slice_splice_before by lia. rewrite <- Hb. apply slice_splice. lia.
Qed.
