(* C15, read-back of one register on a conforming device; uses the transaction lemmas of proofs/P_C06.v
   (ctl_read_exact, ctl_write_exact, range_in_after_write, wrapu16_range). *)
From Cam Require Import Outcome Bytes Chunks Cmd Ack CmdLayout Control P_C09 P_C06 P_C15.

Lemma rd_set_same o (m d : list Z) : 0 <= o -> o + zlen d <= zlen m ->
  take (zlen d) (drop o (set_at o m d)) = d.
Proof.
  intros H0 H1. pose proof (zlen_nonneg d) as Hd. unfold set_at.
  assert (E : drop o (take o m ++ d ++ drop (o + zlen d) m) = d ++ drop (o + zlen d) m).
  { pose proof (drop_app_exact (take o m) (d ++ drop (o + zlen d) m)) as X.
    rewrite zlen_take in X by lia. exact X. }
  rewrite E. apply take_app_exact.
Qed.

(* C15_params_readback, one register: on a conforming device a 32-bit value written by
   write_register is what read_register returns at that address *)
Lemma write_then_read c w a v pre b m post :
  c_opened c = true -> 12 < c_max_ack c < 2 ^ 32 -> 24 <= c_max_cmd c -> 0 <= c_next c < 2 ^ 16 ->
  1 <= c_retry c -> conf (c_retry c) w ->
  range_in (w_segs w) a 4 pre b m post -> 0 <= a -> a + 4 <= 2 ^ 64 -> 0 <= v < 2 ^ 32 ->
  exists c1 w1 c2 w2,
    write_reg a 4 v (c, w) = (Ok tt, (c1, w1)) /\ read_reg a 4 (c1, w1) = (Ok v, (c2, w2)) /\
    w_segs w2 = pre ++ (b, set_at (a - b) m (le_bytes 4 v)) :: post.
Proof.
  intros Ho Hma Hmc Hid HR Hconf Hri Ha H64 Hv.
  assert (Z4 : zlen (le_bytes 4 v) = 4) by apply zlen_le_bytes.
  destruct (ctl_write_exact c w a (le_bytes 4 v) pre b m post Ho ltac:(lia) Hid HR Hconf (le_bytes_ok 4 v))
    as [c1 [w1 [Hw [Hs [_ [Hconf1 [Hst _]]]]]]]; try (rewrite Z4; assumption); try assumption.
  destruct Hst as [S1 [S2 [S3 [S4 [S5 [S6 _]]]]]].
  pose proof Hri as [Eseg [Hb [_ [He _]]]].
  assert (Hri1 : range_in (w_segs w1) a 4 pre b (set_at (a - b) m (le_bytes 4 v)) post).
  { rewrite Hs. rewrite Eseg in Hri. apply range_in_after_write; [exact Hri|lia|rewrite Z4; lia]. }
  assert (A1 : c_opened c1 = true) by (rewrite S1; exact Ho).
  assert (A2 : 12 < c_max_ack c1 < 2 ^ 32) by (rewrite S5; exact Hma).
  assert (A3 : 24 <= c_max_cmd c1) by (rewrite S4; exact Hmc).
  assert (A4 : 0 <= c_next c1 < 2 ^ 16) by (rewrite S2; apply wrapu16_range).
  assert (A5 : 1 <= c_retry c1) by (rewrite S3; exact HR).
  assert (A6 : conf (c_retry c1) w1) by (rewrite S3; exact Hconf1).
  destruct (ctl_read_exact c1 w1 a 4 pre b (set_at (a - b) m (le_bytes 4 v)) post A1 A2 A3 A4 A5 A6 Hri1 Ha H64)
    as [c2 [w2 [Hr [Hs2 _]]]].
  exists c1, w1, c2, w2. split; [exact Hw|]. split.
  - unfold read_reg, bindM. rewrite Hr. unfold ret. f_equal. f_equal.
    rewrite <- Z4 at 1. rewrite rd_set_same by (rewrite ?Z4; lia).
    apply of_le_le_bytes. rewrite pow256_4. exact Hv.
  - rewrite Hs2. exact Hs.
Qed.
