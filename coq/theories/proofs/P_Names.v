(* Every element / attribute tag of the parser model that has a constant in genapi/src/parser/elem_name.rs IS that
   constant: gen/ElemNames.v is regenerated from the source on every run (tools/translate_names.py); the pairing below
   is by constant NAME and fixed here, so renaming the text of a constant in the source breaks this lemma. *)
From Cam Require Import GenApiParse ElemNames.

Definition model_tags : list str :=
  [T_Node; T_Category; T_Integer; T_IntReg; T_MaskedIntReg; T_Boolean;
   T_Command; T_Enumeration; T_EnumEntry; T_Float; T_FloatReg; T_String;
   T_StringReg; T_Register; T_Converter; T_IntConverter; T_SwissKnife; T_IntSwissKnife;
   T_Port; T_ConfRom; T_TextDesc; T_IntKey; T_AdvFeatureLock; T_SmartFeature;
   T_StructReg; T_StructEntry; T_Group; T_pInvalidator; T_pSelected; T_pFeature;
   T_pVariable; T_pIsImplemented; T_pIsAvailable; T_pIsLocked; T_pBlockPolling; T_pError;
   T_pAlias; T_pCastAlias; T_Streamable; T_PollingTime; T_OnValue; T_OffValue;
   T_NumericValue; T_IsSelfClearing; T_Min; T_pMin; T_Max; T_pMax;
   T_Inc; T_pInc; T_Constant; T_Expression; T_Sign; T_Unit;
   T_Representation; T_DisplayNotation; T_DisplayPrecision; T_Endianess; T_Extension; T_Description;
   T_DisplayName; T_Visibility; T_DocuURL; T_IsDeprecated; T_EventID; T_ImposedAccessMode;
   T_Address; T_pAddress; T_Index; T_pIndex; T_AccessMode; T_Cachable;
   T_Value; T_pValue; T_pValueCopy; T_ValueIndexed; T_pValueIndexed; T_Bit;
   T_Slope; T_IsLinear; T_ChunkID; T_pChunkID; T_SwapEndianess; T_CacheChunkData;
   T_Name; T_NameSpace; T_MergePriority; T_ExposeStatic; T_RegisterDescription; T_ModelName;
   T_VendorName; T_ToolTip; T_StandardNameSpace; T_SchemaMajorVersion; T_SchemaMinorVersion; T_SchemaSubMinorVersion;
   T_MajorVersion; T_MinorVersion; T_SubMinorVersion; T_ProductGuid; T_VersionGuid; T_Offset;
   T_pOffset].

Definition source_tags : list (list Z) :=
  [src_NODE; src_CATEGORY; src_INTEGER; src_INT_REG; src_MASKED_INT_REG; src_BOOLEAN;
   src_COMMAND; src_ENUMERATION; src_ENUM_ENTRY; src_FLOAT; src_FLOAT_REG; src_STRING;
   src_STRING_REG; src_REGISTER; src_CONVERTER; src_INT_CONVERTER; src_SWISS_KNIFE; src_INT_SWISS_KNIFE;
   src_PORT; src_CONF_ROM; src_TEXT_DESC; src_INT_KEY; src_ADV_FEATURE_LOCK; src_SMART_FEATURE;
   src_STRUCT_REG; src_STRUCT_ENTRY; src_GROUP; src_P_INVALIDATOR; src_P_SELECTED; src_P_FEATURE;
   src_P_VARIABLE; src_P_IS_IMPLEMENTED; src_P_IS_AVAILABLE; src_P_IS_LOCKED; src_P_BLOCK_POLLING; src_P_ERROR;
   src_P_ALIAS; src_P_CAST_ALIAS; src_STREAMABLE; src_POLLING_TIME; src_ON_VALUE; src_OFF_VALUE;
   src_NUMERIC_VALUE; src_IS_SELF_CLEARING; src_MIN; src_P_MIN; src_MAX; src_P_MAX;
   src_INC; src_P_INC; src_CONSTANT; src_EXPRESSION; src_SIGN; src_UNIT;
   src_REPRESENTATION; src_DISPLAY_NOTATION; src_DISPLAY_PRECISION; src_ENDIANNESS; src_EXTENSION; src_DESCRIPTION;
   src_DISPLAY_NAME; src_VISIBILITY; src_DOCU_URL; src_IS_DEPRECATED; src_EVENT_ID; src_IMPOSED_ACCESS_MODE;
   src_ADDRESS; src_P_ADDRESS; src_INDEX; src_P_INDEX; src_ACCESS_MODE; src_CACHEABLE;
   src_VALUE; src_P_VALUE; src_P_VALUE_COPY; src_VALUE_INDEXED; src_P_VALUE_INDEXED; src_BIT;
   src_SLOPE; src_IS_LINEAR; src_CHUNK_ID; src_P_CHUNK_ID; src_SWAP_ENDIANNESS; src_CACHE_CHUNK_DATA;
   src_NAME; src_NAME_SPACE; src_MERGE_PRIORITY; src_EXPOSE_STATIC; src_REGISTER_DESCRIPTION; src_MODEL_NAME;
   src_VENDOR_NAME; src_TOOL_TIP; src_STANDARD_NAME_SPCACE; src_SCHEMA_MAJOR_VERSION; src_SCHEMA_MINOR_VERSION; src_SCHEMA_SUB_MINOR_VERSION;
   src_MAJOR_VERSION; src_MINOR_VERSION; src_SUB_MINOR_VERSION; src_PRODUCT_GUID; src_VERSION_GUID; src_OFFSET;
   src_P_OFFSET].

Lemma tags_from_source : model_tags = source_tags.
Proof. reflexivity. Qed.

(* and the pairing covers every constant of the source file *)
Lemma tags_cover_source : length source_tags = length src_all_names.
Proof. reflexivity. Qed.

(* the source's names are pairwise different (two parsers can never confuse two elements) *)
Fixpoint all_distinct (l : list str) : bool :=
  match l with
  | [] => true
  | x :: r => negb (mem_str x r) && all_distinct r
  end.

Lemma source_names_distinct : all_distinct src_all_names = true.
Proof. vm_compute. reflexivity. Qed.

(* ---- text -> variant tables of parser/elem_type.rs -------------------------------------------------------------
   The model's literal tables, with every constructor replaced by the NAME of the Rust variant it stands for, are the
   source's `"text" => Variant` arms, in the source's order. *)
From Coq Require Import String.
Definition with_names {A} (name : A -> string) (t : list (str * A)) : list (list Z * list Z) :=
  map (fun p => (fst p, s2l (name (snd p)))) t.

Definition namespace_rust (x : namespace) : string := match x with NsStandard => "Standard" | NsCustom => "Custom" end.
Definition mergeprio_rust (x : mergeprio) : string := match x with MpHigh => "High" | MpMid => "Mid" | MpLow => "Low" end.
Definition vis_rust (x : vis) : string :=
  match x with VBeginner => "Beginner" | VExpert => "Expert" | VGuru => "Guru" | VInvisible => "Invisible" end.
Definition access_rust (x : access) : string := match x with AmRO => "RO" | AmWO => "WO" | AmRW => "RW" end.
Definition caching_rust (x : caching) : string :=
  match x with CmWriteThrough => "WriteThrough" | CmWriteAround => "WriteAround" | CmNoCache => "NoCache" end.
Definition irep_rust (x : irep) : string :=
  match x with IrLinear => "Linear" | IrLogarithmic => "Logarithmic" | IrBoolean => "Boolean" | IrPureNumber => "PureNumber"
             | IrHexNumber => "HexNumber" | IrIpV4Address => "IpV4Address" | IrMacAddress => "MacAddress" end.
Definition frep_rust (x : frep) : string :=
  match x with FrLinear => "Linear" | FrLogarithmic => "Logarithmic" | FrPureNumber => "PureNumber" end.
Definition slope_rust (x : slope) : string :=
  match x with SlIncreasing => "Increasing" | SlDecreasing => "Decreasing" | SlVarying => "Varying" | SlAutomatic => "Automatic" end.
Definition dnot_rust (x : dnot) : string :=
  match x with DnAutomatic => "Automatic" | DnFixed => "Fixed" | DnScientific => "Scientific" end.
Definition stdns_rust (x : stdns) : string :=
  match x with SnNone => "None" | SnIIDC => "IIDC" | SnGEV => "GEV" | SnCL => "CL" | SnUSB => "USB" end.
Definition endian_rust (x : endian) : string := match x with EnLE => "LE" | EnBE => "BE" end.
Definition sign_rust (x : sign) : string := match x with SgSigned => "Signed" | SgUnsigned => "Unsigned" end.

Lemma literal_tables_from_source :
  with_names namespace_rust namespace_tbl = src_lit_NameSpace /\
  with_names mergeprio_rust mergeprio_tbl = src_lit_MergePriority /\
  with_names vis_rust vis_tbl = src_lit_Visibility /\
  with_names access_rust access_tbl = src_lit_AccessMode /\
  with_names caching_rust caching_tbl = src_lit_CachingMode /\
  with_names irep_rust irep_tbl = src_lit_IntegerRepresentation /\
  with_names frep_rust frep_tbl = src_lit_FloatRepresentation /\
  with_names slope_rust slope_tbl = src_lit_Slope /\
  with_names dnot_rust dnot_tbl = src_lit_DisplayNotation /\
  with_names stdns_rust stdns_tbl = src_lit_StandardNameSpace /\
  with_names endian_rust endian_tbl = src_lit_Endianness /\
  with_names sign_rust sign_tbl = src_lit_Sign.
Proof. repeat split; reflexivity. Qed.
